import RosuModel.Model.Gradual
