import RosuModel.Model.GradualWire
import RosuModel.Model.GradualView
import RosuModel.Model.BuilderWire
import RosuModel.Model.Convert
import RosuModel.Model.DecodeWire
import RosuModel.Model.DecodeLineWire
import RosuModel.Model.TaikoTicksWire
import RosuModel.Model.DetWire
import RosuModel.Model.AttrsWire
import RosuModel.Model.ModsWire
import RosuModel.Model.StrainsWire
import RosuModel.Model.StarsWire
import RosuModel.Model.GenStateWire
import RosuModel.Model.SafetyWire
import RosuModel.Model.SuspicionWire
import RosuModel.Model.StackingWire
import RosuModel.Model.LifeWire
import RosuModel.Model.FiniteWire
import RosuModel.Model.ClockRate
import RosuModel.Model.PerfCalcWire
import RosuModel.Model.OsuSkillWire
import RosuModel.Model.FullPerfWire
import RosuModel.Model.PipelineOsuWire
import RosuModel.Model.PipelinePerfWire
import RosuModel.Model.SliderEventsWire
import RosuModel.Model.ManiaPatternWire
import RosuModel.Model.ConvOsuWire
import RosuModel.Model.ConvCatchWire
import RosuModel.Model.PipelineCatchWire
import RosuModel.Model.PipelineManiaConvertWire
import RosuModel.Model.SkillWire
import RosuModel.Model.TaikoPreWire
import RosuModel.Model.PipelineWire
import RosuModel.Model.PipelineBytesWire
import RosuModel.Model.PipelineManiaModsWire
import RosuModel.Model.CurveWire
import RosuModel.Model.PipelineCurveWire

open Rosu

def handle (line : String) : String :=
  match line.trimAscii.toString.splitOn " " with
  | ["GRAD", mode, objs, sig, ops] => Gradual.handleGrad mode objs sig ops
  | ["ONE", mode, objs, take] => Gradual.handleOne mode objs take
  | ["GRADV", mode, n, take] => GradualView.handleGradV mode n take
  | ["BLD", kind, mode, calls] => Builder.handleBld kind mode calls
  | ["CONV", mode, isConv, target] => Convert.handleConv mode isConv target
  | ["TANDEM", keys, payload] => Decode.handleTandem keys payload
  | ["LEGACY", depth, keys] => Decode.handleLegacy depth keys
  | ["LEGACYFB", keys] => Decode.handleLegacyFb keys
  | ["DECODE", mania, times, tags, sounds] => Decode.handleDecode mania times tags sounds
  | ["CLAMP", mania, f32s, f64s] => Decode.handleClamp mania f32s f64s
  | ["CPTS", lines] => Decode.handlePoints lines
  | ["DLN", sec, mode, lines] => DecodeLine.handleDLN sec mode lines
  | ["DFILE", lines] => DecodeLine.handleDFILE lines
  | ["DNUM", kind, s] => DecodeLine.handleDNUM kind s
  | ["DROUTE", lines] => DecodeLine.handleDROUTE lines
  | ["DBYTES", b] => DecodeLine.handleDBYTES b
  | ["COL", total, xs] => Decode.handleCol total xs
  | ["C2P", total] => Decode.handleC2P total
  | ["C2PSET", total, xs] => Decode.handleC2PSet total xs
  | ["TCOL", keys, rcs, rod, count, len] => Decode.handleTargetColumns keys rcs rod count len
  | ["TTICKS", v, sm, tr, dbl, dsv, tps, dps, sl] => TaikoTicks.handleTTicks v sm tr dbl dsv tps dps sl
  | ["BPM", last, tps] => DetWire.handleBpm last tps
  | ["OSU", seed, ops] => DetWire.handleOsu seed ops
  | ["CS", seed, ops] => DetWire.handleCs seed ops
  | "ATTR" :: args => Attrs.handleAttr args
  | ["MODS", sp, mode, bits] => Mods.handleMods sp mode bits
  | ["ORD", mode, bits] => Mods.handleOrd mode bits
  | ["LAZER", mode, bits, kind, speed, ar, cs, hp, od] => Mods.handleLazer mode bits kind speed ar cs hp od
  | ["GCR", mode, bits, kind, speed, clock] => Mods.handleGcr mode bits kind speed clock
  | ["LZS", mode, bits, tags, hro, lz] => Mods.handleLzs mode bits tags hro lz
  | ["IMS", how, acrs] => Mods.handleIms how acrs
  | ["SV", variant, sum0, ops] => StrainsWire.handleSV variant sum0 ops
  | ["DV", variant, kind, decay, k, factors, pushes] => StrainsWire.handleDV variant kind decay k factors pushes
  | ["SKILL", kind, fuel, objs] => StrainsWire.handleSKILL kind fuel objs
  | ["SECT", l, fuel, times] => StrainsWire.handleSECT l fuel times
  | "STARS" :: args => StarsWire.handleSTARS args
  | "GS" :: mode :: args => GenState.handleGS mode args
  | ["LQ", n, ops] => Safety.Wire.handleLQ n ops
  | ["CC", ops] => Safety.Wire.handleCC ops
  | ["FAC", total, rs, initial, upper, mode, seed, pats] => Safety.Wire.handleFAC total rs initial upper mode seed pats
  | ["BAN", g, s, e, fuel] => Safety.Wire.handleBAN g s e fuel
  | ["BANX", s, e] => Safety.Wire.handleBANX s e
  | ["TKH", p, q, d] => Safety.Wire.handleTKH p q d
  | ["SUSP", mode, objs] => Susp.Wire.handleSUSP mode objs
  | ["SUSPX", mode, objs] => Susp.Wire.handleSUSPX mode objs
  | ["STK", which, thr, objs] => Stack.Wire.handleSTK which thr objs
  | ["LIFE", mode, objs, sig, hist] => Lifetime.handleLife mode objs sig hist
  | "GSQ" :: mode :: args => GenState.handleGSQ mode args
  | "C09" :: args => Finite.handleFinite args
  | ["CRB", x] => ClockRate.handleCRB x
  | "PP" :: args => PerfCalc.handlePP args
  | ["MSKILL", rate, cols, take, objs] => SkillWire.handleMSKILL rate cols take objs
  | "PIPE" :: "osuc" :: args => PipelineCatch.Wire.handlePIPEOC args
  | "PIPE" :: "osub" :: args => PipelineBytes.Wire.handlePIPEOB args
  | "PIPE" :: "catchb" :: args => PipelineBytes.Wire.handlePIPECB args
  | ["PIPE", "maniax", bytes, flags, rate, take] => PipelineManiaMods.handlePIPEx bytes flags rate take
  | ["PIPE", "taiko", bytes, mods, rate, take, sum0, hw, "G"] => PipelineWire.handlePIPEtaikoG bytes mods rate take sum0 hw
  | ["PIPE", "taiko", bytes, mods, rate, take, sum0, hw] => PipelineWire.handlePIPEtaiko bytes mods rate take sum0 hw
  | ["TREC", clock, objs, bpms] => PipelineWire.handleTREC clock objs bpms
  | ["PIPE", mode, bytes, mods, rate, take] => PipelineWire.handlePIPE mode bytes mods rate take
  | ["TSKILL", sum0, hw, flags, n, recs] => SkillWire.handleTSKILL sum0 hw flags n recs
  | ["CSKILL", rate, cs, take, objs] => SkillWire.handleCSKILL rate cs take objs
  | "OSK" :: args => PerfCalc.handleOSK args
  | "FP" :: args => FullPerf.handleFP args
  | "PIPEP" :: args => PipelinePerf.Wire.handlePIPEP args
  | ["SLEV", st, sd, v, td, tot, sp] => SliderEvents.handleSLEV st sd v td tot sp
  | ["OSLD", v, sm, tr, sl] => SliderEvents.handleOSLD v sm tr sl
  | ["JUICE", v, sm, tr, objs] => SliderEvents.handleJUICE v sm tr objs
  | ["ONER", mode, v, sm, tr, objs, take] => SliderEvents.handleONER mode v sm tr objs take
  | ["MPH", total, rng, x, sample, ct, stair, cd, prev] => ManiaPattern.Wire.handleMPH total rng x sample ct stair cd prev
  | ["MPP", total, rng, x, sample, ct, cd, prev, span, start, end_, seg, nodes] =>
    ManiaPattern.Wire.handleMPP total rng x sample ct cd prev span start end_ seg nodes
  | ["MPE", total, rng, sample, prev, hold, short] => ManiaPattern.Wire.handleMPE total rng sample prev hold short
  | ["MPT", total, seed, cd, objs] => ManiaPattern.Wire.handleMPT total seed cd objs
  | ["MPN", start, span, dist, bl, sm] => ManiaPattern.Wire.handleMPN start span dist bl sm
  | ["OCONV", refl, version, take, cs, ar, clock, sl, objs] => ConvOsu.Wire.handleOCONV refl version take cs ar clock sl objs
  | ["LTT", start, dur, ns] => ConvOsu.Wire.handleLTT start dur ns
  | ["CCONV", hr, refl, objs] => ConvCatch.Wire.handleCCONV hr refl objs
  | ["TKPRE", clock, take, objs] => TaikoPre.handleTKPRE clock take objs
  | ["PIPE", "maniac", keys, hp, cs, od, ar, cd, clock, take, ho, inv, rnd, gidx, timing, objs] =>
    PipelineManiaConvert.Wire.handlePIPEMC keys hp cs od ar cd clock take ho inv rnd gidx timing objs
  | "PIPE" :: "osu" :: args => PipelineOsu.Wire.handlePIPEO args
  | ["PIPE", "catch", version, sm, tr, hr, refl, cs, ar, clock, conv, take, gidx, objs] =>
    PipelineCatch.Wire.handlePIPEC version sm tr hr refl cs ar clock conv take gidx objs
  | ["PIPE", "catchcurve", version, sm, tr, hr, refl, cs, ar, clock, conv, take, gidx, objs] =>
    PipelineCatch.Wire.handlePIPECC version sm tr hr refl cs ar clock conv take gidx objs
  | ["OSLDC", version, sm, tr, slider, expected, cps, ltt] =>
    PipelineCatch.Wire.handleOSLDC version sm tr slider expected cps ltt
  | ["CURVE", mode, cps, expected, prev, progress] => Curve.Wire.handleCURVE mode cps expected prev progress
  | ["CURVES", mode, sliders, progress] => Curve.Wire.handleCURVES mode sliders progress
  | _ => "bad-op"

partial def loop (h : IO.FS.Stream) (out : IO.FS.Stream) : IO Unit := do
  let line ← h.getLine
  if line.isEmpty then return ()
  out.putStrLn (handle line)
  loop h out

def main : IO Unit := do
  let out ← IO.getStdout
  loop (← IO.getStdin) out
