import RosuModel.Model.GradualWire
import RosuModel.Model.BuilderWire
import RosuModel.Model.Convert

open Rosu

def handle (line : String) : String :=
  match line.trimAscii.toString.splitOn " " with
  | ["GRAD", mode, objs, sig, ops] => Gradual.handleGrad mode objs sig ops
  | ["ONE", mode, objs, take] => Gradual.handleOne mode objs take
  | ["BLD", kind, mode, calls] => Builder.handleBld kind mode calls
  | ["CONV", mode, isConv, target] => Convert.handleConv mode isConv target
  | _ => "bad-op"

partial def loop (h : IO.FS.Stream) (out : IO.FS.Stream) : IO Unit := do
  let line ← h.getLine
  if line.isEmpty then return ()
  out.putStrLn (handle line)
  loop h out

def main : IO Unit := do
  let out ← IO.getStdout
  loop (← IO.getStdin) out
