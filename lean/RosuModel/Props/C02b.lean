import RosuModel.Lemmas.GradualView
import RosuModel.Lemmas.GradualViewGen
import RosuModel.Props.C02
import RosuModel.Props.C15

/-!
# C02 (view level) — the two paths show the evaluators the same objects

`Props/C02.lean` proves "the `i`-th gradual value = one-shot(`i`)" for skills that see only the
*index* of the object they process.  The real evaluators also receive the list of difficulty
objects and look at neighbours (`previous(n)`, `next(n)`, taiko's colour / rhythm groups).  Here a
processing step is `(index, view)` (`Model/GradualView.lean`): the view is the list of difficulty
objects the path built, each object carrying which raw objects its constructor read.  Statements
are for every abstract skill `process : S → Step → S`, every object list, every prefix.

* (a) per mode: the `i`-th gradual value equals the one-shot value when both run the *same*
  view-reading skill on the list their own path built — osu! and taiko for skills with ANY
  look-ahead (both paths build the full list and truncate only the processing loop), catch and
  mania for skills that look backwards only (the one-shot path truncates before construction);
* (b) the general lemma: truncation at the loop is invisible for any look-ahead; truncation before
  construction is invisible iff the look-ahead is 0 — with the concrete witness
  `osu_take_before_construction_breaks_lookahead` (a model of the seeded `.take` hoist);
* (c) `nth` hands the skipped objects to the skills with the same views as iterated `next`;
* (d) generated obligations (`Gen/Lookahead.lean`): the look-ahead of each mode's evaluators and
  the position of `take` in each path are what the model says; in particular the modes that
  truncate before construction look backwards only, so `gradual_value_eq_oneshot_with_views` has
  no unproved side condition.
-/

namespace Rosu.GradualView
open Rosu.Gradual

variable {S : Type}

/-! ## (b) The general lemma -/

/-- **Truncating only the processing loop is invisible for every look-ahead**: a path that builds
the same list as the gradual calculator hands every skill — whatever it reads of the list — the
same steps, however many of them it processes. -/
theorem full_construction_views_agree (vs : ViewSkills S) (Lone Lgrad : View) (h : Lone = Lgrad)
    (c : Nat) :
    processedPrefix (vs.toSkills Lone) c = processedPrefix (vs.toSkills Lgrad) c := by
  rw [h]

/-- **Truncating before construction is invisible exactly for backwards-only evaluators**: when
the one-shot list is the first `m` difficulty objects of the full list and all of them are
processed, the traces (views restricted to look-ahead `k`) agree iff `k = 0`, or nothing is
processed, or nothing was cut off. -/
theorem truncated_construction_views_agree_iff (k m : Nat) (L : View) :
    processedPrefix ((traceSkills (.bounded k)).toSkills (L.take m)) m =
        processedPrefix ((traceSkills (.bounded k)).toSkills L) m ↔
      (k = 0 ∨ m = 0 ∨ L.length ≤ m) := by
  rw [trace_eq_iff]
  exact views_agree_truncated_iff k m L

/-- …and with unbounded look-ahead (taiko) a truncated list is visible at every step unless
nothing was cut off. -/
theorem truncated_construction_unbounded_iff (m : Nat) (L : View) (hm : 0 < m) :
    processedPrefix ((traceSkills .unbounded).toSkills (L.take m)) m =
        processedPrefix ((traceSkills .unbounded).toSkills L) m ↔ L.length ≤ m := by
  rw [trace_eq_iff]
  constructor
  · intro h; exact (visible_unbounded_take_iff 0 m L).mp (h 0 hm)
  · intro h i _; exact (visible_unbounded_take_iff i m L).mpr h

/-- Equal traces give equal states for every skill that respects the look-ahead (the free instance
is universal). -/
theorem equal_traces_equal_states (vs : ViewSkills S) (la : Ahead) (hr : vs.Respects la)
    (L L' : View) (c : Nat)
    (h : processedPrefix ((traceSkills la).toSkills L) c = processedPrefix ((traceSkills la).toSkills L') c) :
    processedPrefix (vs.toSkills L) c = processedPrefix (vs.toSkills L') c := by
  rw [replay_trace vs la hr L c, replay_trace vs la hr L' c, h]

/-- **The seeded design is visibly wrong for osu!**: with `.take(n_passed)` hoisted before
`create_difficulty_objects`, on three circles the second gradual value (speed looks one ahead and
finds object 2) differs from one-shot(2) (whose list ends at object 1). -/
theorem osu_take_before_construction_breaks_lookahead :
    let objs : List OsuObj := [⟨.circle, 0, 0⟩, ⟨.circle, 0, 0⟩, ⟨.circle, 0, 0⟩]
    let vs := traceSkills osuAhead
    let sk := osuSkillsV vs objs (2 ^ 64 - 1)
    ((osuMachine sk objs).nexts (osuNew sk objs) 2).1.getLast? ≠
      some (Res.some (osuOneShotHoistedV vs objs 2)) := by
  decide

/-- …while the code as it is agrees on the same input (the statement above is not vacuous). -/
example :
    let objs : List OsuObj := [⟨.circle, 0, 0⟩, ⟨.circle, 0, 0⟩, ⟨.circle, 0, 0⟩]
    let vs := traceSkills osuAhead
    let sk := osuSkillsV vs objs (2 ^ 64 - 1)
    ((osuMachine sk objs).nexts (osuNew sk objs) 2).1.getLast? =
      some (Res.some (osuOneShotV vs objs 2)) := by
  decide

/-- The hoisted design would be correct for evaluators that look backwards only: it is the
look-ahead of `Speed` that makes it wrong. -/
theorem osu_take_before_construction_ok_without_lookahead (vs : ViewSkills S)
    (hr : vs.Respects (.bounded 0)) (objs : List OsuObj) (i : Nat) :
    osuOneShotHoistedV vs objs i = osuOneShotV vs objs i := by
  unfold osuOneShotHoistedV osuOneShotV osuOneShot
  simp only [osuOneShotPathHoisted, osuOneShotPath]
  refine Prod.ext rfl ?_
  show processedPrefix _ _ = processedPrefix _ _
  rcases Nat.eq_zero_or_pos (min objs.length i) with h0 | hpos
  · have : min (min objs.length i - 1) (osuDiffLen objs.length i) = 0 := by omega
    rw [this]; rfl
  · obtain ⟨m, hm⟩ : ∃ m, min objs.length i = m + 1 := ⟨min objs.length i - 1, by omega⟩
    rw [hm, osuCreate_take]
    refine take_prefix_congr vs hr _ m _ ?_
    omega

/-! ## (a) View equivalence per mode -/

/-- **osu!**: for every skill that reads the list — with ANY look-ahead — the first `n` values of
the gradual calculator (Difficulty without `passed_objects`: `gtake ≥ n`) are the one-shot values
for `passed_objects = 1, …, n`, each path handing the skill the list it built itself; then `None`.
Both lists are built from the full map: the one-shot path truncates only its processing loop. -/
theorem osu_gradual_value_eq_oneshot_with_views (vs : ViewSkills S) (objs : List OsuObj)
    (gtake : Nat) (hg : objs.length ≤ gtake) :
    let sk := osuSkillsV vs objs gtake
    ((osuMachine sk objs).nexts (osuNew sk objs) objs.length).1 =
      (List.range objs.length).map (fun d => Res.some (osuOneShotV vs objs (d + 1))) ∧
    ((osuMachine sk objs).next ((osuMachine sk objs).nexts (osuNew sk objs) objs.length).2).1 = .none := by
  intro sk
  obtain ⟨hv, hn⟩ := osu_next_eq_prefix sk objs
  refine ⟨?_, hn⟩
  rw [hv]
  apply List.map_congr_left
  intro d hd
  have hdlt : d < objs.length := by simpa using hd
  have hl : osuGradualList objs.length gtake = (osuOneShotPath objs.length (d + 1)).list :=
    osuCreate_pos _ _ _ (by omega) (by omega)
  show Res.some (osuOneShot (vs.toSkills (osuGradualList objs.length gtake)) objs (d + 1)) = _
  rw [hl]
  rfl

/-- **taiko** (every object list, since the fix of `TaikoGradualDifficulty::{next,nth}`): for every
skill with ANY look-ahead (the colour / rhythm groups span the whole list) the gradual values are the
one-shot values: both paths call the same `create_difficulty_objects` on the whole map; "objects up
to the `take`-th hit" only bounds the processing loop. -/
theorem taiko_gradual_value_eq_oneshot_with_views (vs : ViewSkills S) (objs : List Bool) :
    let H := hitsIn objs
    let sk := taikoSkillsV vs objs
    ((taikoMachine sk objs).nexts (taikoNew sk objs) H).1 =
      (List.range H).map (fun d => Res.some (taikoOneShotV vs objs (d + 1))) ∧
    ((taikoMachine sk objs).next ((taikoMachine sk objs).nexts (taikoNew sk objs) H).2).1 = .none := by
  intro H sk
  obtain ⟨hv, hn, _⟩ := taiko_next_eq_prefix sk objs
  exact ⟨hv, hn⟩

/-- **catch**: the one-shot path truncates the palpable objects BEFORE it builds difficulty
objects, so its list ends at the prefix; for every skill that looks backwards only the gradual
values are nevertheless the one-shot values. -/
theorem catch_gradual_value_eq_oneshot_with_views (vs : ViewSkills S) (hr : vs.Respects catchAhead)
    (evs : List CatchEvent) (hwf : CatchWellFormed evs) :
    let recs := catchGradualRecs evs
    let sk := catchSkillsV vs evs
    let m := catchMachine sk recs (recs.length - 1)
    (m.nexts (catchNew sk) recs.length).1 =
      (List.range recs.length).map (fun d => Res.some (catchOneShotV vs evs (d + 1))) ∧
    (m.next (m.nexts (catchNew sk) recs.length).2).1 = .none := by
  intro recs sk m
  obtain ⟨hv, hn, _⟩ := catch_next_eq_prefix sk evs hwf
  refine ⟨?_, hn⟩
  show ((catchMachine sk recs (recs.length - 1)).nexts (catchNew sk) recs.length).1 = _
  rw [hv]
  apply List.map_congr_left
  intro d _
  unfold catchOneShotV catchOneShot
  congr 2
  simp only [catchOneShotPath]
  rw [pairCreate_take]
  exact (take_prefix_congr vs hr _ d _ (by omega)).symm

/-- **mania**: as for catch — `.take(take)` sits before `create_difficulty_objects` on the one-shot
path; the gradual constructor's own `.take(take)` is the identity for a Difficulty without
`passed_objects` (`gtake ≥ n`). -/
theorem mania_gradual_value_eq_oneshot_with_views (vs : ViewSkills S) (hr : vs.Respects maniaAhead)
    (objs : List ManiaObj) (gtake : Nat) (hg : objs.length ≤ gtake) :
    let sk := maniaSkillsV vs objs gtake
    ((maniaMachine sk objs).nexts (maniaNew sk objs) objs.length).1 =
      (List.range objs.length).map (fun d => Res.some (maniaOneShotV vs objs (d + 1))) ∧
    ((maniaMachine sk objs).next ((maniaMachine sk objs).nexts (maniaNew sk objs) objs.length).2).1 = .none := by
  intro sk
  obtain ⟨hv, hn, _⟩ := mania_next_eq_prefix sk objs
  refine ⟨?_, hn⟩
  rw [hv]
  apply List.map_congr_left
  intro d _
  unfold maniaOneShotV maniaOneShot
  refine congrArg Res.some (Prod.ext rfl ?_)
  simp only [maniaOneShotPath]
  rw [pairCreate_take]
  have hfull : maniaGradualList objs.length gtake = pairCreate (List.range objs.length) := by
    unfold maniaGradualList
    rw [List.take_of_length_le (by simpa using hg)]
  show processedPrefix (vs.toSkills (maniaGradualList objs.length gtake)) _ = _
  rw [hfull]
  refine (take_prefix_congr vs hr _ d _ ?_).symm
  simp only [List.length_take]
  omega

/-- Non-vacuity (catch): two fruits and a droplet; a backwards-only trace skill; the third value's
trace shows the full three-object list on the gradual path restricted to what is behind. -/
example :
    let evs : List CatchEvent := [.fruit, .droplet, .fruit]
    let vs := traceSkills catchAhead
    let sk := catchSkillsV vs evs
    ((catchMachine sk (catchGradualRecs evs) 2).nexts (catchNew sk) 3).1.getLast? =
      some (Res.some (catchOneShotV vs evs 3)) ∧
    (catchOneShotV vs evs 3).2.length = 2 := by
  decide

/-- Without the look-ahead hypothesis the catch / mania statements are false: a skill that looks
one ahead sees the cut (mania, three notes, second value). -/
theorem mania_truncation_visible_with_lookahead :
    let objs : List ManiaObj := [⟨true, 1⟩, ⟨true, 1⟩, ⟨true, 1⟩]
    let vs := traceSkills (.bounded 1)
    let sk := maniaSkillsV vs objs (2 ^ 64 - 1)
    ((maniaMachine sk objs).nexts (maniaNew sk objs) 2).1.getLast? ≠
      some (Res.some (maniaOneShotV vs objs 2)) := by
  decide

/-! ## (c) `nth` hands over the same views as iterated `next` -/

/-- **osu!**: from every reachable state and for every `k` (since the fix of `Iterator::nth`: also when
fewer than `k+1` values remain — both sides are then `None`), `nth k` returns what `k+1` calls of `next` return — with view-reading skills, i.e. the skipped objects were processed
with the same `(index, view)` steps. -/
theorem osu_nth_eq_iterated_next_with_views (vs : ViewSkills S) (objs : List OsuObj) (gtake : Nat)
    (g : OsuGrad S) (i k : Nat) (hc : OsuCanon (osuSkillsV vs objs gtake) objs g i) :
    let m := osuMachine (osuSkillsV vs objs gtake) objs
    some (m.nth g k).1 = (m.nexts g (k + 1)).1.getLast? :=
  osu_nth_eq_iterated_next _ objs g i k hc

/-- The steps `nth` has fed the free instance by the time it returns a value (more than `k` values
remaining), explicitly: positions `0 … i+k−1`, each with the part of the FULL gradual list visible
from it. -/
theorem osu_nth_trace (la : Ahead) (objs : List OsuObj) (gtake : Nat) (g : OsuGrad (List Step))
    (i k : Nat) (hc : OsuCanon (osuSkillsV (traceSkills la) objs gtake) objs g i)
    (hlt : i + k < objs.length) :
    ∃ c, ((osuMachine (osuSkillsV (traceSkills la) objs gtake) objs).nth g k).1 =
      .some (c, (List.range (i + k + 1 - 1)).map
        (fun j => (⟨j, visible la j (osuGradualList objs.length gtake)⟩ : Step))) := by
  have hv := (osu_nth_processes_min _ objs g i k hc).2.1 hlt
  refine ⟨osuPrefixCounts objs (i + k + 1), ?_⟩
  rw [hv]
  unfold osuValue osuSkillsV
  rw [trace_eq_map]

theorem catch_nth_eq_iterated_next_with_views (vs : ViewSkills S) (evs : List CatchEvent)
    (g : CatchGrad S) (i k : Nat)
    (hc : CatchCanon (catchSkillsV vs evs) (catchGradualRecs evs) g i) :
    let recs := catchGradualRecs evs
    let m := catchMachine (catchSkillsV vs evs) recs (recs.length - 1)
    some (m.nth g k).1 = (m.nexts g (k + 1)).1.getLast? :=
  catch_nth_eq_iterated_next _ _ g i k hc

theorem mania_nth_eq_iterated_next_with_views (vs : ViewSkills S) (objs : List ManiaObj) (gtake : Nat)
    (g : ManiaGrad S) (i k : Nat) (hc : ManiaCanon (maniaSkillsV vs objs gtake) objs g i) :
    let m := maniaMachine (maniaSkillsV vs objs gtake) objs
    some (m.nth g k).1 = (m.nexts g (k + 1)).1.getLast? :=
  mania_nth_eq_iterated_next _ objs g i k hc

theorem taiko_nth_eq_iterated_next_with_views (vs : ViewSkills S) (objs : List Bool)
    (g : TaikoGrad S) (i k : Nat)
    (hc : TaikoCanon (taikoSkillsV vs objs) objs g i) :
    let m := taikoMachine (taikoSkillsV vs objs) objs
    some (m.nth g k).1 = (m.nexts g (k + 1)).1.getLast? :=
  taiko_nth_eq_iterated_next _ objs g i k (Or.inl hc)

/-! ## (d) Generated obligations: the model's look-ahead and `take` positions are the source's -/

section Generated
open Rosu.Gen.Lookahead

/-- Every neighbour / list access shape met by the extractor was understood. -/
theorem lookahead_shapes_understood : unparsed = [] := by decide

/-- `IDifficultyObject::{previous,next}` index the list as `GradualView.{previous,next}` do. -/
theorem neighbour_accessors_as_modelled :
    accessors =
      [("previous", "self.idx().checked_sub(backwards_idx+1).and_then(|idx|diff_objects.get(idx))"),
       ("next", "diff_objects.get(self.idx()+(forwards_idx+1))")] := by decide

/-- osu!: the furthest any evaluator reaches is one object ahead (`next(0, ..)` in `Speed`);
aim, flashlight, the rhythm evaluator and the section bookkeeping only call `previous(..)`; no
evaluator reads the length of the list or iterates it. -/
theorem osu_lookahead_as_modelled : modeAhead "osu" = osuAhead := by decide +kernel

/-- taiko: unbounded (colour / rhythm groups, `next_color_change`, `last_hit_object`, `run_len`). -/
theorem taiko_lookahead_as_modelled : modeAhead "taiko" = taikoAhead := by decide +kernel

/-- catch: backwards only. -/
theorem catch_lookahead_as_modelled : modeAhead "catch" = catchAhead := by decide +kernel

/-- mania: backwards only. -/
theorem mania_lookahead_as_modelled : modeAhead "mania" = maniaAhead := by decide +kernel

/-- **Position of `take` in every path**: whether the iterator handed to
`create_difficulty_objects` is truncated (catch and mania one-shot, mania gradual) and whether the
processing loop is (osu! and taiko one-shot) — as modelled by the `…Path` / `…GradualList`
functions.  The seeded hoist of `.take(n_passed)` in osu!'s `calculate` flips the first osu! row. -/
theorem take_position_as_modelled : genShapes = modelShapes := by decide

/-- Inside `create_difficulty_objects` the limit is used exactly as modelled: osu! `take > 0` guards
the first object, taiko gates the two counters of the `inspect` closure, catch and mania do not see
it — no constructor truncates on its own. -/
theorem ctor_take_uses_as_modelled :
    ctorTake =
      [("osu", ["let take=difficulty.get_passed_objects()",
                "let Some(mut last)=osu_objects_iter.next().filter(|_|take>0)else{return Vec::new();}"]),
       ("taiko", ["if*max_combo<take", "if take>0&&*n_diff_objects>0{*n_diff_objects-=1;}"]),
       ("catch", []),
       ("mania", [])] := by decide

/-- Every `.process(` call of a path hands over the list that path built: `&diff_objects` in
`calculate`, `&self.diff_objects` in both `next` and `nth` (so `ViewSkills.toSkills` with one list
per path is faithful, and `nth` cannot show the skills another list than `next`). -/
theorem process_calls_pass_own_list :
    ∀ r ∈ processLists,
      (r.2.1 = "oneshot" → r.2.2 = ["calculate:&diff_objects"]) ∧
      (r.2.1 = "gradual" → r.2.2 = ["next:&self.diff_objects", "nth:&self.diff_objects"]) := by decide

/-- **The modes that truncate before construction look backwards only** — from the generated
tables alone. -/
theorem truncating_modes_look_backwards_only :
    ∀ s ∈ shapes, s.path = "oneshot" → s.takeBeforeCtor = true → modeAhead s.mode = .bounded 0 := by
  decide +kernel

/-- …and the modes whose evaluators look ahead build the full list on both paths. -/
theorem lookahead_modes_build_full_list :
    ∀ s ∈ shapes, modeAhead s.mode ≠ .bounded 0 → s.takeBeforeCtor = false := by decide +kernel

/-- **Composition, no side condition left**: for every skill that reads the list no further ahead
than the evaluators of its mode do *according to the generated site table*, in all four modes the
gradual values are the one-shot values with each path showing the skill its own list. -/
theorem gradual_value_eq_oneshot_with_views (vs : ViewSkills S) :
    (∀ (objs : List OsuObj) (gtake : Nat), objs.length ≤ gtake →
      let sk := osuSkillsV vs objs gtake
      ((osuMachine sk objs).nexts (osuNew sk objs) objs.length).1 =
        (List.range objs.length).map (fun d => Res.some (osuOneShotV vs objs (d + 1)))) ∧
    (∀ (objs : List Bool),
      let sk := taikoSkillsV vs objs
      ((taikoMachine sk objs).nexts (taikoNew sk objs) (hitsIn objs)).1 =
        (List.range (hitsIn objs)).map (fun d => Res.some (taikoOneShotV vs objs (d + 1)))) ∧
    (vs.Respects (modeAhead "catch") → ∀ (evs : List CatchEvent), CatchWellFormed evs →
      let recs := catchGradualRecs evs
      let sk := catchSkillsV vs evs
      ((catchMachine sk recs (recs.length - 1)).nexts (catchNew sk) recs.length).1 =
        (List.range recs.length).map (fun d => Res.some (catchOneShotV vs evs (d + 1)))) ∧
    (vs.Respects (modeAhead "mania") → ∀ (objs : List ManiaObj) (gtake : Nat), objs.length ≤ gtake →
      let sk := maniaSkillsV vs objs gtake
      ((maniaMachine sk objs).nexts (maniaNew sk objs) objs.length).1 =
        (List.range objs.length).map (fun d => Res.some (maniaOneShotV vs objs (d + 1)))) := by
  refine ⟨fun objs gtake hg => (osu_gradual_value_eq_oneshot_with_views vs objs gtake hg).1,
    fun objs => (taiko_gradual_value_eq_oneshot_with_views vs objs).1, ?_, ?_⟩
  · intro hr evs hwf
    rw [catch_lookahead_as_modelled] at hr
    exact (catch_gradual_value_eq_oneshot_with_views vs hr evs hwf).1
  · intro hr objs gtake hg
    rw [mania_lookahead_as_modelled] at hr
    exact (mania_gradual_value_eq_oneshot_with_views vs hr objs gtake hg).1

/-- Non-vacuity of the look-ahead hypotheses: the free instances respect them. -/
example : (traceSkills catchAhead).Respects (modeAhead "catch") := by
  rw [catch_lookahead_as_modelled]; exact traceSkills_respects _

end Generated

/-! ## The view model agrees with the counting model about how much is processed -/

/-- The list each one-shot path builds is long enough for the number of objects
`Model/Gradual.lean` lets it process, and the loops of the two models coincide. -/
theorem path_loops_as_counted (n take : Nat) (objs : List Bool) :
    (osuOneShotPath n take).loop = min ((min n take) - 1) (osuDiffLen n take) ∧
    (catchOneShotPath n take).loop = (min n take) - 1 ∧
    (maniaOneShotPath n take).loop = (min take n) - 1 ∧
    (taikoOneShotPath objs take).list.length = (taikoCreate objs take).1 :=
  ⟨osuOneShotPath_loop n take, catchOneShotPath_loop n take, maniaOneShotPath_loop n take,
    taikoOneShotPath_list_length objs take⟩

/-- On every constructed list `idx` is the position, so `next(k)` is `Some` exactly when `k + 1`
more objects follow — what the `GRADV` lines compare with the real `IDifficultyObject::next`. -/
theorem next_available_iff (take : Nat) (raw : List Nat) (j k : Nat) (d : DObj)
    (hd : (osuCreate take raw)[j]? = some d) :
    (next d k (osuCreate take raw)).isSome ↔ j + k + 1 < (osuCreate take raw).length :=
  next_isSome_iff _ (osuCreate_idx take raw) j k d hd

end Rosu.GradualView
