import RosuModel.Lemmas.CurveSafe
import RosuModel.Lemmas.CurveCount
import RosuModel.Lemmas.CurveBezier
import RosuModel.Lemmas.CurveArc
import RosuModel.Lemmas.CurveBudget
import RosuModel.Lemmas.CurveTotal
import RosuModel.Lemmas.CurveReal
import RosuModel.Lemmas.CurveNaN

/-!
# C05 (slider path mathematics) — no panic, termination and vertex bounds of curve generation

`Model/Curve.lean` transcribes rosu-map 0.2.1's `curve.rs` (`Curve::new` / `BorrowedCurve::new`,
`calculate_path` for every path type with the segmentation into sub-paths, `calculate_length`,
`position_at` with the binary search) with every index / slice / `usize` subtraction / `unwrap` a
checked operation and fuel on the two loops that have no syntactic bound.  It is tied bit for bit to the
real code by the CURVE / CURVES lines of the C05 run (IEEE `Float32`/`Float` instance).

* **No checked operation fails** — for EVERY arithmetic (hence for the IEEE instance that is tied),
  every control-point list (empty, single point, all equal, any types at any positions), any expected
  distance, any stale buffer content: the only error the model can produce is running out of fuel.
* **Bounded work** — fixed counts for every arithmetic (catmull: exactly `100·(n−1)` vertices; the
  osu!-only pass never adds; circular arc: 2…999 points; linear: the control points; the binary search
  is total with fuel = length), and in EXACT arithmetic (ordered field) the subdivision stack loop of
  `approximate_bspline` terminates: each subdivision divides the squared second differences by 16, so
  with second differences `≤ ¼·16^k` it takes `≤ 2^(k+1) − 1` iterations and emits `≤ 2^k·(p−1)+1`
  vertices; at the decoder's coordinate limit `k = 11` (4095 iterations, `2048·(p−1)+1` vertices).
* **What this does NOT give for `f32`**: "the stack loop terminates in every arithmetic" is FALSE
  (`bezier_loop_can_spin`).  In `f32` the midpoints stop making progress once adjacent floats are
  `≥ 0.5` apart: the real `Curve::new` on a 4-point bezier at coordinate `2^23` never becomes flat and
  aborts on memory exhaustion (`harness/src/bin/curve_probe.rs bezier 8388608 4`).  Inside the
  decoder's limit `±131072` (ulp `≤ 2^-6`) rounding perturbs a second difference by `< 0.1`, far
  below the tolerance; that part is searched (CURVE lines up to the limit), not proved.
-/

namespace Rosu.Curve

variable {S D : Type} (A : Arith S D)

/-! ## no checked operation fails (every arithmetic) -/

/-- `Curve::new` / `BorrowedCurve::new` never panics: the only possible error of the model is
`Err.fuel`.  Every control-point list, expected distance, stale `bufs.path`, and any bezier buffers of
one common length (what `extend_exact` maintains; fresh buffers are `emptyBez`). -/
theorem curve_new_never_panics (fuel : Nat) (isOsu : Bool) (pts : Array (CP S))
    (expected : Option D) (prev : Array (Pos S)) (bez : Bez S) (hb : BezWF bez) :
    NoPanic (curveNew A fuel isOsu pts expected prev bez) :=
  curveNew_noPanic A fuel isOsu pts expected prev bez hb

example : BezWF (emptyBez : Bez S) := emptyBez_wf

/-- The curve it returns has at least as many cumulative lengths as vertices and at least one
length, and leaves the buffers well-formed for the next slider. -/
theorem curve_new_shape (fuel : Nat) (isOsu : Bool) (pts : Array (CP S)) (expected : Option D)
    (prev : Array (Pos S)) (bez : Bez S) (hb : BezWF bez) (c : Curve S D) (b' : Bez S)
    (h : curveNew A fuel isOsu pts expected prev bez = .ok (c, b')) :
    c.path.size ≤ c.lengths.size ∧ 1 ≤ c.lengths.size ∧ BezWF b' :=
  curveNew_sizes A fuel isOsu pts expected prev bez hb c b' h

/-- `calculate_length` is total (no fuel involved) and never lengthens the vertex list. -/
theorem calculate_length_total (path : Array (Pos S)) (expected : Option D) (optimized : D) :
    ∃ path' lens, calculateLength A path expected optimized = .ok (path', lens) ∧
      path'.size ≤ lens.size ∧ 1 ≤ lens.size ∧ path'.size ≤ path.size :=
  calculateLength_ok A path expected optimized

/-- `position_at(progress)` on a curve produced by `Curve::new` never panics and needs no fuel beyond
the slice length — every progress value (NaN included: the arithmetic is arbitrary). -/
theorem position_at_never_panics (fuel : Nat) (isOsu : Bool) (pts : Array (CP S))
    (expected : Option D) (prev : Array (Pos S)) (bez : Bez S) (hb : BezWF bez) (c : Curve S D)
    (b' : Bez S) (h : curveNew A fuel isOsu pts expected prev bez = .ok (c, b')) (p : D) :
    ∃ q, positionAt A c p = .ok q :=
  positionAt_ok A c (curveNew_sizes A fuel isOsu pts expected prev bez hb c b' h).1 p

/-- `idx_of_dist` (std's branch-free `binary_search_by`): total, the halving loop needs at most
`len` units of fuel, every probe is in bounds, the answer is `≤ len`. -/
theorem binary_search_total (lengths : Array D) (d : D) :
    ∃ i, idxOfDist A lengths d = .ok i ∧ i ≤ lengths.size :=
  idxOfDist_ok A lengths d

/-- `bezier_subdivide` never fails on `count ≥ 1` points with buffers of at least `count` entries, and
computes exactly the two de Casteljau children (the list specification of `Lemmas/CurveBasic.lean`). -/
theorem bezier_subdivide_refines_de_casteljau (pts l r mid : Array (Pos S)) (h1 : 1 ≤ pts.size)
    (hl : pts.size ≤ l.size) (hr : pts.size ≤ r.size) (hm : pts.size ≤ mid.size) :
    ∃ l' r' mid', subdivide A pts l r mid = .ok (l', r', mid') ∧
      l'.size = l.size ∧ r'.size = r.size ∧ mid'.size = mid.size ∧
      (l'.extract 0 pts.size).toList = leftChildOf A pts.toList ∧
      (r'.extract 0 pts.size).toList = rightChildOf A pts.toList :=
  subdivide_spec A pts l r mid h1 hl hr hm

/-! ## fixed vertex counts (every arithmetic) -/

/-- catmull: exactly `2 · CATMULL_DETAIL · (n − 1) = 100·(n−1)` vertices for `n ≥ 2` control points. -/
theorem catmull_vertex_count (path pts : Array (Pos S)) (h : 2 ≤ pts.size) :
    ∃ path', approximateCatmull A path pts = .ok path' ∧
      path'.size = path.size + 100 * (pts.size - 1) :=
  approximateCatmull_size A path pts h

example : ∃ pts : Array (Pos Unit), 2 ≤ pts.size := ⟨#[⟨(), ()⟩, ⟨(), ()⟩], by decide⟩

/-- The osu!-only optimisation pass over the catmull sub-path emits at most one vertex per input
vertex and never removes what was there before. -/
theorem catmull_osu_pass_bound (sub : Array (Pos S)) (l : List (Pos S)) (i : Nat)
    (st st' : CatOpt S D) (h : catOptLoop A sub l i st = .ok st') :
    st'.path.size ≤ st.path.size + l.length ∧ st.path.size ≤ st'.path.size :=
  catOptLoop_size A sub l i st st' h

/-- circular arc: when `approximate_circular_arc` succeeds it appends `k` points, `2 ≤ k ≤ 999`
(at `1000` it returns `false` and the caller falls back to bezier). -/
theorem circular_arc_vertex_cap (fuel : Nat) (path path' : Array (Pos S)) (a b c : Pos S)
    (h : approximateArc A fuel path a b c = .ok (some path')) :
    ∃ k, 2 ≤ k ∧ k < 1000 ∧ path'.size = path.size + k :=
  approximateArc_size A fuel path path' a b c h

/-! ## the subdivision loop in exact arithmetic -/

section exact
variable {K : Type} [Field K] [LinearOrder K] [IsStrictOrderedRing K] (T : Transc K)

/-- Each subdivision divides the bound on the squared second differences by 16, for both children. -/
theorem bezier_children_quarter (m : K) (pts : List (Pos K)) (h : SdLe m pts) :
    SdLe (m / 16) (leftChildOf (fieldArith T) pts) ∧
      SdLe (m / 16) (rightChildOf (fieldArith T) pts) :=
  ⟨SdLe_leftChildOf T m pts h, SdLe_rightChildOf T m pts h⟩

/-- `bezier_is_flat_enough` accepts exactly when every squared second difference is `≤ ¼`. -/
theorem bezier_flat_iff (c : Array (Pos K)) :
    isFlatEnough (fieldArith T) c = true ↔ SdLe (1 / 4) c.toList :=
  isFlatEnough_iff T c

/-- **Termination and budget of `approximate_bezier` in exact arithmetic.** With `p ≥ 2` control
points whose squared second differences are `≤ ¼·16^k`: any fuel `≥ 2^(k+1) − 1` suffices (that many
iterations of `while let Some(parent) = to_flatten.pop()` at most), the result is `ok`, and between
`p` and `2^k·(p−1) + 1` vertices are appended. -/
theorem bezier_terminates_exact (k : Nat) (pts path : Array (Pos K)) (b : Bez K)
    (hp : 2 ≤ pts.size) (hb : BezWF b) (hsd : SdLe (1 / 4 * 16 ^ k) pts.toList)
    (fuel : Nat) (hfuel : 2 ^ (k + 1) - 1 ≤ fuel) :
    ∃ path' b', approximateBezier (fieldArith T) fuel path pts b = .ok (path', b') ∧
      path'.size ≤ path.size + 2 ^ k * (pts.size - 1) + 1 ∧ path.size + pts.size ≤ path'.size :=
  approximateBezier_terminates T k pts path b hp hb hsd fuel hfuel

example : SdLe (1 / 4 * 16 ^ 0 : ℚ) [⟨0, 0⟩, ⟨1, 0⟩, ⟨2, 0⟩] := by
  intro i a b c ha hb hc
  cases i with
  | zero =>
    simp only [List.getElem?_cons_zero, List.getElem?_cons_succ, Option.some.injEq] at ha hb hc
    subst ha hb hc
    norm_num [sdSq]
  | succ i => simp at hc

/-- **At the decoder's coordinate limit** (`|x|, |y| ≤ 131072`): whatever the `p ≥ 2` control
points, in exact arithmetic the loop ends within 4095 iterations with at most `2048·(p−1)+1`
vertices. -/
theorem bezier_decoder_limit_exact (pts path : Array (Pos K)) (b : Bez K)
    (hp : 2 ≤ pts.size) (hb : BezWF b)
    (hcoord : ∀ v ∈ pts.toList, |v.x| ≤ 131072 ∧ |v.y| ≤ 131072)
    (fuel : Nat) (hfuel : 4095 ≤ fuel) :
    ∃ path' b', approximateBezier (fieldArith T) fuel path pts b = .ok (path', b') ∧
      path'.size ≤ path.size + 2048 * (pts.size - 1) + 1 :=
  approximateBezier_decoder_limit T pts path b hp hb hcoord fuel hfuel

/-- **One segment's budget** (exact arithmetic, decoder's coordinate limit, fuel `≥ 4095`): a segment
of `n ≥ 2` control points adds at most `2048·(n−1)+1` vertices whatever its type (linear `n`, catmull
`≤ 100·(n−1)`, circular arc `< 1000`, bezier / b-spline / the arc's fallback `≤ 2048·(n−1)+1`). -/
theorem segment_vertex_budget (fuel : Nat) (hfuel : 4095 ≤ fuel) (isOsu : Bool)
    (st st' : PathSt K K) (sub : Array (Pos K)) (kind : Spline) (h2 : 2 ≤ sub.size)
    (hb : BezWF st.bez) (hcoord : ∀ v ∈ sub.toList, |v.x| ≤ 131072 ∧ |v.y| ≤ 131072)
    (h : calculateSubpath (fieldArith T) fuel isOsu st sub kind = .ok st') :
    st'.path.size ≤ st.path.size + 2048 * (sub.size - 1) + 1 ∧ BezWF st'.bez :=
  calculateSubpath_budget T fuel hfuel isOsu st st' sub kind h2 hb hcoord h

/-- **The memory / time clause for curve generation**: in exact arithmetic, with every coordinate
within the decoder's limit, `calculate_path` on `N ≥ 1` control points — any types at any positions —
produces at most `2049·N + 1` vertices (segments share their end points, each contributes at most
`2048·(n_seg − 1) + 1`). -/
theorem path_vertex_budget (fuel : Nat) (hfuel : 4095 ≤ fuel) (isOsu : Bool) (pts : Array (CP K))
    (st st' : PathSt K K) (hb : BezWF st.bez)
    (hcoord : ∀ p ∈ pts.toList, |p.pos.x| ≤ 131072 ∧ |p.pos.y| ≤ 131072) (hne : 0 < pts.size)
    (h : calculatePath (fieldArith T) fuel isOsu pts st = .ok st') :
    st'.path.size ≤ 2049 * pts.size + 1 :=
  calculatePath_budget T fuel hfuel isOsu pts st st' hb hcoord hne h

/-- **`Curve::new` returns** (total correctness in exact arithmetic): for every control-point list
within the decoder's coordinate limit, any expected distance, any stale buffer content, fuel `4095`
is enough for BOTH unbounded loops (the bezier stack loop; the `theta_end` loop, given `atan2 ∈
[−π, π]`) — the model answers `ok`, never `fuel`. -/
theorem curve_new_terminates_exact (hpi : 0 < T.pi)
    (hatan : ∀ y x, -T.pi ≤ T.atan2 y x ∧ T.atan2 y x ≤ T.pi) (fuel : Nat) (hfuel : 4095 ≤ fuel)
    (isOsu : Bool) (pts : Array (CP K)) (expected : Option K) (prev : Array (Pos K)) (bez : Bez K)
    (hb : BezWF bez) (hcoord : ∀ p ∈ pts.toList, |p.pos.x| ≤ 131072 ∧ |p.pos.y| ≤ 131072) :
    ∃ c b', curveNew (fieldArith T) fuel isOsu pts expected prev bez = .ok (c, b') :=
  curveNew_total T hpi hatan fuel hfuel isOsu pts expected prev bez hb hcoord

/-- non-vacuity of the hypotheses on `π` / `atan2`: the real instance -/
example : 0 < realTransc.pi ∧ ∀ y x : ℝ,
    -realTransc.pi ≤ realTransc.atan2 y x ∧ realTransc.atan2 y x ≤ realTransc.pi :=
  ⟨real_pi_pos, real_atan2_range⟩

/-- The `while theta_end < theta_start { theta_end += 2π }` loop of `circular_arc_properties` runs
at most once when `atan2` answers in `[−π, π]`. -/
theorem theta_loop_one_iteration (ts te : K) (hpi : 0 < T.pi) (h1 : -T.pi ≤ te) (h2 : ts ≤ T.pi)
    (fuel : Nat) :
    ∃ te', thetaLoop (fieldArith T) ts (fuel + 1) te = .ok te' ∧
      (te' = te ∨ te' = te + 2 * T.pi) ∧ ts ≤ te' :=
  thetaLoop_field T ts te hpi h1 h2 fuel

end exact

/-! ## the honest negative statement -/

/-- "The stack loop of `approximate_bspline` terminates in every arithmetic." -/
def BezierLoopAlwaysTerminates : Prop :=
  ∀ (S D : Type) (A : Arith S D) (pts : Array (Pos S)), 2 ≤ pts.size →
    ∃ fuel, approximateBezier A fuel #[] pts emptyBez ≠ .error .fuel

/-- It is FALSE: in an arithmetic whose `<` never reports flatness every amount of fuel runs out
(the Rust loop has no depth limit; in `f32` this happens beyond coordinates `≈ 2^23`). -/
theorem bezier_loop_can_spin : ¬ BezierLoopAlwaysTerminates := by
  intro h
  obtain ⟨fuel, hf⟩ := h Unit Unit spinArith #[⟨(), ()⟩, ⟨(), ()⟩, ⟨(), ()⟩] (by decide)
  exact hf (approximateBezier_spins fuel _ _ _)

/-! ## the known finding `curve-nan-vertex` -/

/-- "When `circular_arc_properties`' determinant test passes, the arc it produces has finite vertices." -/
def ArcVerticesFiniteAfterTest : Prop :=
  ∀ (b c d : Pos (Option Int)) (path : Array (Pos (Option Int))),
    approximateArc nfArith 1 #[] b c d = .ok (some path) → ∀ v ∈ path.toList, v.x ≠ none ∧ v.y ≠ none

/-- **`curve_nan_vertex_witness`** — it is FALSE on the model instantiated with `nfArith` (integers with
`f32`'s 24-bit rounding of `+ − ×`, `none` = non-finite; `Lemmas/CurveNaN.lean`): for the inner
perfect-curve segment `(3244,−2736), (3225,104), (3208,2645)` (determinant 1) the test passes, `d` cancels
to 0 because `3225 · 5381` does not fit 24 bits, and `approximate_circular_arc` emits two NON-FINITE
vertices instead of falling back to bezier.  Replayed on the real code by
`corpus:witness-curve-arc-nonfinite-centre` (C05: every catch calculation then panics in `f32::clamp`),
`curve-nan-vertex-arc-*` (C09) and the CURVE line `P-inner-det1-d-cancels` (IEEE instance, bit-exact). -/
theorem curve_nan_vertex_witness : ¬ ArcVerticesFiniteAfterTest := by
  intro h
  obtain ⟨path, hp, hs, hv⟩ := curve_nan_vertex_witness_lemma
  have hne : path.toList ≠ [] := by
    intro e
    have : path.toList.length = 2 := by rw [Array.length_toList]; exact hs
    rw [e] at this
    cases this
  obtain ⟨v, hm⟩ := List.exists_mem_of_ne_nil _ hne
  exact (h wB wC wD path hp v hm).1 (hv v hm).1

/-- the arithmetic fact behind it: the product needs 25 bits and is rounded to even -/
theorem curve_nan_vertex_rounding : roundInt24 (3225 * 5381) = 17353724 ∧ (3225 * 5381 : Int) = 17353725 :=
  witness_product_rounds

end Rosu.Curve
