import RosuModel.Model.PipelinePerfObjs
import RosuModel.Props.C02e
import RosuModel.Props.C02f

/-!
# C03 — gradual performance = one-shot performance, nothing abstract: osu!standard and osu!catch (decoded objects)

Continuation of `Props/C03b.lean`.  Each statement is the pipeline's `*_gradual_eq_oneshot` (C02f / C02e) composed
with congruence of the attributes path; every score state, consistent or not.
-/
namespace Rosu.C03c
open Rosu.PipelinePerf Rosu.SkillOps Rosu.GenState Rosu.FullPerf Rosu.PerfCalc

section osu
variable {R S : Type} [NumOps R] [PPOps R]

/-- **`gradual_perf_eq_oneshot_perf`** (osu!standard): for every decoded object list, settings, `1 ≤ i ≤ n` and
EVERY score state `s`: `OsuGradualPerformance` advanced to the `i`-th object with `s` = one-shot
`OsuPerformance` on the map with `passed_objects(i)`, `.lazer(..)` and `.state(s)` — pp, every component, the
effective miss count, the speed deviation and the embedded difficulty attributes; failure included. -/
theorem osu_gradual_perf_eq_oneshot_perf (A : Rosu.ConvOsu.Ar R S) (E : Rosu.SliderEvents.Arith R) (fuel : Nat)
    (st : Rosu.PipelineOsu.Settings R) (x : OsuPerfExtra) (i : Nat) (s : OsuState)
    (objs : List (Rosu.PipelineOsu.PObj R S)) (hi : 1 ≤ i) (hn : i ≤ objs.length) :
    osuGradualPerfValue A E fuel st x i s objs =
      resMap some (osuPerfFromMap A E fuel st x (some i) .best (OsuB.fresh.update s) objs) := by
  unfold osuGradualPerfValue osuPerfFromMap
  rw [Rosu.C02f.osu_pipeline_gradual_eq_oneshot A E fuel st i objs hi hn]
  simp only [Option.getD_some]
  cases Rosu.PipelineOsu.osuDifficulty A E fuel st i objs <;> rfl

end osu

section catchMode
variable {F S : Type} [FOps F] [FOps S] [NumOps F] [PPOps F]

/-- **`gradual_perf_eq_oneshot_perf`** (catch): every arithmetic, every decoded object list whose sliders have at
least one span, every `i`, every score state -/
theorem catch_gradual_perf_eq_oneshot_perf (C : Casts F S) (A : Rosu.SliderEvents.Arith F)
    (CA : Rosu.ConvCatch.CAr S F) (SA : SecArith F) (fuel : Nat) (start0 : F) (st : Rosu.PipelineCatch.Settings F S)
    (mods : Nat) (i : Nat) (s : CatchState) (objs : List (Rosu.PipelineCatch.PObj F S))
    (hp : Rosu.SliderEvents.SpansPositive (objs.map Rosu.PipelineCatch.toRaw)) :
    catchGradualPerfValue C A CA SA fuel start0 st mods i s objs =
      catchPerfFromMap C A CA SA fuel start0 st mods (some i) (CatchB.fresh.update s) objs := by
  unfold catchGradualPerfValue catchPerfFromMap
  rw [Rosu.C02e.catch_pipeline_gradual_eq_oneshot C A CA SA fuel start0 st i objs hp]
  rfl

end catchMode

end Rosu.C03c
