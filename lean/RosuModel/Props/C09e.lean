import RosuModel.Lemmas.ConvOsuReal
import RosuModel.Lemmas.ConvCatch

/-!
# C09 — ranges of what the osu! and catch object converters write

Exact arithmetic (`realAr`: ℝ with the real square root; `ratCAr`: ℚ); the IEEE instances of the
same models are tied bit for bit to the converters (OCONV / CCONV lines, registered under C14).
-/
namespace Rosu.C09e
open Rosu.ConvOsu Rosu.ConvCatch Rosu.Rng

/-- **`lazy_travel_dist ≥ 0`**: the follow-circle loop of `compute_slider_cursor_pos` only ever
adds `len·(len − required)/len` with `len > required ≥ 50`, for every nested-object list,
positions, stack offset and radius. -/
theorem osu_lazy_travel_dist_nonneg (radius : ℝ) (o : Rosu.ConvOsu.Obj ℝ ℝ) (s s' : Slider ℝ ℝ)
    (hk : o.kind = .slider s) (h0 : 0 ≤ s.lazyDist)
    (hk' : (computeCursor realAr radius o).kind = .slider s') : 0 ≤ s'.lazyDist :=
  computeCursor_dist_nonneg radius o s s' hk h0 hk'

/-- **`lazy_travel_time ≥ 0`** for a slider that does not end before it starts — the nested times
need no hypothesis: the tracking end is at least `start + duration/2`, and a later last tick only
raises it. -/
theorem osu_lazy_travel_time_nonneg (start dur : ℝ) (hd : 0 ≤ dur) (nested : List (Rosu.ConvOsu.Nested ℝ ℝ)) :
    0 ≤ (lazyTravelTime realAr start dur nested).1 :=
  lazyTravelTime_nonneg start dur hd nested

/-- **`scale > 0`, `radius > 0`** for every circle size below `85/7` (≥ 11, the largest value the
attribute builder can hand over with mods), and **`time_preempt > 0`** for a positive approach
window and clock rate. -/
theorem osu_scale_radius_preempt_pos (cs ar clock : ℝ) (hcs : cs < 85 / 7) (har : 0 < ar) (hcl : 0 < clock) :
    0 < (scalingNew realAr cs).scale ∧ 0 < (scalingNew realAr cs).radius ∧ 0 < timePreempt realAr ar clock :=
  ⟨(scaling_pos cs hcs).1, (scaling_pos cs hcs).2, timePreempt_pos ar clock har hcl⟩

/-- **catch: after the hard-rock offset every fruit stays in `[0, 512]`**, for every PRNG state,
previous position / start time and every decoded `x ∈ [0, 512]`.  (For a decoded `x` outside
`[0, 512]` — legal — `apply_offset` leaves it where it is and `effective_x()` clamps later; such
maps are part of the CCONV tie.) -/
theorem catch_hr_offset_stays_in_playfield (x start : Rat) (st : St Rat Rat) (h0 : 0 ≤ x) (h1 : x ≤ 512)
    (off : Rat) (h : (applyHrOffset ratCAr x start st).1 = some off) : 0 ≤ x + off ∧ x + off ≤ 512 :=
  applyHrOffset_range x start st h0 h1 off h

/-- the random offset itself is at most 20 px -/
theorem catch_random_offset_le_20 (td : Int) (n : Nat) : (0 : Rat) ≤ ratCAr.rand td n ∧ ratCAr.rand td n ≤ 20 :=
  rand_range td n

/-- non-vacuity: `x = 100` after a fruit at `x = 100` 200 ms earlier gets a random offset -/
example : ((applyHrOffset ratCAr 100 200 ⟨some 100, 0, Osu.new 1337⟩).1).isSome = true := by
  decide +kernel

end Rosu.C09e
