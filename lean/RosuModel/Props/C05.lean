import RosuModel.Lemmas.SafetyQueue
import RosuModel.Lemmas.SafetyColumns
import RosuModel.Lemmas.SafetyLoops
import RosuModel.Lemmas.SafetyStacking
import RosuModel.Props.C15
import RosuModel.Props.C16
import RosuModel.Props.C19

/-!
# C05 — no panic, abort or hang on any decodable, non-suspicious map  (**partial**)

What a Lean model can say about this property: the *integer / bookkeeping cores* whose panicking
branch (index out of bounds, unsigned underflow, shift overflow, `assert!`) or whose loop the
property is about never take that branch / always terminate, for ALL inputs.  Every model function
returns `none` / `.panic` / `.outOfFuel` exactly where the Rust code would panic or spin; the
theorems show these outcomes are unreachable under the stated hypotheses, and `decide`d witnesses
show each hypothesis is needed.

What no theorem here says (carried by the search of `harness/src/c05.rs` on the implementation):
panics inside the numerical kernels, rosu-map's curve code, the f32/f64 versions of the time
loops (the exact-arithmetic models below are what the float code approximates; the driver carries a
bit-exact `Float32` replica of `BananaShower::new` that is compared with the real function),
termination of the PRNG-driven `find_available_column` (stated precisely below as a property of
the draw stream), time and memory budgets.
-/

namespace Rosu.C05
open Rosu.Safety

/-! ## `LimitedQueue<T, N>` (src/util/limited_queue.rs) -/

/-- `LimitedQueue::new()` panics (usize underflow of `N - 1`) exactly for `N = 0`; the crate
instantiates `N = 7` (`MAX_NOTES_FOR_DENSITY`). -/
theorem queue_new_ok_iff (n : Nat) : (LQ.new n).isSome = true ↔ 0 < n := LQ.new_isSome_iff n

/-- **Every operation sequence is panic-free.**  After any number of pushes onto a fresh queue of
capacity `N ≥ 1`: the store `queue[end]` was in bounds each time, `len = min(pushes, N)`, and then
`queue[idx]` (for ANY `idx`, also `idx ≥ len`), `last()` and both slice ranges of `as_slices()` are in
bounds, the two slices holding exactly `len` elements. -/
theorem queue_never_panics (n : Nat) (hn : 0 < n) (pushes : List Nat) :
    ∃ q0 q, LQ.new n = some q0 ∧ q0.pushAll pushes = some q ∧
      q.len = min pushes.length n ∧
      (∀ i, (q.index i).isSome = true) ∧
      (q.last).isSome = true ∧
      (∃ a b, q.asSlices = some (a, b) ∧ a.length + b.length = q.len) ∧
      (∀ v, (q.push v).isSome = true) := by
  obtain ⟨q0, h0⟩ := Option.isSome_iff_exists.mp ((LQ.new_isSome_iff n).mpr hn)
  obtain ⟨hw0, hc0, hl0⟩ := LQ.new_wf h0
  obtain ⟨q, hq, hw, hc, hl⟩ := LQ.pushAll_wf pushes hw0
  refine ⟨q0, q, h0, hq, by rw [hl, hl0, hc0, Nat.zero_add], fun i => LQ.index_isSome hw i,
    LQ.last_isSome hw, LQ.asSlices_ok hw, fun v => ?_⟩
  obtain ⟨q', h', _⟩ := LQ.push_wf hw v
  rw [h']; rfl

/-- the most recent push is what `last()` / `queue[end]` holds -/
theorem queue_last_is_latest_push {q : LQ} (hw : q.WF) (v : Nat) :
    ∃ q', q.push v = some q' ∧ q'.last = some (some v) := by
  obtain ⟨q', h', hw', _, hl, _, hg⟩ := LQ.push_wf hw v
  refine ⟨q', h', ?_⟩
  unfold LQ.last getChecked
  have hcp := hw.cap_pos
  have : q'.len ≠ 0 := by rw [hl]; split <;> omega
  rw [if_neg this, hg]

/-- non-vacuity + the concrete layout of the crate's own `as_slices` test (`N = 3`, pushes 1..5) -/
example : (do let q ← LQ.new 3; let q ← q.pushAll [1, 2, 3, 4, 5]; q.asSlices) = some ([3], [4, 5]) := by
  decide

/-- a corrupted state (end ≥ N) does panic: the invariant is what keeps the indices in bounds -/
example : (⟨3, [0, 0, 0], 3, 3⟩ : LQ).asSlices = none := by decide

/-! ## `ContainedColumns` (src/mania/convert/pattern.rs) -/

/-- `1 << column` on the `u16` cannot overflow for `column < 16`; `insert`/`contains` behave as a set. -/
theorem columns_shift_safe (s : Cols) (c d : Nat) (hc : c < 16) (hd : d < 16) :
    ∃ s', Cols.insert s c = some s' ∧ Cols.contains s' d = some (decide (d = c) || s.testBit d) :=
  Cols.contains_insert s hc hd

/-- …and does overflow from 16 on (debug panic; a release build silently aliases column 16 with
column 0).  The converter only ever uses `column < total_columns ≤ 10` (`C19.target_columns_range`,
`C19.column_lt_total`). -/
theorem columns_shift_overflows_from_16 (s : Cols) (c : Nat) (h : 16 ≤ c) :
    Cols.insert s c = none ∧ Cols.contains s c = none := by
  unfold Cols.insert Cols.contains
  rw [shl16_none h]; exact ⟨rfl, rfl⟩

/-- every column the converter can produce shifts safely -/
theorem generated_columns_shift_safe (keys : Option Nat) (rcs rod : Int) (count len : Nat) (x : Int)
    (hk : ∀ k, keys = some k → 1 ≤ k ∧ k ≤ 10) (s : Cols) :
    let total := Rosu.ConvertWF.targetColumns keys rcs rod count len
    (Cols.insert s (Rosu.ConvertWF.column x total)).isSome = true := by
  intro total
  have hr := Rosu.C19.target_columns_range keys rcs rod count len
  have h1 : 1 ≤ total ∧ total ≤ 10 := by
    cases hkeys : keys with
    | none => have := hr.2 hkeys; exact ⟨by show 1 ≤ Rosu.ConvertWF.targetColumns keys rcs rod count len; omega, by show Rosu.ConvertWF.targetColumns keys rcs rod count len ≤ 10; omega⟩
    | some k =>
      have := hr.1 k hkeys
      have hk' := hk k hkeys
      exact ⟨by show 1 ≤ Rosu.ConvertWF.targetColumns keys rcs rod count len; omega, by show Rosu.ConvertWF.targetColumns keys rcs rod count len ≤ 10; omega⟩
  have hc := Rosu.C19.column_lt_total x total h1.1
  rw [Cols.insert_some s (by omega)]; rfl

/-! ## `find_available_column` (hit_object.rs, path_object.rs, end_time_object.rs) -/

/-- **Deterministic (`GATHERED`) variant terminates.**  With `total_columns ≤ 16`,
`random_start ∈ {0,1}`, an initial column `< total_columns`, and the `assert!` precondition (some
column of `[random_start, total_columns)` is free): the function returns a free column of that
range (or the free initial column) within `total_columns` iterations — no `u8` overflow of
`last += 1`, no shift overflow, no failed assertion. -/
theorem find_available_column_gathered_terminates (patterns : List Cols) (total rs initial : Nat)
    (ht : total ≤ 16) (hrs : rs ≤ 1) (hi : initial < total)
    (hfree : ∃ c, rs ≤ c ∧ c < total ∧ isValid patterns c = some true) :
    ∃ c', findAvailableColumn (gatheredNext total rs) patterns rs total total () initial = .found c' ∧
      isValid patterns c' = some true ∧ (c' = initial ∨ (rs ≤ c' ∧ c' < total)) := by
  obtain ⟨c, hc1, hc2, hcv⟩ := hfree
  unfold findAvailableColumn
  have hi16 : initial < 16 := by omega
  cases hv : (patterns.all (fun p => !p.testBit initial))
  · rw [isValid_eq patterns hi16, hv]
    obtain ⟨b, hb, hiff⟩ := hasValidColumn_spec patterns (total - rs) rs (by omega)
    have hbt : b = true := hiff.mpr ⟨c, hc1, by omega, hcv⟩
    subst hbt
    rw [hb]
    have hne : initial ≠ c := by
      intro h; subst h; rw [isValid_eq patterns hi16, hv] at hcv; cases hcv
    obtain ⟨c', h1, h2, h3, h4⟩ := facLoop_gathered patterns total rs ht hrs c hc1 hc2 hcv total initial hi
      (Or.inr hne) (fun h => absurd h hne) (gatheredSteps_le total rs initial c hi hc1 hc2)
    exact ⟨c', h1, h4, Or.inr ⟨h2, h3⟩⟩
  · rw [isValid_eq patterns hi16, hv]
    exact ⟨initial, rfl, by rw [isValid_eq patterns hi16, hv], Or.inl rfl⟩

/-- The callers' bookkeeping establishes the `assert!`: `generate_random_notes` caps `note_count` at
`total_columns − random_start − prev_pattern.column_with_objs()`, so when the `k`-th note is placed
(`k` < that cap, the new pattern holding `≤ k` columns) fewer columns are occupied than the range
has, hence a free one exists. -/
theorem assert_has_valid_column_holds (pattern prev : Cols) (total rs : Nat) (ht : total ≤ 16) (hrs : rs ≤ total)
    (hcount : Cols.len pattern + Cols.len prev < total - rs) :
    hasValidColumn [pattern, prev] rs (total - rs) = some true := by
  obtain ⟨c, h1, h2, h3⟩ := exists_valid_of_count pattern prev rs (total - rs) (by omega) hcount
  obtain ⟨b, hb, hiff⟩ := hasValidColumn_spec [pattern, prev] (total - rs) rs (by omega)
  rw [hb, hiff.mpr ⟨c, h1, h2, h3⟩]

/-- Without a free column the `assert!` fires (instead of an endless loop): e.g. 4K, columns 0–3 taken. -/
theorem find_available_column_asserts_when_full :
    findAvailableColumn (gatheredNext 4 0) [0b1111] 0 4 100 () 2 = .assertFailed := by decide

/-- Full statement for the PRNG-driven variants: "terminates for every draw stream". -/
def FacRandomAlwaysTerminates : Prop :=
  ∀ (patterns : List Cols) (lower upper : Nat) (stream : Nat → Nat),
    (∀ k, lower ≤ stream k ∧ stream k < upper) → upper ≤ 16 →
    (∃ c, lower ≤ c ∧ c < upper ∧ isValid patterns c = some true) →
    ∃ fuel c, facLoop (streamNext stream) patterns fuel 0 0 = .found c

/-- It is false of the loop as written: a stream that keeps drawing an occupied column spins
although the `assert!` passed (column 1 free, stream constantly 0). -/
theorem fac_random_always_terminates_fails : ¬ FacRandomAlwaysTerminates := by
  intro h
  obtain ⟨fuel, c, hc⟩ := h [0b01] 0 2 (fun _ => 0) (fun _ => ⟨Nat.le_refl _, by decide⟩) (by decide)
    ⟨1, by decide, by decide, by decide⟩
  rw [facLoop_stream_spins [0b01] (fun _ => 0) (fun _ => by decide) fuel 0 0] at hc
  cases hc

/-- **What the PRNG-driven variants need (partial):** the loop returns the first free draw; it
terminates iff the stream eventually draws a free column.  (For the xorshift generator of
`util/random/osu.rs` this is not proved; the search exercises it.) -/
theorem find_available_column_random_partial (patterns : List Cols) (stream : Nat → Nat) (fuel j : Nat)
    (hj : j < fuel) (hv : isValid patterns (stream j) = some true)
    (hbefore : ∀ i, i < j → isValid patterns (stream i) = some false) :
    facLoop (streamNext stream) patterns fuel 0 0 = .found (stream j) := by
  have := facLoop_stream_found patterns stream fuel 0 0 j hj (by rw [Nat.zero_add]; exact hv)
    (fun i hi => by rw [Nat.zero_add]; exact hbefore i hi)
  rw [Nat.zero_add] at this; exact this

example : findAvailableColumn (gatheredNext 7 0) [0b0010110, 0b0000001] 0 7 7 () 1 = .found 3 := by decide
example : findAvailableColumn (gatheredNext 8 1) [0b11111100] 1 8 8 () 7 = .found 1 := by decide

/-! ## `BananaShower::new` (src/catch/object/banana_shower.rs, as fixed by e8e374c) -/

/-- **Exact arithmetic: terminates with the closed-form count.**  For `i32` times with
`0 ≤ start, end` (no overflow of the subtraction), over exact dyadic rationals the loop performs
`2^k + 1` iterations where `k` is the number of halvings (`d/2^k ≤ 100`), and needs no more fuel
than that plus one. -/
theorem banana_exact_terminates (start end_ : Int) (hs : 0 ≤ start) (hs' : start ≤ 2147483647)
    (he : 0 ≤ end_) (he' : end_ ≤ 2147483647) (fuel : Nat) (hf : 2 ^ halvings (end_ - start).toNat (end_ - start).toNat 0 + 2 ≤ fuel) :
    bananaExact start end_ fuel = some (bananaCount start end_) := by
  unfold bananaExact bananaCount
  rw [i32Sub_some_of_range he he' hs hs']
  simp only
  by_cases hd : end_ - start ≤ 0
  · rw [if_pos hd, if_pos hd]
  · rw [if_neg hd, if_neg hd]
    have hpos : 0 < (end_ - start).toNat := by omega
    rw [progLoop_closed _ _ hpos fuel (by rw [Nat.mul_div_cancel_left _ hpos]; exact hf),
      Nat.mul_div_cancel_left _ hpos]

/-- the count is linear in the duration: at most `d/50 + 2` bananas -/
theorem banana_count_le (start end_ : Int) : bananaCount start end_ ≤ (end_ - start).toNat / 50 + 2 := by
  unfold bananaCount
  simp only
  split
  · omega
  · have := two_pow_halvings_le (end_ - start).toNat
    omega

/-- `(end as i32) - (start as i32)` itself can overflow (debug panic) for times of opposite sign
near the `i32` limits — outside the realistic domain, inside the adversarial one (release wraps). -/
theorem banana_i32_sub_overflows : bananaExact (-2147483648) 2147483647 10 = none := by decide

/-- **Control skeleton of the fixed code**: every iteration either strictly increases `time`
(w.r.t. any rank that the arithmetic's comparison respects) or leaves the loop; hence the loop
terminates within `rank end − rank time + 2` iterations in ANY arithmetic — exact, f32, f64 —
whose `<=` is compatible with a rank into ℕ (for f32: the order-preserving integer key of the bit
pattern). -/
theorem banana_fixed_loop_terminates {T : Type} (A : TimeArith T) (rank : T → Nat) (end_ spacing time : T)
    (hmono : ∀ a b, A.le a b = false → rank b < rank a)
    (hend : ∀ t, A.le t end_ = true → rank t ≤ rank end_) (count : Nat) :
    (guardedLoop A end_ spacing (rank end_ + 1 - rank time + 1) time count).isSome = true :=
  guardedLoop_terminates A rank end_ spacing hmono hend _ time count (Nat.le_refl _)

/-- Full statement for the loop as it was before the fix. -/
def UnguardedLoopTerminates : Prop :=
  ∀ (A : TimeArith Nat) (end_ spacing time : Nat), 0 < spacing →
    ∃ fuel, (unguardedLoop A end_ spacing fuel time 0).isSome = true

/-- It fails for an arithmetic with absorption — the shape of the f32 hang on
`256,192,20000000,12,0,20000001` (spinner of 1 ms at t ≥ 2^24 ms): no fuel suffices. -/
theorem unguarded_loop_hangs : ¬ UnguardedLoopTerminates := by
  intro h
  obtain ⟨fuel, hf⟩ := h absorbing 20000001 1 20000000 (by decide)
  rw [unguardedLoop_absorbing_spins 20000001 1 20000000 (by decide) (by decide) fuel 0] at hf
  cases hf

/-- the fixed loop on the same input and arithmetic: one banana, two iterations of fuel -/
theorem guarded_loop_on_hang_input : guardedLoop absorbing 20000001 1 2 20000000 0 = some 1 := by decide

/-- in exact arithmetic the guard never fires: both loops agree (the fix changes nothing where the
old code terminated) -/
theorem guarded_eq_unguarded_exact (end_ spacing : Nat) (hs : 0 < spacing) :
    ∀ (fuel time count : Nat), guardedLoop exactNat end_ spacing fuel time count =
      unguardedLoop exactNat end_ spacing fuel time count := by
  intro fuel
  induction fuel with
  | zero => intro _ _; rfl
  | succ fuel ih =>
    intro time count
    unfold guardedLoop unguardedLoop
    have : exactNat.le (exactNat.add time spacing) time = false := by
      simp [exactNat]; omega
    simp only [this, Bool.false_eq_true, if_false]
    rw [ih]

/-! ## taiko hit loop (src/taiko/convert.rs) -/

/-- **Exact arithmetic: the tick loop terminates with a closed-form count.**  With
`tick_spacing = p/q > 0` (guaranteed by `should_convert_slider_to_taiko_hits`: `tick_spacing > 0.0`)
and an integer `duration`, the loop pushes `⌊(8·duration·q + p) / (8p)⌋ + 1 ≥ 1` hits. -/
theorem taiko_hits_terminates (p q duration : Nat) (hp : 0 < p) (fuel : Nat)
    (hf : (8 * duration * q + p) / (8 * p) + 2 ≤ fuel) :
    taikoHits p q duration fuel = some ((8 * duration * q + p) / (8 * p) + 1) := by
  unfold taikoHits
  rw [if_neg (by omega)]
  exact progLoop_closed _ _ (by omega) fuel hf

/-- at least one hit per converted slider — the hypothesis of `C19.taiko_splice_total`
(`idx -= 1` in the removal branch is never reached), also for `tick_spacing = 0` (the `break`). -/
theorem taiko_hits_pos (p q duration fuel n : Nat) (h : taikoHits p q duration fuel = some n) : 1 ≤ n := by
  unfold taikoHits at h
  split at h
  · cases h; exact Nat.le_refl _
  · rename_i hp
    cases fuel with
    | zero => cases h
    | succ fuel =>
      unfold progLoop at h
      rw [if_pos (Nat.zero_le _)] at h
      have hp8 : 0 < 8 * p := by omega
      by_cases hfu : progRemaining (8 * p) (8 * duration * q + p) (0 + 8 * p) + 1 ≤ fuel
      · rw [progLoop_spec _ _ hp8 fuel _ _ hfu] at h
        cases h; omega
      · -- not enough fuel to finish: the result would be `none`
        exfalso
        have : ∀ (f acc c : Nat), ¬ progRemaining (8 * p) (8 * duration * q + p) acc + 1 ≤ f →
            progLoop (8 * p) (8 * duration * q + p) f acc c = none := by
          intro f
          induction f with
          | zero => intro _ _ _; rfl
          | succ f ih =>
            intro acc c hn
            unfold progLoop
            by_cases hle : acc ≤ 8 * duration * q + p
            · rw [if_pos hle]
              apply ih
              intro hcontra
              apply hn
              unfold progRemaining at hcontra ⊢
              rw [if_pos hle]
              by_cases h2 : acc + 8 * p ≤ 8 * duration * q + p
              · rw [if_pos h2] at hcontra
                have : (8 * duration * q + p - acc) / (8 * p) = (8 * duration * q + p - acc - 8 * p) / (8 * p) + 1 :=
                  Nat.div_eq_sub_div hp8 (by omega)
                rw [Nat.sub_add_eq] at hcontra
                rw [this]; omega
              · rw [if_neg h2] at hcontra
                have : (8 * duration * q + p - acc) / (8 * p) = 0 := Nat.div_eq_of_lt (by omega)
                rw [this]; omega
            · exfalso; apply hn; unfold progRemaining; rw [if_neg hle]; omega
        rw [this fuel _ _ hfu] at h
        cases h

/-- a zero spacing without the `break` (or without the `tick_spacing > 0` test) would spin and
push forever: the exact loop has no finite fuel -/
theorem taiko_zero_spacing_would_spin (bound fuel : Nat) : progLoop 0 bound fuel 0 0 = none :=
  progLoop_zero_step bound fuel 0 0 (Nat.zero_le _)

example : taikoHits 125 1 500 10 = some 5 := by decide

/-! ## osu! stacking (src/osu/convert.rs, `stacking`) -/

/-- **No index of the stacking pass is ever out of bounds**, for every object count and whatever
the float predicates (spinner? in range? positions close?) answer: `n` only moves down through
`checked_sub`, `obj_i_idx ≤ i`, and the inner `for j in n+1..=i` stays below `len`. -/
theorem osu_stacking_indices_in_bounds (O : StackOracles) (len : Nat) : (stacking O len).isSome = true :=
  stacking_isSome O len

/-- the loops really index: with an object list shorter than the indices used the model reports
the out-of-bounds access (non-vacuity of the checked accesses) -/
example : circleLoop ⟨fun _ => false, fun _ => false, fun _ => true, fun _ _ => false, fun _ _ => false,
    fun _ _ => true, fun _ => false⟩ 2 5 5 5 = none := by decide

example : stacking ⟨fun k => k == 2, fun k => k == 1, fun k => k != 1 && k != 2, fun a b => a > b + 2, fun _ _ => true,
    fun _ _ => true, fun _ => false⟩ 6 = some () := by decide

/-! ## strain section loop (src/util/macros.rs) and the non-suspicious filter -/

open Rosu.Skill in
/-- Number of section-loop iterations between two objects, exact integer times: at most
`(t_last − t_first) / L + 1`.  `check_suspicion` rejects maps with `t_last − t_first > 86 400 000`
(`TooSuspicious::Length`), so for `L = 400` and clock rate 1 a skill runs at most 216 001
iterations — the non-suspicious filter is what bounds this loop (and a clock rate `r` scales the
bound by `1/r`; see the finding `resource-proportional-work`). -/
theorem section_iterations_bounded (L a b : Int) (hL : 0 < L) (hab : a ≤ b) :
    ceilDiv L b - ceilDiv L a ≤ (b - a) / L + 1 := by
  unfold ceilDiv
  have h1 := Int.emod_add_mul_ediv (-b) L
  have h2 := Int.emod_add_mul_ediv (-a) L
  have h3 := Int.emod_add_mul_ediv (b - a) L
  have m1 := Int.emod_nonneg (-b) (by omega : L ≠ 0)
  have m2 := Int.emod_lt_of_pos (-a) hL
  have m3 := Int.emod_nonneg (b - a) (by omega : L ≠ 0)
  have m4 := Int.emod_lt_of_pos (b - a) hL
  have m5 := Int.emod_lt_of_pos (-b) hL
  have m6 := Int.emod_nonneg (-a) (by omega : L ≠ 0)
  -- L * (x) comparisons: reduce to a linear problem in the quotients
  have key : L * (-((-b) / L) - -((-a) / L)) < L * ((b - a) / L + 1 + 1) := by
    have e1 : L * ((-b) / L) = -b - (-b) % L := by omega
    have e2 : L * ((-a) / L) = -a - (-a) % L := by omega
    have e3 : L * ((b - a) / L) = b - a - (b - a) % L := by omega
    rw [Int.mul_sub, Int.mul_neg, Int.mul_neg, e1, e2, Int.mul_add, Int.mul_add, e3]
    omega
  have := Int.lt_of_mul_lt_mul_left key (by omega : 0 ≤ L)
  omega

/-- the suspicion bound, numerically: one day of 400 ms sections -/
example : (86400000 : Int) / 400 + 1 = 216001 := by decide

/-- Re-statement (from C16) used by C05: with exact integer times the section loop terminates
within `start_time − section_end` iterations. -/
theorem section_loop_terminates {P σ : Type} (L : Int) (hL : 1 ≤ L) (F : Rosu.Skill.StrainFns Int P σ)
    (o : Rosu.Skill.Obj Int P) (st : Rosu.Skill.State Int σ) (fuel : Nat)
    (h : (o.startTime - st.sectionEnd).toNat ≤ fuel) :
    (Rosu.Skill.sectionLoop (Rosu.Skill.intArith L) F o fuel st).isSome = true :=
  Rosu.Skill.section_loop_terminates_int L hL F o st fuel h

/-! ## gradual calculators: index / subtraction safety (from C15) -/

open Rosu.Gradual in
/-- No operation sequence over `next`, `nth k`, `len` makes the osu! gradual calculator hit an
unchecked subtraction (C15). -/
theorem osu_gradual_never_panics {S : Type} (sk : Skills S) (objs : List OsuObj) (ops : List Op) (k : Nat) :
    let g := (osuMachine sk objs).exec (osuNew sk objs) ops
    ((osuMachine sk objs).nth g k).1 ≠ .panic ∧ (osuMachine sk objs).len g ≠ none :=
  osu_never_panics sk objs ops k

open Rosu.Gradual in
/-- …nor the catch one… -/
theorem catch_gradual_never_panics {S : Type} (sk : Skills S) (recs : List CatchRec) (ops : List Op) (k : Nat) :
    let g := (catchMachine sk recs (recs.length - 1)).exec (catchNew sk) ops
    ((catchMachine sk recs (recs.length - 1)).nth g k).1 ≠ .panic ∧ ((catchMachine sk recs (recs.length - 1)).next g).1 ≠ .panic ∧ (catchMachine sk recs (recs.length - 1)).len g ≠ none :=
  catch_never_panics sk recs ops k

open Rosu.Gradual in
/-- …nor the mania one. -/
theorem mania_gradual_never_panics {S : Type} (sk : Skills S) (objs : List ManiaObj) (ops : List Op) (k : Nat) :
    let g := (maniaMachine sk objs).exec (maniaNew sk objs) ops
    ((maniaMachine sk objs).nth g k).1 ≠ .panic ∧ ((maniaMachine sk objs).next g).1 ≠ .panic ∧ (maniaMachine sk objs).len g ≠ none :=
  mania_never_panics sk objs ops k

open Rosu.Gradual in
/-- …nor the taiko one (every object list; since `/repo` `fix: taiko gradual difficulty counts the
first two objects like every other hit`). -/
theorem taiko_gradual_never_panics {S : Type} (sk : Skills S) (objs : List Bool) (ops : List Op) (k : Nat) :
    let g := (taikoMachine sk objs).exec (taikoNew sk objs) ops
    ((taikoMachine sk objs).nth g k).1 ≠ .panic ∧ (taikoMachine sk objs).len g ≠ none :=
  taiko_never_panics sk objs ops k

/-- `len()` never underflows, however many `next` calls have been made — stated for a machine. -/
def TaikoLenNeverUnderflows
    (mk : List Bool → Rosu.Gradual.Machine (Rosu.Gradual.TaikoGrad (List Nat)) (Nat × List Nat)) : Prop :=
  ∀ (objs : List Bool) (n : Nat),
    (mk objs).len ((mk objs).nexts (Rosu.Gradual.taikoNew Rosu.Gradual.listSkills objs) n).2 ≠ none

/-- True of the code as fixed: also after exhaustion `total_hits − idx` is defined (`idx ≤ total_hits`). -/
theorem taiko_len_never_underflows :
    TaikoLenNeverUnderflows (Rosu.Gradual.taikoMachine Rosu.Gradual.listSkills) := by
  intro objs n
  obtain ⟨j, hj⟩ := Rosu.Gradual.taiko_nexts_st Rosu.Gradual.listSkills objs n _ 0
    (Or.inl (Rosu.Gradual.taikoNew_canon _ objs))
  rw [Rosu.Gradual.taiko_len_eq_remaining _ objs _ j hj]
  simp

/-- False of the code before the fix (`Old` machine; the former known finding
`taiko-gradual-first-two-objects`): on `[hit, non-hit, hit, hit]` `len()` after exhaustion computed
`total_hits − idx` with `idx = total_hits + 1` — a panic with overflow checks, `usize::MAX` without. -/
theorem taiko_len_never_underflows_fails :
    ¬ TaikoLenNeverUnderflows (Rosu.Gradual.Old.taikoMachine Rosu.Gradual.listSkills) := by
  intro h
  have := h [true, false, true, true] 4
  exact this Rosu.Gradual.taiko_len_underflow.2.2

end Rosu.C05
