import RosuModel.Lemmas.ManiaPatternPath
import RosuModel.Lemmas.ManiaPatternTime
import RosuModel.Lemmas.ManiaPatternNew

/-!
# C19 (mania clause) — the pattern generators place every note below the key count

`Model/ManiaPattern.lean` transcribes the three osu!→mania pattern generators
(`HitObjectPatternGenerator`, `PathObjectPatternGenerator`, `EndTimeObjectPatternGenerator`), the
shared `PatternGenerator` helpers and the per-object loop of `mania::convert`, with every
panicking operation checked and the PRNG modelled bit-exactly (`Model/Rng.lean`).  The model is
generic in the float arithmetic of the probabilities (`PArith F`); the driver runs the IEEE
instance and is compared bit for bit with the real generators (MPH / MPP / MPE lines: one
`generate()` call in isolation; MPT lines: whole conversions traced per source object).

The theorems hold for EVERY PRNG state, EVERY previous pattern (no invariant is needed for the
column bound), every `convert_type` bit pattern, every hit-sound value, every x position, every
slider shape, every conversion difficulty and every key count `1 ≤ total ≤ 16` (conversion
produces 1–10), and for every arithmetic whose `next_int_range` stays inside `[lo, hi)`
(`RangeLaw`; proved for the exact instance, `exactArith_rangeLaw`).
-/

namespace Rosu.C19b
open Rosu.ManiaPattern Rosu.Rng

variable {F : Type}

/-- **(a) hit-object generator.**  Whatever the PRNG state, the previous pattern, the flags and the
stair state: every note of the pattern `HitObjectPatternGenerator::generate()` returns lies in a
column below the key count. -/
theorem hit_generator_columns_lt_total {A : PArith F} (hA : RangeLaw A) (g : HitIn F)
    (h1 : 1 ≤ g.total) (h16 : g.total ≤ 16) (stair : Nat) (s : Osu) (p : Pat) (s' : Osu) (stair' : Nat)
    (h : hitGenerate A g stair s = .ok (p, s', stair')) : ∀ n ∈ p.notes, n.col < g.total :=
  (hitGenerate_ok hA g h1 h16 stair s _ h).1

/-- **(a) path (slider) generator**: every note of every pattern `generate()` returns (the
intermediate pattern and the end-time pattern), for every span count, times and segment duration
— including negative and inconsistent ones. -/
theorem path_generator_columns_lt_total {A : PArith F} (hA : RangeLaw A) (g : PathIn F)
    (h1 : 1 ≤ g.total) (h16 : g.total ≤ 16) (s : Osu) (ps : List Pat) (s' : Osu)
    (h : pathGenerate A g s = .ok (ps, s')) : ∀ p ∈ ps, ∀ n ∈ p.notes, n.col < g.total :=
  fun p hp => (pathGenerate_ok hA g h1 h16 s _ h p hp).1

/-- **(a) end-time (spinner / hold) generator.** -/
theorem end_generator_columns_lt_total {A : PArith F} (hA : RangeLaw A) (g : EndIn)
    (h1 : 1 ≤ g.total) (h16 : g.total ≤ 16) (s : Osu) (p : Pat) (s' : Osu)
    (h : endGenerate A g s = .ok (p, s')) : ∀ n ∈ p.notes, n.col < g.total :=
  (endGenerate_ok hA g h1 h16 s _ h).1

/-- **(a) lifted over the whole conversion.**  For every seed-derived or arbitrary start state,
every list of source objects (circles, sliders, spinners with arbitrary parameters and flags) and
every key count: every note any step of `convert`'s loop emits lies below the key count.  The
previous pattern / stair / PRNG threading of `last_values` is part of the model (`convertStep`). -/
theorem convert_columns_lt_total {A : PArith F} (hA : RangeLaw A) (total : Nat) (h1 : 1 ≤ total)
    (h16 : total ≤ 16) (cd : F) (fuel : Nat) (os : List (ObjIn F)) (st : ConvSt)
    (trace : List (Emitted × ConvSt)) (stf : ConvSt)
    (h : convertLoop A total cd fuel st os = .ok (trace, stf)) :
    ∀ e ∈ trace, ∀ p ∈ e.1, ∀ n ∈ p.notes, n.col < total :=
  fun e he p hp => (convertLoop_ok hA total h1 h16 cd fuel os st _ h e he p hp).1

/-- The hypothesis on the arithmetic is satisfiable: the exact `next_int_range`
(`trunc(lo + n/2³¹·(hi − lo))`, `Lemmas/Rng.lean`) stays in `[lo, hi)`. -/
theorem exact_arithmetic_is_lawful : RangeLaw exactArith := exactArith_rangeLaw

/-- …so for the exact instance the bound is unconditional. -/
theorem convert_columns_lt_total_exact (total : Nat) (h1 : 1 ≤ total) (h16 : total ≤ 16) (cd : Int)
    (fuel : Nat) (os : List (ObjIn Int)) (st : ConvSt) (trace : List (Emitted × ConvSt)) (stf : ConvSt)
    (h : convertLoop exactArith total cd fuel st os = .ok (trace, stf)) :
    ∀ e ∈ trace, ∀ p ∈ e.1, ∀ n ∈ p.notes, n.col < total :=
  convert_columns_lt_total exactArith_rangeLaw total h1 h16 cd fuel os st trace stf h

/-- The bound is about the column the generator chose; the x position it writes
(`column_to_pos`) is read back as the same column (`C19.column_to_pos_inverse`), so the objects of
the converted map satisfy `ManiaObject::column(x) < keys`. -/
theorem emitted_position_reads_back (c total : Nat) (hc : c < total) (ht : total ≤ 16) :
    posColumn total c = c :=
  Rosu.ConvertWF.column_columnToPos c total hc (by omega)

/-- **(e) determinism.**  The generators are functions of (inputs, previous pattern, PRNG state):
equal inputs give equal notes AND an equal PRNG state afterwards — the referent of the MP* lines,
which compare notes and the four state words after every call. -/
theorem generators_deterministic {A : PArith F} (total : Nat) (cd : F) (fuel : Nat)
    (st st' : ConvSt) (o o' : ObjIn F) (hst : st = st') (ho : o = o') :
    convertStep A total cd fuel st o = convertStep A total cd fuel st' o' := by
  subst hst; subst ho; rfl

/-- **(c) non-negative durations of slider notes.**  For every PRNG state, flag combination, key
count, previous pattern and ANY arithmetic: if the dispatcher passes `start_time ≤ end_time` and
`segment_duration ≥ 0` (what `PathObjectPatternGenerator::new` computes for a slider of
non-negative length and positive beat length), every note `new_slider_note(column, s, e)` of every
returned pattern has `s ≤ e` — a circle when equal, else a hold of duration `e − s ≥ 0`.  (Circles of
the hit-object generator carry the object's own time; the spinner generator emits a hold only when
`end_time − start_time >= 100.0`.) -/
theorem path_generator_durations_nonneg {A : PArith F} (g : PathIn F) (hse : g.startT ≤ g.endT)
    (hseg : 0 ≤ g.seg) (s : Osu) (ps : List Pat) (s' : Osu) (h : pathGenerate A g s = .ok (ps, s')) :
    ∀ p ∈ ps, ∀ n ∈ p.notes, ∀ a b, n.time = .span a b → a ≤ b := by
  intro p hp n hn a b hab
  have := pathGenerate_t g hse hseg s _ h p hp n hn
  rw [hab] at this
  exact this

/-- The hypothesis is needed: an end time before the start time (negative slider length or beat
length) is passed through unchanged — 1K, `start = 1000`, `end = 900` yields a hold of −100 ms. -/
example :
    ((pathGenerate exactArith ⟨1, 0, 0, 0, Pat.empty, 0, 1, 1000, 900, -100, [], 10⟩ (Osu.new 0)).map
      (fun r => r.1.map (fun p => p.notes.map (·.time)))).toOption = some [[.span 1000 900]] := by
  decide +kernel


/-! ### second round: the constructor's slider arithmetic, fresh columns -/

/-- `floor(i + d) ≥ i` for `d ≥ 0` holds for the exact instance -/
theorem exact_arithmetic_floor_law : FloorLaw ratArith := ratArith_floorLaw

/-- **`PathObjectPatternGenerator::new` establishes the generator's preconditions**: with a
non-negative float increment `dist·beat_len·spans·0.01/slider_multiplier` (decoded maps: distance
≥ 0, beat length and slider multiplier positive), `start ≤ end ≤ i32::MAX`, `0 ≤ segment_duration`
and `segment_duration·span_count ≤ end − start`.  Tied bit for bit by the MPN lines. -/
theorem path_new_establishes_generator_preconditions {A : PArith F} (hF : FloorLaw A)
    (startT span : Int) (dist beatLen sm : F) (hlo : -2147483648 ≤ startT) (hhi : startT ≤ 2147483647)
    (hspan : 1 ≤ span) (hd : A.le (A.pct 0) (pathNewDelta A span dist beatLen sm) = true)
    (r : Int × Int) (h : pathNew A startT span dist beatLen sm = .ok r) :
    startT ≤ r.1 ∧ r.1 ≤ 2147483647 ∧ r.1 - startT ≤ 2147483647 ∧ 0 ≤ r.2 ∧ r.2 * span ≤ r.1 - startT :=
  pathNew_wf hF startT span dist beatLen sm hlo hhi hspan hd r h

/-- **(c) with the constructor's computation included**: whatever the PRNG state, flags, key count
and previous pattern, every note the path generator emits for the `(end_time, segment_duration)`
that `new` computed has `end ≥ start`. -/
theorem slider_durations_nonneg_with_constructor {A : PArith F} (hF : FloorLaw A) (total : Nat) (x : Int)
    (sample ct : Nat) (prev : Pat) (cd : F) (nodes : List Nat) (fuel : Nat)
    (startT span : Int) (dist beatLen sm : F)
    (hlo : -2147483648 ≤ startT) (hhi : startT ≤ 2147483647) (hspan : 1 ≤ span)
    (hd : A.le (A.pct 0) (pathNewDelta A span dist beatLen sm) = true)
    (e seg : Int) (hnew : pathNew A startT span dist beatLen sm = .ok (e, seg))
    (s : Osu) (ps : List Pat) (s' : Osu)
    (h : pathGenerate A ⟨total, x, sample, ct, prev, cd, span, startT, e, seg, nodes, fuel⟩ s = .ok (ps, s')) :
    ∀ p ∈ ps, ∀ n ∈ p.notes, ∀ a b, n.time = .span a b → a ≤ b := by
  intro p hp n hn a b hab
  have := path_new_then_generate_durations hF total x sample ct prev cd nodes fuel startT span dist
    beatLen sm hlo hhi hspan hd e seg hnew s ps s' h p hp n hn
  rw [hab] at this
  exact this

/-- **(d) what prevents duplicates**: the column `find_available_column(.., [pattern, …])` returns is
not yet occupied in the pattern being built (nor in any other pattern passed, nor excluded by the
`validation` closure) — so the retry-loop generators (`generate_random_notes`, mirrored, random /
tiled hold notes, the rows of hold-and-normal notes) never put two notes of one row in one column. -/
theorem find_available_column_returns_fresh_column {avoid : Option Nat} {p : Rosu.Safety.Cols}
    {ps : List Rosu.Safety.Cols} {lower upper : Nat} {next : Osu → Nat → M (Nat × Osu)} {fuel : Nat}
    {s s' : Osu} {initial c : Nat} (hc : c < 16)
    (h : findAvail avoid (p :: ps) lower upper next fuel s initial = .ok (c, s')) :
    p.testBit c = false :=
  findAvail_fresh hc h

/-- …whereas one pattern does hold several objects in one column at DIFFERENT times (then
`ContainedColumns::insert` is a no-op): a 4K stair over 7 spans visits 1,2,3,2,1,0,1,2. -/
example :
    ((pathGenerate exactArith ⟨4, 128, 0, 0, Pat.empty, 0, 7, 0, 1050, 150, [], 100⟩ (Osu.new 3)).map
      (fun r => r.1.map (fun p => (p.notes.map (·.col), Rosu.Safety.Cols.len p.cols)))).toOption =
      some [([1, 2, 3, 2, 1, 0, 1], 4), ([2], 1)] := by
  decide +kernel

/-! ### non-vacuity: concrete runs of the exact instance -/

/-- 7K, empty previous pattern, `KEEP_SINGLE | FORCE_NOT_STACK`, x = 300: one note in column
`⌊300·7/512⌋ = 4`, no PRNG draw. -/
example :
    ((hitGenerate exactArith ⟨7, 300, 0, 2 ^ KEEP_SINGLE ||| 2 ^ FORCE_NOT_STACK, Pat.empty, 0, 100⟩
      (2 ^ STAIR) (Osu.new 1)).map (fun r => (r.1.notes.map (·.col), r.2.2))).toOption = some ([4], 2 ^ STAIR) := by
  decide +kernel

/-- 4K, `REVERSE` of the previous pattern {0, 1}: columns 3 and 2. -/
example :
    ((hitGenerate exactArith ⟨4, 0, 0, 2 ^ REVERSE, ⟨[⟨0, .atObject⟩, ⟨1, .atObject⟩], 3⟩, 0, 100⟩
      (2 ^ STAIR) (Osu.new 1)).map (fun r => r.1.notes.map (·.col))).toOption = some [3, 2] := by
  decide +kernel

/-- a three-object conversion in 4K (circle, slider with a stair, spinner) runs to completion and
emits notes -/
example :
    ((convertLoop exactArith 4 0 1000 (ConvSt.init 123)
      [.circle 100 0 (2 ^ KEEP_SINGLE), .slider 400 0 (2 ^ LOW_PROBABILITY) 3 1000 1450 150 [0, 0, 0, 0],
       .spinner 0 true false]).map
      (fun r => r.1.map (fun e => e.1.map (fun p => p.notes.length)))).toOption =
      some [[1], [3, 1], [1]] := by
  decide +kernel

end Rosu.C19b
