import RosuModel.Lemmas.PipelineOsu
import RosuModel.Props.C02
import RosuModel.Props.C14
import RosuModel.Props.C14b
import RosuModel.Props.C14c

/-!
# C02 — osu!standard end to end: counts, and the gradual value IS the one-shot value, from decoded objects

`Model/PipelineOsu.lean: osuDifficulty` composes, along `osu::difficulty::difficulty`, `OsuObject::new`
(`Model/SliderEvents.lean` + the sort / zip with the nested positions), `convert_objects` and
`compute_slider_cursor_pos` (`Model/ConvOsu.lean`, stacking through `Model/StackingFull.lean`),
`create_difficulty_objects` and the aim / speed / rhythm / flashlight evaluators (`Model/OsuSkill.lean`), the
four skill state machines over the section loop (`SkillOps.processAllV`), osu!'s `difficulty_value` variants
and the strain counts, and `DifficultyValues::eval` (`Model/EvalCalc.lean`).  Tied to the real
`Difficulty::calculate` and to the `i`-th value of `OsuGradualDifficulty` by `PIPE osu` lines (every attribute
field; emitted by the C09 run, which compares numerically: everything except `stars` is bit-exact on every
line, `stars` is downstream of `cbrt`).

Cross-references: C14 (`osu_pipeline_counts` composes `C14c.osu_convert_counts_are_C14_counts`,
`C14.osu_kinds_partition` and `C14b.osu_slider_nested`), C09 (`Props/C09f.lean`: non-negativity of the pipeline's
ratings composes C09c / C09d / C09e), C16 (the skill state machines run the section loop of `Model/Skill.lean` at
value level).
-/
namespace Rosu.C02f
open Rosu.PipelineOsu Rosu.Gradual Rosu.PerfCalc
open Rosu.ConvOsu (Ar Obj Counts summary)

variable {R S : Type} [PPOps R]

/-- **Counts of the pipeline from decoded objects** (every arithmetic): for every `passed_objects = take`,
circles + sliders + spinners = `min(take, number of objects)` and `max_combo` = objects + large ticks + sliders
(one tail per slider: the nested objects of a slider are its large ticks and one tail, whatever the sort and
`lazy_travel_time`'s rotation do to their order); the counts are the counts of C14's abstract model on the
descriptors of the objects `OsuObject::new` builds; `ar`, `hp` and the hit windows are the setup's. -/
theorem osu_pipeline_counts (A : Ar R S) (E : Rosu.SliderEvents.Arith R) (fuel : Nat) (st : Settings R)
    (take : Nat) (objs : List (PObj R S)) (a : Attrs R) (h : osuDifficulty A E fuel st take objs = .ok a) :
    a.nCircles + a.nSliders + a.nSpinners = min take objs.length ∧
    a.maxCombo = a.nCircles + a.nSliders + a.nSpinners + a.nLargeTicks + a.nSliders ∧
    (∃ raw, newObjs A E fuel objs = .ok raw ∧
      (⟨a.maxCombo, a.nCircles, a.nSliders, a.nLargeTicks, a.nSpinners⟩ : OsuCounts)
        = osuConvertCount (raw.map summary) take) ∧
    a.ar = st.ar ∧ a.hp = st.hp ∧ a.greatHitWindow = st.odGreat ∧ a.okHitWindow = st.odOk ∧
      a.mehHitWindow = st.odMeh := by
  obtain ⟨raw, p, sk, hn, _, _, rfl⟩ := osuDifficulty_ok A E fuel st take objs a h
  obtain ⟨hl, hall⟩ := newObjs_spec A E fuel objs raw hn
  have hc : (Rosu.ConvOsu.countTake take raw Counts.zero).toG = osuConvertCount (raw.map summary) take :=
    Rosu.C14c.osu_convert_counts_are_C14_counts take raw
  have hp := Rosu.Gradual.osu_kinds_partition (raw.map summary) take
  simp only at hp
  rw [← hc, List.length_map, hl] at hp
  have hm : let r := ((raw.map summary).take take).foldl OsuCounts.incr OsuCounts.zero
      r.maxCombo = r.nCircles + r.nSliders + r.nSpinners + r.nLargeTicks + r.nSliders :=
    Rosu.SliderEvents.osu_fold_maxCombo _ (fun o ho => hall o (List.mem_of_mem_take ho)) OsuCounts.zero rfl
  simp only at hm
  rw [← Rosu.Gradual.osu_counts_eq_prefix, ← hc] at hm
  exact ⟨hp, hm, ⟨raw, hn, hc⟩, rfl, rfl, rfl, rfl, rfl⟩

/-- **`osu_pipeline_gradual_eq_oneshot`**: in every arithmetic, for every decoded object list, settings and index
`1 ≤ i ≤ n`, the attributes after the `i`-th `next()` of `OsuGradualDifficulty` — counts of the first `i` objects,
the four CONCRETE skills over `diff_objects[0 .. i − 1]` — are the attributes of the one-shot calculation with
`passed_objects = i`, field by field (including failure).  Here the look-ahead matters: speed's
`get_doubletapness` reads `next(0)`, i.e. difficulty object `i − 1` while processing `i − 2`.  Both paths convert
ALL objects and build ALL difficulty objects (`take` limits only the counts and the processed prefix:
`prepareAll_take`), so the evaluators see the same full list on both paths — the situation of
`C02b.osu_gradual_value_eq_oneshot_with_views` ("any look-ahead"), whereas truncating before construction would
break it (`C02b.osu_take_before_construction_breaks_lookahead`). -/
theorem osu_pipeline_gradual_eq_oneshot (A : Ar R S) (E : Rosu.SliderEvents.Arith R) (fuel : Nat)
    (st : Settings R) (i : Nat) (objs : List (PObj R S)) (hi : 1 ≤ i) (hn : i ≤ objs.length) :
    osuGradualValue A E fuel st i objs = (osuDifficulty A E fuel st i objs).bind fun a => .ok (some a) :=
  osuGradualValue_eq A E fuel st i objs hi hn

/-- outside `1 … n` the iterator yields nothing (the real `nth` clamps instead: known finding nth-clamps-to-last) -/
theorem osu_pipeline_gradual_exhausted (A : Ar R S) (E : Rosu.SliderEvents.Arith R) (fuel : Nat)
    (st : Settings R) (i : Nat) (objs : List (PObj R S)) (raw : List (Obj R S))
    (hr : newObjs A E fuel objs = .ok raw) (hi : i = 0 ∨ objs.length < i) :
    osuGradualValue A E fuel st i objs = .ok none := by
  unfold osuGradualValue
  obtain ⟨p, _, hall⟩ := prepareAll_take A st 0 raw
  simp only [hr, ofOutcome, Rosu.SkillOps.Res.bind, hall raw.length]
  rw [if_pos hi]

/-- **The abstract gradual machine with the concrete skills.**  The pipeline's skill state after a one-shot run
with `passed_objects = take` is the skill component of `Gradual.osuOneShot` instantiated with the concrete skills
(`concreteSkills`: `process s d` = `OsuSkills::process` on difficulty object `d` of the FULL list), and its counts
are the count component; hence `C02.osu_next_eq_prefix` (machine `next` = one-shot, then `None`) and
`C02.osu_len_initial` speak about the concrete calculation with nothing abstract left. -/
theorem osu_pipeline_is_abstract_oneshot (A : Ar R S) (E : Rosu.SliderEvents.Arith R) (fuel : Nat) (st : Settings R)
    (take : Nat) (objs : List (PObj R S)) (raw : List (Obj R S)) (p : Prepared R S)
    (hr : newObjs A E fuel objs = .ok raw) (hp : prepareAll A st take raw = .ok p) (ht : 1 ≤ take) :
    osuDifficulty A E fuel st take objs =
      (((osuOneShot (concreteSkills p.diffObjs p.cfg fuel) (raw.map summary) take).2).bind fun sk =>
        .ok (evalAttrs st p.counts sk)) ∧
    p.counts.toG = (osuOneShot (concreteSkills p.diffObjs p.cfg fuel) (raw.map summary) take).1 := by
  obtain ⟨hl, _⟩ := newObjs_spec A E fuel objs raw hr
  have hd := prepared_diffObjs_length A st take raw p hp
  obtain ⟨p0, hp0, _⟩ := prepareAll_take A st take raw
  rw [hp0] at hp
  simp only [Rosu.SkillOps.Res.ok.injEq] at hp
  subst hp
  refine ⟨?_, ?_⟩
  · unfold osuDifficulty osuOneShot
    simp only [hr, ofOutcome, Rosu.SkillOps.Res.bind, hp0]
    have h0 : ¬ take = 0 := by omega
    rw [if_neg h0]
    have hk : min (min (raw.map summary).length take - 1) (osuDiffLen (raw.map summary).length take)
        = min objs.length take - 1 := by
      unfold osuDiffLen
      rw [List.length_map, hl]
      split <;> omega
    rw [hk, processAll_eq_processedPrefix _ _ _ _ (by simp only at hd; rw [hd, hl]; omega)]
  · exact Rosu.C14c.osu_convert_counts_are_C14_counts take raw

/-- the machine statement instantiated: successive `next()` values of `OsuGradualDifficulty` with the concrete
skills are the one-shot values for `passed_objects = 1, 2, …, n`, then `None` -/
theorem osu_pipeline_machine (ds : List (DiffObj R)) (c : SkillCfg R) (fuel : Nat) (objs : List OsuObj) :
    let sk := concreteSkills ds c fuel
    ((osuMachine sk objs).nexts (osuNew sk objs) objs.length).1 =
      (List.range objs.length).map (fun d => Res.some (osuOneShot sk objs (d + 1))) ∧
    ((osuMachine sk objs).next ((osuMachine sk objs).nexts (osuNew sk objs) objs.length).2).1 = .none ∧
    (osuMachine sk objs).len (osuNew sk objs) = some objs.length :=
  ⟨(osu_next_eq_prefix _ objs).1, (osu_next_eq_prefix _ objs).2, osu_len_initial _ objs⟩

/-- non-vacuity: a pipeline run over exact rational slider arithmetic exists for a circle–slider–spinner list is
covered by the `PIPE osu` lines; the structural hypotheses above are satisfiable -/
example : (1 : Nat) ≤ 2 ∧ 2 ≤ ([PObj.circle (0, 0) 0, PObj.circle (1, 1) 1] : List (PObj Int Int)).length := by decide

end Rosu.C02f
