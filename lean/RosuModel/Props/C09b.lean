import RosuModel.Lemmas.PerfCalcOsu5
import RosuModel.Lemmas.ErfSign
import RosuModel.Lemmas.ErfFacts
import RosuModel.Gen.PerfConsts

/-!
# C09 (second file) — the four pp calculators' formulas: side conditions, sign, zero hits

Model: `Model/PerfCalc.lean` (complete bodies of the osu!/taiko/catch/mania performance calculators,
generic in the arithmetic class `PPOps`); the theorems below are about its instance over ℝ
(`Lemmas/PerfCalcReal.lean`: `powf = Real.rpow`, `ln = Real.log`, …), which is the real-number reading
of "finite, not NaN": for every input satisfying the stated hypotheses,

* (a) `…Dom = true`: every division has a non-zero denominator, every `ln`/`log10` a positive argument,
  every non-integer `powf` a non-negative base (and never `0^negative`), every `sqrt` a non-negative
  radicand, every `u32` subtraction is in range;
* (b) pp and every component are `≥ 0`;
* (c) zero hits ⇒ `pp = 0`, for the full formulas.

The same definitions, instantiated with IEEE doubles, are compared with the real calculators on every
run (`PP` lines, bit patterns).  The numeric tables of `erf`/`erf_inv` are generated from the source; the
literals of every formula are pinned by the `…_literals_as_modelled` obligations below.

Hypotheses that are *not* theorems: `ErfFacts` (signs of the rational approximations `erf_imp` /
`erf_inv_impl` on their open domains) — taiko and osu! only.
-/

namespace Rosu.C09b
open Rosu.PerfCalc Rosu.Finite Rosu.Gen.PerfConsts

/-! ## the formulas the model was transcribed from are the ones in the source now -/

/-- the translator understood every shape it was asked to extract -/
theorem pp_constants_extracted : unknownShapes = [] := by decide

/-- the 38 coefficient tables of `special_functions.rs` the model evaluates exist under these names -/
theorem erf_tables_present : tableNames = ["ERF_IMP_AN", "ERF_IMP_AD", "ERF_IMP_BN", "ERF_IMP_BD", "ERF_IMP_CN", "ERF_IMP_CD", "ERF_IMP_DN", "ERF_IMP_DD", "ERF_IMP_EN", "ERF_IMP_ED", "ERF_IMP_FN", "ERF_IMP_FD", "ERF_IMP_GN", "ERF_IMP_GD", "ERF_IMP_HN", "ERF_IMP_HD", "ERF_IMP_IN", "ERF_IMP_ID", "ERF_IMP_JN", "ERF_IMP_JD", "ERF_IMP_KN", "ERF_IMP_KD", "ERF_IMP_LN", "ERF_IMP_LD", "ERF_IMP_MN", "ERF_IMP_MD", "ERF_IMP_NN", "ERF_IMP_ND", "ERV_INV_IMP_AN", "ERV_INV_IMP_AD", "ERV_INV_IMP_BN", "ERV_INV_IMP_BD", "ERV_INV_IMP_CN", "ERV_INV_IMP_CD", "ERV_INV_IMP_DN", "ERV_INV_IMP_DD", "ERV_INV_IMP_EN", "ERV_INV_IMP_ED", "ERV_INV_IMP_FN", "ERV_INV_IMP_FD", "ERV_INV_IMP_GN", "ERV_INV_IMP_GD"] := by decide

/-- the f32 constants of `erf_imp` / `erf_inv_impl` (exact values), in source order -/
theorem erf_f32_constants_as_modelled :
    erfImpB.length = 13 ∧ erfInvY.length = 7
      ∧ erfImpB.head? = some (false, 3440242111682891845703125, 25)
      ∧ erfInvY.head? = some (false, 8913147449493408203125, 23) := by decide

/-- numeric literals, per function and in source order, of the code `Model/PerfCalc.lean` transcribes -/
theorem osu_calculator_literals_as_modelled : osuCalcLiterals = [
  ("const PERFORMANCE_BASE_MULTIPLIER", ["1.15"]),
  ("const Z", ["2.32634787404"]),
  ("const SCALE", ["50.0"]),
  ("calculate", ["0", "1.0", "0.02", "0.9", "0.0", "1.0", "0.85", "0.0", "1.0", "13.33", "1.8", "0.0", "1.0", "13.33", "5.0", "0.0", "1.0", "1.0", "1.1", "1.1", "1.1", "1.1", "1.0", "1.1"]),
  ("compute_aim_value", ["0.0", "0", "0.0", "0.0", "0.0", "1.0", "1.0", "3.0", "0.95", "0.4", "2000.0", "1.0", "2000.0", "2000.0", "0.5", "0.0", "0.0", "10.33", "0.3", "10.33", "8.0", "0.05", "8.0", "0.0", "1.0", "1.3", "0.0016", "1.0", "2.0", "16.0", "1.0", "0.003", "1.0", "0.04", "12.0", "0.98", "0.0", "2.0", "2500.0"]),
  ("compute_speed_value", ["0.0", "0.95", "0.4", "2000.0", "1.0", "2000.0", "2000.0", "0.5", "0.0", "0.0", "10.33", "0.3", "10.33", "0.0", "1.0", "1.12", "1.0", "0.04", "12.0", "0.0", "0.0", "0.0", "0.0", "0.0", "0.0", "0.0", "0.0", "6.0", "2.0", "6.0", "0.95", "0.0", "2.0", "750.0", "2.0", "14.5", "2.0"]),
  ("compute_accuracy_value", ["0.0", "0", "0", "6", "2", "6", "0.0", "0.0", "0.0", "1.52163_f64", "24.0", "2.83", "1000.0", "0.3", "1.15", "1.14", "1.08", "1.02"]),
  ("compute_flashlight_value", ["0.0", "0.0", "0.97", "1.0", "0.775", "0.875", "0.7", "0.1", "200.0", "1.0", "200.0", "0.2", "200.0", "200.0", "1.0", "0.5", "2.0", "0.98", "0.0", "2.0", "2500.0"]),
  ("calculate_speed_deviation", ["0", "0.1", "0.0"]),
  ("calculate_deviation", ["0.0", "1.0", "2.32634787404", "2.0", "1.0", "4.0", "2.0", "2.0", "-0.5", "2.0", "2.0", "1.0", "3.0", "0.0", "1.0", "3.0", "2.0"]),
  ("calculate_speed_high_deviation_nerf", ["100.0", "220.0", "22.0", "6.5", "1.0", "50.0", "1.0", "1.0", "22.0", "27.0"]),
  ("calculate_miss_penalty", ["0.96", "4.0", "0.94", "1.0"]),
  ("get_combo_scaling_factor", ["0", "1.0", "0.8", "0.8", "1.0"]),
  ("total_hits", []),
  ("total_successful_hits", [])
] := by decide

/-- numeric literals, per function and in source order, of the code `Model/PerfCalc.lean` transcribes -/
theorem taiko_calculator_literals_as_modelled : taikoCalcLiterals = [
  ("const Z", ["2.32634787404"]),
  ("calculate", ["10.0", "0", "1000.0", "1.0", "0.0", "1.13", "1.075", "0.95", "1.1", "1.1", "1.0", "1.1"]),
  ("compute_difficulty_value", ["0.0", "5.0", "1.0", "0.110", "4.0", "3.0", "69052.51", "2.25", "1250.0", "1.0", "0.10", "0.0", "10.0", "1.0", "0.1", "1.0", "1500.0", "0.986", "0.9", "1.025", "1.0", "1.05", "50.0", "1.0", "2", "500", "100", "3", "2.0"]),
  ("compute_accuracy_value", ["0.0", "0.0", "0.0", "70.0", "1.1", "0.4", "100.0", "1.15", "1500.0", "0.3", "1.0", "1.05"]),
  ("compute_deviation_upper_bound", ["0", "0.0", "2.32634787404", "2.0", "1.0", "4.0", "2.0"]),
  ("total_hits", []),
  ("total_successful_hits", [])
] := by decide

/-- numeric literals, per function and in source order, of the code `Model/PerfCalc.lean` transcribes -/
theorem catch_calculator_literals_as_modelled : catchCalcLiterals = [
  ("calculate", ["5.0", "0.0049", "1.0", "4.0", "2.0", "100_000.0", "0", "0.95", "0.3", "2500.0", "1.0", "2500", "2500.0", "0.475", "0.97_f64", "0", "0.8", "0.8", "1.0", "1.0", "9.0", "0.1", "9.0", "10.0", "0.1", "10.0", "8.0", "0.025", "8.0", "10.0", "1.05", "0.075", "10.0", "10.0", "1.01", "0.04", "11.0", "11.0", "1.35", "5.5", "1.0", "0.02", "0.9"]),
  ("combo_hits", [])
] := by decide

/-- numeric literals, per function and in source order, of the code `Model/PerfCalc.lean` transcribes -/
theorem mania_calculator_literals_as_modelled : maniaCalcLiterals = [
  ("calculate", ["1.0", "0.75", "0.5"]),
  ("compute_difficulty_value", ["8.0", "0.15", "0.05", "2.2", "0.0", "5.0", "4.0", "1.0", "0.1", "1.0", "1500.0"]),
  ("total_hits", []),
  ("calculate_custom_accuracy", ["0", "0.0"]),
  ("custom_accuracy", ["32", "30", "20", "10", "5", "32"])
] := by decide

/-- numeric literals, per function and in source order, of the code `Model/PerfCalc.lean` transcribes -/
theorem special_functions_literals_as_modelled : specialLiterals = [
  ("const Y", ["0.0891314744949340820313"]),
  ("const Y", ["2.249481201171875"]),
  ("const Y", ["0.807220458984375"]),
  ("const Y", ["0.93995571136474609375"]),
  ("const Y", ["0.98362827301025390625"]),
  ("const Y", ["0.99714565277099609375"]),
  ("const Y", ["0.99941349029541015625"]),
  ("erf", ["0.0", "0.0", "1.0", "1.0"]),
  ("erf_inv", ["0.0", "0.0", "1.0", "-1.0", "0.0", "1.0", "-1.0", "1.0", "1.0"]),
  ("erf_imp", ["0.0", "-0.5", "2.0", "1.0", "0.5", "1e-10", "1.125", "0.003379167095512573896158903121545171688", "1.125", "110.0", "0.75", "0.5", "0.5", "0.3440242112_f32", "1.25", "0.75", "0.75", "0.419990927_f32", "2.25", "1.25", "1.25", "0.4898625016_f32", "3.5", "2.25", "2.25", "0.5317370892_f32", "5.25", "3.5", "3.5", "0.5489973426_f32", "8.0", "5.25", "5.25", "0.5571740866_f32", "11.5", "8.0", "8.0", "0.5609807968_f32", "17.0", "11.5", "11.5", "0.5626493692_f32", "24.0", "17.0", "17.0", "0.5634598136_f32", "38.0", "24.0", "24.0", "0.5638477802_f32", "60.0", "38.0", "38.0", "0.5640528202_f32", "85.0", "60.0", "60.0", "0.5641309023_f32", "85.0", "85.0", "0.5641584396_f32", "0.0", "1.0"]),
  ("erf_inv_impl", ["0.5", "0.0891314744949340820313", "10.0", "0.25", "2.249481201171875", "-2.0", "0.25", "3.0", "0.807220458984375", "1.125", "6.0", "0.93995571136474609375", "3.0", "18.0", "0.98362827301025390625", "6.0", "44.0", "0.99714565277099609375", "18.0", "0.99941349029541015625", "44.0"]),
  ("evaluate_polynomial", ["0.0"])
] := by decide

/-- numeric literals, per function and in source order, of the code `Model/PerfCalc.lean` transcribes -/
theorem osu_performance_calculate_literals_as_modelled : osuPerfModLiterals = [
  ("calculate", ["0", "0.1", "1.0", "1.0"]),
  ("total_imperfect_hits", []),
  ("n_slider_ends_dropped", []),
  ("n_large_tick_miss", [])
] := by decide

/-- numeric literals, per function and in source order, of the code `Model/PerfCalc.lean` transcribes -/
theorem osu_strain_to_performance_literals_as_modelled : osuStrainLiterals = [
  ("difficulty_to_performance", []),
  ("difficulty_to_performance#2", ["5.0", "1.0", "0.0675", "4.0", "3.0", "100_000.0"])
] := by decide

/-- numeric literals, per function and in source order, of the code `Model/PerfCalc.lean` transcribes -/
theorem osu_flashlight_to_performance_literals_as_modelled : osuFlashlightLiterals = [
  ("difficulty_to_performance", ["25.0", "2.0"])
] := by decide

/-- numeric literals, per function and in source order, of the code `Model/PerfCalc.lean` transcribes -/
theorem reverse_lerp_literals_as_modelled : utilDifficultyLiterals = [
  ("reverse_lerp", ["0.0", "1.0"])
] := by decide

/-! ## mania (no hypothesis at all) -/

/-- (a) mania: for EVERY real star rating (any sign), state and mod flags, `powf`'s base is positive
(`max(stars − 0.15, 0.05) ≥ 0.05`) and the custom accuracy never divides by zero -/
theorem mania_domain_ok (stars : ℝ) (m : ManiaMods) (s : ManiaState) :
    maniaCalculateDom stars m s = true := maniaCalculateDom_true stars m s

/-- (b) mania: `pp ≥ 0` and `pp_difficulty ≥ 0` -/
theorem mania_pp_nonneg (stars : ℝ) (m : ManiaMods) (s : ManiaState) :
    0 ≤ (maniaCalculate stars m s).1 ∧ 0 ≤ (maniaCalculate stars m s).2 := by
  rw [maniaCalculate_eq]
  have h := maniaDifficultyValue_nonneg stars s
  refine ⟨mul_nonneg h ?_, h⟩
  cases m.nf <;> cases m.ez <;> norm_num

/-- (c) mania: zero hits ⇒ `pp = pp_difficulty = 0` (full formula, every real `stars`) -/
theorem mania_zero_hits_zero_pp (stars : ℝ) (m : ManiaMods) (s : ManiaState) (h : s.totalHits = 0) :
    maniaCalculate stars m s = (0, 0) := by
  rw [maniaCalculate_eq, maniaDifficultyValue_zero_hits stars s h, zero_mul]

/-! ## catch -/

/-- (a) catch: every partial operation is in its domain as soon as the state's combo does not exceed
the attributes' (`generate_state` clamps it: C12).  No hypothesis on `stars` or `ar`. -/
theorem catch_domain_ok (a : CatchAttrs ℝ) (m : CatchMods) (s : CatchState)
    (hc : s.maxCombo ≤ a.maxCombo) : catchCalculateDom a m s = true := catchCalculateDom_true a m s hc

/-- the hypothesis of `catch_domain_ok` is needed: with `state.max_combo > 0 = attrs.max_combo()` the
combo scaling divides by `0^0.8 = 0` (IEEE: `x/0 = +inf`, then `min(inf, 1) = 1`) -/
theorem catch_domain_needs_combo_bound :
    catchCalculateDom (R := ℝ) ⟨1, 9, 0, 0⟩ ⟨false, false, false⟩ ⟨1, 0, 0, 0, 0, 0⟩ = false := by
  unfold catchCalculateDom catchComboHits CatchAttrs.maxCombo
  simp [nz]
  intro _ _ h
  exfalso; apply h
  rw [Real.zero_rpow (by norm_num)]; norm_num

/-- (b) catch: `pp ≥ 0` for every real `stars`, `ar` (any sign), state, flags -/
theorem catch_pp_nonneg (a : CatchAttrs ℝ) (m : CatchMods) (s : CatchState) :
    0 ≤ catchCalculate a m s := catchCalculate_nonneg a m s

/-- (c) catch: zero hits ⇒ `pp = 0` (full formula; over ℝ there is no `inf · 0`) -/
theorem catch_zero_hits_zero_pp (a : CatchAttrs ℝ) (m : CatchMods) (s : CatchState)
    (h : s.totalHits = 0) : catchCalculate a m s = 0 := catchCalculate_zero_hits a m s h

/-- (d) catch: the combo scaling factor lies in [0, 1] -/
theorem catch_combo_scaling_mem (c mc : Nat) :
    0 ≤ (catchComboScaling c mc : ℝ) ∧ (catchComboScaling c mc : ℝ) ≤ 1 :=
  ⟨catchComboScaling_nonneg c mc, catchComboScaling_le_one c mc⟩

/-- (d) catch: accuracy ∈ [0,1], length bonus and AR factor positive -/
theorem catch_factors_positive (s : CatchState) (n : Nat) (ar : ℝ) :
    0 ≤ (catchAccuracy s : ℝ) ∧ (catchAccuracy s : ℝ) ≤ 1 ∧ 0 < (catchLenBonus n : ℝ) ∧ 0 < catchArFactor ar :=
  ⟨catchAccuracy_nonneg s, catchAccuracy_le_one s, catchLenBonus_pos n, catchArFactor_pos ar⟩

/-! ## taiko -/

/-- the Wilson lower bound handed to `erf_inv` lies strictly inside (0,1) for `n > 0`, `0 < p ≤ 1`
(over ℝ with the real square root) -/
theorem wilson_bound_real (n p : ℝ) (hn : 0 < n) (hp0 : 0 < p) (hp1 : p ≤ 1) :
    0 < pLowerBound n p ∧ pLowerBound n p < 1 := pLowerBound_mem n p hn hp0 hp1

/-- … and stays below `1 − 10⁻¹¹` for up to `2³⁴` hits: `erf_inv` is only ever asked for arguments in
`(0, 1 − 10⁻¹¹]`, the range `ErfFacts` speaks about -/
theorem wilson_bound_away_from_one (n p : ℝ) (hn : 0 < n) (hp0 : 0 ≤ p) (hp1 : p ≤ 1) (hN : n ≤ maxHits) :
    pLowerBound n p ≤ 1 - 1e-11 := pLowerBound_le n p hn hp0 hp1 hN

/-- (a) taiko: for `stars ≥ 0`, `0 ≤ mono_stamina_factor < 5/3`, ANY hit window (a non-positive one takes
the early return), any state and flags, every partial operation of `calculate`,
`compute_deviation_upper_bound`, `compute_difficulty_value`, `compute_accuracy_value` is in its domain —
given the sign facts `ErfFacts` about `erf` / `erf_inv` -/
theorem taiko_domain_ok (sf : Special ℝ) (E : ErfFacts sf) (a : TaikoAttrs ℝ) (H : TaikoAttrsOK a)
    (m : TaikoMods) (s : TaikoState) (hN : s.totalHits ≤ 2 ^ 34) : taikoCalculateDom sf a m s = true :=
  taikoCalculateDom_true sf E a H m s hN

/-- (b) taiko: pp, pp_acc, pp_difficulty, effective_miss_count are `≥ 0`, the estimated unstable rate
is `> 0` when present -/
theorem taiko_pp_nonneg (sf : Special ℝ) (E : ErfFacts sf) (a : TaikoAttrs ℝ) (H : TaikoAttrsOK a)
    (m : TaikoMods) (s : TaikoState) (hN : s.totalHits ≤ 2 ^ 34) :
    0 ≤ (taikoCalculate sf a m s).pp ∧ 0 ≤ (taikoCalculate sf a m s).ppAcc
      ∧ 0 ≤ (taikoCalculate sf a m s).ppDifficulty ∧ 0 ≤ (taikoCalculate sf a m s).effectiveMissCount
      ∧ ∀ u, (taikoCalculate sf a m s).estimatedUnstableRate = some u → 0 < u :=
  taikoCalculate_nonneg sf E a H m s hN

/-- (c) taiko: no great hit (in particular zero hits) ⇒ pp, both components are 0 and there is no
unstable rate — for every attribute value and whatever `erf`/`erf_inv` are (full formula) -/
theorem taiko_no_great_zero_pp (sf : Special ℝ) (a : TaikoAttrs ℝ) (m : TaikoMods) (s : TaikoState)
    (h : s.n300 = 0) :
    (taikoCalculate sf a m s).pp = 0 ∧ (taikoCalculate sf a m s).ppAcc = 0
      ∧ (taikoCalculate sf a m s).ppDifficulty = 0
      ∧ (taikoCalculate sf a m s).estimatedUnstableRate = none :=
  taikoCalculate_no_great sf a m s h

theorem taiko_zero_hits_zero_pp (sf : Special ℝ) (a : TaikoAttrs ℝ) (m : TaikoMods) (s : TaikoState)
    (h : s.totalHits = 0) :
    (taikoCalculate sf a m s).pp = 0 ∧ (taikoCalculate sf a m s).effectiveMissCount = 0 := by
  have h3 : s.n300 = 0 := by unfold TaikoState.totalHits at h; omega
  exact ⟨(taikoCalculate_no_great sf a m s h3).1, taikoCalculate_zero_hits_emc sf a m s h⟩

/-- (d) taiko: `effective_miss_count ≥ misses` is NOT claimed; what holds: it is 0 without successful
hits and `max(1000/successful, 1)·misses` otherwise, hence `≥ 0`; the multiplier is positive -/
theorem taiko_multiplier_pos (a : TaikoAttrs ℝ) (m : TaikoMods) : 0 < taikoMultiplier a m :=
  taikoMultiplier_pos a m

/-! ## osu! -/

/-- the calculator `OsuPerformance::calculate` builds after `generate_state` -/
noncomputable def osuCalcOf (a : OsuAttrs ℝ) (m : OsuMods) (s : OsuState) (lazer classic : Bool) : OsuCalc ℝ :=
  { attrs := a, mods := m, acc := osuAccuracy a s lazer classic, state := s,
    effectiveMissCount := osuEffectiveMissCount a s classic, usingClassicSliderAcc := classic }

/-- what `OsuPerformance::calculate` hands to the calculator satisfies the calculator's base
hypotheses for EVERY state with at least one hit: `acc ≥ 0`, `0 ≤ effective_miss_count ≤ total_hits` -/
theorem osu_calc_base (a : OsuAttrs ℝ) (m : OsuMods) (s : OsuState) (lazer classic : Bool)
    (h : 0 < s.totalHits) : OsuCalcBase (osuCalcOf a m s lazer classic) :=
  ⟨h, osuAccuracy_nonneg a s lazer classic, (osuEffectiveMissCount_bounds a s classic).1,
    (osuEffectiveMissCount_bounds a s classic).2.1⟩

/-- `misses ≤ effective_miss_count ≤ total_hits` for the f64-shaped computation over ℝ (every state) -/
theorem osu_effective_miss_mem (a : OsuAttrs ℝ) (s : OsuState) (classic : Bool) :
    (s.misses : ℝ) ≤ osuEffectiveMissCount a s classic ∧ osuEffectiveMissCount a s classic ≤ (s.totalHits : ℝ) :=
  osuEffectiveMissCount_mem a s classic

/-- (d) miss penalty: in-domain and within (0, 0.96] for a strain count `> 1` and `misses ≥ 0` -/
theorem osu_miss_penalty (mc d : ℝ) (hmc : 0 ≤ mc) (hd : 1 < d) :
    calculateMissPenaltyDom mc d = true ∧ 0 < calculateMissPenalty mc d ∧ calculateMissPenalty mc d ≤ 0.96 :=
  ⟨calculateMissPenaltyDom_true hmc hd, (calculateMissPenalty_mem hmc hd).1, (calculateMissPenalty_mem hmc hd).2⟩

/-- the hypothesis `1 < count` of `osu_miss_penalty` is needed in the real-number reading: at
`count = 1` the code divides by `4·ln(1)^0.94 = 0` (IEEE: `x/0 = +inf`, `0.96/inf = 0`), and
`count = 0` takes `ln 0`.  Both are reachable from real maps (see docs/delivery-PP.md). -/
theorem osu_miss_penalty_domain_fails_at_one (mc : ℝ) : calculateMissPenaltyDom mc (1 : ℝ) = false := by
  unfold calculateMissPenaltyDom
  have h : nz (4.0 * PPOps.powf (PPOps.ln (1 : ℝ)) 0.94 : ℝ) = false := by
    have : (4.0 * PPOps.powf (PPOps.ln (1 : ℝ)) 0.94 : ℝ) = 0 := by
      show (4.0 : ℝ) * (Real.log 1) ^ (0.94 : ℝ) = 0
      rw [Real.log_one, Real.zero_rpow (by norm_num), mul_zero]
    unfold nz; rw [this]
    have : PPOps.beq (0 : ℝ) 0.0 = true := by rw [r_beq]; norm_num
    rw [this]; rfl
  rw [h]; simp

/-- (d) combo scaling ∈ [0,1] and in-domain for every calculator state -/
theorem osu_combo_scaling (c : OsuCalc ℝ) :
    getComboScalingFactorDom c = true ∧ 0 ≤ getComboScalingFactor c ∧ getComboScalingFactor c ≤ 1 :=
  ⟨getComboScalingFactorDom_true c, (getComboScalingFactor_mem c).1, (getComboScalingFactor_mem c).2⟩

/-- (d) the high-deviation nerf is in-domain and lies in (0, 1] for a positive speed deviation
(so `speed_value · nerf ≤ speed_value`) -/
theorem osu_high_deviation_nerf (c : OsuCalc ℝ) (sd : ℝ) (hsd : 0 < sd) :
    calculateSpeedHighDeviationNerfDom c sd = true
      ∧ 0 < calculateSpeedHighDeviationNerf c sd ∧ calculateSpeedHighDeviationNerf c sd ≤ 1 :=
  ⟨calculateSpeedHighDeviationNerfDom_true c hsd, (calculateSpeedHighDeviationNerf_mem c hsd).1,
    (calculateSpeedHighDeviationNerf_mem c hsd).2⟩

/-- `difficulty_to_performance` of aim/speed is positive for every real rating; flashlight's `≥ 0` -/
theorem osu_difficulty_to_performance (d : ℝ) :
    0 < strainDifficultyToPerformance d ∧ 0 ≤ flashlightDifficultyToPerformance d :=
  ⟨strainDifficultyToPerformance_pos d, flashlightDifficultyToPerformance_nonneg d⟩

/-- (a)+(b) accuracy value: no hypothesis at all -/
theorem osu_accuracy_value (c : OsuCalc ℝ) :
    computeAccuracyValueDom c = true ∧ 0 ≤ computeAccuracyValue c :=
  ⟨computeAccuracyValueDom_true c, computeAccuracyValue_nonneg c⟩

/-- (a)+(b) flashlight value: under the base hypotheses only -/
theorem osu_flashlight_value (c : OsuCalc ℝ) (B : OsuCalcBase c) :
    computeFlashlightValueDom c = true ∧ 0 ≤ computeFlashlightValue c :=
  ⟨computeFlashlightValueDom_true c B, computeFlashlightValue_nonneg c B⟩

/-- (a)+(b) aim value -/
theorem osu_aim_value (c : OsuCalc ℝ) (B : OsuCalcBase c) (A : OsuAimOK c) :
    computeAimValueDom c = true ∧ 0 ≤ computeAimValue c :=
  ⟨computeAimValueDom_true c B A, computeAimValue_nonneg c B A⟩

/-- (a)+(b) speed value, given a positive speed deviation -/
theorem osu_speed_value (c : OsuCalc ℝ) (B : OsuCalcBase c) (S : OsuSpeedOK c) (sd : ℝ) (hsd : 0 < sd) :
    computeSpeedBodyDom c sd = true ∧ 0 ≤ computeSpeedBody c sd :=
  ⟨computeSpeedBodyDom_true c B S hsd, computeSpeedBody_nonneg c B S hsd⟩

/-- (a) osu!, whole calculation (`OsuPerformance::calculate` after `generate_state`): every partial
operation is in its domain, given `OsuAttrsOK` (strain counts `> 1`, `ar ≤ 37`, `hp² ≤ 1000/3`,
`speed_note_count ≥ 0`, `great_hit_window ≥ −7`, `n_spinners ≤ total_hits`, the `u32` consistency
`generate_state` provides), the lazer-branch `u32` bound, and `SpeedDeviationOK` (the speed deviation's
own side conditions hold and it is positive when present — NOT proved here, see the delivery note) -/
theorem osu_domain_ok (sf : Special ℝ) (a : OsuAttrs ℝ) (m : OsuMods) (s : OsuState) (lazer classic : Bool)
    (hh : 0 < s.totalHits) (H : OsuAttrsOK (osuCalcOf a m s lazer classic))
    (hu : classic = false → a.nSliders - s.sliderEndHits ≤ a.maxCombo)
    (D : SpeedDeviationOK sf (osuCalcOf a m s lazer classic)) :
    osuCalculateDom sf a m s lazer classic = true := by
  have B := osu_calc_base a m s lazer classic hh
  have e2 := osuCalculatorCalculateDom_true sf _ B H D
  have e1 : osuEffectiveMissCountDom a s classic = true := by
    unfold osuEffectiveMissCountDom
    have hmax : nz (PPOps.fmax (PPOps.ofNat s.maxCombo : ℝ) 1.0) = true := by
      rw [nz_iff]
      have : (0 : ℝ) < max ((s.maxCombo : ℕ) : ℝ) 1.0 := lt_of_lt_of_le (by norm_num) (le_max_right _ _)
      exact this.ne'
    by_cases hs : a.nSliders > 0
    · rw [if_pos hs]
      cases hc : classic with
      | true => simp only [if_true]; exact hmax
      | false =>
        have h1 : s.sliderEndHits ≤ a.nSliders := H.ends (by show classic = false; exact hc)
        have h2 : s.largeTickHits ≤ a.nLargeTicks := H.ticks (by show classic = false; exact hc)
        have h3 := hu hc
        simp only [Bool.false_eq_true, if_false]
        rw [decide_eq_true h1, decide_eq_true h3, decide_eq_true h2, hmax]; rfl
    · rw [if_neg hs]
  show (osuEffectiveMissCountDom a s classic
    && osuCalculatorCalculateDom sf (osuCalcOf a m s lazer classic)) = true
  rw [e1, e2]; rfl

/-- (b) osu!, whole calculation: pp, pp_aim, pp_speed, pp_acc, pp_flashlight `≥ 0` and
`0 ≤ effective_miss_count ≤ total_hits` -/
theorem osu_pp_nonneg (sf : Special ℝ) (a : OsuAttrs ℝ) (m : OsuMods) (s : OsuState) (lazer classic : Bool)
    (hh : 0 < s.totalHits) (H : OsuAttrsOK (osuCalcOf a m s lazer classic))
    (D : SpeedDeviationOK sf (osuCalcOf a m s lazer classic)) :
    0 ≤ (osuCalculate sf a m s lazer classic).pp ∧ 0 ≤ (osuCalculate sf a m s lazer classic).ppAim
      ∧ 0 ≤ (osuCalculate sf a m s lazer classic).ppSpeed ∧ 0 ≤ (osuCalculate sf a m s lazer classic).ppAcc
      ∧ 0 ≤ (osuCalculate sf a m s lazer classic).ppFlashlight
      ∧ 0 ≤ (osuCalculate sf a m s lazer classic).effectiveMissCount
      ∧ (osuCalculate sf a m s lazer classic).effectiveMissCount ≤ (s.totalHits : ℝ) :=
  osuCalculatorCalculate_nonneg sf _ (osu_calc_base a m s lazer classic hh) H D

/-- the speed-deviation block (`calculate_speed_deviation`, `calculate_deviation`): in-domain on the
path taken and positive when present, from `ErfFacts`, positive great/ok hit windows and
`speed_note_count ≥ 0` (no hypothesis on the meh window).  When no relevant great was hit the Wilson
bound is exactly 0 and the code's `p_lower_bound == 0.0` test discards the block (`pLowerBound_zero`). -/
theorem osu_speed_deviation_ok (sf : Special ℝ) (E : ErfFacts sf) (c : OsuCalc ℝ) (W : OsuWindowsOK c)
    (hs : 0 ≤ c.attrs.speedNoteCount) : SpeedDeviationOK sf c := speedDeviationOK_of sf E c W hs

/-- `calculate_deviation` alone: positive result, all partial operations in-domain, for non-negative
relevant counts -/
theorem osu_calculate_deviation (sf : Special ℝ) (E : ErfFacts sf) (c : OsuCalc ℝ) (W : OsuWindowsOK c)
    (great ok meh miss : ℝ) (R : RelevantCountsOK great ok meh miss) :
    calculateDeviationDom sf c great ok meh miss = true
      ∧ ∀ d, calculateDeviation sf c great ok meh miss = some d → 0 < d :=
  ⟨calculateDeviationDom_true sf E c W R, fun d h => calculateDeviation_pos sf E c W R d h⟩

/-- (a) osu!, whole calculation, no hypothesis left on the speed deviation -/
theorem osu_domain_ok_full (sf : Special ℝ) (E : ErfFacts sf) (a : OsuAttrs ℝ) (m : OsuMods) (s : OsuState)
    (lazer classic : Bool) (hh : 0 < s.totalHits) (H : OsuAttrsOK (osuCalcOf a m s lazer classic))
    (W : OsuWindowsOK (osuCalcOf a m s lazer classic))
    (hu : classic = false → a.nSliders - s.sliderEndHits ≤ a.maxCombo) :
    osuCalculateDom sf a m s lazer classic = true :=
  osu_domain_ok sf a m s lazer classic hh H hu (speedDeviationOK_of sf E _ W H.snc_nonneg)

/-- (b) osu!, whole calculation, no hypothesis left on the speed deviation; the speed deviation is
positive when present -/
theorem osu_pp_nonneg_full (sf : Special ℝ) (E : ErfFacts sf) (a : OsuAttrs ℝ) (m : OsuMods) (s : OsuState)
    (lazer classic : Bool) (hh : 0 < s.totalHits) (H : OsuAttrsOK (osuCalcOf a m s lazer classic))
    (W : OsuWindowsOK (osuCalcOf a m s lazer classic)) :
    (0 ≤ (osuCalculate sf a m s lazer classic).pp ∧ 0 ≤ (osuCalculate sf a m s lazer classic).ppAim
      ∧ 0 ≤ (osuCalculate sf a m s lazer classic).ppSpeed ∧ 0 ≤ (osuCalculate sf a m s lazer classic).ppAcc
      ∧ 0 ≤ (osuCalculate sf a m s lazer classic).ppFlashlight
      ∧ 0 ≤ (osuCalculate sf a m s lazer classic).effectiveMissCount
      ∧ (osuCalculate sf a m s lazer classic).effectiveMissCount ≤ (s.totalHits : ℝ))
    ∧ ∀ sd, (osuCalculate sf a m s lazer classic).speedDeviation = some sd → 0 < sd := by
  have D := speedDeviationOK_of sf E (osuCalcOf a m s lazer classic) W H.snc_nonneg
  refine ⟨osu_pp_nonneg sf a m s lazer classic hh H D, ?_⟩
  have hne : (osuCalcOf a m s lazer classic).state.totalHits ≠ 0 := Nat.pos_iff_ne_zero.mp hh
  obtain ⟨_, _, _, _, _, f6, _⟩ := osuCalculatorCalculate_fields sf (osuCalcOf a m s lazer classic) hne
  intro sd hsd
  exact D.pos sd (by rw [← f6]; exact hsd)

/-- (c) osu!: zero hits ⇒ pp and every component are 0, no speed deviation (full formula, for every
attribute value, flag and `erf`/`erf_inv`) -/
theorem osu_zero_hits_zero_pp_full (sf : Special ℝ) (a : OsuAttrs ℝ) (m : OsuMods) (s : OsuState)
    (lazer classic : Bool) (h : s.totalHits = 0) :
    (osuCalculate sf a m s lazer classic).pp = 0 ∧ (osuCalculate sf a m s lazer classic).ppAim = 0
      ∧ (osuCalculate sf a m s lazer classic).ppSpeed = 0 ∧ (osuCalculate sf a m s lazer classic).ppAcc = 0
      ∧ (osuCalculate sf a m s lazer classic).ppFlashlight = 0
      ∧ (osuCalculate sf a m s lazer classic).effectiveMissCount = 0
      ∧ (osuCalculate sf a m s lazer classic).speedDeviation = none :=
  osuCalculatorCalculate_zero_hits sf _ h

/-! ## `ErfFacts`, round 7: the polynomial part is proved

A verified interval-Horner checker over ℚ (`Lemmas/ErfPoly.lean`) turns each sign fact about a branch polynomial of
`erf_imp` / `erf_inv_impl` into one closed rational inequality checked by the kernel (`Lemmas/ErfCerts.lean`,
`decide +kernel`; the coefficients are the generated tables of `Gen/PerfConsts.lean`).  Proved: every division of the
two functions has a positive denominator on its branch interval; every row of `erf_imp` yields a value in `(0, 1)`
(using only `0 < exp t ≤ 1` for `t ≤ 0` — no numeric bound on `exp`); every row of `erf_inv_impl` has `Y + P/Q > 0`.
What is left of `ErfFacts` is `ErfFactsResidual` below. -/

/-- soundness of the checker: the real polynomial lies between the two rational bounds on `[lo, hi]`, `0 ≤ lo` -/
theorem interval_horner_sound (cs : List ℚ) (lo hi : ℚ) (h0 : 0 ≤ lo) (x : ℝ) (hl : (lo : ℝ) ≤ x) (hh : x ≤ (hi : ℝ)) :
    ((hornerBounds cs lo hi).1 : ℝ) ≤ polyR cs x ∧ polyR cs x ≤ ((hornerBounds cs lo hi).2 : ℝ) :=
  hornerBounds_sound cs lo hi h0 x hl hh

/-- `evaluate_polynomial` on a generated table is the polynomial with the table's exact rational coefficients -/
theorem evaluate_polynomial_exact (z : ℝ) (l : List DLit) : evalPoly z (tbl l) = polyR (l.map dq) z :=
  evalPoly_tbl z l

/-- **`erf_imp`, `z < 0.5`**: the denominator is `> 0` and `1.125 + P(z)/Q(z) > 0` on `[0, 0.5]`, hence the value
`z·1.125 + z·P/Q` is `> 0` for `0 < z` -/
theorem erf_imp_small_branch (z : ℝ) (h0 : 0 < z) (h1 : z ≤ 1 / 2) :
    0 < evalPoly z (tbl ERF_IMP_AD)
      ∧ 0 < z * 1.125 + z * evalPoly z (tbl ERF_IMP_AN) / evalPoly z (tbl ERF_IMP_AD) := by
  obtain ⟨hq, hp⟩ := posCert_sound ERF_IMP_AN ERF_IMP_AD (9 / 8) (1 / 2) erf_rowA_cert z h0.le (by push_cast; linarith)
  refine ⟨hq, ?_⟩
  have e : z * 1.125 + z * evalPoly z (tbl ERF_IMP_AN) / evalPoly z (tbl ERF_IMP_AD)
      = z * ((((9 / 8 : ℚ) : ℝ) * evalPoly z (tbl ERF_IMP_AD) + evalPoly z (tbl ERF_IMP_AN)) / evalPoly z (tbl ERF_IMP_AD)) := by
    field_simp
    push_cast
    ring
  rw [e]
  exact mul_pos h0 (div_pos hp hq)

/-- **`erf_imp`, `0.5 ≤ z < 110`, every one of the 13 rows** (numerator table, denominator table, index of `b`, shift,
width): on the row's interval the denominator is `> 0`, `0 < b + P/Q < z`, and therefore the value the row produces for
`erf`, `1 − (g·b + g·r)` with `g = exp(−z²)/z`, lies in `(0, 1)` -/
theorem erf_imp_rows (r : List DLit × List DLit × Nat × ℚ × ℚ) (hr : r ∈ erfRows) (z : ℝ) (hz : 0 < z)
    (h1 : ((r.2.2.2.1 : ℚ) : ℝ) ≤ z) (h2 : z ≤ ((r.2.2.2.1 : ℚ) : ℝ) + ((r.2.2.2.2 : ℚ) : ℝ)) :
    let s := erfRow z ((r.2.2.2.1 : ℚ) : ℝ) r.1 r.2.1 r.2.2.1
    0 < evalPoly (z - ((r.2.2.2.1 : ℚ) : ℝ)) (tbl r.2.1) ∧ 0 < s.2 + s.1 ∧ s.2 + s.1 < z
      ∧ 0 < 1 - (Real.exp (-z * z) / z * s.2 + Real.exp (-z * z) / z * s.1)
      ∧ 1 - (Real.exp (-z * z) / z * s.2 + Real.exp (-z * z) / z * s.1) < 1 := by
  intro s
  have hc := List.all_eq_true.mp erf_rows_cert r hr
  simp only [Bool.and_eq_true] at hc
  obtain ⟨hq, ha, hb⟩ := erfRow_bounds r.1 r.2.1 r.2.2.1 r.2.2.2.1 r.2.2.2.2 _ rfl hc.1 hc.2 z h1 h2
  obtain ⟨m1, m2⟩ := erf_mid_mem z s.2 s.1 hz ha hb
  exact ⟨hq, ha, hb, by linarith, by linarith⟩

/-- **`erf_inv_impl`, rows A–F** (argument intervals `p ∈ [0, 0.5]`, `q − 0.25 ∈ [0, 0.25]`, `x − 1.125 ∈ [0, 1.875]`,
`x − 3 ∈ [0, 3]`, `x − 6 ∈ [0, 12]`, `x − 18 ∈ [0, 26]`): the denominator is `> 0` and `Y + P/Q > 0` -/
theorem erf_inv_rows (r : List DLit × List DLit × Nat × ℚ) (hr : r ∈ erfInvRows) (xs : ℝ) (h0 : 0 ≤ xs)
    (hw : xs ≤ ((r.2.2.2 : ℚ) : ℝ)) :
    0 < evalPoly xs (tbl r.2.1)
      ∧ 0 < ((yq r.2.2.1 : ℚ) : ℝ) + evalPoly xs (tbl r.1) / evalPoly xs (tbl r.2.1) := by
  have hc := List.all_eq_true.mp erfInv_rows_cert r hr
  obtain ⟨hq, hp⟩ := posCert_sound r.1 r.2.1 (yq r.2.2.1) r.2.2.2 hc xs h0 hw
  refine ⟨hq, ?_⟩
  have e : ((yq r.2.2.1 : ℚ) : ℝ) + evalPoly xs (tbl r.1) / evalPoly xs (tbl r.2.1)
      = (((yq r.2.2.1 : ℚ) : ℝ) * evalPoly xs (tbl r.2.1) + evalPoly xs (tbl r.1)) / evalPoly xs (tbl r.2.1) := by
    field_simp
  rw [e]
  exact div_pos hp hq


/-- round 8: **the two numeric bounds on `exp`** the `erf_inv` rows need, proved (`exp 1` to nine digits from Mathlib;
`exp(36) = (exp 1)^36`, `exp(0.265625) ≤ 1/(1 − 0.265625)`) -/
theorem erf_inv_exp_bounds : Real.exp (1.265625 : ℝ) ≤ 4 ∧ (1e11 : ℝ) < Real.exp 36 :=
  ⟨exp_small_le, exp_36_gt⟩

/-- … hence where `x = sqrt(−ln q)` lands in `erf_inv_impl`'s third branch: `q < 0.25 ⇒ x ≥ 1.125` (row C's argument
`x − 1.125 ≥ 0`, inside the interval of `erf_inv_rows`), and `q ≥ 10⁻¹¹` (i.e. `z ≤ 1 − 10⁻¹¹`) `⇒ x < 6`: only rows C
and D are reached, rows E, F, G — G being the one whose sign fact is false for huge `x` — are not -/
theorem erf_inv_argument_ranges (q : ℝ) (h0 : 0 < q) :
    (q < 0.25 → (1.125 : ℝ) ≤ Real.sqrt (-Real.log q)) ∧ ((1e-11 : ℝ) ≤ q → Real.sqrt (-Real.log q) < 6) :=
  ⟨sqrt_neg_log_ge q h0, sqrt_neg_log_lt q⟩

/-- **What is left of `ErfFacts`** for the transcribed functions (`stdSpecial`), stated explicitly.  NOT proved:
(1) the case analysis through the 13-way `if` chain of `erf_imp` that selects the row whose interval contains `z`
(mechanical: each guard `z < next shift` together with the failed previous guard is the row's interval of `erf_imp_rows`;
no analysis involved); (2) the same kind of case analysis through the 7-way chain of `erf_inv_impl` (round 8: the two numeric bounds it
needs are theorems now, `erf_inv_exp_bounds` / `erf_inv_argument_ranges`).  No analytic fact is missing any more; the
case analysis was attempted in round 8 and fails for a technical reason: `simp` / `split` exceed their step limit on
the unfolded `erfImpNonneg` term (13 nested `if`s over the generated tables); it needs the row chain factored into a
named function of `Model/PerfCalc.lean`.  Given these, `ErfFacts stdSpecial` follows from `erf_imp_small_branch`, `erf_imp_rows`,
`erf_inv_rows` and the signs `exp > 0`, `sqrt ≥ 0`, `p·(p + 10) > 0`. -/
def ErfFactsResidual : Prop :=
  (∀ x : ℝ, 0 < x → 0 < (stdSpecial (R := ℝ)).erf x) ∧
  (∀ z : ℝ, 0 < z → z ≤ 1 - 1e-11 → 0 < (stdSpecial (R := ℝ)).erfInv z)

/-- `ErfFacts` for the transcribed functions is exactly the residual (a definitional repackaging: the proved polynomial
facts above are what reduces each conjunct to case analysis + the two `ln` bounds) -/
theorem erfFacts_of_residual (h : ErfFactsResidual) : ErfFacts (stdSpecial (R := ℝ)) := ⟨h.2, h.1⟩

/-! ### non-vacuity -/

/-- the hypotheses on the special functions are satisfiable (here by the identity functions; for the
transcribed `erf`/`erf_inv` they are checked numerically on every run) -/
example : ErfFacts ⟨fun x => x, fun z => z⟩ := ⟨fun _ h _ => h, fun _ h => h⟩

/-- a realistic osu! calculator state satisfies `OsuAttrsOK` -/
example : OsuAttrsOK
    ({ attrs := { aim := 3, aimDifficultSliderCount := 10, speed := 2, flashlight := 1, sliderFactor := 0.9,
                  speedNoteCount := 100, aimDifficultStrainCount := 50, speedDifficultStrainCount := 40,
                  ar := 9, greatHitWindow := 30, okHitWindow := 80, mehHitWindow := 120, hp := 5,
                  nCircles := 200, nSliders := 100, nLargeTicks := 50, nSpinners := 1, maxCombo := 500 },
       mods := default, acc := 0.98, state := ⟨480, 50, 100, 100, 290, 8, 2, 1⟩,
       effectiveMissCount := 1, usingClassicSliderAcc := false } : OsuCalc ℝ) :=
  ⟨by norm_num, by norm_num, by norm_num, by norm_num, by norm_num, by norm_num, by decide,
    fun h => by simp at h, fun _ => by decide, fun _ => by decide⟩

example : RelevantCountsOK (120 : ℝ) 5 1 2 :=
  ⟨by unfold maxHits; norm_num, by norm_num, by norm_num, by norm_num, by norm_num⟩

example : TaikoAttrsOK ⟨30, 0.5, 5, 1000, false⟩ := ⟨by norm_num, by norm_num, by norm_num⟩

example : (⟨3, 1, 1, 0, 0, 1⟩ : CatchState).maxCombo ≤ (⟨5, 9, 4, 2⟩ : CatchAttrs ℝ).maxCombo := by
  unfold CatchAttrs.maxCombo; decide

end Rosu.C09b
