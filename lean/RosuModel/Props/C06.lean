import RosuModel.Lemmas.Decode
import RosuModel.Lemmas.LegacySort
import RosuModel.Lemmas.HeapSort
import RosuModel.Lemmas.SortTotal

/-!
# C06 — decoding always yields a well-formed beatmap (post-processing part)

Statements are about the literal models of `TandemSorter`, `osu_legacy::sort`, the sorting and
clamping part of `impl From<BeatmapState> for Beatmap` and the pending/flush/insert-or-replace
logic of the control points (`Model/Sort.lean`, `Model/Decode.lean`).  Times are total-order keys
(`f64::total_cmp`); `norm` maps a key to the numeric (IEEE `<`) order, which identifies `-0.0`
and `+0.0`.

Not covered by a theorem (searched by the harness only): totality of the rosu-map line reader
and of the per-line parsers on arbitrary bytes; equality of the three entry points.
-/

namespace Rosu.C06
open Rosu.Sort Rosu.Decode

variable {α β : Type}

/-! ## TandemSorter -/

/-- `sort` applies the stored permutation: for every permutation `σ` of `0..n` and every slice of
length `n`, a fresh (`r = false`) or already used (`r = true`) sorter does not panic, does not
run out of fuel, puts `a[σ[i]]` at position `i`, and ends with every index marked and
`should_reset` set (the index values are unchanged). -/
theorem tandem_applies_perm (σ : List Nat) (hσ : PermIdx σ) (r : Bool) (a : List α)
    (ha : a.length = σ.length) :
    ∃ a', Tandem.sort ⟨σ.map (·, r), r⟩ a = some (⟨σ.map (·, true), true⟩, a') ∧
      a'.map some = σ.map (fun k => a[k]?) :=
  Tandem.sort_spec hσ r a ha

/-- Using one sorter on two slices in turn (objects, then sounds) applies the *same* permutation
to both: the mark toggle of the second call restores the indices. -/
theorem tandem_second_use_same_perm (σ : List Nat) (hσ : PermIdx σ) (a : List α) (b : List β)
    (ha : a.length = σ.length) (hb : b.length = σ.length) :
    ∃ t1 a' t2 b', Tandem.sort ⟨σ.map (·, false), false⟩ a = some (t1, a') ∧
      Tandem.sort t1 b = some (t2, b') ∧ t2 = t1 ∧ Applied σ a a' ∧ Applied σ b b' := by
  obtain ⟨a', h1, hA⟩ := Tandem.sort_spec hσ false a ha
  obtain ⟨b', h2, hB⟩ := Tandem.sort_spec hσ true b hb
  exact ⟨_, a', _, b', h1, h2, rfl, hA, hB⟩

/-- Pairing: after both calls, position `i` of the two slices holds the two values that shared a
position before — `zip` commutes with the tandem sort. -/
theorem tandem_pairs (σ : List Nat) (hσ : PermIdx σ) (a : List α) (b : List β)
    (ha : a.length = σ.length) (hb : b.length = σ.length) :
    ∃ t1 a' t2 b', Tandem.sort ⟨σ.map (·, false), false⟩ a = some (t1, a') ∧
      Tandem.sort t1 b = some (t2, b') ∧ Applied σ (a.zip b) (a'.zip b') := by
  obtain ⟨t1, a', t2, b', h1, h2, _, hA, hB⟩ := tandem_second_use_same_perm σ hσ a b ha hb
  refine ⟨t1, a', t2, b', h1, h2, Applied.zip (by omega) ?_ hA hB⟩
  intro x hx
  rw [ha]
  exact hσ.bound x hx

/-- The swaps depend only on the indices: for **every** sorter state (permutation or not, any
marks), sorting `zip a b` is sorting `a` and `b` separately and zipping — so two parallel slices
can never get out of step, and one panics iff the other does. -/
theorem tandem_swaps_depend_only_on_indices (t : Tandem) (a : List α) (b : List β)
    (hl : a.length = b.length) :
    t.sort (a.zip b) =
      match t.sort a, t.sort b with
      | some (t1, a'), some (_, b') => some (t1, a'.zip b')
      | _, _ => none :=
  Tandem.sort_zip t a b hl

/-- `new_stable` always produces a permutation of `0..n` (so the theorems above apply to every
sorter the code ever builds), and it orders the keys. -/
theorem newStable_is_sorting_perm (keys : List Int) :
    PermIdx (stableIndices keys) ∧ (stableIndices keys).length = keys.length ∧
    (stableIndices keys).Pairwise (fun i j => keys.getD i 0 ≤ keys.getD j 0) :=
  ⟨stableIndices_permIdx keys, stableIndices_length keys, stableIndices_sorted keys⟩

example : PermIdx [2, 0, 1] := ⟨by decide, by decide⟩

example : Tandem.sort ⟨[(2, false), (0, false), (1, false)], false⟩ ["a", "b", "c"]
    = some (⟨[(2, true), (0, true), (1, true)], true⟩, ["c", "a", "b"]) := by decide

/-- A marked index met during the walk is a panic in the model (out-of-bounds swap), so the
"no panic" part of `tandem_applies_perm` is not vacuous. -/
example : Tandem.sort ⟨[(1, false), (1, false)], false⟩ ["a", "b"] = none := by decide

/-! ## hit objects and hit sounds after `From<BeatmapState>` (osu!, taiko, catch) -/

/-- Common part: what the two `sorter.sort` calls of `From<BeatmapState>` produce. -/
theorem sortObjects_tandem {τ υ : Type} (objs : List (Int × τ)) (sounds : List υ)
    (h : sounds.length = objs.length) :
    ∃ o' s', (∀ mania, sortObjects mania objs sounds =
        if mania then
          (match legacySort objGt objLt o' with
            | none => none
            | some o'' => some (o'', s'))
        else some (o', s')) ∧
      o'.length = objs.length ∧ s'.length = o'.length ∧
      (o'.map (·.1)).Pairwise (· ≤ ·) ∧
      (o'.map (fun p => norm p.1)).Pairwise (· ≤ ·) ∧
      (o'.zip s').Perm (objs.zip sounds) := by
  have hσ := stableIndices_permIdx (objs.map (·.1))
  have hlen := stableIndices_length (objs.map (·.1))
  rw [List.length_map] at hlen
  obtain ⟨t1, o', t2, s', h1, h2, _, hA, hB⟩ :=
    tandem_second_use_same_perm _ hσ objs sounds hlen.symm (by omega)
  have hbound : ∀ x ∈ stableIndices (objs.map (·.1)), x < objs.length := by
    intro x hx; rw [← hlen]; exact hσ.bound x hx
  have hkeys := Applied.keys hA hbound
  have hsorted : (o'.map (·.1)).Pairwise (· ≤ ·) := by
    rw [hkeys, List.pairwise_map]
    exact stableIndices_sorted _
  refine ⟨o', s', ?_, ?_, ?_, hsorted, ?_, ?_⟩
  · intro mania
    unfold sortObjects Tandem.newStable
    simp only [h1, h2]
    rfl
  · rw [Applied.length hA, hlen]
  · rw [Applied.length hB, Applied.length hA]
  · have := hsorted
    rw [List.pairwise_map] at this ⊢
    exact this.imp (fun h => norm_mono h)
  · have hz : Applied _ (objs.zip sounds) (o'.zip s') := Applied.zip (by omega) hbound hA hB
    apply Applied.perm hz
    have : (objs.zip sounds).length = (objs.map (·.1)).length := by
      rw [List.length_zip, List.length_map]; omega
    rw [this]
    exact stableIndices_perm _

/-- For every sequence of accepted hit-object records (any order, any ties) with one sound each:
the post-processing does not panic; objects come out in non-decreasing start-time order (for
`total_cmp` and therefore numerically); there is exactly one sound per object; and the
(object, sound) pairs are a permutation of the pairs as written in the file — every sound still
belongs to the object of its line. -/
theorem decode_objects_sorted_and_paired {τ υ : Type} (objs : List (Int × τ)) (sounds : List υ)
    (h : sounds.length = objs.length) :
    ∃ o' s', sortObjects false objs sounds = some (o', s') ∧
      o'.length = objs.length ∧ s'.length = o'.length ∧
      (o'.map (·.1)).Pairwise (· ≤ ·) ∧
      (o'.map (fun p => norm p.1)).Pairwise (· ≤ ·) ∧
      (o'.zip s').Perm (objs.zip sounds) := by
  obtain ⟨o', s', he, r⟩ := sortObjects_tandem objs sounds h
  exact ⟨o', s', by rw [he false]; rfl, r⟩

/-- The hypotheses are satisfiable by an unsorted input with ties. -/
example : ∃ o' s', sortObjects false [((5 : Int), "x"), (3, "y"), (5, "z"), (-1, "w")] [10, 11, 12, 13]
    = some (o', s') ∧ o'.length = 4 :=
  let ⟨o', s', h, hl, _⟩ := decode_objects_sorted_and_paired
    [((5 : Int), "x"), (3, "y"), (5, "z"), (-1, "w")] [(10 : Nat), 11, 12, 13] rfl
  ⟨o', s', h, hl⟩

/-! ## mania: the legacy sort after the tandem sort -/

/-- `osu_legacy::sort` (heap-sort fallback included) only ever swaps: whatever it returns is a
permutation of its input. -/
theorem legacy_sort_perm [DecidableEq α] (gt lt : α → α → Bool) (l l' : List α)
    (h : legacySort gt lt l = some l') : l'.Perm l :=
  legacySort_perm h

/-- The comparison functions the code uses on hit objects are induced by the numeric start time. -/
theorem objOrder {τ : Type} : KeyOrder (fun (p : Int × τ) => norm p.1) objGt objLt where
  lt_iff := by intro x y; simp [objLt, fltLt]
  gt_imp := by
    intro x y h
    simp only [objGt, totGt, decide_eq_true_eq] at h
    exact norm_mono (by omega)

/-- `heap_sort` (the fallback after 32 partition levels) really sorts: whenever it returns, the
start-time keys (total order) at positions `lo..=hi` are non-decreasing and positions outside the
range hold the same keys as before. -/
theorem heap_sort_sorts {τ : Type} (l l' : List (Int × τ)) (lo hi : Nat)
    (h : heapSort objGt l lo hi = some l') :
    (∀ p q, lo ≤ p → p < q → q ≤ hi → kv (fun x => x.1) l' p ≤ kv (fun x => x.1) l' q) ∧
    (∀ p, (p < lo ∨ hi < p) → kv (fun x => x.1) l' p = kv (fun x => x.1) l p) := by
  have hk : KeyGt (fun (x : Int × τ) => x.1) objGt := ⟨by intro x y; simp [objGt, totGt]⟩
  obtain ⟨hle, hr, hs⟩ := heapSort_sorted hk h
  exact ⟨hs, fun p hp => hr.out p (by omega)⟩

/-- What the quicksort part needs from its fallback: on a list whose numeric keys are already
non-decreasing it leaves the key sequence unchanged. -/
def FallbackKeepsSortedKeys {τ : Type} : Prop :=
  ∀ (l : List (Int × τ)) (lo hi : Nat) (l' : List (Int × τ)),
    KeysSorted (fun p => norm p.1) l → heapSort objGt l lo hi = some l' →
    l'.map (fun p => norm p.1) = l.map (fun p => norm p.1)

/-- …which the literal `heap_sort` model satisfies (it sorts its range and permutes). -/
theorem fallback_keeps_sorted_keys {τ : Type} [DecidableEq τ] : @FallbackKeepsSortedKeys τ := by
  intro l lo hi l' hs h
  have hk : KeyGt (fun (x : Int × τ) => x.1) objGt := ⟨by intro x y; simp [objGt, totGt]⟩
  exact heapSort_keeps_sorted_keys hk norm (fun _ _ h => norm_mono h) hs h

/-- The legacy sort is only ever called on start-time-sorted objects (after the stable tandem
sort in the decoder, after `sort_by` in the mania converter).  On such an input every swap of
the quicksort part exchanges objects with numerically equal start times and the heap-sort
fallback re-establishes the same key sequence, so the sequence of start times is unchanged — in
particular still non-decreasing. -/
theorem legacy_sort_keeps_sorted_keys {τ : Type} [DecidableEq τ]
    (l l' : List (Int × τ)) (hs : KeysSorted (fun p => norm p.1) l)
    (h : legacySort objGt objLt l = some l') :
    l'.map (fun p => norm p.1) = l.map (fun p => norm p.1) := by
  unfold legacySort at h
  split at h
  · cases h; rfl
  · exact dlqs_keys_of_sorted objOrder fallback_keeps_sorted_keys _ _ _ _ _ hs h

/-- a sorted input with ties and signed zeros (keys `-1`, `0` are `-0.0`, `+0.0`): the hypotheses
of `legacy_sort_keeps_sorted_keys` are satisfiable; the routine reorders numerically equal keys\n(the result is sorted numerically, not for `total_cmp`) -/
example : legacySort objGt objLt [((-7 : Int), 0), (-1, 1), (-1, 2), (0, 3), (0, 4), (9, 5), (9, 6)]
    = some [(-7, 0), (0, 3), (0, 4), (-1, 1), (-1, 2), (9, 6), (9, 5)] := by decide

example : heapSort objGt [((3 : Int), 0), (1, 1), (2, 2), (1, 3)] 0 3
    = some [(1, 1), (1, 3), (2, 2), (3, 0)] := by decide

/-! ## totality of the sorting utilities (no panic, no out-of-bounds index, the loops terminate) -/

/-- Every sorter built by `TandemSorter::new_stable` can be applied, any number of times, to any
slice of the right length: `sort` never panics and never runs out of the model's fuel (the
sorter after a use is the fully marked one, which is again a valid argument). -/
theorem tandem_total (keys : List Int) (a : List α) (b : List β) (ha : a.length = keys.length)
    (hb : b.length = keys.length) :
    ∃ t1 a' t2 b', (Tandem.newStable keys).sort a = some (t1, a') ∧ t1.sort b = some (t2, b') ∧
      t2 = t1 ∧ a'.length = a.length ∧ b'.length = b.length := by
  have hσ := stableIndices_permIdx keys
  have hlen := stableIndices_length keys
  obtain ⟨t1, a', t2, b', h1, h2, e, hA, hB⟩ :=
    tandem_second_use_same_perm _ hσ a b (by omega) (by omega)
  refine ⟨t1, a', t2, b', h1, h2, e, ?_, ?_⟩
  · rw [Applied.length hA]; omega
  · rw [Applied.length hB]; omega

/-- `heap_sort(keys, lo, hi, cmp)` returns for EVERY slice, EVERY comparison function (no order
property is used) and every range `lo ≤ hi < keys.len()`: the sift-down indices `lo + child - 1`,
`lo + child`, `lo + i - 1` stay in bounds, `hi - lo` does not underflow, and `down_heap`
terminates within the fuel the model (and the driver) gives it.  The length is unchanged. -/
theorem heap_sort_total (gt : α → α → Bool) (l : List α) (lo hi : Nat) (h1 : lo ≤ hi)
    (h2 : hi < l.length) : ∃ l', heapSort gt l lo hi = some l' ∧ l'.length = l.length :=
  heapSort_total gt l lo hi h1 h2

/-- `osu_legacy::sort` returns for EVERY input list (any length, sorted or not), every `gt`, and
every `lt` with `¬ x < x` (IEEE `<`, NaNs included): no index of the two pivot scans leaves the
slice, `j -= 1` and `right - i` never underflow, every `while`/`loop` terminates within the fuel
of the model, and the `heap_sort` fallback after `depth` levels returns — for every depth limit
(`32` in the code; the driver's `LEGACY <depth>` lines call exactly this function). -/
theorem legacy_sort_total (gt lt : α → α → Bool) (hirr : ∀ x, lt x x = false) (depth : Nat)
    (l : List α) :
    (∃ l', legacySortDepth gt lt depth l = some l' ∧ l'.length = l.length) ∧
    (∃ l', legacySort gt lt l = some l' ∧ l'.length = l.length) :=
  ⟨legacySortDepth_total hirr depth l, legacySort_total hirr l⟩

/-- …in particular for the comparison functions of the code on hit objects. -/
theorem legacy_sort_objects_total {τ : Type} (l : List (Int × τ)) :
    ∃ l', legacySort objGt objLt l = some l' ∧ l'.length = l.length :=
  legacySort_total (fun x => by simp [objLt, fltLt]) l

/-- Totality on an unsorted input that reaches the heap-sort fallback (depth limit 1). -/
example : legacySortDepth objGt objLt 1 [((3 : Int), 0), (1, 1), (2, 2), (0, 3), (5, 4), (4, 5)]
    = some [(0, 3), (1, 1), (2, 2), (3, 0), (4, 5), (5, 4)] := by decide

/-- The irreflexivity hypothesis is needed: with a reflexive "`<`" the first scan runs off the
slice. -/
example : legacySort (fun (_ _ : Nat) => false) (fun _ _ => true) [1, 2] = none := by decide

/-- `left < right` is needed for the quicksort part: on a one-element window `right - i`
underflows.  The code never makes such a call (`len < 2` returns early, both recursive calls and
the loop are guarded by `left < j` / `i < right` / `left >= right`), which is what `dlqs_total`
proves by carrying `left < right` through the recursion. -/
example : dlqs objGt objLt (heapSort objGt) 1 [((1 : Int), 0), (2, 1)] 0 0 = none := by decide

/-- Without the sortedness precondition the routine is *not* a sorting function: the pivot is
re-read from `keys[mid]` after swaps moved it (the C# original keeps a copy).  No call site passes
unsorted input. -/
theorem legacy_sort_needs_sorted_input :
    ∃ l l' : List (Int × Nat), legacySort objGt objLt l = some l' ∧
      ¬ (l'.map (fun p => norm p.1)).Pairwise (· ≤ ·) :=
  ⟨[(0, 0), (1, 1), (0, 2), (1, 3), (0, 4), (0, 5), (0, 6), (1, 7)], _, rfl, by decide⟩

/-- Mania maps: for every sequence of accepted records with one sound each the post-processing
does not panic (tandem sort and legacy sort both return); objects and sounds keep their lengths,
the objects are a permutation of the accepted records (sounds are not re-paired by the legacy
sort — the property exempts mania), and the start times are non-decreasing. -/
theorem decode_mania_objects {τ υ : Type} [DecidableEq τ]
    (objs : List (Int × τ)) (sounds : List υ) (h : sounds.length = objs.length) :
    ∃ o'' s', sortObjects true objs sounds = some (o'', s') ∧
      o''.Perm objs ∧ s'.length = o''.length ∧
      (o''.map (fun p => norm p.1)).Pairwise (· ≤ ·) := by
  obtain ⟨o1, s1, he, hl1, hl2, _, hsn, hperm⟩ := sortObjects_tandem objs sounds h
  obtain ⟨o'', hleg, _⟩ := legacy_sort_objects_total o1
  refine ⟨o'', s1, ?_, ?_, ?_, ?_⟩
  · rw [he true]
    simp only [if_true, hleg]
  · have hp : o''.Perm o1 := legacySort_perm hleg
    have hz := hperm.map Prod.fst
    rw [List.map_fst_zip (by omega), List.map_fst_zip (by omega)] at hz
    exact hp.trans hz
  · rw [hl2, (legacySort_perm hleg).length_eq]
  · rw [legacy_sort_keeps_sorted_keys o1 o'' hsn hleg]; exact hsn

example : ∃ o'' s', sortObjects true [((5 : Int), "x"), (3, "y"), (5, "z"), (-1, "w")] [10, 11, 12, 13]
    = some (o'', s') ∧ o''.length = 4 :=
  let ⟨o'', s', h, hp, _⟩ := decode_mania_objects
    [((5 : Int), "x"), (3, "y"), (5, "z"), (-1, "w")] [(10 : Nat), 11, 12, 13] rfl
  ⟨o'', s', h, hp.length_eq⟩

/-! ## control points -/

/-- Insert-or-replace at the binary-search position keeps a control-point vector strictly
ordered by time (also used by the taiko converter's `EffectPoint::add`). -/
theorem insertOrReplace_strictSorted {V : Type} (p : Int × V) (l : List (Int × V))
    (h : StrictSorted l) : StrictSorted (insertOrReplace p l) ∧ p ∈ insertOrReplace p l :=
  ⟨Decode.insertOrReplace_strictSorted p l h, insertOrReplace_mem_self p l⟩

/-- For every sequence of accepted `[TimingPoints]` lines and every behaviour of the float
predicates (`not_eq` on times, redundancy checks): after decoding, timing, difficulty and effect
points are each strictly increasing in time (order of `total_cmp`, the order all lookups use). -/
theorem control_points_strictly_sorted {T D E : Type} (P : CPParams D E)
    (lines : List (Line T D E)) : PointsSorted (decodePoints P lines) := by
  unfold decodePoints
  apply flush_sorted
  apply foldl_addLine_sorted
  exact ⟨List.Pairwise.nil, List.Pairwise.nil, List.Pairwise.nil⟩

/-- Strictness is with respect to the total order: a vector may hold a point at `-0.0` *and* one
at `+0.0` (keys `-1` and `0`), which are numerically equal. -/
theorem control_points_signed_zero_witness :
    StrictSorted (insertOrReplace ((0 : Int), "b") (insertOrReplace (-1, "a") [])) ∧
      norm (-1) = norm 0 := by unfold StrictSorted; decide

/-! ## clamps -/

/-- Every difficulty field of a decoded map lies inside the clamp interval of
`From<BeatmapState>` (numeric order), for any parsed value, in both mania and non-mania maps. -/
theorem clamp_ranges (mania : Bool) (d : Diff) :
    let c := clampDiff mania d
    (norm f32_0 ≤ norm c.hp ∧ norm c.hp ≤ norm f32_10) ∧
    (norm f32_0 ≤ norm c.od ∧ norm c.od ≤ norm f32_10) ∧
    (norm f32_0 ≤ norm c.ar ∧ norm c.ar ≤ norm f32_10) ∧
    (if mania then norm f32_1 ≤ norm c.cs ∧ norm c.cs ≤ norm f32_18
      else norm f32_0 ≤ norm c.cs ∧ norm c.cs ≤ norm f32_10) ∧
    (norm f64_0_4 ≤ norm c.sm ∧ norm c.sm ≤ norm f64_3_6) ∧
    (norm f64_0_5 ≤ norm c.tr ∧ norm c.tr ≤ norm f64_8) := by
  intro c
  refine ⟨clampKey_range _ _ _ (by decide), clampKey_range _ _ _ (by decide),
    clampKey_range _ _ _ (by decide), ?_, clampKey_range _ _ _ (by decide),
    clampKey_range _ _ _ (by decide)⟩
  cases mania
  · exact clampKey_range _ _ _ (by decide)
  · exact clampKey_range _ _ _ (by decide)

/-- Values inside the interval are not touched (bit for bit). -/
theorem clamp_identity_inside (lo hi x : Int) (h1 : norm lo ≤ norm x) (h2 : norm x ≤ norm hi) :
    clampKey lo hi x = x := clampKey_id lo hi x h1 h2

end Rosu.C06
