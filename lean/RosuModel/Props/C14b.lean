import RosuModel.Lemmas.SliderEventsMap
import RosuModel.Lemmas.SliderEventsOrder
import RosuModel.Props.C02
import RosuModel.Props.C14

/-!
# C14 (nested objects) — counts stated from RAW slider parameters

`Props/C14.lean` proves that the counting mechanisms are prefix sums over per-object descriptors;
there the descriptors (osu!: kind / large ticks / nested count, catch: the record stream) came from
hook summaries of the real objects.  Here the code that *produces* them is inside the model
(`Model/SliderEvents.lean`: `SliderEventsIter`, `OsuSlider::new`, `JuiceStream::new`), and the
statements below hold for EVERY arithmetic `A` — in particular for the IEEE-double instance the
driver replays bit for bit against the real code (SLEV / OSLD / JUICE / ONER lines):

* a slider with `n` spans yields exactly: one head first, then per span `k` ticks (the same `k`
  for every span — odd spans only reverse the order) and a repeat after every span but the last
  (`n − 1` repeats), then one legacy last tick and one tail;
* hence a juice stream records `n + 1` fruits and `n·k` droplets, an osu! slider has
  `n·k + (n − 1)` large ticks and `n·k + n` nested objects;
* a catch map's record stream contains one fruit per circle plus `span_count + 1` per slider, never
  ends with unattributed tiny droplets (the hypothesis `CatchWellFormed` of the C02/C14 catch
  theorems is discharged), and the regular builder reports exactly these counts;
* osu!: `max_combo = objects + large ticks + sliders` for every `passed_objects(n)`.
-/

namespace Rosu.SliderEvents

open Rosu.Gradual

variable {F : Type}

/-- **Event structure.** Whatever the arithmetic: head first; in between only ticks and repeats,
exactly `span_count − 1` repeats and `span_count · k` ticks; legacy last tick and tail at the end. -/
theorem slider_events_structure (A : Arith F) (it : Iter F) (fuel : Nat) (l : List (Event F))
    (h : it.events A fuel = some l) :
    ∃ mid : List (Event F),
      l = headEvent A it :: (mid ++ [lastTickEvent A it, tailEvent A it]) ∧
      (∀ e ∈ mid, e.kind = .tick ∨ e.kind = .rep) ∧
      kindCount .rep mid = it.spanCount - 1 ∧
      kindCount .tick mid = it.spanCount * ticksPerSpan A it fuel :=
  events_shape A it fuel l h

/-- Exactly one head, one legacy last tick, one tail, `span_count − 1` repeats, `span_count · k` ticks. -/
theorem slider_events_kind_counts (A : Arith F) (it : Iter F) (fuel : Nat) (l : List (Event F))
    (h : it.events A fuel = some l) :
    kindCount .head l = 1 ∧ kindCount .rep l = it.spanCount - 1 ∧ kindCount .lastTick l = 1 ∧
    kindCount .tail l = 1 ∧ kindCount .tick l = it.spanCount * ticksPerSpan A it fuel :=
  events_kind_counts A it fuel l h

/-- Span `s` emits its ticks (forward on even, reversed on odd spans), then its repeat. -/
theorem span_events_order (A : Arith F) (it : Iter F) (fuel s : Nat) (ds : List F)
    (h : spanTickDists A it fuel = some ds) :
    spanEvents A it fuel s = some (spanTicks A it s ds ++ spanRepeat A it s) :=
  spanEvents_eq A it fuel s ds h

/-- Every span has the same ticks up to order: reversal only permutes. -/
theorem ticks_per_span_equal (A : Arith F) (it : Iter F) (s : Nat) (ds : List F) :
    (spanTicks A it s ds).Perm (ds.map (tickEvent A it s)) ∧
    ((spanTicks A it s ds).map (·.progress)).Perm (ds.map fun d => A.div d it.len) ∧
    kindCount .tick (spanTicks A it s ds) = ds.length :=
  ⟨spanTicks_perm A it s ds, spanTicks_progress_perm A it s ds, by
    rw [kindCount_spanTicks]; simp⟩


/-- **Order within a span** (exact rationals, `span_duration ≥ 0`): the events of a span — its
ticks in emission order, then its repeat — have non-decreasing times, on even and on odd spans. -/
theorem span_event_times_sorted (it : Iter Rat) (fuel s : Nat) (hD : 0 ≤ it.spanDur)
    (l : List (Event Rat)) (h : spanEvents ratArith it fuel s = some l) :
    l.Pairwise (fun a b => a.time ≤ b.time) :=
  span_times_sorted it fuel s hD l h

/-- **Order across the whole slider** (exact rationals, `span_duration ≥ 0`): all ticks and repeats
come out in non-decreasing time order — span `s + 1` starts where span `s` ends — so over ℚ the final
sort of `OsuSlider::new` is the identity on them; in `f64` the recomputed repeat time
(`start + (span+1)·span_duration` instead of `span_start + span_duration`) can round differently,
which is what the sort is for. -/
theorem slider_event_times_sorted (it : Iter Rat) (fuel : Nat) (hD : 0 ≤ it.spanDur) (ds : List Rat)
    (hds : spanTickDists ratArith it fuel = some ds) :
    (midEvents ratArith it ds it.spanCount 0).Pairwise (fun a b => a.time ≤ b.time) ∧
    ∀ e ∈ midEvents ratArith it ds it.spanCount 0,
      it.start ≤ e.time ∧ e.time ≤ (tailEvent ratArith it).time := by
  refine ⟨midEvents_sorted it fuel hD ds hds _ 0, fun e he => ?_⟩
  have := midEvents_bounds it fuel hD ds hds _ 0 e he
  simp only [Nat.cast_zero, zero_mul, add_zero, Nat.zero_add] at this
  refine ⟨this.1, ?_⟩
  have ht : (tailEvent ratArith it).time = it.start + (it.spanCount : Rat) * it.spanDur := by
    simp [tailEvent, ratArith]
  rw [ht]; exact this.2

/-- The hypothesis is needed: with a negative span duration the times of a span decrease
(ticks at 100 and 200 of 250 px, then the repeat). -/
theorem span_event_times_sorted_needs_nonneg_duration :
    (spanEvents ratArith ⟨0, -100, 0, 100, 250, 2⟩ 10 0).map (fun l => l.map (·.time)) =
      some [-40, -80, -100] := by
  decide +kernel

/-- The final `sort::csharp` (unstable) and the `rotate_left` of `lazy_travel_time` only permute
the nested objects; what the attributes read of them is permutation invariant. -/
theorem nested_counts_permutation_invariant (a b : List (Nested F)) (h : a.Perm b) :
    a.length = b.length ∧ largeTickCount a = largeTickCount b :=
  nested_counts_perm a b h

/-- **Juice stream.** `span_count + 1` fruits (head, repeats, tail), `span_count · k` droplets, and
the last record is a fruit. -/
theorem juice_stream_fruits (A : Arith F) (fuel : Nat) (s : SliderIn F) (r : List CatchEvent)
    (h : juiceStream A fuel s = .ok r) (hs : 1 ≤ s.spans) :
    fruitCount r = s.spans + 1 ∧ (∃ k, dropletCount r = s.spans * k) ∧ ∃ r', r = r' ++ [.fruit] :=
  juiceStream_counts A fuel s r h hs

/-- The hypothesis `1 ≤ span_count` is needed: without spans the iterator still yields head and
tail, i.e. two fruits (`span_count + 1` would be one). -/
theorem juice_stream_fruits_needs_span :
    ∃ r, juiceStream ratArith 10 ⟨14, 1, 1, 0, 500, 1, true, 100, 0⟩ = .ok r ∧ fruitCount r = 2 :=
  ⟨[.fruit, .tiny 0, .tiny 0, .fruit], by decide +kernel, by decide⟩

/-- Non-vacuity: a two-span slider of 250 px at tick distance 100 over exact rationals. -/
example :
    juiceStream ratArith 10 ⟨14, 1, 1, 1000, 500, 1, true, 250, 2⟩ =
      .ok [.fruit, .tiny 7, .droplet, .tiny 7, .droplet, .tiny 3, .fruit, .tiny 3, .droplet, .tiny 7,
        .droplet, .tiny 7, .tiny 0, .fruit] := by
  decide +kernel

/-- **osu! slider.** Large ticks = ticks + repeats = `n·k + (n − 1)`; nested = large ticks + tail. -/
theorem osu_slider_nested (A : Arith F) (fuel : Nat) (s : SliderIn F) (o : OsuObj)
    (h : osuSlider A fuel s = .ok o) :
    o.kind = .slider ∧ o.nested = o.largeTicks + 1 ∧
      ∃ k, o.largeTicks = s.spans * k + (s.spans - 1) :=
  osuSlider_counts A fuel s o h

example : osuSlider ratArith 10 ⟨14, 1, 1, 1000, 500, 1, true, 250, 2⟩ = .ok ⟨.slider, 5, 6⟩ := by
  decide +kernel

/-- **Catch fruits from raw parameters** (`catch_fruits_def` of C14 without hook summaries): one
fruit per circle, `span_count + 1` per slider. -/
theorem catch_map_fruits (A : Arith F) (fuel : Nat) (objs : List (RawObj F)) (evs : List CatchEvent)
    (h : catchMapEvents A fuel objs = .ok evs) (hp : SpansPositive objs) :
    fruitCount evs = expectedFruits objs :=
  catchMapEvents_fruits A fuel objs evs h hp

/-- The stream the converter model produces is well formed in the sense the catch theorems of
C02/C14 assume: no tiny droplets after the last palpable object. -/
theorem catch_map_wellformed (A : Arith F) (fuel : Nat) (objs : List (RawObj F)) (evs : List CatchEvent)
    (h : catchMapEvents A fuel objs = .ok evs) (hp : SpansPositive objs) : CatchWellFormed evs :=
  catchMapEvents_pending A fuel objs evs _ h hp rfl

/-- Hence, unconditionally for model-generated streams: the regular builder with
`passed_objects(take)` equals the prefix sum over the gradual records … -/
theorem catch_counts_from_raw (A : Arith F) (fuel : Nat) (objs : List (RawObj F)) (evs : List CatchEvent)
    (h : catchMapEvents A fuel objs = .ok evs) (hp : SpansPositive objs) (take : Nat) :
    catchRegular evs take = catchPrefixCounts (catchGradualRecs evs) take :=
  catchRegular_eq_prefix evs take (catch_map_wellformed A fuel objs evs h hp)

/-- … and without a limit (any `take` at or above the palpable objects) the reported fruits are
circles + Σ (`span_count + 1`). -/
theorem catch_fruits_from_raw (A : Arith F) (fuel : Nat) (objs : List (RawObj F)) (evs : List CatchEvent)
    (h : catchMapEvents A fuel objs = .ok evs) (hp : SpansPositive objs) (take : Nat)
    (ht : catchPalpable evs ≤ take) :
    (catchRegular evs take).fruits = expectedFruits objs ∧
    (catchRegular evs take).droplets = dropletCount evs := by
  have := catchRegular_full evs (take, CatchCounts.zero) ht
  unfold catchRegular
  rw [this.1, this.2, catch_map_fruits A fuel objs evs h hp]
  simp [CatchCounts.zero]

/-- **osu! maps from raw parameters**: one descriptor per object; for every `passed_objects(take)`
the counted max combo is objects + large ticks + sliders (each slider adds its tail). -/
theorem osu_max_combo_from_raw (A : Arith F) (fuel : Nat) (raw : List (RawObj F)) (objs : List OsuObj)
    (h : osuMapObjs A fuel raw = .ok objs) (take : Nat) :
    objs.length = raw.length ∧
    let c := osuConvertCount objs take
    c.maxCombo = c.nCircles + c.nSliders + c.nSpinners + c.nLargeTicks + c.nSliders := by
  obtain ⟨hl, hall⟩ := osuMapObjs_spec A fuel raw objs h
  refine ⟨hl, ?_⟩
  rw [osu_counts_eq_prefix]
  exact osu_fold_maxCombo (objs.take take) (fun o ho => hall o (List.mem_of_mem_take ho))
    OsuCounts.zero rfl

end Rosu.SliderEvents
