import RosuModel.Lemmas.GradualOsu
import RosuModel.Lemmas.GradualCatch
import RosuModel.Lemmas.GradualMania
import RosuModel.Lemmas.GradualTaiko

/-!
# C14 — reported object counts and max combo account for exactly the objects of the map

The four `take`-gated counting mechanisms of the one-shot paths (`inspect` with `take -= 1`,
`max_combo < take`, the regular `ObjectCountBuilder`, lazy `.map(..).take(take)`) are proved
equal to plain prefix sums, hence monotone in `n`, capped at the total, and partitioned by kind.
-/

namespace Rosu.Gradual

/-! ## osu!standard -/

/-- The `inspect` closure with its decrementing `take` counts exactly the first `min take n`
objects. -/
theorem osu_counts_eq_prefix (objs : List OsuObj) (take : Nat) :
    osuConvertCount objs take = (objs.take take).foldl OsuCounts.incr OsuCounts.zero :=
  osuConvertCount_eq_prefix objs take

def OsuCounts.le (a b : OsuCounts) : Prop :=
  a.maxCombo ≤ b.maxCombo ∧ a.nCircles ≤ b.nCircles ∧ a.nSliders ≤ b.nSliders ∧
  a.nLargeTicks ≤ b.nLargeTicks ∧ a.nSpinners ≤ b.nSpinners

theorem osu_incr_le (c : OsuCounts) (h : OsuObj) : c.le (c.incr h) := by
  unfold OsuCounts.incr OsuCounts.le
  cases h.kind <;> simp <;> omega

theorem osu_fold_le (l : List OsuObj) (c : OsuCounts) : c.le (l.foldl OsuCounts.incr c) := by
  induction l generalizing c with
  | nil => simp [OsuCounts.le]
  | cons h t ih =>
    have h1 := osu_incr_le c h
    have h2 := ih (c.incr h)
    simp only [List.foldl_cons]
    unfold OsuCounts.le at *
    omega

/-- Circles, sliders and spinners add up to the number of objects considered. -/
theorem osu_kinds_partition (objs : List OsuObj) (take : Nat) :
    let c := osuConvertCount objs take
    c.nCircles + c.nSliders + c.nSpinners = min take objs.length := by
  intro c
  have hc : c = (objs.take take).foldl OsuCounts.incr OsuCounts.zero := osu_counts_eq_prefix objs take
  suffices h : ∀ (l : List OsuObj) (a : OsuCounts),
      (l.foldl OsuCounts.incr a).nCircles + (l.foldl OsuCounts.incr a).nSliders + (l.foldl OsuCounts.incr a).nSpinners =
        a.nCircles + a.nSliders + a.nSpinners + l.length by
    rw [hc, h]
    simp [OsuCounts.zero, List.length_take]
  intro l
  induction l with
  | nil => intro a; simp
  | cons h t ih =>
    intro a
    simp only [List.foldl_cons, List.length_cons]
    rw [ih]
    unfold OsuCounts.incr
    cases h.kind <;> simp <;> omega

/-- Counted amounts never decrease as `n` grows. -/
theorem osu_counts_monotone (objs : List OsuObj) (a b : Nat) (h : a ≤ b) :
    (osuConvertCount objs a).le (osuConvertCount objs b) := by
  rw [osu_counts_eq_prefix, osu_counts_eq_prefix]
  have : objs.take b = objs.take a ++ (objs.take b).drop a := by
    have h1 : (objs.take b).take a = objs.take a := by
      rw [List.take_take, Nat.min_eq_left h]
    rw [← h1, List.take_append_drop]
  rw [this, List.foldl_append]
  exact osu_fold_le _ _

/-- Any `n` at or above the total gives the same counts as not limiting at all
(`usize::MAX`). -/
theorem osu_counts_cap (objs : List OsuObj) (a b : Nat) (ha : objs.length ≤ a) (hb : objs.length ≤ b) :
    osuConvertCount objs a = osuConvertCount objs b := by
  rw [osu_counts_eq_prefix, osu_counts_eq_prefix, List.take_of_length_le ha, List.take_of_length_le hb]

/-! ## osu!taiko -/

/-- Max combo equals the number of hits, limited by `n`. -/
theorem taiko_combo_eq_hits (objs : List Bool) (take : Nat) :
    (taikoCreate objs take).2.1 = min take (hitsIn objs) := by
  have h := taiko_inspect_fold take objs 0 0 (Nat.zero_le _)
  simp only [Nat.zero_add] at h
  unfold taikoCreate
  generalize objs.foldl (taikoInspectStep take) (0, 0) = r at h
  obtain ⟨mc, nd⟩ := r
  simp only at h
  by_cases hl : objs.length < 2
  · simp [hl, h]
  · simp [hl, h]

theorem taiko_combo_monotone (objs : List Bool) (a b : Nat) (h : a ≤ b) :
    (taikoCreate objs a).2.1 ≤ (taikoCreate objs b).2.1 := by
  rw [taiko_combo_eq_hits, taiko_combo_eq_hits]; omega

theorem taiko_combo_cap (objs : List Bool) (a : Nat) (ha : hitsIn objs ≤ a) :
    (taikoCreate objs a).2.1 = hitsIn objs := by
  rw [taiko_combo_eq_hits]; omega

/-! ## osu!catch -/

/-- The regular builder with `take = n` counts exactly what the first `min n P` gradual records
hold (tiny droplets are attributed to the following fruit/droplet in both). -/
theorem catch_counts_eq_prefix (evs : List CatchEvent) (take : Nat)
    (hwf : (evs.foldl catchGradualStep (⟨false, 0⟩, [])).1.tiny = 0) :
    catchRegular evs take = catchPrefixCounts (catchGradualRecs evs) take := by
  have h := catchBuilders_fold take evs _ _ (catchBuilders_init take)
  have hc := h.c
  unfold catchRegular catchGradualRecs
  rw [hc, hwf]
  simp [CatchCounts.addTiny]

/-- Fruits plus droplets is the number of palpable objects considered. -/
theorem catch_palpable_count (recs : List CatchRec) (k : Nat) :
    (catchPrefixCounts recs k).fruits + (catchPrefixCounts recs k).droplets = min k recs.length := by
  unfold catchPrefixCounts
  suffices h : ∀ (l : List CatchRec) (a : CatchCounts),
      (l.foldl CatchCounts.add a).fruits + (l.foldl CatchCounts.add a).droplets = a.fruits + a.droplets + l.length by
    rw [h]; simp [CatchCounts.zero, List.length_take]
  intro l
  induction l with
  | nil => intro a; simp
  | cons r t ih =>
    intro a
    simp only [List.foldl_cons, List.length_cons]
    rw [ih]
    unfold CatchCounts.add
    split <;> simp <;> omega

/-- Every record produced by a fruit event is a fruit: fruits count circles, slider heads,
repeats and tails — exactly the `record_fruit` calls. -/
theorem catch_fruits_def (recs : List CatchRec) (k : Nat) :
    (catchPrefixCounts recs k).fruits = ((recs.take k).filter (·.fruit)).length := by
  unfold catchPrefixCounts
  suffices h : ∀ (l : List CatchRec) (a : CatchCounts),
      (l.foldl CatchCounts.add a).fruits = a.fruits + (l.filter (·.fruit)).length by
    rw [h]; simp [CatchCounts.zero]
  intro l
  induction l with
  | nil => intro a; simp
  | cons r t ih =>
    intro a
    simp only [List.foldl_cons]
    rw [ih]
    unfold CatchCounts.add
    by_cases hf : r.fruit = true <;> simp [hf] <;> omega

theorem catch_counts_cap (recs : List CatchRec) (a : Nat) (ha : recs.length ≤ a) :
    catchPrefixCounts recs a = catchPrefixCounts recs recs.length :=
  catchPrefixCounts_ge recs a ha

/-! ## osu!mania -/

theorem mania_objects_holds (objs : List ManiaObj) (take : Nat) :
    let c := (maniaOneShot (S := Unit) ⟨(), fun _ _ => ()⟩ objs take).1
    c.nObjects = min take objs.length ∧
    c.nHoldNotes = ((objs.take take).filter (fun o => !o.isCircle)).length ∧
    c.maxCombo = ((objs.take take).map (·.incOne)).sum := by
  simp [maniaOneShot]

theorem mania_counts_cap (objs : List ManiaObj) (a : Nat) (ha : objs.length ≤ a) :
    (maniaOneShot (S := Unit) ⟨(), fun _ _ => ()⟩ objs a).1 =
      (maniaOneShot (S := Unit) ⟨(), fun _ _ => ()⟩ objs objs.length).1 := by
  simp [maniaOneShot, List.take_of_length_le ha, Nat.min_eq_right ha]

/-- Non-vacuity / sanity on a concrete mixed map. -/
example :
    osuConvertCount [⟨.circle, 0, 0⟩, ⟨.slider, 2, 5⟩, ⟨.spinner, 0, 0⟩] 2 = ⟨7, 1, 1, 2, 0⟩ := by
  decide

end Rosu.Gradual
