import RosuModel.Lemmas.GradualOsu
namespace Rosu.Gradual
variable {S : Type}
theorem placeholder_c14 : True := trivial
end Rosu.Gradual
