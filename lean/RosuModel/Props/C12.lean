import RosuModel.Lemmas.GenStateTaiko
import RosuModel.Lemmas.GenStateOsu
import RosuModel.Lemmas.GenStateCatch
import RosuModel.Lemmas.GenStateMania2
import RosuModel.Lemmas.GenStateManiaSearch3

/-!
# C12 — generated score states are consistent, stable and what `calculate()` uses

All statements are about the transcriptions of `generate_state` in `Model/GenState.lean` and hold
for **every** instance `NumOps R` of the float arithmetic (they never inspect `R`), hence for the
`Float` instance that the driver executes and that is compared exactly with the implementation.
Quantified over: every attribute shape, every subset of provided fields with arbitrary values,
both priorities, every origin and every `passed_objects`.

`accepted` is the bit "the `best_dist` search accepted at least one candidate" (always `true`
when no search runs).  It is `false` only when every distance comparison fails (NaN accuracy);
the clauses that depend on the search result carry it as an explicit hypothesis.
-/
namespace Rosu.GenState

variable {R : Type} [NumOps R]

/-! ## two tiny instances used only for witnesses and non-vacuity examples -/

/-- an instance in which no comparison ever succeeds (what NaN does to `<`) -/
@[reducible] def rejectAll : NumOps Unit :=
  { ofNat := fun _ => (), add := fun _ _ => (), sub := fun _ _ => (), mul := fun _ _ => (),
    div := fun _ _ => (), abs := fun _ => (), lt := fun _ _ => false, floorU32 := fun _ => 0,
    ceilU32 := fun _ => 0, maxVal := (), infVal := () }

/-- truncating natural-number arithmetic: an executable instance in which searches do accept -/
@[reducible] def natOps : NumOps Nat :=
  { ofNat := id, add := (· + ·), sub := (· - ·), mul := (· * ·), div := (· / ·), abs := id,
    lt := fun a b => decide (a < b), floorU32 := id, ceilU32 := fun x => x + 1,
    maxVal := 1000000000, infVal := 1000000000 }

/-! ## osu!taiko -/

/-- number of judgements of a (partial) taiko play -/
def taikoJ (c : TaikoCfg) : Nat := min (passedU32 c.passed) c.maxCombo

/-- No checked `u32` operation of `TaikoPerformance::generate_state` fails. -/
theorem taiko_gen_total (c : TaikoCfg) (b : TaikoB R) : (taikoGenRaw c b).ok = true := by
  rw [taikoGenRaw_eq]
  have hm := optMin_le b.misses (min (passedU32 c.passed) c.maxCombo)
  have hs := taikoHitResults_spec c.prio b _ _ hm
  simp [hs.ok, hm]

theorem taiko_gen_never_panics (c : TaikoCfg) (b : TaikoB R) : taikoGen c b ≠ .panic := by
  unfold taikoGen
  simp [taiko_gen_total]

/-- Never more misses than judged objects. -/
theorem taiko_misses_le (c : TaikoCfg) (b : TaikoB R) : (taikoGenRaw c b).state.misses ≤ taikoJ c := by
  rw [taikoGenRaw_eq]
  exact optMin_le _ _

/-- The hit results add up to the number of judgements whenever the provided ones do not exceed it. -/
theorem taiko_sum_eq_judgements (c : TaikoCfg) (b : TaikoB R)
    (hacc : (taikoGenRaw c b).accepted = true)
    (hfit : b.n300.getD 0 + b.n100.getD 0 + b.misses.getD 0 ≤ taikoJ c) :
    let s := (taikoGenRaw c b).state
    s.n300 + s.n100 + s.misses = taikoJ c := by
  rw [taikoGenRaw_eq] at *
  have hm := optMin_le b.misses (min (passedU32 c.passed) c.maxCombo)
  have hs := taikoHitResults_spec c.prio b _ _ hm
  simp only at hacc ⊢
  apply hs.sum_eq hacc
  unfold taikoJ at hfit
  have : optMin b.misses (min (passedU32 c.passed) c.maxCombo) ≤ b.misses.getD 0 := by
    cases b.misses <;> simp
    omega
  omega

/-- "The provided results jointly fit": they can be extended to a consistent state.  If both hit
results are provided there is nothing left to extend, so they must fill the judgements exactly. -/
def TaikoFits (c : TaikoCfg) (b : TaikoB R) : Prop :=
  b.n300.getD 0 + b.n100.getD 0 + b.misses.getD 0 ≤ taikoJ c ∧
  (b.n300.isSome → b.n100.isSome → b.n300.getD 0 + b.n100.getD 0 + b.misses.getD 0 = taikoJ c)

/-- Provided results that jointly fit are kept unchanged (otherwise each one is clamped to
`judgements - misses` individually, see `taikoHitResults`). -/
theorem taiko_provided_kept (c : TaikoCfg) (b : TaikoB R) (hacc : (taikoGenRaw c b).accepted = true)
    (hfit : TaikoFits c b) :
    let s := (taikoGenRaw c b).state
    (∀ n, b.n300 = some n → s.n300 = n) ∧ (∀ n, b.n100 = some n → s.n100 = n) ∧
    (∀ n, b.misses = some n → s.misses = n) := by
  obtain ⟨hle, hall⟩ := hfit
  rw [taikoGenRaw_eq] at *
  have hm := optMin_le b.misses (min (passedU32 c.passed) c.maxCombo)
  have hs := taikoHitResults_spec c.prio b _ _ hm
  unfold taikoJ at hle hall
  have hmis : optMin b.misses (min (passedU32 c.passed) c.maxCombo) = b.misses.getD 0 := by
    cases hb : b.misses <;> simp [hb] at hle ⊢
    omega
  simp only at hacc ⊢
  refine ⟨?_, ?_, ?_⟩
  · intro n hn
    apply hs.keep300 hacc n hn
    · simp [hn] at hle; omega
    · rcases h1 : b.n100 with _ | y
      · left; rfl
      · right; simp [hn, h1] at hall hle ⊢; omega
  · intro n hn
    apply hs.keep100 hacc n hn
    · simp [hn] at hle; omega
    · rcases h3 : b.n300 with _ | y
      · left; rfl
      · right; simp [hn, h3] at hall hle ⊢; omega
  · intro n hn
    simp [hn] at hmis ⊢
    omega

/-- The combo never exceeds the achievable one. -/
theorem taiko_combo_le (c : TaikoCfg) (b : TaikoB R) :
    let s := (taikoGenRaw c b).state
    s.maxCombo ≤ c.maxCombo - s.misses := by
  rw [taikoGenRaw_eq]
  exact optMinOr_le _ _

/-- A provided combo that is achievable is kept. -/
theorem taiko_combo_kept (c : TaikoCfg) (b : TaikoB R) (n : Nat) (h : b.combo = some n)
    (hn : n ≤ c.maxCombo - (taikoGenRaw c b).state.misses) : (taikoGenRaw c b).state.maxCombo = n := by
  rw [taikoGenRaw_eq] at *
  simp only [h, optMinOr_some] at hn ⊢
  omega

/-- Second call: the state generated from the updated builder is the same state. -/
theorem taiko_gen_idempotent (c : TaikoCfg) (b : TaikoB R) (hacc : (taikoGenRaw c b).accepted = true) :
    taikoGenRaw c (b.update (taikoGenRaw c b).state) =
      { state := (taikoGenRaw c b).state, accepted := true, ok := true } := by
  have hm := optMin_le b.misses (min (passedU32 c.passed) c.maxCombo)
  have hs := taikoHitResults_spec c.prio b _ _ hm
  have hc := optMinOr_le b.combo (c.maxCombo - optMin b.misses (min (passedU32 c.passed) c.maxCombo))
  rw [taikoGenRaw_eq c b] at hacc
  exact taikoGenRaw_all_given c _ _ _ _ _ rfl rfl rfl rfl hm hs.le300 hs.le100 (hs.sum_ge hacc) hc

/-- `generate_state` twice gives the same state (and leaves the builder as the first call did). -/
theorem taiko_gen_twice (c : TaikoCfg) (b : TaikoB R) (s : TaikoState) (b' : TaikoB R)
    (h : taikoGen c b = .ok (s, b')) (hacc : (taikoGenRaw c b).accepted = true) :
    taikoGen c b' = .ok (s, b') := by
  unfold taikoGen at h
  simp only [taiko_gen_total, if_true, Res.ok.injEq, Prod.mk.injEq] at h
  obtain ⟨hs, hb⟩ := h
  subst hs; subst hb
  unfold taikoGen
  rw [taiko_gen_idempotent c b hacc]
  simp [TaikoB.update]

/-- `calculate()` returns exactly the result of supplying the generated state explicitly
(`.state(s)` is `TaikoB.update`), for any calculator `perfCalc` of attributes/mods and state. -/
theorem taiko_calculate_eq_explicit_state {Out : Type} (perfCalc : TaikoCfg → TaikoState → Out)
    (c : TaikoCfg) (b : TaikoB R) (hacc : (taikoGenRaw c b).accepted = true) :
    taikoCalculate perfCalc c b = taikoCalculate perfCalc c (b.update (taikoGenRaw c b).state) := by
  unfold taikoCalculate taikoGen
  rw [taiko_gen_idempotent c b hacc]
  simp [taiko_gen_total, Res.map]

/-- The unconditional version of idempotence (no `accepted` hypothesis). -/
def TaikoIdempotentUnconditional : Prop :=
  ∀ (c : TaikoCfg) (b : TaikoB Unit),
    (@taikoGenRaw Unit rejectAll c (b.update (@taikoGenRaw Unit rejectAll c b).state)).state =
      (@taikoGenRaw Unit rejectAll c b).state

/-- It is false: when no candidate is accepted (NaN accuracy) the first call leaves `n300 = n100 = 0`
and the second call, seeing them as provided, fills the remainder.  Replayed on the implementation
with `accuracy(NaN)` by the harness (recorded as an observation: NaN is outside the documented
domain). -/
theorem taiko_idempotence_needs_accepted : ¬ TaikoIdempotentUnconditional := by
  intro h
  have := h ⟨3, none, .best⟩ ⟨some (), none, none, none, none⟩
  revert this
  decide

/-- non-vacuity: an accepting search and fitting provided values exist -/
example : (@taikoGenRaw Nat natOps ⟨8, none, .best⟩ ⟨some 1, none, none, none, some 1⟩).accepted = true ∧
    (@taikoGenRaw Nat natOps ⟨8, none, .best⟩ ⟨some 1, none, none, none, some 1⟩).state = ⟨7, 7, 0, 1⟩ := by
  decide

example : @TaikoFits Nat ⟨8, some 6, .worst⟩ ⟨none, some 2, some 3, none, some 1⟩ := by
  unfold TaikoFits taikoJ passedU32
  decide

/-! ## osu!standard -/

/-- number of judgements of a (partial) osu! play -/
def osuJ (c : OsuCfg) : Nat := min (passedU32 c.passed) c.nObjects

/-- No checked `u32` subtraction of `OsuPerformance::generate_state` fails (any shape, any
provided values — the hit results are clamped before they are added). -/
theorem osu_gen_total (c : OsuCfg) (b : OsuB R) : (osuGenRaw c b).ok = true := by
  rw [osuGenRaw_eq]
  have hm := optMin_le b.misses (min (passedU32 c.passed) c.nObjects)
  have hs := osuHitResults_spec c.prio b (osuSliderParts c b).1 (osuSliderParts c b).2.1
    (osuSliderParts c b).2.2.1 (osuSliderParts c b).2.2.2 _ _ hm
  simp [hs.ok, hm]

theorem osu_gen_never_panics (c : OsuCfg) (b : OsuB R) : osuGen c b ≠ .panic := by
  unfold osuGen
  simp [osu_gen_total]

/-- The products and sums formed in `u32` stay below `2^32` for every shape with at most `2^22`
objects, sliders and large ticks (`300 * n_objects + max_slider_acc_value` is the largest). -/
theorem osu_u32_headroom (c : OsuCfg) (b : OsuB R) (ho : c.nObjects ≤ 2 ^ 22) (hs : c.nSliders ≤ 2 ^ 22)
    (ht : c.nLargeTicks ≤ 2 ^ 22) :
    let sp := osuSliderParts c b
    300 * osuJ c + (osuSliderAccValues sp.1 sp.2.1 sp.2.2.1 sp.2.2.2).2 ≤ u32Max ∧
    (osuSliderAccValues sp.1 sp.2.1 sp.2.2.1 sp.2.2.2).1 ≤ (osuSliderAccValues sp.1 sp.2.1 sp.2.2.1 sp.2.2.2).2 := by
  have hj : osuJ c ≤ c.nObjects := by unfold osuJ; omega
  have h1 := optMinOr_le b.sliderEndHits c.nSliders
  have h2 := optMinOr_le b.largeTickHits c.nLargeTicks
  have h3 := optMinOr_le b.smallTickHits c.nSliders
  have h4 := optMinOr_le b.largeTickHits (c.nSliders + c.nLargeTicks)
  unfold osuSliderParts u32Max
  rcases c.lazer <;> rcases c.noSliderHeadAcc <;> simp [osuSliderAccValues] <;> omega

/-- Never more misses than judged objects. -/
theorem osu_misses_le (c : OsuCfg) (b : OsuB R) : (osuGenRaw c b).state.misses ≤ osuJ c := by
  rw [osuGenRaw_eq]
  exact optMin_le _ _

/-- The hit results add up to the number of judgements whenever the provided ones do not exceed it. -/
theorem osu_sum_eq_judgements (c : OsuCfg) (b : OsuB R)
    (hacc : (osuGenRaw c b).accepted = true)
    (hfit : b.n300.getD 0 + b.n100.getD 0 + b.n50.getD 0 + b.misses.getD 0 ≤ osuJ c) :
    let s := (osuGenRaw c b).state
    s.n300 + s.n100 + s.n50 + s.misses = osuJ c := by
  rw [osuGenRaw_eq] at *
  have hm := optMin_le b.misses (min (passedU32 c.passed) c.nObjects)
  have hs := osuHitResults_spec c.prio b (osuSliderParts c b).1 (osuSliderParts c b).2.1
    (osuSliderParts c b).2.2.1 (osuSliderParts c b).2.2.2 _ _ hm
  simp only at hacc ⊢
  apply hs.sum_eq hacc
  unfold osuJ at hfit
  have : optMin b.misses (min (passedU32 c.passed) c.nObjects) ≤ b.misses.getD 0 := by
    cases b.misses <;> simp
    omega
  omega

/-- "The provided results jointly fit": they can be extended to a consistent state; if all three
hit results are provided nothing is left to extend, so they must fill the judgements exactly. -/
def OsuFits (c : OsuCfg) (b : OsuB R) : Prop :=
  b.n300.getD 0 + b.n100.getD 0 + b.n50.getD 0 + b.misses.getD 0 ≤ osuJ c ∧
  (b.n300.isSome → b.n100.isSome → b.n50.isSome →
    b.n300.getD 0 + b.n100.getD 0 + b.n50.getD 0 + b.misses.getD 0 = osuJ c)

/-- Provided hit results and misses that jointly fit are kept unchanged (otherwise each one is
clamped to `judgements - misses` individually, see `osuHitResults`). -/
theorem osu_provided_kept (c : OsuCfg) (b : OsuB R) (hacc : (osuGenRaw c b).accepted = true)
    (hfit : OsuFits c b) :
    let s := (osuGenRaw c b).state
    (∀ n, b.n300 = some n → s.n300 = n) ∧ (∀ n, b.n100 = some n → s.n100 = n) ∧
    (∀ n, b.n50 = some n → s.n50 = n) ∧ (∀ n, b.misses = some n → s.misses = n) := by
  obtain ⟨hle, hall⟩ := hfit
  rw [osuGenRaw_eq] at *
  have hm := optMin_le b.misses (min (passedU32 c.passed) c.nObjects)
  have hs := osuHitResults_spec c.prio b (osuSliderParts c b).1 (osuSliderParts c b).2.1
    (osuSliderParts c b).2.2.1 (osuSliderParts c b).2.2.2 _ _ hm
  unfold osuJ at hle hall
  have hmis : optMin b.misses (min (passedU32 c.passed) c.nObjects) = b.misses.getD 0 := by
    cases hb : b.misses <;> simp [hb] at hle ⊢
    omega
  simp only at hacc ⊢
  refine ⟨?_, ?_, ?_, ?_⟩
  · intro n hn
    apply hs.keep300 hacc n hn
    · simp [hn] at hle; omega
    · rcases h1 : b.n100 with _ | y
      · left; rfl
      · rcases h5 : b.n50 with _ | z
        · right; left; rfl
        · right; right; simp [hn, h1, h5] at hall hle ⊢; omega
  · intro n hn
    apply hs.keep100 hacc n hn
    · simp [hn] at hle; omega
    · rcases h3 : b.n300 with _ | y
      · left; rfl
      · rcases h5 : b.n50 with _ | z
        · right; left; rfl
        · right; right; simp [hn, h3, h5] at hall hle ⊢; omega
  · intro n hn
    apply hs.keep50 hacc n hn
    · simp [hn] at hle; omega
    · rcases h3 : b.n300 with _ | y
      · left; rfl
      · rcases h1 : b.n100 with _ | z
        · right; left; rfl
        · right; right; simp [hn, h3, h1] at hall hle ⊢; omega
  · intro n hn
    simp [hn] at hmis ⊢
    omega

/-- Slider-related results: irrelevant ones (for the score's origin) are `0`, relevant ones are
the provided value clamped to its maximum, or the maximum when absent. -/
theorem osu_slider_parts (c : OsuCfg) (b : OsuB R) :
    let s := (osuGenRaw c b).state
    (c.lazer = false → s.sliderEndHits = 0 ∧ s.largeTickHits = 0 ∧ s.smallTickHits = 0) ∧
    (c.lazer = true → c.noSliderHeadAcc = false →
      s.sliderEndHits = optMinOr b.sliderEndHits c.nSliders ∧
      s.largeTickHits = optMinOr b.largeTickHits c.nLargeTicks ∧ s.smallTickHits = 0) ∧
    (c.lazer = true → c.noSliderHeadAcc = true →
      s.sliderEndHits = 0 ∧ s.largeTickHits = optMinOr b.largeTickHits (c.nSliders + c.nLargeTicks) ∧
      s.smallTickHits = optMinOr b.smallTickHits c.nSliders) := by
  rw [osuGenRaw_eq]
  unfold osuSliderParts
  rcases c.lazer <;> rcases c.noSliderHeadAcc <;> simp

/-- The combo never exceeds the achievable one. -/
theorem osu_combo_le (c : OsuCfg) (b : OsuB R) :
    let s := (osuGenRaw c b).state
    s.maxCombo ≤ c.maxCombo - s.misses := by
  rw [osuGenRaw_eq]
  exact optMinOr_le _ _

theorem osu_combo_kept (c : OsuCfg) (b : OsuB R) (n : Nat) (h : b.combo = some n)
    (hn : n ≤ c.maxCombo - (osuGenRaw c b).state.misses) : (osuGenRaw c b).state.maxCombo = n := by
  rw [osuGenRaw_eq] at *
  simp only [h, optMinOr_some] at hn ⊢
  omega

/-- Second call: the state generated from the updated builder is the same state. -/
theorem osu_gen_idempotent (c : OsuCfg) (b : OsuB R) (hacc : (osuGenRaw c b).accepted = true) :
    osuGenRaw c (b.update (osuGenRaw c b).state) =
      { state := (osuGenRaw c b).state, accepted := true, ok := true } := by
  have hm := optMin_le b.misses (min (passedU32 c.passed) c.nObjects)
  have hs := osuHitResults_spec c.prio b (osuSliderParts c b).1 (osuSliderParts c b).2.1
    (osuSliderParts c b).2.2.1 (osuSliderParts c b).2.2.2 _ _ hm
  have hc := optMinOr_le b.combo (c.maxCombo - optMin b.misses (min (passedU32 c.passed) c.nObjects))
  rw [osuGenRaw_eq c b] at hacc
  have hsp : osuSliderParts c (b.update (osuGenRaw c b).state) = osuSliderParts c b :=
    osuSliderParts_update c b _ rfl rfl rfl
  rw [osuGenRaw_all_given c (b.update (osuGenRaw c b).state) _ _ _ _ _ rfl rfl rfl rfl rfl hm
    hs.le300 hs.le100 hs.le50 (hs.sum_ge hacc) hc, hsp]
  rfl

/-- `generate_state` twice gives the same state (and leaves the builder as the first call did). -/
theorem osu_gen_twice (c : OsuCfg) (b : OsuB R) (s : OsuState) (b' : OsuB R)
    (h : osuGen c b = .ok (s, b')) (hacc : (osuGenRaw c b).accepted = true) :
    osuGen c b' = .ok (s, b') := by
  unfold osuGen at h
  simp only [osu_gen_total, if_true, Res.ok.injEq, Prod.mk.injEq] at h
  obtain ⟨hs, hb⟩ := h
  subst hs; subst hb
  unfold osuGen
  rw [osu_gen_idempotent c b hacc]
  simp [OsuB.update]

/-- `calculate()` returns exactly the result of supplying the generated state explicitly. -/
theorem osu_calculate_eq_explicit_state {Out : Type} (perfCalc : OsuCfg → OsuState → Out)
    (c : OsuCfg) (b : OsuB R) (hacc : (osuGenRaw c b).accepted = true) :
    osuCalculate perfCalc c b = osuCalculate perfCalc c (b.update (osuGenRaw c b).state) := by
  unfold osuCalculate osuGen
  rw [osu_gen_idempotent c b hacc]
  simp [osu_gen_total, Res.map]

/-- The unconditional version of idempotence (no `accepted` hypothesis). -/
def OsuIdempotentUnconditional : Prop :=
  ∀ (c : OsuCfg) (b : OsuB Unit),
    (@osuGenRaw Unit rejectAll c (b.update (@osuGenRaw Unit rejectAll c b).state)).state =
      (@osuGenRaw Unit rejectAll c b).state

/-- It is false for the same reason as in taiko (only when nothing is accepted, i.e. NaN accuracy). -/
theorem osu_idempotence_needs_accepted : ¬ OsuIdempotentUnconditional := by
  intro h
  have := h ⟨3, 3, 0, 0, none, false, true, .best⟩ ⟨some (), none, none, none, none, none, none, none, none⟩
  revert this
  decide

/-- non-vacuity: an accepting nested search exists, and fitting provided values exist -/
example : (@osuGenRaw Nat natOps ⟨9, 6, 2, 1, none, true, false, .best⟩
    ⟨some 1, none, none, none, none, none, none, none, some 1⟩).accepted = true := by
  decide

example : @OsuFits Nat ⟨9, 6, 2, 1, some 5, true, false, .best⟩
    ⟨none, none, none, none, none, some 2, none, some 1, some 1⟩ := by
  unfold OsuFits osuJ passedU32
  decide

/-! ## osu!catch

`CatchPerformance::generate_state` never reads `passed_objects`; the judgements are the fruits and
droplets of the attributes, and separately the tiny droplets.  It is the only generator that adds
**unclamped** provided values (`n_fruits + n_droplets + misses`, `n_tiny_droplets +
n_tiny_droplet_misses`); since 9eb418a these sums are `saturating_add`s (`satAdd`), so totality
holds for every provided `u32` value.  What is still needed is that the *attribute* sums exist in
`u32` (`attrs.n_fruits + attrs.n_droplets` is a plain `u32` addition): stated as counts ≤ `2^24`. -/

/-- attribute counts up to `2^24` -/
def CatchCounts (c : CatchCfg) : Prop :=
  c.nFruits ≤ 2 ^ 24 ∧ c.nDroplets ≤ 2 ^ 24 ∧ c.nTiny ≤ 2 ^ 24

/-- `CatchCounts`, and the provided hit results are `u32` values (no further bound) -/
def CatchBound (c : CatchCfg) (b : CatchB R) : Prop :=
  CatchCounts c ∧
  (∀ n, b.fruits = some n → n ≤ u32Max) ∧ (∀ n, b.droplets = some n → n ≤ u32Max) ∧
  (∀ n, b.tiny = some n → n ≤ u32Max) ∧ (∀ n, b.tinyMisses = some n → n ≤ u32Max)

theorem CatchCounts.fd {c : CatchCfg} (h : CatchCounts c) : c.nFruits + c.nDroplets ≤ u32Max := by
  obtain ⟨h1, h2, _⟩ := h
  unfold u32Max
  omega

theorem CatchCounts.tiny {c : CatchCfg} (h : CatchCounts c) : c.nTiny < u32Max := by
  obtain ⟨_, _, h3⟩ := h
  unfold u32Max
  omega

/-- No checked `u32` operation fails, for **every** provided `u32` value (this was false before
9eb418a: `n_fruits + n_droplets + misses` overflowed, see `catch_former_overflow_input`). -/
theorem catch_gen_total (c : CatchCfg) (b : CatchB R) (hb : CatchBound c b) : (catchGenRaw c b).ok = true := by
  obtain ⟨hc, hf, hd, ht, htm⟩ := hb
  rw [catchGenRaw_eq]
  have hm := optMin_le b.misses (c.nFruits + c.nDroplets)
  have h1 := (catchFruitsDroplets_spec c.nFruits c.nDroplets _ b.fruits b.droplets hm hc.fd).ok hf hd
  have h2 := (catchTiny_spec b c.nFruits c.nDroplets c.nTiny
    (catchFruitsDroplets c.nFruits c.nDroplets (optMin b.misses (c.nFruits + c.nDroplets)) b.fruits b.droplets).1
    (catchFruitsDroplets c.nFruits c.nDroplets (optMin b.misses (c.nFruits + c.nDroplets)) b.fruits b.droplets).2.1
    (optMin b.misses (c.nFruits + c.nDroplets)) hc.tiny).ok ht
  simp [h1, h2, hm]

theorem catch_gen_never_panics (c : CatchCfg) (b : CatchB R) (hb : CatchBound c b) : catchGen c b ≠ .panic := by
  unfold catchGen
  simp [catch_gen_total c b hb]

/-- The input on which the pre-9eb418a code overflowed (`fruits(1200).droplets(u32::MAX).misses(833)`
on 599 fruits / 1802 droplets; release builds returned `droplets = 4294967295`) now yields a
consistent state without any failing operation.  Replayed by the harness as a regression case. -/
theorem catch_former_overflow_input :
    @catchGenRaw Unit rejectAll ⟨599, 1802, 0⟩
      { acc := none, combo := none, fruits := some 1200, droplets := some 4294967295,
        tiny := none, tinyMisses := none, misses := some 833 } =
      { state := { maxCombo := 1568, fruits := 0, droplets := 1568, tiny := 0, tinyMisses := 0, misses := 833 },
        accepted := true, ok := true } := by
  decide

/-- Never more misses than fruits and droplets. -/
theorem catch_misses_le (c : CatchCfg) (b : CatchB R) :
    (catchGenRaw c b).state.misses ≤ c.nFruits + c.nDroplets := by
  rw [catchGenRaw_eq]
  exact optMin_le _ _

/-- Fruits, droplets and misses always account for exactly the fruits and droplets of the map
(whatever is provided); tiny droplets and tiny droplet misses account for the tiny droplets
whenever the provided ones do not exceed them. -/
theorem catch_sum_eq_judgements (c : CatchCfg) (b : CatchB R) (hc : CatchCounts c) :
    let s := (catchGenRaw c b).state
    s.fruits + s.droplets + s.misses = c.nFruits + c.nDroplets ∧
    ((catchGenRaw c b).accepted = true → b.tiny.getD 0 + b.tinyMisses.getD 0 ≤ c.nTiny →
      s.tiny + s.tinyMisses = c.nTiny) := by
  rw [catchGenRaw_eq]
  have hm := optMin_le b.misses (c.nFruits + c.nDroplets)
  refine ⟨(catchFruitsDroplets_spec c.nFruits c.nDroplets _ b.fruits b.droplets hm hc.fd).sum, ?_⟩
  intro hacc hfit
  exact (catchTiny_spec b _ _ _ _ _ _ hc.tiny).sum_eq hacc hfit

/-- Provided values that jointly fit are kept: both fruits and droplets given ⇒ they must fill the
judgements together with the misses; only one given ⇒ `F − m ≤ f ≤ F` and `f + m ≤ F + D` (resp.
for droplets); tiny droplets likewise. -/
theorem catch_provided_kept (c : CatchCfg) (b : CatchB R) (hc : CatchCounts c) (m : Nat)
    (hm : b.misses.getD 0 = m) (hmle : m ≤ c.nFruits + c.nDroplets) :
    let s := (catchGenRaw c b).state
    s.misses = m ∧
    (∀ f d, b.fruits = some f → b.droplets = some d → f + d + m = c.nFruits + c.nDroplets →
      s.fruits = f ∧ s.droplets = d) ∧
    (∀ f, b.fruits = some f → b.droplets = none → f ≤ c.nFruits → c.nFruits ≤ f + m →
      f + m ≤ c.nFruits + c.nDroplets → s.fruits = f) ∧
    (∀ d, b.fruits = none → b.droplets = some d → d ≤ c.nDroplets → c.nDroplets ≤ d + m →
      d + m ≤ c.nFruits + c.nDroplets → s.droplets = d) ∧
    (∀ t tm, b.tiny = some t → b.tinyMisses = some tm → t + tm = c.nTiny → s.tiny = t ∧ s.tinyMisses = tm) ∧
    (∀ t, b.tiny = some t → b.tinyMisses = none → t ≤ c.nTiny → s.tiny = t) ∧
    (∀ tm, b.tiny = none → b.tinyMisses = some tm → tm ≤ c.nTiny → s.tinyMisses = tm) := by
  rw [catchGenRaw_eq]
  have hmis : optMin b.misses (c.nFruits + c.nDroplets) = m := by
    cases hb : b.misses <;> simp [hb] at hm ⊢ <;> omega
  have hm' := optMin_le b.misses (c.nFruits + c.nDroplets)
  have hfd := catchFruitsDroplets_spec c.nFruits c.nDroplets _ b.fruits b.droplets hm' hc.fd
  have htn := catchTiny_spec b c.nFruits c.nDroplets c.nTiny
    (catchFruitsDroplets c.nFruits c.nDroplets (optMin b.misses (c.nFruits + c.nDroplets)) b.fruits b.droplets).1
    (catchFruitsDroplets c.nFruits c.nDroplets (optMin b.misses (c.nFruits + c.nDroplets)) b.fruits b.droplets).2.1
    (optMin b.misses (c.nFruits + c.nDroplets)) hc.tiny
  rw [hmis] at hfd htn ⊢
  exact ⟨rfl, hfd.keepBoth, hfd.keepF, hfd.keepD, htn.keepBoth, htn.keepT, htn.keepTM⟩

/-- The combo never exceeds the achievable one (the clamp added by the earlier fix). -/
theorem catch_combo_le (c : CatchCfg) (b : CatchB R) :
    let s := (catchGenRaw c b).state
    s.maxCombo ≤ c.nFruits + c.nDroplets - s.misses := by
  rw [catchGenRaw_eq]
  exact optMinOr_le _ _

theorem catch_combo_kept (c : CatchCfg) (b : CatchB R) (n : Nat) (h : b.combo = some n)
    (hn : n ≤ c.nFruits + c.nDroplets - (catchGenRaw c b).state.misses) :
    (catchGenRaw c b).state.maxCombo = n := by
  rw [catchGenRaw_eq] at *
  simp only [h, optMinOr_some] at hn ⊢
  omega

/-- Second call: same state, no failing operation — **unconditionally** (a search that accepted
nothing repeats itself on the second call because fruits/droplets/misses are unchanged). -/
theorem catch_gen_idempotent (c : CatchCfg) (b : CatchB R) (hb : CatchBound c b) :
    (catchGenRaw c (b.update (catchGenRaw c b).state)).state = (catchGenRaw c b).state ∧
    (catchGenRaw c (b.update (catchGenRaw c b).state)).ok = true := by
  obtain ⟨hc, hf, hd, ht, htm⟩ := hb
  have hu := u32Max_eq
  have hm := optMin_le b.misses (c.nFruits + c.nDroplets)
  have hfd := catchFruitsDroplets_spec c.nFruits c.nDroplets _ b.fruits b.droplets hm hc.fd
  have htn := catchTiny_spec b c.nFruits c.nDroplets c.nTiny
    (catchFruitsDroplets c.nFruits c.nDroplets (optMin b.misses (c.nFruits + c.nDroplets)) b.fruits b.droplets).1
    (catchFruitsDroplets c.nFruits c.nDroplets (optMin b.misses (c.nFruits + c.nDroplets)) b.fruits b.droplets).2.1
    (optMin b.misses (c.nFruits + c.nDroplets)) hc.tiny
  have hc' := optMinOr_le b.combo (c.nFruits + c.nDroplets - optMin b.misses (c.nFruits + c.nDroplets))
  have hbound := htn.bound ht htm
  have hfdb := hc.fd
  have htb := hc.tiny
  rw [catchGenRaw_eq c b]
  simp only
  generalize hfdv : catchFruitsDroplets c.nFruits c.nDroplets (optMin b.misses (c.nFruits + c.nDroplets))
    b.fruits b.droplets = fd at *
  generalize hmv : optMin b.misses (c.nFruits + c.nDroplets) = m at *
  generalize htnv : catchTiny b c.nFruits c.nDroplets c.nTiny fd.1 fd.2.1 m = tn at *
  generalize hkv : optMinOr b.combo (c.nFruits + c.nDroplets - m) = k at *
  rw [catchGenRaw_eq]
  simp only [CatchB.update, optMin_some, optMinOr_some]
  have e1 : min m (c.nFruits + c.nDroplets) = m := by omega
  have e2 : min k (c.nFruits + c.nDroplets - m) = k := by omega
  have hsum := hfd.sum
  simp only [e1, e2]
  rw [catchFruitsDroplets_given c.nFruits c.nDroplets m fd.1 fd.2.1 hsum hfdb]
  simp only
  have hsec := catchTiny_second b
    { acc := b.acc, combo := some k, fruits := some fd.1, droplets := some fd.2.1, tiny := some tn.1,
      tinyMisses := some tn.2.1, misses := some m } c.nFruits c.nDroplets c.nTiny fd.1 fd.2.1 m rfl
    (by rw [htnv]) (by rw [htnv]) htb
  rw [htnv] at hsec
  have hok2 := (catchTiny_spec (R := R)
    { acc := b.acc, combo := some k, fruits := some fd.1, droplets := some fd.2.1, tiny := some tn.1,
      tinyMisses := some tn.2.1, misses := some m } c.nFruits c.nDroplets c.nTiny fd.1 fd.2.1 m htb).ok
    (by intro t h; simp at h; omega)
  refine ⟨?_, ?_⟩
  · simp only [hsec.1, hsec.2]
  · simp [hok2, hm]

/-- `generate_state` twice gives the same state (and leaves the builder as the first call did). -/
theorem catch_gen_twice (c : CatchCfg) (b : CatchB R) (hb : CatchBound c b) (s : CatchState) (b' : CatchB R)
    (h : catchGen c b = .ok (s, b')) : catchGen c b' = .ok (s, b') := by
  unfold catchGen at h
  simp only [catch_gen_total c b hb, if_true, Res.ok.injEq, Prod.mk.injEq] at h
  obtain ⟨hs, hb'⟩ := h
  subst hs; subst hb'
  obtain ⟨h1, h2⟩ := catch_gen_idempotent c b hb
  unfold catchGen
  simp only [h2, if_true, h1]
  simp [CatchB.update]

/-- `calculate()` returns exactly the result of supplying the generated state explicitly. -/
theorem catch_calculate_eq_explicit_state {Out : Type} (perfCalc : CatchCfg → CatchState → Out)
    (c : CatchCfg) (b : CatchB R) (hb : CatchBound c b) :
    catchCalculate perfCalc c b = catchCalculate perfCalc c (b.update (catchGenRaw c b).state) := by
  obtain ⟨h1, h2⟩ := catch_gen_idempotent c b hb
  unfold catchCalculate catchGen
  simp [catch_gen_total c b hb, h2, h1, Res.map]

/-- non-vacuity of the bound and of the "fits" hypotheses -/
example : @CatchBound Nat ⟨5, 3, 4⟩ ⟨some 1, none, some 4294967295, none, some 2, some 2, some 1⟩ := by
  unfold CatchBound CatchCounts u32Max
  refine ⟨⟨by decide, by decide, by decide⟩, ?_, ?_, ?_, ?_⟩ <;> intro n h <;> simp at h <;> omega

example : (@catchGenRaw Nat natOps ⟨5, 3, 4⟩ ⟨some 1, none, none, none, none, none, some 1⟩).accepted = true := by
  decide

/-! ## osu!mania

Judgements: `maniaJ c` = `min(passed, n_objects)`, plus `n_hold_notes` for non-classic lazer scores
(`maniaJ0`/`maniaJ` are defined next to the lemmas).  Every clause is proved for **every** arm,
including the nested accuracy search (`ManiaSearchArm b`: accuracy given and at least two hit
results unknown; mania/performance/mod.rs `generate_state`, arm `_`), for every `NumOps` instance:
the proofs use nothing about the float arithmetic except that the loop bounds are clamped to the
objects still free (`cmp::min(…, remaining)`), that provided results are pinned
(`min_remaining(n)`), and that the last open result is computed as the remainder / receives the
`total_hits < n_objects` fill (`Lemmas/GenStateManiaSearch*.lean`).

Unlike osu!/taiko, "a candidate was accepted" is needed for **one** thing only: a provided `n50`
in the search arm.  The initial `best` sets `n50 = n_remaining − (n320 + n300 + n200 + n100)` even
when `n50` is provided, so if every `curr_dist < best_dist` is false (NaN accuracy) the provided
`n50` is overwritten (`mania_n50_kept_needs_accepted`).  The sum clause and idempotence hold
whether or not a candidate was accepted, because the initial `best` is itself consistent. -/

/-- No checked `u32` subtraction of `ManiaPerformance::generate_state` fails — all arms, including
the nested search and the priority shifts. -/
theorem mania_gen_total (c : ManiaCfg) (b : ManiaB R) : (maniaGenRaw c b).ok = true :=
  maniaGenRaw_ok c b

theorem mania_gen_never_panics (c : ManiaCfg) (b : ManiaB R) : maniaGen c b ≠ .panic := by
  unfold maniaGen
  simp [mania_gen_total]

/-- `61 * n_objects` (the largest `u32` product) stays below `2^32` for shapes up to `2^24`. -/
theorem mania_u32_headroom (c : ManiaCfg) (ho : c.nObjects ≤ 2 ^ 24) (hh : c.nHoldNotes ≤ 2 ^ 24) :
    61 * maniaJ c ≤ u32Max := by
  unfold maniaJ maniaJ0 u32Max
  split <;> omega

/-- Never more misses than judged objects — all arms. -/
theorem mania_misses_le (c : ManiaCfg) (b : ManiaB R) : (maniaGenRaw c b).state.misses ≤ maniaJ0 c := by
  rw [maniaGenRaw_misses]
  exact optMin_le _ _

/-- Hit results plus misses are never fewer than the judgements — all arms, accepted or not. -/
theorem mania_total_ge_judgements (c : ManiaCfg) (b : ManiaB R) :
    maniaJ c ≤ (maniaGenRaw c b).state.totalHits := maniaGenRaw_total_ge c b

/-- Every generated hit result is at most `judgements − misses` — all arms, accepted or not. -/
theorem mania_results_le (c : ManiaCfg) (b : ManiaB R) :
    let s := (maniaGenRaw c b).state
    s.n320 ≤ maniaJ c - s.misses ∧ s.n300 ≤ maniaJ c - s.misses ∧ s.n200 ≤ maniaJ c - s.misses ∧
    s.n100 ≤ maniaJ c - s.misses ∧ s.n50 ≤ maniaJ c - s.misses := by
  have hs := maniaGenRaw_spec c b
  rw [← maniaGenRaw_misses c b] at hs
  exact ⟨hs.le320, hs.le300, hs.le200, hs.le100, hs.le50⟩

/-- The hit results add up to the number of judgements whenever the provided ones do not exceed it
— **all arms**, including the nested accuracy search, whether or not a candidate was accepted. -/
theorem mania_sum_eq_judgements (c : ManiaCfg) (b : ManiaB R)
    (hfit : maniaProvided b + b.misses.getD 0 ≤ maniaJ c) :
    (maniaGenRaw c b).state.totalHits = maniaJ c := by
  apply (maniaGenRaw_spec c b).sum_eq
  have := optMin_le_getD b.misses (maniaJ0 c)
  omega

/-- "The provided results jointly fit." -/
def ManiaFits (c : ManiaCfg) (b : ManiaB R) : Prop :=
  b.misses.getD 0 ≤ maniaJ0 c ∧ maniaProvided b + b.misses.getD 0 ≤ maniaJ c ∧
  (noneCount b = 0 → maniaProvided b + b.misses.getD 0 = maniaJ c)

/-- Provided results that jointly fit are kept unchanged — **all arms**.  `n320`, `n300`, `n200`,
`n100` and the misses: unconditionally; `n50`: when a candidate was accepted (always the case
outside the nested search, `mania_accepted_outside_search`). -/
theorem mania_provided_kept (c : ManiaCfg) (b : ManiaB R) (hfit : ManiaFits c b) :
    let s := (maniaGenRaw c b).state
    (∀ n, b.n320 = some n → s.n320 = n) ∧ (∀ n, b.n300 = some n → s.n300 = n) ∧
    (∀ n, b.n200 = some n → s.n200 = n) ∧ (∀ n, b.n100 = some n → s.n100 = n) ∧
    ((maniaGenRaw c b).accepted = true → ∀ n, b.n50 = some n → s.n50 = n) ∧
    (∀ n, b.misses = some n → s.misses = n) := by
  obtain ⟨hm, hle, hall⟩ := hfit
  have hs := maniaGenRaw_spec c b
  have hmis := optMin_eq_getD b.misses (maniaJ0 c) hm
  rw [hmis] at hs
  refine ⟨fun n h => hs.keep320 n h hle hall, fun n h => hs.keep300 n h hle hall,
    fun n h => hs.keep200 n h hle hall, fun n h => hs.keep100 n h hle hall,
    fun ha n h => hs.keep50 n h ha hle hall, ?_⟩
  intro n h
  rw [maniaGenRaw_misses, hmis, h]
  rfl

/-- What the nested-search arm does with provided results that do **not** jointly fit: each one is
clamped to `judgements − misses` individually and otherwise left alone (`n50`: once a candidate
was accepted). -/
theorem mania_search_provided_clamped (c : ManiaCfg) (b : ManiaB R) (hs : ManiaSearchArm b) :
    let s := (maniaGenRaw c b).state
    (∀ n, b.n320 = some n → s.n320 = min n (maniaJ c - s.misses)) ∧
    (∀ n, b.n300 = some n → s.n300 = min n (maniaJ c - s.misses)) ∧
    (∀ n, b.n200 = some n → s.n200 = min n (maniaJ c - s.misses)) ∧
    (∀ n, b.n100 = some n → s.n100 = min n (maniaJ c - s.misses)) ∧
    ((maniaGenRaw c b).accepted = true → ∀ n, b.n50 = some n → s.n50 = min n (maniaJ c - s.misses)) := by
  simp only [maniaGenRaw_misses]
  exact maniaGenRaw_search_clamped c b hs

/-- Outside the nested search the `accepted` bit is `true` (no search runs). -/
theorem mania_accepted_outside_search (c : ManiaCfg) (b : ManiaB R) (hns : ¬ ManiaSearchArm b) :
    (maniaGenRaw c b).accepted = true := maniaGenRaw_accepted_of_not_search c b hns

/-- The version of "a provided `n50` that fits is kept" without the `accepted` hypothesis. -/
def ManiaN50KeptUnconditional : Prop :=
  ∀ (c : ManiaCfg) (b : ManiaB Unit), ManiaFits c b →
    ∀ n, b.n50 = some n → (@maniaGenRaw Unit rejectAll c b).state.n50 = n

/-- It is false: when no candidate is accepted (NaN accuracy) the initial `best`, whose `n50` is
the remainder `n_remaining − (n320 + n300 + n200 + n100)`, is returned: 3 objects, `n50 = 1`
provided, accuracy NaN ⇒ `n50 = 3`.  Replayed on the implementation with `accuracy(NaN)` by the
harness (recorded as an observation: NaN is outside the documented `[0, 100]` domain). -/
theorem mania_n50_kept_needs_accepted : ¬ ManiaN50KeptUnconditional := by
  intro h
  have := h ⟨3, 0, none, true, .best⟩ ⟨some (), none, none, none, none, some 1, none⟩
    (by unfold ManiaFits maniaJ0 maniaJ maniaProvided noneCount passedU32; decide) 1 rfl
  revert this
  decide

/-- Second call: the state generated from the updated builder is the same state — **all arms,
unconditionally** (the second call takes the fully-provided arm; its clamps are no-ops because
every result is at most `judgements − misses` and the total is at least the judgements). -/
theorem mania_gen_idempotent (c : ManiaCfg) (b : ManiaB R) :
    maniaGenRaw c (b.update (maniaGenRaw c b).state) =
      { state := (maniaGenRaw c b).state, accepted := true, ok := true } := by
  have hs := maniaGenRaw_spec c b
  have hmis := maniaGenRaw_misses c b
  rw [← hmis] at hs
  apply maniaGenRaw_all_given c _ _ rfl rfl rfl rfl rfl rfl
  · rw [hmis]; exact optMin_le _ _
  · exact hs.le320
  · exact hs.le300
  · exact hs.le200
  · exact hs.le100
  · exact hs.le50
  · exact maniaGenRaw_total_ge c b

/-- `generate_state` twice gives the same state (and leaves the builder as the first call did). -/
theorem mania_gen_twice (c : ManiaCfg) (b : ManiaB R) (s : ManiaState)
    (b' : ManiaB R) (h : maniaGen c b = .ok (s, b')) : maniaGen c b' = .ok (s, b') := by
  unfold maniaGen at h
  simp only [mania_gen_total, if_true, Res.ok.injEq, Prod.mk.injEq] at h
  obtain ⟨hs, hb⟩ := h
  subst hs; subst hb
  unfold maniaGen
  rw [mania_gen_idempotent c b]
  simp [ManiaB.update]

/-- `calculate()` returns exactly the result of supplying the generated state explicitly
(`.state(s)` is `ManiaB.update`), for any calculator `perfCalc` of attributes/mods and state —
all arms, unconditionally. -/
theorem mania_calculate_eq_explicit_state {Out : Type} (perfCalc : ManiaCfg → ManiaState → Out)
    (c : ManiaCfg) (b : ManiaB R) :
    maniaCalculate perfCalc c b = maniaCalculate perfCalc c (b.update (maniaGenRaw c b).state) := by
  unfold maniaCalculate maniaGen
  rw [mania_gen_idempotent c b]
  simp [mania_gen_total, Res.map]

/-- non-vacuity: both kinds of arm are inhabited with fitting values; an accepting nested search
with a provided `n200` and `n50` exists (instance `natOps`) and keeps them -/
example : ¬ @ManiaSearchArm Nat ⟨some 1, some 1, some 2, some 0, some 0, none, some 1⟩ := by
  unfold ManiaSearchArm noneCount
  decide

example : @ManiaFits Nat ⟨6, 2, none, false, .best⟩ ⟨some 1, some 1, some 2, some 0, some 0, none, some 1⟩ := by
  unfold ManiaFits maniaJ0 maniaJ maniaProvided noneCount passedU32
  decide

example : @ManiaSearchArm Nat ⟨some 1, none, none, some 2, none, some 1, some 1⟩ ∧
    @ManiaFits Nat ⟨6, 2, none, false, .worst⟩ ⟨some 1, none, none, some 2, none, some 1, some 1⟩ := by
  unfold ManiaSearchArm ManiaFits maniaJ0 maniaJ maniaProvided noneCount passedU32
  decide

example : (@maniaGenRaw Nat natOps ⟨6, 2, none, false, .worst⟩ ⟨some 1, none, none, some 2, none, some 1, some 1⟩).accepted = true ∧
    (@maniaGenRaw Nat natOps ⟨6, 2, none, false, .worst⟩ ⟨some 1, none, none, some 2, none, some 1, some 1⟩).state.n200 = 2 ∧
    (@maniaGenRaw Nat natOps ⟨6, 2, none, false, .worst⟩ ⟨some 1, none, none, some 2, none, some 1, some 1⟩).state.n50 = 1 ∧
    (@maniaGenRaw Nat natOps ⟨6, 2, none, false, .worst⟩ ⟨some 1, none, none, some 2, none, some 1, some 1⟩).state.totalHits = 8 := by
  decide

end Rosu.GenState
