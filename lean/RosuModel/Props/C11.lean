import RosuModel.Lemmas.StrainsVecOps

/-!
# C11 (a) — the compact strain list never performs an invalid access and behaves like a plain
list of non-negative floats

All statements are about the bit-level model `Model/StrainsVec.lean` of the compact
`StrainsVec` (union `StrainsEntry {value: f64, zero_count: u64}`), for **every** sequence of
pushes of arbitrary 64-bit patterns (positive, zero, negative, subnormal, NaN, ±∞) and every
operation sequence respecting the methods' documented preconditions.

Parts (b) self-referential gradual structs and (c) the decoder's pointer scratch buffer are
not covered by theorems (see tools/props/C11.json `partial`).
-/

namespace Rosu.SV

/-- **Invariant.** Every push sequence (patterns `< 2^64`, fewer than `2^63 - 1` elements) leaves
the vector well-formed: every entry is a value (sign clear, non-zero) or a run with
`1 ≤ count < 2^63`, no two runs are adjacent, and `len` is the represented length.  In
particular `incr_zero_count` (`u64 += 1`) never overflows and never spills into the sign bit. -/
theorem push_sequence_wf (bs : List Nat) (hb : ∀ b ∈ bs, b < TWO64) (hl : bs.length < SIGN) :
    WF (SVec.empty.pushAll bs) :=
  (pushAll_spec bs SVec.empty empty_WF hb (by simpa [SVec.empty] using hl)).1

/-- **Refinement to a plain list.** The vector represents exactly the pushed list where each
element that is not strictly positive and sign-positive is replaced by `+0.0`. -/
theorem push_sequence_abs (bs : List Nat) (hb : ∀ b ∈ bs, b < TWO64) (hl : bs.length < SIGN) :
    (SVec.empty.pushAll bs).abs = bs.map canon := by
  have := (pushAll_spec bs SVec.empty empty_WF hb (by simpa [SVec.empty] using hl)).2.1
  simpa [SVec.abs, SVec.empty, absList] using this

/-- `len()` is the number of pushes. -/
theorem len_eq_pushes (bs : List Nat) (hb : ∀ b ∈ bs, b < TWO64) (hl : bs.length < SIGN) :
    (SVec.empty.pushAll bs).len = bs.length := by
  have := (pushAll_spec bs SVec.empty empty_WF hb (by simpa [SVec.empty] using hl)).2.2
  simpa [SVec.empty] using this

/-- `iter()` yields exactly the represented list; `self.len -= 1` never underflows
(`iterCollect` returns `none` on underflow). -/
theorem iter_eq_abs (bs : List Nat) (hb : ∀ b ∈ bs, b < TWO64) (hl : bs.length < SIGN) :
    (SVec.empty.pushAll bs).iterCollect = some (bs.map canon) := by
  have hw := push_sequence_wf bs hb hl
  rw [iterCollect_eq_abs _ (by rw [hw.lenEq]; exact Nat.le_refl _), push_sequence_abs bs hb hl]

/-- `into_vec()` returns exactly the represented list, and every
`slice::from_raw_parts(ptr, count)` in `copy_slice` has `count ≤ slice.len()` — for **every**
entry list, not only well-formed ones (`intoVec` returns `none` on an out-of-bounds slice). -/
theorem into_vec_eq_abs (s : SVec) : s.intoVec = some s.abs := intoVec_eq_abs s

/-- The raw-slice bound of `copy_slice`, stated on the loop itself: whenever `slice` is
`count` value entries followed by the iterator's remainder, no call reads past `slice`, and only
value entries are reinterpreted as `f64`. -/
theorem copy_slice_in_bounds (slice rest : List Nat) (count : Nat) (dst : List Nat)
    (h1 : slice.drop count = rest) (h2 : count ≤ slice.length)
    (h3 : ∀ e ∈ slice.take count, isValue e = true) :
    intoVecGo slice count rest dst = some (dst ++ slice.take count ++ absList rest) :=
  intoVecGo_spec rest slice count dst h1 h2 h3

/-- After `retain_non_zero` every entry is a value … -/
theorem retain_establishes_transmute_pre (s : SVec) : s.retainNonZero.transmutePre = true := by
  simp only [SVec.transmutePre, List.all_eq_true]
  exact retain_all_values s

/-- … so `retain_non_zero_and_sort` + `transmute_into_vec` (`difficulty_value`) never
reinterprets a run entry, and what it returns is the descending arrangement of the non-zero
represented values. -/
theorem transmute_after_retain_sort (s : SVec) (hw : WF s) :
    s.retainNonZeroAndSort.transmutePre = true ∧
    s.retainNonZeroAndSort.transmuteIntoVec = sortDescBits (s.abs.filter nonZeroBits) := by
  refine ⟨?_, ?_⟩
  · simp only [SVec.transmutePre, List.all_eq_true]
    exact sortDesc_all_values (retain_all_values s)
  · simp only [SVec.retainNonZeroAndSort, SVec.sortDesc, SVec.retainNonZero,
      SVec.transmuteIntoVec, SVec.abs]
    rw [filter_isValue_eq_filter_abs hw.entries]

/-- `sorted_non_zero_iter_mut` + an in-place update that maps values to values (a positive
factor) + `sort_desc` + `transmute_into_vec` (`osu::…::strain::difficulty_value`) never
reinterprets a run entry either. -/
theorem transmute_after_update (s : SVec) (f : Nat → Nat → Nat) (k : Nat)
    (hf : ∀ i e, isValue e = true → isValue (f i e) = true) :
    ((s.sortedNonZeroUpdate f k).sortDesc).transmutePre = true := by
  simp only [SVec.transmutePre, List.all_eq_true]
  exact sortDesc_all_values
    (mapPrefix_all_values hf (sortDesc_all_values (retain_all_values s)))

/-- The value handed to the caller by `sorted_non_zero_iter_mut` (`as_value_mut`) is never a
run entry, for any vector. -/
theorem iter_mut_yields_values (s : SVec) : ∀ e ∈ s.retainNonZeroAndSort.inner, isValue e = true :=
  sortDesc_all_values (retain_all_values s)

/-- `sort_desc` sorts: the result is a permutation, descending in `f64::total_cmp` order; on
value entries that order is the unsigned order of the bit patterns. -/
theorem sort_desc_sorted_perm (l : List Nat) :
    (sortDescBits l).Perm l ∧ (sortDescBits l).Pairwise (fun a b => tcKey b ≤ tcKey a) :=
  ⟨sortDescBits_perm l, sortDescBits_sorted l⟩

theorem total_cmp_on_values (a b : Nat) (ha : isValue a = true) (hb : isValue b = true) :
    tcKey b ≤ tcKey a ↔ b ≤ a := by
  rw [tcKey_value ha, tcKey_value hb]; omega

/-- **Debug flag soundness.** After any operation sequence (pushes of anything, retains,
sorts, sane updates) a clear `has_zero` flag implies that no entry is a run: the
`debug_assert!(!self.has_zero)` of `sort_desc` checks the safety precondition soundly. -/
theorem has_zero_flag_sound (ops : List Op) (hs : ∀ op ∈ ops, op.Sane) :
    (SVec.empty.run ops).hasZero = false → (SVec.empty.run ops).transmutePre = true := by
  intro h
  simp only [SVec.transmutePre, List.all_eq_true]
  exact run_flagSound ops SVec.empty (by intro _ e he; simp [SVec.empty] at he) hs h

/-- Under the documented call discipline (`sort_desc` only after `retain_non_zero` /
`sorted_non_zero_iter_mut` with no `push` in between) the debug assertion never fires. -/
theorem debug_assert_never_fires (ops : List Op) (h : Disciplined false ops) :
    AssertsPass SVec.empty ops :=
  asserts_pass_of_disciplined ops SVec.empty false (by simp) h

/-- The iterator never underflows its `len` even on the stale `len` left by
`retain_non_zero` (which does not update `len`). -/
theorem iter_after_retain (s : SVec) (hw : WF s) :
    s.retainNonZero.iterCollect = some (s.abs.filter nonZeroBits) := by
  have hv := retain_all_values s
  have habs : absList s.retainNonZero.inner = s.retainNonZero.inner := absList_of_all_value hv
  have hle : (absList s.retainNonZero.inner).length ≤ s.retainNonZero.len := by
    rw [habs]
    show (s.inner.filter isValue).length ≤ s.len
    rw [hw.lenEq, filter_isValue_eq_filter_abs hw.entries]
    exact List.length_filter_le _ _
  rw [iterCollect_eq_abs _ hle]
  show some (absList s.retainNonZero.inner) = _
  rw [habs]
  show some (s.inner.filter isValue) = _
  rw [filter_isValue_eq_filter_abs hw.entries]; rfl

/-! ## the preconditions matter (witnesses), and non-vacuity -/

/-- Without `retain_non_zero`, `transmute_into_vec` does reinterpret a run entry: pushing one
`0.0` and transmuting yields the pattern `0x8000000000000001` (a negative subnormal), not `0.0`. -/
theorem transmute_without_retain_reinterprets :
    (SVec.empty.push 0).transmuteIntoVec = [9223372036854775809] ∧
    (SVec.empty.push 0).abs = [0] ∧ (SVec.empty.push 0).transmutePre = false := by decide

/-- `retain_non_zero` leaves `len` stale: `len()` afterwards is the pre-retain length. -/
theorem len_stale_after_retain :
    ((SVec.empty.pushAll [0, 4607182418800017408]).retainNonZero).len = 2 ∧
    ((SVec.empty.pushAll [0, 4607182418800017408]).retainNonZero).inner.length = 1 := by decide

/-- Negative numbers, `-0.0` and sign-negative NaN are counted as zero; sign-positive NaN is
stored as a value. (1.0, -1.0, -0.0, -NaN, +NaN, 0.0, 0.0) -/
example : (SVec.empty.pushAll [4607182418800017408, 13830554455654793216, 9223372036854775808,
      18444492273895866368, 9221120237041090560, 0, 0]).inner
    = [4607182418800017408, 9223372036854775811, 9221120237041090560, 9223372036854775810] := by
  decide

example : (SVec.empty.pushAll [4607182418800017408, 0, 0, 4611686018427387904]).intoVec
    = some [4607182418800017408, 0, 0, 4611686018427387904] := by decide

example : (SVec.empty.pushAll [4607182418800017408, 0, 0, 4611686018427387904]).iterCollect
    = some [4607182418800017408, 0, 0, 4611686018427387904] := by decide

example : Disciplined false [.push 1, .push 0, .retain, .sortDesc, .update (fun _ e => e) 3, .sortDesc] := by
  simp [Disciplined]

end Rosu.SV
