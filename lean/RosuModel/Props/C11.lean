import RosuModel.Lemmas.StrainsVecOps
import RosuModel.Lemmas.Lifetime
import RosuModel.Gen.Lifetime

/-!
# C11 (a) — the compact strain list never performs an invalid access and behaves like a plain
list of non-negative floats

All statements are about the bit-level model `Model/StrainsVec.lean` of the compact
`StrainsVec` (union `StrainsEntry {value: f64, zero_count: u64}`), for **every** sequence of
pushes of arbitrary 64-bit patterns (positive, zero, negative, subnormal, NaN, ±∞) and every
operation sequence respecting the methods' documented preconditions.

Parts (b) self-referential gradual structs and (c) the decoder's pointer scratch buffer: second
half of this file (`namespace Rosu.Lifetime`) — theorems over all operation sequences of the
pointer-discipline model `Model/Lifetime.lean`, whose premises about the source are re-extracted
into `Gen/Lifetime.lean` on every run and compared here.
-/

namespace Rosu.SV

/-- **Invariant.** Every push sequence (patterns `< 2^64`, fewer than `2^63 - 1` elements) leaves
the vector well-formed: every entry is a value (sign clear, non-zero) or a run with
`1 ≤ count < 2^63`, no two runs are adjacent, and `len` is the represented length.  In
particular `incr_zero_count` (`u64 += 1`) never overflows and never spills into the sign bit. -/
theorem push_sequence_wf (bs : List Nat) (hb : ∀ b ∈ bs, b < TWO64) (hl : bs.length < SIGN) :
    WF (SVec.empty.pushAll bs) :=
  (pushAll_spec bs SVec.empty empty_WF hb (by simpa [SVec.empty] using hl)).1

/-- **Refinement to a plain list.** The vector represents exactly the pushed list where each
element that is not strictly positive and sign-positive is replaced by `+0.0`. -/
theorem push_sequence_abs (bs : List Nat) (hb : ∀ b ∈ bs, b < TWO64) (hl : bs.length < SIGN) :
    (SVec.empty.pushAll bs).abs = bs.map canon := by
  have := (pushAll_spec bs SVec.empty empty_WF hb (by simpa [SVec.empty] using hl)).2.1
  simpa [SVec.abs, SVec.empty, absList] using this

/-- `len()` is the number of pushes. -/
theorem len_eq_pushes (bs : List Nat) (hb : ∀ b ∈ bs, b < TWO64) (hl : bs.length < SIGN) :
    (SVec.empty.pushAll bs).len = bs.length := by
  have := (pushAll_spec bs SVec.empty empty_WF hb (by simpa [SVec.empty] using hl)).2.2
  simpa [SVec.empty] using this

/-- `iter()` yields exactly the represented list; `self.len -= 1` never underflows
(`iterCollect` returns `none` on underflow). -/
theorem iter_eq_abs (bs : List Nat) (hb : ∀ b ∈ bs, b < TWO64) (hl : bs.length < SIGN) :
    (SVec.empty.pushAll bs).iterCollect = some (bs.map canon) := by
  have hw := push_sequence_wf bs hb hl
  rw [iterCollect_eq_abs _ (by rw [hw.lenEq]; exact Nat.le_refl _), push_sequence_abs bs hb hl]

/-- `into_vec()` returns exactly the represented list, and every
`slice::from_raw_parts(ptr, count)` in `copy_slice` has `count ≤ slice.len()` — for **every**
entry list, not only well-formed ones (`intoVec` returns `none` on an out-of-bounds slice). -/
theorem into_vec_eq_abs (s : SVec) : s.intoVec = some s.abs := intoVec_eq_abs s

/-- The raw-slice bound of `copy_slice`, stated on the loop itself: whenever `slice` is
`count` value entries followed by the iterator's remainder, no call reads past `slice`, and only
value entries are reinterpreted as `f64`. -/
theorem copy_slice_in_bounds (slice rest : List Nat) (count : Nat) (dst : List Nat)
    (h1 : slice.drop count = rest) (h2 : count ≤ slice.length)
    (h3 : ∀ e ∈ slice.take count, isValue e = true) :
    intoVecGo slice count rest dst = some (dst ++ slice.take count ++ absList rest) :=
  intoVecGo_spec rest slice count dst h1 h2 h3

/-- After `retain_non_zero` every entry is a value … -/
theorem retain_establishes_transmute_pre (s : SVec) : s.retainNonZero.transmutePre = true := by
  simp only [SVec.transmutePre, List.all_eq_true]
  exact retain_all_values s

/-- … so `retain_non_zero_and_sort` + `transmute_into_vec` (`difficulty_value`) never
reinterprets a run entry, and what it returns is the descending arrangement of the non-zero
represented values. -/
theorem transmute_after_retain_sort (s : SVec) (hw : WF s) :
    s.retainNonZeroAndSort.transmutePre = true ∧
    s.retainNonZeroAndSort.transmuteIntoVec = sortDescBits (s.abs.filter nonZeroBits) := by
  refine ⟨?_, ?_⟩
  · simp only [SVec.transmutePre, List.all_eq_true]
    exact sortDesc_all_values (retain_all_values s)
  · simp only [SVec.retainNonZeroAndSort, SVec.sortDesc, SVec.retainNonZero,
      SVec.transmuteIntoVec, SVec.abs]
    rw [filter_isValue_eq_filter_abs hw.entries]

/-- `sorted_non_zero_iter_mut` + an in-place update that maps values to values (a positive
factor) + `sort_desc` + `transmute_into_vec` (`osu::…::strain::difficulty_value`) never
reinterprets a run entry either. -/
theorem transmute_after_update (s : SVec) (f : Nat → Nat → Nat) (k : Nat)
    (hf : ∀ i e, isValue e = true → isValue (f i e) = true) :
    ((s.sortedNonZeroUpdate f k).sortDesc).transmutePre = true := by
  simp only [SVec.transmutePre, List.all_eq_true]
  exact sortDesc_all_values
    (mapPrefix_all_values hf (sortDesc_all_values (retain_all_values s)))

/-- The value handed to the caller by `sorted_non_zero_iter_mut` (`as_value_mut`) is never a
run entry, for any vector. -/
theorem iter_mut_yields_values (s : SVec) : ∀ e ∈ s.retainNonZeroAndSort.inner, isValue e = true :=
  sortDesc_all_values (retain_all_values s)

/-- `sort_desc` sorts: the result is a permutation, descending in `f64::total_cmp` order; on
value entries that order is the unsigned order of the bit patterns. -/
theorem sort_desc_sorted_perm (l : List Nat) :
    (sortDescBits l).Perm l ∧ (sortDescBits l).Pairwise (fun a b => tcKey b ≤ tcKey a) :=
  ⟨sortDescBits_perm l, sortDescBits_sorted l⟩

theorem total_cmp_on_values (a b : Nat) (ha : isValue a = true) (hb : isValue b = true) :
    tcKey b ≤ tcKey a ↔ b ≤ a := by
  rw [tcKey_value ha, tcKey_value hb]; omega

/-- **Debug flag soundness.** After any operation sequence (pushes of anything, retains,
sorts, sane updates) a clear `has_zero` flag implies that no entry is a run: the
`debug_assert!(!self.has_zero)` of `sort_desc` checks the safety precondition soundly. -/
theorem has_zero_flag_sound (ops : List Op) (hs : ∀ op ∈ ops, op.Sane) :
    (SVec.empty.run ops).hasZero = false → (SVec.empty.run ops).transmutePre = true := by
  intro h
  simp only [SVec.transmutePre, List.all_eq_true]
  exact run_flagSound ops SVec.empty (by intro _ e he; simp [SVec.empty] at he) hs h

/-- Under the documented call discipline (`sort_desc` only after `retain_non_zero` /
`sorted_non_zero_iter_mut` with no `push` in between) the debug assertion never fires. -/
theorem debug_assert_never_fires (ops : List Op) (h : Disciplined false ops) :
    AssertsPass SVec.empty ops :=
  asserts_pass_of_disciplined ops SVec.empty false (by simp) h

/-- The iterator never underflows its `len` even on the stale `len` left by
`retain_non_zero` (which does not update `len`). -/
theorem iter_after_retain (s : SVec) (hw : WF s) :
    s.retainNonZero.iterCollect = some (s.abs.filter nonZeroBits) := by
  have hv := retain_all_values s
  have habs : absList s.retainNonZero.inner = s.retainNonZero.inner := absList_of_all_value hv
  have hle : (absList s.retainNonZero.inner).length ≤ s.retainNonZero.len := by
    rw [habs]
    show (s.inner.filter isValue).length ≤ s.len
    rw [hw.lenEq, filter_isValue_eq_filter_abs hw.entries]
    exact List.length_filter_le _ _
  rw [iterCollect_eq_abs _ hle]
  show some (absList s.retainNonZero.inner) = _
  rw [habs]
  show some (s.inner.filter isValue) = _
  rw [filter_isValue_eq_filter_abs hw.entries]; rfl

/-! ## the preconditions matter (witnesses), and non-vacuity -/

/-- Without `retain_non_zero`, `transmute_into_vec` does reinterpret a run entry: pushing one
`0.0` and transmuting yields the pattern `0x8000000000000001` (a negative subnormal), not `0.0`. -/
theorem transmute_without_retain_reinterprets :
    (SVec.empty.push 0).transmuteIntoVec = [9223372036854775809] ∧
    (SVec.empty.push 0).abs = [0] ∧ (SVec.empty.push 0).transmutePre = false := by decide

/-- `retain_non_zero` leaves `len` stale: `len()` afterwards is the pre-retain length. -/
theorem len_stale_after_retain :
    ((SVec.empty.pushAll [0, 4607182418800017408]).retainNonZero).len = 2 ∧
    ((SVec.empty.pushAll [0, 4607182418800017408]).retainNonZero).inner.length = 1 := by decide

/-- Negative numbers, `-0.0` and sign-negative NaN are counted as zero; sign-positive NaN is
stored as a value. (1.0, -1.0, -0.0, -NaN, +NaN, 0.0, 0.0) -/
example : (SVec.empty.pushAll [4607182418800017408, 13830554455654793216, 9223372036854775808,
      18444492273895866368, 9221120237041090560, 0, 0]).inner
    = [4607182418800017408, 9223372036854775811, 9221120237041090560, 9223372036854775810] := by
  decide

example : (SVec.empty.pushAll [4607182418800017408, 0, 0, 4611686018427387904]).intoVec
    = some [4607182418800017408, 0, 0, 4611686018427387904] := by decide

example : (SVec.empty.pushAll [4607182418800017408, 0, 0, 4611686018427387904]).iterCollect
    = some [4607182418800017408, 0, 0, 4611686018427387904] := by decide

example : Disciplined false [.push 1, .push 0, .retain, .sortDesc, .update (fun _ e => e) 3, .sortDesc] := by
  simp [Disciplined]

end Rosu.SV


/-!
# C11 (b), (c) — the lifetime-extended pointers of the gradual calculators and the decoder's
raw-pointer scratch buffer never dangle when dereferenced

Model: `Model/Lifetime.lean` (abstract heap: blocks with liveness / generation / frozen flag,
pointers `(block, generation)`; calculators = movable handle + immovable heap blocks + stored
pointers; field-by-field drop in declaration order; the statement sequence of `point_split`).
A *fault* is a dereference of a pointer whose block is dead or has another generation, a second
free, or a write to a frozen block.  This is a model of the **discipline** the SAFETY comments
rely on, not of Rust's aliasing rules (Stacked / Tree Borrows) — the Miri findings on
`OsuGradualDifficulty` concern exactly that part and stay recorded as known findings.
-/

namespace Rosu.Lifetime
open Rosu.Gen.Lifetime

/-! ## (b) premises, re-extracted from the current source -/

def osuSrcLayout : Layout :=
  layoutOf osuFields "diff_objects" "osu_objects" ((osuStorage.lookup "objects").getD "?") dropBodies

def taikoSrcLayout : Layout :=
  layoutOf taikoFields "diff_objects_iter" "diff_objects" ((taikoStorage.lookup "objects").getD "?") dropBodies

/-- The extractor followed every shape. -/
theorem premise_extractor_complete : unknown = [] := by decide

/-- The only struct fields with a `'static`-extended type are the two modelled borrowers: no
third self-referential struct has appeared. -/
theorem premise_only_two_static_borrowers :
    staticFields.map (fun f => (f.1, f.2.1, f.2.2.1)) =
      [("src/osu/difficulty/gradual.rs", "OsuGradualDifficulty", "diff_objects"),
       ("src/taiko/difficulty/gradual.rs", "TaikoGradualDifficulty", "diff_objects_iter")] := by
  decide

/-- `OsuGradualDifficulty`: the borrower `diff_objects` (a `Box` of its own) is declared, hence
dropped, before the owner `osu_objects`, whose storage is a heap block owned through
`NonNull<[OsuObject]>` (a leaked `Box<[OsuObject]>`); the only `Drop` impl of the crate is the reviewed
one of `OsuObjects`. -/
theorem premise_osu_layout : osuSrcLayout = osuLayout := by decide

/-- **The manual `Drop` is the Box's drop.**  The only `impl Drop` under src/ is `OsuObjects`'s, its
`fn drop` consists of the single statement `drop(unsafe { Box::from_raw(self.objects.as_ptr()) })` — it
frees `objects` and nothing else —, the storage field it frees is the raw-pointer storage of
`OsuGradualDifficulty::osu_objects`, and the borrower `diff_objects` is declared (hence dropped) before
`osu_objects`: the model's "dropping the owner field frees its block, after the borrower is gone"
is what the source does. -/
theorem premise_osu_storage_freed :
    dropBodies = Rosu.Lifetime.reviewedDrops ∧
    dropImpls = dropBodies.map (·.1) ∧
    (Rosu.Lifetime.rawStorageTypes.lookup ((osuStorage.lookup "objects").getD "?")).map
      (fun hdr => dropImpls.contains hdr) = some true ∧
    Rosu.Lifetime.orderOf (osuFields.map (·.2.1)) "diff_objects" "osu_objects" = [.borrower, .owner] := by
  decide

/-- `TaikoGradualDifficulty`: the borrower `diff_objects_iter` is an inline `slice::Iter`, the
storage is the `Vec` that `iter()` walks, and no `Drop` impl other than the reviewed one of `OsuObjects`
exists (so the borrower's drop glue dereferences nothing).  As written the owner `diff_objects` is declared
before the borrower; the opposite order would be sound as well (and is accepted). -/
theorem premise_taiko_layout :
    (taikoSrcLayout = taikoLayout ∨ taikoSrcLayout = { taikoLayout with order := [.borrower, .owner] }) ∧
    taikoIterBody = "self.objects.iter()" := by decide

/-- The pointers are created where the model says: `extend_lifetime` is applied to the boxed
difficulty objects / to `diff_objects.iter()` in `new`, nowhere else. -/
theorem premise_extend_sites :
    osuExtendCalls = ["let diff_objects = extend_lifetime(diff_objects.into_boxed_slice());"] ∧
    taikoExtendCalls = ["let diff_objects_iter = extend_lifetime(diff_objects.iter());"] := by decide

/-- Neither struct is `Clone`/`Copy` (derive or manual impl), and no function other than `new`
builds or destructures one: `cloneBitwise` is not an operation of the real types. -/
theorem premise_not_clone :
    osuDerives.all (fun d => d != "Clone" && d != "Copy") = true ∧ osuCloneImpls = [] ∧
    taikoDerives.all (fun d => d != "Clone" && d != "Copy") = true ∧ taikoCloneImpls = [] ∧
    osuStructLiterals = [] ∧ taikoStructLiterals = [] := by decide

/-- Read-only shapes of a use of the owned storage / of the borrower after construction. -/
def readOnlyUses : List String :=
  ["&self.diff_objects", "self.diff_objects.get", "self.diff_objects.iter", "self.diff_objects.len",
   "self.diff_objects.is_empty", "self.diff_objects.first", "self.diff_objects.last",
   "&self.osu_objects", "self.osu_objects.is_empty",
   -- advancing the `slice::Iter` moves the pointer pair inside the same block
   "self.diff_objects_iter.next", "self.diff_objects_iter.len", "self.diff_objects_iter.as_slice",
   -- `for curr in self.diff_objects_iter.by_ref()` (fix b92f186: drain the trailing drum rolls): `by_ref` is
   -- `&mut slice::Iter`, the loop only calls `next` on it
   "self.diff_objects_iter.by_ref"]

/-- After construction, every use of the owner and borrower fields (in the only files that can
name them: the fields are private) is a shared read: `mutateOwner` is not an operation of the real
types.  (`OsuObjects::iter_mut`, the only `&mut` accessor, is used on the local in `new` only.) -/
theorem premise_owner_uses_read_only :
    (osuOwnerUses ++ osuBorrowerUses ++ taikoOwnerUses ++ taikoBorrowerUses).all
      (readOnlyUses.contains ·) = true := by decide

/-- The owner / borrower fields are private (no other module can touch them). -/
theorem premise_fields_private :
    ((osuFields.filter (fun f => f.2.1 == "diff_objects" || f.2.1 == "osu_objects")).map (·.1)) = ["", ""] ∧
    ((taikoFields.filter (fun f => f.2.1 == "diff_objects" || f.2.1 == "diff_objects_iter")).map (·.1)) = ["", ""] := by
  decide

/-- All premises of part (b) at once. -/
theorem lifetime_premises_hold :
    unknown = [] ∧ osuSrcLayout = osuLayout ∧
    osuSrcLayout.safe = true ∧ taikoSrcLayout.safe = true ∧
    dropBodies.all (Rosu.Lifetime.reviewedDrops.contains ·) = true := by decide

/-! ## (b) theorems over all operation sequences -/

/-- **Main invariant.** Every sequence of admissible operations — constructions with sound
layouts (in particular the two real ones), moves, `next`, `nth`, `len`, drops, addressed to
arbitrarily many interleaved instances in one heap — runs without a fault and ends in a
well-formed world: every stored pointer targets a live block of its own instance at the block's
current generation, and that block is frozen. -/
theorem calculators_never_fault (ops : List Op) (h : ∀ op ∈ ops, op.admissible = true) :
    ∃ w, run World.empty ops = .ok w ∧ Wf w :=
  run_wf ops World.empty wf_empty h

/-- The real layouts are admissible. -/
theorem real_layouts_admissible (n m : Nat) :
    (Op.construct osuSrcLayout n).admissible = true ∧ (Op.construct taikoSrcLayout m).admissible = true := by
  exact ⟨lifetime_premises_hold.2.2.1, lifetime_premises_hold.2.2.2.1⟩

/-- Every dereference performed by `next` / `nth` / `len` (and by drop glue) after any admissible
history is to a valid pointer. -/
theorem every_dereference_valid (ops : List Op) (h : ∀ op ∈ ops, op.admissible = true) (w : World)
    (hr : run World.empty ops = .ok w) (op : Op) : ∀ p ∈ derefs w op, validPtr w.heap p := by
  obtain ⟨w', h1, hw⟩ := calculators_never_fault ops h
  rw [hr] at h1
  cases h1
  exact derefs_valid w hw op

/-- After `dropStruct` no pointer of that instance is dereferenced, and none stays stored. -/
theorem no_deref_after_drop (w : World) (hw : Wf w) (i : Nat) (inst : Inst)
    (hi : w.insts[i]? = some inst) (hd : inst.alive = false) (k : Nat) :
    derefs w (.next i) = [] ∧ derefs w (.nth i k) = [] ∧ derefs w (.len i) = [] ∧
    derefs w (.dropStruct i) = [] ∧ inst.ptrs = [] := by
  simp [derefs, hi, hd, (hw.insts i inst hi).dead_no_ptrs hd]

/-- Moving the struct (into a `Box`, a reallocating `Vec`, a closure, a thread) changes the handle
only: heap, block ids, generations and the stored pointers are untouched. -/
theorem move_keeps_blocks (w : World) (hw : Wf w) (i to : Nat) (inst : Inst)
    (hi : w.insts[i]? = some inst) :
    (moveInst w i to).heap = w.heap ∧
    ∀ inst', (moveInst w i to).insts[i]? = some inst' →
      inst'.ptrs = inst.ptrs ∧ inst'.owner = inst.owner ∧ inst'.holder = inst.holder :=
  moveInst_heap w i to inst hi (safe_not_inline (hw.insts i inst hi).safe)

/-- No double free: freeing a dead block is a fault, faults never happen, and a dead block is
never revived — so every block is freed at most once … -/
theorem no_double_free (ops : List Op) (h : ∀ op ∈ ops, op.admissible = true) :
    faultOf (run World.empty ops) = none := by
  obtain ⟨w, h1, _⟩ := calculators_never_fault ops h
  rw [h1]; rfl

theorem dead_blocks_stay_dead (w : World) (hw : Wf w) (op : Op) (ha : op.admissible = true)
    (w' : World) (hs : step w op = .ok w') (b : Nat) (blk : Block)
    (hb : w.heap[b]? = some blk) (hd : blk.live = false) :
    ∃ blk', w'.heap[b]? = some blk' ∧ blk'.live = false :=
  step_dead_stays_dead w hw op ha w' hs b blk hb hd

theorem second_free_is_a_fault (h : List Block) (b : Nat) (blk : Block) (hb : h[b]? = some blk)
    (hd : blk.live = false) : free h b = .error .doubleFree := free_dead_is_fault hb hd

/-- … and at least once (no leak): when every instance has been dropped, every block is dead. -/
theorem no_leak (ops : List Op) (h : ∀ op ∈ ops, op.admissible = true) (w : World)
    (hr : run World.empty ops = .ok w) (hall : ∀ inst ∈ w.insts, inst.alive = false) :
    ∀ blk ∈ w.heap, blk.live = false := by
  obtain ⟨w', h1, hw⟩ := calculators_never_fault ops h
  rw [hr] at h1
  cases h1
  exact no_leak_of_wf w hw hall

/-! ### the premises matter (counter-witnesses) and non-vacuity -/

/-- A write to the owned storage after construction is rejected by the discipline … -/
theorem mutate_owner_violates :
    faultOf (run World.empty [.construct osuLayout 3, .next 0, .mutateOwner 0]) = some .writeWhileFrozen := by
  decide

/-- … a field-wise clone leaves the clone pointing into the original: use after free once the
original is dropped … -/
theorem clone_then_drop_original_violates :
    faultOf (run World.empty [.construct taikoLayout 2, .cloneBitwise 0, .dropStruct 0, .next 1])
      = some .useAfterFree := by decide

/-- … storage kept inline in the struct would move with it … -/
theorem inline_storage_move_violates :
    faultOf (run World.empty [.construct ⟨[.borrower, .owner], true, false, true⟩ 2, .moveStruct 0 1, .next 0])
      = some .staleGeneration := by decide

/-- … and dropping the owner first is only sound because the borrower's drop glue does not look
at the pointers (`TaikoGradualDifficulty` relies on this; `OsuGradualDifficulty` does not). -/
theorem owner_first_with_dereferencing_glue_violates :
    faultOf (run World.empty [.construct ⟨[.owner, .borrower], false, true, false⟩ 2, .dropStruct 0])
      = some .useAfterFree ∧
    faultOf (run World.empty [.construct ⟨[.borrower, .owner], true, true, false⟩ 2, .dropStruct 0]) = none := by
  decide

/-- Non-vacuity: three interleaved instances (osu, taiko, osu), moved, stepped, one dropped
mid-iteration, all dropped at the end: no fault, no block left. -/
example :
    (match run World.empty [.construct osuLayout 3, .construct taikoLayout 2, .next 0, .moveStruct 0 7,
        .construct osuLayout 0, .next 1, .nth 0 2, .dropStruct 1, .next 0, .len 2, .moveStruct 2 9,
        .next 2, .dropStruct 0, .dropStruct 2] with
      | .ok w => (liveBlocks w, liveInsts w, w.heap.length)
      | .error _ => (99, [], 0)) = (0, [], 5) := by decide

example : (match run World.empty [.construct osuLayout 3, .construct taikoLayout 2, .dropStruct 0] with
      | .ok w => (liveBlocks w, liveInsts w)
      | .error _ => (99, [])) = (1, [1]) := by decide

/-! ## (c) the decoder's scratch buffer -/

/-- The statements of `fn point_split` in the current source are the modelled program. -/
theorem premise_point_split_program : pointSplitStmts.map PStmt.ofTag = realProg := by decide

/-- `self.point_split` (the field) is touched only inside `fn point_split` (and initialised empty
in `create`); the method is called from `convert_path_str` only — so no nested call and the
closure cannot reach the buffer; the field is private, of type `Vec<*const str>`; no other file
names it. -/
theorem premise_point_split_confined :
    pointSplitFieldAccessFns = ["literal-in:create", "point_split"] ∧
    pointSplitCallFns = ["convert_path_str"] ∧
    pointSplitField = ("", "Vec<*const str>") ∧
    pointSplitInits = ["Vec::with_capacity(8)"] ∧
    pointSplitOtherFiles = [] := by decide

/-- **Invariant.** For the real control flow and every history of lines, `point_split` calls
(any number of pieces; closure result `Ok`, `Err` or a panic) and line ends: no pointer into an
earlier line's buffer is ever dereferenced, the `&[&str]` view is never used after the scratch
vector changed, and the scratch vector is empty at every operation boundary — in particular at
every line boundary. -/
theorem scratch_empty_at_every_boundary (ops : List DOp) :
    ∃ d, runD realProg Dec.init ops = .ok d ∧ d.scratch = [] :=
  runD_real ops Dec.init rfl

/-- The same for the program as extracted from the source on this run. -/
theorem scratch_discipline_of_current_source (ops : List DOp) :
    ∃ d, runD (pointSplitStmts.map PStmt.ofTag) Dec.init ops = .ok d ∧ d.scratch = [] := by
  rw [premise_point_split_program]
  exact scratch_empty_at_every_boundary ops

/-- The variant that returns early on `Err` (`f(self, s)?; self.point_split.clear(); Ok(())`)
violates the invariant with a two-line history: after a rejected first line the buffer still
holds pointers into that line, and the next line's call dereferences them. -/
theorem skip_clear_on_error_violates :
    (match runD skipClearOnErrProg Dec.init [.enterLine, .pointSplit 2 .err, .leaveLine] with
      | .ok d => d.scratch.length | .error _ => 0) = 2 ∧
    faultOf (runD skipClearOnErrProg Dec.init
      [.enterLine, .pointSplit 2 .err, .leaveLine, .enterLine, .pointSplit 1 .ok]) = some .staleGeneration := by
  decide

/-- An unrecognised statement is a fault of the model, never skipped. -/
theorem unknown_statement_is_a_fault :
    faultOf (runD ([.extend, .asPtr, .len, .fromRaw, .callF, PStmt.ofTag "UNKNOWN:x", .clear, .ret])
      Dec.init [.enterLine, .pointSplit 1 .ok]) = some .unknownShape := by decide

example : (match runD realProg Dec.init [.enterLine, .pointSplit 3 .err, .leaveLine, .enterLine,
      .pointSplit 2 .ok, .pointSplit 1 .err, .leaveLine, .enterLine, .pointSplit 4 .panic, .enterLine] with
    | .ok d => (d.alive, d.lineGen, d.scratch) | .error _ => (true, 0, [0])) = (false, 3, []) := by decide

end Rosu.Lifetime
