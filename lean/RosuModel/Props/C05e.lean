import RosuModel.Lemmas.TaikoPreAll

/-!
# C05 (osu!taiko difficulty objects, colour and rhythm preprocessing) — no checked operation fails

`Model/TaikoPre.lean` transcribes everything between the converted taiko map and the strain skills:
`DifficultyValues::create_difficulty_objects`, `TaikoDifficultyObject::new` with the
`TaikoDifficultyObjects` store (`objects` / `center_hit_objects` / `rim_hit_objects` / `note_objects`),
`RhythmData::new`, the colour preprocessor (mono streaks → alternating mono patterns → repeating hit
patterns, `find_repetition_interval`, parent / `prev` links, `process_and_assign`),
`group_by_interval`, the rhythm preprocessor (same-rhythm groups, same-pattern groups,
`group_interval`, `interval_ratio`) and the slice of the colour evaluator.  Pointers are positions;
every `v[i]`, `usize` subtraction, `unwrap()`, `drain(..2)`, pointer dereference and `Weak::upgrade`
is a checked operation (`none` = the code would panic or read a dead pointer), `while` loops carry
fuel.  The model is tied to the real object graph by the `TKPRE` lines (bit-exact, run by
`./check C02` and `./check C05`).

Proved here **for every list of hit objects** (0, 1, 2 objects, only drum rolls / swells, equal
start times, any clock rate) **and every arithmetic** (no theorem inspects the float type, so NaN /
±∞ / absorbing arithmetic is included):

* no checked operation fails and no loop runs out of fuel;
* the store is well formed; `note_idx` is the position in a strictly increasing note vector;
* mono streaks are non-empty and partition the difficulty objects in order; alternating patterns
  are non-empty runs of streaks of equal length; repeating patterns are non-empty and partition the
  alternating patterns; `1 ≤ repetition_interval ≤ MAX_REPETITION_INTERVAL + 1`;
* `group_by_interval` yields non-empty groups that partition its input in order; rhythm groups
  partition the notes, pattern groups partition the rhythm groups, exactly the notes carry rhythm data;
* the evaluator-time lookups (`previous_note`, `next_note`, `previous_mono`, `previous_color_change`,
  `next_color_change`, the colour window) stay in range; the colour data of an object points at the
  streak that contains it;
* every repeating pattern, rhythm group and pattern group is referenced by an object, i.e. strongly
  held: no `Weak::upgrade` can meet a dead pointer (`taiko_weak_targets_are_held`).
-/

namespace Rosu.C05e
open Rosu.TaikoPre

variable {T : Type}

/-- **Headline.** Whatever the hit objects, the clock rate and the arithmetic,
`create_difficulty_objects` (object construction, colour preprocessing, rhythm preprocessing,
colour-evaluator windows) performs no failing index / subtraction / `unwrap` / `drain` / dereference
and every loop terminates within its fuel. -/
theorem taiko_create_difficulty_objects_never_fails (A : Arith T) (clock : T) (objs : List (Obj T)) :
    (preprocess A clock objs).isSome = true := by
  obtain ⟨p, hp, _⟩ := preprocess_spec A clock objs
  simp [hp]

/-- … and what it builds satisfies all structural invariants (`PreInv`, unpacked below). -/
theorem taiko_preprocess_invariants (A : Arith T) (clock : T) (objs : List (Obj T)) :
    ∃ p, preprocess A clock objs = some p ∧ PreInv objs p :=
  preprocess_spec A clock objs

/-- Object construction: `objects.objects[idx - 1]` and `with_capacity(len - 2)` never fail; there
is one difficulty object per hit object after the second, of the same kind. -/
theorem taiko_object_construction_total (A : Arith T) (clock : T) (objs : List (Obj T)) :
    ∃ st, build A clock objs = some st ∧ st.WF ∧ st.objects.length = objs.length - 2 ∧
      st.objects.map (·.kind) = (objs.drop 2).map (·.kind) :=
  build_spec A clock objs

/-- In the constructed store `objects[k].idx = k`, and every pointer of the three index vectors is a
valid position. -/
theorem taiko_store_indices_valid (A : Arith T) (clock : T) (objs : List (Obj T)) (st : Store T)
    (h : build A clock objs = some st) :
    (∀ k (o : DObj T), st.objects[k]? = some o → o.idx = k) ∧
    (∀ p ∈ st.notes, p < st.objects.length) ∧
    (∀ p ∈ st.centres, p < st.objects.length) ∧
    (∀ p ∈ st.rims, p < st.objects.length) := by
  obtain ⟨st', h', hwf, _⟩ := build_spec A clock objs
  rw [h] at h'; cases h'
  exact ⟨hwf.idx_eq, hwf.notes_lt, hwf.centres_lt, hwf.rims_lt⟩

/-- `note_objects` is strictly increasing, its `k`-th entry is a hit with `note_idx = k`, every hit
is found at `note_objects[note_idx]`, and a drum roll / swell has `note_idx = 0`. -/
theorem taiko_note_idx_strictly_increasing (A : Arith T) (clock : T) (objs : List (Obj T))
    (st : Store T) (h : build A clock objs = some st) :
    st.notes.Pairwise (· < ·) ∧
    (∀ k p, st.notes[k]? = some p →
      ∃ o : DObj T, st.objects[p]? = some o ∧ o.noteIdx = k ∧ o.kind.isHit = true) ∧
    (∀ p (o : DObj T), st.objects[p]? = some o →
      (o.kind.isHit = true → st.notes[o.noteIdx]? = some p) ∧ (o.kind.isHit = false → o.noteIdx = 0)) := by
  obtain ⟨st', h', hwf, _⟩ := build_spec A clock objs
  rw [h] at h'; cases h'
  exact ⟨hwf.notes_sorted, hwf.note_back, hwf.note_fwd⟩

/-- The lookups the evaluators perform on a well-formed store never dereference an invalid
pointer, for any object and any distance. -/
theorem taiko_lookups_never_fail (st : Store T) (h : st.WF) (o : DObj T) (k : Nat) :
    (previousNote st o k).isSome = true ∧ (nextNote st o k).isSome = true ∧
      (previousMono st o k).isSome = true := by
  obtain ⟨a, ha⟩ := previousNote_isSome st h o k
  obtain ⟨b, hb⟩ := nextNote_isSome st h o k
  obtain ⟨c, hc⟩ := previousMono_isSome st h o k
  simp [ha, hb, hc]

/-- The colour evaluator's slice `objects[idx.saturating_sub(128)..=idx]` is in bounds for every
object of a well-formed store. -/
theorem taiko_colour_window_in_bounds (st : Store T) (h : st.WF) (o : DObj T) (ho : o ∈ st.objects) :
    ∃ w, colourWindow st o = some w ∧ w.2 < st.objects.length ∧ w.1 ≤ w.2 :=
  colourWindow_isSome st h o ho

/-- Colour preprocessing of a well-formed store never fails: mono streaks partition the objects and
are non-empty, alternating patterns are non-empty runs of equally long streaks, repeating patterns
are non-empty and partition the alternating patterns, `1 ≤ repetition_interval ≤ 17`, every object
receives colour data. -/
theorem taiko_colour_structure (st : Store T) (h : st.WF) :
    ∃ monos alts reps ivs colour, colourOf st = some (monos, alts, reps, ivs, colour) ∧
      monos.flatten = List.range st.objects.length ∧ (∀ m ∈ monos, m ≠ []) ∧
      alts.flatten = monos ∧ (∀ a ∈ alts, a ≠ []) ∧
      (∀ a ∈ alts, ∀ m ∈ a, ∀ m' ∈ a, m.length = m'.length) ∧
      reps.flatten = alts ∧ (∀ r ∈ reps, r ≠ []) ∧
      ivs.length = reps.length ∧ (∀ v ∈ ivs, 1 ≤ v ∧ v ≤ maxRepetitionInterval + 1) ∧
      colour.length = st.objects.length := by
  obtain ⟨monos, alts, reps, ivs, colour, hc, hi⟩ := colourOf_spec st h
  exact ⟨monos, alts, reps, ivs, colour, hc, hi.monos_partition, hi.monos_nonempty, hi.alts_partition,
    hi.alts_nonempty, hi.alts_equal_runs, hi.reps_partition, hi.reps_nonempty, hi.intervals_len,
    hi.intervals_range, hi.colour_len⟩

/-- The colour data `process_and_assign` leaves in object `p` points at the mono streak that contains
`p`, at `p`'s position (`mono_streak.hit_objects[pos] = p`), through existing parent links — what
`first_hit_object()`, `hit_objects.iter().position(..)` and the `parent` upgrades of the evaluators
rely on. -/
theorem taiko_colour_data_points_to_own_streak (A : Arith T) (clock : T) (objs : List (Obj T))
    (pre : Pre T) (h : preprocess A clock objs = some pre) (p : Nat) (c : ColourOf)
    (hc : pre.colour[p]? = some c) :
    ∃ rep alt mono, pre.reps[c.1]? = some rep ∧ rep[c.2.1]? = some alt ∧ alt[c.2.2.1]? = some mono ∧
      mono[c.2.2.2]? = some p := by
  obtain ⟨pre', h', hi⟩ := preprocess_spec A clock objs
  rw [h] at h'; cases h'
  exact hi.colour.colour_points p c hc

/-- The evaluator-time lookups through the colour data (`previous_note`, `next_note`, `previous_mono`,
`previous_color_change`, `next_color_change` for every object) never fail on what colour
preprocessing produced. -/
theorem taiko_evaluator_lookups_total (st : Store T) (h : st.WF) (monos : List Mono) (alts : List Alt)
    (reps : List Rep) (ivs : List Nat) (colour : List ColourOf)
    (hci : ColourInv st monos alts reps ivs colour) :
    ∃ ls, lookupsOf st reps colour = some ls ∧ ls.length = st.objects.length :=
  lookupsOf_spec st h monos alts reps ivs colour hci

/-- The inner `while is_coupled` loop never pops an empty deque and always leaves the two elements
that `data.drain(..2)` takes. -/
theorem taiko_drain_two_safe (st : Store T) (fuel : Nat) (data : List Alt) (cur : Rep)
    (hok : ∀ a ∈ data, AltOK st a) (h3 : 3 ≤ data.length) (hf : data.length ≤ fuel) :
    ∃ d1 cur', coupledLoop st fuel data cur = some (d1, cur') ∧ 2 ≤ d1.length ∧
      cur' ++ d1 = cur ++ data ∧ cur' ≠ [] :=
  coupledLoop_spec st fuel data cur hok h3 hf

/-- `find_repetition_interval` on patterns without empty alternating patterns: every `prev` it
follows exists, `mono_streaks[0]` exists, and the result is in `1 … MAX_REPETITION_INTERVAL + 1`. -/
theorem taiko_repetition_interval_bounded (reps : List Rep) (hr : ∀ r ∈ reps, ∀ x ∈ r, x ≠ [])
    (k : Nat) (hk : k < reps.length) :
    ∃ v, findInterval reps k = some v ∧ 1 ≤ v ∧ v ≤ maxRepetitionInterval + 1 :=
  findInterval_spec reps hr k hk

/-- `group_by_interval` (any intervals, any arithmetic): no `objects[i]` / `objects[i + 1]` /
`objects[len - 1]` / `objects[len - 2]` out of range, no `len - 1` underflow, the iterator ends; the
groups are non-empty and partition `0 … len - 1` in order. -/
theorem taiko_group_by_interval_total (A : Arith T) (iv : List T) :
    ∃ gs, groupByInterval A iv = some gs ∧ gs.flatten = List.range iv.length ∧ ∀ g ∈ gs, g ≠ [] :=
  groupByInterval_spec A iv

/-- Rhythm preprocessing of a store with valid note pointers never fails (`hit_objects.len() - 1`,
`self.groups[0]`, every `upgrade`): the rhythm groups partition the notes in order, the pattern
groups partition the rhythm groups in order, all are non-empty, and exactly the notes carry rhythm
data. -/
theorem taiko_rhythm_structure (A : Arith T) (st : Store T) (hn : ∀ p ∈ st.notes, p < st.objects.length) :
    ∃ rgs pgs pgi pgr rh, rhythmOf A st = some (rgs, pgs, pgi, pgr, rh) ∧
      rgs.flatMap (·.members) = st.notes ∧ (∀ g ∈ rgs, g.members ≠ []) ∧
      pgs.flatten = List.range rgs.length ∧ (∀ pg ∈ pgs, pg ≠ []) ∧
      pgi.length = pgs.length ∧ pgr.length = pgs.length ∧ rh.length = st.objects.length ∧
      ∀ p (h : p < rh.length), rh[p].isSome = true ↔ p ∈ st.notes :=
  rhythmOf_full A st hn

/-- **No `Weak` of the graph can be dead.**  After `create_difficulty_objects` the only strong pointers are:
the store → the objects; an object → its repeating hit pattern, its rhythm group, its pattern group; a
repeating pattern → its alternating patterns → their mono streaks.  Every repeating pattern, every
rhythm group and every pattern group is referenced by at least one object (and an object's rhythm data
points at the groups that contain it), so every node of the graph is strongly reachable from the store
for as long as the `TaikoDifficultyObjects` live — identifying `Weak::upgrade` with index validity, as
the model does, loses nothing. -/
theorem taiko_weak_targets_are_held (A : Arith T) (clock : T) (objs : List (Obj T)) (p : Pre T)
    (h : preprocess A clock objs = some p) :
    (∀ k : Nat, k < p.reps.length → ∃ q : Nat, ∃ c : ColourOf, p.colour[q]? = some c ∧ c.1 = k) ∧
    (∀ q g r : Nat, p.rhythm[q]? = some (some (g, r)) →
      (∃ rg : RGroup T, p.rgroups[g]? = some rg ∧ q ∈ rg.members) ∧
        (∃ pg : List Nat, p.pgroups[r]? = some pg ∧ g ∈ pg)) ∧
    (∀ g : Nat, g < p.rgroups.length → ∃ q r : Nat, p.rhythm[q]? = some (some (g, r))) ∧
    (∀ r : Nat, r < p.pgroups.length → ∃ q g : Nat, p.rhythm[q]? = some (some (g, r))) :=
  preprocess_live A clock objs p h

/-! ### The hypotheses of the theorems above are satisfiable (and satisfied by what the code builds) -/

/-- a well-formed store with three difficulty objects exists (any built store is one) -/
example : ∃ st : Store Int, st.WF ∧ st.objects.length = 3 := by
  obtain ⟨st, _, hwf, hlen, _⟩ := build_spec intArith 1
    [⟨0, .centre⟩, ⟨100, .rim⟩, ⟨200, .nonhit⟩, ⟨300, .centre⟩, ⟨400, .centre⟩]
  exact ⟨st, hwf, by simpa using hlen⟩

/-- `ColourInv` holds for the colour data of every well-formed store -/
example (st : Store Int) (h : st.WF) : ∃ monos alts reps ivs colour, ColourInv st monos alts reps ivs colour := by
  obtain ⟨monos, alts, reps, ivs, colour, _, hi⟩ := colourOf_spec st h
  exact ⟨monos, alts, reps, ivs, colour, hi⟩

/-- hypotheses of `taiko_drain_two_safe` / `taiko_repetition_interval_bounded` -/
example : ∃ (st : Store Int) (data : List Alt), (∀ a ∈ data, AltOK st a) ∧ 3 ≤ data.length :=
  ⟨{}, [[[]], [[]], [[]]], by simp [AltOK], by simp⟩

example : ∃ (reps : List Rep) (k : Nat), (∀ r ∈ reps, ∀ x ∈ r, x ≠ []) ∧ k < reps.length :=
  ⟨[[[[0]]]], 0, by simp, by simp⟩

/-! ### Degenerate maps (instances of the theorems above, evaluated) -/

/-- no objects, one object, two objects: nothing is built and nothing fails -/
example : (preprocess intArith 1 []).isSome = true ∧
    (preprocess intArith 1 [⟨0, .centre⟩]).isSome = true ∧
    (preprocess intArith 1 [⟨0, .nonhit⟩, ⟨0, .rim⟩]).isSome = true :=
  ⟨taiko_create_difficulty_objects_never_fails _ _ _, taiko_create_difficulty_objects_never_fails _ _ _,
   taiko_create_difficulty_objects_never_fails _ _ _⟩

/-- Observation (mirrors lazer, not a finding): a drum roll / swell opens a mono streak and the
next hit joins it when the previous *note* has the same colour — here the streak `[1, 2]` of the
objects `c c | c n c` consists of a non-hit and a centre hit. -/
theorem mono_streak_may_start_with_non_hit :
    (preprocess intArith 1
      [⟨0, .centre⟩, ⟨100, .centre⟩, ⟨200, .centre⟩, ⟨300, .nonhit⟩, ⟨400, .centre⟩]).map (·.monos) =
      some [[0], [1, 2]] := by
  decide

end Rosu.C05e
