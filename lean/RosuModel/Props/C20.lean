import RosuModel.Lemmas.Accounted
import RosuModel.Lemmas.Interleave

/-!
# C20 — concurrent use is interference-free

Model (`Model/Interleave.lean`): a world of immutable shared maps, process globals `G`,
thread-locals `T` and per-call private state `S`; a scheduler picks, step by step, which thread
runs the next step of which call.  Theorems: if steps touch nothing but the immutable maps and
their own private state (`Isolated`), then steps of different calls commute and EVERY schedule —
any interleaving, any assignment of steps to threads, any hand-over of a call between threads —
leaves each call with exactly the state (hence result) of running it alone.

The premise `Isolated` is a statement about the Rust code.  Its checkable counterpart is
discharged on every run against the regenerated inventory: the library has no `static mut`,
thread-local, lazily initialised global, atomic, and its only locks/cells are the `RefCount`
wrapper of util/sync.rs (owned by one calculator value).  What the model cannot exhibit — OS
schedules, data races inside `unsafe`, auto-trait derivation — is covered by the runtime oracle
(sequential vs 2..16 threads, compile-time `Send`/`Sync` assertions) and labelled partial.
-/

namespace Rosu.C20
open Rosu.Gen.Inventory Rosu.Accounted Rosu.Interleave

/-! ## Premise, code side (translator-generated inventory) -/

theorem scanner_followed_every_shape : unparsed = [] := by decide

/-- Every shared-state-capable site is in the reviewed list (with multiplicity). -/
theorem sources_accounted : ∀ s ∈ sites, sites.count s ≤ accounted.count s := by decide

/-- No process-global or thread-global mutable state: no `static mut`, `thread_local!`,
`OnceLock`/`Lazy`, atomics; no thread spawning inside the library; locks and cells only in
`util/sync.rs`; the only `static` items are the reviewed immutable tables. -/
theorem no_shared_mutable_state :
    ∀ s ∈ sites,
      s.kind ∉ ["static_mut", "thread_local", "once", "atomic", "thread"] ∧
      (s.kind = "lock" ∨ s.kind = "cell" → s.file = "src/util/sync.rs") ∧
      (s.kind = "static" → s = ⟨"src/taiko/difficulty/rhythm/rhythm_data.rs", "static", "static COMMON_RATIOS: [f64; 9] = ["⟩) := by
  decide

/-- Lock guards are named only by the two accessor types of util/sync.rs; no other file mentions
a guard type, so no guard can be stored in a calculator across steps. -/
theorem guards_only_in_sync_rs :
    ∀ s ∈ sites, s.kind = "lock" → s.file = "src/util/sync.rs" := by decide

theorem hooks_add_no_shared_state : ∀ s ∈ hookSites, s.kind ∉ forbiddenKinds ++ ["static", "lock", "cell"] := by
  decide

/-- Non-vacuity: a `static mut` or a `Mutex` outside util/sync.rs would be rejected. -/
example : ¬ ∀ s ∈ (⟨"src/any/difficulty/mod.rs", "static_mut", "static mut CACHE: Option<f64> = None;"⟩ :: sites),
    s.kind ∉ ["static_mut", "thread_local", "once", "atomic", "thread"] := by decide
example : ¬ ∀ s ∈ (⟨"src/osu/convert.rs", "lock", "static BUF: Mutex<Vec<f64>> = Mutex::new(Vec::new());"⟩ :: sites),
    (s.kind = "lock" → s.file = "src/util/sync.rs") := by decide

/-! ## Model side -/

variable {M G T S : Type}

/-- Steps of two different calls commute, whichever threads run them. -/
theorem steps_commute (sys : Sys M G T S) (pure : M → Nat → S → S) (hi : Isolated sys pure)
    (m : M) (w : World G T S) (th th' c c' : Nat) (hne : c ≠ c') :
    sys.stepAt m (sys.stepAt m w th c) th' c' = sys.stepAt m (sys.stepAt m w th' c') th c :=
  Interleave.steps_commute hi m w th th' hne

/-- Under ANY schedule every call ends in the state it reaches when its steps run alone, and
globals/thread-locals are untouched. -/
theorem any_schedule_eq_alone (sys : Sys M G T S) (pure : M → Nat → S → S) (hi : Isolated sys pure)
    (m : M) (w : World G T S) (sched : List (Nat × Nat)) (c : Nat) :
    (sys.exec m w sched).priv c = iter pure m c ((sched.map (·.2)).count c) (w.priv c) :=
  (exec_isolated hi m w sched).2.2 c

/-- Any interleaving on any threads equals sequential execution of the same calls (each call `c`
of the pairwise distinct `calls` taking the same number of steps), for every call's result. -/
theorem any_interleaving_eq_sequential (sys : Sys M G T S) (pure : M → Nat → S → S) (hi : Isolated sys pure)
    (m : M) (w : World G T S) (sched : List (Nat × Nat)) (calls : List Nat) (hnd : calls.Nodup)
    (hall : ∀ tc ∈ sched, tc.2 ∈ calls) :
    ∀ c, (sys.exec m w sched).priv c
      = (sys.exec m w (seqSched calls fun c => (sched.map (·.2)).count c)).priv c := by
  intro c
  rw [any_schedule_eq_alone sys pure hi, any_schedule_eq_alone sys pure hi, count_seqSched _ _ _ hnd]
  by_cases hc : c ∈ calls
  · rw [if_pos hc]
  · rw [if_neg hc]
    have : (sched.map (·.2)).count c = 0 := by
      rw [List.count_eq_zero]
      intro hmem
      rcases List.mem_map.mp hmem with ⟨tc, htc, rfl⟩
      exact hc (hall tc htc)
    rw [this]

/-- Two schedules that give every call the same number of steps agree on every call's result —
in particular a gradual calculator handed from thread to thread between steps (`sched'` = the same
steps with other thread ids) yields the single-thread sequence. -/
theorem handover_sequence_eq (sys : Sys M G T S) (pure : M → Nat → S → S) (hi : Isolated sys pure)
    (m : M) (w : World G T S) (sched sched' : List (Nat × Nat))
    (h : sched.map (·.2) = sched'.map (·.2)) (c : Nat) :
    (sys.exec m w sched).priv c = (sys.exec m w sched').priv c := by
  rw [any_schedule_eq_alone sys pure hi, any_schedule_eq_alone sys pure hi, h]

/-- `sync`: lexically scoped guards (`RefCount::get`/`get_mut`) are all released when the step
returns, so a calculator that is handed over between steps holds no lock. -/
theorem scoped_guards_released (s : Scoped) (held : List Nat) : s.ops.foldl applyOp held = held :=
  scoped_balanced s held

/-- Non-vacuity: `Isolated` is satisfiable by a system that does real work (a counter per call),
and NOT by one that writes a global. -/
example : Isolated (M := Unit) (G := Nat) (T := Nat) (S := Nat) ⟨fun _ _ g t s => (g, t, s + 1)⟩ (fun _ _ s => s + 1) :=
  fun _ _ _ _ _ => rfl
example : ¬ ∃ pure, Isolated (M := Unit) (G := Nat) (T := Nat) (S := Nat) ⟨fun _ _ g t s => (g + 1, t, s + g)⟩ pure := by
  rintro ⟨pure, h⟩
  have := h () 0 0 0 0
  simp at this

end Rosu.C20
