import RosuModel.Lemmas.PipelineTaiko
import RosuModel.Lemmas.TaikoPreAll
import RosuModel.Props.C16d
import RosuModel.Props.C06b

/-!
# C02 (with C09, C16, C05, C06) — native osu!taiko END TO END

Model: `Model/PipelineTaiko.lean` — bytes → DEC's decoder → `TaikoObject::new` → TAIKO's
preprocessing (`Model/TaikoPre.lean`) → `effective_bpm` (control-point lookups) → **`trecOfPre`**
(the interface records) → the five concrete skills (`Model/TaikoSkill.lean`) → peaks → `eval`;
`Gradual.taikoOneShot`'s counting; `Gradual.taikoMachine` with the concrete product skill.
Tie: `TREC` lines (the interface: TAIKO's model mapped through `trecOfPre` = the records the hook
dumps from the real graph, on every TSKILL case), `PIPE taiko` lines (bytes → ratings, stars,
max_combo; gradual values on the regular class), all bit-exact.
-/

namespace Rosu.C02g
open Rosu.SkillOps Rosu.PipelineTaiko Rosu.DecodeLine Rosu.Gradual Rosu.TaikoSkill

section Every
variable {R : Type} [FOps R] (O : TOps R)

/-- **(counts, every arithmetic)**: whenever the pipeline answers, the file decoded as a taiko map
with its object vector, and `max_combo = min(passed_objects, number of circle lines among the
accepted object lines)` — from the raw bytes. -/
theorem taiko_pipeline_counts (A : SecArith R) (fuel : Nat) (bytes : List UInt8) (mods : Nat)
    (custom take : Option Nat) (hw : R) (mc : Nat) (sk : TaikoSkill.Skills R)
    (h : taikoSkillsOfBytes O A fuel bytes mods custom take hw = .ok (mc, sk)) :
    ∃ d objs sounds, fromBytes bytes = some d ∧ d.mode = 1 ∧ d.objects = some (objs, sounds) ∧
      mc = min ((take.getD (2 ^ 64 - 1)) % 2 ^ 32)
        ((((taikoObjects O objs sounds).map (·.kind.isHit)).filter id).length) := by
  unfold taikoSkillsOfBytes at h
  cases hb : fromBytes bytes with
  | none => rw [hb] at h; cases h
  | some d =>
    rw [hb] at h
    simp only at h
    cases hr : recordsOf O d (O.dec64 (clockRateBits mods custom)) mods with
    | ok r =>
      obtain ⟨hits, recs⟩ := r
      rw [hr] at h
      simp only at h
      unfold recordsOf at hr
      split at hr
      · cases hr
      · rename_i hmode
        cases ho : d.objects with
        | none => rw [ho] at hr; cases hr
        | some os =>
          obtain ⟨objs, sounds⟩ := os
          rw [ho] at hr
          simp only at hr
          cases hp : TaikoPre.preprocess (preArith O) (O.dec64 (clockRateBits mods custom)) (taikoObjects O objs sounds) with
          | none => rw [hp] at hr; cases hr
          | some P =>
            rw [hp] at hr
            simp only at hr
            split at hr
            · cases hr
            · simp only [Out.ok.injEq, Prod.mk.injEq] at hr
              obtain ⟨rfl, rfl⟩ := hr
              refine ⟨d, objs, sounds, rfl, by simpa using hmode, ho, ?_⟩
              unfold oneShotSkills at h
              dsimp only at h
              split at h
              · simp only [Out.ok.injEq, Prod.mk.injEq] at h
                rw [← h.1]
                exact taikoCreate_mc _ _
              · cases h
              · cases h
    | ioError => rw [hr] at h; cases h
    | notTaiko m => rw [hr] at h; cases h
    | panic => rw [hr] at h; cases h
    | fuel => rw [hr] at h; cases h

/-- **(totality of the stages that have theorems, every arithmetic)**: for every list of reader
lines of a taiko file the object vector exists (`From<BeatmapState>` cannot panic: DEC) and, for
every object list, TAIKO's preprocessing returns its structure (C05e).  The remaining `panic`
sources of the pipeline are the checked lookups of the interface `trecOfPre` and of the colour
ratio window — never observed, no theorem. -/
theorem taiko_pipeline_stages_total (ls : List Str) (hm : (decodeLines ls).mode ≠ 3)
    (clock : R) :
    (∃ o s, (finish (decodeLines ls)).objects = some (o, s)) ∧
      ∀ objs : List (TaikoPre.Obj R), ∃ P, TaikoPre.preprocess (preArith O) clock objs = some P := by
  constructor
  · have hl := Rosu.DecodeLine.decodeLines_lengths ls
    have hl' : (decodeLines ls).hs.sounds.length
        = ((decodeLines ls).hs.objects.map fun o => (Rosu.Decode.keyOfBits64 o.time, o)).length := by
      rw [hl]; simp
    obtain ⟨o, s, he, _⟩ := Rosu.C06.decode_objects_sorted_and_paired _ _ hl'
    refine ⟨o, s, ?_⟩
    simp only [finish]
    have : ((decodeLines ls).mode == 3) = false := by simpa using hm
    rw [this]
    exact he
  · intro objs
    obtain ⟨P, hP, _⟩ := Rosu.TaikoPre.preprocess_spec (preArith O) clock objs
    exact ⟨P, hP⟩

/-- **(gradual = one-shot, every arithmetic, EVERY object list)**: for every hit list — 0, 1, 2
objects, non-hit first objects, … — and one record per difficulty object, the first `H` values of
`TaikoGradualDifficulty` (`H` = number of hits) run with the CONCRETE five skills are the one-shot
results for `passed_objects = 1, …, H`: same `max_combo`, same five skill states (hence, bit for bit
in the IEEE instance, the same ratings and stars), same panic / fuel outcome.  (Since /repo ea9de37;
before the repair this needed "first two objects are hits, ≥ 3 objects".)  Every
`passed_objects ≥ H` gives the same result as `H`, so the last gradual value is the full calculation —
for every object list since the fix of the trailing drum rolls / swells (`DifficultyValues::calculate`
processes all difficulty objects once the limit reaches the number of hits, the gradual calculator
drains its iterator when it reports the last hit); before it this needed "the last object is a hit"
(the former finding `taiko-gradual-trailing-nonhit`). -/
theorem taiko_pipeline_gradual_eq_oneshot (A : SecArith R) (fuel : Nat) (hw : R)
    (hits : List Bool) (recs : List (TObj R)) (hlen : recs.length = hits.length - 2) :
    ((taikoMachine (concreteSkills5 A fuel hw false recs) hits).nexts
        (taikoNew (concreteSkills5 A fuel hw false recs) hits) (hitsIn hits)).1.map
      (fun r => match r with
        | Gradual.Res.some (mc, s) => Gradual.Res.some (mc, combine5 s)
        | Gradual.Res.none => Gradual.Res.none
        | Gradual.Res.panic => Gradual.Res.panic)
      = (List.range (hitsIn hits)).map (fun d => Gradual.Res.some (oneShotSkills A fuel hw hits recs (d + 1))) ∧
    (∀ big, hitsIn hits ≤ big →
      oneShotSkills A fuel hw hits recs (hitsIn hits) = oneShotSkills A fuel hw hits recs big) := by
  constructor
  · rw [(taiko_next_eq_prefix _ hits).1]
    simp only [List.map_map]
    apply List.map_congr_left
    intro d _
    simp only [Function.comp]
    have := taikoOneShot_concrete A fuel hw hits recs hlen (d + 1)
    rw [← this]
  · intro big hbig
    rw [← taikoOneShot_concrete A fuel hw hits recs hlen (hitsIn hits),
      ← taikoOneShot_concrete A fuel hw hits recs hlen big,
      taiko_last_eq_full _ hits big hbig]

end Every

/-- **(stars ≥ 0, ℝ, hypothesis-free)**: for EVERY byte list, mods, clock rate, `passed_objects`,
great hit window and every reading of the bit patterns: whenever the pipeline answers, the rhythm,
reading, stamina and single-colour stamina object strains and peaks are `≥ 0`, the exported colour
peaks are `≥ 0` (`StrainsVec::push`), the five difficulty values satisfy the hypothesis of the
`eval` theorems of `Props/C09c.lean`, and the star rating is `≥ 0` — whatever the weighted strain
count and the relax flag are. -/
theorem taiko_pipeline_stars_nonneg (O : TOps ℝ) (A : SecArith ℝ) (fuel : Nat) (bytes : List UInt8)
    (mods : Nat) (custom take : Option Nat) (hw : ℝ) (mc : Nat) (sk : TaikoSkill.Skills ℝ)
    (h : taikoSkillsOfBytes O A fuel bytes mods custom take hw = .ok (mc, sk)) (cnt : ℝ) (rx : Bool) :
    SkillNonneg sk.rhythm ∧ SkillNonneg sk.reading ∧ SkillNonneg sk.stamina ∧
      SkillNonneg sk.singleColorStamina ∧ (∀ p ∈ exportPeaksV sk.color, 0 ≤ p) ∧
      (let i : Rosu.PerfCalc.TaikoEvalIn ℝ :=
        ⟨difficultyValueOf sk.rhythm, difficultyValueOf sk.reading, difficultyValueOf sk.color,
          difficultyValueOf sk.stamina, difficultyValueOf sk.singleColorStamina, cnt⟩
       Rosu.PerfCalc.TaikoEvalInOK i ∧
        0 ≤ (Rosu.PerfCalc.taikoEval i (Rosu.PerfCalc.taikoCombinedRating 0 rx false
          (exportPeaksV sk.rhythm) (exportPeaksV sk.reading) (exportPeaksV sk.color)
          (exportPeaksV sk.stamina))).stars) := by
  obtain ⟨n, recs, hc⟩ := taikoSkillsOfBytes_ok O A fuel bytes mods custom take hw mc sk h
  obtain ⟨h1, h2, h3, h4⟩ := Rosu.C16d.taiko_four_skills_nonneg A fuel hw false n recs sk hc
  exact ⟨h1, h2, h3, h4, exportPeaksV_nonneg sk.color,
    Rosu.C16d.taiko_ratings_stars_nonneg sk cnt rx false _ _ _ _⟩

end Rosu.C02g
