import RosuModel.Lemmas.Attrs

/-!
# C17 — the attribute builder is self-consistent

Statements are about `Model/Attrs.lean`, the exact ℚ transcription of
`BeatmapAttributesBuilder::{hit_windows, build}` whose constants are regenerated from the source
(`Gen/AttrConsts.lean`).  `b` ranges over *all* builders: every mode, convert flag, attribute
kind, mods view and clock rate.
-/

namespace Rosu.Attrs
open Rosu.Gen

/-- every expression of `attributes.rs` the model depends on still has the transcribed shape -/
theorem gen_shape_ok : AttrConsts.shapeOk = true := by decide

/-! ## `build()` and `hit_windows()` agree -/

theorem build_uses_hit_windows (b : Builder) : b.build.hitWindows = b.hitWindows := rfl

/-- … and the AR / OD that `build` reports are the inverse images of those windows -/
theorem build_ar_od_from_windows (b : Builder) :
    b.build.ar = arOfPreempt b.hitWindows.ar ∧ b.build.od = b.odOut b.hitWindows.odGreat := ⟨rfl, rfl⟩

/-! ## round trip of `with_mods = true` values -/

theorem roundtrip_ar (b : Builder) (v : Rat) :
    ({ b with ar := .custom ⟨v, true⟩ } : Builder).build.ar = v := by
  simp only [Builder.build, Builder.hitWindows, Builder.rawAr, Builder.arClock, Kind.withMods, Kind.value,
    if_true, div_one]
  cases b.mode <;> exact arOfPreempt_range v

theorem roundtrip_od (b : Builder) (v : Rat) :
    ({ b with od := .custom ⟨v, true⟩ } : Builder).build.od = v := by
  simp only [Builder.build, Builder.hitWindows, Builder.odOut, Builder.rawOd, Builder.odClock,
    Kind.withMods, Kind.value, if_true, div_one]
  cases b.mode
  · exact osuGreatToOd_range v
  · exact taikoOd_range v
  · rfl
  · rfl

theorem roundtrip_cs (b : Builder) (v : Rat) :
    ({ b with cs := .custom ⟨v, true⟩ } : Builder).build.cs = v := by
  simp [Builder.build, Builder.csOut, Kind.withMods, Kind.value]

/-- what the code does for HP: `hp.min(10.0)` is applied even to a `with_mods = true` value -/
theorem roundtrip_hp_capped (b : Builder) (v : Rat) :
    ({ b with hp := .custom ⟨v, true⟩ } : Builder).build.hp = min v 10 := by
  simp [Builder.build, Builder.hpOut, Kind.withMods, Kind.value, rmin_eq_min, AttrConsts.hpCap]

theorem roundtrip_hp_partial (b : Builder) (v : Rat) (h : v ≤ 10) :
    ({ b with hp := .custom ⟨v, true⟩ } : Builder).build.hp = v := by
  rw [roundtrip_hp_capped]; exact min_eq_left h

/-- the unrestricted HP round trip … -/
def RoundtripHpFull : Prop :=
  ∀ (b : Builder) (v : Rat), ({ b with hp := .custom ⟨v, true⟩ } : Builder).build.hp = v

/-- … is false of the code (HP 11 is reported as 10); the property only asks for values in `[0, 10]` -/
theorem roundtrip_hp_full_fails : ¬ RoundtripHpFull := by
  intro h
  have := h default 11
  rw [roundtrip_hp_capped] at this
  norm_num at this

/-! ## hit windows shrink as OD / AR grow -/

theorem windows_antitone_in_ar (b : Builder) (w : Bool) {v1 v2 : Rat} (h : v1 ≤ v2) (hr : 0 < b.rate) :
    ({ b with ar := .custom ⟨v2, w⟩ } : Builder).hitWindows.ar ≤
      ({ b with ar := .custom ⟨v1, w⟩ } : Builder).hitWindows.ar := by
  have hpos : 0 < (if w then (1 : Rat) else b.rate) := by split <;> [norm_num; exact hr]
  rw [hw_ar, hw_ar, rawAr_setAr, rawAr_setAr, arClock_setAr, arClock_setAr]
  apply div_le_div_of_nonneg_right _ (le_of_lt hpos)
  apply difficultyRange_antitone _ sdec_AR.dec
  cases w
  · simpa using modMult_mono b.mods h
  · simpa using h

/-- the OD windows of all four modes (great, ok, meh) are antitone in the OD value -/
theorem windows_antitone_in_od (b : Builder) (w : Bool) {v1 v2 : Rat} (h : v1 ≤ v2) (hr : 0 < b.rate) :
    ({ b with od := .custom ⟨v2, w⟩ } : Builder).hitWindows.odGreat ≤
        ({ b with od := .custom ⟨v1, w⟩ } : Builder).hitWindows.odGreat ∧
    OptLe ({ b with od := .custom ⟨v2, w⟩ } : Builder).hitWindows.odOk
        ({ b with od := .custom ⟨v1, w⟩ } : Builder).hitWindows.odOk ∧
    OptLe ({ b with od := .custom ⟨v2, w⟩ } : Builder).hitWindows.odMeh
        ({ b with od := .custom ⟨v1, w⟩ } : Builder).hitWindows.odMeh := by
  have hpos : 0 < (if w then (1 : Rat) else b.rate) := by split <;> [norm_num; exact hr]
  have hraw : (if w then v1 else modMult b.mods v1) ≤ (if w then v2 else modMult b.mods v2) := by
    cases w
    · simpa using modMult_mono b.mods h
    · simpa using h
  have key : ∀ win, Dec win →
      difficultyRange (if w then v2 else modMult b.mods v2) win / (if w then (1 : Rat) else b.rate) ≤
      difficultyRange (if w then v1 else modMult b.mods v1) win / (if w then (1 : Rat) else b.rate) :=
    fun win hw => div_le_div_of_nonneg_right (difficultyRange_antitone win hw hraw) (le_of_lt hpos)
  rcases mode_cases b with hm | hm | hm | hm
  · obtain ⟨a1, a2, a3⟩ := hw_od_osu ({ b with od := .custom ⟨v1, w⟩ }) (Or.inl hm)
    obtain ⟨c1, c2, c3⟩ := hw_od_osu ({ b with od := .custom ⟨v2, w⟩ }) (Or.inl hm)
    rw [a1, a2, a3, c1, c2, c3, rawOd_setOd, rawOd_setOd, odClock_setOd, odClock_setOd]
    exact ⟨key _ sdec_OSU_GREAT.dec, key _ sdec_OSU_OK.dec, key _ sdec_OSU_MEH.dec⟩
  · obtain ⟨a1, a2, a3⟩ := hw_od_taiko ({ b with od := .custom ⟨v1, w⟩ }) hm
    obtain ⟨c1, c2, c3⟩ := hw_od_taiko ({ b with od := .custom ⟨v2, w⟩ }) hm
    rw [a1, a2, a3, c1, c2, c3, rawOd_setOd, rawOd_setOd, odClock_setOd, odClock_setOd]
    exact ⟨key _ sdec_TAIKO_GREAT.dec, key _ sdec_TAIKO_OK.dec, trivial⟩
  · obtain ⟨a1, a2, a3⟩ := hw_od_osu ({ b with od := .custom ⟨v1, w⟩ }) (Or.inr hm)
    obtain ⟨c1, c2, c3⟩ := hw_od_osu ({ b with od := .custom ⟨v2, w⟩ }) (Or.inr hm)
    rw [a1, a2, a3, c1, c2, c3, rawOd_setOd, rawOd_setOd, odClock_setOd, odClock_setOd]
    exact ⟨key _ sdec_OSU_GREAT.dec, key _ sdec_OSU_OK.dec, key _ sdec_OSU_MEH.dec⟩
  · obtain ⟨a1, a2, a3⟩ := hw_od_mania ({ b with od := .custom ⟨v1, w⟩ }) hm
    obtain ⟨c1, c2, c3⟩ := hw_od_mania ({ b with od := .custom ⟨v2, w⟩ }) hm
    rw [a1, a2, a3, c1, c2, c3, odClock_setOd, odClock_setOd]
    exact ⟨maniaGreat_mono hpos (maniaValue_antitone' b w h), trivial, trivial⟩

/-- strict version for the windows that are not capped: `with_mods = true`, or no HardRock
(HR multiplies by 1.4 and caps at 10, so values above 10/1.4 all give the same window) -/
theorem windows_strict_anti_in_od (b : Builder) (w : Bool) {v1 v2 : Rat} (h : v1 < v2) (hr : 0 < b.rate)
    (hmode : b.mode ≠ .mania) (hcap : w = true ∨ b.mods.hr = false) :
    ({ b with od := .custom ⟨v2, w⟩ } : Builder).hitWindows.odGreat <
      ({ b with od := .custom ⟨v1, w⟩ } : Builder).hitWindows.odGreat := by
  have hpos : 0 < (if w then (1 : Rat) else b.rate) := by split <;> [norm_num; exact hr]
  have hraw : (if w then v1 else modMult b.mods v1) < (if w then v2 else modMult b.mods v2) := by
    rcases hcap with hw | hh
    · subst hw; simpa using h
    · cases w
      · simpa using modMult_strictMono b.mods hh h
      · simpa using h
  have key : ∀ win, SDec win →
      difficultyRange (if w then v2 else modMult b.mods v2) win / (if w then (1 : Rat) else b.rate) <
      difficultyRange (if w then v1 else modMult b.mods v1) win / (if w then (1 : Rat) else b.rate) :=
    fun win hw => div_lt_div_of_pos_right (difficultyRange_strictAnti win hw hraw) hpos
  rcases mode_cases b with hm | hm | hm | hm
  · rw [(hw_od_osu ({ b with od := .custom ⟨v1, w⟩ }) (Or.inl hm)).1,
      (hw_od_osu ({ b with od := .custom ⟨v2, w⟩ }) (Or.inl hm)).1,
      rawOd_setOd, rawOd_setOd, odClock_setOd, odClock_setOd]
    exact key _ sdec_OSU_GREAT
  · rw [(hw_od_taiko ({ b with od := .custom ⟨v1, w⟩ }) hm).1,
      (hw_od_taiko ({ b with od := .custom ⟨v2, w⟩ }) hm).1,
      rawOd_setOd, rawOd_setOd, odClock_setOd, odClock_setOd]
    exact key _ sdec_TAIKO_GREAT
  · rw [(hw_od_osu ({ b with od := .custom ⟨v1, w⟩ }) (Or.inr hm)).1,
      (hw_od_osu ({ b with od := .custom ⟨v2, w⟩ }) (Or.inr hm)).1,
      rawOd_setOd, rawOd_setOd, odClock_setOd, odClock_setOd]
    exact key _ sdec_OSU_GREAT
  · exact absurd hm hmode

theorem windows_strict_anti_in_ar (b : Builder) (w : Bool) {v1 v2 : Rat} (h : v1 < v2) (hr : 0 < b.rate)
    (hcap : w = true ∨ b.mods.hr = false) :
    ({ b with ar := .custom ⟨v2, w⟩ } : Builder).hitWindows.ar <
      ({ b with ar := .custom ⟨v1, w⟩ } : Builder).hitWindows.ar := by
  have hpos : 0 < (if w then (1 : Rat) else b.rate) := by split <;> [norm_num; exact hr]
  rw [hw_ar, hw_ar, rawAr_setAr, rawAr_setAr, arClock_setAr, arClock_setAr]
  apply div_lt_div_of_pos_right _ hpos
  apply difficultyRange_strictAnti _ sdec_AR
  rcases hcap with hw | hh
  · subst hw; simpa using h
  · cases w
    · simpa using modMult_strictMono b.mods hh h
    · simpa using h

/-! ## windows scale inversely with the clock rate -/

/-- AR window: `window(rate r) = window(rate 1) / r` (for a value that is subject to mods) -/
theorem window_scales_inverse_clock_ar (b : Builder) (r : Rat) (hw : b.ar.withMods = false) :
    ({ b with clockRate := some r } : Builder).hitWindows.ar =
      ({ b with clockRate := some 1 } : Builder).hitWindows.ar / r := by
  rw [hw_ar, hw_ar]
  simp [Builder.arClock, Builder.rawAr, Builder.rate, hw]

/-- OD windows of osu!, taiko and catch: `window(rate r) = window(rate 1) / r` -/
theorem window_scales_inverse_clock_od (b : Builder) (r : Rat) (hw : b.od.withMods = false)
    (hmode : b.mode ≠ .mania) :
    ({ b with clockRate := some r } : Builder).hitWindows.odGreat =
        ({ b with clockRate := some 1 } : Builder).hitWindows.odGreat / r ∧
    ({ b with clockRate := some r } : Builder).hitWindows.odOk =
        (({ b with clockRate := some 1 } : Builder).hitWindows.odOk).map (· / r) ∧
    ({ b with clockRate := some r } : Builder).hitWindows.odMeh =
        (({ b with clockRate := some 1 } : Builder).hitWindows.odMeh).map (· / r) := by
  rcases mode_cases b with hm | hm | hm | hm
  · obtain ⟨a1, a2, a3⟩ := hw_od_osu ({ b with clockRate := some r }) (Or.inl hm)
    obtain ⟨c1, c2, c3⟩ := hw_od_osu ({ b with clockRate := some 1 }) (Or.inl hm)
    rw [a1, a2, a3, c1, c2, c3]
    simp [Builder.odClock, Builder.rawOd, Builder.rate, hw]
  · obtain ⟨a1, a2, a3⟩ := hw_od_taiko ({ b with clockRate := some r }) hm
    obtain ⟨c1, c2, c3⟩ := hw_od_taiko ({ b with clockRate := some 1 }) hm
    rw [a1, a2, a3, c1, c2, c3]
    simp [Builder.odClock, Builder.rawOd, Builder.rate, hw]
  · obtain ⟨a1, a2, a3⟩ := hw_od_osu ({ b with clockRate := some r }) (Or.inr hm)
    obtain ⟨c1, c2, c3⟩ := hw_od_osu ({ b with clockRate := some 1 }) (Or.inr hm)
    rw [a1, a2, a3, c1, c2, c3]
    simp [Builder.odClock, Builder.rawOd, Builder.rate, hw]
  · exact absurd hm hmode

/-- a `with_mods = true` value is immune to the clock rate -/
theorem with_mods_windows_ignore_clock (b : Builder) (r1 r2 : Option Rat)
    (ha : b.ar.withMods = true) (ho : b.od.withMods = true) :
    ({ b with clockRate := r1 } : Builder).hitWindows = ({ b with clockRate := r2 } : Builder).hitWindows := by
  rcases mode_cases b with hm | hm | hm | hm <;>
    simp [Builder.hitWindows, hm, Builder.arClock, Builder.odClock, Builder.rawAr, Builder.rawOd,
      Builder.maniaValue, ha, ho]

/-- mania's great window is rate-compensated on purpose (`ceil(floor(v·r)/r)`, as in lazer): it does
*not* scale with `1/r`; what holds is that it stays within `(v − 1/r, v + 1)` of the unscaled
value `v`, and it is integral. -/
theorem mania_window_rate_compensated (b : Builder) (r : Rat) (hm : b.mode = .mania) (hr : 0 < r)
    (hw : b.od.withMods = false) :
    b.maniaValue - 1 / r < ({ b with clockRate := some r } : Builder).hitWindows.odGreat ∧
    ({ b with clockRate := some r } : Builder).hitWindows.odGreat < b.maniaValue + 1 ∧
    ∃ n : Int, ({ b with clockRate := some r } : Builder).hitWindows.odGreat = n := by
  rw [(hw_od_mania ({ b with clockRate := some r }) hm).1]
  have e1 : ({ b with clockRate := some r } : Builder).odClock = r := by simp [Builder.odClock, Builder.rate, hw]
  have e2 : ({ b with clockRate := some r } : Builder).maniaValue = b.maniaValue := rfl
  rw [e1, e2]
  exact ⟨(maniaGreat_bounds _ r hr).1, (maniaGreat_bounds _ r hr).2, ⟨_, rfl⟩⟩

/-! ## HR never easier, EZ never harder than no mod (values in `[0, 10]`) -/

/-- AR: reported value and window.  `mH`, `mE` are the `od_ar_hp_multiplier()` of the two views
(irrelevant for AR). -/
theorem hr_ge_nomod_ge_ez_ar (b : Builder) (mH mE : Rat) (hr : 0 < b.rate)
    (h0 : 0 ≤ b.ar.value b.mods.ar) (h10 : b.ar.value b.mods.ar ≤ 10) :
    (b.withHrEz false true mE).build.ar ≤ (b.withHrEz false false 1).build.ar ∧
    (b.withHrEz false false 1).build.ar ≤ (b.withHrEz true false mH).build.ar ∧
    (b.withHrEz true false mH).hitWindows.ar ≤ (b.withHrEz false false 1).hitWindows.ar ∧
    (b.withHrEz false false 1).hitWindows.ar ≤ (b.withHrEz false true mE).hitWindows.ar := by
  obtain ⟨hE, hH⟩ := rawAr_order b mH mE h0 h10
  have hpos := arClock_pos b hr
  have w1 : (b.withHrEz true false mH).hitWindows.ar ≤ (b.withHrEz false false 1).hitWindows.ar := by
    rw [hw_ar, hw_ar, arClock_withHrEz, arClock_withHrEz]
    exact div_le_div_of_nonneg_right (difficultyRange_antitone _ sdec_AR.dec hH) (le_of_lt hpos)
  have w2 : (b.withHrEz false false 1).hitWindows.ar ≤ (b.withHrEz false true mE).hitWindows.ar := by
    rw [hw_ar, hw_ar, arClock_withHrEz, arClock_withHrEz]
    exact div_le_div_of_nonneg_right (difficultyRange_antitone _ sdec_AR.dec hE) (le_of_lt hpos)
  exact ⟨arOfPreempt_antitone w2, arOfPreempt_antitone w1, w1, w2⟩

/-- OD windows (all modes) -/
theorem hr_ge_nomod_ge_ez_od_windows (b : Builder) (mH mE : Rat) (hr : 0 < b.rate)
    (h0 : 0 ≤ b.od.value b.mods.od) (h10 : b.od.value b.mods.od ≤ 10) :
    (b.withHrEz true false mH).hitWindows.odGreat ≤ (b.withHrEz false false 1).hitWindows.odGreat ∧
    (b.withHrEz false false 1).hitWindows.odGreat ≤ (b.withHrEz false true mE).hitWindows.odGreat ∧
    OptLe (b.withHrEz true false mH).hitWindows.odOk (b.withHrEz false false 1).hitWindows.odOk ∧
    OptLe (b.withHrEz false false 1).hitWindows.odOk (b.withHrEz false true mE).hitWindows.odOk ∧
    OptLe (b.withHrEz true false mH).hitWindows.odMeh (b.withHrEz false false 1).hitWindows.odMeh ∧
    OptLe (b.withHrEz false false 1).hitWindows.odMeh (b.withHrEz false true mE).hitWindows.odMeh := by
  obtain ⟨hE, hH⟩ := rawOd_order b mH mE h0 h10
  have hpos := odClock_pos b hr
  have kH : ∀ win, Dec win →
      difficultyRange (b.withHrEz true false mH).rawOd win / b.odClock ≤
      difficultyRange (b.withHrEz false false 1).rawOd win / b.odClock :=
    fun win hw => div_le_div_of_nonneg_right (difficultyRange_antitone win hw hH) (le_of_lt hpos)
  have kE : ∀ win, Dec win →
      difficultyRange (b.withHrEz false false 1).rawOd win / b.odClock ≤
      difficultyRange (b.withHrEz false true mE).rawOd win / b.odClock :=
    fun win hw => div_le_div_of_nonneg_right (difficultyRange_antitone win hw hE) (le_of_lt hpos)
  rcases mode_cases b with hm | hm | hm | hm
  · obtain ⟨a1, a2, a3⟩ := hw_od_osu (b.withHrEz true false mH) (Or.inl hm)
    obtain ⟨c1, c2, c3⟩ := hw_od_osu (b.withHrEz false false 1) (Or.inl hm)
    obtain ⟨e1, e2, e3⟩ := hw_od_osu (b.withHrEz false true mE) (Or.inl hm)
    rw [a1, a2, a3, c1, c2, c3, e1, e2, e3]
    simp only [odClock_withHrEz]
    exact ⟨kH _ sdec_OSU_GREAT.dec, kE _ sdec_OSU_GREAT.dec, kH _ sdec_OSU_OK.dec, kE _ sdec_OSU_OK.dec,
      kH _ sdec_OSU_MEH.dec, kE _ sdec_OSU_MEH.dec⟩
  · obtain ⟨a1, a2, a3⟩ := hw_od_taiko (b.withHrEz true false mH) hm
    obtain ⟨c1, c2, c3⟩ := hw_od_taiko (b.withHrEz false false 1) hm
    obtain ⟨e1, e2, e3⟩ := hw_od_taiko (b.withHrEz false true mE) hm
    rw [a1, a2, a3, c1, c2, c3, e1, e2, e3]
    simp only [odClock_withHrEz]
    exact ⟨kH _ sdec_TAIKO_GREAT.dec, kE _ sdec_TAIKO_GREAT.dec, kH _ sdec_TAIKO_OK.dec, kE _ sdec_TAIKO_OK.dec,
      trivial, trivial⟩
  · obtain ⟨a1, a2, a3⟩ := hw_od_osu (b.withHrEz true false mH) (Or.inr hm)
    obtain ⟨c1, c2, c3⟩ := hw_od_osu (b.withHrEz false false 1) (Or.inr hm)
    obtain ⟨e1, e2, e3⟩ := hw_od_osu (b.withHrEz false true mE) (Or.inr hm)
    rw [a1, a2, a3, c1, c2, c3, e1, e2, e3]
    simp only [odClock_withHrEz]
    exact ⟨kH _ sdec_OSU_GREAT.dec, kE _ sdec_OSU_GREAT.dec, kH _ sdec_OSU_OK.dec, kE _ sdec_OSU_OK.dec,
      kH _ sdec_OSU_MEH.dec, kE _ sdec_OSU_MEH.dec⟩
  · obtain ⟨a1, a2, a3⟩ := hw_od_mania (b.withHrEz true false mH) hm
    obtain ⟨c1, c2, c3⟩ := hw_od_mania (b.withHrEz false false 1) hm
    obtain ⟨e1, e2, e3⟩ := hw_od_mania (b.withHrEz false true mE) hm
    rw [a1, a2, a3, c1, c2, c3, e1, e2, e3]
    simp only [odClock_withHrEz, maniaValue_withHrEz]
    obtain ⟨o1, o2⟩ := maniaScale_order b.od.withMods (maniaV0_pos b.isConvert (b.od.value b.mods.od))
    exact ⟨maniaGreat_mono hpos o1, maniaGreat_mono hpos o2, trivial, trivial, trivial, trivial⟩

/-- reported OD: derived from the great window for osu!/taiko, the raw value for catch/mania -/
theorem hr_ge_nomod_ge_ez_od (b : Builder) (mH mE : Rat) (hr : 0 < b.rate)
    (h0 : 0 ≤ b.od.value b.mods.od) (h10 : b.od.value b.mods.od ≤ 10) :
    (b.withHrEz false true mE).build.od ≤ (b.withHrEz false false 1).build.od ∧
    (b.withHrEz false false 1).build.od ≤ (b.withHrEz true false mH).build.od := by
  obtain ⟨g1, g2, -⟩ := hr_ge_nomod_ge_ez_od_windows b mH mE hr h0 h10
  rcases mode_cases b with hm | hm | hm | hm
  · simp only [Builder.build, Builder.odOut, mode_withHrEz, hm]
    exact ⟨osuGreatToOd_antitone g2, osuGreatToOd_antitone g1⟩
  · simp only [Builder.build, Builder.odOut, mode_withHrEz, hm, AttrConsts.TAIKO_GREAT]
    constructor <;> linarith
  · simp only [Builder.build, Builder.odOut, mode_withHrEz, hm]
    exact ⟨le_rfl, le_rfl⟩
  · simp only [Builder.build, Builder.odOut, mode_withHrEz, hm]
    exact ⟨le_rfl, le_rfl⟩

theorem hr_ge_nomod_ge_ez_cs (b : Builder) (mH mE : Rat)
    (h0 : 0 ≤ b.cs.value b.mods.cs) (h10 : b.cs.value b.mods.cs ≤ 10) :
    (b.withHrEz false true mE).build.cs ≤ (b.withHrEz false false 1).build.cs ∧
    (b.withHrEz false false 1).build.cs ≤ (b.withHrEz true false mH).build.cs := by
  simp only [Builder.build, Builder.csOut, Builder.withHrEz, ModsView.withHrEz, rmin_eq_min,
    AttrConsts.csHrMult, AttrConsts.csHrCap, AttrConsts.csEzMult]
  cases b.cs.withMods
  · simp only [Bool.not_false, if_true, Bool.false_eq_true, if_false]
    exact ⟨by linarith, le_min (by linarith) h10⟩
  · simp

/-- HP, given the multipliers of the three views satisfy `mE ≤ 1 ≤ mH`, `0 ≤ mE`
(`od_ar_hp_multiplier()` is 1.4 / 1.0 / 0.5: theorem `C08.mult_values`) -/
theorem hr_ge_nomod_ge_ez_hp (b : Builder) (mH mE : Rat) (hH : 1 ≤ mH) (hE : mE ≤ 1)
    (h0 : 0 ≤ b.hp.value b.mods.hp) :
    (b.withHrEz false true mE).build.hp ≤ (b.withHrEz false false 1).build.hp ∧
    (b.withHrEz false false 1).build.hp ≤ (b.withHrEz true false mH).build.hp := by
  simp only [Builder.build, Builder.hpOut, Builder.withHrEz, ModsView.withHrEz, rmin_eq_min, AttrConsts.hpCap]
  by_cases hw : b.hp.withMods = true
  · simp [hw]
  · simp only [Bool.not_eq_true] at hw
    simp only [hw, Bool.not_false, if_true]
    exact ⟨min_le_min (by nlinarith) le_rfl, min_le_min (by nlinarith) le_rfl⟩

/-! ## non-vacuity -/

/-- the hypotheses used above are satisfiable: the default builder at rate 3/2, OD 8 vs 9 -/
example : (0 : Rat) < ({ (default : Builder) with clockRate := some (3 / 2) }).rate := by
  simp [Builder.rate]

/-- and the statements are not trivially true: OD 8 → 9 really shrinks the great window (DT) -/
example :
    ({ (default : Builder) with clockRate := some (3 / 2), od := .custom ⟨9, false⟩ }).hitWindows.odGreat <
    ({ (default : Builder) with clockRate := some (3 / 2), od := .custom ⟨8, false⟩ }).hitWindows.odGreat := by
  decide +kernel

end Rosu.Attrs
