import RosuModel.Lemmas.DecodeBytes
import RosuModel.Props.C06b
import RosuModel.Lemmas.DecodeLineCurve
import RosuModel.Lemmas.DecodeLineNum
import RosuModel.Lemmas.DecodeLineFields
import RosuModel.Gen.DecodeKeys

/-!
# C06 (byte level) — rosu-map's reader under `from_bytes` / `from_str` / `from_path`

`Model/DecodeBytes.lean` is a total function from the bytes of a file to the lines the parsers see
(`readBytes`) and on to the decoded map (`fromBytes : List UInt8 → Option Decoded`, `none` =
`Err(io::Error)`).  `from_bytes`, `from_str` and `from_path` all run this one function on the same
bytes (`Cursor` / `BufReader<File>` differ only in how `fill_buf` chunks them).
-/

namespace Rosu.C06c
open Rosu.DecodeLine

/-- Decoding any byte sequence is total in the model by construction; the ONLY failure is the
`io::Error` of `read_exact` after a `0x0A` at the very end of a UTF-16LE file: every other input
(any bytes, any encoding, invalid UTF-8, odd lengths, lone surrogates) decodes. -/
theorem reader_fails_only_for_utf16le (b : Bytes) (h : fromNatBytes b = none) :
    (fromBom (afterShortRead b)).1 = .utf16le := by
  unfold fromNatBytes at h
  cases hr : readBytes b with
  | none => exact readBytes_none b hr
  | some l => rw [hr] at h; cases h

/-- witness (replayed on the real code as `dbytes-fixed` cases): `FF FE 0A` is an `io::Error`,
`FF FE 0A 00` is an empty map -/
theorem utf16le_trailing_newline_byte_is_an_io_error :
    fromBytes [0xFF, 0xFE, 0x0A] = none ∧ (fromBytes [0xFF, 0xFE, 0x0A, 0x00]).isSome = true := by
  decide

/-- For every string of scalar values whose UTF-8 encoding has at least three bytes and does not
start with a byte-order mark, decoding the bytes is decoding the string: the reader yields exactly
the (right-trimmed) lines of the string, so `from_bytes(s.as_bytes())` is the map the line-level
model assigns to `s`. -/
theorem utf8_bytes_decode_as_the_string (s : List Nat) (hs : ∀ c ∈ s, isScalar c)
    (h3 : 3 ≤ (encodeStr s).length) (hb : fromBom (encodeStr s) = (.utf8, encodeStr s)) :
    readBytes (encodeStr s) = some (strLines s) ∧
      fromNatBytes (encodeStr s) = some (fromStrModel s) := by
  have h := readBytes_encodeStr s hs h3 hb
  exact ⟨h, by unfold fromNatBytes fromStrModel; rw [h]; rfl⟩

/-- `encodeStr` is UTF-8: a sample covering all four widths (`a é 上 😀 \n`); the DBYTES lines
compare the decoder with Rust's own `as_bytes()` output -/
example : encodeStr [0x61, 0xE9, 0x4E0A, 0x1F600, 10] =
    [0x61, 0xC3, 0xA9, 0xE4, 0xB8, 0x8A, 0xF0, 0x9F, 0x98, 0x80, 0x0A] := by decide

/-- UTF-8 decoding inverts encoding for every string of scalar values -/
theorem utf8_decode_encode (s : List Nat) (hs : ∀ c ∈ s, isScalar c) : decodeUtf8 (encodeStr s) = s :=
  decodeUtf8_encodeStr s hs

/-- A UTF-8 byte-order mark is transparent: `EF BB BF ++ body` reads as `body` (for a body of at
least three bytes that does not itself start with a BOM). -/
theorem utf8_bom_is_transparent (body : Bytes) (h3 : 3 ≤ body.length)
    (hb : fromBom body = (.utf8, body)) :
    readBytes (0xEF :: 0xBB :: 0xBF :: body) = readBytes body := by
  unfold readBytes afterShortRead
  rw [if_neg (by simp), if_neg (by omega), hb]
  rfl

/-- `Decoder::read_bom` consumes a chunk shorter than three bytes: a file of one or two bytes is read
as the empty file — by `from_bytes`, `from_str` and `from_path` alike (same code, same bytes), so the
three entry points still agree. -/
theorem short_file_is_lost (b : Bytes) (h : b.length < 3) : readBytes b = some [] := by
  unfold readBytes afterShortRead
  rw [if_pos h]
  rfl

/-- witness: the two bytes `ab` are one line for the string reading, none for the reader; but with a
BOM in front (five bytes) the line is there -/
example : strLines [0x61, 0x62] = ["ab".toList] ∧ readBytes [0x61, 0x62] = some [] ∧
    readBytes [0xEF, 0xBB, 0xBF, 0x61, 0x62] = some ["ab".toList] := by decide

/-- Lines end at every `0x0A` BYTE, also inside a UTF-16 code unit: `上` (U+4E0A) splits its line in
both UTF-16 encodings (witness, replayed as a `dbytes-fixed` case).  UTF-8 is unaffected
(`utf8_bytes_decode_as_the_string`). -/
theorem utf16_newline_byte_inside_a_code_unit :
    readBytes [0xFE, 0xFF, 0x00, 0x61, 0x4E, 0x0A, 0x00, 0x62] = some ["a上".toList, "b".toList] ∧
    readBytes [0xFF, 0xFE, 0x61, 0x00, 0x0A, 0x4E, 0x62, 0x00] = some ["a上".toList, "b".toList] := by
  decide

/-! ## the regular tables, regenerated from /repo on every run (`Gen/DecodeKeys.lean`) -/

/-- every arm of `match key` in `parse_difficulty` (key, field, parser, the two approach-rate
side effects) and the `KeyValue::parse(line.trim_comment())` prelude are the table that drives the
model's `parseDifficulty` -/
theorem difficulty_arms_match_source :
    Gen.DecodeKeys.difficultyArms.map (fun t => (t.1.toList, t.2.1.toList, t.2.2)) =
      difficultyArms.map (fun a => (a.key.toList, a.field.fieldName.toList, a.f64, a.arFollows, a.setsHasAr)) ∧
    Gen.DecodeKeys.difficultyPreludeOk = true := by decide

/-- the arms of `parse_general`, its `_ => {}` wildcard and prelude -/
theorem general_arms_match_source :
    Gen.DecodeKeys.generalArms.map (fun t => (t.1.toList, t.2.1.toList, t.2.2.toList)) =
      generalArms.map (fun a => (a.key.toList, a.field.fieldName.toList, a.parser.toList)) ∧
    Gen.DecodeKeys.generalWildcardNoop = true ∧ Gen.DecodeKeys.generalPreludeOk = true := by decide

/-- the `parse_*` methods whose body is just `Ok(())` are exactly the model's no-op sections -/
theorem noop_parsers_match_source :
    Gen.DecodeKeys.noopParsers.map String.toList =
      (allSecs.filter Sec.isNoop).map (fun s => s.parserName.toList) := by decide

/-- the repeat cap, `MAX_COORDINATE_VALUE` (as the f64 / f32 limits of the model) and the order of
the `has_flag` tests (`parseKind` tests circle, slider, spinner, hold in this order) -/
theorem hit_object_constants_match_source :
    (Gen.DecodeKeys.repeatCap : Int) = repeatCap ∧
    F64.ofBin false Gen.DecodeKeys.maxCoordinateValue 0 = maxCoord64 ∧
    F32.ofBin false Gen.DecodeKeys.maxCoordinateValue 0 = maxCoord32 ∧
    Gen.DecodeKeys.flagOrder.map String.toList =
      ["CIRCLE", "SLIDER", "SPINNER", "HOLD"].map String.toList := by decide

/-! ## (d) the general append law and the non-empty path -/

/-- Whatever is already in `curve_points` — in particular the stale points a rejected slider line
left behind — stays in front, untouched, of the points the conversion itself produces; result and
error kind do not depend on the old content. -/
theorem stale_points_are_a_prefix (stale curve : List CP) (s : Str) (ox oy : Int) :
    convertPathStr (stale ++ curve) s ox oy =
      (stale ++ (convertPathStr curve s ox oy).1, (convertPathStr curve s ox oy).2) :=
  convertPathStr_append stale curve s ox oy

/-- Every successful `convert_path_str` leaves at least one control point, so every accepted slider
has a non-empty `control_points` (part of `KindOK` in `C06b.accepted_hit_object_fields`). -/
theorem accepted_path_has_a_control_point (curve : List CP) (s : Str) (ox oy : Int)
    (h : (convertPathStr curve s ox oy).2 = .ok ()) : (convertPathStr curve s ox oy).1 ≠ [] :=
  convertPathStr_ok_ne_nil curve s ox oy h

/-- (c) every path point `read_point` accepts has, before the slider position is subtracted, both
coordinates in `[-131072, 131072]` (so the stored offsets are integral with magnitude `≤ 2^18`, exactly
representable in `f32`). -/
theorem path_point_in_range (v : Str) (ox oy : Int) (c : CP) (h : readPoint v ox oy = .ok c) :
    (-131072 ≤ c.x + ox ∧ c.x + ox ≤ 131072) ∧ (-131072 ≤ c.y + oy ∧ c.y + oy ≤ 131072) :=
  readPoint_bound v ox oy c h

/-- (c) derived fields: a spinner duration is never NaN and never negative, a hold duration is never
NaN (IEEE `-` of two finite values, then `max`): both are part of `KindOK` in
`C06b.accepted_hit_object_fields`; `bpm_multiplier` is `1.0` or a quotient, never NaN. -/
theorem bpm_multiplier_is_not_nan (beatLen speed : Nat) :
    F64.isNaN (difficultyVal beatLen speed).2.1 = false := bpm_multiplier_not_nan beatLen speed

/-- (c) a pushed break has a finite start with `|t| ≤ MAX_PARSE_VALUE` and an end that is not NaN
and not before the start. -/
theorem accepted_break_fields (line : Str) (st en : Nat) (h : parseEvent line = .ok (some (st, en))) :
    F64.mag st ≤ maxParse64 ∧ F64.isFinite st = true ∧ F64.isNaN en = false ∧ F64.num st ≤ F64.num en :=
  parseEvent_ok line st en h

end Rosu.C06c
