import RosuModel.Lemmas.SliderEventsRat

/-!
# C05 (nested objects) — termination and resource bounds of nested-object generation

The three loops of nested-object generation — the tick loop of rosu-map's `generate_ticks` and the
halving / tiny-droplet loops of `JuiceStream::new` — have NO no-progress guard.  What can be proved:

* over exact rationals they terminate with explicit iteration bounds: ticks per span
  `≤ ⌊min(total_dist, MAX_LEN) / tick_dist⌋`, hence at most `span_count · (that + 1) + 3` events per
  slider; tiny droplets per gap `= 2^j − 1 ≤ since / 50`, and because `since_last_tick` comes out of
  an `i32` subtraction, never more than `2^25 − 1` per gap and 25 halvings;
* over ANY arithmetic whose comparison respects a rank into ℕ that the loop's addition (halving)
  strictly increases (decreases): termination within `R + 2 − rank` iterations;
* "terminates in every arithmetic" is FALSE: under an absorbing addition both additive loops spin
  (counter-models below).  For `f64` absorption needs `tick_dist < ulp(d)/2`, i.e. more than `2^52`
  iterations first — the practical failure is the iteration count itself, which the bounds expose:
  it is proportional to `len / tick_dist` resp. to the slider's duration, neither of which
  `check_suspicion` limits (known finding `resource-proportional-work`).
* `SliderEventsIter::new` panics (the `f64::clamp` assertion) exactly when `total_dist < 0`; the
  `i32` subtraction of `JuiceStream::new` overflows only when the two event times are more than
  `2^31 − 1` ms apart after saturation (both inside `[−2^30, 2^30]` is safe).
-/

namespace Rosu.SliderEvents

open Rosu.Gradual (CatchEvent)

variable {F : Type}

/-! ## the tick loop -/

/-- Over ℚ the tick loop of one span terminates within `⌊len / tick_dist⌋ + 1` iterations and
pushes at most `⌊len / tick_dist⌋` ticks. -/
theorem tick_loop_bound_exact (it : Iter Rat) (fuel : Nat)
    (hf : (it.len / it.tickDist).floor.toNat + 1 ≤ fuel) :
    ∃ ds, spanTickDists ratArith it fuel = some ds ∧
      ds.length ≤ (it.len / it.tickDist).floor.toNat :=
  spanTickDists_rat it fuel hf

/-- `SliderEventsIter::new` over ℚ: panics iff `total_dist < 0`, else `len = min(MAX_LEN, total)`
and `tick_dist` is clamped into `[0, len]`. -/
theorem iter_new_exact (start spanDur velocity tickDist totalDist : Rat) (n : Nat) :
    Iter.new ratArith start spanDur velocity tickDist totalDist n =
      if 0 ≤ totalDist then
        some { start := start, spanDur := spanDur, minDistFromEnd := velocity * 10,
               tickDist := min (max tickDist 0) (min 100000 totalDist),
               len := min 100000 totalDist, spanCount := n }
      else none :=
  Iter.new_rat start spanDur velocity tickDist totalDist n

/-- **Event budget over ℚ.** For every parameter tuple with `total_dist ≥ 0` the iterator
terminates and yields at most `span_count · (N + 1) + 3` events, `N = ⌊len / tick_dist⌋` with
`len = min(total_dist, 100 000)` and the clamped `tick_dist` (`N = 0` when that is `0`). -/
theorem slider_events_total_bound (start spanDur velocity tickDist totalDist : Rat) (n fuel : Nat)
    (h0 : 0 ≤ totalDist)
    (hf : (min 100000 totalDist / min (max tickDist 0) (min 100000 totalDist)).floor.toNat + 1 ≤ fuel) :
    ∃ l, sliderEvents ratArith fuel start spanDur velocity tickDist totalDist n = .ok l ∧
      l.length ≤ n * ((min 100000 totalDist / min (max tickDist 0) (min 100000 totalDist)).floor.toNat + 1) + 3 := by
  have key : ∀ it : Iter Rat, it.len = min 100000 totalDist →
      it.tickDist = min (max tickDist 0) (min 100000 totalDist) → it.spanCount = n →
      ∃ l, it.events ratArith fuel = some l ∧
        l.length ≤ n * ((min 100000 totalDist / min (max tickDist 0) (min 100000 totalDist)).floor.toNat + 1) + 3 := by
    intro it hlen htd hn
    rw [← htd, ← hlen] at hf ⊢
    obtain ⟨ds, hds, hlen'⟩ := spanTickDists_rat it fuel hf
    have hev := events_eq ratArith it fuel ds hds
    refine ⟨_, hev, ?_⟩
    have := events_length ratArith it fuel _ hev
    rw [this, hn]
    have hk : ticksPerSpan ratArith it fuel = ds.length := by unfold ticksPerSpan; rw [hds]
    rw [hk]
    have : n * ds.length ≤ n * (it.len / it.tickDist).floor.toNat := Nat.mul_le_mul_left n hlen'
    rw [Nat.mul_add, Nat.mul_one]
    omega
  unfold sliderEvents
  rw [Iter.new_rat, if_pos h0]
  obtain ⟨l, hl, hb⟩ := key ⟨start, spanDur, velocity * 10,
    min (max tickDist 0) (min 100000 totalDist), min 100000 totalDist, n⟩ rfl rfl rfl
  simp only [hl]
  exact ⟨l, rfl, hb⟩

/-- Termination of the tick loop in any arithmetic with a compatible rank. -/
theorem tick_loop_terminates_of_rank (A : Arith F) (it : Iter F) (rank : F → Nat) (R : Nat)
    (hbound : ∀ d, A.le d it.len = true → rank d ≤ R)
    (hprog : ∀ d, A.le d it.len = true → rank d < rank (A.add d it.tickDist)) (d : F) :
    (tickDists A it (R + 2 - rank d + 1) d).isSome = true :=
  tickDists_terminates_of_rank A it rank R hbound hprog _ d (by omega) (by omega)

/-- "The tick loop terminates whenever `tick_dist > 0`, in every arithmetic." -/
def TickLoopAlwaysTerminates : Prop :=
  ∀ (A : Arith Nat) (it : Iter Nat), A.lt (A.ofInt 0) it.tickDist = true →
    ∃ fuel, (tickDists A it fuel it.tickDist).isSome = true

/-- It does not: with an absorbing addition (`d + tick_dist = d`) the loop spins. -/
theorem tick_loop_can_spin : ¬ TickLoopAlwaysTerminates := by
  intro h
  obtain ⟨fuel, hf⟩ := h absorbingArith
    { start := 0, spanDur := 100, minDistFromEnd := 0, tickDist := 1, len := 10, spanCount := 1 }
    (by decide)
  rw [tickDists_spins_under_absorption fuel] at hf
  exact absurd hf (by simp)

/-! ## the tiny-droplet loops of `JuiceStream::new` -/

/-- Over ℚ, for an integer `since_last_tick = s ≤ 100·2^f`: at most `f` halvings, exactly
`2^j − 1` tiny droplets, and `50 · droplets ≤ max(s, 0)` (at most one per 50 ms). -/
theorem tiny_droplets_exact (s : Int) (f fuel : Nat) (hs : (s : Rat) ≤ 100 * 2 ^ f)
    (hf : 2 ^ f + f + 1 ≤ fuel) :
    ∃ j, j ≤ f ∧ tinyDroplets ratArith fuel (s : Rat) = some (2 ^ j - 1) ∧
      ((2 ^ j - 1 : Nat) : Rat) * 50 ≤ max (s : Rat) 0 :=
  tinyDroplets_rat s f fuel hs hf

/-- The `since_last_tick > 80.0` guard is redundant up to 100: for every `since ≤ 100` the loops
produce no tiny droplet anyway (found by a mutation that moved the constant to 100 and changed
nothing). Holds in every arithmetic with an irreflexive `<`. -/
theorem tiny_guard_redundant_below_100 (A : Arith F) (hirr : ∀ x, A.lt x x = false) (fuel : Nat)
    (since : F) (h : A.lt (A.ofInt 100) since = false) : tinyDroplets A (fuel + 1) since = some 0 :=
  tinyDroplets_zero_of_le_100 A hirr fuel since h

/-- `since_last_tick` is an `i32` whatever the event times are (`as i32` saturates, the subtraction
wraps in release builds) … -/
theorem since_last_tick_is_i32 (A : Arith F) (time last : F) :
    ∃ s : Int, sinceLastTick A time last = A.ofInt s ∧ -2147483648 ≤ s ∧ s ≤ 2147483647 :=
  ⟨_, rfl, i32Wrap_range _⟩

/-- … so over ℚ every gap gets at most `2^25 − 1 = 33 554 431` tiny droplets after at most 25
halvings, for ANY pair of event times. -/
theorem juice_gap_tiny_bound (time last : Rat) :
    ∃ j, j ≤ 25 ∧
      tinyDroplets ratArith 33554458 (sinceLastTick ratArith time last) = some (2 ^ j - 1) ∧
      2 ^ j - 1 ≤ 33554431 := by
  obtain ⟨hlo, hhi⟩ := i32Wrap_range (ratArith.toI32 time - ratArith.toI32 last)
  have hs : ((i32Wrap (ratArith.toI32 time - ratArith.toI32 last) : Int) : Rat) ≤ 100 * 2 ^ 25 := by
    have : ((i32Wrap (ratArith.toI32 time - ratArith.toI32 last) : Int) : Rat) ≤ ((2147483647 : Int) : Rat) :=
      Int.cast_le.mpr hhi
    norm_num at this ⊢
    linarith
  obtain ⟨j, hj, hres, _⟩ := tinyDroplets_rat _ 25 33554458 hs (by norm_num)
  refine ⟨j, hj, hres, ?_⟩
  have : 2 ^ j ≤ 2 ^ 25 := Nat.pow_le_pow_right (by decide) hj
  omega

/-- Termination of the two loops in any arithmetic with a compatible rank. -/
theorem tiny_loop_terminates_of_rank (A : Arith F) (since tbt : F) (rank : F → Nat) (R : Nat)
    (hbound : ∀ t, A.lt t since = true → rank t ≤ R)
    (hprog : ∀ t, A.lt t since = true → rank t < rank (A.add t tbt)) (t : F) (n : Nat) :
    (tinyLoop A since tbt (R + 2 - rank t + 1) t n).isSome = true :=
  tinyLoop_terminates_of_rank A since tbt rank R hbound hprog _ t n (by omega) (by omega)

theorem halve_loop_terminates_of_rank (A : Arith F) (rank : F → Nat)
    (hprog : ∀ t, A.lt (A.ofInt 100) t = true → rank (A.div t (A.ofInt 2)) < rank t) (t : F) :
    (halveLoop A (rank t + 1) t).isSome = true :=
  halveLoop_terminates_of_rank A rank hprog _ t (Nat.le_refl _)

/-- "The tiny-droplet loop terminates in every arithmetic." -/
def TinyLoopAlwaysTerminates : Prop :=
  ∀ (A : Arith Nat) (since tbt : Nat), A.lt (A.ofInt 0) tbt = true →
    ∃ fuel, (tinyLoop A since tbt fuel tbt 0).isSome = true

theorem tiny_loop_can_spin : ¬ TinyLoopAlwaysTerminates := by
  intro h
  obtain ⟨fuel, hf⟩ := h absorbingArith 200 100 (by decide)
  rw [tinyLoop_spins_under_absorption fuel 0] at hf
  exact absurd hf (by simp)

/-! ## the `i32` subtraction -/

/-- With overflow checks `e.time as i32 - last_event_time as i32` cannot panic while both times
are within `±2^30` ms (≈ 12 days) … -/
theorem juice_i32_sub_safe (a b : Int) (ha : -1073741824 ≤ a ∧ a ≤ 1073741823)
    (hb : -1073741824 ≤ b ∧ b ≤ 1073741823) : i32SubOverflows a b = false := by
  unfold i32SubOverflows
  simp only [decide_eq_false_iff_not]
  omega

/-- … and the release-build wrap-around is then the identity. -/
theorem juice_i32_sub_exact (a b : Int) (ha : -1073741824 ≤ a ∧ a ≤ 1073741823)
    (hb : -1073741824 ≤ b ∧ b ≤ 1073741823) : i32Wrap (a - b) = a - b :=
  i32Wrap_id _ (by omega) (by omega)

/-- "The subtraction never overflows" is false for saturated times: a slider that starts before
`−1` ms and ends after `i32::MAX` ms (≈ 24.8 days) overflows (debug panic; release: wraps to a
negative `since_last_tick`, i.e. no tiny droplets). -/
theorem juice_i32_sub_can_overflow : i32SubOverflows 2147483647 (-1) = true ∧
    i32Wrap (2147483647 - (-1)) = -2147483648 := by decide

end Rosu.SliderEvents
