import RosuModel.Lemmas.AggregateField
import RosuModel.Lemmas.Skill
import Mathlib.Algebra.Order.Field.Rat

/-!
# C16 (continued) — the aggregations that turn exported strain peaks into ratings

Model: `Model/Aggregate.lean` — `difficultyValue` (catch, mania, the four taiko skills),
`osuDifficultyValue` (aim, speed: top `k` sections rescaled, re-sorted), `flashlightValue`,
`taikoCombined` (four peak lists zipped, per-section value, `> 0` filter, sort, weighted sum).
The compiled driver runs exactly these definitions with IEEE double operations
(`Model/StarsWire.lean`, request `STARS`) on the peak vectors `strains()` exported and the result
is compared bit for bit with the attributes the implementation reports.

Part 1 is stated for the bit-pattern instance with an *arbitrary* arithmetic (`add`, `mul`, `pos`
are parameters), hence it holds for the `f64` instance.  Part 2 is the real-number reading
(linearly ordered field).
-/

namespace Rosu.Agg
open Rosu.SV Rosu.Skill

variable {T P σ σ₁ σ₂ σ₃ σ₄ : Type}

/-! ## Part 1 — every aggregation is a function of the exported peak lists -/

/-- **catch / mania / taiko skills.**  What `difficulty_value` computes on the crate's own
compact vector equals `difficultyValue` on the vector `strains()` exports. -/
theorem exported_peaks_determine_difficulty_value (add mul : Nat → Nat → Nat) (pos : Nat → Bool)
    (z o decay : Nat) (st : State T σ) (hg : Good st) (hl : st.peaks.len + 1 < SIGN) :
    ∃ v, exportPeaks st = some v ∧
      difficultyValueInternal (bitOps add mul pos z o) decay (currentStrainPeaks st)
        = difficultyValue (bitOps add mul pos z o) decay v := by
  obtain ⟨e, _, hw⟩ := exportPeaks_spec hg hl
  exact ⟨_, e, difficultyValueInternal_eq add mul pos z o decay hw⟩

/-- **osu! aim / speed** (`OsuStrainSkill`): the same for the variant that rescales the `k`
highest sections by `factor i` and sorts again. -/
theorem exported_peaks_determine_osu_difficulty_value (add mul : Nat → Nat → Nat) (pos : Nat → Bool)
    (z o : Nat) (factor : Nat → Nat) (k decay : Nat) (st : State T σ) (hg : Good st)
    (hl : st.peaks.len + 1 < SIGN) :
    ∃ v, exportPeaks st = some v ∧
      osuDifficultyValueInternal (bitOps add mul pos z o) factor k decay (currentStrainPeaks st)
        = osuDifficultyValue (bitOps add mul pos z o) factor k decay v := by
  obtain ⟨e, _, hw⟩ := exportPeaks_spec hg hl
  exact ⟨_, e, osuDifficultyValueInternal_eq add mul pos z o factor k decay hw⟩

/-- **osu! flashlight** (`StrainsVec::sum`). -/
theorem exported_peaks_determine_flashlight_value (add mul : Nat → Nat → Nat) (pos : Nat → Bool)
    (z o sum0 : Nat) (st : State T σ) (hg : Good st) (hl : st.peaks.len + 1 < SIGN) :
    ∃ v, exportPeaks st = some v ∧
      flashlightValueInternal (bitOps add mul pos z o) sum0 (currentStrainPeaks st)
        = flashlightValue (bitOps add mul pos z o) sum0 v := by
  obtain ⟨e, _, hw⟩ := exportPeaks_spec hg hl
  exact ⟨_, e, flashlightValueInternal_eq add mul pos z o sum0 hw⟩

/-- **taiko `combined_difficulty_value`.**  The function walks the four compact vectors with
`StrainsVec::iter()`; for the vectors of four reachable skill states the iterators never
underflow and the result is `taikoCombined` of the four exported vectors, whatever the
per-section arithmetic `comb` (multipliers, `norm`) is. -/
theorem exported_peaks_determine_taiko_combined (O : Ops Nat) (comb : Nat → Nat → Nat → Nat → Nat)
    (decay : Nat) (rhythm : State T σ₁) (reading : State T σ₂) (color : State T σ₃)
    (stamina : State T σ₄) (g1 : Good rhythm) (g2 : Good reading) (g3 : Good color)
    (g4 : Good stamina) (l1 : rhythm.peaks.len + 1 < SIGN) (l2 : reading.peaks.len + 1 < SIGN)
    (l3 : color.peaks.len + 1 < SIGN) (l4 : stamina.peaks.len + 1 < SIGN) :
    ∃ vr vrd vc vs, exportPeaks rhythm = some vr ∧ exportPeaks reading = some vrd ∧
      exportPeaks color = some vc ∧ exportPeaks stamina = some vs ∧
      taikoCombinedInternal O comb decay (currentStrainPeaks rhythm) (currentStrainPeaks reading)
          (currentStrainPeaks color) (currentStrainPeaks stamina)
        = some (taikoCombined O comb decay vr vrd vc vs) := by
  obtain ⟨e1, _, w1⟩ := exportPeaks_spec g1 l1
  obtain ⟨e2, _, w2⟩ := exportPeaks_spec g2 l2
  obtain ⟨e3, _, w3⟩ := exportPeaks_spec g3 l3
  obtain ⟨e4, _, w4⟩ := exportPeaks_spec g4 l4
  exact ⟨_, _, _, _, e1, e2, e3, e4, taikoCombinedInternal_eq O comb decay w1 w2 w3 w4⟩

/-- **The zip of the four taiko skills drops no section.**  `combined_difficulty_value` iterates
`zip`, i.e. the minimum of the four lengths.  Four skills (arbitrary state types and strain
functions) that processed the same objects with the same section arithmetic export equally long
vectors, so `cap`, the number of zipped sections and every exported length coincide
(`= len() = stored peaks + the open section`). -/
theorem taiko_zip_drops_no_section (A : Arith T) (F₁ : StrainFns T P σ₁) (F₂ : StrainFns T P σ₂)
    (F₃ : StrainFns T P σ₃) (F₄ : StrainFns T P σ₄) (b1 : Bounded A F₁) (b2 : Bounded A F₂)
    (b3 : Bounded A F₃) (b4 : Bounded A F₄) (fuel : Nat) (zero : T) (i1 : σ₁) (i2 : σ₂) (i3 : σ₃)
    (i4 : σ₄) (os : List (Obj T P)) (rhythm : State T σ₁) (reading : State T σ₂)
    (color : State T σ₃) (stamina : State T σ₄)
    (h1 : processAll A F₁ fuel (State.init zero i1) os = some rhythm)
    (h2 : processAll A F₂ fuel (State.init zero i2) os = some reading)
    (h3 : processAll A F₃ fuel (State.init zero i3) os = some color)
    (h4 : processAll A F₄ fuel (State.init zero i4) os = some stamina)
    (hl : rhythm.peaks.len + 1 < SIGN) :
    ∃ vr vrd vc vs, exportPeaks rhythm = some vr ∧ exportPeaks reading = some vrd ∧
      exportPeaks color = some vc ∧ exportPeaks stamina = some vs ∧
      vrd.length = vr.length ∧ vc.length = vr.length ∧ vs.length = vr.length ∧
      vr.length = rhythm.peaks.len + 1 ∧
      taikoCapInternal (currentStrainPeaks rhythm) (currentStrainPeaks reading)
        (currentStrainPeaks color) (currentStrainPeaks stamina) = vr.length ∧
      ∀ {β : Type} (comb : Nat → Nat → Nat → Nat → β), (zip4With comb vr vrd vc vs).length = vr.length := by
  have len_eq : ∀ {σ' : Type} (F' : StrainFns T P σ') (i' : σ') (st' : State T σ'),
      processAll A F' fuel (State.init zero i') os = some st' → st'.peaks.len = rhythm.peaks.len := by
    intro σ' F' i' st' h'
    have key := processAll_shape A F₁ F' fuel os (State.init zero i1) (State.init zero i') rfl
    rw [h1, h'] at key
    simp only [Option.map_some, Option.some.injEq] at key
    exact (congrArg Prod.snd key).symm
  have e2 := len_eq F₂ i2 reading h2
  have e3 := len_eq F₃ i3 color h3
  have e4 := len_eq F₄ i4 stamina h4
  have g1 := processAll_good A F₁ b1 fuel os _ rhythm h1 hl (init_good zero i1)
  have g2 := processAll_good A F₂ b2 fuel os _ reading h2 (by omega) (init_good zero i2)
  have g3 := processAll_good A F₃ b3 fuel os _ color h3 (by omega) (init_good zero i3)
  have g4 := processAll_good A F₄ b4 fuel os _ stamina h4 (by omega) (init_good zero i4)
  obtain ⟨x1, n1, w1⟩ := exportPeaks_spec g1 hl
  obtain ⟨x2, n2, w2⟩ := exportPeaks_spec g2 (by omega)
  obtain ⟨x3, n3, w3⟩ := exportPeaks_spec g3 (by omega)
  obtain ⟨x4, n4, w4⟩ := exportPeaks_spec g4 (by omega)
  refine ⟨_, _, _, _, x1, x2, x3, x4, by omega, by omega, by omega, n1, ?_, ?_⟩
  · rw [taikoCapInternal_eq w1 w2 w3 w4]; unfold taikoCap; omega
  · intro β comb
    exact zip4With_length_of_eq comb _ _ _ _ (by omega) (by omega) (by omega)

/-- **Independence of the section order** (bit level, any arithmetic): because the peaks are
sorted by `total_cmp`, whose ties are identical bit patterns, `difficulty_value` and osu!'s variant
return the same value for any two arrangements of the same sections. -/
theorem difficulty_value_indep_of_section_order (add mul : Nat → Nat → Nat) (pos : Nat → Bool)
    (z o decay : Nat) (factor : Nat → Nat) (k : Nat) {v₁ v₂ : List Nat}
    (hb : ∀ x ∈ v₁, x < TWO64) (h : v₁.Perm v₂) :
    difficultyValue (bitOps add mul pos z o) decay v₁
        = difficultyValue (bitOps add mul pos z o) decay v₂ ∧
      osuDifficultyValue (bitOps add mul pos z o) factor k decay v₁
        = osuDifficultyValue (bitOps add mul pos z o) factor k decay v₂ :=
  ⟨difficultyValue_perm add mul pos z o decay hb h,
   osuDifficultyValue_perm add mul pos z o factor k decay hb h⟩

/-- The same for taiko's combined value: the four skills' sections permuted together. -/
theorem taiko_combined_indep_of_section_order (add mul : Nat → Nat → Nat) (pos : Nat → Bool)
    (z o decay : Nat) (comb : Nat → Nat → Nat → Nat → Nat) (hcomb : ∀ a b c d, comb a b c d < TWO64)
    {r rd c s r' rd' c' s' : List Nat}
    (h : ((((r.zip rd).zip c).zip s)).Perm ((((r'.zip rd').zip c').zip s'))) :
    taikoCombined (bitOps add mul pos z o) comb decay r rd c s
      = taikoCombined (bitOps add mul pos z o) comb decay r' rd' c' s' := by
  unfold taikoCombined
  rw [taikoTerms_perm add mul pos z o comb hcomb h]

/-! ## Part 2 — real-number reading (linearly ordered field) -/

variable {K : Type} [Field K] [LinearOrder K] [IsStrictOrderedRing K]

/-- The weighted loop computes `Σ termsᵢ · decayⁱ`. -/
theorem weighted_loop_closed_form (decay : K) (terms : List K) :
    weightedSum (fieldOps K) decay terms = wsum decay terms := weightedSum_eq_wsum decay terms

/-- **Sign and size of `difficulty_value`**: for non-negative peaks and `0 ≤ decay < 1` the value
lies between the highest peak and `highest peak / (1 − decay)` (10× for 0.9, 16.7× for 0.94). -/
theorem difficulty_value_bounds {decay M : K} (hd : 0 ≤ decay) (hd1 : decay < 1) (hM : 0 ≤ M)
    {peaks : List K} (h0 : ∀ x ∈ peaks, 0 ≤ x) (hM' : ∀ x ∈ peaks, x ≤ M) :
    0 ≤ difficultyValue (fieldOps K) decay peaks ∧
      (∀ p ∈ peaks, p ≤ difficultyValue (fieldOps K) decay peaks) ∧
      difficultyValue (fieldOps K) decay peaks ≤ M / (1 - decay) :=
  ⟨difficultyValue_nonneg hd h0, fun _ hp => peak_le_difficultyValue hd h0 hp,
   difficultyValue_le hd hd1 hM hM'⟩

/-- osu!'s variant with scaling factors in `[0, 1]`. -/
theorem osu_difficulty_value_bounds {decay M : K} (hd : 0 ≤ decay) (hd1 : decay < 1) (hM : 0 ≤ M)
    {factor : Nat → K} (hf0 : ∀ i, 0 ≤ factor i) (hf1 : ∀ i, factor i ≤ 1) (k : Nat)
    {peaks : List K} (h0 : ∀ x ∈ peaks, 0 ≤ x) (hM' : ∀ x ∈ peaks, x ≤ M) :
    0 ≤ osuDifficultyValue (fieldOps K) factor k decay peaks ∧
      osuDifficultyValue (fieldOps K) factor k decay peaks ≤ M / (1 - decay) :=
  ⟨osuDifficultyValue_nonneg hd hf0 k h0, osuDifficultyValue_le hd hd1 hM hf1 k h0 hM'⟩

/-- **taiko**: for *any* per-section arithmetic the combined value is non-negative, positive
exactly when some section's combined peak is positive, and at most `M / (1 − decay)` when every
section's combined peak is at most `M`. -/
theorem taiko_combined_sign_and_bound {decay M : K} (hd : 0 ≤ decay) (hd1 : decay < 1) (hM : 0 ≤ M)
    (comb : K → K → K → K → K) (r rd c s : List K) :
    0 ≤ taikoCombined (fieldOps K) comb decay r rd c s ∧
      (0 < taikoCombined (fieldOps K) comb decay r rd c s ↔ ∃ a ∈ zip4With comb r rd c s, 0 < a) ∧
      ((∀ a ∈ zip4With comb r rd c s, a ≤ M) →
        taikoCombined (fieldOps K) comb decay r rd c s ≤ M / (1 - decay)) :=
  ⟨taikoCombined_nonneg hd comb r rd c s, taikoCombined_pos_iff hd comb r rd c s,
   taikoCombined_le hd hd1 hM comb r rd c s⟩

/-- Independence of the section order over an ordered field. -/
theorem aggregations_indep_of_section_order_field (decay : K) (factor : Nat → K) (k : Nat)
    (comb : K → K → K → K → K) {v₁ v₂ : List K} (h : v₁.Perm v₂)
    {r rd c s r' rd' c' s' : List K}
    (h4 : ((((r.zip rd).zip c).zip s)).Perm ((((r'.zip rd').zip c').zip s'))) :
    difficultyValue (fieldOps K) decay v₁ = difficultyValue (fieldOps K) decay v₂ ∧
      osuDifficultyValue (fieldOps K) factor k decay v₁
        = osuDifficultyValue (fieldOps K) factor k decay v₂ ∧
      taikoCombined (fieldOps K) comb decay r rd c s
        = taikoCombined (fieldOps K) comb decay r' rd' c' s' :=
  ⟨difficultyValue_perm_field decay h, osuDifficultyValue_perm_field factor k decay h,
   taikoCombined_perm_field comb decay h4⟩

/-! ## non-vacuity -/

/-- stand-in integer arithmetic on small patterns: peaks `[3, 0, 5]`, decay 2 → `5·1 + 3·2 = 11`;
osu variant with `k = 1`, factor 2: the top peak 5 becomes 10 → `10·1 + 3·2 = 16`; flashlight
sum `8`. -/
example :
    let O := bitOps Nat.add Nat.mul (fun x => decide (0 < x)) 0 1
    difficultyValue O 2 [3, 0, 5] = 11 ∧ osuDifficultyValue O (fun _ => 2) 1 2 [3, 0, 5] = 16 ∧
      flashlightValue O 0 [3, 0, 5] = 8 := by
  simp [difficultyValue, osuDifficultyValue, osuTermsOf, scalePrefix, flashlightValue, dvTermsOf,
    sortDesc, weightedSum, bitOps, nonZeroBits, tcKey, SIGN, List.mergeSort,
    List.MergeSort.Internal.splitInTwo, List.zipIdx]

/-- taiko with `comb = a + b + c + d`, three sections of which one is all-zero (dropped by the
`> 0` filter): section values `[6, 0, 10]` → `10·1 + 6·2 = 22`; the list lengths differ
(4, 3, 3, 3) and the zip keeps `min = 3`. -/
example :
    let O := bitOps Nat.add Nat.mul (fun x => decide (0 < x)) 0 1
    taikoCombined O (fun a b c d => a + b + c + d) 2 [1, 0, 2, 9] [1, 0, 2] [2, 0, 3] [2, 0, 3] = 22 ∧
      taikoCap [1, 0, 2, 9] [1, 0, 2] [2, 0, 3] [2, 0, 3] = 3 := by
  simp [taikoCombined, taikoTermsOf, zip4With, taikoCap, sortDesc, weightedSum, bitOps, tcKey, SIGN,
    List.mergeSort, List.MergeSort.Internal.splitInTwo]

/-- the hypotheses of the ordered-field theorems are satisfiable (ℚ, decay 9/10). -/
example : (0 : ℚ) ≤ 9 / 10 ∧ (9 / 10 : ℚ) < 1 ∧ (∀ x ∈ [(1 : ℚ), 0, 2], 0 ≤ x) := by
  refine ⟨by norm_num, by norm_num, ?_⟩
  intro x hx
  simp only [List.mem_cons, List.not_mem_nil, or_false] at hx
  rcases hx with rfl | rfl | rfl <;> norm_num

end Rosu.Agg
