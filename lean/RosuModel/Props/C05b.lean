import RosuModel.Lemmas.SuspicionRat
import RosuModel.Lemmas.StackingFull
import RosuModel.Gen.LimitedQueueCaps
import RosuModel.Props.C05
import Mathlib.Data.Rat.Floor
import Mathlib.Tactic.FieldSimp

/-!
# C05, second wave — the domain of the property: `check_suspicion` (`TooSuspicious::new`)

C05 quantifies over "decodable, NON-SUSPICIOUS maps".  `Model/Suspicion.lean` transcribes the whole
decision function of `src/model/beatmap/suspicious.rs`; it is tied to the code by `SUSP` lines (the
verdict of the real `Beatmap::check_suspicion` on every map the C05 search generates — accepted or
rejected — and on maps synthesised around every threshold, compared with the model replayed in IEEE
arithmetic) and `SUSPX` lines (the exact-integer instance on integer-valued maps).

Theorems, for ALL object lists:

* `non_suspicious_iff` — exact characterisation of the accepted maps, in ANY arithmetic;
* `non_suspicious_bounds` — what an accepted map satisfies, over exact rationals;
* `non_suspicious_sorted_span`, `non_suspicious_density_sorted`, `non_suspicious_run_bound`,
  `non_suspicious_interval_count` — consequences for maps sorted by start time (decoded maps);
* `verdict_order_*` — which verdict wins when several rules apply;
* `non_suspicious_sublist` (deleting objects from an accepted SORTED map keeps it accepted) and
  `DeletionKeepsNonSuspicious` / `deletion_keeps_non_suspicious_fails` (false without sortedness);
* `non_suspicious_section_iterations` — the strain-section loop bound as a COROLLARY of the filter,
  as a function of the clock rate; what the filter does not bound is said at the end.

Exactness caveat (floats): the theorems are about exact arithmetic.  In `f64` the difference of two
start times is rounded before it is compared; rounding is monotone and the constants 1000, 10000
and 86 400 000 are representable, so `fl(a − b) ≥ 1000` follows from `a − b ≥ 1000`, but an accepted
`f64` map only satisfies the bounds up to one rounding of the difference (relative 2⁻⁵³).  The `SUSP`
lines replay the rounded computation exactly.
-/

namespace Rosu.C05
open Rosu.Susp

/-! ## the accepted maps, characterised -/

/-- **Exact characterisation (any arithmetic).**  `check_suspicion` accepts a map iff: the object
count is within the mode's threshold; the last object starts at most a day after the first; no
object is too dense; no slider is a red flag; and (osu!/catch only) at most 256 sliders each are
counted for positions and for repeats. -/
theorem non_suspicious_iff {T P : Type} (A : Arith T P) (mode : Mode) (objs : List (Obj T P)) :
    check A mode objs = .ok ↔
      (tooManyObjects mode objs.length = false ∧ tooLong A objs = false ∧ DenseFree A mode objs ∧
        (∀ o ∈ objs, flagged A mode o = false) ∧
        (osuOrCatch mode = false ∨
          (objs.countP (countsPos A) ≤ 256 ∧ objs.countP (countsRepeats A mode) ≤ 256))) := by
  rw [check_ok_iff, final_ok_iff]; rfl

/-- **Bounds of an accepted map (exact rationals, ALL object lists, sorted or not).**
(a) at most 500 000 objects, 20 000 in taiko; (b) the last object starts at most one day after the
first; (c) the object 100 (mania: 200) places later starts at least 1 s later; (d) the object 250
(mania: 500) places later starts at least 10 s later; (e) in osu!/catch no slider has more than 1000
repeats AND a coordinate beyond ±10 000; (f) in osu!/catch at most 256 sliders have more than 1000
repeats and at most 256 sliders (with ≤ 1000 repeats) have a coordinate beyond ±10 000.
In taiko and mania NOTHING is required of sliders. -/
theorem non_suspicious_bounds (mode : Mode) (objs : List (Obj ℚ ℚ)) (hok : check ratA mode objs = .ok) :
    (objs.length ≤ (if mode = .taiko then 20000 else 500000)) ∧
    (∀ f l, objs.head? = some f → objs.getLast? = some l → l.start - f.start ≤ 86400000) ∧
    (∀ (i : Nat) (c o : Obj ℚ ℚ), objs[i]? = some c → objs[i + per1s mode]? = some o → 1000 ≤ o.start - c.start) ∧
    (∀ (i : Nat) (c o : Obj ℚ ℚ), objs[i]? = some c → objs[i + per10s mode]? = some o → 10000 ≤ o.start - c.start) ∧
    (osuOrCatch mode = true → ∀ o ∈ objs, o.isSlider = true → 1000 < o.repeats → (|o.x| ≤ 10000 ∧ |o.y| ≤ 10000)) ∧
    (osuOrCatch mode = true →
      (objs.countP (fun o => o.isSlider && decide (1000 < o.repeats)) ≤ 256 ∧
       objs.countP (fun o => o.isSlider && !decide (1000 < o.repeats) && checkPos ratA o) ≤ 256)) := by
  obtain ⟨h1, h2, h3, h4, h5⟩ := (non_suspicious_iff ratA mode objs).mp hok
  have hd := (denseFree_rat_iff mode objs).mp h3
  refine ⟨?_, (tooLong_false_iff objs).mp h2, fun i c o hc ho => (hd i c o hc).1 ho,
    fun i c o hc ho => (hd i c o hc).2 ho, ?_, ?_⟩
  · unfold tooManyObjects thresholdObjects thresholdObjectsTaiko at h1
    cases mode <;> simp at h1 ⊢ <;> omega
  · intro hm o ho hs hr
    have := h4 o ho
    unfold flagged checkRepeats thresholdRepeats at this
    rw [hs, hm] at this
    simp only [Bool.true_and, Bool.and_true, Bool.and_eq_false_iff, decide_eq_false_iff_not] at this
    rcases this with h | h
    · omega
    · exact (checkPos_false_iff o).mp h
  · intro hm
    rcases h5 with h5 | ⟨h5, h6⟩
    · rw [hm] at h5; cases h5
    · constructor
      · -- sliders with > 1000 repeats: none is flagged, so each is counted for repeats
        refine Nat.le_trans (Nat.le_of_eq ?_) h6
        apply List.countP_congr
        intro o ho
        have := h4 o ho
        unfold flagged at this
        unfold countsRepeats checkRepeats thresholdRepeats at *
        cases hs : o.isSlider <;> cases hr : decide (1000 < o.repeats) <;> simp_all
      · refine Nat.le_trans (Nat.le_of_eq ?_) h5
        apply List.countP_congr
        intro o _
        unfold countsPos checkRepeats thresholdRepeats
        simp

/-- non-vacuity: three objects, a slider with 2000 repeats inside the playfield — accepted -/
example : check (exact Int) .osu [⟨0, false, 0, 0, 0⟩, ⟨500, true, 2000, 256, 192⟩, ⟨86400000, false, 0, 0, 0⟩] = .ok := by
  decide

/-! ## sorted (decoded) maps -/

/-- For a map sorted by start time EVERY pairwise span is at most one day. -/
theorem non_suspicious_sorted_span (mode : Mode) (objs : List (Obj ℚ ℚ)) (hs : Sorted objs)
    (hok : check ratA mode objs = .ok) (i j : Nat) (a b : Obj ℚ ℚ) (ha : objs[i]? = some a) (hb : objs[j]? = some b) :
    |b.start - a.start| ≤ 86400000 := by
  have hspan := (non_suspicious_bounds mode objs hok).2.1
  have hi : i < objs.length := (List.getElem?_eq_some_iff.mp ha).1
  have hne : objs ≠ [] := by rintro rfl; simp at hi
  have hf0 : objs[0]? = some (objs.head hne) := by rw [← List.head?_eq_getElem?]; exact List.head?_eq_some_head hne
  have hlN : objs[objs.length - 1]? = some (objs.getLast hne) := by
    rw [← List.getLast?_eq_getElem?]; exact List.getLast?_eq_some_getLast hne
  have := hspan _ _ (List.head?_eq_some_head hne) (List.getLast?_eq_some_getLast hne)
  have hj : j < objs.length := (List.getElem?_eq_some_iff.mp hb).1
  have a1 := sorted_getElem_le hs (Nat.zero_le i) hf0 ha
  have a2 := sorted_getElem_le hs (by omega : i ≤ objs.length - 1) ha hlN
  have b1 := sorted_getElem_le hs (Nat.zero_le j) hf0 hb
  have b2 := sorted_getElem_le hs (by omega : j ≤ objs.length - 1) hb hlN
  rw [abs_le]; constructor <;> linarith

/-- **Density of a sorted accepted map**: two objects at least `k·250` (mania `k·500`) places apart
start at least `k·10 s` apart, and at least `k·100` (mania `k·200`) places apart at least `k·1 s` apart. -/
theorem non_suspicious_density_sorted (mode : Mode) (objs : List (Obj ℚ ℚ)) (hs : Sorted objs)
    (hok : check ratA mode objs = .ok) (k i j : Nat) (a b : Obj ℚ ℚ) (ha : objs[i]? = some a) (hb : objs[j]? = some b) :
    (i + k * per10s mode ≤ j → (k : ℚ) * 10000 ≤ b.start - a.start) ∧
    (i + k * per1s mode ≤ j → (k : ℚ) * 1000 ≤ b.start - a.start) := by
  obtain ⟨_, _, h1, h10, _⟩ := non_suspicious_bounds mode objs hok
  exact ⟨fun h => window_sorted objs hs _ _ h10 k i j a b ha hb h,
    fun h => window_sorted objs hs _ _ h1 k i j a b ha hb h⟩

/-- …read the other way: a run of objects `i..j` that spans LESS than `k·10 s` has fewer than
`k·250 + 1` objects (`j − i < k·250`), and less than `k·1 s` ⇒ `j − i < k·100` (mania 500 / 200). -/
theorem non_suspicious_run_bound (mode : Mode) (objs : List (Obj ℚ ℚ)) (hs : Sorted objs)
    (hok : check ratA mode objs = .ok) (k i j : Nat) (a b : Obj ℚ ℚ) (ha : objs[i]? = some a) (hb : objs[j]? = some b) :
    (b.start - a.start < (k : ℚ) * 10000 → j < i + k * per10s mode) ∧
    (b.start - a.start < (k : ℚ) * 1000 → j < i + k * per1s mode) := by
  have := non_suspicious_density_sorted mode objs hs hok k i j a b ha hb
  constructor
  · intro h; by_contra hc; exact absurd (this.1 (by omega)) (by linarith)
  · intro h; by_contra hc; exact absurd (this.2 (by omega)) (by linarith)

/-! ## deletion -/

/-- **Deleting objects from an accepted SORTED map keeps it accepted** (any sublist). -/
theorem non_suspicious_sublist (mode : Mode) (objs sub : List (Obj ℚ ℚ)) (hsub : sub.Sublist objs)
    (hs : Sorted objs) (hok : check ratA mode objs = .ok) : check ratA mode sub = .ok := by
  rw [non_suspicious_iff] at hok ⊢
  obtain ⟨h1, h2, h3, h4, h5⟩ := hok
  refine ⟨?_, tooLong_sublist hsub hs h2, ?_, fun o ho => h4 o (hsub.subset ho), ?_⟩
  · have := hsub.length_le
    unfold tooManyObjects at h1 ⊢
    cases mode <;> simp at h1 ⊢ <;> omega
  · rw [denseFree_iff_windowFree] at h3 ⊢
    exact ⟨windowFree_sublist _ _ hsub hs h3.1, windowFree_sublist _ _ hsub hs h3.2⟩
  · rcases h5 with h5 | ⟨h5, h6⟩
    · exact Or.inl h5
    · exact Or.inr ⟨Nat.le_trans (hsub.countP_le) h5, Nat.le_trans (hsub.countP_le) h6⟩

/-- Full statement without the sortedness hypothesis. -/
def DeletionKeepsNonSuspicious : Prop :=
  ∀ (mode : Mode) (objs sub : List (Obj Int Int)), sub.Sublist objs →
    check (exact Int) mode objs = .ok → check (exact Int) mode sub = .ok

/-- It is false: `too_long` only looks at the first and the last element, and the density windows
are index based.  `[0, 2 days, 0]` is accepted, `[0, 2 days]` is `Length`. -/
theorem deletion_keeps_non_suspicious_fails : ¬ DeletionKeepsNonSuspicious := by
  intro h
  have := h .osu [⟨0, false, 0, 0, 0⟩, ⟨172800000, false, 0, 0, 0⟩, ⟨0, false, 0, 0, 0⟩]
    [⟨0, false, 0, 0, 0⟩, ⟨172800000, false, 0, 0, 0⟩]
    (List.sublist_append_left [(⟨0, false, 0, 0, 0⟩ : Obj Int Int), ⟨172800000, false, 0, 0, 0⟩] [⟨0, false, 0, 0, 0⟩])
    (by decide)
  revert this
  decide

/-- In a sorted accepted map, ANY half-open time interval of length `W ≤ k·10 s` contains at most
`k·250` objects (mania `k·500`), and of length `W ≤ k·1 s` at most `k·100` (mania `k·200`):
i.e. at most `250·⌈W / 10 s⌉` objects per interval of length `W > 0`. -/
theorem non_suspicious_interval_count (mode : Mode) (objs : List (Obj ℚ ℚ)) (hs : Sorted objs)
    (hok : check ratA mode objs = .ok) (lo W : ℚ) (k : Nat) :
    (W ≤ (k : ℚ) * 10000 →
      (objs.filter (fun o => decide (lo ≤ o.start) && decide (o.start < lo + W))).length ≤ k * per10s mode) ∧
    (W ≤ (k : ℚ) * 1000 →
      (objs.filter (fun o => decide (lo ≤ o.start) && decide (o.start < lo + W))).length ≤ k * per1s mode) := by
  -- the filtered list is a sublist, hence sorted and accepted; apply the run bound to its ends
  let S := objs.filter (fun o => decide (lo ≤ o.start) && decide (o.start < lo + W))
  have hsub : S.Sublist objs := List.filter_sublist
  have hS : Sorted S := List.Pairwise.sublist hsub hs
  have hokS := non_suspicious_sublist mode objs S hsub hs hok
  have hmem : ∀ o ∈ S, lo ≤ o.start ∧ o.start < lo + W := by
    intro o ho
    have := (List.mem_filter.mp ho).2
    simpa using this
  by_cases hne : S = []
  · have : S.length = 0 := by rw [hne]; rfl
    constructor <;> intro _ <;> show S.length ≤ _ <;> omega
  · have hlen : 0 < S.length := List.length_pos_of_ne_nil hne
    have h0 : S[0]? = some S[0] := List.getElem?_eq_getElem hlen
    have hN : S[S.length - 1]? = some S[S.length - 1] := List.getElem?_eq_getElem (by omega)
    have m0 := hmem _ (List.getElem_mem hlen)
    have mN := hmem _ (List.getElem_mem (by omega : S.length - 1 < S.length))
    have hr := non_suspicious_run_bound mode S hS hokS k 0 (S.length - 1) _ _ h0 hN
    constructor
    · intro hW
      have := hr.1 (by linarith)
      show S.length ≤ _
      omega
    · intro hW
      have := hr.2 (by linarith)
      show S.length ≤ _
      omega

/-! ## which verdict wins (`verdict_order`) -/

/-- 1. the object count is checked first: it wins over everything -/
theorem verdict_order_object_count {T P : Type} (A : Arith T P) (mode : Mode) (objs : List (Obj T P))
    (h : tooManyObjects mode objs.length = true) : check A mode objs = .objectCount := by
  unfold check; rw [if_pos h]

/-- 2. then the length of the map: it wins over density, red flag and the slider counters -/
theorem verdict_order_length {T P : Type} (A : Arith T P) (mode : Mode) (objs : List (Obj T P))
    (h1 : tooManyObjects mode objs.length = false) (h2 : tooLong A objs = true) : check A mode objs = .length := by
  unfold check; rw [if_neg (by rw [h1]; exact Bool.false_ne_true), if_pos h2]

/-- 3. then the loop: the FIRST object (in list order) that is too dense or a red flag decides; if
it is both, `Density` wins.  `pre` = the objects before it, none of which triggers. -/
theorem verdict_order_first_trigger {T P : Type} (A : Arith T P) (mode : Mode) (pre : List (Obj T P)) (h : Obj T P)
    (post : List (Obj T P)) (h1 : tooManyObjects mode (pre ++ h :: post).length = false)
    (h2 : tooLong A (pre ++ h :: post) = false) (hq : DenseFreePrefix A mode pre (h :: post))
    (hf : ∀ o ∈ pre, flagged A mode o = false) :
    (tooDense A mode h (h :: post) = true → check A mode (pre ++ h :: post) = .density) ∧
    (tooDense A mode h (h :: post) = false → flagged A mode h = true → check A mode (pre ++ h :: post) = .redFlag) := by
  unfold check
  rw [if_neg (by rw [h1]; exact Bool.false_ne_true), if_neg (by rw [h2]; exact Bool.false_ne_true),
    scan_append_quiet A mode (h :: post) pre 0 0 hq hf]
  exact ⟨fun hd => scan_density A mode h post _ _ hd, fun hd hfl => scan_redFlag A mode h post _ _ hd hfl⟩

/-- 4. after the loop (nothing triggered): taiko and mania accept; otherwise the position counter is
tested before the repeat counter — with both above 256 the verdict is `SliderPositions`. -/
theorem verdict_order_final {T P : Type} (A : Arith T P) (mode : Mode) (objs : List (Obj T P))
    (h1 : tooManyObjects mode objs.length = false) (h2 : tooLong A objs = false) (hd : DenseFree A mode objs)
    (hf : ∀ o ∈ objs, flagged A mode o = false) :
    check A mode objs =
      if osuOrCatch mode = false then .ok
      else if objs.countP (countsPos A) > 256 then .sliderPositions
      else if objs.countP (countsRepeats A mode) > 256 then .sliderRepeats
      else .ok := by
  unfold check
  rw [if_neg (by rw [h1]; exact Bool.false_ne_true), if_neg (by rw [h2]; exact Bool.false_ne_true)]
  have := scan_append_quiet A mode [] objs 0 0 ((denseFreePrefix_nil_iff A mode objs).mpr hd) hf
  rw [List.append_nil] at this
  rw [this]
  unfold scan final osuOrCatch thresholdFlagged
  cases mode <;> simp

/-- the order is observable: 500 001 … is too expensive for `decide`; the small-scale shape of the
same decision: an object list that is too long AND too dense AND red-flagged answers `Length`, and
`Density` once the length rule is satisfied -/
example : check (exact Int) .mania
    ((List.replicate 201 ⟨0, true, 2000, 20000, 0⟩) ++ [⟨90000000, false, 0, 0, 0⟩]) = .length := by decide +kernel
example : check (exact Int) .osu (List.replicate 101 ⟨0, true, 2000, 20000, 0⟩) = .density := by decide +kernel
example : check (exact Int) .osu (List.replicate 100 ⟨0, true, 2000, 20000, 0⟩) = .redFlag := by decide +kernel
example : check (exact Int) .taiko (List.replicate 100 ⟨0, true, 2000, 20000, 0⟩) = .ok := by decide +kernel

/-! ## the strain-section loop bound as a corollary of the filter -/

/-- **Section-loop iterations of a decoded, accepted map as a function of the clock rate.**
The difficulty objects' times are `start_time / clock_rate`; a skill's section loop
(`src/util/macros.rs`, modelled in `Model/Skill.lean`, C16) advances `current_section_end` from
`⌈t_first'/L⌉·L` to `⌈t_last'/L⌉·L` in steps of `L`, i.e. performs `⌈b/r/L⌉ − ⌈a/r/L⌉` iterations between
two objects.  For a sorted map that `check_suspicion` accepts this is strictly less than
`86 400 000 / (r·L) + 1`: the one-day limit — a bare hypothesis of `section_iterations_bounded` in
`Props/C05.lean` — is now a consequence of the modelled filter.  The clock rate enters as the factor
`1/r`; `Difficulty::clock_rate` clamps to `[0.01, 100]`, so the bound is 100× larger at the minimum. -/
theorem non_suspicious_section_iterations (mode : Mode) (objs : List (Obj ℚ ℚ)) (hs : Sorted objs)
    (hok : check ratA mode objs = .ok) (r L : ℚ) (hr : 0 < r) (hL : 0 < L)
    (i j : Nat) (a b : Obj ℚ ℚ) (ha : objs[i]? = some a) (hb : objs[j]? = some b) :
    ((⌈b.start / r / L⌉ - ⌈a.start / r / L⌉ : ℤ) : ℚ) < 86400000 / (r * L) + 1 := by
  have hspan := non_suspicious_sorted_span mode objs hs hok i j a b ha hb
  have h1 := Int.ceil_lt_add_one (b.start / r / L)
  have h2 := Int.le_ceil (a.start / r / L)
  have hrl : 0 < r * L := mul_pos hr hL
  have e : b.start / r / L - a.start / r / L = (b.start - a.start) / (r * L) := by
    field_simp
  have hle : (b.start - a.start) / (r * L) ≤ 86400000 / (r * L) :=
    div_le_div_of_nonneg_right (le_trans (le_abs_self _) hspan) (le_of_lt hrl)
  push_cast
  linarith

/-- numerically, `L = 400 ms` (osu!, catch, taiko, mania strain skills): at most 216 000 iterations
per skill at clock rate ≥ 1, at most 21 600 000 at the documented minimum clock rate 0.01
(finding `resource-proportional-work`: `adv:37`, 2.16·10⁷ sections, ≈ 680 MiB). -/
theorem non_suspicious_section_iterations_400 (mode : Mode) (objs : List (Obj ℚ ℚ)) (hs : Sorted objs)
    (hok : check ratA mode objs = .ok) (r : ℚ) (i j : Nat) (a b : Obj ℚ ℚ)
    (ha : objs[i]? = some a) (hb : objs[j]? = some b) :
    (1 ≤ r → ⌈b.start / r / 400⌉ - ⌈a.start / r / 400⌉ ≤ 216000) ∧
    (1 / 100 ≤ r → ⌈b.start / r / 400⌉ - ⌈a.start / r / 400⌉ ≤ 21600000) := by
  constructor
  · intro hr
    have hr0 : (0 : ℚ) < r := by linarith
    have := non_suspicious_section_iterations mode objs hs hok r 400 hr0 (by norm_num) i j a b ha hb
    have hb' : (86400000 : ℚ) / (r * 400) ≤ 216000 := by
      rw [div_le_iff₀ (by positivity)]; nlinarith
    have : ((⌈b.start / r / 400⌉ - ⌈a.start / r / 400⌉ : ℤ) : ℚ) < ((216001 : ℤ) : ℚ) := by
      push_cast at this ⊢; linarith
    have := Int.cast_lt.mp this
    omega
  · intro hr
    have hr0 : (0 : ℚ) < r := by linarith
    have := non_suspicious_section_iterations mode objs hs hok r 400 hr0 (by norm_num) i j a b ha hb
    have hb' : (86400000 : ℚ) / (r * 400) ≤ 21600000 := by
      rw [div_le_iff₀ (by positivity)]; nlinarith
    have : ((⌈b.start / r / 400⌉ - ⌈a.start / r / 400⌉ : ℤ) : ℚ) < ((21600001 : ℤ) : ℚ) := by
      push_cast at this ⊢; linarith
    have := Int.cast_lt.mp this
    omega

/-- the factor is attained: first object at 0, last one a day later, clock rate 1/100 -/
example : (⌈(86400000 : ℚ) / (1 / 100) / 400⌉ - ⌈(0 : ℚ) / (1 / 100) / 400⌉ : ℤ) = 21600000 := by
  norm_num

/-!
### What `check_suspicion` does NOT bound

`Obj` lists everything the function reads: start time, "is a slider", `repeats`, `pos`.  It never
reads a slider's length, velocity, control points, tick rate or duration, nor spinner / hold-note
durations, nor timing points.  So total slider TIME (`repeats · length / velocity`, up to 1000 repeats
of an arbitrarily long, arbitrarily slow path per slider, any number of them in taiko / mania) and
hence the number of nested objects / ticks is unbounded on the accepted domain — the first half of
the finding `resource-proportional-work` (`adv:36`); the second half is the factor `1/r` above.
-/

/-! ## osu! stacking, both passes, with stack heights (tied by `STK` lines)

`Model/StackingFull.lean` transcribes `stacking` (version ≥ 6) and `old_stacking` (version < 6) of
`src/osu/convert.rs` including the `stack_height` state; the driver replays the `f64` / `f32`
predicates in IEEE arithmetic and the resulting heights are compared with the real passes
(`osu::verif::stacking_probe_*`) on every osu! map the search exercises and on synthetic object lists. -/

open Rosu.Stack in
/-- **`stacking` never indexes out of bounds**, for every object list, every threshold and every
arithmetic (whatever the float predicates answer): all `hit_objects[n]`, `[obj_i_idx]`, `[j]` reads
and `stack_height` writes are in bounds; the result has one height per object. -/
theorem osu_stacking_full_never_panics {T P : Type} (A : Stack.Arith T P) (thr : T) (objs : List (SObj T P)) :
    ∃ h, stacking A thr objs = some h ∧ h.length = objs.length :=
  stacking_ok A thr objs

open Rosu.Stack in
/-- **`old_stacking` never indexes out of bounds** (`for i in 0..len`, `for j in i + 1..len`). -/
theorem osu_old_stacking_never_panics {T P : Type} (A : Stack.Arith T P) (thr : T) (objs : List (SObj T P)) :
    ∃ h, oldStacking A thr objs = some h ∧ h.length = objs.length :=
  oldStacking_ok A thr objs

/-! ## the capacities `LimitedQueue` is instantiated with in the crate (translated from the source) -/

/-- Every instantiation of `LimitedQueue<T, N>` in /repo's current source (list regenerated by
`tools/translate.d/limited_queue.py` on every check) has an understood capacity `N ≥ 1`, and no
occurrence has a shape the extractor does not understand. -/
theorem crate_queue_capacities_ok :
    (Rosu.Gen.LimitedQueueCaps.uses.all fun u => match u.2.2.2 with | some n => decide (0 < n) | none => false) = true ∧
    Rosu.Gen.LimitedQueueCaps.unknown = [] := by decide

/-- …hence `queue_never_panics` applies to every queue the crate creates: for every push sequence
all indexing / slicing operations stay in bounds. -/
theorem crate_queues_never_panic (u : String × String × String × Option Nat) (hu : u ∈ Rosu.Gen.LimitedQueueCaps.uses)
    (pushes : List Nat) :
    ∃ n q0 q, u.2.2.2 = some n ∧ Rosu.Safety.LQ.new n = some q0 ∧ q0.pushAll pushes = some q ∧
      q.len = min pushes.length n ∧ (∀ i, (q.index i).isSome = true) ∧ (q.last).isSome = true ∧
      (∃ a b, q.asSlices = some (a, b) ∧ a.length + b.length = q.len) := by
  have hall := crate_queue_capacities_ok.1
  rw [List.all_eq_true] at hall
  have := hall u hu
  cases hc : u.2.2.2 with
  | none => rw [hc] at this; cases this
  | some n =>
    rw [hc] at this
    have hn : 0 < n := by simpa using this
    obtain ⟨q0, q, h0, h1, h2, h3, h4, h5, _⟩ := queue_never_panics n hn pushes
    exact ⟨n, q0, q, rfl, h0, h1, h2, h3, h4, h5⟩

/-- non-vacuity: the list is not empty (the mania converter's `prev_note_times`) -/
example : Rosu.Gen.LimitedQueueCaps.uses ≠ [] := by decide

namespace StackExamples
open Rosu.Stack

/-- exact instance for the examples: integer times, integer positions, `distance < 3 ⇔ dx² + dy² < 9` -/
def intArith : Stack.Arith Int (Int × Int) where
  sub a b := a - b
  gt a b := decide (a > b)
  close a b := decide ((a.1 - b.1) * (a.1 - b.1) + (a.2 - b.2) * (a.2 - b.2) < 9)

def circ (x y t : Int) : SObj Int (Int × Int) := ⟨0, (x, y), t, t, (x, y), 0, none, none⟩
def slid (x y t e ex ey : Int) : SObj Int (Int × Int) := ⟨1, (x, y), t, e, (ex, ey), 0, some (ex, ey), none⟩

/-- three circles on one spot: heights 2, 1, 0 (new) and 2, 1, 0 (old) -/
example : stacking intArith 500 [circ 10 10 0, circ 10 10 100, circ 10 10 200] = some [2, 1, 0] := by decide
example : oldStacking intArith 500 [circ 10 10 0, circ 10 10 100, circ 10 10 200] = some [2, 1, 0] := by decide
/-- circles under a slider's end: negative stacking (`stack_height -= offset`) -/
example : stacking intArith 500 [slid 0 0 0 50 100 100, circ 100 100 100, circ 100 100 200] = some [0, -1, -2] := by
  decide
example : oldStacking intArith 500 [slid 0 0 0 50 100 100, circ 100 100 100, circ 100 100 200] = some [0, -1, -2] := by
  decide
/-- the checked accesses are real: an inner loop running one index too far (`i + 1..=len`) is reported -/
example : oldInner intArith 500 [circ 0 0 0, circ 0 0 1] 0 (circ 0 0 0) (0, 0) [1, 2] 0 0 [0, 0] = none := by decide
example : circleLoop intArith 500 [circ 0 0 0, circ 0 0 1] 2 2 2 [0, 0] = none := by decide

end StackExamples

end Rosu.C05
