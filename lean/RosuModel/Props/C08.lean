import RosuModel.Lemmas.ModsAccessors
import RosuModel.Lemmas.ModsRef
import RosuModel.Lemmas.Attrs
import RosuModel.Gen.LazerSettings

/-!
# C08 — results do not depend on how equivalent settings are expressed

Statements are about `Model/Mods.lean`, which interprets the accessor tables that
`tools/translate.py` regenerates from `/repo/src/model/mods.rs` (`Gen/Mods.lean`), for a legacy mod
set given as *any* bit mask `b : Nat` (no bound is needed: bits ≥ 30 are masked off by
`GameModsLegacy::from_bits`, bits ≥ 32 never reach the intermode conversion).  The three
representations of the same mask are `Rep.legacy (legacyFromBits b)` (spellings `u32` and
`GameModsLegacy`), `Rep.intermode (fromBits b)` (owned `GameModsIntermode`) and
`Rep.lazer mode (withMode mode (fromBits b))` (`GameMods::from_intermode`, default settings).
-/

namespace Rosu.Mods
open Rosu.Gen.Mods Rosu.Attrs

/-! ## obligations on the generated tables -/

/-- every shape of `mods.rs` the translator reads was understood -/
theorem gen_shape_ok : shapeOk = true := by decide

/-- every `impl_has_mod!` row names, in its Legacy arm, the single legacy bit that
`GameModsIntermode::from_bits` maps to the mod of its Intermode/Lazer arms (`+` rows), or a mod
woDa legacy bit (`-` rows) -/
theorem rows_ok : hasModRows.all rowOk = true := by decide

/-- the flags `od_ar_hp_multiplier` looks at exist in every mode -/
theorem mult_chain_available (mode : Mode) : multChain.all (fun c => availAt mode c.1) = true := by
  cases mode <;> decide

/-- every flag accessor (and `mania_keys`) that the code under `src/<mode>/` calls names a mod
that `GameMods::from_intermode(_, mode)` keeps findable: the lazer spelling cannot lose a flag
that the mode's calculators consume -/
theorem consumed_flags_survive_lazer :
    flagUses.all (fun u => availAt u.1 u.2) = true ∧ maniaKeysUses.all (fun m => m == Mode.mania) = true := by
  decide

/-! ## flags (`nf() … tc()`) -/

theorem flags_agree (b : Nat) (row : String × IMod × Option LName) (hrow : row ∈ hasModRows) :
    (Rep.legacy (legacyFromBits b) : Rep Rat).flag row = (Rep.intermode (fromBits b) : Rep Rat).flag row ∧
    ∀ mode, (Rep.lazer mode (withMode mode (fromBits b)) : Rep Rat).flag row =
      ((Rep.legacy (legacyFromBits b) : Rep Rat).flag row && avail mode row.2.1) := by
  have hok := List.all_eq_true.mp rows_ok row hrow
  refine ⟨by rw [flag_legacy Rat row hok, flag_intermode Rat row hok], fun mode => ?_⟩
  rw [flag_lazer Rat row hok, flag_legacy Rat row hok]

/-- the lazer spelling agrees on every flag whose mod exists in the mode -/
theorem flags_agree_lazer (b : Nat) (mode : Mode) (row : String × IMod × Option LName)
    (hrow : row ∈ hasModRows) (hav : avail mode row.2.1 = true) :
    (Rep.lazer mode (withMode mode (fromBits b)) : Rep Rat).flag row =
      (Rep.legacy (legacyFromBits b) : Rep Rat).flag row := by
  rw [(flags_agree b row hrow).2 mode, hav, Bool.and_true]

/-! ## clock rate -/

/-- no speed-up together with a slow-down: not both the DT bit (also set by NC) and the HT bit -/
def OneDirection (b : Nat) : Prop := ¬ (b.testBit 6 = true ∧ b.testBit 8 = true)

/-- full statement: every representation reports the same clock rate, for every mask … -/
def ClockRateAgreesFull : Prop :=
  ∀ b : Nat, (Rep.legacy (legacyFromBits b) : Rep Rat).clockRate numQ =
    (Rep.intermode (fromBits b) : Rep Rat).clockRate numQ

/-- … is false of the code: DT+HT (bits 64|256) is 1.5 for Legacy (and hence for the `u32`,
`GameModsLegacy` and `&GameModsIntermode` spellings) but 0.75 for Intermode and Lazer, which
iterate in (kind, acronym) order and meet HT first. -/
theorem dt_ht_disagree :
    (spell Rat .u32 320).clockRate numQ = 3 / 2 ∧
    (spell Rat .legacy 320).clockRate numQ = 3 / 2 ∧
    (spell Rat .intermodeRef 320).clockRate numQ = 3 / 2 ∧
    (spell Rat .intermode 320).clockRate numQ = 3 / 4 ∧
    (spell Rat (.lazer .osu) 320).clockRate numQ = 3 / 4 := by
  decide +kernel

theorem clock_rate_full_fails : ¬ ClockRateAgreesFull := by
  intro h
  have := h 320
  revert this
  decide +kernel

/-- Intermode and Lazer (any mode) always agree with each other -/
theorem clock_rate_intermode_eq_lazer (b : Nat) (mode : Mode) :
    (Rep.intermode (fromBits b) : Rep Rat).clockRate numQ =
      (Rep.lazer mode (withMode mode (fromBits b)) : Rep Rat).clockRate numQ := by
  simp only [Rep.clockRate]
  rw [imLegacyClockRate_eq]
  exact (lazerClockRate_eq mode (fromBits b)).symm

/-- the strongest true statement: all three agree unless DT/NC and HT are combined -/
theorem clock_rate_agree_partial (b : Nat) (h : OneDirection b) (mode : Mode) :
    (Rep.legacy (legacyFromBits b) : Rep Rat).clockRate numQ =
      (Rep.intermode (fromBits b) : Rep Rat).clockRate numQ ∧
    (Rep.legacy (legacyFromBits b) : Rep Rat).clockRate numQ =
      (Rep.lazer mode (withMode mode (fromBits b)) : Rep Rat).clockRate numQ := by
  have e : (Rep.legacy (legacyFromBits b) : Rep Rat).clockRate numQ =
      (Rep.intermode (fromBits b) : Rep Rat).clockRate numQ := by
    simp only [Rep.clockRate, legacyClockRate_eq, intermodeClockRate_eq]
    unfold OneDirection at h
    cases h6 : b.testBit 6 <;> cases h8 : b.testBit 8 <;> simp_all
  exact ⟨e, e.trans (clock_rate_intermode_eq_lazer b mode)⟩

/-! ## the other accessors: agreement for every mask -/

theorem mult_agree (b : Nat) (mode : Mode) :
    (Rep.legacy (legacyFromBits b) : Rep Rat).mult numQ = (Rep.intermode (fromBits b) : Rep Rat).mult numQ ∧
    (Rep.lazer mode (withMode mode (fromBits b)) : Rep Rat).mult numQ =
      (Rep.legacy (legacyFromBits b) : Rep Rat).mult numQ :=
  ⟨mult_legacy_eq_intermode rows_ok b, mult_lazer_eq_legacy rows_ok mode (mult_chain_available mode) b⟩

/-- `od_ar_hp_multiplier()` is 1.4 with HR (even with EZ), 0.5 with EZ, 1.0 otherwise -/
theorem mult_values :
    (Rep.legacy (legacyFromBits 16) : Rep Rat).mult numQ = 7 / 5 ∧
    (Rep.legacy (legacyFromBits 18) : Rep Rat).mult numQ = 7 / 5 ∧
    (Rep.legacy (legacyFromBits 2) : Rep Rat).mult numQ = 1 / 2 ∧
    (Rep.legacy (legacyFromBits 0) : Rep Rat).mult numQ = 1 := by
  decide +kernel

/-- `hr()`, `ez()` (what the attribute builder reads) and `hardrock_offsets()` -/
theorem hr_ez_agree (b : Nat) (mode : Mode) :
    (Rep.legacy (legacyFromBits b) : Rep Rat).hr = (Rep.intermode (fromBits b) : Rep Rat).hr ∧
    (Rep.legacy (legacyFromBits b) : Rep Rat).ez = (Rep.intermode (fromBits b) : Rep Rat).ez ∧
    (Rep.lazer mode (withMode mode (fromBits b)) : Rep Rat).hr = (Rep.legacy (legacyFromBits b) : Rep Rat).hr ∧
    (Rep.lazer mode (withMode mode (fromBits b)) : Rep Rat).ez = (Rep.legacy (legacyFromBits b) : Rep Rat).ez ∧
    (Rep.legacy (legacyFromBits b) : Rep Rat).hardrockOffsets = (Rep.intermode (fromBits b) : Rep Rat).hardrockOffsets ∧
    (Rep.lazer mode (withMode mode (fromBits b)) : Rep Rat).hardrockOffsets =
      (Rep.legacy (legacyFromBits b) : Rep Rat).hardrockOffsets := by
  have a1 : availAt mode rowHr = true := by cases mode <;> decide
  have a2 : availAt mode rowEz = true := by cases mode <;> decide
  exact ⟨flagAt_legacy_eq_intermode Rat rows_ok b rowHr, flagAt_legacy_eq_intermode Rat rows_ok b rowEz,
    flagAt_lazer_eq_legacy Rat rows_ok b rowHr mode a1, flagAt_lazer_eq_legacy Rat rows_ok b rowEz mode a2,
    flagAt_legacy_eq_intermode Rat rows_ok b rowHr, flagAt_lazer_eq_legacy Rat rows_ok b rowHr mode a1⟩

theorem no_slider_head_acc_agree (b : Nat) (mode : Mode) (lz : Bool) :
    (Rep.legacy (legacyFromBits b) : Rep Rat).noSliderHeadAcc lz = (Rep.intermode (fromBits b) : Rep Rat).noSliderHeadAcc lz ∧
    (Rep.legacy (legacyFromBits b) : Rep Rat).noSliderHeadAcc lz =
      (Rep.lazer mode (withMode mode (fromBits b)) : Rep Rat).noSliderHeadAcc lz := by
  rw [nsh_intermode, nsh_lazer]; exact ⟨rfl, rfl⟩

/-- `reflection()`: Legacy and Intermode always agree; Lazer agrees for osu! (the only mode whose
calculator distinguishes Vertical) as long as the Mirror bit 1<<30 — which `GameModsLegacy`
cannot even represent — is clear.  For the other modes the lazer mods yield `None` where the
legacy spellings say `Vertical`; catch only ever tests for `Horizontal`, taiko/mania never call
`reflection()`, so what they consume (`== Horizontal`) agrees as well. -/
theorem reflection_agree (b : Nat) (mode : Mode) (h30 : b.testBit 30 = false) :
    (Rep.legacy (legacyFromBits b) : Rep Rat).reflection = (Rep.intermode (fromBits b) : Rep Rat).reflection ∧
    (mode = .osu → (Rep.lazer mode (withMode mode (fromBits b)) : Rep Rat).reflection =
      (Rep.legacy (legacyFromBits b) : Rep Rat).reflection) ∧
    (decide ((Rep.lazer mode (withMode mode (fromBits b)) : Rep Rat).reflection = .horizontal) =
      decide ((Rep.legacy (legacyFromBits b) : Rep Rat).reflection = .horizontal)) := by
  rw [reflection_legacy, reflection_intermode, reflection_lazer]
  refine ⟨rfl, ?_, ?_⟩
  · intro hm; subst hm; simp [h30]
  · cases mode <;> cases h4 : b.testBit 4 <;> simp [h30]

theorem mania_keys_agree (b : Nat) (mode : Mode) :
    ((Rep.legacy (legacyFromBits b) : Rep Rat).maniaKeys).map (·.q) =
      ((Rep.intermode (fromBits b) : Rep Rat).maniaKeys).map (·.q) ∧
    (mode = .mania → ((Rep.lazer mode (withMode mode (fromBits b)) : Rep Rat).maniaKeys).map (·.q) =
      ((Rep.legacy (legacyFromBits b) : Rep Rat).maniaKeys).map (·.q)) := by
  rw [maniaKeys_legacy, maniaKeys_intermode, maniaKeys_lazer]
  exact ⟨rfl, fun hm => by simp [hm]⟩

/-- no representation of a legacy mask provides DifficultyAdjust values -/
theorem map_attr_agree (b : Nat) (mode : Mode) :
    let lz : Rep Rat := Rep.lazer mode (withMode mode (fromBits b))
    lz.ar = none ∧ lz.cs = none ∧ lz.hp = none ∧ lz.od = none ∧
    (Rep.legacy (legacyFromBits b) : Rep Rat).ar = none ∧ (Rep.intermode (fromBits b) : Rep Rat).ar = none := by
  refine ⟨mapAttr_lazer_default _ _ _ _ (fun _ => rfl), mapAttr_lazer_default _ _ _ _ (fun _ => rfl),
    mapAttr_lazer_default _ _ _ _ (fun _ => rfl), mapAttr_lazer_default _ _ _ _ (fun _ => rfl), rfl, rfl⟩

/-- all accessors at once: the snapshots of the `u32`/`GameModsLegacy` spelling and of the owned
`GameModsIntermode` spelling are equal for every mask woDa DT/NC + HT -/
theorem accessors_agree_partial (b : Nat) (h : OneDirection b) :
    (spell Rat .u32 b).snapshot = (spell Rat .intermode b).snapshot ∧
    (spell Rat .legacy b).snapshot = (spell Rat .intermode b).snapshot := by
  have key : (Rep.legacy (legacyFromBits b) : Rep Rat).snapshot = (Rep.intermode (fromBits b) : Rep Rat).snapshot := by
    simp only [Rep.snapshot, Snapshot.mk.injEq]
    refine ⟨(clock_rate_agree_partial b h .osu).1, (mult_agree b .osu).1, (hr_ez_agree b .osu).2.2.2.2.1,
      (no_slider_head_acc_agree b .osu true).1, (no_slider_head_acc_agree b .osu false).1,
      (reflection_agree_li b), (mania_keys_agree b .osu).1, rfl, rfl, rfl, rfl, ?_⟩
    exact List.map_congr_left (fun row hrow => (flags_agree b row hrow).1)
  exact ⟨key, key⟩

/-- the rows only read bit positions that `checked_bits(from_bits(b))` reproduces -/
theorem rows_relevant : hasModRows.all rowRelevant = true := by decide

/-- the fifth spelling, `&GameModsIntermode`: `From<&GameModsIntermode>` finds `checked_bits()` for
every set that came from bits and downgrades to `Legacy`; every accessor then reports what the
`u32` spelling reports — for every mask, including DT+HT (where both say 1.5). -/
theorem ref_spelling_agrees (b : Nat) :
    (spell Rat .intermodeRef b).snapshot = (spell Rat .u32 b).snapshot :=
  ref_spelling_snapshot rows_ok rows_relevant b

/-! ## a lazer rate mod equals the explicit clock rate; a DifficultyAdjust value equals the override -/

/-- `Difficulty::mods(… rate mod with speed_change r …)` and `Difficulty::clock_rate(r)` reach
`get_clock_rate() = r` (over ℚ; `Nightcore`/`Daycore` compute `d·(r/d)`, which is `r` exactly in
ℚ but not always in f64 — known finding, checked bit-exactly by the harness).  `l` is any lazer
mod list (any other mods, any settings) whose only rate mod is `x`. -/
theorem rate_eq_clock_rate (mode : Mode) (l : List (LMod Rat)) (x : LMod Rat) (r : Rat)
    (hx : x ∈ l) (hk : isRate x.kind = true) (hs : x.speed = some r)
    (huniq : ∀ m ∈ l, isRate m.kind = true → m = x)
    (hlo : 1 / 100 ≤ r) (hhi : r ≤ 100) (other : Rep Rat) :
    ({ mods := Rep.lazer mode l, clockRate := none } : Diff Rat).getClockRate numQ = r ∧
    ({ mods := other, clockRate := some (clampClockRate r) } : Diff Rat).getClockRate numQ = r := by
  constructor
  · exact clockRate_with_rate mode l x r hx hk hs huniq
  · simp only [Diff.getClockRate, clampClockRate, rclamp]
    split_ifs <;> first | rfl | (exfalso; linarith)

/-- what the accessors report for a lazer set with exactly one DifficultyAdjust mod `da`:
its field when the mode's DifficultyAdjust has that field (generated `impl_map_attr!` rows) -/
theorem da_accessors (mode : Mode) (l : List (LMod Rat)) (da : LMod Rat) (hda : da ∈ l)
    (hk : da.kind = .DifficultyAdjust) (huniq : ∀ m ∈ l, m.kind = .DifficultyAdjust → m = da) :
    (Rep.lazer mode l : Rep Rat).ar = (if mode = .osu ∨ mode = .catch then da.ar else none) ∧
    (Rep.lazer mode l : Rep Rat).cs = (if mode = .osu ∨ mode = .catch then da.cs else none) ∧
    (Rep.lazer mode l : Rep Rat).hp = da.hp ∧
    (Rep.lazer mode l : Rep Rat).od = da.od := by
  simp only [Rep.ar, Rep.cs, Rep.hp, Rep.od, mapAttr_unique mode l da _ _ hda hk huniq]
  cases mode <;> simp [arModes, csModes, hpModes, odModes]

/-- removing the DifficultyAdjust mod changes nothing but the four attribute accessors -/
theorem view_noDA (mode : Mode) (l : List (LMod Rat)) :
    (Rep.lazer mode (noDA l) : Rep Rat).view =
      { Rep.view (Rep.lazer mode l) with ar := none, cs := none, hp := none, od := none } := by
  have hrows : ∀ i, (Rep.lazer mode (noDA l) : Rep Rat).flagAt i = (Rep.lazer mode l : Rep Rat).flagAt i := by
    intro i
    unfold Rep.flagAt
    cases h : hasModRows[i]? with
    | none => rfl
    | some row =>
      have hmem : row ∈ hasModRows := List.mem_of_getElem? h
      have hne : row.2.1 ≠ .DifficultyAdjust := by
        have : hasModRows.all (fun r => r.2.1 != .DifficultyAdjust) = true := by decide
        simpa using List.all_eq_true.mp this row hmem
      exact flag_noDA mode l row hne
  simp only [Rep.view, Rep.hr, Rep.ez, Rep.mult, hrows, clockRate_noDA, Rep.ar, Rep.cs, Rep.hp, Rep.od,
    mapAttr_noDA]

/-- `Difficulty::mods(… DifficultyAdjust{ar,cs,hp,od} …)` builds the same attributes as the same
mods woDa the DifficultyAdjust mod plus `Difficulty::{ar,cs,hp,od}(value, false)` for the
values the accessors report (map-provided attributes; the `f64 → f32` cast of the value is the
identity in ℚ and is checked by the harness). -/
theorem da_eq_override (mode : Mode) (l : List (LMod Rat)) (b : Builder) (c : Option Rat)
    (xa xc xh xo : Rat)
    (ha : b.ar = .dflt ⟨xa, false⟩) (hc : b.cs = .dflt ⟨xc, false⟩)
    (hh : b.hp = .dflt ⟨xh, false⟩) (ho : b.od = .dflt ⟨xo, false⟩) :
    let withDa : Rep Rat := Rep.lazer mode l
    let woDa : Rep Rat := Rep.lazer mode (noDA l)
    (b.difficulty { mods := withDa.view, clockRate := c, ar := none, cs := none, hp := none, od := none }).build =
    (b.difficulty
      { mods := woDa.view
        clockRate := c
        ar := (withDa.ar).map (fun v => ⟨v, false⟩)
        cs := (withDa.cs).map (fun v => ⟨v, false⟩)
        hp := (withDa.hp).map (fun v => ⟨v, false⟩)
        od := (withDa.od).map (fun v => ⟨v, false⟩) }).build := by
  intro withDa woDa
  have := difficulty_da_eq_override b withDa.view c xa xc xh xo ha hc hh ho
  rw [this, view_noDA]
  rfl

/-! ## non-vacuity -/

/-- the domain of the partial theorem is most of the space (e.g. HDHRDT, EZHT, NC) … -/
example : OneDirection 88 ∧ OneDirection 258 ∧ OneDirection 576 := by
  unfold OneDirection; decide

/-- … and the accessors really vary on it -/
example : (spell Rat .u32 88).snapshot ≠ (spell Rat .u32 258).snapshot := by decide +kernel

/-- hypotheses of `rate_eq_clock_rate` are satisfiable: HD + Nightcore with speed 1.3 -/
example : ∃ (l : List (LMod Rat)) (x : LMod Rat), x ∈ l ∧ isRate x.kind = true ∧ x.speed = some (13 / 10) ∧
    (∀ m ∈ l, isRate m.kind = true → m = x) ∧ l.length = 2 :=
  ⟨[{ kind := .Hidden }, { kind := .Nightcore, speed := some (13 / 10) }],
    { kind := .Nightcore, speed := some (13 / 10) }, by simp, by decide, rfl, by
      intro m hm
      simp only [List.mem_cons, List.mem_nil_iff, or_false] at hm
      rcases hm with rfl | rfl
      · intro h; exact absurd h (by decide)
      · intro _; rfl, rfl⟩

/-! ## settings of lazer mods (generated arms)

`Model/Mods.lean` evaluates the accessors below for lazer mods with *default* settings
(`Rep.reflection`: HardRockOsu ↦ Vertical, Mirror ↦ Horizontal; `Rep.noSliderHeadAcc`: Classic ↦
true; `Rep.hardrockOffsets` = `hr`; no scroll speed, no random seed).  The arms those defaults were
read from are re-extracted from `src/model/mods.rs` on every run; a change of an arm or of a default
breaks the obligation. -/

section LazerSettings
open Rosu.Gen.LazerSettings

theorem lazer_settings_shapes_understood : lazerSettingsUnknown = [] := by decide

/-- The lazer arms of `reflection`, `no_slider_head_acc`, `hardrock_offsets`, `scroll_speed`,
`random_seed`, what is applied to the lookup's result, and how the other two representations are
treated — exactly the shapes `Model/Mods.lean` was transcribed from:
* `reflection`: first of HardRockOsu ↦ Vertical, MirrorOsu ↦ by its `reflection` setting (unset ↦
  Horizontal, "1" ↦ Vertical, "2" ↦ Both, anything else ↦ None), MirrorCatch ↦ Horizontal; no such
  mod ↦ None; Intermode/Legacy: HardRock ↦ Vertical, else None;
* `no_slider_head_acc(lazer)`: ClassicOsu ↦ its `no_slider_head_accuracy` setting, unset ↦ `true`; no
  Classic ↦ `!lazer`; Intermode: `Classic || !lazer`; Legacy: `!lazer`;
* `hardrock_offsets`: DifficultyAdjustCatch's `hard_rock_offsets` setting, otherwise (unset, other
  representations) `self.hr()`;
* `scroll_speed`: DifficultyAdjustTaiko's setting, lazer only;
* `random_seed`: the seed of RandomTaiko / RandomMania as `i32`, lazer only. -/
theorem lazer_setting_arms_as_modelled :
    lazerArms =
      [("reflection",
          [("GameMod::HardRockOsu(_)", "Some(Reflection::Vertical)"),
           ("GameMod::MirrorOsu(mr)", "match mr.reflection.as_deref(){None=>Some(Reflection::Horizontal),Some(\"1\")=>Some(Reflection::Vertical),Some(\"2\")=>Some(Reflection::Both),Some(_)=>Some(Reflection::None)}"),
           ("GameMod::MirrorCatch(_)", "Some(Reflection::Horizontal)"), ("_", "None")]),
       ("no_slider_head_acc",
          [("GameMod::ClassicOsu(cl)", "Some(cl.no_slider_head_accuracy.unwrap_or(true))"), ("_", "None")]),
       ("hardrock_offsets",
          [("GameMod::DifficultyAdjustCatch(DifficultyAdjustCatch{hard_rock_offsets,..})", "*hard_rock_offsets"),
           ("_", "None")]),
       ("scroll_speed", [("GameMod::DifficultyAdjustTaiko(da)", "Some(da.scroll_speed)"), ("_", "None")]),
       ("random_seed", [("GameMod::RandomTaiko(m)", "m.seed"), ("GameMod::RandomMania(m)", "m.seed"), ("_", "None")])] ∧
    lazerTail =
      [("reflection", ".unwrap_or(Reflection::None)"), ("no_slider_head_acc", ".unwrap_or(!lazer)"),
       ("hardrock_offsets", ""), ("scroll_speed", ".flatten()"), ("random_seed", ".map(|seed|seed as i32)")] ∧
    accessorContext =
      [("reflection", "match self{Self::Lazer(ref mods)=><LAZER>,Self::Intermode(ref mods)=>{if mods.contains(GameModIntermode::HardRock){Reflection::Vertical}else{Reflection::None}}Self::Legacy(mods)=>{if mods.contains(GameModsLegacy::HardRock){Reflection::Vertical}else{Reflection::None}}}"),
       ("no_slider_head_acc", "match self{Self::Lazer(ref mods)=><LAZER>,Self::Intermode(ref mods)=>mods.contains(GameModIntermode::Classic)||!lazer,Self::Legacy(_)=>!lazer}"),
       ("hardrock_offsets", "fn custom_hardrock_offsets(mods:&GameMods)->Option<bool>{match mods{GameMods::Lazer(ref mods)=><LAZER>,GameMods::Intermode(_)|GameMods::Legacy(_)=>None}}custom_hardrock_offsets(self).unwrap_or_else(||self.hr())"),
       ("scroll_speed", "let Self::Lazer(mods)=self else{return None};<LAZER>"),
       ("random_seed", "let Self::Lazer(mods)=self else{return None};<LAZER>")] := by decide +kernel

end LazerSettings

end Rosu.Mods
