import RosuModel.Lemmas.ModsAccessors
import RosuModel.Lemmas.ModsRef
import RosuModel.Lemmas.ModsSettings
import RosuModel.Lemmas.Attrs
import RosuModel.Gen.LazerSettings

/-!
# C08 — results do not depend on how equivalent settings are expressed

Statements are about `Model/Mods.lean`, which interprets the accessor tables that
`tools/translate.py` regenerates from `/repo/src/model/mods.rs` (`Gen/Mods.lean`), for a legacy mod
set given as *any* bit mask `b : Nat` (no bound is needed: bits ≥ 30 are masked off by
`GameModsLegacy::from_bits`, bits ≥ 32 never reach the intermode conversion).  The three
representations of the same mask are `Rep.legacy (legacyFromBits b)` (spellings `u32` and
`GameModsLegacy`), `Rep.intermode (fromBits b)` (owned `GameModsIntermode`) and
`Rep.lazer mode (withMode mode (fromBits b))` (`GameMods::from_intermode`, default settings).
-/

namespace Rosu.Mods
open Rosu.Gen.Mods Rosu.Attrs

/-! ## obligations on the generated tables -/

/-- every shape of `mods.rs` the translator reads was understood -/
theorem gen_shape_ok : shapeOk = true := by decide

/-- every `impl_has_mod!` row names, in its Legacy arm, the single legacy bit that
`GameModsIntermode::from_bits` maps to the mod of its Intermode/Lazer arms (`+` rows), or a mod
woDa legacy bit (`-` rows) -/
theorem rows_ok : hasModRows.all rowOk = true := by decide

/-- the flags `od_ar_hp_multiplier` looks at exist in every mode -/
theorem mult_chain_available (mode : Mode) : multChain.all (fun c => availAt mode c.1) = true := by
  cases mode <;> decide

/-- every flag accessor (and `mania_keys`) that the code under `src/<mode>/` calls names a mod
that `GameMods::from_intermode(_, mode)` keeps findable: the lazer spelling cannot lose a flag
that the mode's calculators consume -/
theorem consumed_flags_survive_lazer :
    flagUses.all (fun u => availAt u.1 u.2) = true ∧ maniaKeysUses.all (fun m => m == Mode.mania) = true := by
  decide

/-! ## flags (`nf() … tc()`) -/

theorem flags_agree (b : Nat) (row : String × IMod × Option LName) (hrow : row ∈ hasModRows) :
    (Rep.legacy (legacyFromBits b) : Rep Rat).flag row = (Rep.intermode (fromBits b) : Rep Rat).flag row ∧
    ∀ mode, (Rep.lazer mode (withMode mode (fromBits b)) : Rep Rat).flag row =
      ((Rep.legacy (legacyFromBits b) : Rep Rat).flag row && avail mode row.2.1) := by
  have hok := List.all_eq_true.mp rows_ok row hrow
  refine ⟨by rw [flag_legacy Rat row hok, flag_intermode Rat row hok], fun mode => ?_⟩
  rw [flag_lazer Rat row hok, flag_legacy Rat row hok]

/-- the lazer spelling agrees on every flag whose mod exists in the mode -/
theorem flags_agree_lazer (b : Nat) (mode : Mode) (row : String × IMod × Option LName)
    (hrow : row ∈ hasModRows) (hav : avail mode row.2.1 = true) :
    (Rep.lazer mode (withMode mode (fromBits b)) : Rep Rat).flag row =
      (Rep.legacy (legacyFromBits b) : Rep Rat).flag row := by
  rw [(flags_agree b row hrow).2 mode, hav, Bool.and_true]

/-! ## clock rate -/

/-- no speed-up together with a slow-down: not both the DT bit (also set by NC) and the HT bit -/
def OneDirection (b : Nat) : Prop := ¬ (b.testBit 6 = true ∧ b.testBit 8 = true)

/-- full statement: every representation reports the same clock rate, for every mask … -/
def ClockRateAgreesFull : Prop :=
  ∀ b : Nat, (Rep.legacy (legacyFromBits b) : Rep Rat).clockRate numQ =
    (Rep.intermode (fromBits b) : Rep Rat).clockRate numQ

/-- … is false of the code: DT+HT (bits 64|256) is 1.5 for Legacy (and hence for the `u32`,
`GameModsLegacy` and `&GameModsIntermode` spellings) but 0.75 for Intermode and Lazer, which
iterate in (kind, acronym) order and meet HT first. -/
theorem dt_ht_disagree :
    (spell Rat .u32 320).clockRate numQ = 3 / 2 ∧
    (spell Rat .legacy 320).clockRate numQ = 3 / 2 ∧
    (spell Rat .intermodeRef 320).clockRate numQ = 3 / 2 ∧
    (spell Rat .intermode 320).clockRate numQ = 3 / 4 ∧
    (spell Rat (.lazer .osu) 320).clockRate numQ = 3 / 4 := by
  decide +kernel

theorem clock_rate_full_fails : ¬ ClockRateAgreesFull := by
  intro h
  have := h 320
  revert this
  decide +kernel

/-- Intermode and Lazer (any mode) always agree with each other -/
theorem clock_rate_intermode_eq_lazer (b : Nat) (mode : Mode) :
    (Rep.intermode (fromBits b) : Rep Rat).clockRate numQ =
      (Rep.lazer mode (withMode mode (fromBits b)) : Rep Rat).clockRate numQ := by
  simp only [Rep.clockRate]
  rw [imLegacyClockRate_eq]
  exact (lazerClockRate_eq mode (fromBits b)).symm

/-- the strongest true statement: all three agree unless DT/NC and HT are combined -/
theorem clock_rate_agree_partial (b : Nat) (h : OneDirection b) (mode : Mode) :
    (Rep.legacy (legacyFromBits b) : Rep Rat).clockRate numQ =
      (Rep.intermode (fromBits b) : Rep Rat).clockRate numQ ∧
    (Rep.legacy (legacyFromBits b) : Rep Rat).clockRate numQ =
      (Rep.lazer mode (withMode mode (fromBits b)) : Rep Rat).clockRate numQ := by
  have e : (Rep.legacy (legacyFromBits b) : Rep Rat).clockRate numQ =
      (Rep.intermode (fromBits b) : Rep Rat).clockRate numQ := by
    simp only [Rep.clockRate, legacyClockRate_eq, intermodeClockRate_eq]
    unfold OneDirection at h
    cases h6 : b.testBit 6 <;> cases h8 : b.testBit 8 <;> simp_all
  exact ⟨e, e.trans (clock_rate_intermode_eq_lazer b mode)⟩

/-! ## the other accessors: agreement for every mask -/

theorem mult_agree (b : Nat) (mode : Mode) :
    (Rep.legacy (legacyFromBits b) : Rep Rat).mult numQ = (Rep.intermode (fromBits b) : Rep Rat).mult numQ ∧
    (Rep.lazer mode (withMode mode (fromBits b)) : Rep Rat).mult numQ =
      (Rep.legacy (legacyFromBits b) : Rep Rat).mult numQ :=
  ⟨mult_legacy_eq_intermode rows_ok b, mult_lazer_eq_legacy rows_ok mode (mult_chain_available mode) b⟩

/-- `od_ar_hp_multiplier()` is 1.4 with HR (even with EZ), 0.5 with EZ, 1.0 otherwise -/
theorem mult_values :
    (Rep.legacy (legacyFromBits 16) : Rep Rat).mult numQ = 7 / 5 ∧
    (Rep.legacy (legacyFromBits 18) : Rep Rat).mult numQ = 7 / 5 ∧
    (Rep.legacy (legacyFromBits 2) : Rep Rat).mult numQ = 1 / 2 ∧
    (Rep.legacy (legacyFromBits 0) : Rep Rat).mult numQ = 1 := by
  decide +kernel

/-- `hr()`, `ez()` (what the attribute builder reads) and `hardrock_offsets()` -/
theorem hr_ez_agree (b : Nat) (mode : Mode) :
    (Rep.legacy (legacyFromBits b) : Rep Rat).hr = (Rep.intermode (fromBits b) : Rep Rat).hr ∧
    (Rep.legacy (legacyFromBits b) : Rep Rat).ez = (Rep.intermode (fromBits b) : Rep Rat).ez ∧
    (Rep.lazer mode (withMode mode (fromBits b)) : Rep Rat).hr = (Rep.legacy (legacyFromBits b) : Rep Rat).hr ∧
    (Rep.lazer mode (withMode mode (fromBits b)) : Rep Rat).ez = (Rep.legacy (legacyFromBits b) : Rep Rat).ez ∧
    (Rep.legacy (legacyFromBits b) : Rep Rat).hardrockOffsets = (Rep.intermode (fromBits b) : Rep Rat).hardrockOffsets ∧
    (Rep.lazer mode (withMode mode (fromBits b)) : Rep Rat).hardrockOffsets =
      (Rep.legacy (legacyFromBits b) : Rep Rat).hardrockOffsets := by
  have a1 : availAt mode rowHr = true := by cases mode <;> decide
  have a2 : availAt mode rowEz = true := by cases mode <;> decide
  exact ⟨flagAt_legacy_eq_intermode Rat rows_ok b rowHr, flagAt_legacy_eq_intermode Rat rows_ok b rowEz,
    flagAt_lazer_eq_legacy Rat rows_ok b rowHr mode a1, flagAt_lazer_eq_legacy Rat rows_ok b rowEz mode a2,
    flagAt_legacy_eq_intermode Rat rows_ok b rowHr,
    (hardrockOffsets_withMode mode (fromBits b)).trans (flagAt_lazer_eq_legacy Rat rows_ok b rowHr mode a1)⟩

theorem no_slider_head_acc_agree (b : Nat) (mode : Mode) (lz : Bool) :
    (Rep.legacy (legacyFromBits b) : Rep Rat).noSliderHeadAcc lz = (Rep.intermode (fromBits b) : Rep Rat).noSliderHeadAcc lz ∧
    (Rep.legacy (legacyFromBits b) : Rep Rat).noSliderHeadAcc lz =
      (Rep.lazer mode (withMode mode (fromBits b)) : Rep Rat).noSliderHeadAcc lz := by
  rw [nsh_intermode, nsh_lazer]; exact ⟨rfl, rfl⟩

/-- `reflection()`: Legacy and Intermode always agree; Lazer agrees for osu! (the only mode whose
calculator distinguishes Vertical) as long as the Mirror bit 1<<30 — which `GameModsLegacy`
cannot even represent — is clear.  For the other modes the lazer mods yield `None` where the
legacy spellings say `Vertical`; catch only ever tests for `Horizontal`, taiko/mania never call
`reflection()`, so what they consume (`== Horizontal`) agrees as well. -/
theorem reflection_agree (b : Nat) (mode : Mode) (h30 : b.testBit 30 = false) :
    (Rep.legacy (legacyFromBits b) : Rep Rat).reflection = (Rep.intermode (fromBits b) : Rep Rat).reflection ∧
    (mode = .osu → (Rep.lazer mode (withMode mode (fromBits b)) : Rep Rat).reflection =
      (Rep.legacy (legacyFromBits b) : Rep Rat).reflection) ∧
    (decide ((Rep.lazer mode (withMode mode (fromBits b)) : Rep Rat).reflection = .horizontal) =
      decide ((Rep.legacy (legacyFromBits b) : Rep Rat).reflection = .horizontal)) := by
  rw [reflection_legacy, reflection_intermode, reflection_lazer]
  refine ⟨rfl, ?_, ?_⟩
  · intro hm; subst hm; simp [h30]
  · cases mode <;> cases h4 : b.testBit 4 <;> simp [h30]

theorem mania_keys_agree (b : Nat) (mode : Mode) :
    ((Rep.legacy (legacyFromBits b) : Rep Rat).maniaKeys).map (·.q) =
      ((Rep.intermode (fromBits b) : Rep Rat).maniaKeys).map (·.q) ∧
    (mode = .mania → ((Rep.lazer mode (withMode mode (fromBits b)) : Rep Rat).maniaKeys).map (·.q) =
      ((Rep.legacy (legacyFromBits b) : Rep Rat).maniaKeys).map (·.q)) := by
  rw [maniaKeys_legacy, maniaKeys_intermode, maniaKeys_lazer]
  exact ⟨rfl, fun hm => by simp [hm]⟩

/-- no representation of a legacy mask provides DifficultyAdjust values -/
theorem map_attr_agree (b : Nat) (mode : Mode) :
    let lz : Rep Rat := Rep.lazer mode (withMode mode (fromBits b))
    lz.ar = none ∧ lz.cs = none ∧ lz.hp = none ∧ lz.od = none ∧
    (Rep.legacy (legacyFromBits b) : Rep Rat).ar = none ∧ (Rep.intermode (fromBits b) : Rep Rat).ar = none := by
  refine ⟨mapAttr_lazer_default _ _ _ _ (fun _ => rfl), mapAttr_lazer_default _ _ _ _ (fun _ => rfl),
    mapAttr_lazer_default _ _ _ _ (fun _ => rfl), mapAttr_lazer_default _ _ _ _ (fun _ => rfl), rfl, rfl⟩

/-- all accessors at once: the snapshots of the `u32`/`GameModsLegacy` spelling and of the owned
`GameModsIntermode` spelling are equal for every mask woDa DT/NC + HT -/
theorem accessors_agree_partial (b : Nat) (h : OneDirection b) :
    (spell Rat .u32 b).snapshot = (spell Rat .intermode b).snapshot ∧
    (spell Rat .legacy b).snapshot = (spell Rat .intermode b).snapshot := by
  have key : (Rep.legacy (legacyFromBits b) : Rep Rat).snapshot = (Rep.intermode (fromBits b) : Rep Rat).snapshot := by
    simp only [Rep.snapshot, Snapshot.mk.injEq]
    refine ⟨(clock_rate_agree_partial b h .osu).1, (mult_agree b .osu).1, (hr_ez_agree b .osu).2.2.2.2.1,
      (no_slider_head_acc_agree b .osu true).1, (no_slider_head_acc_agree b .osu false).1,
      (reflection_agree_li b), (mania_keys_agree b .osu).1, rfl, rfl, rfl, rfl, rfl, rfl, ?_⟩
    exact List.map_congr_left (fun row hrow => (flags_agree b row hrow).1)
  exact ⟨key, key⟩

/-- the rows only read bit positions that `checked_bits(from_bits(b))` reproduces -/
theorem rows_relevant : hasModRows.all rowRelevant = true := by decide

/-- the fifth spelling, `&GameModsIntermode`: `From<&GameModsIntermode>` finds `checked_bits()` for
every set that came from bits and downgrades to `Legacy`; every accessor then reports what the
`u32` spelling reports — for every mask, including DT+HT (where both say 1.5). -/
theorem ref_spelling_agrees (b : Nat) :
    (spell Rat .intermodeRef b).snapshot = (spell Rat .u32 b).snapshot :=
  ref_spelling_snapshot rows_ok rows_relevant b

/-! ## a lazer rate mod equals the explicit clock rate; a DifficultyAdjust value equals the override -/

/-- `Difficulty::mods(… rate mod with speed_change r …)` and `Difficulty::clock_rate(r)` reach
`get_clock_rate() = r` (over ℚ; `Nightcore`/`Daycore` compute `d·(r/d)`, which is `r` exactly in
ℚ but not always in f64 — known finding, checked bit-exactly by the harness).  `l` is any lazer
mod list (any other mods, any settings) whose only rate mod is `x`. -/
theorem rate_eq_clock_rate (mode : Mode) (l : List (LMod Rat)) (x : LMod Rat) (r : Rat)
    (hx : x ∈ l) (hk : isRate x.kind = true) (hs : x.speed = some r)
    (huniq : ∀ m ∈ l, isRate m.kind = true → m = x)
    (hlo : 1 / 100 ≤ r) (hhi : r ≤ 100) (other : Rep Rat) :
    ({ mods := Rep.lazer mode l, clockRate := none } : Diff Rat).getClockRate numQ = r ∧
    ({ mods := other, clockRate := some (clampClockRate r) } : Diff Rat).getClockRate numQ = r := by
  constructor
  · exact clockRate_with_rate mode l x r hx hk hs huniq
  · simp only [Diff.getClockRate, clampClockRate, rclamp]
    split_ifs <;> first | rfl | (exfalso; linarith)

/-- what the accessors report for a lazer set with exactly one DifficultyAdjust mod `da`:
its field when the mode's DifficultyAdjust has that field (generated `impl_map_attr!` rows) -/
theorem da_accessors (mode : Mode) (l : List (LMod Rat)) (da : LMod Rat) (hda : da ∈ l)
    (hk : da.kind = .DifficultyAdjust) (huniq : ∀ m ∈ l, m.kind = .DifficultyAdjust → m = da) :
    (Rep.lazer mode l : Rep Rat).ar = (if mode = .osu ∨ mode = .catch then da.ar else none) ∧
    (Rep.lazer mode l : Rep Rat).cs = (if mode = .osu ∨ mode = .catch then da.cs else none) ∧
    (Rep.lazer mode l : Rep Rat).hp = da.hp ∧
    (Rep.lazer mode l : Rep Rat).od = da.od := by
  simp only [Rep.ar, Rep.cs, Rep.hp, Rep.od, mapAttr_unique mode l da _ _ hda hk huniq]
  cases mode <;> simp [arModes, csModes, hpModes, odModes]

/-- removing the DifficultyAdjust mod changes nothing but the four attribute accessors -/
theorem view_noDA (mode : Mode) (l : List (LMod Rat)) :
    (Rep.lazer mode (noDA l) : Rep Rat).view =
      { Rep.view (Rep.lazer mode l) with ar := none, cs := none, hp := none, od := none } := by
  have hrows : ∀ i, (Rep.lazer mode (noDA l) : Rep Rat).flagAt i = (Rep.lazer mode l : Rep Rat).flagAt i := by
    intro i
    unfold Rep.flagAt
    cases h : hasModRows[i]? with
    | none => rfl
    | some row =>
      have hmem : row ∈ hasModRows := List.mem_of_getElem? h
      have hne : row.2.1 ≠ .DifficultyAdjust := by
        have : hasModRows.all (fun r => r.2.1 != .DifficultyAdjust) = true := by decide
        simpa using List.all_eq_true.mp this row hmem
      exact flag_noDA mode l row hne
  simp only [Rep.view, Rep.hr, Rep.ez, Rep.mult, hrows, clockRate_noDA, Rep.ar, Rep.cs, Rep.hp, Rep.od,
    mapAttr_noDA]

/-- `Difficulty::mods(… DifficultyAdjust{ar,cs,hp,od} …)` builds the same attributes as the same
mods woDa the DifficultyAdjust mod plus `Difficulty::{ar,cs,hp,od}(value, false)` for the
values the accessors report (map-provided attributes; the `f64 → f32` cast of the value is the
identity in ℚ and is checked by the harness). -/
theorem da_eq_override (mode : Mode) (l : List (LMod Rat)) (b : Builder) (c : Option Rat)
    (xa xc xh xo : Rat)
    (ha : b.ar = .dflt ⟨xa, false⟩) (hc : b.cs = .dflt ⟨xc, false⟩)
    (hh : b.hp = .dflt ⟨xh, false⟩) (ho : b.od = .dflt ⟨xo, false⟩) :
    let withDa : Rep Rat := Rep.lazer mode l
    let woDa : Rep Rat := Rep.lazer mode (noDA l)
    (b.difficulty { mods := withDa.view, clockRate := c, ar := none, cs := none, hp := none, od := none }).build =
    (b.difficulty
      { mods := woDa.view
        clockRate := c
        ar := (withDa.ar).map (fun v => ⟨v, false⟩)
        cs := (withDa.cs).map (fun v => ⟨v, false⟩)
        hp := (withDa.hp).map (fun v => ⟨v, false⟩)
        od := (withDa.od).map (fun v => ⟨v, false⟩) }).build := by
  intro withDa woDa
  have := difficulty_da_eq_override b withDa.view c xa xc xh xo ha hc hh ho
  rw [this, view_noDA]
  rfl

/-! ## non-vacuity -/

/-- the domain of the partial theorem is most of the space (e.g. HDHRDT, EZHT, NC) … -/
example : OneDirection 88 ∧ OneDirection 258 ∧ OneDirection 576 := by
  unfold OneDirection; decide

/-- … and the accessors really vary on it -/
example : (spell Rat .u32 88).snapshot ≠ (spell Rat .u32 258).snapshot := by decide +kernel

/-- hypotheses of `rate_eq_clock_rate` are satisfiable: HD + Nightcore with speed 1.3 -/
example : ∃ (l : List (LMod Rat)) (x : LMod Rat), x ∈ l ∧ isRate x.kind = true ∧ x.speed = some (13 / 10) ∧
    (∀ m ∈ l, isRate m.kind = true → m = x) ∧ l.length = 2 :=
  ⟨[{ kind := .Hidden }, { kind := .Nightcore, speed := some (13 / 10) }],
    { kind := .Nightcore, speed := some (13 / 10) }, by simp, by decide, rfl, by
      intro m hm
      simp only [List.mem_cons, List.mem_nil_iff, or_false] at hm
      rcases hm with rfl | rfl
      · intro h; exact absurd h (by decide)
      · intro _; rfl, rfl⟩

/-! ## settings of lazer mods (generated arms)

`Model/Mods.lean` evaluates the accessors below from hand-transcribed arm tables
(`reflLazerArms`, `nshaLazerArms`, `hroLazerArms`, `scrollLazerArms`, `seedLazerArms`).  The arms are
re-extracted from `src/model/mods.rs` on every run, as text (`lazer_setting_arms_as_modelled`) and in
structured form (`lazer_arm_tables_as_generated`: the generated tables *are* the model's tables); a
change of an arm, of a default or of the mod/setting an arm reads breaks the obligation, and the
correspondence lines `LZS` replay it on concrete mod sets. -/

section LazerSettings
open Rosu.Gen.LazerSettings

theorem lazer_settings_shapes_understood : lazerSettingsUnknown = [] := by decide

/-- The lazer arms of `reflection`, `no_slider_head_acc`, `hardrock_offsets`, `scroll_speed`,
`random_seed`, what is applied to the lookup's result, and how the other two representations are
treated — exactly the shapes `Model/Mods.lean` was transcribed from:
* `reflection`: first of HardRockOsu ↦ Vertical, MirrorOsu ↦ by its `reflection` setting (unset ↦
  Horizontal, "1" ↦ Vertical, "2" ↦ Both, anything else ↦ None), MirrorCatch ↦ Horizontal; no such
  mod ↦ None; Intermode/Legacy: HardRock ↦ Vertical, else None;
* `no_slider_head_acc(lazer)`: ClassicOsu ↦ its `no_slider_head_accuracy` setting, unset ↦ `true`; no
  Classic ↦ `!lazer`; Intermode: `Classic || !lazer`; Legacy: `!lazer`;
* `hardrock_offsets`: DifficultyAdjustCatch's `hard_rock_offsets` setting, otherwise (unset, other
  representations) `self.hr()`;
* `scroll_speed`: DifficultyAdjustTaiko's setting, lazer only;
* `random_seed`: the seed of RandomTaiko / RandomMania as `i32`, lazer only. -/
theorem lazer_setting_arms_as_modelled :
    lazerArms =
      [("reflection",
          [("GameMod::HardRockOsu(_)", "Some(Reflection::Vertical)"),
           ("GameMod::MirrorOsu(mr)", "match mr.reflection.as_deref(){None=>Some(Reflection::Horizontal),Some(\"1\")=>Some(Reflection::Vertical),Some(\"2\")=>Some(Reflection::Both),Some(_)=>Some(Reflection::None)}"),
           ("GameMod::MirrorCatch(_)", "Some(Reflection::Horizontal)"), ("_", "None")]),
       ("no_slider_head_acc",
          [("GameMod::ClassicOsu(cl)", "Some(cl.no_slider_head_accuracy.unwrap_or(true))"), ("_", "None")]),
       ("hardrock_offsets",
          [("GameMod::DifficultyAdjustCatch(DifficultyAdjustCatch{hard_rock_offsets,..})", "*hard_rock_offsets"),
           ("_", "None")]),
       ("scroll_speed", [("GameMod::DifficultyAdjustTaiko(da)", "Some(da.scroll_speed)"), ("_", "None")]),
       ("random_seed", [("GameMod::RandomTaiko(m)", "m.seed"), ("GameMod::RandomMania(m)", "m.seed"), ("_", "None")])] ∧
    lazerTail =
      [("reflection", ".unwrap_or(Reflection::None)"), ("no_slider_head_acc", ".unwrap_or(!lazer)"),
       ("hardrock_offsets", ""), ("scroll_speed", ".flatten()"), ("random_seed", ".map(|seed|seed as i32)")] ∧
    accessorContext =
      [("reflection", "match self{Self::Lazer(ref mods)=><LAZER>,Self::Intermode(ref mods)=>{if mods.contains(GameModIntermode::HardRock){Reflection::Vertical}else{Reflection::None}}Self::Legacy(mods)=>{if mods.contains(GameModsLegacy::HardRock){Reflection::Vertical}else{Reflection::None}}}"),
       ("no_slider_head_acc", "match self{Self::Lazer(ref mods)=><LAZER>,Self::Intermode(ref mods)=>mods.contains(GameModIntermode::Classic)||!lazer,Self::Legacy(_)=>!lazer}"),
       ("hardrock_offsets", "fn custom_hardrock_offsets(mods:&GameMods)->Option<bool>{match mods{GameMods::Lazer(ref mods)=><LAZER>,GameMods::Intermode(_)|GameMods::Legacy(_)=>None}}custom_hardrock_offsets(self).unwrap_or_else(||self.hr())"),
       ("scroll_speed", "let Self::Lazer(mods)=self else{return None};<LAZER>"),
       ("random_seed", "let Self::Lazer(mods)=self else{return None};<LAZER>")] := by decide +kernel

/-- the structured arm tables that `Model/Mods.lean` interprets are exactly the ones extracted
from the current `src/model/mods.rs` -/
theorem lazer_arm_tables_as_generated :
    Rosu.Gen.LazerSettings.reflLazerArms = reflLazerArms ∧
    Rosu.Gen.LazerSettings.reflLazerElse = reflLazerElse ∧
    Rosu.Gen.LazerSettings.nshaLazerArms = nshaLazerArms ∧
    Rosu.Gen.LazerSettings.nshaIntermodeMod = nshaIntermodeMod ∧
    Rosu.Gen.LazerSettings.hroLazerArms = hroLazerArms ∧
    Rosu.Gen.LazerSettings.scrollLazerArms = scrollLazerArms ∧
    Rosu.Gen.LazerSettings.seedLazerArms = seedLazerArms ∧
    Rosu.Gen.LazerSettings.settingFields = settingFields := by decide

end LazerSettings

/-! ## settings of lazer mods: what each accessor returns, for every value of the setting

`l` is any lazer set in iteration order (`LSorted`: the order the `BTreeMap` of a single-mode
`rosu_mods::GameMods` yields, at most one mod per kind; `withMode_sorted`/`insertL_sorted`: every set
the driver builds is one); `getK l k` is its mod of kind `k`. -/

/-- `no_slider_head_acc(lazer)`: osu!'s Classic answers with its `no_slider_head_accuracy` setting,
unset ↦ `true`; without Classic (and for every other mode's Classic) the answer is `!lazer` -/
theorem classic_setting_value (mode : Mode) (l : List (LMod Rat)) (lz : Bool) (hs : LSorted l) :
    (Rep.lazer mode l : Rep Rat).noSliderHeadAcc lz =
      if mode = .osu then
        match getK l .Classic with
        | some c => c.nsha.getD true
        | none => !lz
      else !lz := nsha_eq mode l lz hs

/-- `reflection()` of a lazer set: osu! — HardRock wins (it precedes Mirror in iteration order),
else Mirror by its setting, else None; catch — Mirror ↦ Horizontal (HardRockCatch is not looked
at); taiko, mania — None -/
theorem reflection_value (mode : Mode) (l : List (LMod Rat)) (hs : LSorted l) :
    (Rep.lazer mode l : Rep Rat).reflection =
      match mode with
      | .osu =>
        match getK l .HardRock, getK l .Mirror with
        | some _, _ => .vertical
        | none, some mr => mirrorEval mr.mirror
        | none, none => .none
      | .catch =>
        match getK l .Mirror with
        | some _ => .horizontal
        | none => .none
      | _ => .none := reflection_eq mode l hs

/-- the decision table of osu! `reflection()`: HardRock ∈ {absent, present} × Mirror ∈ {absent,
unset, "0", "1", "2", anything else}.  Note the row `"0"`: lazer's explicit spelling of the default
(`MirrorType.Horizontal = 0`) is read as *no* reflection. -/
theorem reflection_decision_table (l : List (LMod Rat)) (hs : LSorted l) :
    let r := (Rep.lazer .osu l : Rep Rat).reflection
    ((getK l .HardRock).isSome = true → r = .vertical) ∧
    (getK l .HardRock = none → getK l .Mirror = none → r = .none) ∧
    (∀ mr, getK l .HardRock = none → getK l .Mirror = some mr →
      (mr.mirror = none → r = .horizontal) ∧
      (mr.mirror = some "0" → r = .none) ∧
      (mr.mirror = some "1" → r = .vertical) ∧
      (mr.mirror = some "2" → r = .both) ∧
      (∀ s, mr.mirror = some s → s ≠ "1" → s ≠ "2" → r = .none)) := by
  intro r
  have hr : r = _ := reflection_eq .osu l hs
  refine ⟨?_, ?_, ?_⟩
  · intro h
    obtain ⟨x, hx⟩ := Option.isSome_iff_exists.mp h
    rw [hr, hx]
  · intro h1 h2; rw [hr, h1, h2]
  · intro mr h1 h2
    have hr' : r = mirrorEval mr.mirror := by rw [hr, h1, h2]
    refine ⟨?_, ?_, ?_, ?_, ?_⟩
    · intro h; rw [hr', h]; rfl
    · intro h; rw [hr', h]; decide
    · intro h; rw [hr', h]; decide
    · intro h; rw [hr', h]; decide
    · intro s h n1 n2; rw [hr', h]; simp [mirrorEval, n1, n2]

/-- "a Mirror mod whose `reflection` setting spells the default explicitly answers like one whose
setting is unset" … -/
def MirrorExplicitDefaultAgrees : Prop :=
  (Rep.lazer .osu [{ kind := .Mirror, mirror := some "0" }] : Rep Rat).reflection =
    (Rep.lazer .osu [{ kind := .Mirror }] : Rep Rat).reflection

/-- … is false of the code: `Some("0")` falls into the `Some(_) => Some(Reflection::None)` arm
(finding `mods-mirror-explicit-horizontal`) -/
theorem mirror_explicit_default_differs :
    ¬ MirrorExplicitDefaultAgrees ∧
    (Rep.lazer .osu [{ kind := .Mirror, mirror := some "0" }] : Rep Rat).reflection = .none ∧
    (Rep.lazer .osu [{ kind := .Mirror }] : Rep Rat).reflection = .horizontal := by
  unfold MirrorExplicitDefaultAgrees; decide

/-- `hardrock_offsets()`: catch's DifficultyAdjust answers with its `hard_rock_offsets` setting;
unset (and every other mode / representation) ↦ `hr()` -/
theorem hardrock_offsets_value (mode : Mode) (l : List (LMod Rat)) (hs : LSorted l) :
    (Rep.lazer mode l : Rep Rat).hardrockOffsets =
      ((if mode = .catch then (getK l .DifficultyAdjust).bind (·.hro) else none).getD
        (Rep.lazer mode l : Rep Rat).hr) := by
  simp only [Rep.hardrockOffsets, customHro_eq mode l hs]

/-- `scroll_speed()`: taiko's DifficultyAdjust setting, `None` when unset / no such mod / other modes -/
theorem scroll_speed_value (mode : Mode) (l : List (LMod Rat)) (hs : LSorted l) :
    (Rep.lazer mode l : Rep Rat).scrollSpeed =
      if mode = .taiko then (getK l .DifficultyAdjust).bind (·.scroll) else none := scroll_eq mode l hs

/-- `random_seed()`: the seed of taiko's / mania's Random as `i32` (saturating); a Random mod whose
seed is unset answers like no Random mod at all (`None`: the calculators do not shuffle) -/
theorem random_seed_value (mode : Mode) (l : List (LMod Rat)) (hs : LSorted l) :
    (Rep.lazer mode l : Rep Rat).randomSeed =
      (if mode = .taiko ∨ mode = .mania then ((getK l .Random).bind (·.seed)).map castI32 else none) ∧
    (∀ n : Int, -2147483648 ≤ n → n ≤ 2147483647 → castI32 n = n) := by
  refine ⟨seed_eq mode l hs, ?_⟩
  intro n h1 h2
  unfold castI32
  rw [if_neg (by omega), if_neg (by omega)]

/-- the non-lazer representations never provide any of these settings -/
theorem settings_absent_outside_lazer (rep : Rep Rat) (h : ∀ mode l, rep ≠ .lazer mode l) :
    rep.customHro = none ∧ rep.hardrockOffsets = rep.hr ∧ rep.scrollSpeed = none ∧ rep.randomSeed = none := by
  cases rep with
  | lazer mode l => exact absurd rfl (h mode l)
  | intermode s => exact ⟨rfl, rfl, rfl, rfl⟩
  | legacy b => exact ⟨rfl, rfl, rfl, rfl⟩

/-! ## lazer mods with all settings unset vs the same acronyms as `GameModsIntermode`

`s` is *any* intermode set (also mods without legacy bit: Classic, Mirror, Invert, HoldOff, …). -/

/-- flags: the lazer spelling keeps exactly the mods the mode has -/
theorem lazer_default_flags (s : List IMod) (mode : Mode) (row : String × IMod × Option LName)
    (hrow : row ∈ hasModRows) :
    (Rep.lazer mode (withMode mode s) : Rep Rat).flag row =
      ((Rep.intermode s : Rep Rat).flag row && avail mode row.2.1) := by
  have hok := List.all_eq_true.mp rows_ok row hrow
  have hm : row.2.1 ≠ .Unknown := by
    simp only [rowOk, Bool.and_eq_true, decide_eq_true_eq] at hok; exact hok.1
  simp only [Rep.flag]
  exact any_withMode Rat mode s _ hm

/-- the setting accessors of a default-settings lazer set against the owned intermode set:
* no custom `hard_rock_offsets`, scroll speed or seed on either side;
* `no_slider_head_acc`: equal for osu! (Classic ↦ `true` on both sides); for the other modes the
  lazer Classic variants are not looked at (`!lazer`) while the intermode arm says `true` — no
  calculator of those modes calls the accessor;
* `reflection`: equal for osu! unless Mirror is in the set without HardRock (next theorem). -/
theorem lazer_default_settings_eq_intermode (s : List IMod) (mode : Mode) :
    let lz : Rep Rat := Rep.lazer mode (withMode mode s)
    let im : Rep Rat := Rep.intermode s
    lz.customHro = none ∧ im.customHro = none ∧ lz.hardrockOffsets = lz.hr ∧ im.hardrockOffsets = im.hr ∧
    lz.scrollSpeed = none ∧ im.scrollSpeed = none ∧ lz.randomSeed = none ∧ im.randomSeed = none ∧
    (∀ b, lz.noSliderHeadAcc b = if mode = .osu ∧ IMod.Classic ∈ s then true else !b) ∧
    (∀ b, im.noSliderHeadAcc b = (decide (IMod.Classic ∈ s) || !b)) ∧
    (mode = .osu → ∀ b, lz.noSliderHeadAcc b = im.noSliderHeadAcc b) ∧
    (mode = .osu → (IMod.Mirror ∉ s ∨ IMod.HardRock ∈ s) → lz.reflection = im.reflection) := by
  intro lz im
  have hs := withMode_sorted (R := Rat) mode s
  have hda : getK (withMode (R := Rat) mode s) .DifficultyAdjust =
      if s.contains .DifficultyAdjust && avail mode .DifficultyAdjust then some { kind := .DifficultyAdjust } else none :=
    getK_withMode mode s _ (by decide)
  have hrd : getK (withMode (R := Rat) mode s) .Random =
      if s.contains .Random && avail mode .Random then some { kind := .Random } else none :=
    getK_withMode mode s _ (by decide)
  have hcl : getK (withMode (R := Rat) mode s) .Classic =
      if s.contains .Classic && avail mode .Classic then some { kind := .Classic } else none :=
    getK_withMode mode s _ (by decide)
  have hhr : getK (withMode (R := Rat) mode s) .HardRock =
      if s.contains .HardRock && avail mode .HardRock then some { kind := .HardRock } else none :=
    getK_withMode mode s _ (by decide)
  have hmr : getK (withMode (R := Rat) mode s) .Mirror =
      if s.contains .Mirror && avail mode .Mirror then some { kind := .Mirror } else none :=
    getK_withMode mode s _ (by decide)
  have c1 : lz.customHro = none := by
    show (Rep.lazer mode (withMode mode s) : Rep Rat).customHro = none
    rw [customHro_eq mode _ hs, hda]
    split <;> [skip; rfl]
    split <;> rfl
  have n1 : ∀ b, lz.noSliderHeadAcc b = if mode = .osu ∧ IMod.Classic ∈ s then true else !b := by
    intro b
    show (Rep.lazer mode (withMode mode s) : Rep Rat).noSliderHeadAcc b = _
    rw [nsha_eq mode _ b hs, hcl]
    by_cases hm : mode = .osu <;> by_cases hc : IMod.Classic ∈ s <;> simp [hm, hc, avail]
  have n2 : ∀ b, im.noSliderHeadAcc b = (decide (IMod.Classic ∈ s) || !b) := by
    intro b
    show (Rep.intermode s : Rep Rat).noSliderHeadAcc b = _
    simp [Rep.noSliderHeadAcc, nshaIntermodeMod]
  refine ⟨c1, rfl, ?_, rfl, ?_, rfl, ?_, rfl, n1, n2, ?_, ?_⟩
  · show (Rep.lazer mode (withMode mode s) : Rep Rat).hardrockOffsets = _
    unfold Rep.hardrockOffsets
    have : (Rep.lazer mode (withMode mode s) : Rep Rat).customHro = none := c1
    rw [this]; rfl
  · show (Rep.lazer mode (withMode mode s) : Rep Rat).scrollSpeed = none
    rw [scroll_eq mode _ hs, hda]
    split <;> [skip; rfl]
    split <;> rfl
  · show (Rep.lazer mode (withMode mode s) : Rep Rat).randomSeed = none
    rw [seed_eq mode _ hs, hrd]
    split <;> [skip; rfl]
    split <;> rfl
  · intro hm b
    rw [n1 b, n2 b]
    by_cases hc : IMod.Classic ∈ s <;> simp [hm, hc]
  · intro hm hmir
    subst hm
    show (Rep.lazer .osu (withMode .osu s) : Rep Rat).reflection = (Rep.intermode s : Rep Rat).reflection
    rw [reflection_eq .osu _ hs, hhr, hmr]
    have him : (Rep.intermode s : Rep Rat).reflection = if IMod.HardRock ∈ s then .vertical else .none := by
      by_cases h : IMod.HardRock ∈ s <;> simp [Rep.reflection, reflIntermode, reflIntermodeElse, h]
    rw [him]
    by_cases h1 : IMod.HardRock ∈ s <;> by_cases h2 : IMod.Mirror ∈ s <;>
      simp_all [avail]

/-- "the lazer spelling of Mirror (settings unset) answers like the intermode spelling" … -/
def MirrorSpellingsAgree : Prop :=
  (Rep.lazer .osu (withMode .osu [IMod.Mirror]) : Rep Rat).reflection =
    (Rep.intermode [IMod.Mirror] : Rep Rat).reflection

/-- … is false of the code: the Intermode (and Legacy) arms of `reflection()` only know HardRock, so
`GameModsIntermode{MR}` / `&GameModsIntermode{MR}` / `GameModsLegacy::Mirror` mean *no* reflection
while lazer `MirrorOsu`/`MirrorCatch` with default settings mean Horizontal (finding
`mods-mirror-only-lazer`; Mirror is not among the mods the property's quantifier lists) -/
theorem mirror_spellings_disagree :
    ¬ MirrorSpellingsAgree ∧
    (Rep.lazer .osu (withMode .osu [IMod.Mirror]) : Rep Rat).reflection = .horizontal ∧
    (Rep.lazer .catch (withMode .catch [IMod.Mirror]) : Rep Rat).reflection = .horizontal ∧
    (Rep.intermode [IMod.Mirror] : Rep Rat).reflection = .none ∧
    (Rep.legacy LName.Mirror.bits : Rep Rat).reflection = .none := by
  unfold MirrorSpellingsAgree; decide +kernel

/-! ## `Difficulty` setters vs lazer settings -/

/-- `get_hardrock_offsets()`: the `Difficulty::hardrock_offsets` setter wins over DifficultyAdjust's
`hard_rock_offsets` setting, which wins over the presence of HardRock -/
theorem hardrock_offsets_precedence (d : Diff Rat) :
    d.getHardrockOffsets =
      match d.hardrockOffsets, d.mods.customHro with
      | some b, _ => b
      | none, some c => c
      | none, none => d.mods.hr := by
  unfold Diff.getHardrockOffsets Rep.hardrockOffsets
  cases d.hardrockOffsets <;> cases d.mods.customHro <;> rfl

/-- `Difficulty::hardrock_offsets(b)` ≡ catch DifficultyAdjust `hard_rock_offsets = b`: for a catch set
whose DifficultyAdjust is `da`, the setting alone yields `b`, and so does the setter whatever the
mods say -/
theorem hro_setter_eq_da_setting (l : List (LMod Rat)) (da : LMod Rat) (b : Bool) (hs : LSorted l)
    (hda : getK l .DifficultyAdjust = some da) (hb : da.hro = some b) (other : Rep Rat) (lzr : Option Bool) :
    ({ mods := Rep.lazer .catch l, clockRate := none, lazer := lzr } : Diff Rat).getHardrockOffsets = b ∧
    ({ mods := other, clockRate := none, hardrockOffsets := some b, lazer := lzr } : Diff Rat).getHardrockOffsets = b := by
  refine ⟨?_, rfl⟩
  simp only [Diff.getHardrockOffsets, Option.getD_none, Rep.hardrockOffsets, customHro_eq .catch l hs, hda,
    if_true, Option.bind_some, hb, Option.getD_some]

/-- rewriting DifficultyAdjust's `hard_rock_offsets` setting changes no accessor but
`hardrock_offsets()` (so the equivalence above is about that one bit only) -/
theorem da_hro_setting_changes_only_hro (mode : Mode) (l : List (LMod Rat)) (v : Option Bool) :
    { (Rep.lazer mode (setHro v l) : Rep Rat).snapshot with hardrockOffsets := false } =
      { (Rep.lazer mode l : Rep Rat).snapshot with hardrockOffsets := false } := by
  unfold setHro
  have hflag : ∀ row, (Rep.lazer mode (mapKind .DifficultyAdjust (fun m => { m with hro := v }) l) : Rep Rat).flag row =
      (Rep.lazer mode l : Rep Rat).flag row := by
    intro row
    simp only [Rep.flag]
    exact any_mapKind .DifficultyAdjust (fun m => { m with hro := v }) l _ (fun m _ => rfl)
  have hflagAt : ∀ i, (Rep.lazer mode (mapKind .DifficultyAdjust (fun m => { m with hro := v }) l) : Rep Rat).flagAt i =
      (Rep.lazer mode l : Rep Rat).flagAt i := by
    intro i; unfold Rep.flagAt; cases hasModRows[i]? <;> simp [hflag]
  have hattr : ∀ modes (field : LMod Rat → Option Rat), (∀ m : LMod Rat, field { m with hro := v } = field m) →
      (Rep.lazer mode (mapKind .DifficultyAdjust (fun m => { m with hro := v }) l) : Rep Rat).mapAttr modes field =
        (Rep.lazer mode l : Rep Rat).mapAttr modes field := by
    intro modes field hf
    simp only [Rep.mapAttr]
    exact findSome?_mapKind .DifficultyAdjust (fun m => { m with hro := v }) l _ (fun m _ => by simp [hf])
  simp only [Rep.snapshot, Snapshot.mk.injEq, true_and]
  refine ⟨?_, ?_, ?_, ?_, ?_, ?_, ?_, ?_, hattr _ _ (fun _ => rfl), hattr _ _ (fun _ => rfl),
    hattr _ _ (fun _ => rfl), hattr _ _ (fun _ => rfl), List.map_congr_left (fun row _ => hflag row)⟩
  · simp only [Rep.clockRate]
    rw [findSome?_mapKind .DifficultyAdjust (fun m => { m with hro := v }) l _ (fun m _ => rfl)]
  · unfold Rep.mult
    rw [find?_congr' multChain _ _ (fun c _ => hflagAt c.1)]
  · simp only [Rep.noSliderHeadAcc]; rw [findSome?_mapKind .DifficultyAdjust (fun m => { m with hro := v }) l _ (fun m _ => rfl)]
  · simp only [Rep.noSliderHeadAcc]; rw [findSome?_mapKind .DifficultyAdjust (fun m => { m with hro := v }) l _ (fun m _ => rfl)]
  · simp only [Rep.reflection]; rw [findSome?_mapKind .DifficultyAdjust (fun m => { m with hro := v }) l _ (fun m _ => rfl)]
  · simp only [Rep.maniaKeys]
    rw [find?_congr' maniaKeysLazer _ _
      (fun c _ => any_mapKind .DifficultyAdjust (fun m => { m with hro := v }) l (fun m => m.kind == c.1) (fun m _ => rfl))]
  · simp only [Rep.scrollSpeed]; rw [findSome?_mapKind .DifficultyAdjust (fun m => { m with hro := v }) l _ (fun m _ => rfl)]
  · simp only [Rep.randomSeed]; rw [findSome?_mapKind .DifficultyAdjust (fun m => { m with hro := v }) l _ (fun m _ => rfl)]

/-- how `Difficulty::lazer` and osu!'s Classic interact (`OsuPerformance::generate_state`):
* `lazer(false)` yields `OsuScoreOrigin::Stable` whatever the mods say;
* with `lazer` unset/`true`: no Classic ↦ `WithSliderAcc`; Classic with `no_slider_head_accuracy`
  unset or `true` ↦ `WithoutSliderAcc`; Classic with the setting `false` ↦ `WithSliderAcc`, like
  no Classic at all.
So `lazer(false)` and lazer Classic agree on `no_slider_head_acc` (both `true`) but are *not* the
same score origin; Classic(`false`) ≡ no Classic as long as `lazer` is unset/`true` (under
`lazer(false)` a Classic with the setting `false` still switches `using_classic_slider_acc` off,
which the pp formula reads even for a Stable origin). -/
theorem lazer_flag_vs_classic (l : List (LMod Rat)) (hs : LSorted l) (r : Option Rat) :
    let d (lz : Option Bool) : Diff Rat := { mods := Rep.lazer .osu l, clockRate := r, lazer := lz }
    (d (some false)).osuOrigin = .stable ∧
    (getK l .Classic = none → (d (some false)).usingClassicSliderAcc = true) ∧
    (∀ c, getK l .Classic = some c → (d (some false)).usingClassicSliderAcc = c.nsha.getD true) ∧
    (∀ lz, lz = none ∨ lz = some true →
      (getK l .Classic = none → (d lz).usingClassicSliderAcc = false ∧ (d lz).osuOrigin = .withSliderAcc) ∧
      (∀ c, getK l .Classic = some c →
        (d lz).usingClassicSliderAcc = c.nsha.getD true ∧
        (c.nsha.getD true = true → (d lz).osuOrigin = .withoutSliderAcc) ∧
        (c.nsha = some false → (d lz).osuOrigin = .withSliderAcc))) := by
  intro d
  refine ⟨rfl, ?_, ?_, ?_⟩
  · intro h
    show (Rep.lazer .osu l : Rep Rat).noSliderHeadAcc false = true
    rw [nsha_eq .osu l _ hs, h]; rfl
  · intro c h
    show (Rep.lazer .osu l : Rep Rat).noSliderHeadAcc false = c.nsha.getD true
    rw [nsha_eq .osu l _ hs, h]; rfl
  · intro lz hlz
    have hg : (d lz).getLazer = true := by rcases hlz with rfl | rfl <;> rfl
    have hu : (d lz).usingClassicSliderAcc = (Rep.lazer .osu l : Rep Rat).noSliderHeadAcc true := by
      unfold Diff.usingClassicSliderAcc; rw [hg]
    have ho : (d lz).osuOrigin = if (d lz).usingClassicSliderAcc then .withoutSliderAcc else .withSliderAcc := by
      unfold Diff.osuOrigin; rw [hg]; cases (d lz).usingClassicSliderAcc <;> rfl
    refine ⟨?_, ?_⟩
    · intro h
      have : (d lz).usingClassicSliderAcc = false := by rw [hu, nsha_eq .osu l _ hs, h]; rfl
      exact ⟨this, by rw [ho, this]; rfl⟩
    · intro c h
      have : (d lz).usingClassicSliderAcc = c.nsha.getD true := by rw [hu, nsha_eq .osu l _ hs, h]; rfl
      refine ⟨this, ?_, ?_⟩
      · intro ht; rw [ho, this, ht]; rfl
      · intro hf; rw [ho, this, hf]; rfl

/-- mania's `classic = !get_lazer() || cl()`: `Difficulty::lazer(false)` ≡ having Classic -/
theorem mania_classic_equivalence (mods : Rep Rat) (r : Option Rat) :
    ({ mods := mods, clockRate := r, lazer := some false } : Diff Rat).maniaClassic = true ∧
    (∀ lz, lz = none ∨ lz = some true →
      ({ mods := mods, clockRate := r, lazer := lz } : Diff Rat).maniaClassic = mods.cl) := by
  refine ⟨rfl, ?_⟩
  intro lz h
  rcases h with rfl | rfl <;> simp [Diff.maniaClassic, Diff.getLazer]

/-! ## `&GameModsIntermode` with mods that have no legacy bit -/

/-- `From<&GameModsIntermode>`: `checked_bits()` is `None` exactly when some mod of the set has no
legacy bit (Classic, Invert, HoldOff, Daycore, Blinds, Traceable, TenKeys, DifficultyAdjust, …), and
then the *whole* set is kept as an owned copy — no mod is dropped silently, the borrowed spelling is
the owned spelling -/
theorem ref_spelling_keeps_unrepresentable (s : List IMod) :
    (checkedBits s = none ↔ ∃ m ∈ imIter s, m.bits = none) ∧
    (∀ m ∈ [IMod.Classic, .Invert, .HoldOff, .Daycore, .Blinds, .Traceable, .TenKeys, .DifficultyAdjust],
      m ∈ s → checkedBits s = none) := by
  refine ⟨checkedBits_none_iff s, ?_⟩
  intro m hm hs
  rw [checkedBits_none_iff]
  refine ⟨m, (mem_imIter s m).mpr ⟨?_, hs⟩, ?_⟩ <;>
    (simp only [List.mem_cons, List.mem_nil_iff, or_false] at hm
     rcases hm with rfl | rfl | rfl | rfl | rfl | rfl | rfl | rfl <;> decide)

/-! ## non-vacuity (settings) -/

/-- sets in iteration order exist with every mod the theorems talk about, and `insertL` builds them -/
example : LSorted (insertL ({ kind := .Mirror, mirror := some "2" } : LMod Rat)
    (insertL { kind := .Classic, nsha := some false } (withMode .osu (fromBits 24)))) :=
  insertL_sorted _ _ (insertL_sorted _ _ (withMode_sorted _ _))

example : (Rep.lazer .osu (insertL ({ kind := .Mirror, mirror := some "2" } : LMod Rat)
    (withMode .osu (fromBits 8))) : Rep Rat).reflection = .both := by decide +kernel

example : (Rep.lazer .catch [({ kind := .HardRock } : LMod Rat),
    { kind := .DifficultyAdjust, hro := some false }] : Rep Rat).hardrockOffsets = false ∧
    (Rep.lazer .catch [({ kind := .HardRock } : LMod Rat)] : Rep Rat).hardrockOffsets = true := by decide +kernel

example : (Rep.lazer .taiko [({ kind := .Random, seed := some 3000000000 } : LMod Rat)] : Rep Rat).randomSeed =
    some 2147483647 := by decide +kernel

end Rosu.Mods
