import RosuModel.Lemmas.PipelineOsuReal
import RosuModel.Props.C09d
import RosuModel.Props.C09e

/-!
# C09 / C02 — osu!standard end to end over ℝ: every attribute is `≥ 0`, every strain is `≥ 0`

`Model/PipelineOsu.lean` with the real-number instance of the evaluator / skill / eval arithmetic
(`instPPOpsReal`), ANY arithmetic of the slider events and — for the attributes — ANY arithmetic of the converter.

* `osu_pipeline_attrs_nonneg`: whenever the pipeline returns, aim / speed / flashlight rating, slider factor,
  both difficult-strain counts, `aim_difficult_slider_count` and `speed_note_count` are `≥ 0` and `stars > 0` —
  with NO hypothesis on the objects: `StrainsVec::push` stores non-positive values as `+0.0` (`pushCanonPP`), the
  reduced-section factors lie in `[0.75, 1]`, the logistic sums have positive terms, and `eval` is C09c's
  `osu_eval_nonneg`.  The same for every value of the gradual calculator.
* `osu_pipeline_strains_nonneg`: that canonicalisation hides nothing — over the exact converter `realAr` every
  `current_strain`, section peak, stored peak, object strain and slider strain of the four skills is `≥ 0` after
  any processed prefix, composing C09d (constructor floors, evaluator outputs `≥ 0`, rhythm under
  `hit_window ≥ 0`) with C09e (`radius > 0` for `cs < 85/7`, hence flashlight's `52/radius ≥ 0`) and
  `osu_pipeline_raw_ok` (`lazy_travel_dist ≥ 0` for every converted object: `OsuSlider::new` writes `0.0`,
  reflection / stacking keep it, `compute_slider_cursor_pos` only adds — C09e.osu_lazy_travel_dist_nonneg).
  Remaining interface hypotheses: `od_great ≥ 0` (the great hit window, C17) and `cs < 85/7`.
-/
namespace Rosu.C09f
open Rosu.PipelineOsu Rosu.PerfCalc Rosu.SkillOps
open Rosu.ConvOsu (Ar Obj Counts realAr)

variable {S : Type}

/-- **`osu_pipeline_attrs_nonneg`** -/
theorem osu_pipeline_attrs_nonneg (A : Ar ℝ S) (E : Rosu.SliderEvents.Arith ℝ) (fuel : Nat) (st : Settings ℝ)
    (take : Nat) (objs : List (PObj ℝ S)) (a : Attrs ℝ) (h : osuDifficulty A E fuel st take objs = .ok a) :
    0 ≤ a.aim ∧ 0 ≤ a.speed ∧ 0 ≤ a.flashlight ∧ 0 ≤ a.sliderFactor ∧ 0 < a.stars
      ∧ 0 ≤ a.aimDifficultSliderCount ∧ 0 ≤ a.speedNoteCount ∧ 0 ≤ a.aimDifficultStrainCount
      ∧ 0 ≤ a.speedDifficultStrainCount := by
  obtain ⟨raw, p, sk, _, _, _, rfl⟩ := osuDifficulty_ok A E fuel st take objs a h
  exact evalAttrs_nonneg st _ sk

/-- the same for the `i`-th value of the gradual calculator -/
theorem osu_pipeline_gradual_attrs_nonneg (A : Ar ℝ S) (E : Rosu.SliderEvents.Arith ℝ) (fuel : Nat)
    (st : Settings ℝ) (i : Nat) (objs : List (PObj ℝ S)) (a : Attrs ℝ) (hi : 1 ≤ i) (hn : i ≤ objs.length)
    (h : osuGradualValue A E fuel st i objs = .ok (some a)) :
    0 ≤ a.aim ∧ 0 ≤ a.speed ∧ 0 ≤ a.flashlight ∧ 0 ≤ a.sliderFactor ∧ 0 < a.stars
      ∧ 0 ≤ a.aimDifficultSliderCount ∧ 0 ≤ a.speedNoteCount ∧ 0 ≤ a.aimDifficultStrainCount
      ∧ 0 ≤ a.speedDifficultStrainCount := by
  rw [osuGradualValue_eq A E fuel st i objs hi hn] at h
  cases h1 : osuDifficulty A E fuel st i objs with
  | panic => rw [h1] at h; cases h
  | fuel => rw [h1] at h; cases h
  | ok a' =>
    rw [h1] at h
    simp only [Res.bind, Res.ok.injEq, Option.some.injEq] at h
    subst h
    exact osu_pipeline_attrs_nonneg A E fuel st i objs a' h1

/-! ## `lazy_travel_dist ≥ 0` through the converter -/

/-- a slider's `lazy_travel_dist` is `≥ 0` -/
def LD0 (o : Obj ℝ ℝ) : Prop := ∀ s, o.kind = .slider s → 0 ≤ s.lazyDist

theorem newObj_LD0 (E : Rosu.SliderEvents.Arith ℝ) (fuel : Nat) (q : PObj ℝ ℝ) (o : Obj ℝ ℝ)
    (h : newObj realAr E fuel q = .ok o) : LD0 o := by
  intro s hs
  cases q with
  | circle pos start =>
    simp only [newObj, Rosu.SliderEvents.Outcome.ok.injEq] at h; subst h; cases hs
  | spinner pos start d =>
    simp only [newObj, Rosu.SliderEvents.Outcome.ok.injEq] at h; subst h; cases hs
  | slider pos si np le =>
    unfold newObj at h
    simp only at h
    split at h
    · cases h
    · cases h
    · split at h
      · cases h
      · simp only [Rosu.SliderEvents.Outcome.ok.injEq] at h
        subst h
        simp only [Rosu.ConvOsu.Kind.slider.injEq] at hs
        subst hs
        show (0 : ℝ) ≤ ((0 : ℤ) : ℝ)
        simp

theorem newObjs_LD0 (E : Rosu.SliderEvents.Arith ℝ) (fuel : Nat) :
    ∀ (objs : List (PObj ℝ ℝ)) (raw : List (Obj ℝ ℝ)), newObjs realAr E fuel objs = .ok raw → ∀ o ∈ raw, LD0 o
  | [], raw, h => by
    simp only [newObjs, Rosu.SliderEvents.Outcome.ok.injEq] at h; subst h
    intro o ho; cases ho
  | q :: qs, raw, h => by
    unfold newObjs at h
    cases h1 : newObj realAr E fuel q with
    | clampPanic => rw [h1] at h; cases h
    | outOfFuel => rw [h1] at h; cases h
    | ok a =>
      cases h2 : newObjs realAr E fuel qs with
      | clampPanic => rw [h1, h2] at h; cases h
      | outOfFuel => rw [h1, h2] at h; cases h
      | ok b =>
        rw [h1, h2] at h
        simp only [Rosu.SliderEvents.Outcome.ok.injEq] at h
        subst h
        intro o ho
        rcases List.mem_cons.mp ho with rfl | ho
        · exact newObj_LD0 E fuel q _ h1
        · exact newObjs_LD0 E fuel qs b h2 o ho

theorem reflect_LD0 (m : Nat) (o : Obj ℝ ℝ) (h : LD0 o) : LD0 (Rosu.ConvOsu.reflectObj realAr m o) := by
  intro s hs
  obtain ⟨pos, start, sh, so, kind⟩ := o
  cases kind with
  | circle => simp only [Rosu.ConvOsu.reflectObj] at hs; cases hs
  | spinner d => simp only [Rosu.ConvOsu.reflectObj] at hs; cases hs
  | slider s0 =>
    simp only [Rosu.ConvOsu.reflectObj, Rosu.ConvOsu.Kind.slider.injEq] at hs
    subst hs
    exact h s0 rfl

theorem applyStack_LD0 (sc : ℝ) (o : Obj ℝ ℝ) (ht : Int) (h : LD0 o) :
    LD0 (Rosu.ConvOsu.applyStack realAr sc o ht) := by
  intro s hs
  obtain ⟨pos, start, sh, so, kind⟩ := o
  cases kind with
  | circle => simp only [Rosu.ConvOsu.applyStack] at hs; cases hs
  | spinner d => simp only [Rosu.ConvOsu.applyStack] at hs; cases hs
  | slider s0 =>
    simp only [Rosu.ConvOsu.applyStack, Rosu.ConvOsu.Kind.slider.injEq] at hs
    subst hs
    exact h s0 rfl

theorem cursor_rawOK (radius : ℝ) (o : Obj ℝ ℝ) (h : LD0 o) :
    RawOK (toRaw realAr (Rosu.ConvOsu.computeCursor realAr radius o)) := by
  constructor
  cases hk : (Rosu.ConvOsu.computeCursor realAr radius o).kind with
  | circle => unfold toRaw; rw [hk]; show (0 : ℝ) ≤ ((0 : ℤ) : ℝ); simp
  | spinner d => unfold toRaw; rw [hk]; show (0 : ℝ) ≤ ((0 : ℤ) : ℝ); simp
  | slider s' =>
    unfold toRaw; rw [hk]
    show (0 : ℝ) ≤ s'.lazyDist
    cases hk0 : o.kind with
    | circle => unfold Rosu.ConvOsu.computeCursor at hk; rw [hk0] at hk; simp only at hk; rw [hk0] at hk; cases hk
    | spinner d => unfold Rosu.ConvOsu.computeCursor at hk; rw [hk0] at hk; simp only at hk; rw [hk0] at hk; cases hk
    | slider s0 => exact Rosu.C09e.osu_lazy_travel_dist_nonneg radius o s0 s' hk0 (h s0 hk0) hk

/-- **`osu_pipeline_raw_ok`**: every converted object satisfies the interface hypothesis of the C09d theorems -/
theorem osu_pipeline_raw_ok (E : Rosu.SliderEvents.Arith ℝ) (fuel : Nat) (st : Settings ℝ) (take : Nat)
    (objs : List (PObj ℝ ℝ)) (raw : List (Obj ℝ ℝ)) (p : Prepared ℝ ℝ)
    (hr : newObjs realAr E fuel objs = .ok raw) (hp : prepareAll realAr st take raw = .ok p) :
    ∀ o ∈ p.objs, RawOK (toRaw realAr o) := by
  have hraw := newObjs_LD0 E fuel objs raw hr
  unfold prepareAll Rosu.ConvOsu.prepare at hp
  simp only at hp
  split at hp
  · cases hp
  · rename_i os c sc tp hprep
    split at hprep
    · cases hprep
    · rename_i os' c' hconv
      simp only [Option.some.injEq, Prod.mk.injEq] at hprep
      obtain ⟨rfl, rfl, rfl, rfl⟩ := hprep
      simp only [Res.ok.injEq] at hp
      subst hp
      unfold Rosu.ConvOsu.convertObjects at hconv
      simp only at hconv
      split at hconv
      · cases hconv
      · rename_i hs _
        simp only [Option.some.injEq, Prod.mk.injEq] at hconv
        obtain ⟨rfl, _⟩ := hconv
        intro o ho
        simp only [List.mem_map] at ho
        obtain ⟨o1, ⟨q, hq, rfl⟩, rfl⟩ := ho
        apply cursor_rawOK
        apply applyStack_LD0
        have hq1 : q.1 ∈ raw.map (Rosu.ConvOsu.reflectObj realAr st.reflection) := (List.of_mem_zip hq).1
        obtain ⟨o0, ho0, e⟩ := List.mem_map.mp hq1
        rw [← e]
        exact reflect_LD0 _ _ (hraw o0 ho0)

/-- the skill configuration of a prepared map satisfies what the evaluator theorems need -/
theorem prepared_shape (st : Settings ℝ) (take : Nat) (raw : List (Obj ℝ ℝ)) (p : Prepared ℝ ℝ)
    (hp : prepareAll realAr st take raw = .ok p) :
    ∃ sf : ℝ, p.diffObjs = createDiffObjs (p.objs.map (toRaw realAr)) st.clockRate sf ∧
      p.cfg = skillCfg st.odGreat (Rosu.ConvOsu.scalingNew realAr st.cs).radius
        (Rosu.ConvOsu.timePreempt realAr st.arWindow st.clockRate) st.hd st.mods.ap := by
  obtain ⟨os, c, sc, tp, h, _⟩ := Rosu.ConvOsu.prepare_spec realAr st.cs st.arWindow st.clockRate st.stackLeniency
    st.reflection st.version take raw
  have h' := h
  unfold Rosu.ConvOsu.prepare at h'
  simp only at h'
  split at h'
  · cases h'
  · simp only [Option.some.injEq, Prod.mk.injEq] at h'
    obtain ⟨_, _, rfl, rfl⟩ := h'
    unfold prepareAll at hp
    rw [h] at hp
    simp only [Res.ok.injEq] at hp
    subst hp
    exact ⟨_, rfl, rfl⟩

/-- **`osu_pipeline_strains_nonneg`** -/
theorem osu_pipeline_strains_nonneg (st : Settings ℝ) (take : Nat) (raw : List (Obj ℝ ℝ)) (p : Prepared ℝ ℝ)
    (hp : prepareAll realAr st take raw = .ok p)
    (hraw : ∀ o ∈ p.objs, RawOK (toRaw realAr o))
    (hw : 0 ≤ st.odGreat) (hcs : st.cs < 85 / 7)
    (fuel k : Nat) (sk : Skills ℝ)
    (hsk : Skills.processAll p.diffObjs p.cfg fuel Skills.init (p.diffObjs.take k) = .ok sk) : SkOK sk := by
  obtain ⟨sf, hd, hc⟩ := prepared_shape st take raw p hp
  have hl : ListOK p.diffObjs := by
    rw [hd]
    apply createDiffObjs_listOK
    intro r hr
    obtain ⟨o, ho, rfl⟩ := List.mem_map.mp hr
    exact hraw o ho
  have hhw : 0 ≤ p.cfg.hitWindow := by
    rw [hc]
    show (0 : ℝ) ≤ (2.0 : ℝ) * st.odGreat
    have : (0 : ℝ) ≤ (2.0 : ℝ) := by norm_num
    exact mul_nonneg this hw
  have hfl : 0 ≤ p.cfg.flScaling := by
    rw [hc]
    show (0 : ℝ) ≤ (52.0 : ℝ) / _
    have : (0 : ℝ) ≤ (52.0 : ℝ) := by norm_num
    exact div_nonneg this (Rosu.ConvOsu.scaling_pos st.cs hcs).2.le
  refine processAll_ok p.diffObjs p.cfg fuel _ _ sk ?_ SkOK_init hsk
  intro d hdm
  have hdm' : d ∈ p.diffObjs := List.mem_of_mem_take hdm
  obtain ⟨i, hi⟩ := List.mem_iff_getElem?.mp hdm'
  have hf := hl.floors i d hi
  exact ⟨aimEvaluate_nonneg hl hf true, aimEvaluate_nonneg hl hf false,
    speedEvaluate_nonneg hl hf _ _, (rhythmEvaluateFull_spec p.diffObjs hl d hhw).1,
    flashlightEvaluate_nonneg hl hf (hl.raw i d hi) _ hfl _ _⟩

/-- the two composed: from decoded objects, with no hypothesis on the objects at all -/
theorem osu_pipeline_strains_nonneg_from_objects (E : Rosu.SliderEvents.Arith ℝ) (fuel : Nat) (st : Settings ℝ)
    (take : Nat) (objs : List (PObj ℝ ℝ)) (raw : List (Obj ℝ ℝ)) (p : Prepared ℝ ℝ)
    (hr : newObjs realAr E fuel objs = .ok raw) (hp : prepareAll realAr st take raw = .ok p)
    (hw : 0 ≤ st.odGreat) (hcs : st.cs < 85 / 7) (k : Nat) (sk : Skills ℝ)
    (hsk : Skills.processAll p.diffObjs p.cfg fuel Skills.init (p.diffObjs.take k) = .ok sk) : SkOK sk :=
  osu_pipeline_strains_nonneg st take raw p hp (osu_pipeline_raw_ok E fuel st take objs raw p hr hp) hw hcs fuel k sk hsk

/-- non-vacuity: the hypotheses on the settings are satisfiable (OD 5 great window, CS 4) -/
example : (0 : ℝ) ≤ 49.5 ∧ (4 : ℝ) < 85 / 7 := by norm_num

end Rosu.C09f
