import RosuModel.Lemmas.ConvertWF
import RosuModel.Lemmas.TaikoTicks
import RosuModel.Props.C06
import RosuModel.Gen.ConvertWrites

/-!
# C19 — converted maps are well-formed inputs of their target mode

Structural parts of the three converters (`Model/ConvertWF.lean`) plus the sorting theorems of C06,
which cover the `TandemSorter` use at the end of `taiko::convert` and the legacy sort at the end
of `mania::convert` (both run the very same code as the decoder).

The slider arithmetic of the taiko converter (`should_convert_slider_to_taiko_hits`, the tick loop,
the edge-sound cycle) is modelled in `Model/TaikoTicks.lean` generically in its arithmetic: the
theorems here are about exact rationals, the driver replays the very same definitions with IEEE
doubles against the real converter (TTICKS lines).

Not covered by a theorem (oracle only): the pattern generators of the mania converter beyond the
column arithmetic (which columns are chosen, note durations).  Which fields of the map each
converter writes — for `catch::convert` exactly `mode`/`is_convert` — is a generated fact
(`Gen/ConvertWrites.lean`, last section).
-/

namespace Rosu.C19
open Rosu.ConvertWF Rosu.Sort Rosu.Decode

variable {α β : Type}

/-! ## taiko -/

/-- The in-place splice loop of `taiko::convert` keeps one hit sound per hit object, whatever the
float code decides for each slider (convert or not, how many hits, even zero). -/
theorem taiko_splice_keeps_lengths (O : TaikoOps α β) (objs : List α) (sounds : List β)
    (h : objs.length = sounds.length) (r : List α × List β)
    (hr : taikoSplice O objs sounds = some r) : r.1.length = r.2.length :=
  taikoLoop_lengths O _ _ _ _ _ h hr

/-- The loop terminates within one iteration per original object and never panics
(`hit_sounds[idx]`, `idx -= 1`), provided every slider that is converted yields at least one hit —
which the tick loop guarantees because its first candidate `j = start_time` satisfies the loop
bound (`taiko_ticks_exact`, `taiko_convert_total_exact` below). -/
theorem taiko_splice_total (O : TaikoOps α β)
    (hgen : ∀ o s, O.shouldConvert o = true → O.generate o s ≠ [])
    (objs : List α) (sounds : List β) (h : objs.length = sounds.length) :
    ∃ r, taikoSplice O objs sounds = some r ∧ r.1.length = r.2.length := by
  obtain ⟨r, hr⟩ := taikoLoop_total O hgen (objs.length + 1) 0 objs sounds h (by omega)
  exact ⟨r, hr, taikoLoop_lengths O _ _ _ _ _ h hr⟩

/-- Without that guarantee the removal branch underflows `idx` at the first object: the hypothesis
of `taiko_splice_total` is needed (non-vacuity of the panic modelling). -/
example :
    taikoSplice (α := Nat) (β := Nat) ⟨fun _ => .slider, fun _ => true, fun _ _ => [], id⟩ [7] [1]
      = none := by decide

example :
    taikoSplice (α := Nat) (β := Nat)
      ⟨fun o => if o = 0 then .plain else if o = 1 then .slider else .hold,
        fun _ => true, fun _ s => [(0, s), (0, s + 1)], fun _ => 0⟩ [1, 2, 0, 1] [10, 20, 30, 40]
      = some ([0, 0, 0, 0, 0, 0], [10, 11, 20, 30, 40, 41]) := by decide

/-! ### the slider arithmetic: at least one hit per converted slider -/

section ticks
open Rosu.TaikoTicks

/-- In EVERY arithmetic (IEEE doubles included): `should_convert_slider_to_taiko_hits` returns
`true` only when its guard `tick_spacing > 0.0` holds — the guard that makes the first loop test
`start_time <= start_time + duration + tick_spacing / 8` succeed (`duration` is a `u32`).  A zero,
negative or NaN spacing therefore never reaches the tick loop. -/
theorem taiko_convert_branch_has_positive_spacing {F : Type} (A : Arith F) (m : MapIn F)
    (s : SliderIn F) (h : (shouldConvert A m s).convert = true) :
    A.lt (A.ofNat 0) (shouldConvert A m s).tickSpacing = true :=
  shouldConvert_pos A m s h

/-- Over exact rationals, for every map/slider parameters: whenever the code takes the "convert
to hits" branch the tick loop terminates — after `⌊(duration + ts/8) / ts⌋ + 1` iterations
(`tickCount`; after one iteration if `ts ≤ f64::EPSILON` triggers the `eq(0.0)` break) — and
pushes at least one hit, the first one at the slider's start time with the first edge sound (or
the slider's own sound when it has no edge sounds); hit `k` is at `start + k·ts` with edge sound
`k mod max(len, 1)`. -/
theorem taiko_ticks_exact (m : MapIn Rat) (s : SliderIn Rat) (nodeSounds : List Nat) (own fuel : Nat)
    (hc : (shouldConvert ratArith m s).convert = true)
    (hf : tickCount (shouldConvert ratArith m s).duration (shouldConvert ratArith m s).tickSpacing + 1
      ≤ fuel) :
    ∃ l, sliderOutcome ratArith fuel m s nodeSounds own = .hits l ∧
      l.length = (if ratArith.eqZero (shouldConvert ratArith m s).tickSpacing then 1
        else tickCount (shouldConvert ratArith m s).duration (shouldConvert ratArith m s).tickSpacing) ∧
      1 ≤ l.length ∧ l.head? = some (s.start, nodeSounds.getD 0 own) ∧
      ∀ (k : Nat) x, l[k]? = some x →
        x = (s.start + (k : Rat) * (shouldConvert ratArith m s).tickSpacing,
          nodeSounds.getD (k % max nodeSounds.length 1) own) := by
  refine ⟨_, sliderOutcome_rat m s nodeSounds own fuel hc hf, ?_, ?_, ?_, ?_⟩
  · split <;> simp
  · split
    · simp
    · simp only [List.length_map, List.length_range]; exact tickCount_pos _ _
  · split
    · rfl
    · have hp := tickCount_pos (shouldConvert ratArith m s).duration
        (shouldConvert ratArith m s).tickSpacing
      obtain ⟨n, hn⟩ : ∃ n, tickCount (shouldConvert ratArith m s).duration
          (shouldConvert ratArith m s).tickSpacing = n + 1 := ⟨_, (Nat.sub_add_cancel hp).symm⟩
      rw [hn, List.range_succ_eq_map]
      simp [Nat.zero_mod]
  · intro k x hx
    split at hx
    · cases k with
      | zero =>
        simp only [List.getElem?_cons_zero, Option.some.injEq] at hx
        subst hx
        simp [Nat.zero_mod]
      | succ k => simp at hx
    · rw [List.getElem?_map] at hx
      cases hr : (List.range (tickCount (shouldConvert ratArith m s).duration
          (shouldConvert ratArith m s).tickSpacing))[k]? with
      | none => rw [hr] at hx; cases hx
      | some y =>
        rw [hr] at hx
        have hy : y = k := by
          rcases List.getElem?_eq_some_iff.mp hr with ⟨_, h⟩
          simpa using h.symm
        subst hy
        simpa using hx.symm

/-- The whole splice loop instantiated with the exact slider arithmetic (`ratOps`: decision =
`shouldConvert`, generated hits = the tick loop): for every map parameters, every object list and
one sound per object it terminates, never takes the `remove(idx); idx -= 1` branch, never panics,
and keeps one sound per object — the "at least one hit per converted slider" hypothesis of
`taiko_splice_total` is discharged. -/
theorem taiko_convert_total_exact (m : MapIn Rat) (objs : List RObj) (sounds : List Nat)
    (h : objs.length = sounds.length) :
    ∃ r, taikoSplice (ratOps m) objs sounds = some r ∧ r.1.length = r.2.length :=
  taiko_splice_total (ratOps m) (fun o s hs => ratOps_generate_ne_nil m o s hs) objs sounds h

/-- A concrete converted slider (v14, SliderMultiplier 1.4, tick rate 1, beat length 500, 70 px,
one span at t = 1000): duration 250, tick spacing 250, two hits at 1000 and 1250. -/
def exMap : MapIn Rat := ⟨14, 7 / 5, 1⟩
def exSlider : SliderIn Rat := ⟨1000, 70, 1, 1, 500⟩

example : (shouldConvert ratArith exMap exSlider).convert = true ∧
    (shouldConvert ratArith exMap exSlider).duration = 250 ∧
    (shouldConvert ratArith exMap exSlider).tickSpacing = 250 ∧
    tickCount 250 250 = 2 ∧
    sliderOutcome ratArith 3 exMap exSlider [2, 4, 8] 0 = .hits [(1000, 2), (1250, 4)] := by
  decide +kernel

/-- …and a kept one (700 px: longer than two beats). -/
example : (shouldConvert ratArith exMap { exSlider with dist := 700 }).convert = false := by
  decide +kernel

/-- Without the `tick_spacing > 0` guard the loop could push nothing (negative spacing larger
than eight durations: the bound lies before the start) — the guard is what the theorem uses. -/
example : tickLoop ratArith (tickBound ratArith 1000 10 (-100)) (-100) 1 5 1000 0 = some [] := by
  decide +kernel

end ticks

/-- After the splice, `taiko::convert` runs `TandemSorter::new_stable` + `sort` on objects and
sounds — the code path of the decoder: the result is sorted by start time, keeps one sound per
object and every sound stays with its object. -/
theorem taiko_final_sort_sorted_and_paired {τ υ : Type} (objs : List (Int × τ)) (sounds : List υ)
    (h : sounds.length = objs.length) :
    ∃ o' s', sortObjects false objs sounds = some (o', s') ∧
      o'.length = objs.length ∧ s'.length = o'.length ∧
      (o'.map (·.1)).Pairwise (· ≤ ·) ∧
      (o'.map (fun p => norm p.1)).Pairwise (· ≤ ·) ∧
      (o'.zip s').Perm (objs.zip sounds) :=
  C06.decode_objects_sorted_and_paired objs sounds h

/-- `EffectPoint::add` (scroll-speed points inserted by the taiko converter) keeps the effect
points strictly ordered. -/
theorem effect_add_strictSorted {V : Type} (p : Int × V) (l : List (Int × V))
    (h : StrictSorted l) : StrictSorted (insertOrReplace p l) :=
  (C06.insertOrReplace_strictSorted p l h).1

/-! ## mania -/

/-- Key count: the key-mod value if one is active, otherwise between 4 and 7 — for every circle
size, overall difficulty and object mix. -/
theorem target_columns_range (keys : Option Nat) (rcs rod : Int) (count len : Nat) :
    (∀ k, keys = some k → targetColumns keys rcs rod count len = k) ∧
    (keys = none → 4 ≤ targetColumns keys rcs rod count len ∧
      targetColumns keys rcs rod count len ≤ 7) := by
  constructor
  · intro k hk; subst hk; rfl
  · intro hk; subst hk; exact targetColumns_range rcs rod count len

/-- every branch is reachable -/
example : targetColumns none 4 6 1 10 = 7 ∧ targetColumns none 5 6 5 10 = 7 ∧
    targetColumns none 5 5 5 10 = 6 ∧ targetColumns none 4 5 7 10 = 5 ∧
    targetColumns none 4 4 7 10 = 4 ∧ targetColumns none 4 9 4 10 = 7 ∧
    targetColumns none 4 2 4 10 = 4 ∧ targetColumns none 3 4 0 0 = 5 ∧
    targetColumns (some 10) 3 4 0 0 = 10 := by decide

/-- `ManiaObject::column` is below the key count for every (integral) x-position, including
negative and far-too-large ones. -/
theorem column_lt_total (x : Int) (total : Nat) (h : 1 ≤ total) : column x total < total :=
  ConvertWF.column_lt_total x total h

/-- `column_to_pos` / `column` are an inverse pair (exact arithmetic) for every key count up to 512:
a note generated for column `c` is read back as column `c`. -/
theorem column_to_pos_inverse (c total : Nat) (hc : c < total) (ht : total ≤ 512) :
    column (columnToPos c total : Nat) total = c :=
  column_columnToPos c total hc ht

/-- …in particular generated positions always denote a column below the key count. -/
theorem generated_column_lt_total (c total : Nat) (hc : c < total) :
    column (columnToPos c total : Nat) total < total :=
  ConvertWF.column_lt_total _ total (by omega)

/-- `mania::convert` ends with `sort_by(start_time)` (std, stable) followed by the legacy sort: the
legacy sort returns (no panic, terminates — `C06.legacy_sort_objects_total`), the start times stay
non-decreasing and nothing is lost. -/
theorem mania_final_sort {τ : Type} [DecidableEq τ]
    (l : List (Int × τ)) (hs : KeysSorted (fun p => norm p.1) l) :
    ∃ l', legacySort objGt objLt l = some l' ∧
      l'.Perm l ∧ (l'.map (fun p => norm p.1)).Pairwise (· ≤ ·) := by
  obtain ⟨l', h, _⟩ := C06.legacy_sort_objects_total l
  refine ⟨l', h, legacySort_perm h, ?_⟩
  rw [C06.legacy_sort_keeps_sorted_keys l l' hs h]
  exact hs

/-! ## Which fields of the map the converters write (generated) -/

section Writes
open Rosu.Gen.ConvertWrites

/-- Every shape met while extracting the converters' writes was understood. -/
theorem convert_shapes_understood : ∀ row ∈ convertUnknown, row.2 = [] := by decide

/-- **`catch::convert` touches nothing but `mode` and `is_convert`**: its parameter is the map alone
and its whole body is the two assignments `map.mode = GameMode::Catch; map.is_convert = true;` —
objects, sounds, control points and difficulty settings are exactly those of the source map. -/
theorem catch_convert_sets_only_mode_and_flag :
    convertSignatures.lookup "Catch" = some "(map:&mut Beatmap)" ∧
    convertStatements.lookup "Catch" = some ["map.mode=GameMode::Catch", "map.is_convert=true"] ∧
    convertWrites.lookup "Catch" = some [("is_convert", "assign"), ("mode", "assign")] ∧
    convertMapCalls.lookup "Catch" = some [] := by decide

/-- All three converters set `mode` and `is_convert` by plain assignment, and the wrapper
`<Mode>::convert` that `Beatmap::convert_ref/convert_mut` call only asserts "unconverted osu! map"
and delegates. -/
theorem converters_set_mode_and_flag :
    (∀ row ∈ convertWrites, ("mode", "assign") ∈ row.2 ∧ ("is_convert", "assign") ∈ row.2) ∧
    convertWrappers =
      [("Catch", ["debug_assert!(!map.is_convert&&map.mode==GameMode::Osu)", "convert::convert(map)"]),
       ("Taiko", ["debug_assert!(!map.is_convert&&map.mode==GameMode::Osu)", "convert::convert(map)"]),
       ("Mania", ["debug_assert!(!map.is_convert&&map.mode==GameMode::Osu)", "convert::convert(map,mods)"])] := by
  decide

/-- The set of fields a converter may write does not grow silently: taiko writes the objects, their
sounds and the effect points (scroll-speed points for converted sliders); mania writes the key
count into `cs`, replaces the objects and clears the sounds; no converter writes anything else
(timing/difficulty points, `ar/od/hp`, slider settings, breaks, version stay those of the source).
The map is otherwise only handed to read-only code: same-file helpers taking `&Beatmap`, `&self`
lookups, and the mania pattern generators — no function outside convert.rs / convert/mod.rs (and
the wrappers in mod.rs) has a `&mut Beatmap` parameter. -/
theorem converter_write_sets :
    (∀ w ∈ (convertWrites.lookup "Taiko").getD [("?", "?")],
        w.1 ∈ ["hit_objects", "hit_sounds", "effect_points", "mode", "is_convert"]) ∧
    (∀ w ∈ (convertWrites.lookup "Mania").getD [("?", "?")],
        w.1 ∈ ["cs", "hit_objects", "hit_sounds", "mode", "is_convert"]) ∧
    (∀ row ∈ convertMapCalls, ∀ c ∈ row.2,
        c ∈ ["helper-ref:should_convert_slider_to_taiko_hits", "helper-ref:target_columns",
             "method:difficulty_point_at", "method:effect_point_at",
             "arg-of:EndTimeObjectPatternGenerator::new", "arg-of:HitObjectPatternGenerator::new",
             "arg-of:PathObjectPatternGenerator::new"]) ∧
    (∀ row ∈ mutBeatmapFns, ∀ f ∈ row.2,
        f.1 ∈ ["src/catch/convert.rs", "src/taiko/convert.rs", "src/mania/convert/mod.rs",
               "src/catch/mod.rs", "src/taiko/mod.rs", "src/mania/mod.rs"] ∧
        f.2 ∈ ["convert", "apply_random_to_beatmap", "apply_hold_off_to_beatmap", "apply_invert_to_beatmap"]) := by
  decide

/-- Non-vacuity: taiko does write the effect points, mania does overwrite `cs`. -/
example : ("effect_points", "borrow-mut") ∈ (convertWrites.lookup "Taiko").getD [] ∧
    ("cs", "assign") ∈ (convertWrites.lookup "Mania").getD [] := by decide

end Writes

end Rosu.C19
