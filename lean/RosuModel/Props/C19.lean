import RosuModel.Lemmas.ConvertWF
import RosuModel.Props.C06
import RosuModel.Gen.ConvertWrites

/-!
# C19 — converted maps are well-formed inputs of their target mode

Structural parts of the three converters (`Model/ConvertWF.lean`) plus the sorting theorems of C06,
which cover the `TandemSorter` use at the end of `taiko::convert` and the legacy sort at the end
of `mania::convert` (both run the very same code as the decoder).

Not covered by a theorem (oracle only): the pattern generators of the mania converter beyond the
column arithmetic (which columns are chosen, note durations) and the float arithmetic that decides
which sliders become taiko hits.  Which fields of the map each converter writes is a generated
fact (`Gen/ConvertWrites.lean`, last section).
-/

namespace Rosu.C19
open Rosu.ConvertWF Rosu.Sort Rosu.Decode

variable {α β : Type}

/-! ## taiko -/

/-- The in-place splice loop of `taiko::convert` keeps one hit sound per hit object, whatever the
float code decides for each slider (convert or not, how many hits, even zero). -/
theorem taiko_splice_keeps_lengths (O : TaikoOps α β) (objs : List α) (sounds : List β)
    (h : objs.length = sounds.length) (r : List α × List β)
    (hr : taikoSplice O objs sounds = some r) : r.1.length = r.2.length :=
  taikoLoop_lengths O _ _ _ _ _ h hr

/-- The loop terminates within one iteration per original object and never panics
(`hit_sounds[idx]`, `idx -= 1`), provided every converted slider yields at least one hit — which
the tick loop guarantees because its first candidate `j = start_time` satisfies the loop bound. -/
theorem taiko_splice_total (O : TaikoOps α β) (hgen : ∀ o s, O.generate o s ≠ [])
    (objs : List α) (sounds : List β) (h : objs.length = sounds.length) :
    ∃ r, taikoSplice O objs sounds = some r ∧ r.1.length = r.2.length := by
  obtain ⟨r, hr⟩ := taikoLoop_total O hgen (objs.length + 1) 0 objs sounds h (by omega)
  exact ⟨r, hr, taikoLoop_lengths O _ _ _ _ _ h hr⟩

/-- Without that guarantee the removal branch underflows `idx` at the first object: the hypothesis
of `taiko_splice_total` is needed (non-vacuity of the panic modelling). -/
example :
    taikoSplice (α := Nat) (β := Nat) ⟨fun _ => .slider, fun _ => true, fun _ _ => [], id⟩ [7] [1]
      = none := by decide

example :
    taikoSplice (α := Nat) (β := Nat)
      ⟨fun o => if o = 0 then .plain else if o = 1 then .slider else .hold,
        fun _ => true, fun _ s => [(0, s), (0, s + 1)], fun _ => 0⟩ [1, 2, 0, 1] [10, 20, 30, 40]
      = some ([0, 0, 0, 0, 0, 0], [10, 11, 20, 30, 40, 41]) := by decide

/-- After the splice, `taiko::convert` runs `TandemSorter::new_stable` + `sort` on objects and
sounds — the code path of the decoder: the result is sorted by start time, keeps one sound per
object and every sound stays with its object. -/
theorem taiko_final_sort_sorted_and_paired {τ υ : Type} (objs : List (Int × τ)) (sounds : List υ)
    (h : sounds.length = objs.length) :
    ∃ o' s', sortObjects false objs sounds = some (o', s') ∧
      o'.length = objs.length ∧ s'.length = o'.length ∧
      (o'.map (·.1)).Pairwise (· ≤ ·) ∧
      (o'.map (fun p => norm p.1)).Pairwise (· ≤ ·) ∧
      (o'.zip s').Perm (objs.zip sounds) :=
  C06.decode_objects_sorted_and_paired objs sounds h

/-- `EffectPoint::add` (scroll-speed points inserted by the taiko converter) keeps the effect
points strictly ordered. -/
theorem effect_add_strictSorted {V : Type} (p : Int × V) (l : List (Int × V))
    (h : StrictSorted l) : StrictSorted (insertOrReplace p l) :=
  (C06.insertOrReplace_strictSorted p l h).1

/-! ## mania -/

/-- Key count: the key-mod value if one is active, otherwise between 4 and 7 — for every circle
size, overall difficulty and object mix. -/
theorem target_columns_range (keys : Option Nat) (rcs rod : Int) (count len : Nat) :
    (∀ k, keys = some k → targetColumns keys rcs rod count len = k) ∧
    (keys = none → 4 ≤ targetColumns keys rcs rod count len ∧
      targetColumns keys rcs rod count len ≤ 7) := by
  constructor
  · intro k hk; subst hk; rfl
  · intro hk; subst hk; exact targetColumns_range rcs rod count len

/-- every branch is reachable -/
example : targetColumns none 4 6 1 10 = 7 ∧ targetColumns none 5 6 5 10 = 7 ∧
    targetColumns none 5 5 5 10 = 6 ∧ targetColumns none 4 5 7 10 = 5 ∧
    targetColumns none 4 4 7 10 = 4 ∧ targetColumns none 4 9 4 10 = 7 ∧
    targetColumns none 4 2 4 10 = 4 ∧ targetColumns none 3 4 0 0 = 5 ∧
    targetColumns (some 10) 3 4 0 0 = 10 := by decide

/-- `ManiaObject::column` is below the key count for every (integral) x-position, including
negative and far-too-large ones. -/
theorem column_lt_total (x : Int) (total : Nat) (h : 1 ≤ total) : column x total < total :=
  ConvertWF.column_lt_total x total h

/-- `column_to_pos` / `column` are an inverse pair (exact arithmetic) for every key count up to 512:
a note generated for column `c` is read back as column `c`. -/
theorem column_to_pos_inverse (c total : Nat) (hc : c < total) (ht : total ≤ 512) :
    column (columnToPos c total : Nat) total = c :=
  column_columnToPos c total hc ht

/-- …in particular generated positions always denote a column below the key count. -/
theorem generated_column_lt_total (c total : Nat) (hc : c < total) :
    column (columnToPos c total : Nat) total < total :=
  ConvertWF.column_lt_total _ total (by omega)

/-- `mania::convert` ends with `sort_by(start_time)` (std, stable) followed by the legacy sort: the
start times stay non-decreasing and nothing is lost. -/
theorem mania_final_sort {τ : Type} [DecidableEq τ]
    (l l' : List (Int × τ)) (hs : KeysSorted (fun p => norm p.1) l)
    (h : legacySort objGt objLt l = some l') :
    l'.Perm l ∧ (l'.map (fun p => norm p.1)).Pairwise (· ≤ ·) := by
  refine ⟨legacySort_perm h, ?_⟩
  rw [C06.legacy_sort_keeps_sorted_keys l l' hs h]
  exact hs

/-! ## Which fields of the map the converters write (generated) -/

section Writes
open Rosu.Gen.ConvertWrites

/-- Every shape met while extracting the converters' writes was understood. -/
theorem convert_shapes_understood : ∀ row ∈ convertUnknown, row.2 = [] := by decide

/-- **`catch::convert` touches nothing but `mode` and `is_convert`**: its parameter is the map alone
and its whole body is the two assignments `map.mode = GameMode::Catch; map.is_convert = true;` —
objects, sounds, control points and difficulty settings are exactly those of the source map. -/
theorem catch_convert_sets_only_mode_and_flag :
    convertSignatures.lookup "Catch" = some "(map:&mut Beatmap)" ∧
    convertStatements.lookup "Catch" = some ["map.mode=GameMode::Catch", "map.is_convert=true"] ∧
    convertWrites.lookup "Catch" = some [("is_convert", "assign"), ("mode", "assign")] ∧
    convertMapCalls.lookup "Catch" = some [] := by decide

/-- All three converters set `mode` and `is_convert` by plain assignment, and the wrapper
`<Mode>::convert` that `Beatmap::convert_ref/convert_mut` call only asserts "unconverted osu! map"
and delegates. -/
theorem converters_set_mode_and_flag :
    (∀ row ∈ convertWrites, ("mode", "assign") ∈ row.2 ∧ ("is_convert", "assign") ∈ row.2) ∧
    convertWrappers =
      [("Catch", ["debug_assert!(!map.is_convert&&map.mode==GameMode::Osu)", "convert::convert(map)"]),
       ("Taiko", ["debug_assert!(!map.is_convert&&map.mode==GameMode::Osu)", "convert::convert(map)"]),
       ("Mania", ["debug_assert!(!map.is_convert&&map.mode==GameMode::Osu)", "convert::convert(map,mods)"])] := by
  decide

/-- The set of fields a converter may write does not grow silently: taiko writes the objects, their
sounds and the effect points (scroll-speed points for converted sliders); mania writes the key
count into `cs`, replaces the objects and clears the sounds; no converter writes anything else
(timing/difficulty points, `ar/od/hp`, slider settings, breaks, version stay those of the source).
The map is otherwise only handed to read-only code: same-file helpers taking `&Beatmap`, `&self`
lookups, and the mania pattern generators — no function outside convert.rs / convert/mod.rs (and
the wrappers in mod.rs) has a `&mut Beatmap` parameter. -/
theorem converter_write_sets :
    (∀ w ∈ (convertWrites.lookup "Taiko").getD [("?", "?")],
        w.1 ∈ ["hit_objects", "hit_sounds", "effect_points", "mode", "is_convert"]) ∧
    (∀ w ∈ (convertWrites.lookup "Mania").getD [("?", "?")],
        w.1 ∈ ["cs", "hit_objects", "hit_sounds", "mode", "is_convert"]) ∧
    (∀ row ∈ convertMapCalls, ∀ c ∈ row.2,
        c ∈ ["helper-ref:should_convert_slider_to_taiko_hits", "helper-ref:target_columns",
             "method:difficulty_point_at", "method:effect_point_at",
             "arg-of:EndTimeObjectPatternGenerator::new", "arg-of:HitObjectPatternGenerator::new",
             "arg-of:PathObjectPatternGenerator::new"]) ∧
    (∀ row ∈ mutBeatmapFns, ∀ f ∈ row.2,
        f.1 ∈ ["src/catch/convert.rs", "src/taiko/convert.rs", "src/mania/convert/mod.rs",
               "src/catch/mod.rs", "src/taiko/mod.rs", "src/mania/mod.rs"] ∧
        f.2 ∈ ["convert", "apply_random_to_beatmap", "apply_hold_off_to_beatmap", "apply_invert_to_beatmap"]) := by
  decide

/-- Non-vacuity: taiko does write the effect points, mania does overwrite `cs`. -/
example : ("effect_points", "borrow-mut") ∈ (convertWrites.lookup "Taiko").getD [] ∧
    ("cs", "assign") ∈ (convertWrites.lookup "Mania").getD [] := by decide

end Writes

end Rosu.C19
