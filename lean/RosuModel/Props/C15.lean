import RosuModel.Lemmas.GradualOsu
import RosuModel.Lemmas.GradualCatch
import RosuModel.Lemmas.GradualMania
import RosuModel.Lemmas.GradualTaiko
import RosuModel.Lemmas.GradualTaikoNth
import RosuModel.Lemmas.GradualProtocol

/-!
# C15 — gradual calculators obey the iterator protocol

Statements are about the machines of `Model/Gradual.lean`, for an arbitrary abstract skill
state `S` and *every* finite operation sequence over `next`, `nth k` (any `k`, including
`usize::MAX`-sized ones) and `len`.
-/

namespace Rosu.Gradual

variable {S : Type}

/-! ## osu!standard -/

/-- Every reachable state is canonical: it is determined by the number `i ≤ n` of values
produced so far. -/
theorem osu_reachable (sk : Skills S) (objs : List OsuObj) (ops : List Op) :
    ∃ i, OsuCanon sk objs ((osuMachine sk objs).exec (osuNew sk objs) ops) i := by
  suffices h : ∀ (g : OsuGrad S) (i : Nat), OsuCanon sk objs g i →
      ∃ j, OsuCanon sk objs ((osuMachine sk objs).exec g ops) j from
    h _ 0 (osuNew_canon sk objs)
  induction ops with
  | nil => intro g i hc; exact ⟨i, hc⟩
  | cons op ops ih =>
    intro g i hc
    have hle := hc.le
    cases op with
    | next =>
      rcases Nat.lt_or_ge i objs.length with hlt | hge
      · exact ih _ (i + 1) ((osuNext_spec sk objs g i hc).1 hlt).2
      · have heq : i = objs.length := by omega
        have := (osuNext_spec sk objs g i hc).2 heq
        have h2 : ((osuMachine sk objs).step g Op.next).2 = g := by
          simp [Machine.step, osuMachine, this]
        simpa [Machine.exec, Machine.run, h2] using ih g i hc
    | nth k =>
      rcases Nat.lt_or_ge (i + k) objs.length with hlt | hge
      · exact ih _ _ ((osuNth_spec sk objs g i k hc).1 hlt).2
      · exact ih _ _ ((osuNth_spec sk objs g i k hc).2 hge).2
    | len => exact ih g i hc

/-- `len()` never underflows and is the number of values plain iteration still yields. -/
theorem osu_len_eq_remaining (sk : Skills S) (objs : List OsuObj) (g : OsuGrad S) (i : Nat)
    (hc : OsuCanon sk objs g i) :
    (osuMachine sk objs).len g = some (objs.length - i) := osuLen_spec sk objs g i hc

/-- Once exhausted, every further `next`/`nth` returns `None` (and never panics) and the state
stays exhausted. -/
theorem osu_exhausted_stays_none (sk : Skills S) (objs : List OsuObj) (g : OsuGrad S)
    (hc : OsuCanon sk objs g objs.length) (k : Nat) :
    (osuMachine sk objs).next g = (.none, g) ∧
    ((osuMachine sk objs).nth g k).1 = .none ∧
    OsuCanon sk objs ((osuMachine sk objs).nth g k).2 objs.length := by
  refine ⟨?_, ((osuNth_spec sk objs g _ k hc).2 (Nat.le_add_right _ _)).1, ((osuNth_spec sk objs g _ k hc).2 (Nat.le_add_right _ _)).2⟩
  have := (osuNext_spec sk objs g _ hc).2 rfl
  simp [osuMachine, this, optToRes]

/-- What `nth k` does (as fixed by `fix: gradual difficulty nth(n) returns None when fewer than n+1
values remain`): it consumes `min (k+1) remaining` values; it returns the last of them when more than
`k` values remained and `None` otherwise (the calculator then ends exhausted). -/
theorem osu_nth_processes_min (sk : Skills S) (objs : List OsuObj) (g : OsuGrad S) (i k : Nat)
    (hc : OsuCanon sk objs g i) :
    OsuCanon sk objs ((osuMachine sk objs).nth g k).2 (i + min (k + 1) (objs.length - i)) ∧
    (i + k < objs.length → ((osuMachine sk objs).nth g k).1 = .some (osuValue sk objs (i + k + 1))) ∧
    (objs.length ≤ i + k → ((osuMachine sk objs).nth g k).1 = .none) := by
  have hle := hc.le
  rcases Nat.lt_or_ge (i + k) objs.length with hlt | hge
  · obtain ⟨hv, hcn⟩ := (osuNth_spec sk objs g i k hc).1 hlt
    have e : i + min (k + 1) (objs.length - i) = i + k + 1 := by omega
    exact ⟨by rw [e]; exact hcn, fun _ => hv, fun h => by omega⟩
  · obtain ⟨hv, hcn⟩ := (osuNth_spec sk objs g i k hc).2 hge
    have e : i + min (k + 1) (objs.length - i) = objs.length := by omega
    exact ⟨by rw [e]; exact hcn, fun h => by omega, fun _ => hv⟩

/-- The per-state specifications of `next` and `nth` in the form of `Lemmas/GradualProtocol.lean`. -/
theorem osu_protocol (sk : Skills S) (objs : List OsuObj) :
    ProtocolSpec (osuMachine sk objs) (OsuCanon sk objs) objs.length (osuValue sk objs) where
  le := fun g i hc => hc.le
  next_some := fun g i hc hlt => by
    have := (osuNext_spec sk objs g i hc).1 hlt
    exact ⟨by show optToRes (osuNext sk objs g).1 = _; rw [this.1]; rfl, this.2⟩
  next_none := fun g i hc heq => by
    have := (osuNext_spec sk objs g i hc).2 heq
    exact ⟨by show optToRes (osuNext sk objs g).1 = _; rw [this]; rfl,
      by show OsuCanon sk objs (osuNext sk objs g).2 i; rw [this]; exact hc⟩
  nth_some := fun g i k hc h => ((osuNth_spec sk objs g i k hc).1 h).1
  nth_none := fun g i k hc h => ((osuNth_spec sk objs g i k hc).2 h).1

/-- **The `Iterator::nth` contract**, for every `k` and every reachable state: `nth k` returns exactly what
the last of `k+1` calls of `next` returns — `None` when fewer than `k+1` values remain. -/
theorem osu_nth_eq_iterated_next (sk : Skills S) (objs : List OsuObj) (g : OsuGrad S) (i k : Nat) (hc : OsuCanon sk objs g i) :
    some ((osuMachine sk objs).nth g k).1 = ((osuMachine sk objs).nexts g (k + 1)).1.getLast? :=
  (osu_protocol sk objs).nth_eq_iterated_next g i k hc

/-- The full `Iterator::nth` contract on a fresh calculator, stated for a machine: `nth k` equals the last of
`k+1` `next` calls, which is `None` when fewer than `k+1` values remain. -/
def unitSkills : Skills Unit := ⟨(), fun _ _ => ()⟩

def OsuNthContract (mk : List OsuObj → Machine (OsuGrad Unit) (OsuCounts × Unit)) : Prop :=
  ∀ (objs : List OsuObj) (k : Nat),
    some ((mk objs).nth (osuNew unitSkills objs) k).1 =
      ((mk objs).nexts (osuNew unitSkills objs) (k + 1)).1.getLast?

/-- The contract holds of the code as fixed (instance of `osu_nth_eq_iterated_next`). -/
theorem osu_nth_contract : OsuNthContract (osuMachine unitSkills) :=
  fun objs k => osu_nth_eq_iterated_next unitSkills objs _ 0 k (osuNew_canon unitSkills objs)

/-- The contract was **false** of the code before the fix (`Old.osuMachine`, `take = min(n, len − 1)`):
on a two-circle map `nth(2)` returned the second value where two `next` calls followed by a third
return `None` (the former known finding `gradual-nth-clamps-to-last`). -/
theorem osu_nth_contract_fails : ¬ OsuNthContract (Old.osuMachine unitSkills) := by
  intro h
  have := h [⟨.circle, 0, 0⟩, ⟨.circle, 0, 0⟩] 2
  revert this
  decide

/-- No operation sequence makes `nth` or `len` hit the unchecked subtraction. -/
theorem osu_never_panics (sk : Skills S) (objs : List OsuObj) (ops : List Op) (k : Nat) :
    let g := (osuMachine sk objs).exec (osuNew sk objs) ops
    ((osuMachine sk objs).nth g k).1 ≠ .panic ∧ (osuMachine sk objs).len g ≠ none := by
  intro g
  obtain ⟨i, hc⟩ := osu_reachable sk objs ops
  refine ⟨?_, by rw [osu_len_eq_remaining sk objs g i hc]; simp⟩
  rcases Nat.lt_or_ge (i + k) objs.length with hlt | hge
  · rw [(osu_nth_processes_min sk objs g i k hc).2.1 hlt]; simp
  · rw [(osu_nth_processes_min sk objs g i k hc).2.2 hge]; simp


/-! ## osu!catch (`recs` = the gradual records, one per palpable object) -/

theorem catch_reachable (sk : Skills S) (recs : List CatchRec) (ops : List Op) :
    ∃ i, CatchCanon sk recs ((catchMachine sk recs (recs.length - 1)).exec (catchNew sk) ops) i := by
  suffices h : ∀ (g : CatchGrad S) (i : Nat), CatchCanon sk recs g i →
      ∃ j, CatchCanon sk recs ((catchMachine sk recs (recs.length - 1)).exec g ops) j from
    h _ 0 (catchNew_canon sk recs)
  induction ops with
  | nil => intro g i hc; exact ⟨i, hc⟩
  | cons op ops ih =>
    intro g i hc
    have hle := hc.le
    cases op with
    | next =>
      rcases Nat.lt_or_ge i recs.length with hlt | hge
      · exact ih _ (i + 1) ((catchNext_spec sk recs g i hc).1 hlt).2
      · have heq : i = recs.length := by omega
        have := (catchNext_spec sk recs g i hc).2 heq
        have h2 : ((catchMachine sk recs (recs.length - 1)).step g Op.next).2 = g := by
          show (catchNext sk recs (recs.length - 1) g).2 = g
          rw [this]
        simpa [Machine.exec, Machine.run, h2] using ih g i hc
    | nth k =>
      rcases Nat.lt_or_ge (i + k) recs.length with hlt | hge
      · exact ih _ _ ((catchNth_spec sk recs g i k hc).1 hlt).2
      · exact ih _ _ ((catchNth_spec sk recs g i k hc).2 hge).2
    | len => exact ih g i hc

theorem catch_len_eq_remaining (sk : Skills S) (recs : List CatchRec) (g : CatchGrad S) (i : Nat)
    (hc : CatchCanon sk recs g i) : (catchMachine sk recs (recs.length - 1)).len g = some (recs.length - i) := catchLen_spec sk recs g i hc

/-- What `nth k` does (as fixed by `fix: gradual difficulty nth(n) returns None when fewer than n+1
values remain`): it consumes `min (k+1) remaining` values; it returns the last of them when more than
`k` values remained and `None` otherwise (the calculator then ends exhausted). -/
theorem catch_nth_processes_min (sk : Skills S) (recs : List CatchRec) (g : CatchGrad S) (i k : Nat)
    (hc : CatchCanon sk recs g i) :
    CatchCanon sk recs ((catchMachine sk recs (recs.length - 1)).nth g k).2 (i + min (k + 1) (recs.length - i)) ∧
    (i + k < recs.length → ((catchMachine sk recs (recs.length - 1)).nth g k).1 = .some (catchValue sk recs (i + k + 1))) ∧
    (recs.length ≤ i + k → ((catchMachine sk recs (recs.length - 1)).nth g k).1 = .none) := by
  have hle := hc.le
  rcases Nat.lt_or_ge (i + k) recs.length with hlt | hge
  · obtain ⟨hv, hcn⟩ := (catchNth_spec sk recs g i k hc).1 hlt
    have e : i + min (k + 1) (recs.length - i) = i + k + 1 := by omega
    exact ⟨by rw [e]; exact hcn, fun _ => hv, fun h => by omega⟩
  · obtain ⟨hv, hcn⟩ := (catchNth_spec sk recs g i k hc).2 hge
    have e : i + min (k + 1) (recs.length - i) = recs.length := by omega
    exact ⟨by rw [e]; exact hcn, fun h => by omega, fun _ => hv⟩

/-- The per-state specifications of `next` and `nth` in the form of `Lemmas/GradualProtocol.lean`. -/
theorem catch_protocol (sk : Skills S) (recs : List CatchRec) :
    ProtocolSpec (catchMachine sk recs (recs.length - 1)) (CatchCanon sk recs) recs.length (catchValue sk recs) where
  le := fun g i hc => hc.le
  next_some := fun g i hc hlt => by
    exact (catchNext_spec sk recs g i hc).1 hlt
  next_none := fun g i hc heq => by
    have := (catchNext_spec sk recs g i hc).2 heq
    exact ⟨by show (catchNext sk recs (recs.length - 1) g).1 = _; rw [this],
      by show CatchCanon sk recs (catchNext sk recs (recs.length - 1) g).2 i; rw [this]; exact hc⟩
  nth_some := fun g i k hc h => ((catchNth_spec sk recs g i k hc).1 h).1
  nth_none := fun g i k hc h => ((catchNth_spec sk recs g i k hc).2 h).1

/-- **The `Iterator::nth` contract**, for every `k` and every reachable state: `nth k` returns exactly what
the last of `k+1` calls of `next` returns — `None` when fewer than `k+1` values remain. -/
theorem catch_nth_eq_iterated_next (sk : Skills S) (recs : List CatchRec) (g : CatchGrad S) (i k : Nat) (hc : CatchCanon sk recs g i) :
    some ((catchMachine sk recs (recs.length - 1)).nth g k).1 = ((catchMachine sk recs (recs.length - 1)).nexts g (k + 1)).1.getLast? :=
  (catch_protocol sk recs).nth_eq_iterated_next g i k hc

theorem catch_exhausted_stays_none (sk : Skills S) (recs : List CatchRec) (g : CatchGrad S)
    (hc : CatchCanon sk recs g recs.length) (k : Nat) :
    (catchMachine sk recs (recs.length - 1)).next g = (.none, g) ∧
    ((catchMachine sk recs (recs.length - 1)).nth g k).1 = .none ∧
    CatchCanon sk recs ((catchMachine sk recs (recs.length - 1)).nth g k).2 recs.length :=
  ⟨(catchNext_spec sk recs g _ hc).2 rfl, ((catchNth_spec sk recs g _ k hc).2 (Nat.le_add_right _ _)).1, ((catchNth_spec sk recs g _ k hc).2 (Nat.le_add_right _ _)).2⟩

theorem catch_never_panics (sk : Skills S) (recs : List CatchRec) (ops : List Op) (k : Nat) :
    let g := (catchMachine sk recs (recs.length - 1)).exec (catchNew sk) ops
    ((catchMachine sk recs (recs.length - 1)).nth g k).1 ≠ .panic ∧ ((catchMachine sk recs (recs.length - 1)).next g).1 ≠ .panic ∧ (catchMachine sk recs (recs.length - 1)).len g ≠ none := by
  intro g
  obtain ⟨i, hc⟩ := catch_reachable sk recs ops
  refine ⟨?_, ?_, by rw [catch_len_eq_remaining sk recs g i hc]; simp⟩
  · rcases Nat.lt_or_ge (i + k) recs.length with hlt | hge
    · rw [(catch_nth_processes_min sk recs g i k hc).2.1 hlt]; simp
    · rw [(catch_nth_processes_min sk recs g i k hc).2.2 hge]; simp
  · rcases Nat.lt_or_ge i recs.length with hlt | hge
    · have := ((catchNext_spec sk recs g i hc).1 hlt).1
      show (catchNext sk recs (recs.length - 1) g).1 ≠ _
      rw [this]; simp
    · have heq : i = recs.length := by have := hc.le; omega
      have := (catchNext_spec sk recs g i hc).2 heq
      show (catchNext sk recs (recs.length - 1) g).1 ≠ _
      rw [this]; simp

/-! ## osu!mania -/

theorem mania_reachable (sk : Skills S) (objs : List ManiaObj) (ops : List Op) :
    ∃ i, ManiaCanon sk objs ((maniaMachine sk objs).exec (maniaNew sk objs) ops) i := by
  suffices h : ∀ (g : ManiaGrad S) (i : Nat), ManiaCanon sk objs g i →
      ∃ j, ManiaCanon sk objs ((maniaMachine sk objs).exec g ops) j from
    h _ 0 (maniaNew_canon sk objs)
  induction ops with
  | nil => intro g i hc; exact ⟨i, hc⟩
  | cons op ops ih =>
    intro g i hc
    have hle := hc.le
    cases op with
    | next =>
      rcases Nat.lt_or_ge i objs.length with hlt | hge
      · exact ih _ (i + 1) ((maniaNext_spec sk objs g i hc).1 hlt).2
      · have heq : i = objs.length := by omega
        have := (maniaNext_spec sk objs g i hc).2 heq
        have h2 : ((maniaMachine sk objs).step g Op.next).2 = g := by
          show (maniaNext sk objs g).2 = g
          rw [this]
        simpa [Machine.exec, Machine.run, h2] using ih g i hc
    | nth k =>
      rcases Nat.lt_or_ge (i + k) objs.length with hlt | hge
      · exact ih _ _ ((maniaNth_spec sk objs g i k hc).1 hlt).2
      · exact ih _ _ ((maniaNth_spec sk objs g i k hc).2 hge).2
    | len => exact ih g i hc

theorem mania_len_eq_remaining (sk : Skills S) (objs : List ManiaObj) (g : ManiaGrad S) (i : Nat)
    (hc : ManiaCanon sk objs g i) : (maniaMachine sk objs).len g = some (objs.length - i) := maniaLen_spec sk objs g i hc

/-- What `nth k` does (as fixed by `fix: gradual difficulty nth(n) returns None when fewer than n+1
values remain`): it consumes `min (k+1) remaining` values; it returns the last of them when more than
`k` values remained and `None` otherwise (the calculator then ends exhausted). -/
theorem mania_nth_processes_min (sk : Skills S) (objs : List ManiaObj) (g : ManiaGrad S) (i k : Nat)
    (hc : ManiaCanon sk objs g i) :
    ManiaCanon sk objs ((maniaMachine sk objs).nth g k).2 (i + min (k + 1) (objs.length - i)) ∧
    (i + k < objs.length → ((maniaMachine sk objs).nth g k).1 = .some (maniaValue sk objs (i + k + 1))) ∧
    (objs.length ≤ i + k → ((maniaMachine sk objs).nth g k).1 = .none) := by
  have hle := hc.le
  rcases Nat.lt_or_ge (i + k) objs.length with hlt | hge
  · obtain ⟨hv, hcn⟩ := (maniaNth_spec sk objs g i k hc).1 hlt
    have e : i + min (k + 1) (objs.length - i) = i + k + 1 := by omega
    exact ⟨by rw [e]; exact hcn, fun _ => hv, fun h => by omega⟩
  · obtain ⟨hv, hcn⟩ := (maniaNth_spec sk objs g i k hc).2 hge
    have e : i + min (k + 1) (objs.length - i) = objs.length := by omega
    exact ⟨by rw [e]; exact hcn, fun h => by omega, fun _ => hv⟩

/-- The per-state specifications of `next` and `nth` in the form of `Lemmas/GradualProtocol.lean`. -/
theorem mania_protocol (sk : Skills S) (objs : List ManiaObj) :
    ProtocolSpec (maniaMachine sk objs) (ManiaCanon sk objs) objs.length (maniaValue sk objs) where
  le := fun g i hc => hc.le
  next_some := fun g i hc hlt => by
    exact (maniaNext_spec sk objs g i hc).1 hlt
  next_none := fun g i hc heq => by
    have := (maniaNext_spec sk objs g i hc).2 heq
    exact ⟨by show (maniaNext sk objs g).1 = _; rw [this],
      by show ManiaCanon sk objs (maniaNext sk objs g).2 i; rw [this]; exact hc⟩
  nth_some := fun g i k hc h => ((maniaNth_spec sk objs g i k hc).1 h).1
  nth_none := fun g i k hc h => ((maniaNth_spec sk objs g i k hc).2 h).1

/-- **The `Iterator::nth` contract**, for every `k` and every reachable state: `nth k` returns exactly what
the last of `k+1` calls of `next` returns — `None` when fewer than `k+1` values remain. -/
theorem mania_nth_eq_iterated_next (sk : Skills S) (objs : List ManiaObj) (g : ManiaGrad S) (i k : Nat) (hc : ManiaCanon sk objs g i) :
    some ((maniaMachine sk objs).nth g k).1 = ((maniaMachine sk objs).nexts g (k + 1)).1.getLast? :=
  (mania_protocol sk objs).nth_eq_iterated_next g i k hc

theorem mania_exhausted_stays_none (sk : Skills S) (objs : List ManiaObj) (g : ManiaGrad S)
    (hc : ManiaCanon sk objs g objs.length) (k : Nat) :
    (maniaMachine sk objs).next g = (.none, g) ∧
    ((maniaMachine sk objs).nth g k).1 = .none ∧
    ManiaCanon sk objs ((maniaMachine sk objs).nth g k).2 objs.length :=
  ⟨(maniaNext_spec sk objs g _ hc).2 rfl, ((maniaNth_spec sk objs g _ k hc).2 (Nat.le_add_right _ _)).1, ((maniaNth_spec sk objs g _ k hc).2 (Nat.le_add_right _ _)).2⟩

theorem mania_never_panics (sk : Skills S) (objs : List ManiaObj) (ops : List Op) (k : Nat) :
    let g := (maniaMachine sk objs).exec (maniaNew sk objs) ops
    ((maniaMachine sk objs).nth g k).1 ≠ .panic ∧ ((maniaMachine sk objs).next g).1 ≠ .panic ∧ (maniaMachine sk objs).len g ≠ none := by
  intro g
  obtain ⟨i, hc⟩ := mania_reachable sk objs ops
  refine ⟨?_, ?_, by rw [mania_len_eq_remaining sk objs g i hc]; simp⟩
  · rcases Nat.lt_or_ge (i + k) objs.length with hlt | hge
    · rw [(mania_nth_processes_min sk objs g i k hc).2.1 hlt]; simp
    · rw [(mania_nth_processes_min sk objs g i k hc).2.2 hge]; simp
  · rcases Nat.lt_or_ge i objs.length with hlt | hge
    · have := ((maniaNext_spec sk objs g i hc).1 hlt).1
      show (maniaNext sk objs g).1 ≠ _
      rw [this]; simp
    · have heq : i = objs.length := by have := hc.le; omega
      have := (maniaNext_spec sk objs g i hc).2 heq
      show (maniaNext sk objs g).1 ≠ _
      rw [this]; simp

/-! ## osu!taiko

Since `/repo` `fix: taiko gradual difficulty counts the first two objects like every other hit` the
protocol laws hold for **every** object list (`TaikoSt` = canonical state after `i` values, or the
drained state after an exhausted call; `Lemmas/GradualTaikoNth.lean`), including the full
`Iterator::nth` contract since `fix: gradual difficulty nth(n) returns None when fewer than n+1 values
remain`. -/

def listSkills : Skills (List Nat) := ⟨[], fun s i => s ++ [i]⟩

/-- Every reachable state is canonical or drained. -/
theorem taiko_reachable (sk : Skills S) (objs : List Bool) (ops : List Op) :
    ∃ i, TaikoSt sk objs ((taikoMachine sk objs).exec (taikoNew sk objs) ops) i := by
  suffices h : ∀ (g : TaikoGrad S) (i : Nat), TaikoSt sk objs g i →
      ∃ j, TaikoSt sk objs ((taikoMachine sk objs).exec g ops) j from
    h _ 0 (Or.inl (taikoNew_canon sk objs))
  induction ops with
  | nil => intro g i hs; exact ⟨i, hs⟩
  | cons op ops ih =>
    intro g i hs
    cases op with
    | next =>
      show ∃ j, TaikoSt sk objs ((taikoMachine sk objs).exec (taikoNext sk objs g).2 ops) j
      obtain ⟨j, hj⟩ := taikoNext_st sk objs g i hs
      exact ih _ j hj
    | nth k =>
      show ∃ j, TaikoSt sk objs ((taikoMachine sk objs).exec (taikoNth sk objs g k).2 ops) j
      obtain ⟨j, hj⟩ := (taikoNth_st sk objs g i k hs).2
      exact ih _ j hj
    | len => exact ih g i hs

/-- `len()` equals the number of values still to come in every reachable state — also after
exhaustion (`0`); the subtraction `total_hits - idx` never underflows. -/
theorem taiko_len_eq_remaining (sk : Skills S) (objs : List Bool) (g : TaikoGrad S) (i : Nat)
    (hs : TaikoSt sk objs g i) :
    (taikoMachine sk objs).len g = some (hitsIn objs - i) :=
  taikoLen_st sk objs g i hs

/-- Once all `H` values are out, every further `next` returns `None`, changes nothing after the
first such call, and `len()` is `0`. -/
theorem taiko_exhausted_stays_none (sk : Skills S) (objs : List Bool) (g : TaikoGrad S)
    (hc : TaikoCanon sk objs g (hitsIn objs)) :
    let r1 := taikoNext sk objs g
    let r2 := taikoNext sk objs r1.2
    r1.1 = none ∧ r2.1 = none ∧ r2.2 = r1.2 ∧ (taikoMachine sk objs).len r1.2 = some 0 := by
  intro r1 r2
  obtain ⟨h1, hd⟩ := taikoNext_exhausted sk objs g hc
  have h2 := taikoNext_drained sk objs r1.2 hd
  refine ⟨h1, by simp [r2, h2], by simp [r2, h2], ?_⟩
  have := taikoLen_st sk objs r1.2 (hitsIn objs) (Or.inr ⟨rfl, hd⟩)
  show taikoLen objs r1.2 = some 0
  simpa using this

/-- What `nth k` does from the canonical state after `i` values (as fixed): with more than `k` values
remaining it returns the value number `i + k + 1` and leaves the canonical state after that many
values; otherwise it consumes everything, returns `None` and leaves the drained state; from a drained
state it returns `None` and changes nothing. -/
theorem taiko_nth_processes_min (sk : Skills S) (objs : List Bool) (g : TaikoGrad S) (i k : Nat)
    (hc : TaikoCanon sk objs g i) :
    let H := hitsIn objs
    (i + k < H →
      (taikoNth sk objs g k).1 = .some (taikoValue sk objs (i + k + 1)) ∧
      TaikoCanon sk objs (taikoNth sk objs g k).2 (i + k + 1)) ∧
    (H ≤ i + k → (taikoNth sk objs g k).1 = .none ∧ TaikoDrained sk objs (taikoNth sk objs g k).2) ∧
    (∀ g', TaikoDrained sk objs g' → taikoNth sk objs g' k = (.none, g')) :=
  ⟨(taikoNth_spec sk objs g i k hc).1, (taikoNth_spec sk objs g i k hc).2,
    fun g' hd => taikoNth_drained sk objs g' k hd⟩

/-- The per-state specifications of `next` and `nth` in the form of `Lemmas/GradualProtocol.lean`
(states: canonical after `i` values, or drained with `i = H`). -/
theorem taiko_protocol (sk : Skills S) (objs : List Bool) :
    ProtocolSpec (taikoMachine sk objs) (TaikoSt sk objs) (hitsIn objs) (taikoValue sk objs) where
  le := fun g i hs => by
    rcases hs with hc | ⟨he, _⟩
    · exact hc.le
    · omega
  next_some := fun g i hs hlt => by
    rcases hs with hc | ⟨he, _⟩
    · have := (taikoNext_spec sk objs g i hc).1 hlt
      exact ⟨by show optToRes (taikoNext sk objs g).1 = _; rw [this.1]; rfl, Or.inl this.2⟩
    · omega
  next_none := fun g i hs heq => by
    rcases hs with hc | ⟨he, hd⟩
    · subst heq
      have := taikoNext_exhausted sk objs g hc
      exact ⟨by show optToRes (taikoNext sk objs g).1 = _; rw [this.1]; rfl, Or.inr ⟨rfl, this.2⟩⟩
    · have := taikoNext_drained sk objs g hd
      exact ⟨by show optToRes (taikoNext sk objs g).1 = _; rw [this]; rfl,
        by show TaikoSt sk objs (taikoNext sk objs g).2 i; rw [this]; exact Or.inr ⟨he, hd⟩⟩
  nth_some := fun g i k hs h => by
    rcases hs with hc | ⟨he, _⟩
    · exact ((taikoNth_spec sk objs g i k hc).1 h).1
    · omega
  nth_none := fun g i k hs h => by
    rcases hs with hc | ⟨he, hd⟩
    · exact ((taikoNth_spec sk objs g i k hc).2 h).1
    · show (taikoNth sk objs g k).1 = _
      rw [taikoNth_drained sk objs g k hd]

/-- **The `Iterator::nth` contract for taiko**, for every `k` and every reachable state: `nth k` returns
exactly what the last of `k+1` calls of `next` returns — `None` when fewer than `k+1` values remain. -/
theorem taiko_nth_eq_iterated_next (sk : Skills S) (objs : List Bool)
    (g : TaikoGrad S) (i k : Nat) (hs : TaikoSt sk objs g i) :
    some ((taikoMachine sk objs).nth g k).1 = ((taikoMachine sk objs).nexts g (k + 1)).1.getLast? :=
  (taiko_protocol sk objs).nth_eq_iterated_next g i k hs

/-- No operation sequence on any map makes `nth`, `next` or `len` hit the unchecked subtraction
`total_hits - idx`: `nth` never panics and `len()` is always defined. -/
theorem taiko_never_panics (sk : Skills S) (objs : List Bool) (ops : List Op) (k : Nat) :
    let g := (taikoMachine sk objs).exec (taikoNew sk objs) ops
    (taikoNth sk objs g k).1 ≠ .panic ∧ (taikoMachine sk objs).len g ≠ none := by
  intro g
  obtain ⟨i, hs⟩ := taiko_reachable sk objs ops
  exact ⟨(taikoNth_st sk objs g i k hs).1, by rw [taiko_len_eq_remaining sk objs g i hs]; simp⟩

/-- Pre-fix machine (`Old`): on `[hit, non-hit, hit, hit]` the calculator announced 3 values but
`next` yielded 4, and after exhaustion `len()` underflowed (`total_hits - idx` with
`idx = total_hits + 1`). -/
theorem taiko_len_underflow :
    let objs := [true, false, true, true]
    let m := Old.taikoMachine listSkills objs
    m.len (taikoNew listSkills objs) = some 3 ∧
    ((m.nexts (taikoNew listSkills objs) 4).1.map (fun r => decide (r ≠ Res.none))) = [true, true, true, true] ∧
    m.len (m.nexts (taikoNew listSkills objs) 4).2 = none := by
  decide

/-- The same input as fixed: 3 values, then `None`, `len()` = 0. -/
example :
    let objs := [true, false, true, true]
    let m := taikoMachine listSkills objs
    m.len (taikoNew listSkills objs) = some 3 ∧
    ((m.nexts (taikoNew listSkills objs) 4).1.map (fun r => decide (r ≠ Res.none))) = [true, true, true, false] ∧
    m.len (m.nexts (taikoNew listSkills objs) 4).2 = some 0 := by
  decide

/-- Non-vacuity: `[roll, hit, roll, hit, hit, roll]` (irregular start); `nth 1` from the start
reports the 2nd hit having processed two difficulty objects, `nth 0` then the 3rd (last) hit including
the trailing drum roll (the drain), a further `nth 5` returns `None`; `nth 3` on a fresh calculator (3 hits)
returns `None` having consumed everything, `nth 2` the last hit. -/
example :
    let objs := [false, true, false, true, true, false]
    let m := taikoMachine listSkills objs
    let g0 := taikoNew listSkills objs
    (m.nth g0 1).1 = .some (2, [0, 1]) ∧ (m.nth (m.nth g0 1).2 0).1 = .some (3, [0, 1, 2, 3]) ∧
    (m.nth (m.nth (m.nth g0 1).2 0).2 5).1 = .none ∧
    m.len (m.nth (m.nth (m.nth g0 1).2 0).2 5).2 = some 0 ∧
    (m.nth g0 2).1 = .some (3, [0, 1, 2, 3]) ∧ (m.nth g0 3).1 = .none ∧
    (m.nth g0 3).2.skills = [0, 1, 2, 3] ∧ m.len (m.nth g0 3).2 = some 0 := by
  decide

/-- Non-vacuity: a concrete three-object map, after `next; nth 0`, is in the canonical state 2. -/
example :
    let objs : List OsuObj := [⟨.circle, 0, 0⟩, ⟨.slider, 1, 3⟩, ⟨.spinner, 0, 0⟩]
    let sk : Skills (List Nat) := ⟨[], fun s i => s ++ [i]⟩
    ((osuMachine sk objs).exec (osuNew sk objs) [.next, .nth 0]).idx = 2 ∧
    ((osuMachine sk objs).exec (osuNew sk objs) [.next, .nth 0]).skills = [0] := by
  decide

end Rosu.Gradual
