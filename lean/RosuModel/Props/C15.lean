import RosuModel.Lemmas.GradualOsu
import RosuModel.Lemmas.GradualCatch
import RosuModel.Lemmas.GradualMania
import RosuModel.Lemmas.GradualTaiko
import RosuModel.Lemmas.GradualTaikoNth

/-!
# C15 — gradual calculators obey the iterator protocol

Statements are about the machines of `Model/Gradual.lean`, for an arbitrary abstract skill
state `S` and *every* finite operation sequence over `next`, `nth k` (any `k`, including
`usize::MAX`-sized ones) and `len`.
-/

namespace Rosu.Gradual

variable {S : Type}

/-! ## osu!standard -/

/-- Every reachable state is canonical: it is determined by the number `i ≤ n` of values
produced so far. -/
theorem osu_reachable (sk : Skills S) (objs : List OsuObj) (ops : List Op) :
    ∃ i, OsuCanon sk objs ((osuMachine sk objs).exec (osuNew sk objs) ops) i := by
  suffices h : ∀ (g : OsuGrad S) (i : Nat), OsuCanon sk objs g i →
      ∃ j, OsuCanon sk objs ((osuMachine sk objs).exec g ops) j from
    h _ 0 (osuNew_canon sk objs)
  induction ops with
  | nil => intro g i hc; exact ⟨i, hc⟩
  | cons op ops ih =>
    intro g i hc
    have hle := hc.le
    cases op with
    | next =>
      rcases Nat.lt_or_ge i objs.length with hlt | hge
      · exact ih _ (i + 1) ((osuNext_spec sk objs g i hc).1 hlt).2
      · have heq : i = objs.length := by omega
        have := (osuNext_spec sk objs g i hc).2 heq
        have h2 : ((osuMachine sk objs).step g Op.next).2 = g := by
          simp [Machine.step, osuMachine, this]
        simpa [Machine.exec, Machine.run, h2] using ih g i hc
    | nth k =>
      rcases Nat.lt_or_ge i objs.length with hlt | hge
      · exact ih _ _ ((osuNth_spec sk objs g i k hc).1 hlt).2
      · have heq : i = objs.length := by omega
        exact ih _ _ ((osuNth_spec sk objs g i k hc).2 heq).2
    | len => exact ih g i hc

/-- `len()` never underflows and is the number of values plain iteration still yields. -/
theorem osu_len_eq_remaining (sk : Skills S) (objs : List OsuObj) (g : OsuGrad S) (i : Nat)
    (hc : OsuCanon sk objs g i) :
    (osuMachine sk objs).len g = some (objs.length - i) := osuLen_spec sk objs g i hc

/-- Once exhausted, every further `next`/`nth` returns `None` (and never panics) and the state
stays exhausted. -/
theorem osu_exhausted_stays_none (sk : Skills S) (objs : List OsuObj) (g : OsuGrad S)
    (hc : OsuCanon sk objs g objs.length) (k : Nat) :
    (osuMachine sk objs).next g = (.none, g) ∧
    ((osuMachine sk objs).nth g k).1 = .none ∧
    OsuCanon sk objs ((osuMachine sk objs).nth g k).2 objs.length := by
  refine ⟨?_, ((osuNth_spec sk objs g _ k hc).2 rfl).1, ((osuNth_spec sk objs g _ k hc).2 rfl).2⟩
  have := (osuNext_spec sk objs g _ hc).2 rfl
  simp [osuMachine, this, optToRes]

/-- What `nth` really does (and what `GradualPerformance::nth/last` rely on): it consumes
`min (k+1) remaining` values and returns the last of them; `None` iff nothing remains. -/
theorem osu_nth_processes_min (sk : Skills S) (objs : List OsuObj) (g : OsuGrad S) (i k : Nat)
    (hc : OsuCanon sk objs g i) :
    (i < objs.length →
      ((osuMachine sk objs).nth g k).1 = .some (osuValue sk objs (i + min (k + 1) (objs.length - i))) ∧
      OsuCanon sk objs ((osuMachine sk objs).nth g k).2 (i + min (k + 1) (objs.length - i))) ∧
    (i = objs.length → ((osuMachine sk objs).nth g k).1 = .none) := by
  constructor
  · intro hlt
    have h := (osuNth_spec sk objs g i k hc).1 hlt
    simp only at h
    have e : i + min k (objs.length - i - 1) + 1 = i + min (k + 1) (objs.length - i) := by omega
    rw [e] at h
    exact h
  · intro heq
    exact ((osuNth_spec sk objs g i k hc).2 heq).1

/-- **Partial** form of the iterator contract: when at least `k+1` values remain, `nth k` is
exactly `k+1` calls of `next` (same result, same successor state index). -/
theorem osu_nth_eq_iterated_next_partial (sk : Skills S) (objs : List OsuObj) (g : OsuGrad S)
    (i k : Nat) (hc : OsuCanon sk objs g i) (hk : i + k + 1 ≤ objs.length) :
    some ((osuMachine sk objs).nth g k).1 = ((osuMachine sk objs).nexts g (k + 1)).1.getLast? ∧
    OsuCanon sk objs ((osuMachine sk objs).nth g k).2 (i + k + 1) ∧
    OsuCanon sk objs ((osuMachine sk objs).nexts g (k + 1)).2 (i + k + 1) := by
  have hlt : i < objs.length := by omega
  obtain ⟨hv, hcn⟩ := (osu_nth_processes_min sk objs g i k hc).1 hlt
  have e : i + min (k + 1) (objs.length - i) = i + k + 1 := by omega
  rw [e] at hv hcn
  obtain ⟨hvs, hcs⟩ := osu_nexts_spec sk objs (k + 1) g i hc (by omega)
  refine ⟨?_, hcn, by simpa [Nat.add_assoc] using hcs⟩
  rw [hv, hvs, List.range_succ]
  simp

/-- The full `Iterator::nth` contract: `nth k` equals the last of `k+1` `next` calls, which is
`None` when fewer than `k+1` values remain. -/
def unitSkills : Skills Unit := ⟨(), fun _ _ => ()⟩

def OsuNthContract : Prop :=
  ∀ (objs : List OsuObj) (k : Nat),
    some ((osuMachine unitSkills objs).nth (osuNew unitSkills objs) k).1 =
      ((osuMachine unitSkills objs).nexts (osuNew unitSkills objs) (k + 1)).1.getLast?

/-- The contract is **false** of the code: on a two-circle map `nth(2)` returns the second
value where two `next` calls followed by a third return `None`.  (Recorded as a known finding;
`GradualPerformance::last` relies on this clamping.) -/
theorem osu_nth_contract_fails : ¬ OsuNthContract := by
  intro h
  have := h [⟨.circle, 0, 0⟩, ⟨.circle, 0, 0⟩] 2
  revert this
  decide

/-- No operation sequence makes `nth` or `len` hit the unchecked subtraction. -/
theorem osu_never_panics (sk : Skills S) (objs : List OsuObj) (ops : List Op) (k : Nat) :
    let g := (osuMachine sk objs).exec (osuNew sk objs) ops
    ((osuMachine sk objs).nth g k).1 ≠ .panic ∧ (osuMachine sk objs).len g ≠ none := by
  intro g
  obtain ⟨i, hc⟩ := osu_reachable sk objs ops
  refine ⟨?_, by rw [osu_len_eq_remaining sk objs g i hc]; simp⟩
  rcases Nat.lt_or_ge i objs.length with hlt | hge
  · rw [((osu_nth_processes_min sk objs g i k hc).1 hlt).1]; simp
  · have heq : i = objs.length := by have := hc.le; omega
    rw [(osu_nth_processes_min sk objs g i k hc).2 heq]; simp


/-! ## osu!catch (`recs` = the gradual records, one per palpable object) -/

theorem catch_reachable (sk : Skills S) (recs : List CatchRec) (ops : List Op) :
    ∃ i, CatchCanon sk recs ((catchMachine sk recs (recs.length - 1)).exec (catchNew sk) ops) i := by
  suffices h : ∀ (g : CatchGrad S) (i : Nat), CatchCanon sk recs g i →
      ∃ j, CatchCanon sk recs ((catchMachine sk recs (recs.length - 1)).exec g ops) j from
    h _ 0 (catchNew_canon sk recs)
  induction ops with
  | nil => intro g i hc; exact ⟨i, hc⟩
  | cons op ops ih =>
    intro g i hc
    have hle := hc.le
    cases op with
    | next =>
      rcases Nat.lt_or_ge i recs.length with hlt | hge
      · exact ih _ (i + 1) ((catchNext_spec sk recs g i hc).1 hlt).2
      · have heq : i = recs.length := by omega
        have := (catchNext_spec sk recs g i hc).2 heq
        have h2 : ((catchMachine sk recs (recs.length - 1)).step g Op.next).2 = g := by
          show (catchNext sk recs (recs.length - 1) g).2 = g
          rw [this]
        simpa [Machine.exec, Machine.run, h2] using ih g i hc
    | nth k =>
      rcases Nat.lt_or_ge i recs.length with hlt | hge
      · exact ih _ _ ((catchNth_spec sk recs g i k hc).1 hlt).2
      · have heq : i = recs.length := by omega
        exact ih _ _ ((catchNth_spec sk recs g i k hc).2 heq).2
    | len => exact ih g i hc

theorem catch_len_eq_remaining (sk : Skills S) (recs : List CatchRec) (g : CatchGrad S) (i : Nat)
    (hc : CatchCanon sk recs g i) : (catchMachine sk recs (recs.length - 1)).len g = some (recs.length - i) := catchLen_spec sk recs g i hc

theorem catch_nth_processes_min (sk : Skills S) (recs : List CatchRec) (g : CatchGrad S) (i k : Nat)
    (hc : CatchCanon sk recs g i) :
    (i < recs.length →
      ((catchMachine sk recs (recs.length - 1)).nth g k).1 = .some (catchValue sk recs (i + min (k + 1) (recs.length - i))) ∧
      CatchCanon sk recs ((catchMachine sk recs (recs.length - 1)).nth g k).2 (i + min (k + 1) (recs.length - i))) ∧
    (i = recs.length → ((catchMachine sk recs (recs.length - 1)).nth g k).1 = .none) := by
  constructor
  · intro hlt
    have h := (catchNth_spec sk recs g i k hc).1 hlt
    simp only at h
    have e : i + min k (recs.length - i - 1) + 1 = i + min (k + 1) (recs.length - i) := by omega
    rw [e] at h
    exact h
  · intro heq
    exact ((catchNth_spec sk recs g i k hc).2 heq).1

theorem catch_exhausted_stays_none (sk : Skills S) (recs : List CatchRec) (g : CatchGrad S)
    (hc : CatchCanon sk recs g recs.length) (k : Nat) :
    (catchMachine sk recs (recs.length - 1)).next g = (.none, g) ∧
    ((catchMachine sk recs (recs.length - 1)).nth g k).1 = .none ∧
    CatchCanon sk recs ((catchMachine sk recs (recs.length - 1)).nth g k).2 recs.length :=
  ⟨(catchNext_spec sk recs g _ hc).2 rfl, ((catchNth_spec sk recs g _ k hc).2 rfl).1, ((catchNth_spec sk recs g _ k hc).2 rfl).2⟩

theorem catch_nth_eq_iterated_next_partial (sk : Skills S) (recs : List CatchRec) (g : CatchGrad S)
    (i k : Nat) (hc : CatchCanon sk recs g i) (hk : i + k + 1 ≤ recs.length) :
    some ((catchMachine sk recs (recs.length - 1)).nth g k).1 = ((catchMachine sk recs (recs.length - 1)).nexts g (k + 1)).1.getLast? ∧
    CatchCanon sk recs ((catchMachine sk recs (recs.length - 1)).nth g k).2 (i + k + 1) ∧
    CatchCanon sk recs ((catchMachine sk recs (recs.length - 1)).nexts g (k + 1)).2 (i + k + 1) := by
  have hlt : i < recs.length := by omega
  obtain ⟨hv, hcn⟩ := (catch_nth_processes_min sk recs g i k hc).1 hlt
  have e : i + min (k + 1) (recs.length - i) = i + k + 1 := by omega
  rw [e] at hv hcn
  obtain ⟨hvs, hcs⟩ := catch_nexts_spec sk recs (k + 1) g i hc (by omega)
  refine ⟨?_, hcn, by simpa [Nat.add_assoc] using hcs⟩
  rw [hv, hvs, List.range_succ]
  simp

theorem catch_never_panics (sk : Skills S) (recs : List CatchRec) (ops : List Op) (k : Nat) :
    let g := (catchMachine sk recs (recs.length - 1)).exec (catchNew sk) ops
    ((catchMachine sk recs (recs.length - 1)).nth g k).1 ≠ .panic ∧ ((catchMachine sk recs (recs.length - 1)).next g).1 ≠ .panic ∧ (catchMachine sk recs (recs.length - 1)).len g ≠ none := by
  intro g
  obtain ⟨i, hc⟩ := catch_reachable sk recs ops
  refine ⟨?_, ?_, by rw [catch_len_eq_remaining sk recs g i hc]; simp⟩
  · rcases Nat.lt_or_ge i recs.length with hlt | hge
    · rw [((catch_nth_processes_min sk recs g i k hc).1 hlt).1]; simp
    · have heq : i = recs.length := by have := hc.le; omega
      rw [(catch_nth_processes_min sk recs g i k hc).2 heq]; simp
  · rcases Nat.lt_or_ge i recs.length with hlt | hge
    · have := ((catchNext_spec sk recs g i hc).1 hlt).1
      show (catchNext sk recs (recs.length - 1) g).1 ≠ _
      rw [this]; simp
    · have heq : i = recs.length := by have := hc.le; omega
      have := (catchNext_spec sk recs g i hc).2 heq
      show (catchNext sk recs (recs.length - 1) g).1 ≠ _
      rw [this]; simp

/-! ## osu!mania -/

theorem mania_reachable (sk : Skills S) (objs : List ManiaObj) (ops : List Op) :
    ∃ i, ManiaCanon sk objs ((maniaMachine sk objs).exec (maniaNew sk objs) ops) i := by
  suffices h : ∀ (g : ManiaGrad S) (i : Nat), ManiaCanon sk objs g i →
      ∃ j, ManiaCanon sk objs ((maniaMachine sk objs).exec g ops) j from
    h _ 0 (maniaNew_canon sk objs)
  induction ops with
  | nil => intro g i hc; exact ⟨i, hc⟩
  | cons op ops ih =>
    intro g i hc
    have hle := hc.le
    cases op with
    | next =>
      rcases Nat.lt_or_ge i objs.length with hlt | hge
      · exact ih _ (i + 1) ((maniaNext_spec sk objs g i hc).1 hlt).2
      · have heq : i = objs.length := by omega
        have := (maniaNext_spec sk objs g i hc).2 heq
        have h2 : ((maniaMachine sk objs).step g Op.next).2 = g := by
          show (maniaNext sk objs g).2 = g
          rw [this]
        simpa [Machine.exec, Machine.run, h2] using ih g i hc
    | nth k =>
      rcases Nat.lt_or_ge i objs.length with hlt | hge
      · exact ih _ _ ((maniaNth_spec sk objs g i k hc).1 hlt).2
      · have heq : i = objs.length := by omega
        exact ih _ _ ((maniaNth_spec sk objs g i k hc).2 heq).2
    | len => exact ih g i hc

theorem mania_len_eq_remaining (sk : Skills S) (objs : List ManiaObj) (g : ManiaGrad S) (i : Nat)
    (hc : ManiaCanon sk objs g i) : (maniaMachine sk objs).len g = some (objs.length - i) := maniaLen_spec sk objs g i hc

theorem mania_nth_processes_min (sk : Skills S) (objs : List ManiaObj) (g : ManiaGrad S) (i k : Nat)
    (hc : ManiaCanon sk objs g i) :
    (i < objs.length →
      ((maniaMachine sk objs).nth g k).1 = .some (maniaValue sk objs (i + min (k + 1) (objs.length - i))) ∧
      ManiaCanon sk objs ((maniaMachine sk objs).nth g k).2 (i + min (k + 1) (objs.length - i))) ∧
    (i = objs.length → ((maniaMachine sk objs).nth g k).1 = .none) := by
  constructor
  · intro hlt
    have h := (maniaNth_spec sk objs g i k hc).1 hlt
    simp only at h
    have e : i + min k (objs.length - i - 1) + 1 = i + min (k + 1) (objs.length - i) := by omega
    rw [e] at h
    exact h
  · intro heq
    exact ((maniaNth_spec sk objs g i k hc).2 heq).1

theorem mania_exhausted_stays_none (sk : Skills S) (objs : List ManiaObj) (g : ManiaGrad S)
    (hc : ManiaCanon sk objs g objs.length) (k : Nat) :
    (maniaMachine sk objs).next g = (.none, g) ∧
    ((maniaMachine sk objs).nth g k).1 = .none ∧
    ManiaCanon sk objs ((maniaMachine sk objs).nth g k).2 objs.length :=
  ⟨(maniaNext_spec sk objs g _ hc).2 rfl, ((maniaNth_spec sk objs g _ k hc).2 rfl).1, ((maniaNth_spec sk objs g _ k hc).2 rfl).2⟩

theorem mania_nth_eq_iterated_next_partial (sk : Skills S) (objs : List ManiaObj) (g : ManiaGrad S)
    (i k : Nat) (hc : ManiaCanon sk objs g i) (hk : i + k + 1 ≤ objs.length) :
    some ((maniaMachine sk objs).nth g k).1 = ((maniaMachine sk objs).nexts g (k + 1)).1.getLast? ∧
    ManiaCanon sk objs ((maniaMachine sk objs).nth g k).2 (i + k + 1) ∧
    ManiaCanon sk objs ((maniaMachine sk objs).nexts g (k + 1)).2 (i + k + 1) := by
  have hlt : i < objs.length := by omega
  obtain ⟨hv, hcn⟩ := (mania_nth_processes_min sk objs g i k hc).1 hlt
  have e : i + min (k + 1) (objs.length - i) = i + k + 1 := by omega
  rw [e] at hv hcn
  obtain ⟨hvs, hcs⟩ := mania_nexts_spec sk objs (k + 1) g i hc (by omega)
  refine ⟨?_, hcn, by simpa [Nat.add_assoc] using hcs⟩
  rw [hv, hvs, List.range_succ]
  simp

theorem mania_never_panics (sk : Skills S) (objs : List ManiaObj) (ops : List Op) (k : Nat) :
    let g := (maniaMachine sk objs).exec (maniaNew sk objs) ops
    ((maniaMachine sk objs).nth g k).1 ≠ .panic ∧ ((maniaMachine sk objs).next g).1 ≠ .panic ∧ (maniaMachine sk objs).len g ≠ none := by
  intro g
  obtain ⟨i, hc⟩ := mania_reachable sk objs ops
  refine ⟨?_, ?_, by rw [mania_len_eq_remaining sk objs g i hc]; simp⟩
  · rcases Nat.lt_or_ge i objs.length with hlt | hge
    · rw [((mania_nth_processes_min sk objs g i k hc).1 hlt).1]; simp
    · have heq : i = objs.length := by have := hc.le; omega
      rw [(mania_nth_processes_min sk objs g i k hc).2 heq]; simp
  · rcases Nat.lt_or_ge i objs.length with hlt | hge
    · have := ((maniaNext_spec sk objs g i hc).1 hlt).1
      show (maniaNext sk objs g).1 ≠ _
      rw [this]; simp
    · have heq : i = objs.length := by have := hc.le; omega
      have := (maniaNext_spec sk objs g i hc).2 heq
      show (maniaNext sk objs g).1 ≠ _
      rw [this]; simp

/-! ## osu!taiko

Since `/repo` `fix: taiko gradual difficulty counts the first two objects like every other hit` the
protocol laws hold for **every** object list (`TaikoSt` = canonical state after `i` values, or the
drained state after an exhausted call; `Lemmas/GradualTaikoNth.lean`).  `nth k` with
`k ≥ remaining ≥ 1` still returns the last value (recorded finding `gradual-nth-clamps-to-last`,
like the other three modes — `osu_nth_contract_fails`). -/

def listSkills : Skills (List Nat) := ⟨[], fun s i => s ++ [i]⟩

/-- Every reachable state is canonical or drained. -/
theorem taiko_reachable (sk : Skills S) (objs : List Bool) (ops : List Op) :
    ∃ i, TaikoSt sk objs ((taikoMachine sk objs).exec (taikoNew sk objs) ops) i := by
  suffices h : ∀ (g : TaikoGrad S) (i : Nat), TaikoSt sk objs g i →
      ∃ j, TaikoSt sk objs ((taikoMachine sk objs).exec g ops) j from
    h _ 0 (Or.inl (taikoNew_canon sk objs))
  induction ops with
  | nil => intro g i hs; exact ⟨i, hs⟩
  | cons op ops ih =>
    intro g i hs
    cases op with
    | next =>
      show ∃ j, TaikoSt sk objs ((taikoMachine sk objs).exec (taikoNext sk objs g).2 ops) j
      obtain ⟨j, hj⟩ := taikoNext_st sk objs g i hs
      exact ih _ j hj
    | nth k =>
      show ∃ j, TaikoSt sk objs ((taikoMachine sk objs).exec (taikoNth sk objs g k).2 ops) j
      obtain ⟨j, hj⟩ := (taikoNth_st sk objs g i k hs).2
      exact ih _ j hj
    | len => exact ih g i hs

/-- `len()` equals the number of values still to come in every reachable state — also after
exhaustion (`0`); the subtraction `total_hits - idx` never underflows. -/
theorem taiko_len_eq_remaining (sk : Skills S) (objs : List Bool) (g : TaikoGrad S) (i : Nat)
    (hs : TaikoSt sk objs g i) :
    (taikoMachine sk objs).len g = some (hitsIn objs - i) :=
  taikoLen_st sk objs g i hs

/-- Once all `H` values are out, every further `next` returns `None`, changes nothing after the
first such call, and `len()` is `0`. -/
theorem taiko_exhausted_stays_none (sk : Skills S) (objs : List Bool) (g : TaikoGrad S)
    (hc : TaikoCanon sk objs g (hitsIn objs)) :
    let r1 := taikoNext sk objs g
    let r2 := taikoNext sk objs r1.2
    r1.1 = none ∧ r2.1 = none ∧ r2.2 = r1.2 ∧ (taikoMachine sk objs).len r1.2 = some 0 := by
  intro r1 r2
  obtain ⟨h1, hd⟩ := taikoNext_exhausted sk objs g hc
  have h2 := taikoNext_drained sk objs r1.2 hd
  refine ⟨h1, by simp [r2, h2], by simp [r2, h2], ?_⟩
  have := taikoLen_st sk objs r1.2 (hitsIn objs) (Or.inr ⟨rfl, hd⟩)
  show taikoLen objs r1.2 = some 0
  simpa using this

/-- `nth k` from the canonical state after `i` values: `None` when nothing remains, otherwise the
value number `i + min (k + 1) (H - i)` (`min n (r - 1) + 1 = min (n + 1) r`), leaving the
canonical state after that many values; from a drained state it returns `None` and changes
nothing. -/
theorem taiko_nth_processes_min (sk : Skills S) (objs : List Bool) (g : TaikoGrad S) (i k : Nat)
    (hc : TaikoCanon sk objs g i) :
    let H := hitsIn objs
    (i < H →
      (taikoNth sk objs g k).1 = .some (taikoValue sk objs (i + min (k + 1) (H - i))) ∧
      TaikoCanon sk objs (taikoNth sk objs g k).2 (i + min (k + 1) (H - i))) ∧
    (i = H → (taikoNth sk objs g k).1 = .none) ∧
    (∀ g', TaikoDrained sk objs g' → taikoNth sk objs g' k = (.none, g')) := by
  intro H
  refine ⟨fun hlt => ?_, fun heq => ((taikoNth_spec sk objs g i k hc).1 heq).1,
    fun g' hd => taikoNth_drained sk objs g' k hd⟩
  have e : i + min k (hitsIn objs - i - 1) + 1 = i + min (k + 1) (H - i) := by omega
  have := (taikoNth_spec sk objs g i k hc).2 hlt
  rw [e] at this
  exact this

/-- The iterator contract for taiko: when at least `k+1` values remain, `nth k` is exactly `k+1`
calls of `next` (same result, same successor state index). -/
theorem taiko_nth_eq_iterated_next (sk : Skills S) (objs : List Bool)
    (g : TaikoGrad S) (i k : Nat) (hc : TaikoCanon sk objs g i) (hk : i + k + 1 ≤ hitsIn objs) :
    let m := taikoMachine sk objs
    some (m.nth g k).1 = (m.nexts g (k + 1)).1.getLast? ∧
    TaikoCanon sk objs (m.nth g k).2 (i + k + 1) ∧ TaikoCanon sk objs (m.nexts g (k + 1)).2 (i + k + 1) := by
  intro m
  have hlt : i < hitsIn objs := by omega
  obtain ⟨hv, hcn⟩ := (taiko_nth_processes_min sk objs g i k hc).1 hlt
  have e : i + min (k + 1) (hitsIn objs - i) = i + k + 1 := by omega
  rw [e] at hv hcn
  obtain ⟨hvs, hcs⟩ := taiko_nexts_spec sk objs (k + 1) g i hc (by omega)
  refine ⟨?_, hcn, by simpa [Nat.add_assoc] using hcs⟩
  show some (taikoNth sk objs g k).1 = _
  rw [hv, hvs, List.range_succ]
  simp

/-- No operation sequence on any map makes `nth`, `next` or `len` hit the unchecked subtraction
`total_hits - idx`: `nth` never panics and `len()` is always defined. -/
theorem taiko_never_panics (sk : Skills S) (objs : List Bool) (ops : List Op) (k : Nat) :
    let g := (taikoMachine sk objs).exec (taikoNew sk objs) ops
    (taikoNth sk objs g k).1 ≠ .panic ∧ (taikoMachine sk objs).len g ≠ none := by
  intro g
  obtain ⟨i, hs⟩ := taiko_reachable sk objs ops
  exact ⟨(taikoNth_st sk objs g i k hs).1, by rw [taiko_len_eq_remaining sk objs g i hs]; simp⟩

/-- Pre-fix machine (`Old`): on `[hit, non-hit, hit, hit]` the calculator announced 3 values but
`next` yielded 4, and after exhaustion `len()` underflowed (`total_hits - idx` with
`idx = total_hits + 1`). -/
theorem taiko_len_underflow :
    let objs := [true, false, true, true]
    let m := Old.taikoMachine listSkills objs
    m.len (taikoNew listSkills objs) = some 3 ∧
    ((m.nexts (taikoNew listSkills objs) 4).1.map (fun r => decide (r ≠ Res.none))) = [true, true, true, true] ∧
    m.len (m.nexts (taikoNew listSkills objs) 4).2 = none := by
  decide

/-- The same input as fixed: 3 values, then `None`, `len()` = 0. -/
example :
    let objs := [true, false, true, true]
    let m := taikoMachine listSkills objs
    m.len (taikoNew listSkills objs) = some 3 ∧
    ((m.nexts (taikoNew listSkills objs) 4).1.map (fun r => decide (r ≠ Res.none))) = [true, true, true, false] ∧
    m.len (m.nexts (taikoNew listSkills objs) 4).2 = some 0 := by
  decide

/-- Non-vacuity: `[roll, hit, roll, hit, hit, roll]` (irregular start); `nth 1` from the start
reports the 2nd hit having processed two difficulty objects, `nth 5` then clamps to the last (3rd)
hit, a further `nth 0` returns `None` and drains the trailing drum roll. -/
example :
    let objs := [false, true, false, true, true, false]
    let m := taikoMachine listSkills objs
    let g0 := taikoNew listSkills objs
    (m.nth g0 1).1 = .some (2, [0, 1]) ∧ (m.nth (m.nth g0 1).2 5).1 = .some (3, [0, 1, 2]) ∧
    (m.nth (m.nth (m.nth g0 1).2 5).2 0).1 = .none ∧
    m.len (m.nth (m.nth (m.nth g0 1).2 5).2 0).2 = some 0 ∧
    (m.nth g0 2).1 = .some (3, [0, 1, 2]) ∧ (m.nth (m.next g0).2 7).1 = .some (3, [0, 1, 2]) := by
  decide

/-- Non-vacuity: a concrete three-object map, after `next; nth 0`, is in the canonical state 2. -/
example :
    let objs : List OsuObj := [⟨.circle, 0, 0⟩, ⟨.slider, 1, 3⟩, ⟨.spinner, 0, 0⟩]
    let sk : Skills (List Nat) := ⟨[], fun s i => s ++ [i]⟩
    ((osuMachine sk objs).exec (osuNew sk objs) [.next, .nth 0]).idx = 2 ∧
    ((osuMachine sk objs).exec (osuNew sk objs) [.next, .nth 0]).skills = [0] := by
  decide

end Rosu.Gradual
