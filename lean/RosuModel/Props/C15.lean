import RosuModel.Lemmas.GradualOsu

/-!
# C15 — gradual calculators obey the iterator protocol

Statements are about the machines of `Model/Gradual.lean`, for an arbitrary abstract skill
state `S` and *every* finite operation sequence over `next`, `nth k` (any `k`, including
`usize::MAX`-sized ones) and `len`.
-/

namespace Rosu.Gradual

variable {S : Type}

/-! ## osu!standard -/

/-- Every reachable state is canonical: it is determined by the number `i ≤ n` of values
produced so far. -/
theorem osu_reachable (sk : Skills S) (objs : List OsuObj) (ops : List Op) :
    ∃ i, OsuCanon sk objs ((osuMachine sk objs).exec (osuNew sk objs) ops) i := by
  suffices h : ∀ (g : OsuGrad S) (i : Nat), OsuCanon sk objs g i →
      ∃ j, OsuCanon sk objs ((osuMachine sk objs).exec g ops) j from
    h _ 0 (osuNew_canon sk objs)
  induction ops with
  | nil => intro g i hc; exact ⟨i, hc⟩
  | cons op ops ih =>
    intro g i hc
    have hle := hc.le
    cases op with
    | next =>
      rcases Nat.lt_or_ge i objs.length with hlt | hge
      · exact ih _ (i + 1) ((osuNext_spec sk objs g i hc).1 hlt).2
      · have heq : i = objs.length := by omega
        have := (osuNext_spec sk objs g i hc).2 heq
        have h2 : ((osuMachine sk objs).step g Op.next).2 = g := by
          simp [Machine.step, osuMachine, this]
        simpa [Machine.exec, Machine.run, h2] using ih g i hc
    | nth k =>
      rcases Nat.lt_or_ge i objs.length with hlt | hge
      · exact ih _ _ ((osuNth_spec sk objs g i k hc).1 hlt).2
      · have heq : i = objs.length := by omega
        exact ih _ _ ((osuNth_spec sk objs g i k hc).2 heq).2
    | len => exact ih g i hc

/-- `len()` never underflows and is the number of values plain iteration still yields. -/
theorem osu_len_eq_remaining (sk : Skills S) (objs : List OsuObj) (g : OsuGrad S) (i : Nat)
    (hc : OsuCanon sk objs g i) :
    (osuMachine sk objs).len g = some (objs.length - i) := osuLen_spec sk objs g i hc

/-- From a canonical state, `k ≤ remaining` calls of `next` yield the next `k` values. -/
theorem osu_nexts_spec (sk : Skills S) (objs : List OsuObj) (k : Nat) (g : OsuGrad S) (i : Nat)
    (hc : OsuCanon sk objs g i) (hk : i + k ≤ objs.length) :
    ((osuMachine sk objs).nexts g k).1 = (List.range k).map (fun d => Res.some (osuValue sk objs (i + d + 1))) ∧
    OsuCanon sk objs ((osuMachine sk objs).nexts g k).2 (i + k) := by
  induction k generalizing g i with
  | zero => simpa [Machine.nexts] using hc
  | succ k ih =>
    have hlt : i < objs.length := by omega
    obtain ⟨hv, hc'⟩ := (osuNext_spec sk objs g i hc).1 hlt
    have ih' := ih _ (i + 1) hc' (by omega)
    simp only [Machine.nexts]
    have hn : (osuMachine sk objs).next g = (Res.some (osuValue sk objs (i + 1)), (osuNext sk objs g).2) := by
      simp [osuMachine, hv, optToRes]
    rw [hn]
    refine ⟨?_, ?_⟩
    · simp only
      rw [ih'.1, List.range_succ_eq_map]
      simp only [List.map_cons, List.map_map, Nat.add_zero]
      congr 1
      apply List.map_congr_left
      intro d _
      simp only [Function.comp]
      congr 2
      omega
    · have e : i + (k + 1) = i + 1 + k := by omega
      rw [e]; exact ih'.2

/-- Once exhausted, every further `next`/`nth` returns `None` (and never panics) and the state
stays exhausted. -/
theorem osu_exhausted_stays_none (sk : Skills S) (objs : List OsuObj) (g : OsuGrad S)
    (hc : OsuCanon sk objs g objs.length) (k : Nat) :
    (osuMachine sk objs).next g = (.none, g) ∧
    ((osuMachine sk objs).nth g k).1 = .none ∧
    OsuCanon sk objs ((osuMachine sk objs).nth g k).2 objs.length := by
  refine ⟨?_, ((osuNth_spec sk objs g _ k hc).2 rfl).1, ((osuNth_spec sk objs g _ k hc).2 rfl).2⟩
  have := (osuNext_spec sk objs g _ hc).2 rfl
  simp [osuMachine, this, optToRes]

/-- What `nth` really does (and what `GradualPerformance::nth/last` rely on): it consumes
`min (k+1) remaining` values and returns the last of them; `None` iff nothing remains. -/
theorem osu_nth_processes_min (sk : Skills S) (objs : List OsuObj) (g : OsuGrad S) (i k : Nat)
    (hc : OsuCanon sk objs g i) :
    (i < objs.length →
      ((osuMachine sk objs).nth g k).1 = .some (osuValue sk objs (i + min (k + 1) (objs.length - i))) ∧
      OsuCanon sk objs ((osuMachine sk objs).nth g k).2 (i + min (k + 1) (objs.length - i))) ∧
    (i = objs.length → ((osuMachine sk objs).nth g k).1 = .none) := by
  constructor
  · intro hlt
    have h := (osuNth_spec sk objs g i k hc).1 hlt
    simp only at h
    have e : i + min k (objs.length - i - 1) + 1 = i + min (k + 1) (objs.length - i) := by omega
    rw [e] at h
    exact h
  · intro heq
    exact ((osuNth_spec sk objs g i k hc).2 heq).1

/-- **Partial** form of the iterator contract: when at least `k+1` values remain, `nth k` is
exactly `k+1` calls of `next` (same result, same successor state index). -/
theorem osu_nth_eq_iterated_next_partial (sk : Skills S) (objs : List OsuObj) (g : OsuGrad S)
    (i k : Nat) (hc : OsuCanon sk objs g i) (hk : i + k + 1 ≤ objs.length) :
    some ((osuMachine sk objs).nth g k).1 = ((osuMachine sk objs).nexts g (k + 1)).1.getLast? ∧
    OsuCanon sk objs ((osuMachine sk objs).nth g k).2 (i + k + 1) ∧
    OsuCanon sk objs ((osuMachine sk objs).nexts g (k + 1)).2 (i + k + 1) := by
  have hlt : i < objs.length := by omega
  obtain ⟨hv, hcn⟩ := (osu_nth_processes_min sk objs g i k hc).1 hlt
  have e : i + min (k + 1) (objs.length - i) = i + k + 1 := by omega
  rw [e] at hv hcn
  obtain ⟨hvs, hcs⟩ := osu_nexts_spec sk objs (k + 1) g i hc (by omega)
  refine ⟨?_, hcn, by simpa [Nat.add_assoc] using hcs⟩
  rw [hv, hvs, List.range_succ]
  simp

/-- The full `Iterator::nth` contract: `nth k` equals the last of `k+1` `next` calls, which is
`None` when fewer than `k+1` values remain. -/
def unitSkills : Skills Unit := ⟨(), fun _ _ => ()⟩

def OsuNthContract : Prop :=
  ∀ (objs : List OsuObj) (k : Nat),
    some ((osuMachine unitSkills objs).nth (osuNew unitSkills objs) k).1 =
      ((osuMachine unitSkills objs).nexts (osuNew unitSkills objs) (k + 1)).1.getLast?

/-- The contract is **false** of the code: on a two-circle map `nth(2)` returns the second
value where two `next` calls followed by a third return `None`.  (Recorded as a known finding;
`GradualPerformance::last` relies on this clamping.) -/
theorem osu_nth_contract_fails : ¬ OsuNthContract := by
  intro h
  have := h [⟨.circle, 0, 0⟩, ⟨.circle, 0, 0⟩] 2
  revert this
  decide

/-- No operation sequence makes `nth` or `len` hit the unchecked subtraction. -/
theorem osu_never_panics (sk : Skills S) (objs : List OsuObj) (ops : List Op) (k : Nat) :
    let g := (osuMachine sk objs).exec (osuNew sk objs) ops
    ((osuMachine sk objs).nth g k).1 ≠ .panic ∧ (osuMachine sk objs).len g ≠ none := by
  intro g
  obtain ⟨i, hc⟩ := osu_reachable sk objs ops
  refine ⟨?_, by rw [osu_len_eq_remaining sk objs g i hc]; simp⟩
  rcases Nat.lt_or_ge i objs.length with hlt | hge
  · rw [((osu_nth_processes_min sk objs g i k hc).1 hlt).1]; simp
  · have heq : i = objs.length := by have := hc.le; omega
    rw [(osu_nth_processes_min sk objs g i k hc).2 heq]; simp

/-- Non-vacuity: a concrete three-object map, after `next; nth 0`, is in the canonical state 2. -/
example :
    let objs : List OsuObj := [⟨.circle, 0, 0⟩, ⟨.slider, 1, 3⟩, ⟨.spinner, 0, 0⟩]
    let sk : Skills (List Nat) := ⟨[], fun s i => s ++ [i]⟩
    ((osuMachine sk objs).exec (osuNew sk objs) [.next, .nth 0]).idx = 2 ∧
    ((osuMachine sk objs).exec (osuNew sk objs) [.next, .nth 0]).skills = [0] := by
  decide

end Rosu.Gradual
