import RosuModel.Lemmas.PipelineBytes
import RosuModel.Props.C02e
import RosuModel.Props.C02f

/-!
# C02 (with C14, C06) — osu! and osu!catch from the BYTES of the file

Model: `Model/PipelineBytes.lean` — `osuDifficultyFromBytes` / `catchDifficultyFromBytes` put worker
DEC's decoder (`fromBytes`) and the object preparation (positions, kinds, span counts, the control-
point lookups for `beat_len` / `slider_velocity` / `generate_ticks`, `slider_multiplier`,
`slider_tick_rate`, version, `stack_leniency`) in front of PP's `PipelineOsu.osuDifficulty` and
MANIA's `PipelineCatch.catchDifficulty`.  Non-file inputs: ONE parameter `CurveInputs` (per slider:
`path.dist()`, nested positions, raw lazy end), the attribute-builder outputs, the settings.
Tie: `PIPE osub` (run by `./check C09`, stars within its tolerance, everything else exact) and
`PIPE catchb` (run by `./check C02`, bit-exact) against `calculate(&Beatmap::from_bytes(bytes)?)`
and the gradual calculators incl. indices beyond the end.  All statements: every arithmetic, every
byte list, every `CurveInputs`.
-/

namespace Rosu.C02i
open Rosu.PipelineBytes Rosu.DecodeLine Rosu.SkillOps

section Osu
variable {R S : Type} (O : BOps R S) [Rosu.PerfCalc.PPOps R]

/-- **osu! counts from raw bytes**: an answer means the file decoded (no io error) as an osu! map,
its object vector exists — sorted by start time and paired with its sounds (C06) —, there is one
converter input per accepted object line, `n_circles + n_sliders + n_spinners = min(passed_objects,
accepted object lines)`, `max_combo` is the C14 sum, and the attribute-builder inputs are passed
through. -/
theorem osu_from_bytes_counts (A : Rosu.ConvOsu.Ar R S) (E : Rosu.SliderEvents.Arith R) (fuel : Nat)
    (bytes : List UInt8) (i : OsuInputs R) (take : Nat) (curves : CurveInputs R S)
    (a : Rosu.PipelineOsu.Attrs R) (h : osuDifficultyFromBytes O A E fuel bytes i take curves = .ok a) :
    ∃ d objs snds, fromBytes bytes = some d ∧ d.mode = 0 ∧ d.objects = some (objs, snds) ∧
      snds.length = objs.length ∧ (objs.map (·.1)).Pairwise (· ≤ ·) ∧
      a.nCircles + a.nSliders + a.nSpinners = min take objs.length ∧
      a.maxCombo = a.nCircles + a.nSliders + a.nSpinners + a.nLargeTicks + a.nSliders ∧
      a.ar = i.ar ∧ a.hp = i.hp ∧ a.greatHitWindow = i.odGreat := by
  unfold osuDifficultyFromBytes at h
  cases hd : osuDecoded O bytes curves with
  | ok r =>
    obtain ⟨d, os⟩ := r
    rw [hd] at h
    simp only at h
    unfold osuDecoded at hd
    cases hb : fromBytes bytes with
    | none => rw [hb] at hd; cases hd
    | some d' =>
      rw [hb] at hd
      simp only at hd
      split at hd
      · cases hd
      · rename_i hmode
        have hm0 : d'.mode = 0 := by simpa using hmode
        obtain ⟨objs, snds, ho, hl, hs, _⟩ := fromBytes_objects bytes d' hb (by omega)
        rw [ho] at hd
        simp only at hd
        cases hoo : osuObjects O d' (objs.map (·.2)) curves with
        | none => rw [hoo] at hd; cases hd
        | some os' =>
          rw [hoo] at hd
          simp only [Out.ok.injEq, Prod.mk.injEq] at hd
          obtain ⟨rfl, rfl⟩ := hd
          have hlen : os'.length = objs.length := by rw [osuObjects_length O _ _ _ _ hoo]; simp
          cases hr : Rosu.PipelineOsu.osuDifficulty A E fuel (osuSettings O d' i) take os' with
          | ok a' =>
            rw [hr] at h
            simp only [ofRes, Out.ok.injEq] at h
            subst h
            obtain ⟨c1, c2, _, c4, c5, c6, _⟩ := Rosu.C02f.osu_pipeline_counts A E fuel _ take os' a' hr
            exact ⟨d', objs, snds, rfl, hm0, ho, hl, hs, by rw [c1, hlen], c2, c4, c5, c6⟩
          | panic => rw [hr] at h; cases h
          | fuel => rw [hr] at h; cases h
  | ioError => rw [hd] at h; cases h
  | otherMode m => rw [hd] at h; cases h
  | missingInputs => rw [hd] at h; cases h
  | panic => rw [hd] at h; cases h
  | fuel => rw [hd] at h; cases h

/-- **osu! gradual = one-shot from raw bytes**: for every byte list and every `CurveInputs`, the
`k`-th value of `OsuGradualDifficulty` on the file (`1 ≤ k ≤` number of objects) is the one-shot
result for `passed_objects = k`. -/
theorem osu_from_bytes_gradual_eq_oneshot (A : Rosu.ConvOsu.Ar R S) (E : Rosu.SliderEvents.Arith R)
    (fuel : Nat) (bytes : List UInt8) (i : OsuInputs R) (k : Nat) (curves : CurveInputs R S)
    (d : Decoded) (os : List (Rosu.PipelineOsu.PObj R S)) (hd : osuDecoded O bytes curves = .ok (d, os))
    (hk : 1 ≤ k) (hn : k ≤ os.length) :
    osuGradualFromBytes O A E fuel bytes i k curves
      = ofRes ((Rosu.PipelineOsu.osuDifficulty A E fuel (osuSettings O d i) k os).bind fun a => .ok (some a)) ∧
    osuDifficultyFromBytes O A E fuel bytes i k curves
      = ofRes (Rosu.PipelineOsu.osuDifficulty A E fuel (osuSettings O d i) k os) := by
  unfold osuGradualFromBytes osuDifficultyFromBytes
  rw [hd]
  simp only
  rw [Rosu.C02f.osu_pipeline_gradual_eq_oneshot A E fuel _ k os hk hn]
  exact ⟨rfl, trivial⟩

omit [Rosu.PerfCalc.PPOps R] in
/-- **osu! totality before the curve-dependent part**: for every byte list the decode + preparation
stage answers `ioError`, `otherMode`, `missingInputs` (fewer curve entries than sliders) or `ok` —
never `panic`, never `fuel`. -/
theorem osu_from_bytes_total (bytes : List UInt8) (curves : CurveInputs R S) :
    osuDecoded O bytes curves ≠ .panic ∧ osuDecoded O bytes curves ≠ .fuel := by
  unfold osuDecoded
  cases hb : fromBytes bytes with
  | none => simp
  | some d =>
    simp only
    split
    · simp
    · rename_i hmode
      have hm0 : d.mode = 0 := by simpa using hmode
      obtain ⟨objs, snds, ho, _⟩ := fromBytes_objects bytes d hb (by omega)
      rw [ho]
      simp only
      split <;> simp

end Osu

section Catch
variable {F S : Type} (O : BOps F S) [FOps F] [FOps S]
open Rosu.PipelineCatch Rosu.Gradual Rosu.SliderEvents

/-- **catch counts from raw bytes**: an answer means the file decoded as a catch map with its
(sorted, paired) object vector, and fruits / droplets / tiny droplets are the prefix sums of the
gradual records of the decoded objects — the `SpansPositive` hypothesis of `catch_pipeline_counts`
is discharged (`span_count = repeats + 1 ≥ 1`). -/
theorem catch_from_bytes_counts (C : Casts F S) (A : Arith F) (CA : Rosu.ConvCatch.CAr S F)
    (SA : SecArith F) (fuel : Nat) (start0 : F) (bytes : List UInt8) (i : CatchInputs F S) (take : Nat)
    (curves : CurveInputs F S) (a : CatchAttrs F)
    (h : catchDifficultyFromBytes O C A CA SA fuel start0 bytes i take curves = .ok a) :
    ∃ d objs snds os recs, fromBytes bytes = some d ∧ d.mode = 2 ∧ d.objects = some (objs, snds) ∧
      snds.length = objs.length ∧ (objs.map (·.1)).Pairwise (· ≤ ·) ∧
      catchObjects O d (objs.map (·.2)) curves i.bananas = some os ∧ os.length = objs.length ∧
      catchMapEvents A fuel (os.map toRaw) = .ok recs ∧
      (⟨a.nFruits, a.nDroplets, a.nTinyDroplets⟩ : CatchCounts) = catchPrefixCounts (catchGradualRecs recs) take ∧
      a.ar = i.ar ∧ a.isConvert = false := by
  unfold catchDifficultyFromBytes at h
  cases hd : catchDecoded O bytes curves i.bananas with
  | ok os =>
    rw [hd] at h
    simp only at h
    unfold catchDecoded at hd
    cases hb : fromBytes bytes with
    | none => rw [hb] at hd; cases hd
    | some d =>
      rw [hb] at hd
      simp only at hd
      split at hd
      · cases hd
      · rename_i hmode
        have hm2 : d.mode = 2 := by simpa using hmode
        obtain ⟨objs, snds, ho, hl, hs, _⟩ := fromBytes_objects bytes d hb (by omega)
        rw [ho] at hd
        simp only at hd
        cases hoo : catchObjects O d (objs.map (·.2)) curves i.bananas with
        | none => rw [hoo] at hd; cases hd
        | some os' =>
          rw [hoo] at hd
          simp only [Out.ok.injEq] at hd
          subst hd
          obtain ⟨hlen, hsp⟩ := catchObjects_spec O d _ _ _ _ hoo
          cases hr : catchDifficulty C A CA SA fuel start0 (catchSettings i) take os' with
          | ok a' =>
            rw [hr] at h
            simp only [ofRes, Out.ok.injEq] at h
            subst h
            obtain ⟨recs, hre, hc, _, har, hic⟩ := Rosu.C02e.catch_pipeline_counts C A CA SA fuel start0 _ take os' a' hsp hr
            exact ⟨d, objs, snds, os', recs, rfl, hm2, ho, hl, hs, hoo, by rw [hlen]; simp, hre, hc, har, hic⟩
          | panic => rw [hr] at h; cases h
          | fuel => rw [hr] at h; cases h
  | ioError => rw [hd] at h; cases h
  | otherMode m => rw [hd] at h; cases h
  | missingInputs => rw [hd] at h; cases h
  | panic => rw [hd] at h; cases h
  | fuel => rw [hd] at h; cases h

/-- **catch gradual = one-shot from raw bytes**: for every byte list, every `CurveInputs`, every
index: the skill / count state `CatchGradualDifficulty` has after `k` objects is the one-shot result
for `passed_objects = k` (the well-formedness hypothesis of the abstract theorem is discharged for
decoded files). -/
theorem catch_from_bytes_gradual_eq_oneshot (C : Casts F S) (A : Arith F) (CA : Rosu.ConvCatch.CAr S F)
    (SA : SecArith F) (fuel : Nat) (start0 : F) (bytes : List UInt8) (i : CatchInputs F S) (k : Nat)
    (curves : CurveInputs F S) (os : List (PObj F S)) (hd : catchDecoded O bytes curves i.bananas = .ok os) :
    catchGradualValue C A CA SA fuel start0 (catchSettings i) k os
      = catchDifficulty C A CA SA fuel start0 (catchSettings i) k os ∧
    catchDifficultyFromBytes O C A CA SA fuel start0 bytes i k curves
      = ofRes (catchDifficulty C A CA SA fuel start0 (catchSettings i) k os) := by
  have hsp : SpansPositive (os.map toRaw) := by
    unfold catchDecoded at hd
    cases hb : fromBytes bytes with
    | none => rw [hb] at hd; cases hd
    | some d =>
      rw [hb] at hd
      simp only at hd
      split at hd
      · cases hd
      · cases ho : d.objects with
        | none => rw [ho] at hd; cases hd
        | some p =>
          rw [ho] at hd
          simp only at hd
          cases hoo : catchObjects O d (p.1.map (·.2)) curves i.bananas with
          | none => rw [hoo] at hd; cases hd
          | some os' =>
            rw [hoo] at hd
            simp only [Out.ok.injEq] at hd
            subst hd
            exact (catchObjects_spec O d _ _ _ _ hoo).2
  refine ⟨Rosu.C02e.catch_pipeline_gradual_eq_oneshot C A CA SA fuel start0 _ k os hsp, ?_⟩
  unfold catchDifficultyFromBytes
  rw [hd]

omit [FOps F] [FOps S] in
/-- **catch totality before the curve-dependent part** -/
theorem catch_from_bytes_total (bytes : List UInt8) (curves : CurveInputs F S) (bananas : List Nat) :
    catchDecoded O bytes curves bananas ≠ .panic ∧ catchDecoded O bytes curves bananas ≠ .fuel := by
  unfold catchDecoded
  cases hb : fromBytes bytes with
  | none => simp
  | some d =>
    simp only
    split
    · simp
    · rename_i hmode
      have hm2 : d.mode = 2 := by simpa using hmode
      obtain ⟨objs, snds, ho, _⟩ := fromBytes_objects bytes d hb (by omega)
      rw [ho]
      simp only
      split <;> simp

end Catch

end Rosu.C02i
