import RosuModel.Lemmas.GradualOsu
namespace Rosu.Gradual
variable {S : Type}
theorem placeholder_c02 : True := trivial
end Rosu.Gradual
