import RosuModel.Lemmas.GradualOsu
import RosuModel.Lemmas.GradualCatch
import RosuModel.Lemmas.GradualMania
import RosuModel.Lemmas.GradualTaiko
import RosuModel.Gen.GradualCtor

/-!
# C02 — gradual difficulty equals difficulty of the played prefix

For every abstract skill state `S` (hence for the real strain skills): the `i`-th value a
gradual calculator produces is the one-shot result for `passed_objects = i`, it produces exactly
`len()` values, and the last one is the full one-shot result.  osu!standard and osu!catch are
proved outright (osu!mania since the fix /repo 1b784a7), osu!taiko since the
two fixes of `TaikoGradualDifficulty` / `DifficultyValues::calculate` — all three clauses for every object list).
-/

namespace Rosu.Gradual

variable {S : Type}

def unitSkills' : Skills (List Nat) := ⟨[], fun s i => s ++ [i]⟩

/-! ## osu!standard -/

/-- One-shot with `take = i` (`1 ≤ i`) equals the canonical value at `min i n`. -/
theorem osuOneShot_eq_value (sk : Skills S) (objs : List OsuObj) (i : Nat) (hi : 1 ≤ i)
    (hn : 1 ≤ objs.length) :
    osuOneShot sk objs i = osuValue sk objs (min i objs.length) := by
  unfold osuOneShot osuValue
  simp only [osuConvertCount_eq_prefix]
  have hdl : osuDiffLen objs.length i = objs.length - 1 := by
    unfold osuDiffLen
    have : ¬ (objs.length = 0 ∨ i = 0) := by omega
    rw [if_neg this]
  rw [hdl]
  have e1 : min (min objs.length i - 1) (objs.length - 1) = min i objs.length - 1 := by omega
  rw [e1]
  congr 1
  rcases Nat.le_total i objs.length with h | h
  · simp [Nat.min_eq_left h]
  · rw [Nat.min_eq_right h]; exact osuPrefixCounts_ge objs i h

/-- **osu!**: the first `n` calls of `next` return exactly the one-shot results for
`passed_objects = 1, …, n`, and the `(n+1)`-th call returns `None`. -/
theorem osu_next_eq_prefix (sk : Skills S) (objs : List OsuObj) :
    ((osuMachine sk objs).nexts (osuNew sk objs) objs.length).1 =
      (List.range objs.length).map (fun d => Res.some (osuOneShot sk objs (d + 1))) ∧
    ((osuMachine sk objs).next ((osuMachine sk objs).nexts (osuNew sk objs) objs.length).2).1 = .none := by
  obtain ⟨hv, hc⟩ := osu_nexts_spec sk objs objs.length (osuNew sk objs) 0 (osuNew_canon sk objs) (by omega)
  refine ⟨?_, ?_⟩
  · rw [hv]
    apply List.map_congr_left
    intro d hd
    have hdlt : d < objs.length := by simpa using hd
    simp only [Nat.zero_add]
    rw [osuOneShot_eq_value sk objs (d + 1) (by omega) (by omega)]
    have : min (d + 1) objs.length = d + 1 := by omega
    rw [this]
  · simp only [Nat.zero_add] at hc
    rw [osuMachine_next_exhausted sk objs _ hc]

/-- **osu!**: the calculator announces exactly as many values as it produces. -/
theorem osu_len_initial (sk : Skills S) (objs : List OsuObj) :
    (osuMachine sk objs).len (osuNew sk objs) = some objs.length := by
  have := osuLen_spec sk objs _ 0 (osuNew_canon sk objs)
  simpa [osuMachine] using this

/-- **osu!**: the final value is the full calculation (`passed_objects` unset = any `take ≥ n`). -/
theorem osu_last_eq_full (sk : Skills S) (objs : List OsuObj) (take : Nat)
    (hn : 1 ≤ objs.length) (ht : objs.length ≤ take) :
    osuOneShot sk objs take = osuOneShot sk objs objs.length := by
  rw [osuOneShot_eq_value sk objs take (by omega) hn, osuOneShot_eq_value sk objs _ hn hn]
  congr 1
  omega

/-! ## osu!catch -/

/-- No tiny droplets are recorded after the last fruit/droplet (true of the converter: a juice
stream always ends with its tail fruit). -/
def CatchWellFormed (evs : List CatchEvent) : Prop :=
  (evs.foldl catchGradualStep (⟨false, 0⟩, [])).1.tiny = 0


theorem catchRegular_eq_prefix (evs : List CatchEvent) (take : Nat) (hwf : CatchWellFormed evs) :
    catchRegular evs take = catchPrefixCounts (catchGradualRecs evs) take := by
  have h := catchBuilders_fold take evs _ _ (catchBuilders_init take)
  have hc := h.c
  unfold CatchWellFormed at hwf
  unfold catchRegular catchGradualRecs
  rw [hc, hwf]
  simp [CatchCounts.addTiny]

theorem catchRecs_length (evs : List CatchEvent) : (catchGradualRecs evs).length = catchPalpable evs := by
  have := catchGradual_length evs (⟨false, 0⟩, [])
  simpa [catchGradualRecs] using this

/-- One-shot with `take = i ≥ 1` equals the canonical gradual value at `min i P`. -/
theorem catchOneShot_eq_value (sk : Skills S) (evs : List CatchEvent) (i : Nat)
    (hwf : CatchWellFormed evs) :
    catchOneShot sk evs i = catchValue sk (catchGradualRecs evs) (min i (catchGradualRecs evs).length) := by
  unfold catchOneShot catchValue
  rw [catchRegular_eq_prefix evs i hwf, ← catchRecs_length]
  congr 1
  · rcases Nat.le_total i (catchGradualRecs evs).length with h | h
    · rw [Nat.min_eq_left h]
    · rw [Nat.min_eq_right h]; exact catchPrefixCounts_ge _ i h
  · congr 1; omega

/-- **catch**: the first `P` calls of `next` (`P` = palpable objects) return exactly the one-shot
results for `passed_objects = 1, …, P`; the next call returns `None`; `len()` announces `P`. -/
theorem catch_next_eq_prefix (sk : Skills S) (evs : List CatchEvent) (hwf : CatchWellFormed evs) :
    let recs := catchGradualRecs evs
    let m := catchMachine sk recs (recs.length - 1)
    (m.nexts (catchNew sk) recs.length).1 =
      (List.range recs.length).map (fun d => Res.some (catchOneShot sk evs (d + 1))) ∧
    (m.next (m.nexts (catchNew sk) recs.length).2).1 = .none ∧
    m.len (catchNew sk) = some recs.length := by
  intro recs m
  obtain ⟨hv, hc⟩ := catch_nexts_spec sk recs recs.length (catchNew sk) 0 (catchNew_canon sk recs) (by omega)
  refine ⟨?_, ?_, ?_⟩
  · show ((catchMachine sk recs (recs.length - 1)).nexts (catchNew sk) recs.length).1 = _
    rw [hv]
    apply List.map_congr_left
    intro d hd
    have hdlt : d < recs.length := by simpa using hd
    simp only [Nat.zero_add]
    rw [catchOneShot_eq_value sk evs (d + 1) hwf]
    have : min (d + 1) (catchGradualRecs evs).length = d + 1 := by
      show min (d + 1) recs.length = d + 1
      omega
    rw [this]
  · simp only [Nat.zero_add] at hc
    show ((catchMachine sk recs (recs.length - 1)).next _).1 = _
    rw [catchMachine_next_exhausted sk recs _ hc]
  · exact catchLen_spec sk recs _ 0 (catchNew_canon sk recs)

/-- **catch**: the final value is the full calculation. -/
theorem catch_last_eq_full (sk : Skills S) (evs : List CatchEvent) (take : Nat)
    (hwf : CatchWellFormed evs) (ht : (catchGradualRecs evs).length ≤ take) :
    catchOneShot sk evs take = catchOneShot sk evs (catchGradualRecs evs).length := by
  rw [catchOneShot_eq_value sk evs take hwf, catchOneShot_eq_value sk evs _ hwf]
  congr 1
  omega

/-- Non-vacuity: a stream with tiny droplets before a droplet and a fruit is well formed. -/
example : CatchWellFormed [.fruit, .tiny 2, .droplet, .tiny 1, .fruit] := by
  unfold CatchWellFormed; decide

/-! ## osu!mania -/

theorem maniaGradPrefix_eq_oneShot (objs : List ManiaObj) (k : Nat) :
    maniaGradPrefix objs k =
      (((objs.take k).map (·.incOne)).sum, ((objs.take k).filter (fun o => !o.isCircle)).length) := by
  unfold maniaGradPrefix
  suffices hs : ∀ (l : List ManiaObj) (a : Nat × Nat),
      l.foldl maniaAccStep a = (a.1 + (l.map (·.incOne)).sum, a.2 + (l.filter (fun o => !o.isCircle)).length) by
    have := hs (objs.take k) (0, 0)
    simpa using this
  intro l
  induction l with
  | nil => intro a; simp
  | cons o t ih =>
    intro a
    simp only [List.foldl_cons]
    rw [ih _]
    unfold maniaAccStep
    by_cases hcirc : o.isCircle = true
    · simp [hcirc]; omega
    · simp [hcirc]; omega

theorem maniaOneShot_eq_value (sk : Skills S) (objs : List ManiaObj) (i : Nat) (hi : i ≤ objs.length) :
    maniaOneShot sk objs i = maniaValue sk objs i := by
  unfold maniaOneShot maniaValue
  rw [maniaGradPrefix_eq_oneShot objs i]
  simp [List.length_take, Nat.min_eq_left hi]

/-- **mania**: for every object list (any per-object combo values) the first `n` calls of `next`
return exactly the one-shot results for `passed_objects = 1, …, n`, then `None`; `len()` announces
`n`.  (Before /repo 1b784a7 the gradual path recomputed each hold note's combo from
`(t / clock_rate) * clock_rate` and this theorem needed the hypothesis "recomputed increment =
one-shot increment", which the code violated for clock rates such as 1.1 and 1.3; that defect is
fixed and recorded under `fixed` in known_findings.json.) -/
theorem mania_next_eq_prefix (sk : Skills S) (objs : List ManiaObj) :
    ((maniaMachine sk objs).nexts (maniaNew sk objs) objs.length).1 =
      (List.range objs.length).map (fun d => Res.some (maniaOneShot sk objs (d + 1))) ∧
    ((maniaMachine sk objs).next ((maniaMachine sk objs).nexts (maniaNew sk objs) objs.length).2).1 = .none ∧
    (maniaMachine sk objs).len (maniaNew sk objs) = some objs.length := by
  obtain ⟨hv, hc⟩ := mania_nexts_spec sk objs objs.length (maniaNew sk objs) 0 (maniaNew_canon sk objs) (by omega)
  refine ⟨?_, ?_, ?_⟩
  · rw [hv]
    apply List.map_congr_left
    intro d hd
    have hdlt : d < objs.length := by simpa using hd
    simp only [Nat.zero_add]
    rw [maniaOneShot_eq_value sk objs (d + 1) (by omega)]
  · simp only [Nat.zero_add] at hc
    rw [maniaMachine_next_exhausted sk objs _ hc]
  · have := maniaLen_spec sk objs _ 0 (maniaNew_canon sk objs)
    simpa [maniaMachine] using this

/-- **mania**: any limit at or above the object count gives the full calculation. -/
theorem mania_last_eq_full (sk : Skills S) (objs : List ManiaObj) (take : Nat) (ht : objs.length ≤ take) :
    maniaOneShot sk objs take = maniaOneShot sk objs objs.length := by
  unfold maniaOneShot
  simp [List.take_of_length_le ht, Nat.min_eq_right ht]

/-- Non-vacuity: a circle followed by a hold note worth four combo; the second `next` reports
combo 5, two objects, one hold note — the one-shot value for `passed_objects = 2`. -/
example :
    let objs : List ManiaObj := [⟨true, 1⟩, ⟨false, 4⟩]
    ((maniaMachine unitSkills' objs).nexts (maniaNew unitSkills' objs) 2).1.getLast? =
      some (Res.some (maniaOneShot unitSkills' objs 2)) := by
  decide

/-! ## osu!taiko

Since `/repo` `fix: taiko gradual difficulty counts the first two objects like every other hit` the
`next` / value-count / `len` clauses hold for every object list; before it they needed "the first two
objects are hits and there are at least three objects" (witnesses about the pre-fix machine
`Old.taikoMachine` below).  Since `fix: taiko passed_objects(total hits) and the last gradual value include
the drum rolls and swells after the last hit` the final-value clause holds for every object list as well
(before: only without a drum roll / swell after the last hit — witness about `Old.taikoOneShot`). -/

/-- **taiko**: for every object list, the first `H` calls of `next` (`H` = number of hits) return
exactly the one-shot results for `passed_objects = 1, …, H`, the next call returns `None`, and
`len()` announces `H`. -/
theorem taiko_next_eq_prefix (sk : Skills S) (objs : List Bool) :
    let H := hitsIn objs
    ((taikoMachine sk objs).nexts (taikoNew sk objs) H).1 =
      (List.range H).map (fun d => Res.some (taikoOneShot sk objs (d + 1))) ∧
    ((taikoMachine sk objs).next ((taikoMachine sk objs).nexts (taikoNew sk objs) H).2).1 = .none ∧
    (taikoMachine sk objs).len (taikoNew sk objs) = some H := by
  intro H
  obtain ⟨hv, hc⟩ := taiko_nexts_spec sk objs H (taikoNew sk objs) 0 (taikoNew_canon sk objs) (by omega)
  refine ⟨?_, ?_, ?_⟩
  · rw [hv]
    apply List.map_congr_left
    intro d hd
    have hdlt : d < H := by simpa using hd
    simp only [Nat.zero_add]
    rw [taikoOneShot_general sk objs (d + 1) (by omega) (by omega)]
  · simp only [Nat.zero_add] at hc
    have := ((taikoNext_spec sk objs _ H hc).2 rfl).1
    show optToRes (taikoNext sk objs _).1 = _
    rw [this]; rfl
  · simp [taikoMachine, taikoLen, taikoNew, csub, hitsIn, H]

/-- **taiko, final value** (every object list, since `/repo` `fix: taiko passed_objects(total hits) and the
last gradual value include the drum rolls and swells after the last hit`): the one-shot result for
`passed_objects = H` — the last gradual value — equals the full calculation (`passed_objects` unset =
any limit `≥ H`).  Before that fix this needed "the last object is a hit"
(`taiko_trailing_nonhit_fails`). -/
theorem taiko_last_eq_full (sk : Skills S) (objs : List Bool) (big : Nat) (hbig : hitsIn objs ≤ big) :
    taikoOneShot sk objs (hitsIn objs) = taikoOneShot sk objs big := by
  rw [taikoOneShot_ge sk objs _ (Nat.le_refl _), taikoOneShot_ge sk objs big hbig]

/-- … and so the last value the gradual calculator produces is the full calculation. -/
theorem taiko_final_eq_full (sk : Skills S) (objs : List Bool) (h0 : 0 < hitsIn objs) (big : Nat)
    (hbig : hitsIn objs ≤ big) :
    ((taikoMachine sk objs).nexts (taikoNew sk objs) (hitsIn objs)).1.getLast? =
      some (Res.some (taikoOneShot sk objs big)) := by
  rw [(taiko_next_eq_prefix sk objs).1]
  obtain ⟨k, hk⟩ : ∃ k, hitsIn objs = k + 1 := ⟨hitsIn objs - 1, by omega⟩
  rw [hk, List.range_succ, List.map_append, List.map_singleton, List.getLast?_concat, ← hk,
    taiko_last_eq_full sk objs big hbig]

/-! ### The machine before the fix (`Old`): the defect, as `decide`d witnesses -/

/-- Pre-fix: first object a hit, second not — the second gradual value differed from
`passed_objects(2)` (combo 1 where one-shot has already counted the second hit and processed a
difficulty object). -/
theorem taiko_first_nonhit_fails :
    let objs := [true, false, true, true]
    ((Old.taikoMachine unitSkills' objs).nexts (taikoNew unitSkills' objs) 2).1.getLast? ≠
      some (Res.some (taikoOneShot unitSkills' objs 2)) := by
  decide

/-- Pre-fix: maps with two objects announced two values and produced none. -/
theorem taiko_short_map_fails :
    let objs := [true, true]
    (Old.taikoMachine unitSkills' objs).len (taikoNew unitSkills' objs) = some 2 ∧
    ((Old.taikoMachine unitSkills' objs).next (taikoNew unitSkills' objs)).1 = .none := by
  decide

/-- The same inputs on the machine as fixed (instances of `taiko_next_eq_prefix`, evaluated). -/
example :
    ((taikoMachine unitSkills' [true, false, true, true]).nexts
        (taikoNew unitSkills' [true, false, true, true]) 3).1 =
      [1, 2, 3].map (fun i => Res.some (taikoOneShot unitSkills' [true, false, true, true] i)) ∧
    ((taikoMachine unitSkills' [true, true]).nexts (taikoNew unitSkills' [true, true]) 3).1 =
      [Res.some (taikoOneShot unitSkills' [true, true] 1), Res.some (taikoOneShot unitSkills' [true, true] 2),
       Res.none] := by
  decide

/-- Pre-fix one-shot (`Old.taikoOneShot`): with a trailing non-hit, `passed_objects(total hits)` — what the
last gradual value equalled — was not the full calculation: only the unlimited path processed the
difficulty objects of the drum rolls / swells after the last hit (the former known finding
`taiko-gradual-trailing-nonhit`). -/
theorem taiko_trailing_nonhit_fails :
    let objs := [true, true, true, false]
    Old.taikoOneShot unitSkills' objs 3 ≠ Old.taikoOneShot unitSkills' objs 1000 := by
  decide

/-- The same map as fixed: the last of the three values is the full calculation (instance of
`taiko_final_eq_full`), and a fourth call returns `None`. -/
example :
    let objs := [true, true, true, false]
    ((taikoMachine unitSkills' objs).nexts (taikoNew unitSkills' objs) 3).1.getLast? =
      some (Res.some (taikoOneShot unitSkills' objs 1000)) ∧
    ((taikoMachine unitSkills' objs).nexts (taikoNew unitSkills' objs) 4).1.getLast? = some .none ∧
    taikoOneShot unitSkills' objs 3 = (3, [0, 1]) := by
  decide

/-- An irregular start and drum rolls in the middle: intermediate values are unchanged by the drain. -/
example :
    let objs := [false, true, false, true, true]
    ((taikoMachine unitSkills' objs).nexts (taikoNew unitSkills' objs) 3).1 =
      [1, 2, 3].map (fun i => Res.some (taikoOneShot unitSkills' objs i)) ∧
    (taikoOneShot unitSkills' objs 3) = (taikoOneShot unitSkills' objs 1000) := by
  decide

/-! ## The gradual constructors prepare the map like the one-shot calculation (generated)

`Gen/GradualCtor.lean` is re-extracted from src/<mode>/difficulty/{mod,gradual}.rs on every run
(receiver spelling and accessor aliases canonicalised). -/

section Ctor
open Rosu.Gen.GradualCtor

/-- Every shape met by the extractor was understood. -/
theorem gradual_ctor_shapes_understood : ctorUnknown = [] := by decide

/-- **`…GradualDifficulty::new` applies the same conversion and the same mods as `difficulty()`**:
`convert_ref` to the same mode with the mods of the same `Difficulty`, then the same
mod-dependent map rewrites (`HoldOff`, `Invert`, `Random` for mania, `Random` for taiko) under the
same conditions in the same order — for all four modes. -/
theorem gradual_applies_same_mods_as_difficulty :
    ∀ mode ∈ ["Osu", "Taiko", "Catch", "Mania"],
      (prepSteps.lookup mode).isSome ∧
      (prepSteps.filter (fun r => r.1 == mode && r.2.1 == "oneshot")).map (·.2.2) =
        (prepSteps.filter (fun r => r.1 == mode && r.2.1 == "gradual")).map (·.2.2) ∧
      ((prepSteps.filter (fun r => r.1 == mode)).map (·.2.1)) = ["oneshot", "gradual"] := by decide

/-- Ways in which a path consults its `Difficulty`, minus the object limit (`passed_objects`: a
gradual calculator counts objects itself — that is what the theorems above are about) and minus
the plumbing (`DifficultyValues::calculate(difficulty, …)` / storing the value in `Self { … }`). -/
def settingsOf (mode path : String) : List String :=
  ((settingChains.filter (fun r => r.1 == mode && r.2.1 == path)).flatMap (·.2.2)).filter
    (fun c => c != "get_passed_objects()" && c != "pass:DifficultyValues::calculate" && c != "pass:Self{}")

/-- **The gradual calculators read their settings from the same sources as the one-shot
calculation**: in every mode the code of gradual.rs consults the `Difficulty` through exactly the
accessor chains (`get_clock_rate()`, `get_hardrock_offsets()`, `get_mods().reflection()`,
`get_mods().random_seed()`, …) and shared helpers that `difficulty()` + `DifficultyValues::calculate`
use — e.g. catch's hard-rock offsets come from `get_hardrock_offsets()` (the `Difficulty` override)
on both paths, the clock rate from `get_clock_rate()` on both paths. -/
theorem gradual_reads_same_settings :
    ∀ mode ∈ ["Osu", "Taiko", "Catch", "Mania"],
      settingsOf mode "gradual" = settingsOf mode "oneshot" ∧ settingsOf mode "oneshot" ≠ [] := by decide

/-- No code of a mode asks the mods directly for the clock rate or the hard-rock offsets: both have
an override in `Difficulty`, reachable only through `get_clock_rate()` / `get_hardrock_offsets()`. -/
theorem no_override_bypass : overrideBypass = [] := by decide

/-- Non-vacuity: catch reads the hard-rock offsets and the reflection on both paths. -/
example : "get_hardrock_offsets()" ∈ settingsOf "Catch" "gradual" ∧
    "get_mods().reflection()" ∈ settingsOf "Catch" "oneshot" := by decide

end Ctor

end Rosu.Gradual
