import RosuModel.Model.Convert
import RosuModel.Model.Builder
import RosuModel.Gen.TryFrom

/-!
# C07 — mode dispatch and map conversion are mutually consistent
-/

namespace Rosu.Convert
open Rosu.Gen

/-! ## Obligations on the generated tables -/

/-- The guard chains of `convert_ref` and `convert_mut` in the source are the ones transcribed in
`Model/Convert.lean` (same order, same errors, same converter calls). -/
theorem convert_chains_as_modelled :
    convertChains =
      [("convert_ref", ["same-mode:Ok(Cow::Borrowed(self))", "is-convert:ConvertError::AlreadyConverted",
          "not-osu:ConvertError::Convert { from: self.mode, to: mode, }",
          "convert:Taiko:Taiko::convert(M)|Catch:Catch::convert(M)|Mania:Mania::convert(M, mods)|Osu:unreachable!()"]),
       ("convert_mut", ["same-mode:Ok(())", "is-convert:ConvertError::AlreadyConverted",
          "not-osu:ConvertError::Convert { from: self.mode, to: mode, }",
          "convert:Taiko:Taiko::convert(M)|Catch:Catch::convert(M)|Mania:Mania::convert(M, mods)|Osu:unreachable!()"])] := by
  decide

/-- Every converter assigns the target mode and marks the map as a convert. -/
theorem converters_set_mode_and_flag :
    converterAssignments = [("Taiko", true, true), ("Catch", true, true), ("Mania", true, true)] := by decide

/-- Every `match mode` table sends each mode to itself (`mode_or_ignore` may fall back to Osu). -/
theorem dispatch_tables_diagonal :
    ∀ t ∈ dispatchTables, t.1 ≠ "OsuPerformance::mode_or_ignore" →
      t.2 = [("Osu", "Osu"), ("Taiko", "Taiko"), ("Catch", "Catch"), ("Mania", "Mania")] := by decide

theorem mode_or_ignore_table :
    dispatchTables.lookup "OsuPerformance::mode_or_ignore" =
      some [("Osu", "Osu"), ("Taiko", "Osu+Taiko"), ("Catch", "Catch+Osu"), ("Mania", "Mania+Osu")] := by decide

/-- All twelve dispatch tables the property talks about are present. -/
theorem dispatch_tables_present :
    dispatchTables.map (·.1) =
      ["Difficulty::calculate", "Difficulty::strains", "GradualDifficulty::new_with_mode",
       "GradualPerformance::new_with_mode", "IntoPerformance for Beatmap", "IntoPerformance for &'map Beatmap",
       "IntoPerformance for DifficultyAttributes", "IntoPerformance for PerformanceAttributes",
       "OsuPerformance::try_mode", "OsuPerformance::mode_or_ignore"] := by decide

/-- Difficulty, strains and the gradual constructor of a mode start with the same conversion
and apply the same post-conversion mods in the same order. -/
theorem entry_preludes_agree :
    ∀ mode ∈ ["Osu", "Taiko", "Catch", "Mania"],
      ((entryPreludes.filter (·.1 == mode)).map (·.2.2)).length = 3 ∧
      ∀ p ∈ (entryPreludes.filter (·.1 == mode)).map (·.2.2),
        p = ((entryPreludes.filter (·.1 == mode)).map (·.2.2)).head! := by decide

/-- …and that conversion targets the mode itself. -/
theorem entry_preludes_convert_to_own_mode :
    ∀ e ∈ entryPreludes, e.2.2.head? = some ("convert_ref:" ++ e.1) := by decide


/-! ## `Performance::try_mode` / `mode_or_ignore`: what the conversion of a builder carries over -/

open Rosu.Builder in
/-- The field of a mode's builder that the generic `Performance` setter `setter` writes (none if
the setter is documented as irrelevant for that mode). -/
def targetFieldOf (mode setter : String) : Option String :=
  match lookupArm setter mode with
  | some (.forward m) =>
    match lookupEffect mode m with
    | some (.field f) => some f
    | some .acc => some "acc"
    | some .priority => some "hitresult_priority"
    | _ => none
  | _ => none

/-- Fields of the osu! builder and the generic setter that writes each. -/
def osuFieldSetter : List (String × String) :=
  [("acc", "accuracy"), ("combo", "combo"), ("large_tick_hits", "large_tick_hits"),
   ("small_tick_hits", "small_tick_hits"), ("slider_end_hits", "slider_end_hits"), ("n300", "n300"),
   ("n100", "n100"), ("n50", "n50"), ("misses", "misses"), ("hitresult_priority", "hitresult_priority")]

/-- `TryFrom<OsuPerformance>` for `mode` carries a field over exactly when the generic setter for
it is meaningful in `mode` — to the very field that setter would write — and drops it exactly
when the setter is a documented no-op; the `Difficulty` is always carried over; every other
field of the new builder starts unset. -/
def tryFromConsistent (mode : String) : Bool :=
  match tryFromOsu.lookup mode with
  | some (taken, built) =>
    (osuFieldSetter.all fun fs =>
      match targetFieldOf mode fs.2 with
      | some g => taken.lookup fs.1 == some fs.1 && built.lookup g == some fs.1
      | none => taken.lookup fs.1 == some "_") &&
    taken.lookup "difficulty" == some "difficulty" && built.lookup "difficulty" == some "difficulty" &&
    built.lookup "map_or_attrs" == some "MapOrAttrs::Map(map)" &&
    (built.all fun kv =>
      kv.2 == "None" || kv.1 == "map_or_attrs" || kv.1 == "difficulty" ||
        (osuFieldSetter.any fun fs => targetFieldOf mode fs.2 == some kv.1 && kv.2 == fs.1))
  | none => false

/-- Hence setting score fields on an osu! `Performance` and then converting it with
`try_mode`/`mode_or_ignore` configures the same builder as converting first and using the same
generic setters afterwards. -/
theorem tryfrom_consistent_with_setters :
    ∀ mode ∈ ["Taiko", "Catch", "Mania"], tryFromConsistent mode = true := by decide

/-! ## The three conversion entry points -/

variable {B M : Type}

/-- By reference and in place: equal maps or equal errors. -/
theorem convert_ref_eq_convert_mut (conv : Mode → M → B → B) (m : MapM B) (dst : Mode) (mods : M) :
    (convertRef conv m dst mods = .ok (convertMut conv m dst mods).2 ∧ (convertMut conv m dst mods).1 = .ok ()) ∨
    (∃ e, convertRef conv m dst mods = .error e ∧ (convertMut conv m dst mods).1 = .error e ∧
      (convertMut conv m dst mods).2 = m) := by
  unfold convertRef convertMut
  by_cases h1 : m.mode = dst
  · simp [h1]
  · by_cases h2 : m.isConvert = true
    · right; exact ⟨.alreadyConverted, by simp [h1, h2]⟩
    · by_cases h3 : m.mode ≠ .osu
      · right; exact ⟨.convert m.mode dst, by simp [h1, h2, h3]⟩
      · left; simp [h1, h2, h3]

/-- By value equals by reference. -/
theorem convert_val_eq_convert_ref (conv : Mode → M → B → B) (m : MapM B) (dst : Mode) (mods : M) :
    convertVal conv m dst mods = convertRef conv m dst mods := by
  unfold convertVal convertRef convertMut
  by_cases h1 : m.mode = dst
  · simp [h1]
  · by_cases h2 : m.isConvert = true
    · simp [h1, h2]
    · by_cases h3 : m.mode ≠ .osu
      · simp [h1, h2, h3]
      · simp [h1, h2, h3]

/-- Converting to the map's own mode is the identity. -/
theorem convert_self_id (conv : Mode → M → B → B) (m : MapM B) (mods : M) :
    convertRef conv m m.mode mods = .ok m := by
  simp [convertRef]

/-- Only un-converted osu!standard maps convert (to another mode), and the result is marked. -/
theorem convert_only_plain_osu (conv : Mode → M → B → B) (m : MapM B) (dst : Mode) (mods : M)
    (hne : m.mode ≠ dst) :
    (∃ m', convertRef conv m dst mods = .ok m') ↔ (m.mode = .osu ∧ m.isConvert = false) := by
  unfold convertRef
  by_cases h2 : m.isConvert = true
  · simp [hne, h2]
  · by_cases h3 : m.mode = .osu
    · have hne' : Mode.osu ≠ dst := h3 ▸ hne
      simp [h2, h3, hne']
    · simp [hne, h2, h3]

theorem convert_sets_flag (conv : Mode → M → B → B) (m m' : MapM B) (dst : Mode) (mods : M)
    (hne : m.mode ≠ dst) (h : convertRef conv m dst mods = .ok m') :
    m'.mode = dst ∧ m'.isConvert = true := by
  unfold convertRef at h
  by_cases h2 : m.isConvert = true
  · simp [hne, h2] at h
  · by_cases h3 : m.mode = .osu
    · have hne' : Mode.osu ≠ dst := h3 ▸ hne
      simp [h2, h3, hne', applyConv] at h
      subst h; exact ⟨rfl, rfl⟩
    · simp [hne, h2, h3] at h

/-- Errors: an already converted map reports `AlreadyConverted`, a non-osu map reports the pair. -/
theorem errors_agree (conv : Mode → M → B → B) (m : MapM B) (dst : Mode) (mods : M) (hne : m.mode ≠ dst) :
    (m.isConvert = true → convertRef conv m dst mods = .error .alreadyConverted) ∧
    (m.isConvert = false → m.mode ≠ .osu → convertRef conv m dst mods = .error (.convert m.mode dst)) := by
  unfold convertRef
  constructor
  · intro h; simp [hne, h]
  · intro h h3; simp [hne, h, h3]

/-! ## Calculating for a mode directly = calculating on the explicitly converted map -/

variable {D R : Type}

/-- For an osu! map and any target mode: `calculate_for_mode::<M>(map)` (also strains, gradual
constructors, `Performance::try_mode` — every entry point has the same prelude) equals the
own-mode calculation on `map.convert(M, mods)`. -/
theorem calc_for_mode_eq_calc_on_converted (conv : Mode → M → B → B) (core : Mode → D → MapM B → R)
    (mods : D → M) (dst : Mode) (d : D) (m m' : MapM B)
    (hconv : convertRef conv m dst (mods d) = .ok m') :
    forMode conv core mods dst d m = onOwnMode conv core mods d m' := by
  have hmode : m'.mode = dst := by
    by_cases hne : m.mode = dst
    · simp [convertRef, hne] at hconv; subst hconv; exact hne
    · exact (convert_sets_flag conv m m' dst (mods d) hne hconv).1
  unfold onOwnMode forMode
  rw [hconv, hmode]
  have : convertRef conv m' dst (mods d) = .ok m' := by
    rw [← hmode]; exact convert_self_id conv m' (mods d)
  rw [this]

/-- When the conversion fails, so does the direct calculation, with the same error. -/
theorem calc_for_mode_error (conv : Mode → M → B → B) (core : Mode → D → MapM B → R)
    (mods : D → M) (dst : Mode) (d : D) (m : MapM B) (e : ConvErr)
    (hconv : convertRef conv m dst (mods d) = .error e) :
    forMode conv core mods dst d m = .error e := by
  unfold forMode; rw [hconv]

/-- Non-vacuity: an osu! map converts to mania and is marked. -/
example : convertRef (fun _ _ (b : Nat) => b + 1) ⟨.osu, false, 0⟩ .mania () = .ok ⟨.mania, true, 1⟩ := by
  rfl

end Rosu.Convert
