import RosuModel.Model.Builder
import RosuModel.Lemmas.ReadSet
import RosuModel.Model.ReadSet

/-!
# C18 — builder settings mean the same thing wherever they are set

`Gen/Setters.lean` is regenerated from the source on every run; the obligations below are about
those generated tables, so a change to a forwarding arm or to a setter body re-checks them.
-/

namespace Rosu.Builder
open Rosu.Gen

/-! ## Obligations on the generated tables -/

/-- Every arm of every `Performance` setter was understood by the translator. -/
theorem no_unknown_arms :
    ∀ row ∈ performanceSetters, ∀ p ∈ row.2, p.2 ≠ Arm.unknown := by decide

/-- Every setter body of the four mode builders was understood by the translator. -/
theorem no_unknown_effects :
    ∀ row ∈ modeSetters, ∀ p ∈ row.2, p.2 ≠ Effect.unknown := by decide

/-- The (setter, mode) pairs that `Performance` documents as "irrelevant for this mode". -/
def documentedNoops : List (String × String) :=
  [("ar", "Taiko"), ("ar", "Mania"), ("cs", "Taiko"), ("cs", "Mania"),
   ("hardrock_offsets", "Osu"), ("hardrock_offsets", "Taiko"), ("hardrock_offsets", "Mania"),
   ("lazer", "Taiko"), ("lazer", "Catch"), ("combo", "Mania"), ("hitresult_priority", "Catch"),
   ("large_tick_hits", "Taiko"), ("large_tick_hits", "Catch"), ("large_tick_hits", "Mania"),
   ("small_tick_hits", "Taiko"), ("small_tick_hits", "Catch"), ("small_tick_hits", "Mania"),
   ("slider_end_hits", "Taiko"), ("slider_end_hits", "Catch"), ("slider_end_hits", "Mania"),
   ("n50", "Taiko"), ("n_katu", "Osu"), ("n_katu", "Taiko"),
   ("n_geki", "Osu"), ("n_geki", "Taiko"), ("n_geki", "Catch")]

/-- A `Performance` setter ignores its argument only where that is documented. -/
theorem noops_are_documented :
    ∀ row ∈ performanceSetters, ∀ p ∈ row.2, p.2 = Arm.noop → (row.1, p.1) ∈ documentedNoops := by
  decide

/-- …and everything documented as ignored really is ignored (no half-forwarding). -/
theorem documented_noops_are_noops :
    ∀ q ∈ documentedNoops, lookupArm q.1 q.2 = some Arm.noop := by decide

/-- Every forwarded arm targets an existing method of that mode's builder. -/
theorem forward_targets_exist :
    ∀ row ∈ performanceSetters, ∀ p ∈ row.2,
      (match p.2 with
       | Arm.forward m => (lookupEffect p.1 m).isSome
       | _ => true) = true := by
  decide

/-- Difficulty-level setters: where `Performance` forwards one, the mode builder applies the
`Difficulty` setter of the same name to its own `Difficulty` — for all four modes. -/
theorem diff_setters_forward_to_difficulty :
    ∀ mode ∈ modes, ∀ s ∈ diffSetters,
      (lookupArm s mode = some (.forward s) ∧ lookupEffect mode s = some (.diff s)) ∨
      lookupArm s mode = some .noop := by decide

/-- `Performance::difficulty` replaces the whole `Difficulty` in every mode. -/
theorem difficulty_setter_replaces :
    ∀ mode ∈ modes, lookupArm "difficulty" mode = some (.forward "difficulty") ∧
      lookupEffect mode "difficulty" = some .setDifficulty := by decide

/-- Clamp bounds as written in the source. -/
theorem clamps_as_documented :
    difficultyClamps = [("clock_rate", "0.01", "100.0"), ("ar", "-20.0", "20.0"), ("cs", "-20.0", "20.0"),
      ("hp", "-20.0", "20.0"), ("od", "-20.0", "20.0")] := by decide

/-- `InspectDifficulty::into_difficulty` replays every setter (so every number is clamped again),
exactly as `Inspect.intoDifficulty` in the model does. -/
theorem into_difficulty_replays_setters :
    intoDifficultyCalls = ["new.mods(mods)", "passed_objects(passed_objects)", "clock_rate(clock_rate)",
      "ar(ar.value, ar.with_mods)", "cs(cs.value, cs.with_mods)", "hp(hp.value, hp.with_mods)",
      "od(od.value, od.with_mods)", "hardrock_offsets(hardrock_offsets)", "lazer(lazer)"] := by decide

/-- `Difficulty::inspect` copies every field (the clock rate is decoded from its bit pattern). -/
theorem inspect_copies_fields :
    inspectFields = ["mods", "passed_objects", "clock_rate: clock_rate.map(non_zero_u64_to_f64)", "ar", "cs",
      "hp", "od", "hardrock_offsets", "lazer"] := by decide

/-! ## Clamping -/

theorem clamp_bounds (lo hi x : Int) (h : lo ≤ hi) : lo ≤ clamp lo hi x ∧ clamp lo hi x ≤ hi := by
  unfold clamp; omega

theorem clamp_idempotent (lo hi x : Int) (h : lo ≤ hi) : clamp lo hi (clamp lo hi x) = clamp lo hi x := by
  unfold clamp; omega

theorem clamp_id_of_mem (lo hi x : Int) (h1 : lo ≤ x) (h2 : x ≤ hi) : clamp lo hi x = x := by
  unfold clamp; omega

/-- Out-of-range clock rates and attribute overrides are clamped to the documented bounds. -/
theorem setter_clamps (d : Diff) (x : Int) (w : Bool) :
    (∃ r, (d.applyS .clockRate (.num x)).clockRate = some r ∧ 10 ≤ r ∧ r ≤ 100000) ∧
    (∃ v, (d.applyS .ar (.attr x w)).ar = some (v, w) ∧ -20000 ≤ v ∧ v ≤ 20000) ∧
    (∃ v, (d.applyS .cs (.attr x w)).cs = some (v, w) ∧ -20000 ≤ v ∧ v ≤ 20000) ∧
    (∃ v, (d.applyS .hp (.attr x w)).hp = some (v, w) ∧ -20000 ≤ v ∧ v ≤ 20000) ∧
    (∃ v, (d.applyS .od (.attr x w)).od = some (v, w) ∧ -20000 ≤ v ∧ v ≤ 20000) := by
  refine ⟨⟨_, rfl, ?_⟩, ⟨_, rfl, ?_⟩, ⟨_, rfl, ?_⟩, ⟨_, rfl, ?_⟩, ⟨_, rfl, ?_⟩⟩ <;>
    (first | exact clamp_bounds _ _ _ (by decide))

/-! ## Inspect round trip -/

def okRate : Option Int → Prop
  | none => True
  | some r => 10 ≤ r ∧ r ≤ 100000

def okAttr : Option (Int × Bool) → Prop
  | none => True
  | some (v, _) => -20000 ≤ v ∧ v ≤ 20000

/-- Every stored number is inside its clamp (true of every value built with the setters). -/
def Diff.Clamped (d : Diff) : Prop :=
  okRate d.clockRate ∧ okAttr d.ar ∧ okAttr d.cs ∧ okAttr d.hp ∧ okAttr d.od

theorem new_clamped : Diff.new.Clamped := by
  simp [Diff.Clamped, Diff.new, okRate, okAttr]

theorem applyS_clamped (d : Diff) (s : DSetter) (a : Arg) (h : d.Clamped) : (d.applyS s a).Clamped := by
  obtain ⟨h1, h2, h3, h4, h5⟩ := h
  have hb1 := fun x => clamp_bounds 10 100000 x (by decide)
  have hb2 := fun x => clamp_bounds (-20000) 20000 x (by decide)
  cases s <;> cases a <;> simp only [Diff.applyS, Diff.Clamped] <;>
    first
    | exact ⟨h1, h2, h3, h4, h5⟩
    | exact ⟨hb1 _, h2, h3, h4, h5⟩
    | exact ⟨h1, hb2 _, h3, h4, h5⟩
    | exact ⟨h1, h2, hb2 _, h4, h5⟩
    | exact ⟨h1, h2, h3, hb2 _, h5⟩
    | exact ⟨h1, h2, h3, h4, hb2 _⟩

/-- Every `Difficulty` reachable with the setters is clamped. -/
theorem reachable_clamped (calls : List (DSetter × Arg)) :
    (calls.foldl (fun d c => d.applyS c.1 c.2) Diff.new).Clamped := by
  suffices h : ∀ d : Diff, d.Clamped → (calls.foldl (fun d c => d.applyS c.1 c.2) d).Clamped from h _ new_clamped
  induction calls with
  | nil => intro d h; exact h
  | cons c cs ih => intro d h; exact ih _ (applyS_clamped d c.1 c.2 h)

theorem clampRate_id (r : Int) (h : okRate (some r)) : clampRate r = r := by
  unfold clampRate; exact clamp_id_of_mem _ _ _ h.1 h.2

theorem clampAttr_id (v : Int) (w : Bool) (h : okAttr (some (v, w))) : clampAttr v = v := by
  unfold clampAttr; exact clamp_id_of_mem _ _ _ h.1 h.2

/-- Normal form of `into_difficulty`: every number re-clamped, everything else copied. -/
theorem intoDifficulty_eq (i : Inspect) :
    i.intoDifficulty =
      { mods := i.mods, passed := i.passed, clockRate := i.clockRate.map clampRate,
        ar := i.ar.map (fun p => (clampAttr p.1, p.2)), cs := i.cs.map (fun p => (clampAttr p.1, p.2)),
        hp := i.hp.map (fun p => (clampAttr p.1, p.2)), od := i.od.map (fun p => (clampAttr p.1, p.2)),
        hrOffsets := i.hrOffsets, lazer := i.lazer } := by
  obtain ⟨mods, passed, rate, ar, cs, hp, od, hr, lz⟩ := i
  cases passed <;> cases rate <;> cases ar <;> cases cs <;> cases hp <;> cases od <;> cases hr <;> cases lz <;> rfl

theorem map_clampRate_id (o : Option Int) (h : okRate o) : o.map clampRate = o := by
  cases o with
  | none => rfl
  | some r => simp [clampRate_id r h]

theorem map_clampAttr_id (o : Option (Int × Bool)) (h : okAttr o) :
    o.map (fun p => (clampAttr p.1, p.2)) = o := by
  cases o with
  | none => rfl
  | some p => obtain ⟨v, w⟩ := p; simp [clampAttr_id v w h]

/-- `Difficulty → InspectDifficulty → Difficulty` is the identity on every reachable value. -/
theorem inspect_roundtrip (d : Diff) (h : d.Clamped) : d.inspect.intoDifficulty = d := by
  obtain ⟨h1, h2, h3, h4, h5⟩ := h
  rw [intoDifficulty_eq]
  simp only [Diff.inspect]
  rw [map_clampRate_id _ h1, map_clampAttr_id _ h2, map_clampAttr_id _ h3, map_clampAttr_id _ h4,
    map_clampAttr_id _ h5]

theorem okRate_map (o : Option Int) : okRate (o.map clampRate) := by
  cases o with
  | none => trivial
  | some r => exact clamp_bounds 10 100000 r (by decide)

theorem okAttr_map (o : Option (Int × Bool)) : okAttr (o.map (fun p => (clampAttr p.1, p.2))) := by
  cases o with
  | none => trivial
  | some p => exact clamp_bounds (-20000) 20000 p.1 (by decide)

/-- `InspectDifficulty → Difficulty`: whatever values a user writes into the inspectable form,
the resulting `Difficulty` is clamped, and a further round trip changes nothing. -/
theorem into_difficulty_stable (i : Inspect) :
    (i.intoDifficulty).Clamped ∧ (i.intoDifficulty.inspect.intoDifficulty) = i.intoDifficulty := by
  have hc : (i.intoDifficulty).Clamped := by
    rw [intoDifficulty_eq]
    exact ⟨okRate_map _, okAttr_map _, okAttr_map _, okAttr_map _, okAttr_map _⟩
  exact ⟨hc, inspect_roundtrip _ hc⟩

/-! ## Performance setters ≡ Difficulty setters -/

/-- The `Difficulty` a `Performance` of the given mode ends up with after a sequence of
difficulty-level setter calls: the forwarded calls applied in order, the documented no-ops
dropped. -/
def expectedDiff (mode : String) (calls : List (String × Arg)) (d : Diff) : Diff :=
  calls.foldl (fun d c => if forwarded mode c.1 then d.apply c.1 c.2 else d) d

theorem applyPerformance_diff_setter (b : PerfB) (mode s : String) (a : Arg)
    (hm : mode ∈ modes) (hs : s ∈ diffSetters) :
    b.applyPerformance mode s a =
      { b with difficulty := if forwarded mode s then b.difficulty.apply s a else b.difficulty } := by
  have h := diff_setters_forward_to_difficulty mode hm s hs
  rcases h with ⟨h1, h2⟩ | h1
  · simp [PerfB.applyPerformance, PerfB.applyMode, PerfB.applyEffect, forwarded, h1, h2]
  · simp [PerfB.applyPerformance, forwarded, h1]

/-- **Configuring a `Performance` through its own setters is equivalent to handing it a
`Difficulty` with the same setters applied** (for every mode, every sequence of difficulty-level
setters with arbitrary arguments, in any order): the score fields are untouched and the stored
`Difficulty` is the one obtained from the forwarded setters; setters a mode documents as
irrelevant change nothing at all. -/
theorem perf_setters_eq_difficulty_setters (mode : String) (hm : mode ∈ modes)
    (calls : List (String × Arg)) (hc : ∀ c ∈ calls, c.1 ∈ diffSetters) (b : PerfB) :
    calls.foldl (fun b c => b.applyPerformance mode c.1 c.2) b =
      { b with difficulty := expectedDiff mode calls b.difficulty } := by
  induction calls generalizing b with
  | nil => rfl
  | cons c cs ih =>
    simp only [List.foldl_cons, expectedDiff]
    rw [ih (fun c' hc' => hc c' (List.mem_cons_of_mem _ hc'))]
    rw [applyPerformance_diff_setter b mode c.1 c.2 hm (hc c List.mem_cons_self)]
    simp [expectedDiff]

/-- Same thing, the way a user sees it: applying the setters to `Performance::new(x)` equals
`Performance::new(x).difficulty(d)` where `d` is `Difficulty::new()` with the forwarded setters. -/
theorem perf_setters_eq_handing_difficulty (mode : String) (hm : mode ∈ modes) (src : Nat)
    (calls : List (String × Arg)) (hc : ∀ c ∈ calls, c.1 ∈ diffSetters) :
    calls.foldl (fun b c => b.applyPerformance mode c.1 c.2) (PerfB.new src) =
      (PerfB.new src).setDifficulty (expectedDiff mode calls Diff.new) := by
  rw [perf_setters_eq_difficulty_setters mode hm calls hc]
  rfl

/-- Setters writing different `Difficulty` fields commute. -/
theorem setters_commute (d : Diff) (s1 s2 : DSetter) (a1 a2 : Arg) (h : s1 ≠ s2) :
    (d.applyS s1 a1).applyS s2 a2 = (d.applyS s2 a2).applyS s1 a1 := by
  cases s1 <;> cases s2 <;> first | (exact absurd rfl h) | (cases a1 <;> cases a2 <;> rfl)

/-- The same setter twice: the last value wins. -/
theorem setter_last_wins (d : Diff) (s : DSetter) (a1 a2 : Arg) (hshape : (d.applyS s a2) ≠ d ∨ a1 = a2) :
    ((d.applyS s a1).applyS s a2 = d.applyS s a2) ∨ (d.applyS s a2 = d) := by
  cases s <;> cases a1 <;> cases a2 <;> simp [Diff.applyS]

/-- Non-vacuity: a concrete call sequence on a taiko `Performance`; `ar` is dropped. -/
example :
    ((PerfB.new 7).applyPerformance "Taiko" "ar" (.attr 9000 false)
      |>.applyPerformance "Taiko" "clock_rate" (.num 250000)
      |>.applyPerformance "Taiko" "od" (.attr (-50000) true)).difficulty =
    { Diff.new with clockRate := some 100000, od := some (-20000, true) } := by decide

/-! ## Which `Difficulty` fields a mode can read (generated read-set tables)

`Gen/ReadSet.lean` is regenerated from the source on every run: the accessors of `impl Difficulty`
with the fields each reads, the accessors called under each mode directory, the accessor calls in
shared code (the attribute builder), a conservative data flow of `hit_windows()` / `build()` and the
result fields each mode consumes.  `ReadSet.readSet mode` (Model/ReadSet.lean) composes them. -/

open Rosu.ReadSet Rosu.Gen.ReadSet

/-- Every shape met while extracting the read-set tables was understood. -/
theorem readset_shapes_understood : readSetUnknown = [] := by decide

/-- Every `Difficulty` setter assigns exactly the field of its own name, and there is one setter
per field (so "setter `s` is dropped" and "field `s` keeps its old value" are the same thing). -/
theorem difficulty_setters_write_own_field :
    difficultyWriters = diffSetters.map (fun s => (s, [s])) ∧ difficultyFields = diffSetters := by decide

/-- Outside the mode directories the only code calling a `Difficulty` accessor is
`BeatmapAttributesBuilder::difficulty` — the shared reader that `readSet` models. -/
theorem shared_readers_are_the_attribute_builder :
    ∀ s ∈ sharedAccessorSites, s.1 = "src/model/beatmap/attributes.rs" ∧ s.2.1 = "difficulty" := by decide

/-- The read sets only name `Difficulty` fields. -/
theorem readset_fields_are_setters : ∀ mode ∈ modes, ∀ f ∈ readSet mode, f ∈ diffSetters := by decide

/-- **A setter that `Performance` documents as irrelevant for a mode sets a field that no code of
that mode can read** — neither through an accessor call in the mode's directory nor through the
attribute builder (taiko consumes only `od_great`/`od_ok` of `hit_windows()`, which do not depend
on the builder's `ar`/`cs`/`hp`; mania never builds attributes from the `Difficulty`). -/
theorem dropped_setters_not_read :
    ∀ q ∈ documentedNoops, q.1 ∈ diffSetters → q.1 ∉ readSet q.2 := by decide

/-- Conversely, every field a mode can read has a forwarding `Performance` setter of that name. -/
theorem read_fields_are_forwarded :
    ∀ mode ∈ modes, ∀ f ∈ readSet mode, lookupArm f mode = some (.forward f) := by decide

/-- Difficulty-level setters that are not forwarded set unread fields. -/
theorem not_forwarded_not_read :
    ∀ mode ∈ modes, ∀ s ∈ diffSetters, forwarded mode s = false → s ∉ readSet mode := by decide

/-- **Dropping the irrelevant setters is invisible to the mode**: for every mode and every
sequence of difficulty-level setter calls, the `Difficulty` a `Performance` ends up with (dropped
setters skipped) and the `Difficulty` with *all* the calls applied agree on every field the mode's
code can read. -/
theorem dropped_setters_invisible (mode : String) (hm : mode ∈ modes)
    (calls : List (String × Arg)) (hc : ∀ c ∈ calls, c.1 ∈ diffSetters) (a b : Diff)
    (hab : agreeOn (readSet mode) a b) :
    agreeOn (readSet mode) (expectedDiff mode calls a) (calls.foldl (fun d c => d.apply c.1 c.2) b) := by
  induction calls generalizing a b with
  | nil => exact hab
  | cons c cs ih =>
    simp only [List.foldl_cons, expectedDiff]
    have hc1 : c.1 ∈ diffSetters := hc c List.mem_cons_self
    refine ih (fun c' hc' => hc c' (List.mem_cons_of_mem _ hc')) _ _ ?_
    intro f hf
    have hfd := readset_fields_are_setters mode hm f hf
    cases hfw : forwarded mode c.1 with
    | true =>
      simp only [if_true]
      exact fieldEq_apply_both a b c.1 f c.2 hc1 hfd (hab f hf)
    | false =>
      have hnr := not_forwarded_not_read mode hm c.1 hc1 hfw
      have hne : f ≠ c.1 := fun h => hnr (h ▸ hf)
      simpa using fieldEq_apply_right a b c.1 f c.2 hne hc1 hfd (hab f hf)

/-- The user-level form: `Performance::new(x)` configured through its own setters holds a
`Difficulty` that the mode cannot tell apart from `Difficulty::new()` with every call applied. -/
theorem perf_route_indistinguishable (mode : String) (hm : mode ∈ modes) (src : Nat)
    (calls : List (String × Arg)) (hc : ∀ c ∈ calls, c.1 ∈ diffSetters) :
    agreeOn (readSet mode)
      (calls.foldl (fun b c => b.applyPerformance mode c.1 c.2) (PerfB.new src)).difficulty
      (calls.foldl (fun d c => d.apply c.1 c.2) Diff.new) := by
  rw [perf_setters_eq_difficulty_setters mode hm calls hc]
  exact dropped_setters_invisible mode hm calls hc _ _
    (fun f hf => fieldEq_refl _ f (readset_fields_are_setters mode hm f hf))

/-- Non-vacuity: taiko reads `od` (through `hit_windows().od_great`) but not `ar`; osu! reads `ar`;
mania reads neither `od` nor `hp` (its difficulty never consults the attribute builder). -/
example : "od" ∈ readSet "Taiko" ∧ "ar" ∉ readSet "Taiko" ∧ "ar" ∈ readSet "Osu" ∧
    "od" ∉ readSet "Mania" ∧ "hardrock_offsets" ∈ readSet "Catch" := by decide

end Rosu.Builder
