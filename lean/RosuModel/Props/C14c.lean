import RosuModel.Lemmas.ConvOsu
import RosuModel.Lemmas.ConvCatch

/-!
# C14 — the object converters of osu! and catch start from DECODED objects

`Model/ConvOsu.lean` (osu! `convert_objects` + `compute_slider_cursor_pos`) and
`Model/ConvCatch.lean` (catch `convert_objects` up to the hyper-dash pass) are tied bit for bit to
the real converters (OCONV / LTT / CCONV lines: every position, stack height and offset, lazy end
position / travel distance / travel time, scale, radius, time preempt, counts; catch: every
palpable object, `last_pos` / `last_start_time` and the six PRNG words after every hit object).
-/
namespace Rosu.C14c
open Rosu.ConvOsu Rosu.Gradual

variable {R S : Type}

/-- **osu! `convert_objects` is total and structure-preserving** for every arithmetic, threshold,
reflection and both stacking passes: it converts EVERY object (the `take` argument only limits the
counting `inspect`), in input order, keeping kind (a hold note arrives as a spinner from
`OsuObject::new`) and start time; its counts are `countTake`. -/
theorem osu_convert_objects_structure (A : Ar R S) (scale : S) (refl : Nat) (tp sl : R)
    (version take : Nat) (objs : List (Obj R S)) (c : Counts) :
    ∃ os, convertObjects A scale refl tp sl version take objs c = some (os, countTake take objs c) ∧
      os.length = objs.length ∧
      os.map (fun o => kindTag o.kind) = objs.map (fun o => kindTag o.kind) ∧
      os.map (·.start) = objs.map (·.start) :=
  convertObjects_spec A scale refl tp sl version take objs c

/-- the counts are those of the first `min(take, len)` objects … -/
theorem osu_convert_counts_prefix (take : Nat) (objs : List (Obj R S)) (c : Counts) :
    countTake take objs c = (objs.take take).foldl countOne c :=
  countTake_eq_prefix take objs c

/-- … and they ARE the counts of C14's abstract model on the per-object summaries, so
`C14.osu_counts_eq_prefix`, `osu_kinds_partition`, `osu_counts_monotone`, `osu_counts_cap` now start
from the objects `OsuObject::new` builds (nested lists included, `C14b.osu_slider_nested`). -/
theorem osu_convert_counts_are_C14_counts (take : Nat) (objs : List (Obj R S)) :
    (countTake take objs Counts.zero).toG = osuConvertCount (objs.map summary) take :=
  countTake_toG take objs

/-- the whole preparation (`ScalingFactor::new`, `time_preempt`, `convert_objects`,
`compute_slider_cursor_pos` on every object) is total and structure-preserving -/
theorem osu_prepare_structure (A : Ar R S) (cs ar clock sl : R) (refl version take : Nat)
    (objs : List (Obj R S)) :
    ∃ os c sc tp, prepare A cs ar clock sl refl version take objs = some (os, c, sc, tp) ∧
      os.length = objs.length ∧
      os.map (fun o => kindTag o.kind) = objs.map (fun o => kindTag o.kind) ∧
      os.map (·.start) = objs.map (·.start) ∧
      c.toG = osuConvertCount (objs.map summary) take :=
  prepare_spec A cs ar clock sl refl version take objs

/-- `OsuSlider::lazy_travel_time` only re-orders the nested objects (the `rotate_left` of the
suffix starting at the last tick): the follow-circle loop walks a permutation of them, by list
recursion — no index is computed. -/
theorem lazy_travel_time_permutes_nested (A : Ar R S) (start dur : R) (nested : List (Nested R S)) :
    (lazyTravelTime A start dur nested).2.Perm nested :=
  lazyTravelTime_perm A start dur nested

/-! ## catch -/

open Rosu.ConvCatch in
/-- one list of palpable objects per hit object, in input order -/
theorem catch_convert_one_step_per_object {S T : Type} (A : CAr S T) (hr : Bool)
    (os : List (Rosu.ConvCatch.Obj S T)) (st : St S T) : (convertLoop A hr st os).length = os.length :=
  convertLoop_length A hr os st

open Rosu.ConvCatch in
/-- **prefixes consume a prefix of the PRNG stream**: the conversion of `os ++ os'` starts with the
conversion of `os` (same palpable objects, offsets and PRNG states).  Both the one-shot and the
gradual catch calculators convert the whole map and apply `passed_objects` afterwards, so they see
the same hard-rock offsets. -/
theorem catch_convert_prefix {S T : Type} (A : CAr S T) (hr : Bool)
    (os os' : List (Rosu.ConvCatch.Obj S T)) (st : St S T) :
    convertLoop A hr st (os ++ os') =
      convertLoop A hr st os ++ convertLoop A hr (finalSt A hr st os) os' :=
  convertLoop_append A hr os os' st

open Rosu.ConvCatch in
/-- **PRNG consumption is a fixed function of the object's shape**: juice stream = one step per
droplet and tiny droplet, banana shower = four per banana, fruit without hard-rock offsets = none;
a hard-rock fruit = none, or one `next_bool` + one `next_int` (the `pos_diff == 0` branch). -/
theorem catch_prng_consumption {S T : Type} (A : CAr S T) (hr : Bool) (st : St S T) :
    (∀ x start cp nested, (convertOne A hr st (.stream x start cp nested)).2.rng =
      skip (nested.filter (fun n => n.kind = 1 ∨ n.kind = 2)).length st.rng) ∧
    (∀ n, (convertOne A hr st (.shower n)).2.rng = skip (4 * n) st.rng) ∧
    (∀ x start, hr = false → (convertOne A hr st (.fruit x start)).2.rng = st.rng) ∧
    (∀ x start, (applyHrOffset A x start st).2.rng = st.rng ∨
      (applyHrOffset A x start st).2.rng = st.rng.nextBool.2.nextInt.2) :=
  ⟨(convertOne_rng A hr st).1, (convertOne_rng A hr st).2.1, (convertOne_rng A hr st).2.2,
    fun x start => applyHrOffset_rng A x start st⟩

/-- non-vacuity: three circles and a take of two -/
example : (countTake 2 ([⟨(0, 0), 0, 0, (0, 0), .circle⟩, ⟨(0, 0), 1, 0, (0, 0), .spinner 5⟩,
    ⟨(0, 0), 2, 0, (0, 0), .circle⟩] : List (Obj Int Int)) Counts.zero) = ⟨2, 1, 0, 0, 1⟩ := by
  decide

end Rosu.C14c
