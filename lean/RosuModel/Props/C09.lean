import RosuModel.Lemmas.FiniteAcc
import RosuModel.Lemmas.FiniteDV
import RosuModel.Lemmas.FiniteXF

/-!
# C09 — stars, pp and all reported attributes are finite and non-negative

Theorems about `Model/Finite.lean`: the guard / decision logic and the exact-rational parts.
Finiteness and sign of the transcendental float expressions themselves (`powf`, `ln`, `exp`,
`erf_inv_impl`, overflow of finite arithmetic) are NOT theorems: every hypothesis of the form
"this factor is finite" below is checked on the implementation by the search (harness/src/c09.rs).
-/

namespace Rosu.Finite

/-! ## 1. accuracies lie in [0, 1] — for EVERY score state, consistent or not -/

/-- `OsuScoreState::accuracy(origin)` for every state and every origin (any maxima) -/
theorem osu_accuracy_mem_Icc (s : OsuState) (o : OsuOrigin) :
    0 ≤ s.accuracy o ∧ s.accuracy o ≤ 1 :=
  ratio_mem _ _ (osu_accNum_nonneg s o) (osu_accNum_le_accDen s o)

/-- zero denominator is handled by the explicit branch -/
theorem osu_accuracy_zero_den (s : OsuState) (o : OsuOrigin) (h : s.accDen o = 0) : s.accuracy o = 0 := by
  unfold OsuState.accuracy; rw [if_pos h]

/-- the code tests `FloatExt::eq(denominator, 0.0)` (`|d| ≤ 2⁻⁵²`); for this denominator that is `d = 0` -/
theorem osu_accuracy_eps_test_exact (s : OsuState) (o : OsuOrigin) :
    floatEq (s.accDen o) 0 = true ↔ s.accDen o = 0 :=
  floatEq_zero_iff_of_fifth (osu_accDen_zero_or_ge s o)

/-- no hits, stable origin ⇒ accuracy 0 -/
theorem osu_accuracy_zero_hits (s : OsuState) (h : s.totalHits = 0) : s.accuracy .stable = 0 := by
  apply osu_accuracy_zero_den
  simp only [OsuState.accDen, h]; norm_num

/-- the `u32` arithmetic of the code agrees with the exact model as long as `6 * total_hits` fits -/
theorem osu_accuracy_wrapped_eq (s : OsuState) (h : 6 * s.totalHits < 4294967296) :
    s.accuracyStableWrapped = s.accuracy .stable := by
  have hn : 6 * s.n300 + 2 * s.n100 + s.n50 < 4294967296 := by unfold OsuState.totalHits at h; omega
  have ht : s.totalHits < 4294967296 := by omega
  unfold OsuState.accuracyStableWrapped
  simp only [Nat.mod_eq_of_lt hn, Nat.mod_eq_of_lt ht, Nat.mod_eq_of_lt h]
  have hD : s.accDen .stable = ((6 * s.totalHits : Nat) : Rat) := rfl
  have hN : s.accNum .stable = ((6 * s.n300 + 2 * s.n100 + s.n50 : Nat) : Rat) := rfl
  unfold OsuState.accuracy
  by_cases h0 : 6 * s.totalHits = 0
  · have : s.accDen .stable = 0 := by rw [hD]; exact_mod_cast h0
    rw [if_pos h0, if_pos this]
  · have : s.accDen .stable ≠ 0 := by rw [hD]; exact_mod_cast h0
    rw [if_neg h0, if_neg this, hD, hN]

/-- "accuracy ≤ 1 for every `u32` state" is FALSE of a release build once `6 * total_hits`
overflows: one great and 715 827 882 misses wrap the denominator to 2 and give accuracy 3
(a debug build panics).  Outside the property's quantifier (maps have < 500 000 objects). -/
def OsuAccuracyWrappedLeOne : Prop := ∀ s : OsuState, s.accuracyStableWrapped ≤ 1

theorem osu_accuracy_wrapped_exceeds_one : ¬ OsuAccuracyWrappedLeOne := by
  intro h
  have := h ⟨0, 0, 0, 0, 1, 0, 0, 715827882⟩
  revert this; decide +kernel

/-- the integer-weighted `NoComboState::accuracy` is the same rational -/
theorem osu_noCombo_accuracy_eq (s : OsuState) (o : OsuOrigin) : s.noComboAccuracy o = s.accuracy o :=
  osu_noCombo_eq s o

theorem osu_better_acc_mem_Icc (s : OsuState) (amount : Nat) :
    0 ≤ s.betterAccPercentage amount ∧ s.betterAccPercentage amount ≤ 1 :=
  better_acc_mem s amount

/-- `relevant_acc` of the speed value (any real `speed_note_count ≥ 0`), hence the base
`(acc + relevant_acc)/2` of the final `powf` lies in [0, 1] -/
theorem osu_relevant_acc_mem_Icc (s : OsuState) (snc : Rat) (h : 0 ≤ snc) :
    0 ≤ s.relevantAcc snc ∧ s.relevantAcc snc ≤ 1 :=
  relevant_acc_mem s snc h

theorem taiko_accuracy_mem_Icc (s : TaikoState) : 0 ≤ s.accuracy ∧ s.accuracy ≤ 1 := by
  unfold TaikoState.accuracy
  have h := ratio_mem ((2 * s.n300 + s.n100 : Nat) : Rat) ((2 * s.totalHits : Nat) : Rat) (by positivity)
    (by have : 2 * s.n300 + s.n100 ≤ 2 * s.totalHits := by unfold TaikoState.totalHits; omega
        exact_mod_cast this)
  by_cases h0 : s.totalHits = 0
  · rw [if_pos h0]; exact ⟨le_refl _, zero_le_one⟩
  · rw [if_neg h0]
    have hd : ((2 * s.totalHits : Nat) : Rat) ≠ 0 := by
      have : 2 * s.totalHits ≠ 0 := by omega
      exact_mod_cast this
    rw [if_neg hd] at h; exact h

theorem catch_accuracy_mem_Icc (s : CatchState) : 0 ≤ s.accuracy ∧ s.accuracy ≤ 1 := by
  unfold CatchState.accuracy
  have h := ratio_mem ((s.fruits + s.droplets + s.tinyDroplets : Nat) : Rat) ((s.totalHits : Nat) : Rat)
    (by positivity)
    (by have : s.fruits + s.droplets + s.tinyDroplets ≤ s.totalHits := by unfold CatchState.totalHits; omega
        exact_mod_cast this)
  by_cases h0 : s.totalHits = 0
  · rw [if_pos h0]; exact ⟨le_refl _, zero_le_one⟩
  · rw [if_neg h0]
    have hd : ((s.totalHits : Nat) : Rat) ≠ 0 := by exact_mod_cast h0
    rw [if_neg hd] at h; exact h

/-- the free helper of catch `generate_state` has NO zero guard: all-zero arguments evaluate `0/0` -/
theorem catch_helper_accuracy_unguarded : catchHelperAccuracy 0 0 0 0 0 = none := by decide +kernel

theorem catch_helper_accuracy_mem_Icc (f d t tm m : Nat) (q : Rat) (h : catchHelperAccuracy f d t tm m = some q) :
    0 ≤ q ∧ q ≤ 1 := by
  unfold catchHelperAccuracy at h
  simp only at h
  split at h
  · exact absurd h (by simp)
  · rename_i hd
    injection h with h; subst h
    have hpos : (0 : Rat) < ((f + d + t + tm + m : Nat) : Rat) := by
      have : 0 < f + d + t + tm + m := Nat.pos_of_ne_zero hd
      exact_mod_cast this
    constructor
    · positivity
    · rw [div_le_one hpos]
      have : f + d + t ≤ f + d + t + tm + m := by omega
      exact_mod_cast this

theorem mania_accuracy_mem_Icc (s : ManiaState) (classic : Bool) :
    0 ≤ s.accuracy classic ∧ s.accuracy classic ≤ 1 :=
  mania_acc_mem s classic

theorem mania_custom_accuracy_mem_Icc (s : ManiaState) : 0 ≤ s.customAccuracy ∧ s.customAccuracy ≤ 1 :=
  mania_custom_acc_mem s

/-- non-vacuity: the bounds are attained -/
example : (⟨0, 0, 0, 0, 7, 0, 0, 0⟩ : OsuState).accuracy (.withSliderAcc 3 2) < 1 ∧
    (⟨0, 3, 0, 2, 7, 0, 0, 0⟩ : OsuState).accuracy (.withSliderAcc 3 2) = 1 ∧
    (⟨0, 99, 0, 99, 7, 0, 0, 0⟩ : OsuState).accuracy (.withSliderAcc 3 2) = 1 ∧
    (⟨0, 0, 0, 0, 0, 0, 0, 4⟩ : OsuState).accuracy .stable = 0 := by decide +kernel

example : (⟨1, 0, 0, 0, 0, 0⟩ : ManiaState).accuracy false = 1 ∧
    (⟨0, 1, 0, 0, 0, 0⟩ : ManiaState).accuracy false = 60 / 61 ∧
    (⟨0, 1, 0, 0, 0, 0⟩ : ManiaState).accuracy true = 1 := by decide +kernel

/-! ## 2. effective miss count -/

/-- classic slider accuracy: no subtraction can underflow, and for EVERY state
`misses ≤ emc ≤ total_hits` -/
theorem effective_miss_bounds_classic (a : OsuCounts) (s : OsuState) :
    ∃ e, effectiveMissCount a s true = some e ∧ (s.misses : Rat) ≤ e ∧ e ≤ (s.totalHits : Rat) :=
  emc_classic a s

/-- whenever a value is produced (either variant) it satisfies `misses ≤ emc ≤ total_hits` -/
theorem effective_miss_bounds (a : OsuCounts) (s : OsuState) (classic : Bool) (e : Rat)
    (h : effectiveMissCount a s classic = some e) : (s.misses : Rat) ≤ e ∧ e ≤ (s.totalHits : Rat) :=
  emc_bounds a s classic e h

/-- lazer slider accuracy: the three `u32` subtractions succeed for every state that is consistent
with the attributes (what `generate_state` guarantees, C12) on attributes with
`n_sliders ≤ max_combo` -/
theorem effective_miss_lazer_total (a : OsuCounts) (s : OsuState)
    (h1 : s.sliderEndHits ≤ a.nSliders) (h2 : s.largeTickHits ≤ a.nLargeTicks) (h3 : a.nSliders ≤ a.maxCombo) :
    ∃ e, effectiveMissCount a s false = some e :=
  emc_lazer_total a s h1 h2 h3

/-- full statement "never underflows" is FALSE without consistency: a state with more slider-end
hits than sliders underflows `attrs.n_sliders - state.slider_end_hits` -/
def EffectiveMissNeverUnderflows : Prop :=
  ∀ (a : OsuCounts) (s : OsuState), (effectiveMissCount a s false).isSome = true

theorem effective_miss_never_underflows_fails : ¬ EffectiveMissNeverUnderflows := by
  intro h
  have := h ⟨1, 0, 2⟩ ⟨0, 0, 0, 2, 1, 0, 0, 0⟩
  revert this; decide +kernel

/-- the relax adjustment keeps the value in `[min(emc, total), total]`, in particular ≥ 0 -/
theorem relax_effective_miss_bounds (emc : Rat) (s : OsuState) (m100 m50 : Rat)
    (h100 : 0 ≤ m100) (h50 : 0 ≤ m50) (h0 : 0 ≤ emc) :
    0 ≤ relaxEffectiveMiss emc s m100 m50 ∧ relaxEffectiveMiss emc s m100 m50 ≤ (s.totalHits : Rat) ∧
      min emc (s.totalHits : Rat) ≤ relaxEffectiveMiss emc s m100 m50 :=
  relax_bounds emc s m100 m50 h100 h50 h0

example : effectiveMissCount ⟨10, 4, 50⟩ ⟨20, 1, 0, 8, 28, 1, 0, 1⟩ false = some (12 / 5) := by decide +kernel
example : effectiveMissCount ⟨10, 4, 50⟩ ⟨20, 4, 0, 8, 28, 1, 0, 1⟩ true = some 2 := by decide +kernel


/-! ## 3. `difficulty_value` (src/any/difficulty/skills.rs) over ℚ -/

/-- non-negative peaks, non-negative decay weight ⇒ non-negative result -/
theorem difficulty_value_nonneg (w : Rat) (hw : 0 ≤ w) (peaks : List Rat) (hp : ∀ x ∈ peaks, 0 ≤ x) :
    0 ≤ difficultyValue w peaks := by
  unfold difficultyValue
  apply weightedSum_nonneg w hw _ 1 zero_le_one
  intro x hx
  rw [mem_sortDesc] at hx
  exact hp x (List.mem_filter.mp hx).1

theorem difficulty_value_empty (w : Rat) : difficultyValue w [] = 0 := rfl

/-- all-zero strain lists: every section is filtered out, the loop body never runs -/
theorem difficulty_value_all_zero (w : Rat) (peaks : List Rat) (h : ∀ x ∈ peaks, x = 0) :
    difficultyValue w peaks = 0 := by
  unfold difficultyValue
  have : peaks.filter (· ≠ 0) = [] := by
    rw [List.filter_eq_nil_iff]
    intro x hx; simp [h x hx]
  rw [this]; rfl

/-- the number of strains the loop visits is the number of non-zero peaks -/
theorem difficulty_value_visits_nonzero (peaks : List Rat) :
    (sortDesc (peaks.filter (· ≠ 0))).length = (peaks.filter (· ≠ 0)).length := length_sortDesc _

/-- monotone in every peak simultaneously (pointwise order), hence in each single peak -/
theorem difficulty_value_mono (w : Rat) (hw : 0 ≤ w) (l l' : List Rat) (hl : ∀ x ∈ l, 0 ≤ x)
    (h : List.Forall₂ (· ≤ ·) l l') : difficultyValue w l ≤ difficultyValue w l' := by
  have hl' : ∀ y ∈ l', 0 ≤ y := forall2_nonneg h hl
  rw [dv_eq_unfiltered w l hl, dv_eq_unfiltered w l' hl']
  exact weightedSum_mono w hw (sort_dom h) 1 zero_le_one

/-- raising one peak never lowers the value -/
theorem difficulty_value_mono_single (w : Rat) (hw : 0 ≤ w) (l : List Rat) (hl : ∀ x ∈ l, 0 ≤ x)
    (i : Nat) (hi : i < l.length) (v : Rat) (hv : l[i] ≤ v) :
    difficultyValue w l ≤ difficultyValue w (l.set i v) := by
  apply difficulty_value_mono w hw l _ hl
  rw [List.forall₂_iff_get]
  refine ⟨by simp, ?_⟩
  intro j h1 h2
  simp only [List.get_eq_getElem, List.getElem_set]
  split_ifs with hij
  · subst hij; exact hv
  · exact le_refl _

/-- geometric bound: peaks in `[0, M]`, `0 ≤ w < 1` ⇒ value ≤ `M / (1 − w)` (`= 10·M` for `w = 0.9`) -/
theorem difficulty_value_le_geom (w M : Rat) (hw0 : 0 ≤ w) (hw1 : w < 1) (hM : 0 ≤ M) (peaks : List Rat)
    (hp : ∀ x ∈ peaks, x ≤ M) : difficultyValue w peaks ≤ M / (1 - w) := by
  unfold difficultyValue
  have := weightedSum_le_geom w M hw0 hw1 hM (sortDesc (peaks.filter (· ≠ 0))) 1 zero_le_one
    (by intro x hx; rw [mem_sortDesc] at hx; exact hp x (List.mem_filter.mp hx).1)
  simpa using this

/-- value-wise the zero filter is invisible for non-negative peaks; what it protects is the
`unsafe transmute` of `StrainsVec` (C11) and the sort's running time — so a mutation that skips
the filter is caught through the visited length, not the value -/
theorem difficulty_value_filter_invisible (w : Rat) (l : List Rat) (hl : ∀ x ∈ l, 0 ≤ x) :
    difficultyValueNoFilter w l = difficultyValue w l := by
  unfold difficultyValueNoFilter; rw [dv_eq_unfiltered w l hl]

example : difficultyValue (9 / 10) [0, 2, 0, 5, 1] = 5 + 2 * (9 / 10) + 1 * (81 / 100) := by decide +kernel
example : (sortDesc ([0, 2, 0, 5, 1].filter (· ≠ 0))).length = 3 ∧ (sortDesc [0, 2, 0, 5, 1]).length = 5 := by decide +kernel

/-! ## 4. `count_top_weighted_strains`: no division by zero is reached -/

/-- for EVERY strain list and difficulty value (any sign, `exp` any non-negative function) the two
divisions are guarded: the result exists, is non-negative and at most `1.1·len` -/
theorem count_top_weighted_strains_guards (ex : Rat → Rat) (hex : ∀ x, 0 ≤ ex x) (strains : List Rat) (dv : Rat) :
    ∃ r, countTopWeightedStrains ex strains dv = some r ∧ 0 ≤ r ∧ r ≤ 11 / 10 * (strains.length : Rat) := by
  rw [countTop_unfold]
  by_cases he : strains.isEmpty = true
  · rw [if_pos he]; exact ⟨0, rfl, le_refl _, by positivity⟩
  · rw [if_neg he]
    by_cases hz : floatEq (dv / 10) 0 = true
    · rw [if_pos hz]
      refine ⟨_, rfl, by positivity, ?_⟩
      have : (0 : Rat) ≤ (strains.length : Rat) := by positivity
      linarith
    · rw [if_neg hz]
      have hne : dv / 10 ≠ 0 := floatEq_false_ne_zero (by simpa using hz)
      have key := sumOptL_map_bounds (fun s =>
        (cdiv s (dv / 10)).bind fun r => cdiv (11 / 10) (1 + ex (-10 * (r - 22 / 25)))) (11 / 10) strains 0 ?_
      · obtain ⟨r, hr, h0, h1⟩ := key
        exact ⟨r, hr, h0, by linarith⟩
      intro s _
      have h1 : cdiv s (dv / 10) = some (s / (dv / 10)) := by unfold cdiv; rw [if_neg hne]
      have hden : (0 : Rat) < 1 + ex (-10 * (s / (dv / 10) - 22 / 25)) := by
        have := hex (-10 * (s / (dv / 10) - 22 / 25)); linarith
      refine ⟨11 / 10 / (1 + ex (-10 * (s / (dv / 10) - 22 / 25))), ?_, by positivity, ?_⟩
      · rw [h1]; simp only [Option.bind_some]; unfold cdiv; rw [if_neg hden.ne']
      · rw [div_le_iff₀ hden]
        have := hex (-10 * (s / (dv / 10) - 22 / 25))
        nlinarith

/-- the guard is `|dv/10| ≤ 2⁻⁵²`, not `dv = 0`: it returns the strain count -/
theorem count_top_weighted_strains_eps_branch (ex : Rat → Rat) (s : Rat) (ss : List Rat) (dv : Rat)
    (h : |dv| ≤ 10 * f64Eps) : countTopWeightedStrains ex (s :: ss) dv = some ((ss.length + 1 : Nat) : Rat) := by
  rw [countTop_unfold]
  have hz : floatEq (dv / 10) 0 = true := by
    unfold floatEq
    rw [decide_eq_true_iff, qabs_eq_abs, sub_zero, abs_div]
    have : |(10 : Rat)| = 10 := by norm_num
    rw [this, div_le_iff₀ (by norm_num)]
    linarith
  simp [hz]

example : countTopWeightedStrains (fun _ => 1) [] 3 = some 0 := by decide +kernel
example : countTopWeightedStrains (fun _ => 1) [1, 2] 0 = some 2 := by decide +kernel
example : countTopWeightedStrains (fun _ => 1) [1, 2] 5 = some (11 / 10) := by decide +kernel

/-! ## 5. piecewise-rational helpers (src/util/difficulty.rs) -/

theorem reverse_lerp_mem_Icc (x a b t : Rat) (h : reverseLerp x a b = some t) : 0 ≤ t ∧ t ≤ 1 := by
  unfold reverseLerp at h
  simp only [Option.map_eq_some_iff] at h
  obtain ⟨u, _, rfl⟩ := h
  exact qclamp_mem u 0 1 zero_le_one

/-- the only way `reverse_lerp` leaves the rationals is `start = end` (a division by zero) -/
theorem reverse_lerp_defined_iff (x a b : Rat) : (reverseLerp x a b).isSome = true ↔ b ≠ a := by
  unfold reverseLerp
  rw [Option.isSome_map, cdiv_isSome, sub_ne_zero]

theorem smoothstep_mem_Icc (x a b t : Rat) (h : smoothstep x a b = some t) : 0 ≤ t ∧ t ≤ 1 := by
  unfold smoothstep at h
  simp only [Option.map_eq_some_iff] at h
  obtain ⟨u, hu, rfl⟩ := h
  obtain ⟨h0, h1⟩ := reverse_lerp_mem_Icc x a b u hu
  constructor
  · have : 0 ≤ 3 - 2 * u := by linarith
    positivity
  · have : 0 ≤ (1 - u) * (1 - u) * (1 + 2 * u) := by
      have : 0 ≤ 1 + 2 * u := by linarith
      positivity
    nlinarith

theorem smootherstep_mem_Icc (x a b t : Rat) (h : smootherstep x a b = some t) : 0 ≤ t ∧ t ≤ 1 := by
  unfold smootherstep at h
  simp only [Option.map_eq_some_iff] at h
  obtain ⟨u, hu, rfl⟩ := h
  obtain ⟨h0, h1⟩ := reverse_lerp_mem_Icc x a b u hu
  have hq : 0 ≤ u * (6 * u - 15) + 10 := by nlinarith [sq_nonneg (u - 5 / 4)]
  constructor
  · positivity
  · have h1u : 0 ≤ 1 - u := by linarith
    have : 0 ≤ (1 - u) * (1 - u) * (1 - u) * (6 * u * u + 3 * u + 1) := by positivity
    nlinarith

/-- `lerp` with an amount in [0, 1] stays between its end points -/
theorem lerp_between (v1 v2 t : Rat) (h0 : 0 ≤ t) (h1 : t ≤ 1) :
    min v1 v2 ≤ lerp v1 v2 t ∧ lerp v1 v2 t ≤ max v1 v2 := by
  unfold lerp
  rcases le_total v1 v2 with h | h
  · rw [min_eq_left h, max_eq_right h]; constructor <;> nlinarith
  · rw [min_eq_right h, max_eq_left h]; constructor <;> nlinarith

/-- `logistic`: the denominator `1 + exp(·)` is at least 1 -/
theorem logistic_mem (ex : Rat → Rat) (hex : ∀ x, 0 ≤ ex x) (e m : Rat) (hm : 0 ≤ m) :
    ∃ r, logisticExp ex e m = some r ∧ 0 ≤ r ∧ r ≤ m := by
  have hden : (0 : Rat) < 1 + ex e := by have := hex e; linarith
  refine ⟨m / (1 + ex e), by unfold logisticExp cdiv; rw [if_neg hden.ne'], by positivity, ?_⟩
  rw [div_le_iff₀ hden]
  have := hex e
  nlinarith

example : smoothstep 3 2 4 = some (1 / 2) ∧ smootherstep 3 2 4 = some (1 / 2) ∧ reverseLerp 9 2 4 = some 1 ∧
    reverseLerp 1 2 2 = none := by decide +kernel

/-! ## 6. `erf_inv` domain ends and the deviation guards -/

theorem erf_inv_zero (impl : Rat → XF) : erfInv impl (.fin 0) = .fin 0 := by simp [erfInv]

theorem erf_inv_ge_one (impl : Rat → XF) (z : Rat) (h : 1 ≤ z) : erfInv impl (.fin z) = .pinf := by
  have : z ≠ 0 := by linarith
  simp [erfInv, this, h]

theorem erf_inv_le_neg_one (impl : Rat → XF) (z : Rat) (h : z ≤ -1) : erfInv impl (.fin z) = .ninf := by
  have h0 : z ≠ 0 := by linarith
  have h1 : ¬ (1 ≤ z) := by linarith
  simp [erfInv, h0, h1, h]

/-- inside the open domain, away from 0, the result is whatever `erf_inv_impl` returns -/
theorem erf_inv_interior (impl : Rat → XF) (z : Rat) (h0 : z ≠ 0) (h1 : -1 < z) (h2 : z < 1) :
    erfInv impl (.fin z) = impl z := by
  have a : ¬ (1 ≤ z) := by linarith
  have b : ¬ (z ≤ -1) := by linarith
  simp [erfInv, h0, a, b]

/-- the Wilson bound handed to `erf_inv` by taiko `compute_deviation_upper_bound` under its guard
(`n300 ≥ 1`, so `p = n300/n ∈ (0, 1]`) and by osu! `calculate_deviation` whenever `p > 0`: strictly
inside (0, 1) — over every linear ordered field, the square root being any non-negative root -/
theorem wilson_bound_mem_Ioo {K : Type} [Field K] [LinearOrder K] [IsStrictOrderedRing K]
    (n p z sq : K) (hn : 0 < n) (hp0 : 0 < p) (hp1 : p ≤ 1) (hz : 0 < z)
    (hsq0 : 0 ≤ sq) (hsq : sq * sq = n * p * (1 - p) + z * z / 4) :
    0 < pLowerK n p z sq ∧ pLowerK n p z sq < 1 :=
  pLowerK_mem_Ioo n p z sq hn hp0 hp1 hz hsq0 hsq

/-- dropping the `n300 == 0` guard: `p = 0` gives exactly 0, i.e. a division by `erf_inv(0) = 0` -/
theorem wilson_bound_zero_without_guard {K : Type} [Field K] [LinearOrder K] [IsStrictOrderedRing K]
    (n z : K) (hn : 0 < n) (hz : 0 < z) : pLowerK n 0 z (z / 2) = 0 :=
  pLowerK_zero_at_p0 n z (by positivity)

/-- the ℚ model is the `K = ℚ` instance; a state with all greats has the rational root `z/2` -/
example : pLowerBound 10 1 2 1 = 5 / 7 ∧ (1 : Rat) * 1 = wilsonRadicand 10 1 2 := by decide +kernel

/-- taiko, code as written: a value is returned only with `n300 ≥ 1` and a positive window -/
theorem taiko_deviation_guard (impl : Rat → XF) (s : TaikoState) (ghw pl d : XF) (sqrt2 : Rat)
    (h : taikoDeviation true impl s ghw pl sqrt2 = some d) : 1 ≤ s.n300 ∧ XF.le ghw (.fin 0) = false := by
  unfold taikoDeviation at h
  simp only [if_true] at h
  split at h
  · exact absurd h (by simp)
  · rename_i hg
    simp only [Bool.or_eq_true, decide_eq_true_eq, not_or, Bool.not_eq_true] at hg
    exact ⟨Nat.pos_of_ne_zero hg.1, hg.2⟩

/-- … and under that guard, with `p_lower_bound ∈ (0, 1)` (theorem `wilson_bound_mem_Ioo`) and an
`erf_inv_impl` that is finite and positive there, the deviation is a finite positive number -/
theorem taiko_deviation_finite_pos (impl : Rat → XF) (s : TaikoState) (g q sqrt2 : Rat)
    (hn : 1 ≤ s.n300) (hg : 0 < g) (hq0 : 0 < q) (hq1 : q < 1) (h2 : 0 < sqrt2)
    (himpl : ∃ r, 0 < r ∧ impl q = .fin r) :
    ∃ d, 0 < d ∧ taikoDeviation true impl s (.fin g) (.fin q) sqrt2 = some (.fin d) := by
  obtain ⟨r, hr, hi⟩ := himpl
  refine ⟨g / (sqrt2 * r), by positivity, ?_⟩
  unfold taikoDeviation
  have h0 : s.n300 ≠ 0 := by omega
  have hle : XF.le (.fin g) (.fin 0) = false := by simp [XF.le, hg]
  simp only [if_true, h0, decide_false, hle, Bool.or_self, Bool.false_eq_true, if_false]
  rw [erf_inv_interior impl q hq0.ne' (by linarith) hq1, hi]
  have : sqrt2 * r ≠ 0 := by positivity
  simp [XF.mul, XF.div, this]

/-- the weakened guard `total_successful_hits() == 0`: a state with `n300 = 0`, `n100 ≥ 1` passes,
`p = 0`, the bound is 0 (theorem above), `erf_inv(0) = 0`, and `great_hit_window / 0 = +∞` -/
theorem taiko_weak_guard_gives_infinity :
    taikoDeviation false (fun _ => .fin 1) ⟨0, 0, 1, 0⟩ (.fin 20) (.fin 0) (141421 / 100000) = some .pinf := by
  decide +kernel

/-- the code's guard rejects the same state -/
theorem taiko_guard_rejects_n300_zero (impl : Rat → XF) (s : TaikoState) (ghw pl : XF) (sqrt2 : Rat)
    (h : s.n300 = 0) : taikoDeviation true impl s ghw pl sqrt2 = none := by
  unfold taikoDeviation; simp [h]

/-- osu! `calculate_deviation`: `p_lower_bound == 0.0` rescues the division by `erf_inv(0) = 0`:
whatever NaN/∞ the formulas produced, the limit value is used -/
theorem osu_deviation_plb_zero_uses_limit (rv dev limit : XF) :
    osuDeviationSelect (.fin 0) rv dev limit = limit := by
  unfold osuDeviationSelect XF.ieeeEq XF.le
  simp

/-- a finite deviation never exceeds the limit value after the selection -/
theorem osu_deviation_le_limit (plb rv : XF) (d l : Rat) :
    ∃ r, osuDeviationSelect plb rv (.fin d) (.fin l) = .fin r ∧ r ≤ l := by
  unfold osuDeviationSelect
  split_ifs with h
  · exact ⟨l, rfl, le_refl _⟩
  · refine ⟨d, rfl, ?_⟩
    simp only [Bool.or_eq_true, not_or, Bool.not_eq_true] at h
    have h3 := h.2
    unfold XF.lt XF.le at h3
    simp only [Bool.and_eq_false_iff, decide_eq_false_iff_not, not_le, Bool.not_eq_false', decide_eq_true_eq] at h3
    rcases h3 with h3 | h3
    · linarith
    · exact h3

/-- the selection does NOT catch NaN: with `p_lower_bound ≠ 0` a NaN deviation (e.g. from a zero
`great_hit_window`: `0/x = 0`, `ok/0 = ∞`, `exp(−∞)/(0·1) = 0/0`) passes all three comparisons.
The hypothesis the finiteness of `speed_deviation` relies on — `great_hit_window > 0` — holds for
OD ≤ 11 and clock rate ≤ 2 (window ≥ 7 ms) and is checked on the implementation. -/
theorem osu_deviation_nan_escapes : osuDeviationSelect (.fin (1 / 2)) .nan .nan (.fin 50) = .nan := by
  decide +kernel

theorem osu_speed_deviation_none_without_hits (s : OsuState) (g o m : Rat) (h : s.n300 + s.n100 + s.n50 = 0) :
    osuSpeedDeviationIsSome s g o m = false := by
  unfold osuSpeedDeviationIsSome; rw [if_pos h]

/-- the divisor `great + ok + meh` of the final variance is strictly positive whenever a value is returned -/
theorem osu_deviation_divisor_pos (g o m : Rat) (h : osuDeviationIsSome g o m = true) : 0 < g + o + m := by
  unfold osuDeviationIsSome at h
  simpa using h

/-! ## 7. zero hits ⇒ zero pp (decision logic of the four `calculate` functions) -/

/-- osu!: the early return makes the result independent of everything else (even NaN attributes) -/
theorem osu_zero_hits_zero_pp (s : OsuState) (rest : XF) (h : s.totalHits = 0) : osuPP s rest = .fin 0 := by
  unfold osuPP; rw [if_pos h]

/-- without the early return the result is whatever the formulas give — e.g. NaN -/
theorem osu_early_return_needed : osuPP ⟨0, 0, 0, 0, 0, 0, 0, 1⟩ .nan = .nan := by decide +kernel

/-- taiko: `n300 = 0` (in particular zero hits) ⇒ no deviation ⇒ both components take their early
returns ⇒ pp = pow(pow(0)+pow(0))·multiplier = 0.  The ONLY facts used: `powf(0, 1.1) = 0`,
`powf(0, 1/1.1) = 0`, the multiplier is a finite literal.  No attribute is read on this path. -/
theorem taiko_zero_hits_zero_pp (p11 pInv : PowFn) (h11 : p11 (.fin 0) = .fin 0) (hInv : pInv (.fin 0) = .fin 0)
    (impl : Rat → XF) (s : TaikoState) (ghw pl : XF) (sqrt2 : Rat) (diffBody accBody : XF → XF) (m : Rat)
    (h : s.n300 = 0) :
    let out := taikoCalculate p11 pInv s ghw (taikoDeviation true impl s ghw pl sqrt2) diffBody accBody m
    out.pp = .fin 0 ∧ out.ppAcc = .fin 0 ∧ out.ppDifficulty = .fin 0 ∧ out.estimatedUnstableRate = none := by
  rw [taiko_guard_rejects_n300_zero impl s ghw pl sqrt2 h]
  unfold taikoCalculate
  simp only [Option.map_none]
  refine ⟨?_, ?_, trivial, trivial⟩
  · have hacc : (if XF.le ghw (.fin 0) = true then XF.fin 0 else XF.fin 0) = XF.fin 0 := by split_ifs <;> rfl
    rw [hacc, h11]
    show XF.mul (pInv (XF.add (.fin 0) (.fin 0))) (.fin m) = .fin 0
    have : XF.add (.fin 0) (.fin 0) = .fin 0 := by simp [XF.add]
    rw [this, hInv]; simp [XF.mul]
  · split_ifs <;> rfl

/-- taiko: a non-positive great hit window (not reachable for OD ≤ 11, rate ≤ 2) also forces all
three values to 0 through the same early returns — never NaN -/
theorem taiko_nonpositive_window_zero_pp (p11 pInv : PowFn) (h11 : p11 (.fin 0) = .fin 0) (hInv : pInv (.fin 0) = .fin 0)
    (impl : Rat → XF) (s : TaikoState) (ghw pl : XF) (sqrt2 : Rat) (diffBody accBody : XF → XF) (m : Rat)
    (h : XF.le ghw (.fin 0) = true) :
    let out := taikoCalculate p11 pInv s ghw (taikoDeviation true impl s ghw pl sqrt2) diffBody accBody m
    out.pp = .fin 0 ∧ out.ppAcc = .fin 0 ∧ out.ppDifficulty = .fin 0 ∧ out.estimatedUnstableRate = none := by
  have hd : taikoDeviation true impl s ghw pl sqrt2 = none := by
    unfold taikoDeviation; simp [h]
  rw [hd]
  unfold taikoCalculate
  simp only [Option.map_none, h, if_true]
  refine ⟨?_, trivial, trivial, trivial⟩
  rw [h11]
  have : XF.add (.fin 0) (.fin 0) = .fin 0 := by simp [XF.add]
  rw [this, hInv]; simp [XF.mul]

/-- taiko: zero hits also give effective miss count 0 -/
theorem taiko_zero_hits_emc (p11 pInv : PowFn) (s : TaikoState) (ghw : XF) (dev : Option XF)
    (diffBody accBody : XF → XF) (m : Rat) (h : s.totalHits = 0) :
    (taikoCalculate p11 pInv s ghw dev diffBody accBody m).effectiveMissCount = .fin 0 := by
  unfold TaikoState.totalHits at h
  have : s.n300 + s.n100 = 0 := by omega
  unfold taikoCalculate; simp [this]

/-- with the weakened guard the same skeleton reports an infinite unstable rate -/
theorem taiko_weak_guard_breaks_finiteness :
    (taikoCalculate id id ⟨0, 0, 1, 0⟩ (.fin 20)
      (taikoDeviation false (fun _ => .fin 1) ⟨0, 0, 1, 0⟩ (.fin 20) (.fin 0) (141421 / 100000))
      (fun _ => .fin 0) (fun _ => .fin 0) 1).estimatedUnstableRate = some .pinf := by decide +kernel

/-- catch: zero hits ⇒ accuracy 0 ⇒ the running product is multiplied by `0^5.5 = 0`.  This is
`x * 0.0`, which is 0 only if `x` is finite: the result is 0 **iff** the product of the factors
before the accuracy factor is finite (and the NF factor is) — otherwise it is NaN. -/
theorem catch_zero_hits_zero_pp_iff (p55 : Rat → XF) (h55 : p55 0 = .fin 0) (s : CatchState) (f : CatchFactors)
    (h : s.totalHits = 0) (hnf : f.nf.isFinite = true) :
    catchPP p55 s f = (if f.before.isFinite then .fin 0 else .nan) := by
  have hacc : s.accuracy = 0 := by unfold CatchState.accuracy; rw [if_pos h]
  unfold catchPP
  rw [hacc, h55, XF.mul_fin_zero]
  obtain ⟨r, hr⟩ := XF.isFinite_iff.mp hnf
  rw [hr]
  split_ifs
  · exact XF.fin_zero_mul_fin r
  · rfl

/-- … so with every factor finite (checked on the implementation: `stars`, `ar` finite) pp = 0 -/
theorem catch_zero_hits_zero_pp (p55 : Rat → XF) (h55 : p55 0 = .fin 0) (s : CatchState) (f : CatchFactors)
    (h : s.totalHits = 0) (hf : f.allFinite = true) : catchPP p55 s f = .fin 0 := by
  unfold CatchFactors.allFinite at hf
  simp only [Bool.and_eq_true] at hf
  obtain ⟨⟨⟨⟨⟨⟨⟨h1, h2⟩, h3⟩, h4⟩, h5⟩, h6⟩, h7⟩, h8⟩ := hf
  have hb : f.before.isFinite = true := by
    unfold CatchFactors.before
    exact XF.mul_finite (XF.mul_finite (XF.mul_finite (XF.mul_finite (XF.mul_finite (XF.mul_finite h1 h2) h3) h4) h5) h6) h7
  rw [catch_zero_hits_zero_pp_iff p55 h55 s f h h8, hb]; rfl

/-- the finiteness hypothesis is necessary: an infinite star rating turns the zero-hit pp into NaN -/
theorem catch_zero_hits_needs_finite_stars :
    catchPP (fun q => .fin q) ⟨0, 0, 0, 0, 0, 0⟩ ⟨.pinf, .fin 1, .fin 1, .fin 1, .fin 1, .fin 1, .fin 1, .fin 1⟩ = .nan := by
  decide +kernel

/-- mania: zero hits ⇒ custom accuracy 0 ⇒ `max(0, 5·0 − 4) = 0`; `8·powf(…)·0` is 0 iff the
star term is finite -/
theorem mania_zero_hits_zero_pp (s : ManiaState) (starPow : XF) (m : Rat) (h : s.totalHits = 0)
    (hfin : starPow.isFinite = true) : maniaPP s starPow m = (.fin 0, .fin 0) := by
  obtain ⟨q, rfl⟩ := XF.isFinite_iff.mp hfin
  have hc : s.customAccuracy = 0 := by unfold ManiaState.customAccuracy; rw [if_pos h]
  unfold maniaPP
  simp only [hc, XF.mul]
  have : qmax 0 (5 * 0 - 4) = 0 := by unfold qmax; norm_num
  rw [this]; simp

theorem mania_zero_hits_needs_finite_stars : maniaPP ⟨0, 0, 0, 0, 0, 0⟩ .pinf 1 = (.nan, .nan) := by decide +kernel

/-- what reaches `powf` in mania: a NaN star rating is absorbed by `f64::max(NaN, 0.05) = 0.05`,
`+∞` is not -/
theorem mania_star_arg_nan : maniaStarArg .nan = .fin (1 / 20) := by decide +kernel
theorem mania_star_arg_inf : maniaStarArg .pinf = .pinf := by decide +kernel
theorem mania_star_arg_ge (q : Rat) : ∃ r, maniaStarArg (.fin q) = .fin r ∧ 1 / 20 ≤ r := by
  unfold maniaStarArg XF.sub XF.neg XF.add XF.max XF.le
  simp only
  split_ifs with hc
  · exact ⟨_, rfl, le_refl _⟩
  · refine ⟨_, rfl, ?_⟩
    simp only [decide_eq_true_eq, not_le] at hc
    linarith

/-! ## 8. star-rating guard skeletons -/

theorem osu_star_rating_nonneg (cb : Rat → Rat) (hcb : ∀ x, 0 ≤ x → 0 ≤ cb x) (c : Rat) (hc : 0 ≤ c) (bp : Rat) :
    0 ≤ osuStarRating cb c bp := by
  unfold osuStarRating
  split_ifs with h
  · have : 0 ≤ cb bp := hcb bp (by linarith)
    have : 0 ≤ cb bp + 4 := by linarith
    positivity
  · exact le_refl _

/-- below the threshold (including 0, negative and — in the code — NaN) the star rating is exactly 0 -/
theorem osu_star_rating_zero_below (cb : Rat → Rat) (c bp : Rat) (h : bp ≤ 1 / 100000) : osuStarRating cb c bp = 0 := by
  unfold osuStarRating; rw [if_neg (not_lt.mpr h)]

theorem osu_slider_factor_defined (aim noSliders : Rat) : (osuSliderFactor aim noSliders).isSome = true := by
  unfold osuSliderFactor
  split_ifs with h
  · rw [cdiv_isSome]; exact h.ne'
  · rfl

theorem osu_slider_factor_nonneg (aim noSliders r : Rat) (h0 : 0 ≤ noSliders) (h : osuSliderFactor aim noSliders = some r) :
    0 ≤ r := by
  unfold osuSliderFactor at h
  split_ifs at h with ha
  · unfold cdiv at h
    rw [if_neg ha.ne'] at h
    injection h with h; rw [← h]; positivity
  · injection h with h; rw [← h]; exact zero_le_one

theorem taiko_mono_stamina_factor_defined (stamina mono : Rat) : (taikoMonoStaminaFactor stamina mono).isSome = true := by
  unfold taikoMonoStaminaFactor
  split_ifs with h
  · rw [Option.isSome_map, cdiv_isSome]
    intro h0
    rw [h0] at h
    unfold qabs f64Eps at h
    norm_num at h
  · rfl

/-- `rescale` is non-negative on non-negative input as soon as `ln ≥ 0` on `[1, ∞)` … -/
theorem taiko_rescale_nonneg (ln : Rat → Rat) (hln : ∀ x, 1 ≤ x → 0 ≤ ln x) (stars : Rat) (h : 0 ≤ stars) :
    0 ≤ taikoRescale ln stars := by
  unfold taikoRescale
  rw [if_neg (not_lt.mpr h)]
  have : 0 ≤ ln (stars / 8 + 1) := hln _ (by linarith)
  positivity

/-- … but the `stars < 0` branch only protects `ln`'s domain: a negative input is passed through -/
theorem taiko_rescale_passes_negative (ln : Rat → Rat) : taikoRescale ln (-1) = -1 := by
  unfold taikoRescale; norm_num

theorem taiko_strain_length_bonus_mem (a b : Rat) :
    1 ≤ taikoStrainLengthBonus a b ∧ taikoStrainLengthBonus a b ≤ 6 / 5 := by
  unfold taikoStrainLengthBonus
  simp only [qmin_eq_min, qmax_eq_max]
  have h1 : 0 ≤ min (max ((a - 1000) / 3700) 0) (3 / 20) := le_min (le_max_right _ _) (by norm_num)
  have h2 : 0 ≤ min (max ((b - 7) / 1) 0) (1 / 20) := le_min (le_max_right _ _) (by norm_num)
  have h3 : min (max ((a - 1000) / 3700) 0) (3 / 20) ≤ 3 / 20 := min_le_right _ _
  have h4 : min (max ((b - 7) / 1) 0) (1 / 20) ≤ 1 / 20 := min_le_right _ _
  constructor <;> linarith

/-- `ratio.is_normal()` validation: whatever comes in (NaN, ±∞, 0), a finite number goes on -/
theorem validated_ratio_finite (ratio : XF) : (validatedRatio ratio).isFinite = true := by
  cases ratio <;> simp [validatedRatio, XF.isNormal, XF.isFinite]
  split_ifs <;> rfl

/-- for a non-negative validated ratio the divisor `1 + ratio` is at least 1: the term is finite -/
theorem ratio_term_finite (terms : Rat) (ratio : XF) (h : XF.le (.fin 0) (validatedRatio ratio) = true) :
    (ratioTerm terms ratio).isFinite = true := by
  obtain ⟨q, hq⟩ := XF.isFinite_iff.mp (validated_ratio_finite ratio)
  unfold ratioTerm
  rw [hq] at h ⊢
  simp only [XF.le, decide_eq_true_eq] at h
  have : (1 : Rat) + q ≠ 0 := by linarith
  simp [XF.add, XF.div, this, XF.isFinite]

/-- the validation does not exclude `ratio = −1`, where `terms / (1 + ratio)` divides by zero -/
theorem ratio_guard_misses_minus_one : ratioTerm 8 (.fin (-1)) = .pinf := by decide +kernel

theorem combo_scaling_mem (pw : Nat → Rat) (hpw : ∀ n, 0 < n → 0 < pw n) (hpw0 : ∀ n, 0 ≤ pw n) (c m : Nat) :
    ∃ r, comboScaling pw c m = some r ∧ 0 ≤ r ∧ r ≤ 1 := by
  unfold comboScaling
  split_ifs with h
  · exact ⟨1, rfl, zero_le_one, le_refl _⟩
  · have hm : 0 < pw m := hpw m (Nat.pos_of_ne_zero h)
    refine ⟨qmin (pw c / pw m) 1, by unfold cdiv; rw [if_neg hm.ne']; rfl, ?_, ?_⟩
    · rw [qmin_eq_min]; exact le_min (div_nonneg (hpw0 c) hm.le) zero_le_one
    · rw [qmin_eq_min]; exact min_le_right _ _

end Rosu.Finite
