import RosuModel.Lemmas.ManiaSkillReal
import RosuModel.Lemmas.CatchSkillReal
import RosuModel.Lemmas.CatchSkill
import RosuModel.Lemmas.SkillSim
import RosuModel.Lemmas.AggregateField
import RosuModel.Lemmas.Aggregate
import RosuModel.Props.C16Agg

/-!
# C16 / C09 — osu!mania and osu!catch from objects to stars, with concrete strain evaluators

Models: `Model/ManiaSkill.lean`, `Model/CatchSkill.lean` (generic in the arithmetic `FOps`),
plugged into the value-level section loop of `Model/SkillOps.lean` and the aggregation of
`Model/Aggregate.lean`.  The compiled driver runs exactly these definitions with IEEE doubles /
singles (`Model/SkillWire.lean`, requests `MSKILL` / `CSKILL`) and the output — per-object strains,
hyper-dash flags and distances, exported peaks, difficulty value, stars — is compared bit for bit
with /repo on every run.

The theorems below are about the instance over ℝ (`Lemmas/SkillOpsReal.lean`: the real-number
reading of `f64` / `f32`, `powf = Real.rpow`, `exp = Real.exp`, casts = identity) except where a
statement says "every arithmetic".  No abstract strain evaluator is left in any hypothesis.
-/

namespace Rosu.C16c
open Rosu.SkillOps
open Rosu.Skill (Obj)

/-! ## osu!mania -/

section Mania
open Rosu.ManiaSkill

/-- **(a) osu!mania: safe and non-negative, for every object list.**  For every list of
`ManiaObject`s whose columns are `< total_columns` (C19: `mania_columns_in_range`), every clock
rate, every `passed_objects`, every section arithmetic and fuel: the calculation never panics
(every index into the per-column arrays is in bounds) and, when the section loop ends, every
per-object strain is `≥ 3` (in particular `≥ 0`), every stored section peak and the open
section's peak are `≥ 0`, `StrainsVec::push` alters none of them (the exported vector is the stored
peaks plus the open section), and the difficulty value and the star rating are `≥ 0`. -/
theorem mania_skill_safe_nonneg (A : SecArith ℝ) (fuel : Nat) (clockRate : ℝ) (cols take : Nat)
    (objs : List (MObj ℝ)) (hcol : ∀ o ∈ objs, o.column < cols) :
    calculate A fuel clockRate cols take objs ≠ .panic ∧
    ∀ st, calculate A fuel clockRate cols take objs = .ok st →
      (∀ v ∈ st.objectStrains, 3 ≤ v) ∧ (∀ p ∈ st.peaks, 0 ≤ p) ∧ 0 ≤ st.sectionPeak ∧
      exportPeaksV st = st.peaks ++ [st.sectionPeak] ∧ (∀ p ∈ exportPeaksV st, 0 ≤ p) ∧
      0 ≤ difficultyValueOf st ∧ 0 ≤ starsOf st := by
  have hobjs : ∀ d ∈ createDifficultyObjects clockRate (objs.take take), ObjOK cols d :=
    createDifficultyObjects_ok cols clockRate _ (fun o ho => hcol o (List.mem_of_mem_take ho))
  have h0 : StateOK (Inv cols) (fun v : ℝ => 0 ≤ v) (fun v : ℝ => 3 ≤ v)
      (StateV.init (0.0 : ℝ) (St.new cols)) :=
    init_ok _ _ (by rw [r_lit]; norm_num) (new_inv cols)
  have hmax : ∀ a b : ℝ, 0 ≤ a → 0 ≤ b → 0 ≤ FOps.fmax a b := fun a b ha _ => le_max_of_le_left ha
  refine ⟨processAllV_no_panic A FOps.fmax fns (fns_ok cols) hmax (fns_safe cols) fuel _ _ hobjs h0, ?_⟩
  intro st hst
  have hok := processAllV_inv A FOps.fmax fns (fns_ok cols) hmax fuel _ _ st hobjs h0 hst
  have hexp : exportPeaksV st = st.peaks ++ [st.sectionPeak] :=
    exportPeaksV_of_nonneg hok.peaks hok.sectionPeak
  have hall : ∀ p ∈ exportPeaksV st, 0 ≤ p := by
    rw [hexp]
    intro p hp
    simp only [List.mem_append, List.mem_singleton] at hp
    rcases hp with hp | hp
    · exact hok.peaks p hp
    · subst hp; exact hok.sectionPeak
  have hdv : 0 ≤ difficultyValueOf st := by
    unfold difficultyValueOf
    rw [aggOps_real]
    exact Rosu.Agg.difficultyValue_nonneg (by simp only [decayWeight, r_lit]; norm_num) hall
  refine ⟨hok.objectStrains, hok.peaks, hok.sectionPeak, hexp, hall, hdv, ?_⟩
  unfold starsOf
  rw [r_mul]
  exact mul_nonneg hdv (by simp only [difficultyMultiplier, r_lit]; norm_num)

/-- **(b) osu!mania ranges.**  `logistic` (the release-threshold curve behind `hold_addition`)
never divides by zero and lies strictly between 0 and 1; a decayed strain
`value · base^(Δt/1000)` with `0 < base ≤ 1` (0.125, 0.3) and `Δt ≥ 0` lies in `[0, value]`, the
decay factor itself in `(0, 1]`; on a list sorted by start time (what the decoder guarantees, C06)
with a positive clock rate every `delta_time` is `≥ 0`. -/
theorem mania_ranges :
    (∀ x m k : ℝ, 1 + Real.exp (k * (m - x)) ≠ 0 ∧ 0 < logistic x m k ∧ logistic x m k < 1) ∧
    (∀ base ms : ℝ, 0 < base → base ≤ 1 → 0 ≤ ms →
      0 < strainDecay ms base ∧ strainDecay ms base ≤ 1) ∧
    (∀ v d : ℝ, 0 ≤ v → 0 ≤ d →
      0 ≤ applyDecay v d individualDecayBase ∧ applyDecay v d individualDecayBase ≤ v ∧
      0 ≤ applyDecay v d overallDecayBase ∧ applyDecay v d overallDecayBase ≤ v) ∧
    (∀ (rate : ℝ) (objs : List (MObj ℝ)), 0 < rate →
      List.Pairwise (fun a b : MObj ℝ => a.startTime ≤ b.startTime) objs →
      ∀ d ∈ createDifficultyObjects rate objs, 0 ≤ d.data.deltaTime) := by
  refine ⟨logistic_mem_Ioo, ?_, ?_, ?_⟩
  · intro base ms hb hb1 hms
    rw [strainDecay_real]
    exact decay_mem_Ioc hb hb1 hms
  · intro v d hv hd
    have hi : (0 : ℝ) < individualDecayBase ∧ (individualDecayBase : ℝ) ≤ 1 := by
      rw [individualDecayBase_real]; constructor <;> norm_num
    have ho : (0 : ℝ) < overallDecayBase ∧ (overallDecayBase : ℝ) ≤ 1 := by
      rw [overallDecayBase_real]; constructor <;> norm_num
    exact ⟨applyDecay_nonneg d hv hi.1.le, applyDecay_le hv hi.1 hi.2 hd,
      applyDecay_nonneg d hv ho.1.le, applyDecay_le hv ho.1 ho.2 hd⟩
  · intro rate objs hr hs d hd
    cases objs with
    | nil => simp [createDifficultyObjects] at hd
    | cons f rest =>
      simp only [createDifficultyObjects] at hd
      exact scanObjects_delta_nonneg hr rest f 0 _ hs d hd

/-- **(c) osu!mania: stars from the exported peaks.**  Value level (ℝ): the star rating is
`difficulty_value(exported peaks, 0.9) · 0.018` with the ordered-field aggregation of
`Props/C16Agg.lean`, and the exported peaks are exactly the stored peaks plus the open section. -/
theorem mania_stars_from_peaks (st : StateV ℝ (St ℝ)) (hp : ∀ p ∈ st.peaks, 0 ≤ p)
    (hs : 0 ≤ st.sectionPeak) :
    starsOf st = Rosu.Agg.difficultyValue (Rosu.Agg.fieldOps ℝ) 0.9 (st.peaks ++ [st.sectionPeak]) * 0.018 := by
  unfold starsOf difficultyValueOf
  rw [aggOps_real, exportPeaksV_of_nonneg hp hs]
  simp only [decayWeight, difficultyMultiplier, r_mul, r_lit]

/-- non-vacuity: three notes in two columns (a chord and a later note), clock rate 1 — the run
succeeds under the theorem's hypotheses. -/
example : ∀ o ∈ ([⟨0, 0, 0⟩, ⟨0, 300, 1⟩, ⟨500, 500, 0⟩] : List (MObj ℝ)), o.column < 2 := by
  intro o ho
  simp only [List.mem_cons, List.not_mem_nil, or_false] at ho
  rcases ho with rfl | rfl | rfl <;> decide

end Mania

/-! ## every arithmetic: bit-level composition with `Props/C16Agg.lean`, locality -/

section Generic
open Rosu.SV Rosu.Agg

variable {R P σ : Type}

/-- **(c) the concrete skills as instances of the abstract section loop.**  For every arithmetic
`R` with an encoding of strain values as 64-bit patterns (`f64::to_bits`), every concrete skill
`F` (in particular `ManiaSkill.fns`, `CatchSkill.fns`): the state `Skill.processAll` reaches over
the encoded strain functions is well-formed, its exported vector exists, and the value
`difficulty_value` computes on the internal compact `StrainsVec` equals `difficultyValue` of the
exported vector (`Props/C16Agg.lean`, `exported_peaks_determine_difficulty_value`) — the mania
stars `· 0.018` and the catch stars `sqrt(·) · 4.59` are therefore functions of the exported
peaks with no abstract evaluator left. -/
theorem concrete_skill_stars_from_exported_peaks (E : Enc R) (hE : ∀ x, E.enc x < TWO64)
    (A : SecArith R) (fmax : R → R → R) (F : FnsV R P σ) (add mul : Nat → Nat → Nat)
    (pos : Nat → Bool) (z o decay : Nat) (fuel : Nat) (zero : R) (s0 : σ) (os : List (Obj R P))
    (st : Skill.State R (Option σ))
    (h : Skill.processAll (encArith E A fmax) (encFns E F) fuel (Skill.State.init zero (some s0)) os = some st)
    (hl : st.peaks.len + 1 < SIGN) :
    ∃ v, Skill.exportPeaks st = some v ∧ v.length = st.peaks.len + 1 ∧
      difficultyValueInternal (bitOps add mul pos z o) decay (Skill.currentStrainPeaks st)
        = difficultyValue (bitOps add mul pos z o) decay v := by
  have hg := Skill.processAll_good _ _ (encFns_bounded E hE A fmax F) fuel os _ st h hl
    (Skill.init_good zero (some s0))
  obtain ⟨v, hv, he⟩ := exported_peaks_determine_difficulty_value add mul pos z o decay st hg hl
  obtain ⟨e1, e2, _⟩ := Skill.exportPeaks_spec hg hl
  refine ⟨v, hv, ?_, he⟩
  rw [e1] at hv
  cases hv
  exact e2

/-- **The value-level loop and the bit-level loop run in lock step, every arithmetic.**  The
real-number theorems above are about `processAllV` (strains as numbers, peaks as a plain list);
`Props/C16.lean` / `Props/C16Agg.lean` are about `Skill.processAll` (strains as 64-bit patterns,
peaks in the compact `StrainsVec`).  For every arithmetic with an encoding `enc` (`f64::to_bits`)
such that `dec ∘ enc = id`, patterns are `< 2^64`, `enc 0.0 = 0` and `enc` commutes with
`StrainsVec::push`'s canonicalisation: whenever the value-level run of a concrete skill ends `ok`,
the bit-level run over `encFns` ends too, did not panic, exports exactly the encoding of
`exportPeaksV`, and stored the encoded object strains. -/
theorem value_level_loop_refines_bit_level [FOps R] (E : Enc R) (hdec : ∀ x, E.dec (E.enc x) = x)
    (hE : ∀ x, E.enc x < TWO64) (hcanon : ∀ x, canon (E.enc x) = E.enc (pushCanon x))
    (A : SecArith R) (fmax : R → R → R) (F : FnsV R P σ) (fuel : Nat) (zero : R)
    (hz : E.enc zero = 0) (s0 : σ) (os : List (Obj R P)) (sv : StateV R σ)
    (h : processAllV A fmax F fuel (StateV.init zero s0) os = .ok sv)
    (hl : sv.peaks.length + 1 < SIGN) :
    ∃ sb, Skill.processAll (encArith E A fmax) (encFns E F) fuel (Skill.State.init zero (some s0)) os = some sb ∧
      sb.sk = some sv.sk ∧ Skill.exportPeaks sb = some ((exportPeaksV sv).map E.enc) ∧
      sb.objectStrains = sv.objectStrains.map E.enc := by
  have := processAll_sim E hdec A fmax F fuel os _ _ (rel_init E zero s0 hz)
  rw [h] at this
  obtain ⟨sb, e, r⟩ := this
  exact ⟨sb, e, r.sk, exportPeaks_of_rel E hE hcanon r hl, r.objs⟩

/-- **(d) locality, every arithmetic, every concrete skill.**  The strain of object `i` depends
only on objects `≤ i`: if the run over `os₁ ++ os₂` succeeds, the run over `os₁` succeeds and
yields the first `os₁.length` object strains of the long run. -/
theorem strain_depends_only_on_earlier_objects [FOps R] (A : SecArith R) (fmax : R → R → R)
    (F : FnsV R P σ) (fuel : Nat) (s0 : StateV R σ) (os₁ os₂ : List (Obj R P)) (st : StateV R σ)
    (h : processAllV A fmax F fuel s0 (os₁ ++ os₂) = .ok st) :
    ∃ st₁ vs, processAllV A fmax F fuel s0 os₁ = .ok st₁ ∧ vs.length = os₂.length ∧
      st.objectStrains = st₁.objectStrains ++ vs := by
  rw [processAllV_append] at h
  cases h1 : processAllV A fmax F fuel s0 os₁ with
  | ok st₁ =>
    rw [h1] at h
    simp only [Res.bind] at h
    obtain ⟨vs, hl, hv⟩ := processAllV_prefix A fmax F fuel os₂ st₁ st h
    exact ⟨st₁, vs, rfl, hl, hv⟩
  | panic => rw [h1] at h; cases h
  | fuel => rw [h1] at h; cases h

end Generic

/-! ## osu!catch -/

section Catch
open Rosu.CatchSkill

/-- **(a) osu!catch: safe and non-negative, for every object list.**  For every list of palpable
objects (any positions, offsets and times), every `cs`, every clock rate `> 0`, every
`passed_objects`, every section arithmetic and fuel: neither `clamp` assertion can fire
(`initialize_hyper_dash`: `0 ≤ half_catcher_width`; `strain_value_of`: bounds `pos ∓ 25`), so the
calculation never panics; `initialize_hyper_dash` returns as many objects as it received; when
the section loop ends every per-object strain, every stored peak and the open section's peak are
`≥ 0`, `StrainsVec::push` alters none of them, and difficulty value and stars are `≥ 0`. -/
theorem catch_skill_safe_nonneg (A : SecArith ℝ) (fuel : Nat) (clockRate cs : ℝ)
    (hcr : 0 < clockRate) (take : Nat) (objs : List (Palpable ℝ ℝ)) :
    calculate realCasts A fuel clockRate cs take objs ≠ .panic ∧
    ∀ pal st, calculate realCasts A fuel clockRate cs take objs = .ok (pal, st) →
      pal.length = objs.length ∧
      (∀ v ∈ st.objectStrains, 0 ≤ v) ∧ (∀ p ∈ st.peaks, 0 ≤ p) ∧ 0 ≤ st.sectionPeak ∧
      exportPeaksV st = st.peaks ++ [st.sectionPeak] ∧ (∀ p ∈ exportPeaksV st, 0 ≤ p) ∧
      0 ≤ difficultyValueOf st ∧ 0 ≤ starsOf st := by
  obtain ⟨palpable, hpal, hlen⟩ := initializeHyperDash_some cs objs
  have hobjs : ∀ d ∈ createDifficultyObjects clockRate (halfCatcherWidth realCasts cs) (palpable.take take),
      ObjOK d := createDifficultyObjects_ok _ _ _
  have h0 : StateOK Inv (fun v : ℝ => 0 ≤ v) (fun v : ℝ => 0 ≤ v)
      (StateV.init (0.0 : ℝ) (St.new : St ℝ ℝ)) :=
    init_ok _ _ (by rw [r_lit]; norm_num) new_inv
  have hmax : ∀ a b : ℝ, 0 ≤ a → 0 ≤ b → 0 ≤ FOps.fmax a b := fun a b ha _ => le_max_of_le_left ha
  have hF := fns_ok (halfCatcherWidth realCasts cs) hcr
  unfold calculate
  simp only [hpal]
  constructor
  · intro h
    have := processAllV_no_panic A FOps.fmax _ hF hmax (fns_safe _ hcr) fuel _ _ hobjs h0
    cases hp : processAllV A FOps.fmax (fns realCasts (halfCatcherWidth realCasts cs) clockRate) fuel
        (StateV.init 0.0 St.new)
        (createDifficultyObjects clockRate (halfCatcherWidth realCasts cs) (palpable.take take)) with
    | ok st => rw [hp] at h; simp [Res.bind] at h
    | panic => exact this hp
    | fuel => rw [hp] at h; simp [Res.bind] at h
  · intro pal st h
    cases hp : processAllV A FOps.fmax (fns realCasts (halfCatcherWidth realCasts cs) clockRate) fuel
        (StateV.init 0.0 St.new)
        (createDifficultyObjects clockRate (halfCatcherWidth realCasts cs) (palpable.take take)) with
    | panic => rw [hp] at h; simp [Res.bind] at h
    | fuel => rw [hp] at h; simp [Res.bind] at h
    | ok st1 =>
      rw [hp] at h
      simp only [Res.bind, Res.ok.injEq, Prod.mk.injEq] at h
      obtain ⟨rfl, rfl⟩ := h
      have hok := processAllV_inv A FOps.fmax _ hF hmax fuel _ _ st1 hobjs h0 hp
      have hexp : exportPeaksV st1 = st1.peaks ++ [st1.sectionPeak] :=
        exportPeaksV_of_nonneg hok.peaks hok.sectionPeak
      have hall : ∀ p ∈ exportPeaksV st1, 0 ≤ p := by
        rw [hexp]
        intro p hp'
        simp only [List.mem_append, List.mem_singleton] at hp'
        rcases hp' with hp' | hp'
        · exact hok.peaks p hp'
        · subst hp'; exact hok.sectionPeak
      have hdv : 0 ≤ difficultyValueOf st1 := by
        unfold difficultyValueOf
        rw [aggOps_real]
        exact Rosu.Agg.difficultyValue_nonneg (by simp only [decayWeight, r_lit]; norm_num) hall
      refine ⟨hlen, hok.objectStrains, hok.peaks, hok.sectionPeak, hexp, hall, hdv, ?_⟩
      unfold starsOf
      rw [r_mul, r_sqrt]
      exact mul_nonneg (Real.sqrt_nonneg _) (by simp only [difficultyMultiplier, r_lit]; norm_num)

/-- **(b) osu!catch: denominators and radicands.**  `strain_time = max(delta_time, 40) ≥ 40` for
every difficulty object; with a positive clock rate `weighted_strain_time ≥ 53` (the final division
and `sqrt_strain` are safe), `last_strain_time + 16 ≥ 16` for every reachable skill state; for
`cs < 12` (every `cs ∈ [0, 11]`) `half_catcher_width > 0` (`scaling_factor = 41 / half_catcher_width`
is safe); the edge-dash factor is `≥ 1`; the decay factor `0.2^(Δt/1000)` lies in `(0, 1]` for
`Δt ≥ 0`. -/
theorem catch_ranges :
    (∀ (rate hcw : ℝ) (objs : List (Palpable ℝ ℝ)),
      ∀ d ∈ createDifficultyObjects rate hcw objs, 40 ≤ d.data.strainTime) ∧
    (∀ cr st : ℝ, 0 < cr → 40 ≤ st → 53 ≤ weightedStrainTime cr st) ∧
    (∀ s : St ℝ ℝ, Inv s → 16 ≤ s.lastStrainTime + 16) ∧
    (∀ cs : ℝ, cs < 12 → 0 < halfCatcherWidth realCasts cs) ∧
    (∀ e dist st cr : ℝ, 0 ≤ e → dist ≤ 20 → 0 ≤ st * cr → 1 ≤ edgeFactor realCasts e dist st cr) ∧
    (∀ ms : ℝ, 0 ≤ ms → 0 < strainDecay ms (strainDecayBase : ℝ) ∧ strainDecay ms (strainDecayBase : ℝ) ≤ 1) := by
  refine ⟨createDifficultyObjects_ok, fun _ _ h1 h2 => weightedStrainTime_pos h1 h2, ?_,
    fun _ h => halfCatcherWidth_pos h, fun _ _ _ _ h1 h2 h3 => edgeFactor_ge_one h1 h2 h3, ?_⟩
  · intro s hs
    have := hs.lastStrainTime
    linarith
  · intro ms hms
    rw [strainDecay_real, strainDecayBase_real]
    exact decay_mem_Ioc (by norm_num) (by norm_num) hms

/-- **(c) osu!catch: stars from the exported peaks** (value level, ℝ):
`sqrt(difficulty_value(exported peaks, 0.94)) · 4.59`. -/
theorem catch_stars_from_peaks (st : StateV ℝ (St ℝ ℝ)) (hp : ∀ p ∈ st.peaks, 0 ≤ p)
    (hs : 0 ≤ st.sectionPeak) :
    starsOf st
      = Real.sqrt (Rosu.Agg.difficultyValue (Rosu.Agg.fieldOps ℝ) 0.94 (st.peaks ++ [st.sectionPeak])) * 4.59 := by
  unfold starsOf difficultyValueOf
  rw [aggOps_real, exportPeaksV_of_nonneg hp hs]
  simp only [decayWeight, difficultyMultiplier, r_mul, r_sqrt, r_lit]

/-- **(d) gradual = one-shot for osu!catch, every arithmetic** (in particular IEEE): the skill
state of `CatchGradualDifficulty` after `n` objects is the state of the one-shot calculation with
`passed_objects = n`.  Both transcribed paths run `initialize_hyper_dash` on the WHOLE palpable
list, so the hyper-dash fields a prefix reads are identical. -/
theorem catch_gradual_eq_oneshot {F S : Type} [FOps F] [FOps S] (C : Casts F S) (A : SecArith F)
    (fuel : Nat) (rate : F) (cs : S) (n : Nat) (objs : List (Palpable F S)) :
    gradualState C A fuel rate cs n objs
      = (calculate C A fuel rate cs n objs).bind fun r => .ok r.2 :=
  gradualState_eq_calculate C A fuel rate cs n objs

/-- **(d) what object `i` reads from object `i + 1`, every arithmetic.**  `initialize_hyper_dash`
writes `hyper_dash` / `dist_to_hyper_dash` of object `i` from objects `i` and `i + 1` (and the
`last_excess` chain of the objects before): the first `n` results on the whole list are the first
`n` results on the first `n + 1` objects.  Difficulty object `i` (for palpable object `i + 1`)
reads these fields of palpable object `i` only, hence depends on palpable objects `0 ..= i + 1`
and on nothing later. -/
theorem catch_hyper_dash_local {F S : Type} [FOps F] [FOps S] (C : Casts F S) (cs : S)
    (objs : List (Palpable F S)) (n : Nat) (l : List (Palpable F S))
    (h : initializeHyperDash C cs objs = some l) :
    ∃ l', initializeHyperDash C cs (objs.take (n + 1)) = some l' ∧ l'.take n = l.take n :=
  hyperLoop_take C _ objs _ n l h

/-- non-vacuity of the hypotheses of `catch_skill_safe_nonneg` / `catch_ranges`: clock rate 1.5,
`cs = 4 < 12`. -/
example : (0 : ℝ) < 1.5 ∧ (4 : ℝ) < 12 := by constructor <;> norm_num

end Catch

end Rosu.C16c
