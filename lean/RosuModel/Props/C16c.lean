import RosuModel.Lemmas.ManiaSkillReal
import RosuModel.Lemmas.AggregateField
import RosuModel.Lemmas.Aggregate

/-!
# C16 / C09 — osu!mania and osu!catch from objects to stars, with concrete strain evaluators

Models: `Model/ManiaSkill.lean`, `Model/CatchSkill.lean` (generic in the arithmetic `FOps`),
plugged into the value-level section loop of `Model/SkillOps.lean` and the aggregation of
`Model/Aggregate.lean`.  The compiled driver runs exactly these definitions with IEEE doubles /
singles (`Model/SkillWire.lean`, requests `MSKILL` / `CSKILL`) and the output — per-object strains,
hyper-dash flags and distances, exported peaks, difficulty value, stars — is compared bit for bit
with /repo on every run.

The theorems below are about the instance over ℝ (`Lemmas/SkillOpsReal.lean`: the real-number
reading of `f64` / `f32`, `powf = Real.rpow`, `exp = Real.exp`, casts = identity) except where a
statement says "every arithmetic".  No abstract strain evaluator is left in any hypothesis.
-/

namespace Rosu.C16c
open Rosu.SkillOps
open Rosu.Skill (Obj)

/-! ## osu!mania -/

section Mania
open Rosu.ManiaSkill

/-- **(a) osu!mania: safe and non-negative, for every object list.**  For every list of
`ManiaObject`s whose columns are `< total_columns` (C19: `mania_columns_in_range`), every clock
rate, every `passed_objects`, every section arithmetic and fuel: the calculation never panics
(every index into the per-column arrays is in bounds) and, when the section loop ends, every
per-object strain is `≥ 3` (in particular `≥ 0`), every stored section peak and the open
section's peak are `≥ 0`, `StrainsVec::push` alters none of them (the exported vector is the stored
peaks plus the open section), and the difficulty value and the star rating are `≥ 0`. -/
theorem mania_skill_safe_nonneg (A : SecArith ℝ) (fuel : Nat) (clockRate : ℝ) (cols take : Nat)
    (objs : List (MObj ℝ)) (hcol : ∀ o ∈ objs, o.column < cols) :
    calculate A fuel clockRate cols take objs ≠ .panic ∧
    ∀ st, calculate A fuel clockRate cols take objs = .ok st →
      (∀ v ∈ st.objectStrains, 3 ≤ v) ∧ (∀ p ∈ st.peaks, 0 ≤ p) ∧ 0 ≤ st.sectionPeak ∧
      exportPeaksV st = st.peaks ++ [st.sectionPeak] ∧ (∀ p ∈ exportPeaksV st, 0 ≤ p) ∧
      0 ≤ difficultyValueOf st ∧ 0 ≤ starsOf st := by
  have hobjs : ∀ d ∈ createDifficultyObjects clockRate (objs.take take), ObjOK cols d :=
    createDifficultyObjects_ok cols clockRate _ (fun o ho => hcol o (List.mem_of_mem_take ho))
  have h0 : StateOK (Inv cols) (fun v : ℝ => 0 ≤ v) (fun v : ℝ => 3 ≤ v)
      (StateV.init (0.0 : ℝ) (St.new cols)) :=
    init_ok _ _ (by rw [r_lit]; norm_num) (new_inv cols)
  have hmax : ∀ a b : ℝ, 0 ≤ a → 0 ≤ b → 0 ≤ FOps.fmax a b := fun a b ha _ => le_max_of_le_left ha
  refine ⟨processAllV_no_panic A FOps.fmax fns (fns_ok cols) hmax (fns_safe cols) fuel _ _ hobjs h0, ?_⟩
  intro st hst
  have hok := processAllV_inv A FOps.fmax fns (fns_ok cols) hmax fuel _ _ st hobjs h0 hst
  have hexp : exportPeaksV st = st.peaks ++ [st.sectionPeak] :=
    exportPeaksV_of_nonneg hok.peaks hok.sectionPeak
  have hall : ∀ p ∈ exportPeaksV st, 0 ≤ p := by
    rw [hexp]
    intro p hp
    simp only [List.mem_append, List.mem_singleton] at hp
    rcases hp with hp | hp
    · exact hok.peaks p hp
    · subst hp; exact hok.sectionPeak
  have hdv : 0 ≤ difficultyValueOf st := by
    unfold difficultyValueOf
    rw [aggOps_real]
    exact Rosu.Agg.difficultyValue_nonneg (by simp only [decayWeight, r_lit]; norm_num) hall
  refine ⟨hok.objectStrains, hok.peaks, hok.sectionPeak, hexp, hall, hdv, ?_⟩
  unfold starsOf
  rw [r_mul]
  exact mul_nonneg hdv (by simp only [difficultyMultiplier, r_lit]; norm_num)

end Mania

end Rosu.C16c
