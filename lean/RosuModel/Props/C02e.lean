import RosuModel.Lemmas.PipelineCatch
import RosuModel.Props.C14b
import RosuModel.Props.C16c

/-!
# C02 — osu!catch end to end: the gradual value IS the one-shot value, from decoded objects

`Model/PipelineCatch.lean: catchDifficulty` composes, along `catch::difficulty::difficulty`,
`JuiceStream::new` (events of `Model/SliderEvents.lean` + `juiceWalk`), `convert_objects`
(`Model/ConvCatch.lean`: hard-rock offsets with the exact PRNG sequence, sort),
`initialize_hyper_dash` / difficulty objects / `Movement` / stars (`Model/CatchSkill.lean`) and
`ObjectCountBuilder` (`Model/Gradual.lean`).  Tied bit for bit to the real
`Difficulty::calculate` and to the `i`-th value of `CatchGradualDifficulty` by `PIPE catch` lines
(every attribute field).  What stays an input: the x positions of a juice stream's nested
objects and `path.dist()` (rosu-map's curve), the banana count of a spinner, `ar` / `cs` from the
attribute builder (its model is over ℚ), clock rate, `hardrock_offsets`, reflection, `is_convert`.

Cross-references: C14 (`catch_pipeline_counts` composes `C14b.catch_counts_from_raw` /
`catch_fruits_from_raw`), C16 (`catch_pipeline_stars_nonneg` composes `C16c.catch_skill_safe_nonneg`).
-/
namespace Rosu.C02e
open Rosu.PipelineCatch Rosu.Gradual Rosu.SliderEvents Rosu.SkillOps

variable {F S : Type}

/-- **Counts of the pipeline from decoded objects.**  For every `passed_objects = take` the reported
fruits / droplets / tiny droplets are the prefix sums over the gradual records of the raw objects'
record stream, and without an effective limit the fruits are circles + Σ(`span_count + 1`) and the
droplets the tick records — for every arithmetic, given every slider has at least one span. -/
theorem catch_pipeline_counts [FOps F] [FOps S] (C : Casts F S) (A : Arith F)
    (CA : Rosu.ConvCatch.CAr S F) (SA : SecArith F) (fuel : Nat) (start0 : F) (st : Settings F S)
    (take : Nat) (objs : List (PObj F S)) (a : CatchAttrs F)
    (hp : SpansPositive (objs.map toRaw))
    (h : catchDifficulty C A CA SA fuel start0 st take objs = .ok a) :
    ∃ recs, catchMapEvents A fuel (objs.map toRaw) = .ok recs ∧
      (⟨a.nFruits, a.nDroplets, a.nTinyDroplets⟩ : CatchCounts) =
        catchPrefixCounts (catchGradualRecs recs) take ∧
      (catchPalpable recs ≤ take →
        a.nFruits = expectedFruits (objs.map toRaw) ∧ a.nDroplets = dropletCount recs) ∧
      a.ar = st.ar ∧ a.isConvert = st.isConvert := by
  obtain ⟨recs, hr, h1, h2, h3, h4, h5⟩ := catchDifficulty_counts C A CA SA fuel start0 st take objs a h
  refine ⟨recs, hr, ?_, ?_, h4, h5⟩
  · rw [← catch_counts_from_raw A fuel _ recs hr hp take, h1, h2, h3]
  · intro ht
    have := catch_fruits_from_raw A fuel _ recs hr hp take ht
    rw [h1, h2]; exact this

/-- **`catch_pipeline_gradual_eq_oneshot`**: in every arithmetic, for every decoded object list,
settings and index `i`, the attributes after the `i`-th `next()` of the gradual calculator
(counts = first `i` gradual records; skill = `diff_objects[0 .. i-1]` of the WHOLE converted map,
hyper dashes initialised on the whole map) are the attributes of the one-shot calculation with
`passed_objects = i`.  The only hypothesis is that every slider has at least one span — which
discharges `CatchWellFormed` (no tiny droplets after the last palpable object) for the streams
`JuiceStream::new` produces (`C14b.catch_map_wellformed`).  Both paths convert the whole map and
truncate afterwards (`C14c.catch_convert_prefix`), so the hard-rock offsets coincide by
construction. -/
theorem catch_pipeline_gradual_eq_oneshot [FOps F] [FOps S] (C : Casts F S) (A : Arith F)
    (CA : Rosu.ConvCatch.CAr S F) (SA : SecArith F) (fuel : Nat) (start0 : F) (st : Settings F S)
    (i : Nat) (objs : List (PObj F S)) (hp : SpansPositive (objs.map toRaw)) :
    catchGradualValue C A CA SA fuel start0 st i objs = catchDifficulty C A CA SA fuel start0 st i objs :=
  catchGradualValue_eq C A CA SA fuel start0 st i objs
    (fun recs hr => catch_map_wellformed A fuel _ recs hr hp)

/-- …and the abstract gradual machine of `Model/Gradual.lean` (`next` / `len`, `C02.catch_next_eq_prefix`)
runs on exactly this record stream with its well-formedness hypothesis discharged: for ANY skill
its successive values are the one-shot values `catchOneShot sk recs (d + 1)`, then it ends. -/
theorem catch_pipeline_machine {σ : Type} (sk : Skills σ) (A : Arith F) (fuel : Nat)
    (objs : List (PObj F S)) (recs : List CatchEvent)
    (hr : catchMapEvents A fuel (objs.map toRaw) = .ok recs) (hp : SpansPositive (objs.map toRaw)) :
    let rs := catchGradualRecs recs
    let m := catchMachine sk rs (rs.length - 1)
    (m.nexts (catchNew sk) rs.length).1 =
      (List.range rs.length).map (fun d => Res.some (catchOneShot sk recs (d + 1))) ∧
    (m.next (m.nexts (catchNew sk) rs.length).2).1 = .none ∧
    m.len (catchNew sk) = some rs.length :=
  catch_next_eq_prefix sk recs (catch_map_wellformed A fuel _ recs hr hp)

/-- **`catch_pipeline_stars_nonneg`** (exact real arithmetic of the skill, ANY arithmetic of the
slider events and ANY arithmetic of the converter): whenever the pipeline returns, `stars ≥ 0`;
and it never panics in the skill part.  `C16c.catch_skill_safe_nonneg` needs NO hypothesis on the
palpable objects, so nothing is required of the decoded x positions here (the `[0, 512]` theorem
`C09e.catch_hr_offset_stays_in_playfield` is about the converter's own output range). -/
theorem catch_pipeline_stars_nonneg (A : Arith ℝ) (CA : Rosu.ConvCatch.CAr ℝ ℝ) (SA : SecArith ℝ)
    (fuel : Nat) (start0 : ℝ) (st : Settings ℝ ℝ) (hcr : 0 < st.clockRate) (take : Nat)
    (objs : List (PObj ℝ ℝ)) (a : CatchAttrs ℝ)
    (h : catchDifficulty Rosu.SkillOps.realCasts A CA SA fuel start0 st take objs = .ok a) :
    0 ≤ a.stars := by
  unfold catchDifficulty at h
  cases hc : convertAll A fuel (CA.ofInt 0) objs with
  | clampPanic => simp [hc] at h
  | outOfFuel => simp [hc] at h
  | ok r =>
    simp only [hc] at h
    have hs := Rosu.C16c.catch_skill_safe_nonneg SA fuel st.clockRate st.cs hcr take
      (palpables CA st start0 r.1)
    cases hk : Rosu.CatchSkill.calculate Rosu.SkillOps.realCasts SA fuel st.clockRate st.cs take
        (palpables CA st start0 r.1) with
    | panic => simp [hk, Res.bind] at h
    | fuel => simp [hk, Res.bind] at h
    | ok v =>
      simp only [hk, Res.bind, Res.ok.injEq] at h
      subst h
      exact (hs.2 v.1 v.2 hk).2.2.2.2.2.2.2

/-- non-vacuity of the span hypothesis: a circle, a two-span slider, a spinner -/
example : SpansPositive (([.fruit 0 0, .stream 0 0 ⟨14, 1, 1, 1000, 500, 1, true, 250, 2⟩ [], .shower 3] :
    List (PObj Int Int)).map toRaw) := ⟨by decide, trivial⟩

end Rosu.C02e
