import RosuModel.Lemmas.CurveField
import RosuModel.Lemmas.CurveField2
import RosuModel.Lemmas.CurveField3
import RosuModel.Lemmas.CurveReal

/-!
# C09 (slider path mathematics) — ranges of what the curve hands to the difficulty pipelines

The converters of rosu-pp consume three functions of a slider's curve: `dist()` (slider duration, tick
generation, `end_time`), `position_at(progress)` (nested-object positions, the lazy end position,
catch x-positions) and nothing else.  Over an ordered field `K` (both float types read as `K`, casts
the identity, `sqrt` any function with `0 ≤ sqrt x`; `Lemmas/CurveBasic.fieldArith`):

* the cumulative lengths are sorted, non-negative and start at 0; `dist() ≥ 0`;
* the exact law of `calculate_length`: `dist()` is the EXPECTED distance in both the cut case
  (`expected < calculated`) and the extension case (`expected > calculated`) — except with fewer than
  two vertices, with a non-positive expected distance (one vertex, length 0), and the osu!-stable
  exception (last two vertices equal and `expected > calculated`: no extension); with no expected
  distance, or one within `f64::EPSILON`, it is the calculated polyline length;
* `idx_of_dist` (std's branch-free binary search) on sorted lengths returns the partition point;
* `position_at(p)`, for EVERY `p`, is a vertex or a convex combination `p₀ + (p₁ − p₀)·w`,
  `0 ≤ w ≤ 1`, of two consecutive vertices — hence inside the bounding box of the vertices.

What this does not give for `f32`/`f64`: finiteness.  `calculate_length` normalises the last segment's
direction; when that segment has length 0 (possible in osu! mode after the catmull optimisation pass,
where `optimized_len > 0` lets `lengths[1] > 0` although `path[0] == path[1]`) the real code computes
`0 · ∞ = NaN` — observed on the implementation (docs/delivery-CURVE.md) and counted by the CURVE lines;
in an ordered field `x / 0 = 0` hides it, which is why it is recorded as an observation on the
implementation and not as a theorem.
-/

namespace Rosu.Curve

set_option linter.unusedSectionVars false

variable {K : Type} [Field K] [LinearOrder K] [IsStrictOrderedRing K] (T : Transc K)

/-- Cumulative lengths: sorted, non-negative, first entry 0, `dist() ≥ 0` — for every vertex list,
expected distance and `optimized_len ≥ 0`. -/
theorem cumulative_lengths_sorted (hs : ∀ x, 0 ≤ T.sqrt x) (path : Array (Pos K))
    (expected : Option K) (optimized : K) (hopt : 0 ≤ optimized)
    (path' : Array (Pos K)) (lens : Array K)
    (h : calculateLength (fieldArith T) path expected optimized = .ok (path', lens)) :
    lens.toList.Pairwise (· ≤ ·) ∧ (∀ l ∈ lens.toList, 0 ≤ l) ∧ lens[0]? = some 0 ∧
      0 ≤ dist (fieldArith T) lens :=
  calculateLength_sorted T hs path expected optimized hopt path' lens h

/-- **The law of `calculate_length`** (`cl` = `optimized_len + Σ |pᵢ₊₁ − pᵢ|`, the
`calculated_len` of the code). -/
theorem dist_law (hs : ∀ x, 0 ≤ T.sqrt x) (path : Array (Pos K))
    (expected : Option K) (optimized : K) (hopt : 0 ≤ optimized)
    (path' : Array (Pos K)) (lens : Array K)
    (h : calculateLength (fieldArith T) path expected optimized = .ok (path', lens)) :
    let A := fieldArith T
    let cl := calculatedLen A optimized path.toList
    let d := dist A lens
    match expected with
    | none => d = (if path.size ≤ 1 then 0 else cl)
    | some e =>
      if |cl - e| < dEps A then d = (if path.size ≤ 1 then 0 else cl)
      else if lastTwoEqual A path = true ∧ cl < e then d = cl
      else if path.size ≤ 1 then d = 0
      else if e ≤ 0 then d = 0 ∧ lens = #[0] ∧ path'.size = 1
      else d = e ∧ path'.size = lens.size :=
  calculateLength_dist_law T hs path expected optimized hopt path' lens h

/-- In the cut / extension case only the LAST vertex is moved: all earlier vertices are the original
ones. -/
theorem cut_keeps_vertices (path : Array (Pos K)) (e optimized : K)
    (path' : Array (Pos K)) (lens : Array K)
    (h : calculateLength (fieldArith T) path (some e) optimized = .ok (path', lens))
    (hfar : dEps (fieldArith T) ≤ |calculatedLen (fieldArith T) optimized path.toList - e|)
    (hlte : ¬ (lastTwoEqual (fieldArith T) path = true ∧
      calculatedLen (fieldArith T) optimized path.toList < e))
    (hsz : 2 ≤ path.size) :
    ∀ j : Nat, j + 1 < path'.size → path'[j]? = path[j]? :=
  calculateLength_cut_vertices T path e optimized path' lens h hfar hlte hsz

/-- **Specification of `idx_of_dist`** on sorted lengths: the result `i` is the partition point —
everything before it is `≤ d`, `lengths[i] ≥ d`, and either everything before is `< d` or
`lengths[i] = d` exactly (the `Ok` answer of the binary search). -/
theorem idx_of_dist_spec (lengths : Array K) (d : K) (hsorted : lengths.toList.Pairwise (· ≤ ·)) :
    ∃ i, idxOfDist (fieldArith T) lengths d = .ok i ∧ i ≤ lengths.size ∧
      (∀ j (hj : j < lengths.size), j < i → lengths[j] ≤ d) ∧
      (∀ (hi : i < lengths.size), d ≤ lengths[i]) ∧
      (∀ j (hj : j < lengths.size), j < i →
        lengths[j] < d ∨ (i < lengths.size ∧ lengths[i]? = some d)) :=
  idxOfDist_spec T lengths d hsorted

/-- **`position_at(p)` is on the polyline**: a vertex, or a convex combination of two consecutive
vertices — for every `p` (the clamp to `[0, 1]` only selects which point). -/
theorem position_at_on_polyline (c : Curve K K) (hsize : c.path.size ≤ c.lengths.size)
    (hsorted : c.lengths.toList.Pairwise (· ≤ ·)) (hne : 0 < c.path.size) (p : K) :
    ∃ q, positionAt (fieldArith T) c p = .ok q ∧
      ((∃ j : Nat, c.path[j]? = some q) ∨
       (∃ (i : Nat) (p0 p1 : Pos K) (w : K), c.path[i]? = some p0 ∧ c.path[i+1]? = some p1 ∧
          0 ≤ w ∧ w ≤ 1 ∧ q = ⟨p0.x + (p1.x - p0.x) * w, p0.y + (p1.y - p0.y) * w⟩)) :=
  positionAt_convex T c hsize hsorted hne p

/-- Hence inside every axis-parallel box that contains the vertices. -/
theorem position_at_in_bounding_box (c : Curve K K) (hsize : c.path.size ≤ c.lengths.size)
    (hsorted : c.lengths.toList.Pairwise (· ≤ ·)) (hne : 0 < c.path.size) (lo hi : Pos K)
    (hbox : ∀ v ∈ c.path.toList, lo.x ≤ v.x ∧ v.x ≤ hi.x ∧ lo.y ≤ v.y ∧ v.y ≤ hi.y) (p : K) :
    ∃ q, positionAt (fieldArith T) c p = .ok q ∧
      lo.x ≤ q.x ∧ q.x ≤ hi.x ∧ lo.y ≤ q.y ∧ q.y ≤ hi.y :=
  positionAt_in_bbox T c hsize hsorted hne lo hi hbox p

/-- With no vertices `position_at` is `Pos::default()`. -/
theorem position_at_empty (c : Curve K K) (h : c.path.size = 0) (p : K) :
    positionAt (fieldArith T) c p = .ok ⟨0, 0⟩ :=
  positionAt_empty T c h p

/-- non-vacuity: a two-vertex curve with sorted lengths -/
example : ∃ c : Curve ℚ ℚ, c.path.size ≤ c.lengths.size ∧
    c.lengths.toList.Pairwise (· ≤ ·) ∧ 0 < c.path.size :=
  ⟨⟨#[⟨0, 0⟩, ⟨3, 4⟩], #[0, 5]⟩, by decide, by simp, by decide⟩

/-! ## end to end: what `Curve::new` returns -/

/-- **`Curve::new`, every mode, every control-point list**: cumulative lengths sorted, non-negative,
starting at 0, `dist() ≥ 0`.  The hypotheses on `sqrt` are facts of the real square root: `0 ≤ √x`,
`√0 = 0` and the triangle inequality of the model's `distance` — the last two are what keeps the
osu!-only `optimized_len` (polyline length minus chord length of the removed catmull vertices)
non-negative. -/
theorem curve_lengths_sorted (hs : ∀ x, 0 ≤ T.sqrt x) (h0 : T.sqrt 0 = 0)
    (htri : ∀ a b c : Pos K, distance (fieldArith T) a c ≤
      distance (fieldArith T) a b + distance (fieldArith T) b c)
    (fuel : Nat) (isOsu : Bool) (pts : Array (CP K)) (expected : Option K)
    (prev : Array (Pos K)) (bez : Bez K) (c : Curve K K) (b' : Bez K)
    (h : curveNew (fieldArith T) fuel isOsu pts expected prev bez = .ok (c, b')) :
    c.lengths.toList.Pairwise (· ≤ ·) ∧ (∀ l ∈ c.lengths.toList, 0 ≤ l) ∧
      c.lengths[0]? = some 0 ∧ 0 ≤ dist (fieldArith T) c.lengths :=
  curveNew_lengths T hs h0 htri fuel isOsu pts expected prev bez c b' h

/-- non-vacuity: the real square root satisfies the three hypotheses -/
example : (∀ x, 0 ≤ realTransc.sqrt x) ∧ realTransc.sqrt 0 = 0 ∧
    ∀ a b c : Pos ℝ, distance (fieldArith realTransc) a c ≤
      distance (fieldArith realTransc) a b + distance (fieldArith realTransc) b c :=
  ⟨real_sqrt_nonneg, real_sqrt_zero, real_distance_tri⟩

/-- taiko / catch / mania (`optimized_len` is never touched): only `0 ≤ √x` is needed. -/
theorem curve_lengths_sorted_non_osu (hs : ∀ x, 0 ≤ T.sqrt x)
    (fuel : Nat) (pts : Array (CP K)) (expected : Option K)
    (prev : Array (Pos K)) (bez : Bez K) (c : Curve K K) (b' : Bez K)
    (h : curveNew (fieldArith T) fuel false pts expected prev bez = .ok (c, b')) :
    c.lengths.toList.Pairwise (· ≤ ·) ∧ (∀ l ∈ c.lengths.toList, 0 ≤ l) ∧
      c.lengths[0]? = some 0 ∧ 0 ≤ dist (fieldArith T) c.lengths :=
  curveNew_lengths_nonosu T hs fuel pts expected prev bez c b' h

/-- **Every nested-object position, lazy end position and catch x-position the converters take from
the curve lies in the bounding box of the curve's vertices** (`position_at` of the curve `Curve::new`
returned, any progress). -/
theorem curve_position_in_bounding_box (hs : ∀ x, 0 ≤ T.sqrt x) (h0 : T.sqrt 0 = 0)
    (htri : ∀ a b c : Pos K, distance (fieldArith T) a c ≤
      distance (fieldArith T) a b + distance (fieldArith T) b c)
    (fuel : Nat) (isOsu : Bool) (pts : Array (CP K)) (expected : Option K)
    (prev : Array (Pos K)) (bez : Bez K) (c : Curve K K) (b' : Bez K) (hb : BezWF bez)
    (h : curveNew (fieldArith T) fuel isOsu pts expected prev bez = .ok (c, b'))
    (hne : 0 < c.path.size) (lo hi : Pos K)
    (hbox : ∀ v ∈ c.path.toList, lo.x ≤ v.x ∧ v.x ≤ hi.x ∧ lo.y ≤ v.y ∧ v.y ≤ hi.y) (p : K) :
    ∃ q, positionAt (fieldArith T) c p = .ok q ∧
      lo.x ≤ q.x ∧ q.x ≤ hi.x ∧ lo.y ≤ q.y ∧ q.y ≤ hi.y :=
  curveNew_positionAt_in_bbox T hs h0 htri fuel isOsu pts expected prev bez c b' hb h hne lo hi hbox p

end Rosu.Curve
