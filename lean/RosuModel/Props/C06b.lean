import RosuModel.Lemmas.DecodeLineFields
import RosuModel.Lemmas.DecodeLineRoute
import RosuModel.Props.C06

/-!
# C06 (line level) — the per-line parsers of the decoder and rosu-map's section driver

Statements about the literal models `Model/DecodeNum.lean` (number grammar, floats as bit patterns
with exact nearest-even rounding) and `Model/DecodeLine.lean` (`parse_hit_objects` with
`convert_path_str` / `convert_points`, `parse_timing_points`, `parse_events`, `parse_difficulty`,
`parse_general`, the section driver), for EVERY input string / EVERY list of raw lines.  They
replace the hypothesis "the sequence of records of the accepted lines" of `Props/C06.lean` by the
modelled parsers, up to the end-to-end statements `decode_file_*` at the bottom.

`Err.panic` marks a failed checked access (slice index, sub-slice, unsigned / `i32` subtraction):
the Rust code would panic there.
-/

namespace Rosu.C06b
open Rosu.Decode Rosu.DecodeLine

/-! ## (a) totality: no unwrap / index / slice / subtraction of the line parsers can fail -/

/-- `parse_hit_objects` never panics, for every state (any stale scratch buffer) and every line:
the five-field split, `point_split[end_idx]`, `&point_split[start_idx..end_idx]`,
`points.len() - 1`, `vertices.len() - end_point_len (- 1)`, `vertices[end_idx]`,
`vertices[end_idx - 1]`, `&vertices[start_idx..end_idx]`, `repeats - 1` all stay in range, and the
two `while { end_idx += 1; end_idx < len }` loops terminate within `len + 1` iterations. -/
theorem hit_object_parser_total (st : HState) (line : Str) :
    (parseHitObject st line).2 ≠ .error .panic := parseHitObject_ne_panic st line

/-- the same for the path conversion alone, from any scratch state -/
theorem convert_path_str_total (curve : List CP) (s : Str) (ox oy : Int) :
    (convertPathStr curve s ox oy).2 ≠ .error .panic := convertPathStr_ne_panic curve s ox oy

/-- no line of any of the eleven sections makes its parser panic -/
theorem every_line_parser_total (sec : Sec) (s : BState) (l : Str) :
    (stepLine sec s l).2 ≠ .error .panic := stepLine_ne_panic sec s l

/-! ## (b) one sound per object, line by line -/

/-- Every `[HitObjects]` line, from every state: either it is accepted and appends exactly one
object and exactly one sound (both produced by this line), or it is rejected and appends
neither. -/
theorem one_sound_per_object_per_line (st : HState) (line : Str) :
    ((parseHitObject st line).2 = .ok () ∧ ∃ o s,
        (parseHitObject st line).1.objects = st.objects ++ [o] ∧
        (parseHitObject st line).1.sounds = st.sounds ++ [s]) ∨
    ((∃ e, (parseHitObject st line).2 = .error e) ∧
        (parseHitObject st line).1.objects = st.objects ∧
        (parseHitObject st line).1.sounds = st.sounds) := parseHitObject_cases st line

/-- `hit_sounds.len() == hit_objects.len()` is an invariant of every line of every section -/
theorem lengths_invariant_every_line (sec : Sec) (s : BState) (l : Str)
    (h : s.hs.sounds.length = s.hs.objects.length) :
    (stepLine sec s l).1.hs.sounds.length = (stepLine sec s l).1.hs.objects.length :=
  stepLine_lengths sec s l h

example : (BState.init 14).hs.sounds.length = (BState.init 14).hs.objects.length := rfl

/-! ## (c) accepted numeric fields are finite and inside the parser's limits -/

/-- `parse_with_limits` for `f32` / `f64`: an accepted value is not NaN and passed both limit tests
(`!(n < -limit)`, `!(n > limit)`), for every string and every limit. -/
theorem limited_parse_accepts_only_in_range (F : Fmt) (s : Str) (lim n : Nat)
    (h : F.parseLim s lim = .ok n) :
    F.isNaN n = false ∧ F.lt n (F.neg lim) = false ∧ F.lt lim n = false := parseLim_ok F s lim n h

/-- `f64::parse` / `parse_num::<f64>`: finite, `|x| ≤ 2147483647.0` -/
theorem f64_parse_finite_bounded (s : Str) (n : Nat) (h : parseF64 s = .ok n) :
    F64.mag n ≤ maxParse64 ∧ F64.isFinite n = true := parseF64_bounds s n h

/-- `f32::parse` / `parse_num::<f32>`: finite, `|x| ≤ 2147483648.0f32` -/
theorem f32_parse_finite_bounded (s : Str) (n : Nat) (h : parseF32 s = .ok n) :
    F32.mag n ≤ maxParse32 ∧ F32.isFinite n = true := parseF32_bounds s n h

/-- `i32::parse`: `-2147483647 ≤ n ≤ 2147483647` (so `repeats - 1` cannot overflow) -/
theorem i32_parse_bounded (s : Str) (n : Int) (h : parseI32 s = .ok n) :
    -2147483647 ≤ n ∧ n ≤ 2147483647 := parseI32_ok_range s n h

example : parseF64 "1e999".toList = .error .overflow ∧ parseF64 " -nan ".toList = .error .nan ∧
    parseF64 "12.5".toList = .ok 0x4029000000000000 := by decide

/-- An accepted `[HitObjects]` line pushes an object whose start time is finite with
`|t| ≤ MAX_PARSE_VALUE`; a slider has at most 8999 repeats, exactly `repeats + 2` node sounds and a
pixel length of magnitude at most `MAX_COORDINATE_VALUE` and at least one control point; the
position (after `as i32 as f32`) is integral with both coordinates in `[-131072, 131072]`. -/
theorem accepted_hit_object_fields (st : HState) (line : Str)
    (h : (parseHitObject st line).2 = .ok ()) :
    ∃ o s, (parseHitObject st line).1.objects = st.objects ++ [o] ∧
      (parseHitObject st line).1.sounds = st.sounds ++ [s] ∧
      F64.mag o.time ≤ maxParse64 ∧ F64.isFinite o.time = true ∧ KindOK o.kind ∧
      (-131072 ≤ o.x ∧ o.x ≤ 131072) ∧ (-131072 ≤ o.y ∧ o.y ≤ 131072) :=
  parseHitObject_ok_fields st line h

/-- An accepted `[TimingPoints]` line: finite time with `|t| ≤ MAX_PARSE_VALUE`; slider velocity in
`[0.1, 10]` (never NaN — the division is only taken for a negative beat length); scroll speed `1.0`
or in `[0.01, 10]`; for a timing change the beat length is not NaN and clamped to `[6, 60000]`. -/
theorem accepted_timing_line_fields (scroll : Bool) (line : Str) (ln : TLine)
    (h : parseTimingLine scroll line = .ok ln) :
    (∃ time, ln.time = keyOfBits64 time ∧ F64.mag time ≤ maxParse64 ∧ F64.isFinite time = true) ∧
    (F64.isNaN ln.d.1 = false ∧ F64.num c64_0_1 ≤ F64.num ln.d.1 ∧ F64.num ln.d.1 ≤ F64.num c64_10) ∧
    (ln.e.2 = c64_1 ∨ (F64.isNaN ln.e.2 = false ∧ F64.num c64_0_01 ≤ F64.num ln.e.2 ∧
      F64.num ln.e.2 ≤ F64.num c64_10)) ∧
    (ln.timingChange = true → F64.isNaN ln.t = false ∧ F64.num c64_6 ≤ F64.num ln.t ∧
      F64.num ln.t ≤ F64.num c64_60000) := parseTimingLine_ok scroll line ln h

/-- non-vacuity: an inherited (non-timing-change) line with a NaN beat length is ACCEPTED, with
slider velocity 1.0 and `generate_ticks = false` -/
example : (parseTimingLine false "100,nan,4,2,0,100,0,0".toList).toOption.map (·.d) =
    some (c64_1, c64_1, false) := by decide

/-! ## (d) the `curve_points` scratch buffer -/

set_option maxRecDepth 8000 in
set_option exponentiation.threshold 2000 in
/-- Witness: a slider line whose SECOND path segment is malformed is rejected after the first
segment was already appended to `curve_points`; the stale points stay in the state (no object, no
sound pushed) and the next accepted slider starts with them. -/
theorem rejected_slider_leaves_stale_points :
    let l1 := "0,0,0,2,0,B|10:10|B|20:20|B|x:y,1,50".toList
    let l2 := "100,100,500,2,0,L|200:200,1,70".toList
    let s1 := (parseHitObject HState.init l1).1
    (parseHitObject HState.init l1).2 = .error (.number .invalidFloat) ∧
    s1.objects = [] ∧ s1.sounds = [] ∧
    s1.curve = [⟨0, 0, some (.bezier none)⟩, ⟨10, 10, none⟩] ∧
    (parseHitObject s1 l2).2 = .ok () ∧
    (parseHitObject s1 l2).1.objects.map (·.kind) =
      [.slider 0 (some 0x4051800000000000) [0, 0]
        [⟨0, 0, some (.bezier none)⟩, ⟨10, 10, none⟩, ⟨0, 0, some .linear⟩, ⟨100, 100, none⟩]] ∧
    (parseHitObject s1 l2).1.curve = [] := by decide

/-- Lines that are not sliders (circle bit set, or slider bit clear) never touch the buffer. -/
theorem non_slider_lines_keep_curve_points (curve : List CP) (x y : Int) (time : Nat) (ty : Int)
    (sound : Nat) (rest : List Str) (h : hasFlag ty 1 = true ∨ hasFlag ty 2 = false) :
    (parseKind curve x y time ty sound rest).1 = curve :=
  parseKind_curve_nonslider curve x y time ty sound rest h

/-- An accepted slider consumes the whole buffer, stale points included: it is empty afterwards.
Together with `one_sound_per_object_per_line` (which holds from EVERY state) stale points can only
lengthen the control-point list of the next accepted slider; they can never unbalance objects and
sounds, and every stale point is itself the result of a successful `read_point`. -/
theorem accepted_slider_clears_curve_points (curve : List CP) (x y : Int) (time : Nat) (ty : Int)
    (sound : Nat) (rest : List Str) (k : Kind) (snd : Nat) (h1 : hasFlag ty 1 = false)
    (h2 : hasFlag ty 2 = true) (h : (parseKind curve x y time ty sound rest).2 = .ok (k, snd)) :
    (parseKind curve x y time ty sound rest).1 = [] :=
  parseKind_slider_clears curve x y time ty sound rest k snd h1 h2 h

/-! ## (e) the section driver -/

/-- Every line reaches at most one parser, in file order: the routed lines are a sublist of the
file's lines (so in particular the version line, blank lines, `//` comments, section headers and
everything before the first header reach none). -/
theorem every_line_reaches_at_most_one_parser (ls : List Str) (sec : Sec) (body : List Str)
    (h : firstSection (parseVersion ls).2 = some (sec, body)) :
    ((route sec body).map (·.2)).Sublist ls := routed_sublist ls sec body h

/-- Lines before the first section header are invisible. -/
theorem lines_before_first_header_reach_no_parser (pre rest : List Str)
    (h : ∀ l ∈ pre, secOfLine l = none) : firstSection (pre ++ rest) = firstSection rest :=
  firstSection_skip_prefix pre rest h

/-- The six sections `[Editor] [Metadata] [Colours] [Variables] [CatchTheBeat] [Mania]` are ignored. -/
theorem noop_sections_are_ignored (sec : Sec) (hn : sec.isNoop = true) (s : BState) (l : Str) :
    (stepLine sec s l).1 = s := stepLine_noop sec hn s l

/-- Decoding `lines ++ [header of an ignored section] ++ garbage` = decoding `lines`, for ANY garbage
that contains no section header. -/
theorem decode_append_ignored_section (ls g : List Str) (hdr : Str) (s : Sec)
    (hs : secOfLine hdr = some s) (hn : s.isNoop = true) (hg : ∀ l ∈ g, secOfLine l = none) :
    decodeLines (ls ++ hdr :: g) = decodeLines ls := decodeLines_append_noop ls g hdr s hs hn hg

example : secOfLine "[Editor]".toList = some .editor ∧ Sec.editor.isNoop = true := by decide

/-- The statement "unknown sections are ignored" is FALSE of rosu-map's driver: `[Unknown]` is not a
section header, so it does not end the current section — it is itself handed to the current
section's parser, and so are the lines after it. -/
theorem unknown_header_is_an_ordinary_line :
    secOfLine "[Unknown]".toList = none ∧
    route .hitObjects ["[Unknown]".toList, "256,192,1000,1,0".toList] =
      [(.hitObjects, "[Unknown]".toList), (.hitObjects, "256,192,1000,1,0".toList)] := by decide

/-! ## end to end: from the raw lines of a file to the decoded map -/

/-- For EVERY list of raw lines: the two vectors the line parsers filled are equally long, and the
post-processing (`From<BeatmapState>`) does not panic and returns them sorted by start time;
non-mania: one sound per object and the (object, sound) pairs are a permutation of the pairs pushed
line by line (`one_sound_per_object_per_line`: position `i` of both vectors comes from the `i`-th
accepted line), i.e. every object still carries the sound written on its line; mania: objects are
a permutation of the pushed objects, one sound slot each, start times non-decreasing. -/
theorem decode_file_objects (raw : List Str) :
    let st := decodeState raw
    let objs := st.hs.objects.map fun o => (keyOfBits64 o.time, o)
    st.hs.sounds.length = st.hs.objects.length ∧
    (st.mode ≠ 3 → ∃ o' s', (decodeFile raw).objects = some (o', s') ∧
      o'.length = objs.length ∧ s'.length = o'.length ∧
      (o'.map (·.1)).Pairwise (· ≤ ·) ∧ (o'.map (fun p => norm p.1)).Pairwise (· ≤ ·) ∧
      (o'.zip s').Perm (objs.zip st.hs.sounds)) ∧
    (st.mode = 3 → ∃ o'' s', (decodeFile raw).objects = some (o'', s') ∧
      o''.Perm objs ∧ s'.length = o''.length ∧
      (o''.map (fun p => norm p.1)).Pairwise (· ≤ ·)) := by
  intro st objs
  have hl : st.hs.sounds.length = st.hs.objects.length := decodeLines_lengths _
  have hl' : st.hs.sounds.length = objs.length := by rw [hl]; simp [objs]
  refine ⟨hl, fun hm => ?_, fun hm => ?_⟩
  · have hm' : ((decodeState raw).mode == 3) = false := by simpa using hm
    have := C06.decode_objects_sorted_and_paired objs st.hs.sounds hl'
    simp only [decodeFile, finish]
    rw [hm']
    exact this
  · have hm' : ((decodeState raw).mode == 3) = true := by simpa using hm
    have := C06.decode_mania_objects objs st.hs.sounds hl'
    simp only [decodeFile, finish]
    rw [hm']
    exact this

/-- For EVERY list of raw lines the decoded timing, difficulty and effect points are strictly
increasing in time (`total_cmp` order): the control-point state is a fold of `addLine` over the
accepted `[TimingPoints]` lines, whatever else the file contains. -/
theorem decode_file_control_points_sorted (raw : List Str) : PointsSorted (decodeFile raw).cps := by
  obtain ⟨lines, hl⟩ := decodeLines_cps (readerLines raw)
  have : (decodeFile raw).cps = decodePoints exactParams lines := by
    simp only [decodeFile, finish, decodeState, decodePoints, hl]
  rw [this]
  exact C06.control_points_strictly_sorted exactParams lines

/-- For EVERY list of raw lines the six difficulty fields end inside their clamp intervals. -/
theorem decode_file_difficulty_clamped (raw : List Str) :
    let c := (decodeFile raw).diff
    (norm f32_0 ≤ norm c.hp ∧ norm c.hp ≤ norm f32_10) ∧
    (norm f32_0 ≤ norm c.od ∧ norm c.od ≤ norm f32_10) ∧
    (norm f32_0 ≤ norm c.ar ∧ norm c.ar ≤ norm f32_10) ∧
    (if (decodeFile raw).mode == 3 then norm f32_1 ≤ norm c.cs ∧ norm c.cs ≤ norm f32_18
      else norm f32_0 ≤ norm c.cs ∧ norm c.cs ≤ norm f32_10) ∧
    (norm f64_0_4 ≤ norm c.sm ∧ norm c.sm ≤ norm f64_3_6) ∧
    (norm f64_0_5 ≤ norm c.tr ∧ norm c.tr ≤ norm f64_8) := by
  simpa [decodeFile, finish] using C06.clamp_ranges ((decodeState raw).mode == 3) _

end Rosu.C06b
