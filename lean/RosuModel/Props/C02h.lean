import RosuModel.Lemmas.PipelineManiaConvert
import RosuModel.Lemmas.PipelineManiaConvertReal
import RosuModel.Props.C02d
import RosuModel.Props.C16c

/-!
# C02 — osu!→mania CONVERT end to end (cross-referenced from C19 / C14 / C16)

`Model/PipelineManiaConvert.lean: maniaConvertDifficulty` composes `convert` (seed,
`target_columns`, the three pattern generators with the PRNG, note materialisation, the stable sort
and `osu_legacy`), the mods HoldOff / Invert, `ManiaObject::new`, the `Strain` skill and the
attributes; `maniaConvertGradual` is the gradual calculator on the same prepared objects.  Tied bit
for bit by `PIPE maniac` lines to `Difficulty::calculate_for_mode::<Mania>` and
`ManiaGradualDifficulty::nth` on osu! maps under every key mod, with and without HoldOff / Invert.
Inputs that stay inputs: the `convert_type` flags the generators' constructors compute, the sliders'
`i32` times (their arithmetic: `C19b.path_new_establishes_generator_preconditions`),
`conversion_difficulty()`, the timing points read by Invert; the `Random` mod is not composed.
-/
namespace Rosu.C02h
open Rosu.PipelineManiaConvert Rosu.ManiaPattern Rosu.SkillOps
open Rosu.PipelineMania (PrepOps Prepared Attrs oneShot gradualValues attrsOf column totalColumns PrepOK column_lt totalColumns_ge_one)

variable {R S : Type}

section Every
variable [FOps R] [FOps S] (P : PrepOps R S) (X : XOps R S)

/-- **`mania_convert_pipeline_counts`** (every arithmetic): whenever the pipeline answers,
`is_convert = true`, `n_objects = min(passed_objects, number of converted (and modded) objects)`,
and `max_combo` / `n_hold_notes` are the sums over exactly that prefix. -/
theorem mania_convert_pipeline_counts (PA : PArith R) (A : SecArith R) (fuel : Nat) (st : Settings R S)
    (take : Nat) (objs : List (SObj R)) (a : Attrs R)
    (h : maniaConvertDifficulty P X PA A fuel st take objs = .ok a) :
    ∃ l cols, preparedOf P X PA fuel st objs = .ok (l, cols) ∧ a.isConvert = true ∧
      a.nObjects = min take l.length ∧
      a.maxCombo = (((l.map (·.count)).take take).map (·.incOne)).sum ∧
      a.nHoldNotes = (((l.map (·.count)).take take).filter (fun o => !o.isCircle)).length := by
  unfold maniaConvertDifficulty at h
  cases hp : preparedOf P X PA fuel st objs with
  | genPanic => simp [hp] at h
  | panic => simp [hp] at h
  | fuel => simp [hp] at h
  | ok r =>
    obtain ⟨l, cols⟩ := r
    simp only [hp] at h
    refine ⟨l, cols, rfl, ?_⟩
    unfold oneShot at h
    cases hc : ManiaSkill.calculate A fuel st.clockRate cols take (l.map (·.obj)) with
    | panic => simp [hc] at h
    | fuel => simp [hc] at h
    | ok sk =>
      simp only [hc, PipelineManiaConvert.Out.ok.injEq] at h
      subst h
      simp [attrsOf, Rosu.Gradual.maniaOneShot]

/-- **`mania_convert_pipeline_columns`**: every hit object `convert` produces sits at the x position
of a column below the key count — `C19b.convert_columns_lt_total` carried through the
materialisation and the two sorts (both permutations), for every PRNG seed, flag sequence and
key count 1–16. -/
theorem mania_convert_pipeline_columns {PA : PArith R} (hA : RangeLaw PA) (fuel keys : Nat)
    (h1 : 1 ≤ keys) (h16 : keys ≤ 16) (seed : Int) (cd : R) (objs : List (SObj R))
    (hits : List (HitObj R S)) (h : convertMap P X PA fuel keys seed cd objs = .ok (some hits)) :
    ∀ o ∈ hits, ∃ c, c < keys ∧ o.x = columnToPosS P X c keys :=
  convertMap_columns P X hA fuel keys h1 h16 seed cd objs hits h

/-- **`mania_convert_pipeline_gradual_eq_oneshot`** (every arithmetic, nothing abstract): the
gradual calculator and the one-shot calculation convert the whole map identically (same seed,
same PRNG stream, same mods: both go through `preparedOf`) and differ only in `passed_objects`:
the `i`-th gradual value is the one-shot value with `take = i`, and any `take` beyond the object
count equals `take = len` (`C02d.mania_pipeline_gradual_eq_oneshot`, i.e. `mania_next_eq_prefix`
with the concrete skill). -/
theorem mania_convert_pipeline_gradual_eq_oneshot (PA : PArith R) (A : SecArith R) (fuel : Nat)
    (st : Settings R S) (objs : List (SObj R)) (l : List (Prepared R)) (cols : Nat)
    (hp : preparedOf P X PA fuel st objs = .ok (l, cols)) :
    maniaConvertGradual P X PA A fuel st objs =
      .ok ((List.range l.length).map fun i => oneShot A fuel st.clockRate cols (i + 1) l) ∧
    (∀ take a, oneShot A fuel st.clockRate cols take l = .ok a →
      maniaConvertDifficulty P X PA A fuel st take objs = .ok { a with isConvert := true }) ∧
    ∀ take, l.length ≤ take →
      maniaConvertDifficulty P X PA A fuel st take objs = maniaConvertDifficulty P X PA A fuel st l.length objs := by
  have hg := Rosu.C02d.mania_pipeline_gradual_eq_oneshot A fuel st.clockRate cols l
  refine ⟨?_, ?_, ?_⟩
  · unfold maniaConvertGradual; simp only [hp]; rw [hg.1]
  · intro take a ha; unfold maniaConvertDifficulty; simp only [hp, ha]
  · intro take ht
    unfold maniaConvertDifficulty
    simp only [hp]
    rw [hg.2 take ht]

/-- **Invert never panics** (the `column_buf[0]` of `apply_invert_to_beatmap` is a checked index in
the model): for every object list — empty columns included —, key count, timing points and
arithmetic.  The closure reading `column_buf[0]` runs once per window of the column's sorted
locations; an empty column has no locations.  (Seed `C05-invert-empty-column-eager-index` made the
read eager.) -/
theorem invert_never_panics (pts : List (R × R)) (total : S) (cols : Nat) (l : List (HitObj R S)) :
    ∃ r, applyInvert P pts total cols l = some r :=
  applyInvert_total P pts total cols l

end Every

/-- **`mania_convert_pipeline_stars_nonneg`** (ℝ skill and preparation, ANY probability arithmetic
for the generators): the pipeline never panics in the skill part and, whenever it answers,
`stars ≥ 0`.  The hypothesis of `C16c.mania_skill_safe_nonneg` (column < total columns) is
discharged by `column_lt` for ANY x position, so neither the converter's column theorem nor
sortedness is needed for the sign. -/
theorem mania_convert_pipeline_stars_nonneg (P : PrepOps ℝ ℝ) (hP : PrepOK P) (X : XOps ℝ ℝ)
    (PA : PArith ℝ) (A : SecArith ℝ) (fuel : Nat) (st : Settings ℝ ℝ) (take : Nat) (objs : List (SObj ℝ))
    (a : Attrs ℝ) (h : maniaConvertDifficulty P X PA A fuel st take objs = .ok a) : 0 ≤ a.stars := by
  unfold maniaConvertDifficulty at h
  cases hp : preparedOf P X PA fuel st objs with
  | genPanic => simp [hp] at h
  | panic => simp [hp] at h
  | fuel => simp [hp] at h
  | ok r =>
    obtain ⟨l, cols⟩ := r
    simp only [hp] at h
    have hcol : ∀ o ∈ l.map (·.obj), o.column < cols := by
      unfold preparedOf at hp
      simp only at hp
      split at hp
      · cases hp
      · cases hp
      · cases hp
      · split at hp
        · cases hp
        · simp only [PipelineManiaConvert.Out.ok.injEq, Prod.mk.injEq] at hp
          obtain ⟨rfl, rfl⟩ := hp
          intro o ho
          simp only [List.map_map, List.mem_map] at ho
          obtain ⟨hobj, _, rfl⟩ := ho
          simp only [Function.comp]
          have key : ∀ cs : ℝ, (prepareHit P (totalColumns P cs) hobj).obj.column < P.toUsize (totalColumns P cs) := by
            intro cs
            have := column_lt P hP hobj.x (totalColumns P cs) (totalColumns_ge_one P cs)
            unfold prepareHit
            cases hobj.dur <;> exact this
          exact key _
    have hs := Rosu.C16c.mania_skill_safe_nonneg A fuel st.clockRate cols take (l.map (·.obj)) hcol
    unfold oneShot at h
    cases hc : ManiaSkill.calculate A fuel st.clockRate cols take (l.map (·.obj)) with
    | panic => simp [hc] at h
    | fuel => simp [hc] at h
    | ok sk =>
      simp only [hc, PipelineManiaConvert.Out.ok.injEq] at h
      subst h
      exact (hs.2 sk hc).2.2.2.2.2.2

/-- **Invert: non-negative durations** (C19 clause, ℝ): every hold note `apply_invert_to_beatmap`
creates lasts `max(d/2, d − beat_len/4) ≥ d/2 ≥ 0` where `d` is the gap between two consecutive
sorted locations of its column — for every object list, key count and timing points. -/
theorem invert_durations_nonneg (P : PrepOps ℝ ℝ) (pts : List (ℝ × ℝ)) (total : ℝ) (cols : Nat)
    (l r : List (HitObj ℝ ℝ)) (h : applyInvert P pts total cols l = some r) :
    ∀ o ∈ r, ∀ d, o.dur = some d → 0 ≤ d :=
  applyInvert_durations P pts total cols l r h

/-- **Random (`RandomMania { seed }`): the shuffle is a permutation of the columns**, for every
seed (0, negative, `i32::MIN` / `MAX` included) and key count: `shuffled_columns` is a permutation
of `0..n`, so the checked index `shuffled_columns[old_column]` succeeds for every column below `n`
and yields a column below `n` — `column < keys` is preserved.  (The PRNG's own array accesses are
index-safe by the invariant of `Lemmas/Rng.lean: Csharp.draws_ok`.) -/
theorem random_shuffle_is_permutation (seed : Int) (n : Nat) :
    (shuffledColumns seed n).Perm (List.range n) ∧
    ∀ c, c < n → ∃ c', (shuffledColumns seed n)[c]? = some c' ∧ c' < n :=
  ⟨shuffledColumns_perm seed n, fun c hc => shuffledColumns_get seed n c hc⟩

/-- `apply_random_to_beatmap` never panics when the objects' columns are below `n` -/
theorem random_never_panics [FOps R] [FOps S] (P : PrepOps R S) (X : XOps R S) (seed : Int) (total : S)
    (n : Nat) (l : List (HitObj R S)) (hcol : ∀ h ∈ l, column P h.x total < n) :
    ∃ r, applyRandom P X seed total n l = some r :=
  applyRandom_total P X seed total n l hcol

/-- a concrete shuffle: seed 0, 4 keys -/
example : (shuffledColumns 0 4).length = 4 := by decide +kernel

end Rosu.C02h
