import RosuModel.Lemmas.EvalCalcTaiko
import RosuModel.Lemmas.PerfCalcTaiko
import RosuModel.Lemmas.SkillPeaksRel
import RosuModel.Lemmas.StrainSkeleton
import RosuModel.Gen.PerfConsts

/-!
# C09 (third file) — star ratings: the `eval` formulas and the strain skeleton

* `Model/EvalCalc.lean` (generic in `PPOps`; executed at `Float` by the `STARS` lines of C16 against the
  attributes of the real difficulty calculation, bit for bit): for all non-negative skill values, over
  ℝ, every side condition of `DifficultyValues::eval` holds and every rating and `stars` is `≥ 0`;
* zero skills: taiko / catch / mania give 0 stars; osu! does NOT (`osu_zero_skills_zero_stars_fails`);
* taiko's `mono_stamina_factor` lies in [0, 1] ⊂ [0, 5/3) — the hypothesis of `C09b.taiko_pp_nonneg` —
  as soon as the single-colour stamina value does not exceed the stamina value, which the strain
  skeleton gives (`stamina_single_colour_le`, `peaks_pointwise_le`, C09's `difficulty_value_mono`);
* strain skeleton (`Model/Skill.lean`, the section loop the `SKILL` lines tie): every exported peak
  inherits any `max`-closed property of the strain-function outputs (`peaks_inherit`); the decay
  recurrences keep non-negativity over an ordered field (`decay_strain_nonneg`).
Chain for C09: evaluator outputs `≥ 0` and finite ⇒ strain values `≥ 0` ⇒ peaks `≥ 0` ⇒
`difficulty_value ≥ 0` (C09, C16) ⇒ ratings, stars `≥ 0` (here) ⇒ pp `≥ 0` (C09b).
-/

namespace Rosu.C09c
open Rosu.PerfCalc Rosu.Agg


/-! ## the `eval` formulas the model was transcribed from are the ones in the source now -/

open Rosu.Gen.PerfConsts in
theorem eval_constants_extracted : unknownShapes = [] := by decide

open Rosu.Gen.PerfConsts in
/-- module constants and numeric literals (source order) of the code `Model/EvalCalc.lean` transcribes -/
theorem osu_eval_literals_as_modelled : osuEvalLiterals = [
  ("const DIFFICULTY_MULTIPLIER", ["0.0675"]),
  ("const HD_FADE_IN_DURATION_MULTIPLIER", ["0.4"]),
  ("const HD_FADE_OUT_DURATION_MULTIPLIER", ["0.3"]),
  ("eval", ["0.0", "1.0", "0.8", "0.8", "0.9", "0.0", "0.7", "0.5", "0.0", "0.4", "0.0", "1.1", "1.1", "1.1", "1.0", "1.1", "0.00001", "0.027", "100_000.0", "2.0_f64", "1.0", "1.1", "4.0", "0.0"])
] := by decide

open Rosu.Gen.PerfConsts in
/-- module constants and numeric literals (source order) of the code `Model/EvalCalc.lean` transcribes -/
theorem taiko_eval_literals_as_modelled : taikoEvalLiterals = [
  ("const DIFFICULTY_MULTIPLIER", ["0.084375"]),
  ("const RHYTHM_SKILL_MULTIPLIER", ["0.65 * DIFFICULTY_MULTIPLIER"]),
  ("const READING_SKILL_MULTIPLIER", ["0.100 * DIFFICULTY_MULTIPLIER"]),
  ("const COLOR_SKILL_MULTIPLIER", ["0.375 * DIFFICULTY_MULTIPLIER"]),
  ("const STAMINA_SKILL_MULTIPLIER", ["0.445 * DIFFICULTY_MULTIPLIER"]),
  ("const SLIDER_MULTIPLIER", ["1.4 * 4.0 / 3.0"]),
  ("const SLIDER_MULTIPLIER", ["0.8"]),
  ("combined_difficulty_value", ["0.0", "1.5", "1.0", "2.0", "1.5", "0.0", "0.0", "1.0", "0.9"]),
  ("rescale", ["0.0", "10.43", "8.0", "1.0"]),
  ("eval", ["5.0", "1.0", "0.10", "1.0", "1000.0", "3700.0", "0.0", "0.15", "7.0", "1.0", "0.0", "0.05", "1.4"])
] := by decide

open Rosu.Gen.PerfConsts in
/-- module constants and numeric literals (source order) of the code `Model/EvalCalc.lean` transcribes -/
theorem catch_eval_literals_as_modelled : catchEvalLiterals = [
  ("const DIFFICULTY_MULTIPLIER", ["4.59"]),
  ("eval", [])
] := by decide

open Rosu.Gen.PerfConsts in
/-- module constants and numeric literals (source order) of the code `Model/EvalCalc.lean` transcribes -/
theorem mania_eval_literals_as_modelled : maniaEvalLiterals = [
  ("const DIFFICULTY_MULTIPLIER", ["0.018"]),
  ("difficulty", [])
] := by decide

open Rosu.Gen.PerfConsts in
/-- module constants and numeric literals (source order) of the code `Model/EvalCalc.lean` transcribes -/
theorem norm_literals_as_modelled : utilNormLiterals = [
  ("norm", [])
] := by decide

/-! ## osu! -/

/-- (a) every partial operation of osu! `eval` is in its domain for non-negative difficulty values -/
theorem osu_eval_domain_ok (m : OsuEvalMods) (aim ans sp fl : ℝ) (h1 : 0 ≤ aim) (h2 : 0 ≤ ans)
    (h3 : 0 ≤ sp) (h4 : 0 ≤ fl) : osuEvalDom m aim ans sp fl = true := osuEvalDom_true m h1 h2 h3 h4

/-- (b) aim / speed / flashlight ratings and the slider factor are `≥ 0`, `stars > 0` -/
theorem osu_eval_nonneg (m : OsuEvalMods) (aim ans sp fl : ℝ) (h1 : 0 ≤ aim) (h2 : 0 ≤ ans)
    (h3 : 0 ≤ sp) (h4 : 0 ≤ fl) :
    0 ≤ (osuEval m aim ans sp fl).aim ∧ 0 ≤ (osuEval m aim ans sp fl).speed
      ∧ 0 ≤ (osuEval m aim ans sp fl).flashlight ∧ 0 ≤ (osuEval m aim ans sp fl).sliderFactor
      ∧ 0 < (osuEval m aim ans sp fl).stars := osuEval_nonneg m h1 h2 h3 h4

/-- `base_performance > 0.00001` for EVERY rating (each `difficulty_to_performance ≥ 1/100000`): over ℝ the
`else { 0.0 }` branch of `star_rating` is dead code -/
theorem osu_star_guard_always_taken (m : OsuEvalMods) (a s f : ℝ) :
    (0.00001 : ℝ) < osuBasePerformance m a s f := osuBasePerformance_gt m a s f

/-- "zero skills ⇒ zero stars", the clause as one would state it for osu! -/
def OsuZeroSkillsZeroStars : Prop := ∀ m : OsuEvalMods, (osuEval m (0 : ℝ) 0 0 0).stars = 0

/-- … is false: with all four difficulty values 0 the ratings are 0, the slider factor 1 and the star
rating is positive (`cbrt(1.15)·0.027·5 = 0.14143808967817237` on the real code: STARS lines of
zero-strain maps) -/
theorem osu_zero_skills_zero_stars_fails : ¬ OsuZeroSkillsZeroStars := by
  intro h
  have := (osuEval_zero_skills ⟨false, false, false, false⟩).2.2.2.2
  rw [h] at this; exact lt_irrefl _ this

theorem osu_zero_skills (m : OsuEvalMods) :
    (osuEval m (0 : ℝ) 0 0 0).aim = 0 ∧ (osuEval m (0 : ℝ) 0 0 0).speed = 0
      ∧ (osuEval m (0 : ℝ) 0 0 0).flashlight = 0 ∧ (osuEval m (0 : ℝ) 0 0 0).sliderFactor = 1
      ∧ 0 < (osuEval m (0 : ℝ) 0 0 0).stars := osuEval_zero_skills m

/-! ## taiko -/

/-- (b) taiko `eval`: ratings, `mono_stamina_factor`, stars `≥ 0`; `mono_stamina_factor ≤ 1` when the
single-colour value does not exceed the stamina value -/
theorem taiko_eval_nonneg (i : TaikoEvalIn ℝ) (H : TaikoEvalInOK i) (combine : ℝ → ℝ → ℝ)
    (hcomb : ∀ pm slb, 0 ≤ combine pm slb) :
    0 ≤ (taikoEval i combine).rhythm ∧ 0 ≤ (taikoEval i combine).reading ∧ 0 ≤ (taikoEval i combine).color
      ∧ 0 ≤ (taikoEval i combine).stamina ∧ 0 ≤ (taikoEval i combine).monoStaminaFactor
      ∧ (i.monoStaminaDV ≤ i.staminaDV → (taikoEval i combine).monoStaminaFactor ≤ 1)
      ∧ 0 ≤ (taikoEval i combine).stars := taikoEval_nonneg i H combine hcomb

/-- the same with `combined_difficulty_value` on arbitrary peak lists plugged in (no hypothesis on
the peaks: only positive combined section values are summed) -/
theorem taiko_eval_stars_nonneg (i : TaikoEvalIn ℝ) (H : TaikoEvalInOK i) (rx conv : Bool) (r rd c s : List ℝ) :
    0 ≤ (taikoEval i (taikoCombinedRating 0 rx conv r rd c s)).stars :=
  (taikoEval_nonneg i H _ (fun pm slb => taikoCombinedRating_nonneg rx conv r rd c s pm slb)).2.2.2.2.2.2

/-- (a) taiko `eval`'s own partial operations, and those of one section of
`combined_difficulty_value`, are in-domain for non-negative inputs -/
theorem taiko_eval_domain_ok (i : TaikoEvalIn ℝ) (H : TaikoEvalInOK i) (comb : ℝ) (hc : 0 ≤ comb) :
    taikoEvalDom i comb = true := taikoEvalDom_true i H hc

theorem taiko_comb_domain_ok (rx conv : Bool) (pm slb r rd c s : ℝ) (hslb : 0 ≤ slb) (hc : 0 ≤ c)
    (hs : 0 ≤ s) : taikoCombDom (0 : ℝ) rx conv pm slb r rd c s = true ∧ 0 ≤ taikoComb (0 : ℝ) rx conv pm slb r rd c s :=
  ⟨taikoCombDom_true rx conv hslb hc hs, taikoComb_nonneg rx conv pm slb r rd c s⟩

/-- `strain_length_bonus ∈ [1, 1.2]`, `pattern_multiplier ≥ 0` -/
theorem taiko_bonus_ranges (d s c : ℝ) (hs : 0 ≤ s) (hc : 0 ≤ c) :
    1 ≤ taikoStrainLengthBonus d s ∧ taikoStrainLengthBonus d s ≤ 1.2 ∧ 0 ≤ taikoPatternMultiplier s c :=
  ⟨(taikoStrainLengthBonus_mem d s).1, (taikoStrainLengthBonus_mem d s).2, taikoPatternMultiplier_nonneg hs hc⟩

/-- (c) all section peaks zero (in particular no section at all) ⇒ combined rating 0 ⇒ stars 0 -/
theorem taiko_zero_peaks_zero_stars (i : TaikoEvalIn ℝ) (rx conv : Bool) (r rd c s : List ℝ)
    (hr : ∀ x ∈ r, x = 0) (hrd : ∀ x ∈ rd, x = 0) (hc : ∀ x ∈ c, x = 0) (hs : ∀ x ∈ s, x = 0) :
    (taikoEval i (taikoCombinedRating 0 rx conv r rd c s)).stars = 0 := by
  show taikoStarsOf (taikoCombinedRating 0 rx conv r rd c s _ _) = 0
  rw [taikoCombinedRating_zero rx conv r rd c s _ _ hr hrd hc hs]; exact taikoStarsOf_zero

/-- the hypothesis `0 ≤ mono_stamina_factor < 5/3` of `C09b.taiko_domain_ok / taiko_pp_nonneg` holds
for the factor `eval` computes whenever `0 ≤ mono value ≤ stamina value` -/
theorem taiko_eval_msf_in_pp_range (i : TaikoEvalIn ℝ) (H : TaikoEvalInOK i) (combine : ℝ → ℝ → ℝ)
    (hle : i.monoStaminaDV ≤ i.staminaDV) :
    0 ≤ (taikoEval i combine).monoStaminaFactor ∧ (taikoEval i combine).monoStaminaFactor < 5 / 3 := by
  obtain ⟨_, _, m3, m4⟩ := taikoMultipliers_pos
  have hs : (0 : ℝ) ≤ i.staminaDV * taikoStaminaMultiplier := mul_nonneg H.stamina m4.le
  have hm : (0 : ℝ) ≤ i.monoStaminaDV * taikoStaminaMultiplier := mul_nonneg H.mono m4.le
  obtain ⟨f0, f1⟩ := taikoMonoStaminaFactor_mem hs hm
  have := f1 (mul_le_mul_of_nonneg_right hle m4.le)
  exact ⟨f0, lt_of_le_of_lt this (by norm_num)⟩

/-! ## catch, mania -/

theorem catch_stars (dv : ℝ) (h : 0 ≤ dv) :
    catchStarsDom dv = true ∧ 0 ≤ catchStars dv ∧ catchStars (0 : ℝ) = 0 :=
  ⟨catchStarsDom_true h, catchStars_nonneg dv, catchStars_zero⟩

theorem mania_stars (dv : ℝ) (h : 0 ≤ dv) : 0 ≤ maniaStars dv ∧ maniaStars (0 : ℝ) = 0 :=
  ⟨maniaStars_nonneg h, maniaStars_zero⟩

/-! ## strain skeleton -/

open Rosu.Skill Rosu.SV in
/-- Every exported peak (`strains()`, the input of `difficulty_value`) of every skill built by
`define_skill!` inherits any property `Pr` of bit patterns that holds for `+0.0`, is closed under
`f64::max`, and holds for every value `strain_value_at` / `calculate_initial_strain` return while the
skill's private state satisfies an invariant they preserve — for every object list and fuel. -/
theorem peaks_inherit {T P σ : Type} (A : Arith T) (F : StrainFns T P σ) (Inv : σ → Prop) (Pr : Nat → Prop)
    (hb : Bounded A F) (hc : PeakClosed A F Inv Pr) (fuel : Nat) (zero : T) (s0 : σ) (h0 : Inv s0)
    (os : List (Obj T P)) (st : State T σ)
    (h : processAll A F fuel (State.init zero s0) os = some st) (hl : st.peaks.len + 1 < SIGN) :
    exportPeaks st = some (currentStrainPeaks st).abs ∧ ∀ x ∈ (currentStrainPeaks st).abs, Pr x :=
  exported_peaks_allP A F Inv Pr hb hc fuel zero s0 h0 os st h hl

open Rosu.Skill Rosu.SV in
/-- "non-negative and not NaN" (`pattern ≤ +inf`) is such a property for the `f64::max` of the model
(`Nat.max` on patterns) -/
theorem nonneg_pattern_closed (a b : Nat) (ha : a ≤ INF) (hb : b ≤ INF) :
    (floatArith 400.0).fmax a b ≤ INF ∧ (0 : Nat) ≤ INF := by
  refine ⟨?_, Nat.zero_le _⟩
  show Nat.max a b ≤ INF
  exact Nat.max_le.2 ⟨ha, hb⟩

open Rosu.Skill Rosu.SV in
/-- two skills over the same objects whose values are pointwise ordered (patterns of non-negative
doubles) have pointwise ordered exported peaks, of the same number -/
theorem peaks_pointwise_le {T P σ σ' : Type} (A : Arith T) (F : StrainFns T P σ) (G : StrainFns T P σ')
    (RS : σ → σ' → Prop) (hbF : Bounded A F) (hbG : Bounded A G) (hp : PairLe A F G RS) (fuel : Nat)
    (zero : T) (s0 : σ) (s0' : σ') (h0 : RS s0 s0') (os : List (Obj T P)) (s1 : State T σ) (s1' : State T σ')
    (h : processAll A F fuel (State.init zero s0) os = some s1)
    (h' : processAll A G fuel (State.init zero s0') os = some s1') (hl : s1.peaks.len + 1 < SIGN) :
    List.Forall₂ (· ≤ ·) (currentStrainPeaks s1).abs (currentStrainPeaks s1').abs :=
  exported_peaks_le A F G RS hbF hbG hp fuel zero s0 s0' h0 os s1 s1' h h' hl

/-- the decay recurrence `current_strain = current_strain·decay + evaluator·multiplier` keeps the running
strain, every strain value (times a bonus `≥ 0`) and every initial strain `≥ 0` when evaluator outputs,
decay factors and multiplier are `≥ 0` (any linearly ordered field) -/
theorem decay_strain_nonneg {K : Type} [Field K] [LinearOrder K] [IsStrictOrderedRing K]
    (mult cs0 : K) (hm : 0 ≤ mult) (h0 : 0 ≤ cs0) (steps : List (K × K))
    (h : ∀ s ∈ steps, 0 ≤ s.1 ∧ 0 ≤ s.2) (n : Nat) (bonus decay : K) (hb : 0 ≤ bonus) (hd : 0 ≤ decay) :
    0 ≤ StrainSkel.runStrain mult cs0 (steps.take n)
      ∧ 0 ≤ StrainSkel.runStrain mult cs0 (steps.take n) * bonus
      ∧ 0 ≤ StrainSkel.runStrain mult cs0 (steps.take n) * decay :=
  ⟨StrainSkel.runStrain_nonneg hm h0 _ (fun s hs => h s (List.mem_of_mem_take hs)),
    StrainSkel.strain_values_nonneg hm h0 steps h n hb, StrainSkel.strain_values_nonneg hm h0 steps h n hd⟩

/-- taiko stamina: per object the single-colour value `cs/(1+exp x)` is in `[0, cs·monolength_bonus]`, and
its section-initial strain `0` is `≤` the decayed strain of the normal skill — the premises of
`peaks_pointwise_le` for `single_color_stamina` vs `stamina` -/
theorem stamina_single_colour_le {K : Type} [Field K] [LinearOrder K] [IsStrictOrderedRing K]
    (cs e bonus decay : K) (hcs : 0 ≤ cs) (he : 0 ≤ e) (hb : 1 ≤ bonus) (hd : 0 ≤ decay) :
    0 ≤ cs / (1 + e) ∧ cs / (1 + e) ≤ cs * bonus ∧ (0 : K) ≤ cs * decay :=
  ⟨(StrainSkel.stamina_mono_value_le hcs he hb).1, (StrainSkel.stamina_mono_value_le hcs he hb).2,
    StrainSkel.stamina_mono_initial_le hcs hd⟩

/-! ### non-vacuity -/

example : TaikoEvalInOK ⟨1, 2, 3, 4, 3.5, 1200⟩ :=
  ⟨by norm_num, by norm_num, by norm_num, by norm_num, by norm_num⟩

end Rosu.C09c
