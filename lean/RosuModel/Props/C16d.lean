import RosuModel.Lemmas.TaikoSkillReal
import RosuModel.Props.C09c

/-!
# C16 / C09 — the four osu!taiko skills (five instances) with concrete evaluators

Model: `Model/TaikoSkill.lean` — stamina (both variants), reading, colour, rhythm evaluators and
skills over the PREPROCESSED per-object records `TRec` (what the skills read of the difficulty
objects, colour data and rhythm groups; every link resolved), plugged into the value-level section
loop of `Model/SkillOps.lean`.  The compiled driver runs these definitions with IEEE doubles
(`TSKILL` lines): per-object strains of the five skill instances, the exported peaks, and — through
`Model/StarsWire.lean` — the five ratings and the star rating, all compared bit for bit with /repo.

Theorems are about the instance over ℝ.  The only residual hypothesis is "the records come from the
preprocessing"; where a statement needs a property of the records it is spelled out.
-/

namespace Rosu.C16d
open Rosu.SkillOps Rosu.TaikoSkill
open Rosu.Skill (Obj)

/-- **(a) rhythm, reading, stamina, single-colour stamina: every evaluator output, object strain and
peak is `≥ 0` — for EVERY record list**, every great-hit-window, section arithmetic, fuel and
prefix: no hypothesis on the records at all (every divisor is `max(·, 1)`, `1 + exp(·)`, a
non-zero literal, or only feeds a comparison; `ratio_difficulty` ends in `max(·, 0)`; every `powf`
base is a product of non-negative factors). -/
theorem taiko_four_skills_nonneg (A : SecArith ℝ) (fuel : Nat) (hw : ℝ) (conv : Bool) (n : Nat)
    (objs : List (TObj ℝ)) (sk : Skills ℝ) (h : calculate A fuel hw conv n objs = .ok sk) :
    SkillNonneg sk.rhythm ∧ SkillNonneg sk.reading ∧ SkillNonneg sk.stamina ∧
      SkillNonneg sk.singleColorStamina := by
  unfold calculate at h
  dsimp only at h
  cases h1 : processAllV A FOps.fmax (rhythmFns hw) fuel (StateV.init 0.0 (0.0, ())) (objs.take n) with
  | panic => rw [h1] at h; cases h
  | fuel => rw [h1] at h; cases h
  | ok s1 =>
    cases h2 : processAllV A FOps.fmax (readingFns : FnsV ℝ _ _) fuel (StateV.init 0.0 (0.0, 0.0)) (objs.take n) with
    | panic => rw [h1, h2] at h; cases h
    | fuel => rw [h1, h2] at h; cases h
    | ok s2 =>
      cases h3 : processAllV A FOps.fmax (colorFns (objs.map fun o => o.data.ratio)) fuel
          (StateV.init 0.0 (0.0, ())) (objs.take n) with
      | panic => rw [h1, h2, h3] at h; cases h
      | fuel => rw [h1, h2, h3] at h; cases h
      | ok s3 =>
        cases h4 : processAllV A FOps.fmax (staminaFns false conv : FnsV ℝ _ _) fuel (StateV.init 0.0 0.0) (objs.take n) with
        | panic => rw [h1, h2, h3, h4] at h; cases h
        | fuel => rw [h1, h2, h3, h4] at h; cases h
        | ok s4 =>
          cases h5 : processAllV A FOps.fmax (staminaFns true conv : FnsV ℝ _ _) fuel (StateV.init 0.0 0.0) (objs.take n) with
          | panic => rw [h1, h2, h3, h4, h5] at h; cases h
          | fuel => rw [h1, h2, h3, h4, h5] at h; cases h
          | ok s5 =>
            rw [h1, h2, h3, h4, h5] at h
            simp only [Res.bind, Res.ok.injEq] at h
            subst h
            have all : ∀ o ∈ objs.take n, (fun _ : TObj ℝ => True) o := fun _ _ => trivial
            exact ⟨skillNonneg_of_ok (processAllV_inv A FOps.fmax _ (rhythmFns_ok hw) hmax fuel _ _ _ all
                (init_ok _ _ zero_ok ⟨zero_ok, trivial⟩) h1),
              skillNonneg_of_ok (processAllV_inv A FOps.fmax _ readingFns_ok hmax fuel _ _ _ all
                (init_ok _ _ zero_ok ⟨zero_ok, zero_ok⟩) h2),
              skillNonneg_of_ok (processAllV_inv A FOps.fmax _ (staminaFns_ok false conv) hmax fuel _ _ _ all
                (init_ok _ _ zero_ok zero_ok) h4),
              skillNonneg_of_ok (processAllV_inv A FOps.fmax _ (staminaFns_ok true conv) hmax fuel _ _ _ all
                (init_ok _ _ zero_ok zero_ok) h5)⟩

/-- the full statement "every colour evaluator output is `≥ 0`" -/
def ColorEvalNonneg : Prop :=
  ∀ (ratios : List ℝ) (o : TObj ℝ) (v : ℝ), (∀ r ∈ ratios, 0 < r) → colorEval ratios o = some v → 0 ≤ v

/-- **colour: the full statement is FALSE.**  `consistent_ratio_penalty` returns
`1 − 0.4·ratio` for a consistent rhythm ratio, which is `−0.2` for the common ratio `3`: an object
that starts a repeating pattern after two objects of ratio 3 gets a negative colour difficulty.
(On the real code such object strains occur — counter `tskill:negative-color-object-strain` — and
are the reason `StrainsVec::push` stores non-positive peaks as `+0.0`; the former `raw_strains`
defect, fixed in f85990a, came from exactly this.) -/
theorem color_eval_nonneg_fails : ¬ ColorEvalNonneg := by
  intro h
  let d : TRec ℝ := ⟨true, 100, 120, 3, none, none, 0, none, none, none, none, none, none, some 0, none, none⟩
  have hv : colorEval [3, 3, 3] (⟨2, 0, d⟩ : TObj ℝ) = some (colorTerms d * (1.0 - (0.0 + 3) / 2.0 * 0.8)) := by
    unfold colorEval consistentRatioPenalty
    have : ratioLoop ([3, 3, 3] : List ℝ) (2 - 128) 65 2 = some (some (0.0 + 3)) := by
      unfold ratioLoop
      simp only [show ¬ (2 < 2 - 128 + 2) by omega, if_false, List.getElem?_cons_succ, List.getElem?_cons_zero,
        show (2 - 2 : Nat) = 0 by omega]
      have : FOps.le (FOps.abs ((1.0 : ℝ) - 3 / 3)) 0.01 = true := by
        rw [r_le, r_abs]; norm_num
      rw [if_pos this]
    rw [this]
  have hpos : 0 < colorTerms d := by
    unfold colorTerms addOpt
    simp only [d, Option.map_none, Option.map_some]
    rw [r_add, r_zero]
    have := (evalRep_mem 0).1
    linarith
  have := h [3, 3, 3] ⟨2, 0, d⟩ _ (by intro r hr; simp at hr; rw [hr]; norm_num) hv
  have hneg : ((1.0 : ℝ) - (0.0 + 3) / 2.0 * 0.8) < 0 := by norm_num
  nlinarith

/-- **colour, strongest partial**: when every rhythm ratio in the window is `≤ 2.5` (eight of the
nine `COMMON_RATIOS`) every colour object strain and peak is `≥ 0`. -/
theorem taiko_color_nonneg_partial (A : SecArith ℝ) (fuel : Nat) (n : Nat)
    (objs : List (TObj ℝ)) (hr : ∀ o ∈ objs, o.data.ratio ≤ 2.5) (st : StateV ℝ (ℝ × Unit))
    (h : processAllV A FOps.fmax (colorFns (objs.map fun o => o.data.ratio)) fuel
      (StateV.init 0.0 (0.0, ())) (objs.take n) = .ok st) : SkillNonneg st := by
  have hr' : ∀ r ∈ objs.map (fun o => o.data.ratio), r ≤ 2.5 := by
    intro r hrm
    obtain ⟨o, ho, rfl⟩ := List.mem_map.mp hrm
    exact hr o ho
  exact skillNonneg_of_ok (processAllV_inv A FOps.fmax _ (colorFns_ok _ hr') hmax fuel _ _ _
    (fun _ _ => trivial) (init_ok _ _ zero_ok ⟨zero_ok, trivial⟩) h)

/-- non-vacuity of `taiko_color_nonneg_partial`: the common ratios 1, 2, 1/2, 1/3, 3/2, 2/3, 5/4, 4/5 -/
example : ∀ r ∈ ([1, 2, 1 / 2, 1 / 3, 3 / 2, 2 / 3, 5 / 4, 4 / 5] : List ℝ), r ≤ 2.5 := by
  intro r hr
  simp only [List.mem_cons, List.not_mem_nil, or_false] at hr
  rcases hr with rfl | rfl | rfl | rfl | rfl | rfl | rfl | rfl <;> norm_num

/-- **(b) ranges and side conditions.**  `speed_bonus ∈ (0, 20]` (its divisor is `max(·, 1) ≥ 1`);
`monolength_bonus ∈ [1, 1.3]`; every `logistic` has denominator `1 + exp(·) > 0` and value in
`[0, max_value]`; `density_penalty ∈ [0, 1]`; the capped `effective_bpm` is `≥ 1`
(`21000 / effective_bpm` is safe); `repeated_interval_penalty ≥ 0.4`; the three colour pattern terms
lie in `(0, 2)`, `(0, 2)`, `(0, 1)`; the base of `powf(·, 0.75)` in the rhythm evaluator is `≥ 0`. -/
theorem taiko_ranges :
    (∀ x : ℝ, 0 < speedBonus x ∧ speedBonus x ≤ 20) ∧
    (∀ i : Int, 1 ≤ (monolengthBonus i : ℝ) ∧ (monolengthBonus i : ℝ) ≤ 1.3) ∧
    (∀ x m k mv : ℝ, 0 ≤ mv → 0 < 1 + Real.exp (k * (m - x)) ∧ 0 ≤ logistic x m k mv ∧ logistic x m k mv ≤ mv) ∧
    (∀ o : TObj ℝ, 0 ≤ densityPenalty o ∧ densityPenalty o ≤ 1 ∧ 1 ≤ cappedBpm o) ∧
    (∀ (g : RhythmGroup ℝ) (hw : ℝ), 0.4 ≤ repeatedIntervalPenalty g hw) ∧
    (∀ i, 0 < (evalRep i : ℝ) ∧ (evalRep i : ℝ) < 2) ∧ (∀ a, 0 < (evalAlt a : ℝ) ∧ (evalAlt a : ℝ) < 2) ∧
    (∀ m, 0 < (evalMono m : ℝ) ∧ (evalMono m : ℝ) < 1) ∧
    (∀ (g : RhythmGroup ℝ) (hw : ℝ), 0 ≤ applyDuration g hw (applyDurationDiff g hw
      (ratioDifficulty g.intervalRatio * repeatedIntervalPenalty g hw))) := by
  refine ⟨speedBonus_mem, monolengthBonus_mem, fun x m k mv h => logistic_mem x m k h,
    fun o => ⟨(densityPenalty_mem o).1, (densityPenalty_mem o).2, cappedBpm_ge_one o⟩, ?_, evalRep_mem,
    evalAlt_mem, evalMono_mem, evaluateGroup_base_nonneg⟩
  intro g hw
  rcases repeatedIntervalPenalty_mem g hw with h | ⟨_, _, h⟩
  · exact h.1
  · exact h

/-- **(c) single-colour stamina never exceeds stamina, per object, for the concrete skill**: both
variants carry the same running strain `current_strain` (same decay, same evaluator); the
single-colour value `current_strain / (1 + exp(·))` is `≤ current_strain`, the normal value
(`current_strain`, or `current_strain · monolength_bonus` with a bonus `≥ 1`) is `≥ current_strain`;
the single-colour section-initial strain is `0`. -/
theorem taiko_mono_stamina_le_stamina (conv : Bool) (cur : ℝ) (hc : 0 ≤ cur) (o : TObj ℝ) (t : ℝ) :
    (staminaValueAt true conv cur o).1 = (staminaValueAt false conv cur o).1 ∧
    (staminaValueAt true conv cur o).2 ≤ (staminaValueAt false conv cur o).2 ∧
    staminaInitial true cur t o ≤ staminaInitial false cur t o := by
  have h1 := staminaValueAt_spec true conv hc o
  have h2 := staminaValueAt_spec false conv hc o
  have he : (staminaValueAt true conv cur o).1 = (staminaValueAt false conv cur o).1 := by
    rw [staminaValueAt_cur, staminaValueAt_cur]
  refine ⟨he, ?_, ?_⟩
  · have a := h1.2.2.1 rfl
    have b := h2.2.2.2 rfl
    linarith
  · have := staminaInitial_nonneg false hc t o
    have h0 : staminaInitial true cur t o = 0 := by simp only [staminaInitial, if_true, r_zero]
    rw [h0]
    exact this

/-- **(d) taiko ratings and stars `≥ 0` for the concrete skills.**  For the five skill states any
run of `calculate` returns, the five difficulty values are `≥ 0` (for colour because
`StrainsVec::push` stores a non-positive peak as `+0.0`), so the hypothesis `TaikoEvalInOK` of the
`eval` theorems of `Props/C09c.lean` holds and every rating, `mono_stamina_factor` and the star
rating are `≥ 0` — whatever the weighted strain count `cnt` and the mod flags are. -/
theorem taiko_ratings_stars_nonneg (sk : Skills ℝ) (cnt : ℝ) (rx conv : Bool) (r rd c s : List ℝ) :
    let i : Rosu.PerfCalc.TaikoEvalIn ℝ :=
      ⟨difficultyValueOf sk.rhythm, difficultyValueOf sk.reading, difficultyValueOf sk.color,
        difficultyValueOf sk.stamina, difficultyValueOf sk.singleColorStamina, cnt⟩
    Rosu.PerfCalc.TaikoEvalInOK i ∧
      0 ≤ (Rosu.PerfCalc.taikoEval i (Rosu.PerfCalc.taikoCombinedRating 0 rx conv r rd c s)).stars := by
  intro i
  have dv : ∀ {σ : Type} (st : StateV ℝ σ), 0 ≤ difficultyValueOf st := by
    intro σ st
    unfold difficultyValueOf
    rw [aggOps_real]
    exact Rosu.Agg.difficultyValue_nonneg (by simp only [decayWeight, r_lit]; norm_num) (exportPeaksV_nonneg st)
  have H : Rosu.PerfCalc.TaikoEvalInOK i := ⟨dv _, dv _, dv _, dv _, dv _⟩
  exact ⟨H, Rosu.C09c.taiko_eval_stars_nonneg i H rx conv r rd c s⟩

end Rosu.C16d
