import RosuModel.Lemmas.PipelineManiaReal

/-!
# C02 (with C14, C16, C06) — native osu!mania END TO END: from the bytes of the file to the attributes

Model: `Model/PipelineMania.lean` — `maniaDifficulty bytes mods customRate take` composes worker
DEC's byte reader and line parsers (`DecodeLine.fromBytes`), the preparation (`ManiaObject::new`:
column from x and `cs.round_ties_even().max(1.0)`, end times, combo increments), the concrete
`Strain` skill with the section loop and the aggregation (`Model/ManiaSkill.lean`), C14's counting
model and, for the gradual calculator, `Gradual.maniaMachine` instantiated with the CONCRETE skill.
`PIPE mania` lines compare it bit for bit with `Beatmap::from_bytes` + `Difficulty::calculate` +
`ManiaGradualDifficulty` on the same bytes.

Statements marked "every arithmetic" hold for every `FOps` / `PrepOps` instance (hence the IEEE one
that is tied to the code); the others are about the real-number instance.
-/

namespace Rosu.C02d
open Rosu.SkillOps Rosu.PipelineMania Rosu.DecodeLine Rosu.Gradual

section Every
variable {R S : Type} [FOps R] [FOps S] (P : PrepOps R S)

/-- **(3) gradual = one-shot, nothing abstract left, every arithmetic.**  For the prepared objects
of any file: the `i`-th value of `ManiaGradualDifficulty` (the gradual machine of
`Model/Gradual.lean` run with the concrete `Strain` skill over the difficulty objects built from
ALL objects) is the one-shot result for `passed_objects = i` — same stars (bit for bit in the IEEE
instance), same counts, same panic / fuel outcome —, there are exactly as many values as objects,
and any `passed_objects ≥` the object count gives the full calculation (so the last gradual value
is the full result). -/
theorem mania_pipeline_gradual_eq_oneshot (A : SecArith R) (fuel : Nat) (rate : R) (cols : Nat)
    (l : List (Prepared R)) :
    gradualValues A fuel rate cols l
        = (List.range l.length).map (fun i => oneShot A fuel rate cols (i + 1) l) ∧
      ∀ take, l.length ≤ take → oneShot A fuel rate cols take l = oneShot A fuel rate cols l.length l := by
  constructor
  · unfold gradualValues
    dsimp only
    rw [(Rosu.Gradual.mania_next_eq_prefix _ _).1]
    simp only [List.length_map, List.map_map]
    apply List.map_congr_left
    intro d _
    simp only [Function.comp]
    unfold oneShot maniaOneShot
    dsimp only
    have hp := processedPrefix_concrete A fuel rate cols (l.map (·.obj)) (d + 1)
    have hlen : ((l.map (·.count)).take (d + 1)).length = ((l.map (·.obj)).take (d + 1)).length := by
      simp
    rw [hlen, hp]
    cases ManiaSkill.calculate A fuel rate cols (d + 1) (l.map (·.obj)) <;> simp
  · intro take ht
    unfold oneShot
    have h1 := Rosu.Gradual.mania_last_eq_full (⟨(), fun _ _ => ()⟩ : Skills Unit) (l.map (·.count)) take (by simpa using ht)
    simp only [List.length_map] at h1
    rw [h1]
    have h2 : ManiaSkill.calculate A fuel rate cols take (l.map (·.obj))
        = ManiaSkill.calculate A fuel rate cols l.length (l.map (·.obj)) := by
      unfold ManiaSkill.calculate
      rw [List.take_of_length_le (by simpa using ht), List.take_of_length_le (by simp)]
    rw [h2]

/-- **(1) counts from raw bytes, every arithmetic.**  Whenever the pipeline answers: the file
decoded (no io error) as a mania map, its object vector exists, one prepared object per decoded
object line, `n_objects = min(passed_objects, accepted object lines)`, `max_combo` / `n_hold_notes`
are the sums over the first `n_objects` prepared objects exactly as C14's counting model says, and
`is_convert = false`. -/
theorem mania_pipeline_counts (A : SecArith R) (fuel : Nat) (bytes : List UInt8) (mods : Nat)
    (custom take : Option Nat) (a : Attrs R)
    (h : maniaDifficulty P A fuel bytes mods custom take = .ok a) :
    ∃ d objs snds l cols, fromBytes bytes = some d ∧ d.mode = 3 ∧ d.objects = some (objs, snds) ∧
      prepared P bytes = .ok (l, cols) ∧ l.length = objs.length ∧
      a.nObjects = min (take.getD (2 ^ 64 - 1)) objs.length ∧
      a.maxCombo = (((l.map (·.count)).take (take.getD (2 ^ 64 - 1))).map (·.incOne)).sum ∧
      a.nHoldNotes = (((l.map (·.count)).take (take.getD (2 ^ 64 - 1))).filter (fun o => !o.isCircle)).length ∧
      a.isConvert = false := by
  unfold maniaDifficulty at h
  cases hp : prepared P bytes with
  | ok r =>
    obtain ⟨l, cols⟩ := r
    rw [hp] at h
    simp only at h
    unfold prepared at hp
    cases hb : fromBytes bytes with
    | none => rw [hb] at hp; cases hp
    | some d =>
      rw [hb] at hp
      simp only at hp
      unfold preparedOf at hp
      split at hp
      · cases hp
      · rename_i hmode
        cases ho : d.objects with
        | none => rw [ho] at hp; cases hp
        | some os =>
          obtain ⟨objs, snds⟩ := os
          rw [ho] at hp
          simp only at hp
          cases hpa : prepareAll P (totalColumns P (P.dec32 (unkey32 d.diff.cs))) (objs.map (·.2)) with
          | none => rw [hpa] at hp; cases hp
          | some l' =>
            rw [hpa] at hp
            simp only [Out.ok.injEq, Prod.mk.injEq] at hp
            obtain ⟨rfl, rfl⟩ := hp
            have hlen : l'.length = objs.length := by
              rw [prepareAll_length P _ _ _ hpa]; simp
            unfold oneShot at h
            cases hc : ManiaSkill.calculate A fuel (P.dec64 (clockRateBits mods custom))
                (P.toUsize (totalColumns P (P.dec32 (unkey32 d.diff.cs)))) (take.getD (2 ^ 64 - 1)) (l'.map (·.obj)) with
            | ok st =>
              rw [hc] at h
              simp only [Out.ok.injEq] at h
              subst h
              refine ⟨d, objs, snds, l', P.toUsize (totalColumns P (P.dec32 (unkey32 d.diff.cs))), rfl, by simpa using hmode, ho, ?_, hlen, ?_, rfl, rfl, rfl⟩
              · simp only [prepared, preparedOf, hb, hmode, if_false, ho, hpa]
              · simp only [attrsOf, maniaOneShot, List.length_map, hlen]
            | panic => rw [hc] at h; cases h
            | fuel => rw [hc] at h; cases h
  | ioError => rw [hp] at h; cases h
  | notMania m => rw [hp] at h; cases h
  | unsupported => rw [hp] at h; cases h
  | panic => rw [hp] at h; cases h
  | fuel => rw [hp] at h; cases h

/-- **(4) ignored sections do not reach the result, every arithmetic.**  Appending the header of a
section whose parser ignores its lines (`[Editor]`, `[Metadata]`, `[Colours]`, `[Variables]`,
`[CatchTheBeat]`, `[Mania]`) and ANY lines without a section header to the reader's lines leaves
the prepared objects — hence every attribute and every gradual value — unchanged.  (The pipeline is
a function of the bytes: determinism needs no theorem.) -/
theorem mania_pipeline_ignores_noop_sections (ls g : List Str) (hdr : Str) (s : Sec)
    (hs : secOfLine hdr = some s) (hn : s.isNoop = true) (hg : ∀ l ∈ g, secOfLine l = none) :
    preparedOf P (finish (decodeLines (ls ++ hdr :: g))) = (preparedOf P (finish (decodeLines ls)) : PipelineMania.Out (List (Prepared R) × Nat)) := by
  rw [Rosu.C06b.decode_append_ignored_section ls g hdr s hs hn hg]

/-- **totality at the decoding stage, every arithmetic**: for EVERY byte list the decode +
preparation stage answers `ioError` (exactly DEC's UTF-16LE class), `notMania`, `unsupported`
(a slider line) or `ok` — never `panic`, never `fuel`. -/
theorem mania_pipeline_decode_total (bytes : List UInt8) :
    (prepared P bytes : PipelineMania.Out (List (Prepared R) × Nat)) ≠ .panic ∧ prepared P bytes ≠ .fuel := by
  refine ⟨prepared_ne_panic P bytes, ?_⟩
  unfold prepared preparedOf
  cases fromBytes bytes with
  | none => simp
  | some d =>
    simp only
    split
    · simp
    · cases d.objects with
      | none => simp
      | some os =>
        simp only
        split <;> simp

end Every

/-- **(2) stars ≥ 0 and no panic for EVERY byte list (ℝ).**  For every byte list, every mod bits,
clock rate and `passed_objects`, every reading of the bit patterns (`dec64`, `dec32`) and every
rounding function, with `as usize` any monotone truncation (`PrepOK`; `realPrep` is one): the
pipeline never panics, and whenever it answers, `stars ≥ 0`.  The two hypotheses of
`C16c.mania_skill_safe_nonneg` are discharged: `column < total_columns` by
`column_lt` (x and cs arbitrary), sortedness is not needed for the sign. -/
theorem mania_pipeline_stars_nonneg (P : PrepOps ℝ ℝ) (hP : PrepOK P) (A : SecArith ℝ) (fuel : Nat)
    (bytes : List UInt8) (mods : Nat) (custom take : Option Nat) :
    maniaDifficulty P A fuel bytes mods custom take ≠ .panic ∧
      ∀ a, maniaDifficulty P A fuel bytes mods custom take = .ok a → 0 ≤ a.stars := by
  unfold maniaDifficulty
  cases hp : prepared P bytes with
  | ok r =>
    obtain ⟨l, cols⟩ := r
    simp only
    -- columns are in range
    have hcol : ∀ o ∈ l.map (·.obj), o.column < cols := by
      unfold prepared at hp
      cases hb : fromBytes bytes with
      | none => rw [hb] at hp; cases hp
      | some d =>
        rw [hb] at hp
        simp only at hp
        unfold preparedOf at hp
        split at hp
        · cases hp
        · cases ho : d.objects with
          | none => rw [ho] at hp; cases hp
          | some os =>
            rw [ho] at hp
            simp only at hp
            cases hpa : prepareAll P (totalColumns P (P.dec32 (unkey32 d.diff.cs))) (os.1.map (·.2)) with
            | none => rw [hpa] at hp; cases hp
            | some l' =>
              rw [hpa] at hp
              simp only [Out.ok.injEq, Prod.mk.injEq] at hp
              obtain ⟨rfl, rfl⟩ := hp
              intro o ho'
              obtain ⟨p, hpm, rfl⟩ := List.mem_map.mp ho'
              obtain ⟨h', _, e⟩ := prepareAll_columns P _ _ _ hpa p hpm
              rw [e]
              exact column_lt P hP _ _ (totalColumns_ge_one P _)
    have hs := Rosu.C16c.mania_skill_safe_nonneg A fuel (P.dec64 (clockRateBits mods custom)) cols
      (take.getD (2 ^ 64 - 1)) (l.map (·.obj)) hcol
    unfold oneShot
    cases hc : ManiaSkill.calculate A fuel (P.dec64 (clockRateBits mods custom)) cols
        (take.getD (2 ^ 64 - 1)) (l.map (·.obj)) with
    | ok st =>
      refine ⟨by simp, ?_⟩
      intro a ha
      simp only [Out.ok.injEq] at ha
      subst ha
      exact (hs.2 st hc).2.2.2.2.2.2
    | panic => exact absurd hc hs.1
    | fuel => exact ⟨by simp, by intro a ha; cases ha⟩
  | ioError => exact ⟨by simp, by intro a ha; cases ha⟩
  | notMania m => exact ⟨by simp, by intro a ha; cases ha⟩
  | unsupported => exact ⟨by simp, by intro a ha; cases ha⟩
  | panic => exact absurd hp (prepared_ne_panic P bytes)
  | fuel => exact ⟨by simp, by intro a ha; cases ha⟩

/-- non-vacuity: the real-number preparation satisfies `PrepOK` -/
example : PrepOK (realPrep (fun _ => 0) (fun _ => 4) id) := realPrep_ok _ _ _

end Rosu.C02d
