import RosuModel.Lemmas.PipelineCurve
import RosuModel.Lemmas.CurvePipelineFuel
import RosuModel.Lemmas.CurveDecodeBound

/-!
# C09 / C02 / C05 — the osu! pipeline from the bytes of the file, curve INCLUDED (`PIPE osuc`)

`Model/PipelineCurve.lean` closes the last typed input of `PipelineBytes.osuDifficultyFromBytes`: the
`CurveInputs` (per slider `path.dist()`, the nested positions in their sorted order, the raw lazy end) are
computed by `curveInputsOfModel` from the decoded control points with `Model/Curve.lean` (rosu-map's
`curve.rs`) and the slider-event model.  What is left outside: the attribute-builder outputs and the
settings.  Tied by the `PIPE osuc` lines of the C09 run (same response as `PIPE osub`, which takes the curve
inputs from the hook).  Theorems for EVERY arithmetic (hence the IEEE instances that are tied):
-/
namespace Rosu.PipelineCurve
open Rosu.DecodeLine Rosu.PipelineBytes

variable {R S : Type}

/-- The curve stage never fails with a panic of the curve model — the only failures are fuel and the
`clamp` assertion of `SliderEventsIter::new` (`path.dist()` negative or NaN) — and it supplies exactly one
`SliderCurve` per slider line, whatever the decoded objects are. -/
theorem curve_inputs_of_model_safe (O : BOps R S) (A : Rosu.ConvOsu.Ar R S)
    (E : Rosu.SliderEvents.Arith R) (C : Rosu.Curve.Arith S R) (F : FoldOps R) (fuel : Nat)
    (d : Decoded) (objs : List HObj) :
    curveInputsOfModel O A E C F fuel d objs Bufs.empty ≠ .error .panic ∧
    ∀ l, curveInputsOfModel O A E C F fuel d objs Bufs.empty = .ok l → l.length = nSliders objs :=
  curveInputsOfModel_safe O A E C F fuel d objs Bufs.empty bufsWF_empty

variable [Rosu.PerfCalc.PPOps R]

/-- **`osu_from_bytes_with_curve_total`**: for every byte list the composed pipeline never answers
`missingInputs`, and a `panic` answer is never a panic of the decoder or of the curve model: it is either
`SliderEventsIter::new`'s `clamp` assertion in the curve stage or a panic of the downstream pipeline
(`osuDifficultyFromBytes`, PP's model) on the model's own curve inputs.  (Fuel: in exact arithmetic
`Props/C05f.curve_new_terminates_exact` bounds the curve's two loops by 4095 iterations for coordinates
within ±131072; the decoder's RELATIVE coordinates reach ±262144, for which the same `k = 11` works
(`32·(2^18)² = 2^41 ≤ ¼·16^11`) but is not restated here.) -/
theorem osu_from_bytes_with_curve_total (O : BOps R S) (A : Rosu.ConvOsu.Ar R S)
    (E : Rosu.SliderEvents.Arith R) (C : Rosu.Curve.Arith S R) (F : FoldOps R) (fuel : Nat)
    (bytes : List UInt8) (i : OsuInputs R) (take : Nat) :
    osuDifficultyFromBytesCurve O A E C F fuel bytes i take ≠ .missingInputs ∧
    (osuDifficultyFromBytesCurve O A E C F fuel bytes i take = .panic →
      ∃ d objs snd, Rosu.DecodeLine.fromBytes bytes = some d ∧ d.mode = 0 ∧
        d.objects = some (objs, snd) ∧
        (curveInputsOfModel O A E C F fuel d (objs.map (·.2)) Bufs.empty = .error .clampPanic ∨
         ∃ curves, curveInputsOfModel O A E C F fuel d (objs.map (·.2)) Bufs.empty = .ok curves ∧
           osuDifficultyFromBytes O A E fuel bytes i take curves = .panic)) :=
  osu_from_bytes_with_curve_total_lemma O A E C F fuel bytes i take

/-! ## the fuel half, in EXACT arithmetic -/

section exact
variable {K : Type} [Field K] [LinearOrder K] [IsStrictOrderedRing K] (T : Rosu.Curve.Transc K)

/-- **Every control point of every slider of every decoded file is an offset of magnitude `≤ 262144`**
(DEC's `read_point` / position bounds lifted over `convert_path_str` incl. the stale `curve_points`
prefix, all lines, and the sorted pairing). -/
theorem decoded_control_points_bounded (bytes : List UInt8) (d : Decoded)
    (h : fromBytes bytes = some d) (objs : List (Int × HObj)) (snd : List Nat)
    (ho : d.objects = some (objs, snd)) :
    ∀ p ∈ objs, ∀ r len ns cps, p.2.kind = .slider r len ns cps → ∀ c ∈ cps, CPBounded c :=
  fromBytes_control_points_bounded bytes d h objs snd ho

/-- **`osu_from_bytes_with_curve_fuel`** — the arithmetic: BOTH float types are an ordered field `K`
(`fieldArith T`: field operations, casts the identity, `i32 as f32` the integer cast, `atan2 ∈ [−π, π]`,
`π > 0`, the other libm calls uninterpreted); fuel `≥ 4095`.  For EVERY byte list: when the composed
pipeline answers `fuel`, the curve is not the cause — `Curve::new` returned for every slider (4095
iterations suffice for offsets within ±262144: the same `k = 11`) — and either some slider's
`SliderEventsIter` tick loop ran out of fuel on the model's `path.dist()` (its own budget:
`C05c.slider_events_total_bound`) or the downstream pipeline did.  NOT a statement about `f32`: there
termination of the bezier loop is searched, and `C05f.bezier_loop_can_spin` shows it cannot be proved for
arbitrary arithmetics. -/
theorem osu_from_bytes_with_curve_fuel [Rosu.PerfCalc.PPOps K] (hpi : 0 < T.pi)
    (hatan : ∀ y x, -T.pi ≤ T.atan2 y x ∧ T.atan2 y x ≤ T.pi)
    (O : BOps K K) (hO : ∀ n, O.ofI32 n = (n : K)) (A : Rosu.ConvOsu.Ar K K)
    (E : Rosu.SliderEvents.Arith K) (F : FoldOps K) (fuel : Nat) (hfuel : 4095 ≤ fuel)
    (bytes : List UInt8) (i : OsuInputs K) (take : Nat)
    (h : osuDifficultyFromBytesCurve O A E (Rosu.Curve.fieldArith T) F fuel bytes i take = .fuel) :
    ∃ d objs snd, fromBytes bytes = some d ∧ d.objects = some (objs, snd) ∧
      ((∃ o ∈ objs.map (·.2), ∃ r len ns cps, o.kind = .slider r len ns cps ∧
          EventsOutOfFuel O E fuel d o.time r) ∨
       ∃ curves, curveInputsOfModel O A E (Rosu.Curve.fieldArith T) F fuel d (objs.map (·.2))
            Bufs.empty = .ok curves ∧
          osuDifficultyFromBytes O A E fuel bytes i take curves = .fuel) := by
  refine osuFromBytesCurve_fuel T hpi hatan O hO A E F fuel hfuel bytes i take ?_ h
  intro d objs snd hb ho o hmem r len ns cps hk c hc
  obtain ⟨p, hp, rfl⟩ := List.mem_map.mp hmem
  exact fromBytes_control_points_bounded bytes d hb objs snd ho p hp r len ns cps hk c hc

/-- The curve of every decoded slider returns in exact arithmetic, in EVERY mode (`is_osu` arbitrary:
this is also the curve call of `PIPE catchcurve`, whose composition with the catch pipeline exists only
at the wire level), on any stale path and any well-formed buffers. -/
theorem decoded_slider_curve_terminates_exact (hpi : 0 < T.pi)
    (hatan : ∀ y x, -T.pi ≤ T.atan2 y x ∧ T.atan2 y x ≤ T.pi)
    (O : BOps K K) (hO : ∀ n, O.ofI32 n = (n : K)) (fuel : Nat) (hfuel : 4095 ≤ fuel)
    (bytes : List UInt8) (d : Decoded) (h : fromBytes bytes = some d)
    (objs : List (Int × HObj)) (snd : List Nat) (ho : d.objects = some (objs, snd))
    (p : Int × HObj) (hp : p ∈ objs) (r : Nat) (len : Option Nat) (ns : List Nat) (cps : List CP)
    (hk : p.2.kind = .slider r len ns cps) (isOsu : Bool) (prev : Array (Rosu.Curve.Pos K))
    (bez : Rosu.Curve.Bez K) (hb : Rosu.Curve.BezWF bez) :
    ∃ c b', Rosu.Curve.curveNew (Rosu.Curve.fieldArith T) fuel isOsu (controlPoints O cps)
      (len.map O.dec64) prev bez = .ok (c, b') :=
  Rosu.Curve.curveNew_total_wide T hpi hatan fuel hfuel isOsu (controlPoints O cps)
    (len.map O.dec64) prev bez hb
    (controlPoints_bounded O hO cps
      (fromBytes_control_points_bounded bytes d h objs snd ho p hp r len ns cps hk))

end exact

end Rosu.PipelineCurve
