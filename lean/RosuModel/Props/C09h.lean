import RosuModel.Lemmas.PipelineCurve

/-!
# C09 / C02 / C05 — the osu! pipeline from the bytes of the file, curve INCLUDED (`PIPE osuc`)

`Model/PipelineCurve.lean` closes the last typed input of `PipelineBytes.osuDifficultyFromBytes`: the
`CurveInputs` (per slider `path.dist()`, the nested positions in their sorted order, the raw lazy end) are
computed by `curveInputsOfModel` from the decoded control points with `Model/Curve.lean` (rosu-map's
`curve.rs`) and the slider-event model.  What is left outside: the attribute-builder outputs and the
settings.  Tied by the `PIPE osuc` lines of the C09 run (same response as `PIPE osub`, which takes the curve
inputs from the hook).  Theorems for EVERY arithmetic (hence the IEEE instances that are tied):
-/
namespace Rosu.PipelineCurve
open Rosu.DecodeLine Rosu.PipelineBytes

variable {R S : Type}

/-- The curve stage never fails with a panic of the curve model — the only failures are fuel and the
`clamp` assertion of `SliderEventsIter::new` (`path.dist()` negative or NaN) — and it supplies exactly one
`SliderCurve` per slider line, whatever the decoded objects are. -/
theorem curve_inputs_of_model_safe (O : BOps R S) (A : Rosu.ConvOsu.Ar R S)
    (E : Rosu.SliderEvents.Arith R) (C : Rosu.Curve.Arith S R) (F : FoldOps R) (fuel : Nat)
    (d : Decoded) (objs : List HObj) :
    curveInputsOfModel O A E C F fuel d objs Bufs.empty ≠ .error .panic ∧
    ∀ l, curveInputsOfModel O A E C F fuel d objs Bufs.empty = .ok l → l.length = nSliders objs :=
  curveInputsOfModel_safe O A E C F fuel d objs Bufs.empty bufsWF_empty

variable [Rosu.PerfCalc.PPOps R]

/-- **`osu_from_bytes_with_curve_total`**: for every byte list the composed pipeline never answers
`missingInputs`, and a `panic` answer is never a panic of the decoder or of the curve model: it is either
`SliderEventsIter::new`'s `clamp` assertion in the curve stage or a panic of the downstream pipeline
(`osuDifficultyFromBytes`, PP's model) on the model's own curve inputs.  (Fuel: in exact arithmetic
`Props/C05f.curve_new_terminates_exact` bounds the curve's two loops by 4095 iterations for coordinates
within ±131072; the decoder's RELATIVE coordinates reach ±262144, for which the same `k = 11` works
(`32·(2^18)² = 2^41 ≤ ¼·16^11`) but is not restated here.) -/
theorem osu_from_bytes_with_curve_total (O : BOps R S) (A : Rosu.ConvOsu.Ar R S)
    (E : Rosu.SliderEvents.Arith R) (C : Rosu.Curve.Arith S R) (F : FoldOps R) (fuel : Nat)
    (bytes : List UInt8) (i : OsuInputs R) (take : Nat) :
    osuDifficultyFromBytesCurve O A E C F fuel bytes i take ≠ .missingInputs ∧
    (osuDifficultyFromBytesCurve O A E C F fuel bytes i take = .panic →
      ∃ d objs snd, Rosu.DecodeLine.fromBytes bytes = some d ∧ d.mode = 0 ∧
        d.objects = some (objs, snd) ∧
        (curveInputsOfModel O A E C F fuel d (objs.map (·.2)) Bufs.empty = .error .clampPanic ∨
         ∃ curves, curveInputsOfModel O A E C F fuel d (objs.map (·.2)) Bufs.empty = .ok curves ∧
           osuDifficultyFromBytes O A E fuel bytes i take curves = .panic)) :=
  osu_from_bytes_with_curve_total_lemma O A E C F fuel bytes i take

end Rosu.PipelineCurve
