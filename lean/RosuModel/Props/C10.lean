import RosuModel.Lemmas.StrainsVecRefine
import RosuModel.Lemmas.Skill
import RosuModel.Gen.Features

/-!
# C10 — cargo features `raw_strains` and `sync` never change a result

`raw_strains` swaps the compact `StrainsVec` for a plain `Vec<f64>`.  The theorems show that on
every push sequence of the kind the strain skills produce (`+0.0` and patterns in `(0, +∞]`)
every observer the crate uses returns the same thing in both variants, state exactly where the
two variants differ, and check (against the *current* source text, `Gen/Features.lean`) that no
other feature-gated code exists.

The build-level part (four separately built binaries produce identical canonical dumps) is an
oracle on the implementation, run by `./check C10`.
-/

namespace Rosu.SV

section refinement

variable (bs : List Nat) (hg : ∀ b ∈ bs, goodPush b = true) (hl : bs.length < SIGN)
include hg hl

/-- `len()` agrees. -/
theorem compact_refines_raw_len :
    (SVec.empty.pushAll bs).len = (RVec.pushAll [] bs).len := by
  rw [(compact_of_good_pushes bs hg hl).2.2, rvec_pushAll bs hg]; simp [RVec.len]

/-- `iter()` agrees (and the compact iterator's `len` never underflows). -/
theorem compact_refines_raw_iter :
    (SVec.empty.pushAll bs).iterCollect = some (RVec.pushAll [] bs).iterCollect := by
  obtain ⟨hw, ha, _⟩ := compact_of_good_pushes bs hg hl
  rw [iterCollect_eq_abs _ (by rw [hw.lenEq]; exact Nat.le_refl _), ha, rvec_pushAll bs hg]
  simp [RVec.iterCollect]

/-- `into_vec()` agrees (and never builds an out-of-bounds raw slice). -/
theorem compact_refines_raw_into_vec :
    (SVec.empty.pushAll bs).intoVec = some (RVec.pushAll [] bs).intoVec := by
  rw [intoVec_eq_abs, (compact_of_good_pushes bs hg hl).2.1, rvec_pushAll bs hg]
  simp [RVec.intoVec]

/-- `retain_non_zero_and_sort()` + `transmute_into_vec()` agrees (`difficulty_value`). -/
theorem compact_refines_raw_retain_sort :
    (SVec.empty.pushAll bs).retainNonZeroAndSort.transmuteIntoVec
      = (RVec.pushAll [] bs).retainNonZeroAndSort.transmuteIntoVec := by
  obtain ⟨hw, ha, _⟩ := compact_of_good_pushes bs hg hl
  simp only [SVec.retainNonZeroAndSort, SVec.sortDesc, SVec.retainNonZero, SVec.transmuteIntoVec,
    RVec.retainNonZeroAndSort, RVec.sortDesc, RVec.retainNonZero, RVec.transmuteIntoVec]
  rw [filter_isValue_eq_filter_abs hw.entries]
  unfold SVec.abs at ha
  rw [ha, rvec_pushAll bs hg, List.nil_append, filter_rawPos_good hg]

/-- `sorted_non_zero_iter_mut()` + arbitrary in-place update of the first `k` items +
`sort_desc()` + `transmute_into_vec()` agrees (`osu::…::strain::difficulty_value`). -/
theorem compact_refines_raw_update (f : Nat → Nat → Nat) (k : Nat) :
    ((SVec.empty.pushAll bs).sortedNonZeroUpdate f k).sortDesc.transmuteIntoVec
      = (RVec.sortDesc ((RVec.pushAll [] bs).sortedNonZeroUpdate f k)).transmuteIntoVec := by
  have := compact_refines_raw_retain_sort bs hg hl
  simp only [SVec.transmuteIntoVec, RVec.transmuteIntoVec] at this
  simp only [SVec.sortedNonZeroUpdate, SVec.sortDesc, SVec.transmuteIntoVec,
    RVec.sortedNonZeroUpdate, RVec.sortDesc, RVec.transmuteIntoVec]
  rw [this]

/-- `sum()`: the compact variant adds the non-zero elements, the raw variant adds all elements,
in the same order … -/
theorem compact_refines_raw_sum_terms :
    (SVec.empty.pushAll bs).sumTerms = (RVec.pushAll [] bs).sumTerms.filter nonZeroBits := by
  obtain ⟨hw, ha, _⟩ := compact_of_good_pushes bs hg hl
  rw [Rosu.Skill.sumTerms_eq_exported hw, ha, rvec_pushAll bs hg]; simp [RVec.sumTerms]

/-- … so the two sums are equal for every addition in which `+0.0` is a right identity
(IEEE addition is, up to the sign of a zero result: `-0.0 + 0.0 = +0.0`, which is why C10
compares numerically). -/
theorem compact_refines_raw_sum {α : Type} (add : α → Nat → α) (h0 : ∀ a, add a 0 = a) (z : α) :
    (SVec.empty.pushAll bs).sumTerms.foldl add z = (RVec.pushAll [] bs).sumTerms.foldl add z := by
  rw [compact_refines_raw_sum_terms bs hg hl]
  exact Rosu.Skill.foldl_filter_zero add h0 _ z

end refinement

/-! ## all pushes except sign-positive NaN

Since the `raw_strains` variant canonicalises pushed values exactly like the compact variant
(negative numbers, `-0.0`, `-NaN`, `-∞` are stored as `+0.0`), the refinement extends from the
good pushes to every 64-bit pattern other than a sign-positive NaN. -/

section all_pushes

variable (bs : List Nat) (ho : ∀ b ∈ bs, okPush b = true) (hl : bs.length < SIGN)
include ho hl

theorem map_canon_all_good : ∀ b ∈ bs.map canon, goodPush b = true := by
  intro b hb
  obtain ⟨a, ha, rfl⟩ := List.mem_map.mp hb
  exact canon_ok_good (ho a ha)

theorem compact_refines_raw_all_observers (f : Nat → Nat → Nat) (k : Nat) :
    (SVec.empty.pushAll bs).len = (RVec.pushAll [] bs).len ∧
    (SVec.empty.pushAll bs).iterCollect = some (RVec.pushAll [] bs).iterCollect ∧
    (SVec.empty.pushAll bs).intoVec = some (RVec.pushAll [] bs).intoVec ∧
    (SVec.empty.pushAll bs).retainNonZeroAndSort.transmuteIntoVec
      = (RVec.pushAll [] bs).retainNonZeroAndSort.transmuteIntoVec ∧
    ((SVec.empty.pushAll bs).sortedNonZeroUpdate f k).sortDesc.transmuteIntoVec
      = (RVec.sortDesc ((RVec.pushAll [] bs).sortedNonZeroUpdate f k)).transmuteIntoVec ∧
    (SVec.empty.pushAll bs).sumTerms = (RVec.pushAll [] bs).sumTerms.filter nonZeroBits := by
  have hg := map_canon_all_good bs ho hl
  have hl' : (bs.map canon).length < SIGN := by simpa using hl
  rw [← svec_pushAll_canon bs, ← rvec_pushAll_canon bs]
  exact ⟨compact_refines_raw_len _ hg hl', compact_refines_raw_iter _ hg hl',
    compact_refines_raw_into_vec _ hg hl', compact_refines_raw_retain_sort _ hg hl',
    compact_refines_raw_update _ hg hl' f k, compact_refines_raw_sum_terms _ hg hl'⟩

end all_pushes

/-! ## where the variants (still) differ -/

/-- Negative pushes and `-0.0` are stored as `+0.0` by both variants now. -/
theorem raw_push_canonicalises :
    (RVec.pushAll [] [13830554455654793216, 9223372036854775808, 4607182418800017408]).intoVec
      = [0, 0, 4607182418800017408] ∧
    (SVec.empty.pushAll [13830554455654793216, 9223372036854775808, 4607182418800017408]).intoVec
      = some [0, 0, 4607182418800017408] := by decide

/-- Sign-positive NaN: compact keeps it through `retain_non_zero` (`is_value`), raw drops it
(`a > 0.0` is false). -/
theorem variants_differ_pos_nan :
    (SVec.empty.pushAll [9221120237041090560]).retainNonZero.transmuteIntoVec = [9221120237041090560] ∧
    (RVec.pushAll [] [9221120237041090560]).retainNonZero = [] := by decide

/-- `len()` *after* `retain_non_zero` (no caller does this): compact returns the pre-retain
length, raw the post-retain length. -/
theorem variants_differ_len_after_retain :
    ((SVec.empty.pushAll [0, 4607182418800017408]).retainNonZero).len = 2 ∧
    (RVec.retainNonZero (RVec.pushAll [] [0, 4607182418800017408])).len = 1 := by decide

/-- Outside `goodPush` the stored value differs from the pushed one exactly for sign-negative
patterns; sign-positive NaN is stored unchanged. -/
theorem canon_differs_iff (b : Nat) (hb : b < TWO64) : canon b ≠ b ↔ SIGN ≤ b := by
  unfold canon isValueBits
  by_cases h0 : b = 0
  · subst h0; simp [SIGN]
  · by_cases h1 : b < SIGN
    · have : 0 < b := by omega
      simp [this, h1]
    · have : SIGN ≤ b := by omega
      simp [h1, this]; omega

/-! ## feature-site inventory (regenerated from /repo on every run) -/

/-- Every `cfg(feature = …)` occurrence in `/repo/src` is one of the known sites: the two
`StrainsVec` modules, the two `sync::inner` modules, the `compile_fail` doc helper and the
`sync` unit test.  A new feature-gated code path breaks this obligation. -/
theorem feature_sites_accounted :
    Rosu.Gen.featureSites.all (fun s => Rosu.Gen.knownFeatureSites.contains s) = true := by
  decide

/-- The inventory is not empty (the extractor found the sites) and no site was lost. -/
theorem feature_sites_complete :
    Rosu.Gen.knownFeatureSites.all (fun s => Rosu.Gen.featureSites.contains s) = true ∧
    Rosu.Gen.cargoFeatures = ["default", "raw_strains", "sync", "tracing"] := by
  decide

/-! ## non-vacuity -/

example : ∀ b ∈ [0, 1, 4607182418800017408, INF], goodPush b = true := by decide

example : ∀ b ∈ [0, 1, INF, 9223372036854775808, 13830554455654793216, 18444492273895866368], okPush b = true := by decide

example : (SVec.empty.pushAll [4607182418800017408, 0, 0, 4611686018427387904]).retainNonZero.transmuteIntoVec
    = (RVec.pushAll [] [4607182418800017408, 0, 0, 4611686018427387904]).retainNonZero := by decide

end Rosu.SV
