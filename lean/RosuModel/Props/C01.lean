import RosuModel.Lemmas.Accounted
import RosuModel.Lemmas.Bpm
import RosuModel.Lemmas.Rng
import RosuModel.Lemmas.RngInit

/-!
# C01 — calculations are deterministic, pure functions of their inputs

Lean functions are deterministic by construction, so the content of this file is (1) an inventory
obligation over the regenerated list of every construct through which the Rust code could depend
on anything but its arguments, (2) order-independence of the one hash-map iteration (`bpm`),
(3) range/safety invariants of the two seeded PRNGs used by the converters, (4) the history-level
statement the differential oracle refers to.  The clause "for all histories of the real library"
is checked differentially by the harness and is labelled partial.
-/

namespace Rosu.C01
open Rosu.Gen.Inventory Rosu.Accounted

/-! ## (1) Inventory of nondeterminism sources (translator-generated, re-proved on every run) -/

/-- The scanner understood every shape it met (balanced braces, every gated item delimited). -/
theorem scanner_followed_every_shape : unparsed = [] := by decide

/-- Every site of a nondeterminism / shared-state construct in the library is in the reviewed
list, with multiplicity: a new or duplicated site breaks this theorem. -/
theorem sources_accounted : ∀ s ∈ sites, sites.count s ≤ accounted.count s := by decide

/-- No clock, RNG crate, environment / file / process / thread access, pointer-to-integer cast,
`static mut`, thread-local, lazily initialised global or atomic anywhere in the library. -/
theorem no_ambient_inputs : ∀ s ∈ sites, s.kind ∉ forbiddenKinds := by decide

/-- Hash containers (randomly seeded iteration order) occur in `bpm.rs` only. -/
theorem hash_iteration_only_in_bpm : ∀ s ∈ sites, s.kind = "hash" → s.file = "src/model/beatmap/bpm.rs" := by
  decide

/-- The verification hooks (compiled only with `--cfg rosu_pp_verif`) add no such construct. -/
theorem hooks_add_no_sources : ∀ s ∈ hookSites, s.kind ∉ forbiddenKinds ++ ["hash", "static", "lock", "cell"] := by
  decide

/-- Non-vacuity: the inventory is not empty and the obligation does reject an unreviewed site. -/
example : sites.length ≥ 30 ∧ scannedFiles ≥ 100 := by decide
example : ¬ ∀ s ∈ (⟨"src/catch/convert.rs", "hash", "let seen = HashSet::new();"⟩ :: sites),
    (⟨"src/catch/convert.rs", "hash", "let seen = HashSet::new();"⟩ :: sites).count s ≤ accounted.count s := by
  decide

/-! ## (2) `Beatmap::bpm`: the result does not depend on the hash map's iteration order -/

open Rosu.Bpm

/-- For every sequence of `add` calls (every list of timing sections), every duration type with
any addition, every order key, and EVERY iteration order `π` of the resulting map, `max_by`
selects the same entry as under insertion order. -/
theorem bpm_order_independent {D : Type} (zero : D) (plus : D → D → D) (rank : D → Int)
    (calls : List (Nat × Bool × D)) (π : List (Entry D)) (hπ : (accumulate zero plus calls).Perm π) :
    select rank π = select rank (accumulate zero plus calls) :=
  select_perm rank (accumulate_idx_nodup zero plus calls) hπ

/-- What is selected: an entry of maximal duration, and among those the one that appeared first;
`none` only for an empty map. -/
theorem bpm_selects_first_longest {D : Type} (rank : D → Int) (es : List (Entry D)) :
    match select rank es with
    | none => es = []
    | some r => r ∈ es ∧ ∀ e ∈ es, rank e.dur ≤ rank r.dur ∧ (rank e.dur = rank r.dur → r.idx ≤ e.idx) := by
  have h := select_spec rank es
  cases hs : select rank es with
  | none => rw [hs] at h; exact h
  | some r =>
    rw [hs] at h
    refine ⟨h.1, fun e he => ?_⟩
    have := h.2 e he
    unfold Better at this
    omega

/-- `idx` really is the order of first appearance: the accumulated map has `idx = position`. -/
theorem bpm_idx_is_first_appearance {D : Type} (zero : D) (plus : D → D → D) (calls : List (Nat × Bool × D)) :
    (accumulate zero plus calls).map (·.idx) = List.range (accumulate zero plus calls).length :=
  accumulate_idx zero plus calls

/-- The full statement for the comparator used before the fix. -/
def OldBpmOrderIndependent : Prop :=
  ∀ (es π : List (Entry Int)), (es.map (·.idx)).Nodup → es.Perm π → selectOld id π = selectOld id es

/-- Non-vacuity of (2): without the index tie-break the selection DOES depend on the order (two
beat lengths of equal total duration) — the defect fixed in /repo commit 86d9d03. -/
theorem old_bpm_order_dependent : ¬ OldBpmOrderIndependent := by
  intro h
  have := h [⟨500, 0, 1000⟩, ⟨250, 1, 1000⟩] [⟨250, 1, 1000⟩, ⟨500, 0, 1000⟩] (by decide) (by decide)
  revert this
  decide

/-- The same instance is fine with the current comparator. -/
example : select (D := Int) id [⟨500, 0, 1000⟩, ⟨250, 1, 1000⟩] = select id [⟨250, 1, 1000⟩, ⟨500, 0, 1000⟩] := by
  decide

/-! ## (3) PRNGs -/

open Rosu.Rng

/-- xorshift: `next_int()` is in `[0, 2^31)` for every state (so `next_double()` = `next_int/2^31`
is in `[0, 1)`). -/
theorem osu_next_int_range (s : Osu) : s.nextInt.1 < 2 ^ 31 := Osu.nextInt_lt s

/-- Exact `next_int_range(lo, hi)` (real arithmetic, then truncation towards zero like `as i32`):
for `lo < hi` the result is in `[lo, hi]`, and in `[lo, hi)` whenever `hi > 0`.  The f64
computation of the code is exact (hence equal to this) when `|lo|, |hi| < 2^21`; the driver checks
that on every correspondence case. -/
theorem osu_next_int_range_bounds (s : Osu) (lo hi : Int) (h : lo < hi) :
    lo ≤ (s.nextIntRangeExact lo hi).1 ∧ (s.nextIntRangeExact lo hi).1 ≤ hi ∧
    (0 < hi → (s.nextIntRangeExact lo hi).1 < hi) :=
  rangeExact_bounds lo hi _ h (Osu.nextInt_lt s)

/-- The half-open claim for arbitrary `lo < hi`. -/
def OsuRangeHalfOpen : Prop := ∀ (s : Osu) (lo hi : Int), lo < hi → (s.nextIntRangeExact lo hi).1 < hi

/-- It is false for `hi ≤ 0`: truncation towards zero rounds negative values up
(`next_int_range(-5, -2)` after `new(1337)` returns `-2`; the harness replays this on the real
generator).  All call sites in the converters pass `hi ≥ 1`. -/
theorem osu_range_half_open_fails : ¬ OsuRangeHalfOpen := by
  intro h
  have := h (Osu.new 1337).nextInt.2.nextInt.2.nextInt.2 (-5) (-2) (by decide)
  revert this
  decide

theorem osu_next_bool_cursor (s : Osu) (h : 1 ≤ s.bitIdx ∧ s.bitIdx ≤ 32) :
    1 ≤ s.nextBool.2.bitIdx ∧ s.nextBool.2.bitIdx ≤ 32 := Osu.nextBool_bitIdx s h

/-- .NET generator, one draw from any state satisfying the invariant: both cursors end in
`[1, 55]` (valid indices of `[i32; 56]`), the plain `i32` subtraction cannot overflow, the result
is in `[0, i32::MAX)`, and the invariant (all 56 entries in `[0, i32::MAX]`) is preserved. -/
theorem csharp_draw_safe (s : Csharp) (h : CsOk s) :
    (i32Min ≤ s.sa.getD (if s.inext + 1 >= 56 then 1 else s.inext + 1).toNat 0
        - s.sa.getD (if s.inextp + 1 >= 56 then 1 else s.inextp + 1).toNat 0 ∧
     s.sa.getD (if s.inext + 1 >= 56 then 1 else s.inext + 1).toNat 0
        - s.sa.getD (if s.inextp + 1 >= 56 then 1 else s.inextp + 1).toNat 0 ≤ i32Max) ∧
    (1 ≤ s.internalSample.2.inext ∧ s.internalSample.2.inext ≤ 55) ∧
    (1 ≤ s.internalSample.2.inextp ∧ s.internalSample.2.inextp ≤ 55) ∧
    (0 ≤ s.internalSample.1 ∧ s.internalSample.1 < i32Max) ∧
    CsOk s.internalSample.2 :=
  Csharp.internalSample_ok s h

/-- … hence for every number of draws. -/
theorem csharp_draws_safe (n : Nat) (s : Csharp) (h : CsOk s) :
    (∀ v ∈ (Csharp.draws n s).1, 0 ≤ v ∧ v < i32Max) ∧ CsOk (Csharp.draws n s).2 :=
  Csharp.draws_ok n s h

/-- The mixing rounds of `initialize` keep the invariant. -/
theorem csharp_mix_round_safe (sa : List Int) (h : SaOk sa) : SaOk (mixRound sa) := mixRound_ok sa h

/-- Exact `next_max(max)` for `max > 0`: in `[0, max)`. -/
theorem csharp_next_max_bounds (r max : Int) (hr : 0 ≤ r ∧ r < i32Max) (hm : 0 < max) :
    0 ≤ nextMaxExact r max ∧ nextMaxExact r max < max := by
  unfold nextMaxExact
  have h0 : 0 ≤ r * max := Int.mul_nonneg hr.1 (by omega)
  have h1 : r * max < i32Max * max := Int.mul_lt_mul_of_pos_right hr.2 hm
  rw [Int.tdiv_eq_ediv_of_nonneg h0]
  generalize r * max = p at h0 h1
  simp only [i32Max] at *
  omega

/-- `CompatPrng::initialize(seed)` establishes the invariant for EVERY `i32` seed (including
`i32::MIN`, whose `subtraction` is `i32::MAX`, and the seeds whose `mj = 161803398 - |seed|` is
negative).  Proof: closed linear form of the first loop modulo `i32::MAX`, invariant over the 55
steps of the first mixing round, a linear congruence for the two steps that touch the raw `mj`
(solved with the modular inverse), evaluation for the two magnitudes the congruences single out. -/
theorem csharp_new_safe (seed : Int) (h : i32Min ≤ seed ∧ seed ≤ i32Max) : CsOk (Csharp.new seed) :=
  Csharp.new_ok seed h

/-- Every seed, every number of draws: all indices valid, no `i32` overflow, outputs in
`[0, i32::MAX)`. -/
theorem csharp_all_draws_safe (seed : Int) (h : i32Min ≤ seed ∧ seed ≤ i32Max) (n : Nat) :
    (∀ v ∈ (Csharp.draws n (Csharp.new seed)).1, 0 ≤ v ∧ v < i32Max) ∧
    CsOk (Csharp.draws n (Csharp.new seed)).2 :=
  Csharp.draws_ok n _ (Csharp.new_ok seed h)

/-- The invariant is NOT an invariant of the initialisation loop itself: for `|seed|` =
1235545220 (resp. 614279151) step `i = 24` (resp. `i = 55`) of the first mixing round stores `-1`
(a `wrapping_sub` that lands on `i32::MIN`, plus `i32::MAX`).  Later rounds remove it before the
first draw — which is why `csharp_new_safe` needs the case split.  Both seeds are part of every
correspondence run. -/
theorem csharp_init_transient_minus_one :
    (mixStep ((List.range' 1 23).foldl mixStep (sa1 (161803398 - 1235545220))) 24).getD 24 0 = -1 ∧
    (mixRound (sa1 (161803398 - 614279151))).getD 55 0 = -1 :=
  transient_minus_one

/-- Non-vacuity: the hypotheses are satisfiable and the generator does real work. -/
example : (Csharp.draws 3 (Csharp.new 0)).1 = [1559595546, 1755192844, 1649316166] := by decide +kernel

/-! ## (4) History level -/

/-- A history of requests answered by a pure fulation. -/
def run {Req Resp : Type} (f : Req → Resp) (h : List Req) : List Resp := h.map f

/-- The answer to a request does not depend on its position or on what surrounds it. -/
theorem run_position_independent {Req Resp : Type} (f : Req → Resp) (pre post pre' post' : List Req) (r : Req) :
    (run f (pre ++ r :: post))[pre.length]? = (run f (pre' ++ r :: post'))[pre'.length]? := by
  simp [run]

/-- Repeating a request repeats the answer. -/
theorem run_repeat {Req Resp : Type} (f : Req → Resp) (h : List Req) (i j : Nat) (hi : i < h.length)
    (hj : j < h.length) (heq : h[i] = h[j]) :
    (run f h)[i]'(by simpa [run] using hi) = (run f h)[j]'(by simpa [run] using hj) := by
  simp [run, heq]

end Rosu.C01
