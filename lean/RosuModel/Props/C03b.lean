import RosuModel.Model.PipelinePerf
import RosuModel.Props.C02d
import RosuModel.Props.C02g
import RosuModel.Props.C04c
import RosuModel.Gen.GradualPerf

/-!
# C03 — gradual performance = one-shot performance with `passed_objects(i)` and the state, nothing abstract (mania)

`Model/PipelinePerf.lean: maniaGradualPerfValue` follows `ManiaGradualPerformance::nth` (chain in
`Gen/GradualPerf.lean`: `difficulty.nth(..)`, `.performance()`, `.state(state)`, `.difficulty(..)`,
`.passed_objects(idx)`, `.calculate()`): the `i`-th value of the gradual difficulty calculator with the CONCRETE skill,
then the attributes path with `passed_objects(i)` and the builder `fresh.state(s)`.  Tied by the gradual part of the
`PIPEP mania` lines (C04 run).  The other modes: `Props/C03c.lean`.
-/
namespace Rosu.C03b
open Rosu.PipelinePerf Rosu.PipelineMania Rosu.SkillOps Rosu.GenState Rosu.FullPerf Rosu.PerfCalc

variable {R S : Type} [FOps R] [FOps S] [NumOps R] [PPOps R] (P : PrepOps R S)

/-- **`gradual_perf_eq_oneshot_perf`** (mania from bytes, every arithmetic, EVERY score state — consistent with the
map or not): for a file whose preparation answers with `n` objects and every `1 ≤ i ≤ n`, advancing the gradual
performance calculator to the `i`-th object with state `s` gives what the one-shot `Performance` on the same bytes
with `passed_objects(i)` and `.state(s)` gives (pp, pp_difficulty and embedded difficulty attributes; failure
included).  Composition of `C02d.mania_pipeline_gradual_eq_oneshot` with congruence of the attributes path. -/
theorem mania_gradual_perf_eq_oneshot_perf (A : SecArith R) (fuel : Nat) (bytes : List UInt8) (mods : Nat)
    (rate : Option Nat) (lazer : Bool) (i : Nat) (s : ManiaState) (l : List (Prepared R)) (cols : Nat)
    (hp : prepared P bytes = .ok (l, cols)) (hi : 1 ≤ i) (hn : i ≤ l.length) :
    maniaGradualPerfValue P A fuel bytes mods rate lazer i s =
      outMap some (maniaPerfFromMap P A fuel bytes mods rate (some i) lazer .best (ManiaB.fresh.update s)) := by
  unfold maniaGradualPerfValue maniaPerfFromMap maniaDifficulty
  rw [hp]
  simp only
  have h0 : ¬ i = 0 := by omega
  rw [if_neg h0]
  have hg := (Rosu.C02d.mania_pipeline_gradual_eq_oneshot A fuel (P.dec64 (clockRateBits mods rate)) cols l).1
  rw [hg]
  have hidx : ((List.range l.length).map (fun k => oneShot A fuel (P.dec64 (clockRateBits mods rate)) cols (k + 1) l))[i - 1]?
      = some (oneShot A fuel (P.dec64 (clockRateBits mods rate)) cols i l) := by
    rw [List.getElem?_map, List.getElem?_range (by omega)]
    simp only [Option.map_some]
    congr 2
    omega
  rw [hidx]
  simp only [Option.getD_some]
  cases oneShot A fuel (P.dec64 (clockRateBits mods rate)) cols i l <;> rfl

/-- outside `1 … n` the gradual calculator yields nothing (the real `nth(state, k)` clamps `k` to the remaining
length first: documented behaviour of the chain's `min(len − 1)`) -/
theorem mania_gradual_perf_exhausted (A : SecArith R) (fuel : Nat) (bytes : List UInt8) (mods : Nat)
    (rate : Option Nat) (lazer : Bool) (i : Nat) (s : ManiaState) (l : List (Prepared R)) (cols : Nat)
    (hp : prepared P bytes = .ok (l, cols)) (hi : i = 0 ∨ l.length < i) :
    maniaGradualPerfValue P A fuel bytes mods rate lazer i s = .ok none := by
  unfold maniaGradualPerfValue
  rw [hp]
  simp only
  rcases hi with rfl | hi
  · rfl
  · have h0 : ¬ i = 0 := by omega
    rw [if_neg h0]
    have hg := (Rosu.C02d.mania_pipeline_gradual_eq_oneshot A fuel (P.dec64 (clockRateBits mods rate)) cols l).1
    rw [hg, List.getElem?_eq_none (by simp; omega)]

/-! ## taiko (file bytes) -/

section taiko
variable {R : Type} [FOps R] [NumOps R] [PPOps R] (O : Rosu.PipelineTaiko.TOps R)
open Rosu.PipelineTaiko (recordsOf oneShotSkills)

/-- **`gradual_perf_eq_oneshot_perf`** (taiko from bytes, every arithmetic, EVERY score state): for a file that
decodes to a taiko map with hit flags `hits` and one record per difficulty object (`hlen`, the remaining clause of
`C02g.taiko_pipeline_gradual_eq_oneshot`), and every `1 ≤ i ≤ number of hits` (`< 2^32`): advancing the gradual
performance calculator to the `i`-th hit with state `s` = one-shot performance on the same bytes with
`passed_objects(i)` and `.state(s)`. -/
theorem taiko_gradual_perf_eq_oneshot_perf (A : SecArith R) (fuel : Nat) (bytes : List UInt8) (mods : Nat)
    (rate : Option Nat) (hw : R) (i : Nat) (s : TaikoState) (d : Rosu.DecodeLine.Decoded) (hits : List Bool)
    (recs : List (Rosu.TaikoSkill.TObj R))
    (hd : Rosu.DecodeLine.fromBytes bytes = some d)
    (hr : recordsOf O d (O.dec64 (Rosu.PipelineTaiko.clockRateBits mods rate)) mods = .ok (hits, recs))
    (hlen : recs.length = hits.length - 2) (hi : 1 ≤ i) (hn : i ≤ Rosu.Gradual.hitsIn hits) (h32 : i < 2 ^ 32) :
    taikoGradualPerfValue O A fuel bytes mods rate hw i s =
      taikoOutMap some (taikoPerfFromMap O A fuel bytes mods rate (some i) hw .best (TaikoB.fresh.update s)) := by
  unfold taikoGradualPerfValue taikoPerfFromMap taikoDifficultyAttrs Rosu.PipelineTaiko.taikoSkillsOfBytes
  rw [hd]
  simp only [hr]
  have h0 : ¬ i = 0 := by omega
  rw [if_neg h0]
  have hg : taikoGradualList A fuel hw hits recs = (List.range (Rosu.Gradual.hitsIn hits)).map
      (fun k => Rosu.Gradual.Res.some (oneShotSkills A fuel hw hits recs (k + 1))) :=
    (Rosu.C02g.taiko_pipeline_gradual_eq_oneshot A fuel hw hits recs hlen).1
  rw [hg]
  have hidx : ((List.range (Rosu.Gradual.hitsIn hits)).map
      (fun k => Rosu.Gradual.Res.some (oneShotSkills A fuel hw hits recs (k + 1))))[i - 1]?
      = some (Rosu.Gradual.Res.some (oneShotSkills A fuel hw hits recs i)) := by
    rw [List.getElem?_map, List.getElem?_range (by omega)]
    simp only [Option.map_some]
    congr 3
    omega
  rw [hidx]
  have hm : (some i).getD (2 ^ 64 - 1) % 2 ^ 32 = i := by
    simp only [Option.getD_some]
    exact Nat.mod_eq_of_lt h32
  rw [hm]
  generalize oneShotSkills A fuel hw hits recs i = os
  obtain ⟨mc, r⟩ := os
  cases r <;> rfl

end taiko

/-- the generated call chains of the four `performance/gradual.rs` are the one the model transcribes -/
theorem gradual_perf_chains_as_modelled :
    (Rosu.Gen.gradualPerfChains.filter (fun c => c.2.1 == "nth")).map (fun c => (c.1, c.2.2.drop 2)) =
      [("Osu", ["performance", "lazer(self.lazer)", "state(state)", "difficulty(self.difficulty.difficulty.clone())",
          "passed_objects(self.difficulty.idx as u32)", "calculate", "expect(\"no conversion required\")"]),
       ("Taiko", ["performance", "state(state)", "difficulty(self.difficulty.difficulty.clone())",
          "passed_objects(self.difficulty.idx as u32)", "calculate", "expect(\"no conversion required\")"]),
       ("Catch", ["performance", "state(state)", "difficulty(self.difficulty.difficulty.clone())",
          "passed_objects(self.difficulty.idx as u32)", "calculate", "expect(\"no conversion required\")"]),
       ("Mania", ["performance", "state(state)", "difficulty(self.difficulty.difficulty.clone())",
          "passed_objects(self.difficulty.idx as u32)", "calculate", "expect(\"no conversion required\")"])] := by
  decide

end Rosu.C03b
