import RosuModel.Model.MapOrAttrs
import RosuModel.Gen.Dispatch
import RosuModel.Gen.Setters
import RosuModel.Gen.TryFrom

/-!
# C04 — reusing computed attributes gives the same performance as using the map
-/

namespace Rosu.MapOrAttrs
open Rosu.Gen

variable {Map Attrs D X St R : Type}

/-- A performance calculation started from previously computed attributes (same settings
supplied again) returns exactly what the calculation started from the map returns — for every
opaque difficulty calculation, state generator and pp calculator. -/
theorem attrs_path_eq_map_path (diff : D → Map → Attrs) (gen : Attrs → D → X → St)
    (ppCalc : Attrs → D → St → R) (m : Map) (d : D) (x : X) :
    calculate diff gen ppCalc ⟨.attrs (diff d m), d, x⟩ = calculate diff gen ppCalc ⟨.map m, d, x⟩ := rfl

/-- The difficulty attributes handed to the pp calculator (and embedded in its result) are the
one-shot difficulty calculation for the builder's settings. -/
theorem calculator_receives_oneshot_attrs (diff : D → Map → Attrs) (gen : Attrs → D → X → St)
    (ppCalc : Attrs → D → St → R) (m : Map) (d : D) (x : X) :
    calculate diff gen ppCalc ⟨.map m, d, x⟩ = ppCalc (diff d m) d (gen (diff d m) d x) := rfl

/-- `generate_state` computes the difficulty at most once: afterwards the builder holds the
attributes, and a second `generate_state` (or `calculate`) reuses them. -/
theorem generate_state_caches (diff : D → Map → Attrs) (gen : Attrs → D → X → St) (m : Map) (d : D) (x : X) :
    (generateState diff gen ⟨.map m, d, x⟩).2.src = .attrs (diff d m) ∧
    (generateState diff gen (generateState diff gen ⟨.map m, d, x⟩).2).1 =
      (generateState diff gen ⟨.map m, d, x⟩).1 := ⟨rfl, rfl⟩

/-- The state `calculate` evaluates is the state `generate_state` returns. -/
theorem calculate_uses_generated_state (diff : D → Map → Attrs) (gen : Attrs → D → X → St)
    (ppCalc : Attrs → D → St → R) (b : PB Map Attrs D X) :
    ∃ a, calculate diff gen ppCalc b = ppCalc a b.difficulty (generateState diff gen b).1 := by
  cases b with
  | mk src d x =>
    cases src with
    | map m => exact ⟨diff d m, rfl⟩
    | attrs a => exact ⟨a, rfl⟩

/-! ## Entry points (generated tables) -/

/-- `Performance::new` on a map / `&map` dispatches on `map.mode`, on difficulty or performance
attributes on their variant; each arm builds the builder of that same mode. -/
theorem entry_points_diagonal :
    ∀ name ∈ ["IntoPerformance for Beatmap", "IntoPerformance for &'map Beatmap",
              "IntoPerformance for DifficultyAttributes", "IntoPerformance for PerformanceAttributes"],
      dispatchTables.lookup name = some [("Osu", "Osu"), ("Taiko", "Taiko"), ("Catch", "Catch"), ("Mania", "Mania")] := by
  decide

/-- `…Performance::difficulty(d)` replaces the settings as a whole in every mode, so "the same
settings supplied again" is expressible through either route. -/
theorem difficulty_setter_in_every_mode :
    ∀ mode ∈ ["Osu", "Taiko", "Catch", "Mania"],
      ((modeSetters.lookup mode).bind (·.lookup "difficulty")) = some Effect.setDifficulty := by decide

/-- Mode-specific builders obtained by converting an osu! builder (`try_mode`, `mode_or_ignore`,
`TryFrom`) keep the `Difficulty` and start from the converted map; which score fields they carry
over is C07's `tryfrom_consistent_with_setters`. -/
theorem converted_builders_keep_difficulty :
    ∀ row ∈ tryFromOsu, row.2.1.lookup "difficulty" = some "difficulty" ∧
      row.2.2.lookup "difficulty" = some "difficulty" ∧
      row.2.2.lookup "map_or_attrs" = some "MapOrAttrs::Map(map)" ∧
      (row.2.1.lookup "hitresult_priority" = some "hitresult_priority" → row.2.2.lookup "hitresult_priority" = some "hitresult_priority") := by
  decide

/-! ## The concrete functions have the modelled skeleton (generated) -/

open Rosu.Gen.PerfSkeleton in
/-- **`generate_state` and `calculate` of all four mode builders have exactly the skeleton the
model functions `generateState` / `calculate` were transcribed from** (`Gen/PerfSkeleton.lean`,
re-extracted from src/<mode>/performance/mod.rs on every run): on the map path the attributes are
computed with the builder's own `Difficulty` from the builder's map and stored back with
`insert_attrs`; on the attributes path they are used as they are; the float-level remainder of
`generate_state` reads nothing but the attributes, the `Difficulty` and the score fields; `calculate`
first calls `generate_state`, takes the (now stored) attributes, and hands attributes, state and
`Difficulty`-derived values — nothing else — to one `<Mode>PerformanceCalculator::new`.  No other
method of a builder looks at `map_or_attrs`. -/
theorem skeletons_are_the_model :
    perfSkeletons.map (·.1) = ["Osu", "Taiko", "Catch", "Mania"] ∧
    ∀ row ∈ perfSkeletons,
      conformsAll row.2.1 generateStateSkeleton = true ∧
      conformsAll row.2.2.1 calculateSkeleton = true ∧
      row.2.2.2 = [] := by decide

open Rosu.Gen.PerfSkeleton in
/-- `MapOrAttrs::insert_attrs` overwrites the source with the attributes; a map converts to `Map`,
difficulty attributes to `Attrs`, performance attributes to `Attrs` of their embedded difficulty
attributes — for each of the four modes (rows of the `from_attrs!` invocation). -/
theorem map_or_attrs_as_modelled :
    insertAttrsBody = insertAttrsModel ∧ mapOrAttrsFrom = fromModel ∧
    fromAttrsRows = ["osu", "taiko", "catch", "mania"].zip (["Osu", "Taiko", "Catch", "Mania"].map
      (fun m => (m, m ++ "DifficultyAttributes", m ++ "PerformanceAttributes"))) := by decide

/-- Non-vacuity of `conforms`: a skeleton whose map arm computes the attributes with fresh settings,
one that does not store them back, and one whose remainder looks at the source again are rejected. -/
example :
    let arm (l : List String) : List Rosu.Gen.PerfSkeleton.Stmt :=
      [.receiver "&mut self",
       .letMatch "attrs" "self.map_or_attrs" [("MapOrAttrs::Map(ref map)", l), ("MapOrAttrs::Attrs(ref attrs)", ["attrs"])],
       .opaque ["attrs"]]
    conformsAll (arm ["let v0=Difficulty::new().calculate_for_mode::<MODE>(map)?", "self.map_or_attrs.insert_attrs(v0)"]) generateStateSkeleton = false ∧
    conformsAll (arm ["self.difficulty.calculate_for_mode::<MODE>(map)?"]) generateStateSkeleton = false ∧
    conformsAll ((generateStateSkeleton.take 2) ++ [.opaque ["attrs", "self.map_or_attrs"]]) generateStateSkeleton = false ∧
    conformsAll ((generateStateSkeleton.take 2) ++ [.opaque ["attrs", "self.spec"]]) generateStateSkeleton = true := by decide

open Rosu.Gen.PerfSkeleton in
/-- **Constructing a builder only wraps its argument.**  Every `impl IntoModePerformance /
IntoPerformance` of src/any/performance/into.rs (the macro-generated ones for the attributes of the
four modes, `Beatmap`, `&Beatmap` included) takes `self` by value without `mut` and consists of the
single expression listed in `intoImplsModel`: `from_map_or_attrs(self.into())` (with
`MapOrAttrs::from` = `Map(Cow::Owned/Borrowed(map))` / `Attrs(attrs)` / `Attrs(attrs.difficulty)`,
`map_or_attrs_as_modelled`), or a diagonal dispatch to it.  `from_map_or_attrs` of each mode stores
the source as given together with `Difficulty::new()` and no score data; `new`, `try_new`,
`From<T>::from` and `Performance::new` just call `into_performance()`.  So no conversion, no
mutation of the map and no settings are involved at construction time. -/
theorem constructors_only_wrap :
    intoImpls = intoImplsModel ∧ intoOtherImpls = [] ∧
    fromMapOrAttrs.map (·.1) = ["Osu", "Taiko", "Catch", "Mania"] ∧
    (∀ row ∈ fromMapOrAttrs, row.2.all freshBuilderField = true ∧
      row.2.lookup "map_or_attrs" = some "map_or_attrs" ∧ row.2.lookup "difficulty" = some "Difficulty::new()") ∧
    builderConstructors = ["Osu", "Taiko", "Catch", "Mania"].map (fun m => (m, builderConstructorsModel)) ∧
    performanceNew = ["map_or_attrs.into_performance()"] := by decide +kernel

/-- Non-vacuity: an `into_performance` that converts the owned map eagerly is not in the model table. -/
example : ("IntoModePerformance", "Beatmap",
    ["fn into_performance(mut self)", "let _=self.convert_mut(GameMode::$mode,&GameMods::DEFAULT)",
     "<mode!()as IGameMode>::Performance::from_map_or_attrs(self.into())"]) ∉ intoImplsModel := by decide +kernel

/-- Non-vacuity on concrete functions. -/
example :
    calculate (fun (d : Nat) (m : Nat) => d + m) (fun a d (x : Nat) => a * d + x) (fun a d st => (a, d, st))
      ⟨.map 5, 3, 7⟩ = (8, 3, 31) := by decide

end Rosu.MapOrAttrs
