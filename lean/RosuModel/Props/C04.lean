import RosuModel.Model.MapOrAttrs
import RosuModel.Gen.Dispatch
import RosuModel.Gen.Setters
import RosuModel.Gen.TryFrom

/-!
# C04 — reusing computed attributes gives the same performance as using the map
-/

namespace Rosu.MapOrAttrs
open Rosu.Gen

variable {Map Attrs D X St R : Type}

/-- A performance calculation started from previously computed attributes (same settings
supplied again) returns exactly what the calculation started from the map returns — for every
opaque difficulty calculation, state generator and pp calculator. -/
theorem attrs_path_eq_map_path (diff : D → Map → Attrs) (gen : Attrs → D → X → St)
    (ppCalc : Attrs → D → St → R) (m : Map) (d : D) (x : X) :
    calculate diff gen ppCalc ⟨.attrs (diff d m), d, x⟩ = calculate diff gen ppCalc ⟨.map m, d, x⟩ := rfl

/-- The difficulty attributes handed to the pp calculator (and embedded in its result) are the
one-shot difficulty calculation for the builder's settings. -/
theorem calculator_receives_oneshot_attrs (diff : D → Map → Attrs) (gen : Attrs → D → X → St)
    (ppCalc : Attrs → D → St → R) (m : Map) (d : D) (x : X) :
    calculate diff gen ppCalc ⟨.map m, d, x⟩ = ppCalc (diff d m) d (gen (diff d m) d x) := rfl

/-- `generate_state` computes the difficulty at most once: afterwards the builder holds the
attributes, and a second `generate_state` (or `calculate`) reuses them. -/
theorem generate_state_caches (diff : D → Map → Attrs) (gen : Attrs → D → X → St) (m : Map) (d : D) (x : X) :
    (generateState diff gen ⟨.map m, d, x⟩).2.src = .attrs (diff d m) ∧
    (generateState diff gen (generateState diff gen ⟨.map m, d, x⟩).2).1 =
      (generateState diff gen ⟨.map m, d, x⟩).1 := ⟨rfl, rfl⟩

/-- The state `calculate` evaluates is the state `generate_state` returns. -/
theorem calculate_uses_generated_state (diff : D → Map → Attrs) (gen : Attrs → D → X → St)
    (ppCalc : Attrs → D → St → R) (b : PB Map Attrs D X) :
    ∃ a, calculate diff gen ppCalc b = ppCalc a b.difficulty (generateState diff gen b).1 := by
  cases b with
  | mk src d x =>
    cases src with
    | map m => exact ⟨diff d m, rfl⟩
    | attrs a => exact ⟨a, rfl⟩

/-! ## Entry points (generated tables) -/

/-- `Performance::new` on a map / `&map` dispatches on `map.mode`, on difficulty or performance
attributes on their variant; each arm builds the builder of that same mode. -/
theorem entry_points_diagonal :
    ∀ name ∈ ["IntoPerformance for Beatmap", "IntoPerformance for &'map Beatmap",
              "IntoPerformance for DifficultyAttributes", "IntoPerformance for PerformanceAttributes"],
      dispatchTables.lookup name = some [("Osu", "Osu"), ("Taiko", "Taiko"), ("Catch", "Catch"), ("Mania", "Mania")] := by
  decide

/-- `…Performance::difficulty(d)` replaces the settings as a whole in every mode, so "the same
settings supplied again" is expressible through either route. -/
theorem difficulty_setter_in_every_mode :
    ∀ mode ∈ ["Osu", "Taiko", "Catch", "Mania"],
      ((modeSetters.lookup mode).bind (·.lookup "difficulty")) = some Effect.setDifficulty := by decide

/-- Mode-specific builders obtained by converting an osu! builder (`try_mode`, `mode_or_ignore`,
`TryFrom`) keep the `Difficulty` and start from the converted map; which score fields they carry
over is C07's `tryfrom_consistent_with_setters`. -/
theorem converted_builders_keep_difficulty :
    ∀ row ∈ tryFromOsu, row.2.1.lookup "difficulty" = some "difficulty" ∧
      row.2.2.lookup "difficulty" = some "difficulty" ∧
      row.2.2.lookup "map_or_attrs" = some "MapOrAttrs::Map(map)" ∧
      (row.2.1.lookup "hitresult_priority" = some "hitresult_priority" → row.2.2.lookup "hitresult_priority" = some "hitresult_priority") := by
  decide

/-- Non-vacuity on concrete functions. -/
example :
    calculate (fun (d : Nat) (m : Nat) => d + m) (fun a d (x : Nat) => a * d + x) (fun a d st => (a, d, st))
      ⟨.map 5, 3, 7⟩ = (8, 3, 31) := by decide

end Rosu.MapOrAttrs
