import RosuModel.Lemmas.GenStateExactMania2
import RosuModel.Lemmas.GenStateExactRat
import Mathlib.Data.Rat.Floor

/-!
# C13 — accuracy-driven hit results are the closest achievable to the target

All statements are about the generators of `Model/GenState.lean` at the exact instance
`fieldOps S` (`Lemmas/GenStateExact.lean`): `K` is any linear ordered field with floor, `S` any
sentinel `> 1` standing for `f64::MAX` / `f64::INFINITY` (all accuracy distances are `≤ 1`).
Counts are bounded by `u32::MAX` as in the Rust code.

* `fold_selects_minimum`, `window_contains_nearest` : the two generic facts.
* `taiko_optimal`, `catch_tiny_optimal`, `osu_n300_given_optimal`, `osu_n100_given_optimal`,
  `osu_n50_given_optimal`, `osu_none_given_optimal` : **global** optimality of the generated state.
* `osu_shift_preserves_acc`, `mania_shift_preserves_acc` : the priority shifts do not move accuracy.
* `mania_none_given_optimal` : **global** optimality of mania's nested search when no hit result is
  provided (classic and lazer weights), via `Lemmas/GenStateExactMania2.lean`.
* `mania_selected_is_best_of_window`, `mania_generated_acc` : for *every* arm with at least two open
  hit results mania returns the best *enumerated* candidate (global optimality with some results
  provided is outside the property's quantifier; see `ManiaProvidedOptimal` below).
-/

set_option linter.unusedSectionVars false

namespace Rosu.GenState.Opt

section C13

variable {K : Type} [Field K] [LinearOrder K] [IsStrictOrderedRing K] [FloorRing K]

/-! ## The two generic facts -/

/-- A search loop started from a fresh accumulator (`hit = false`, distance = sentinel) over a
non-empty candidate list whose distances are all below the sentinel accepts a candidate, and the
accepted candidate has minimal distance among all candidates of the list. -/
theorem fold_selects_minimum {A ι : Type} (S : K) (p : ι → Bool) (distOf : ι → K) (valOf : ι → A)
    (l : List ι) (init : Acc K A) (hhit : init.hit = false) (hdist : init.dist = S)
    (hne : l ≠ []) (hlt : ∀ c ∈ l, distOf c < S) :
    let r := l.foldl (fun a k => @Acc.offer K (fieldOps S) A (a.check (p k)) (distOf k) (valOf k)) init
    r.hit = true ∧ ∃ c ∈ l, r.val = valOf c ∧ r.dist = distOf c ∧ ∀ c' ∈ l, r.dist ≤ distOf c' := by
  intro r
  obtain ⟨c₀, hc₀⟩ := List.exists_mem_of_ne_nil l hne
  obtain ⟨h1, c, hc, e1, e2, hmin⟩ := (Sel.foldl_offer S p distOf valOf l init).selected hhit
    (List.mem_map.2 ⟨c₀, hc₀, rfl⟩) (by rw [hdist]; exact hlt c₀ hc₀)
  obtain ⟨k, hk, rfl⟩ := List.mem_map.1 hc
  exact ⟨h1, k, hk, e2, e1, fun c' hc' => hmin _ (List.mem_map.2 ⟨c', hc', rfl⟩)⟩

/-- For `f k = (a + b·k)/D` (`b > 0`, `D ≥ 0`) and `raw = (t·D − a)/b`, the loop bounds
`lo = min(N, ⌊raw⌋ as u32)`, `hi = min(N, ⌈raw⌉ as u32)` satisfy `lo ≤ hi ≤ N`, and one of
`f lo`, `f hi` is at least as close to `t` as `f k` for every `k ∈ 0..=N`. -/
theorem window_contains_nearest (S : K) (N : Nat) (hN : N ≤ u32Max) (t a b D raw : K) (hb : 0 < b)
    (hD : 0 ≤ D) (hraw : raw * b = t * D - a) (k : Nat) (hk : k ≤ N) :
    let lo := min N (@NumOps.floorU32 K (fieldOps S) raw)
    let hi := min N (@NumOps.ceilU32 K (fieldOps S) raw)
    lo ≤ hi ∧ hi ≤ N ∧ lo ∈ rangeIncl lo hi ∧ hi ∈ rangeIncl lo hi ∧
      min |t - (a + b * (lo : K)) / D| |t - (a + b * (hi : K)) / D| ≤ |t - (a + b * (k : K)) / D| := by
  intro lo hi
  have h1 : lo ≤ hi := clampN_floor_le_ceil N raw
  exact ⟨h1, clampN_le N _, mem_rangeIncl.2 ⟨le_refl _, h1⟩, mem_rangeIncl.2 ⟨h1, le_refl _⟩,
    nearest_in_clamped_window N hN t a b D raw hb hD hraw k hk⟩

/-! ## taiko -/

/-- Accuracy given, `n300`/`n100` open: the generated state keeps the (clamped) misses, sums to
the total, no checked subtraction fails, and no split of the remaining hits is strictly closer to
the target accuracy. -/
theorem taiko_optimal (S acc : K) (h0 : 0 ≤ acc) (h1 : acc ≤ 1) (hS : 1 < S) (c : TaikoCfg)
    (b : TaikoB K) (hacc : b.acc = some acc) (h300 : b.n300 = none) (h100 : b.n100 = none)
    (hsmall : c.maxCombo ≤ u32Max) :
    let total := min (passedU32 c.passed) c.maxCombo
    let o := @taikoGenRaw K (fieldOps S) c b
    o.accepted = true ∧ o.ok = true ∧ o.state.misses = optMin b.misses total ∧
      o.state.n300 + o.state.n100 + o.state.misses = total ∧
      ∀ x y, x + y + o.state.misses = total →
        |acc - @taikoAcc K (fieldOps S) o.state.n300 o.state.n100 o.state.misses|
          ≤ |acc - @taikoAcc K (fieldOps S) x y o.state.misses| := by
  intro total o
  have hm := optMin_le b.misses total
  have htot : total ≤ u32Max := le_trans (Nat.min_le_right _ _) hsmall
  have hH := taikoHitResults_search S acc c.prio b total (optMin b.misses total) hacc h300 h100
  obtain ⟨k1, k2, k3, k4⟩ := taikoSearch_spec S acc h0 h1 hS total (total - optMin b.misses total)
    (optMin b.misses total) (by omega) (by omega)
  have e300 : o.state.n300
      = (@taikoSearch K (fieldOps S) acc total (total - optMin b.misses total) (optMin b.misses total)).val.1 :=
    congrArg (fun h => h.1) hH
  have e100 : o.state.n100
      = (@taikoSearch K (fieldOps S) acc total (total - optMin b.misses total) (optMin b.misses total)).val.2 :=
    congrArg (fun h => h.2.1) hH
  have eacc : o.accepted
      = (@taikoSearch K (fieldOps S) acc total (total - optMin b.misses total) (optMin b.misses total)).hit :=
    congrArg (fun h => h.2.2.1) hH
  have eok : o.ok = (decide (optMin b.misses total ≤ total)
      && (@taikoSearch K (fieldOps S) acc total (total - optMin b.misses total) (optMin b.misses total)).ok) :=
    congrArg (fun h : Nat × Nat × Bool × Bool => decide (optMin b.misses total ≤ total) && h.2.2.2) hH
  have emis : o.state.misses = optMin b.misses total := rfl
  refine ⟨eacc.trans k1, ?_, emis, ?_, ?_⟩
  · rw [eok, k2, decide_eq_true hm]; rfl
  · rw [e300, e100, emis]; omega
  · intro x y hxy
    rw [e300, e100, emis]
    rw [emis] at hxy
    have hy : y = total - optMin b.misses total - x := by omega
    rw [hy]
    exact k4 x (by omega)

/-! ## catch -/

/-- Whenever `catchTiny` runs `find_best_tiny_droplets` (hypothesis `hH`): the two tiny counts
sum to `n_tiny_droplets`, the search adds no failing check,
`fruits + droplets + misses = n_fruits + n_droplets`, and no `t ≤ n_tiny_droplets` is strictly
closer to the target accuracy. -/
theorem catch_tiny_search_optimal (S acc : K) (h0 : 0 ≤ acc) (h1 : acc ≤ 1) (hS : 1 < S) (c : CatchCfg)
    (b : CatchB K) (hsmall : c.nTiny ≤ u32Max) (hfd : c.nFruits + c.nDroplets ≤ u32Max)
    (hH : ∀ fruits droplets misses,
      @catchTiny K (fieldOps S) b c.nFruits c.nDroplets c.nTiny fruits droplets misses
        = ((@catchFindTiny K (fieldOps S) acc c.nFruits c.nDroplets c.nTiny fruits droplets misses).val.1,
           (@catchFindTiny K (fieldOps S) acc c.nFruits c.nDroplets c.nTiny fruits droplets misses).val.2,
           (@catchFindTiny K (fieldOps S) acc c.nFruits c.nDroplets c.nTiny fruits droplets misses).hit,
           (@catchFindTiny K (fieldOps S) acc c.nFruits c.nDroplets c.nTiny fruits droplets misses).ok)) :
    let o := @catchGenRaw K (fieldOps S) c b
    let s := o.state
    o.accepted = true ∧
      o.ok = (catchFruitsDroplets c.nFruits c.nDroplets s.misses b.fruits b.droplets).2.2 ∧
      s.misses = optMin b.misses (c.nFruits + c.nDroplets) ∧
      s.fruits + s.droplets + s.misses = c.nFruits + c.nDroplets ∧
      s.tiny + s.tinyMisses = c.nTiny ∧
      ∀ t ≤ c.nTiny,
        |acc - @catchAcc K (fieldOps S) s.fruits s.droplets s.tiny s.tinyMisses s.misses|
          ≤ |acc - @catchAcc K (fieldOps S) s.fruits s.droplets t (c.nTiny - t) s.misses| := by
  intro o s
  have hm := optMin_le b.misses (c.nFruits + c.nDroplets)
  have emis : s.misses = optMin b.misses (c.nFruits + c.nDroplets) := rfl
  have hinv := catchFruitsDroplets_sum c.nFruits c.nDroplets s.misses b.fruits b.droplets
    (by rw [emis]; exact hm) hfd
  have hinv' : s.fruits + s.droplets + s.misses = c.nFruits + c.nDroplets := hinv
  have hH := hH s.fruits s.droplets s.misses
  obtain ⟨k1, k2, k3, k4⟩ := catchFindTiny_spec S acc h0 h1 hS c.nFruits c.nDroplets c.nTiny
    s.fruits s.droplets s.misses hinv' hsmall
  have et : s.tiny = (@catchFindTiny K (fieldOps S) acc c.nFruits c.nDroplets c.nTiny s.fruits
      s.droplets s.misses).val.1 := congrArg (fun h => h.1) hH
  have etm : s.tinyMisses = (@catchFindTiny K (fieldOps S) acc c.nFruits c.nDroplets c.nTiny
      s.fruits s.droplets s.misses).val.2 := congrArg (fun h => h.2.1) hH
  have eacc : o.accepted = (@catchFindTiny K (fieldOps S) acc c.nFruits c.nDroplets c.nTiny
      s.fruits s.droplets s.misses).hit := congrArg (fun h => h.2.2.1) hH
  have eok : o.ok = (decide (s.misses ≤ c.nFruits + c.nDroplets)
      && (catchFruitsDroplets c.nFruits c.nDroplets s.misses b.fruits b.droplets).2.2
      && (@catchFindTiny K (fieldOps S) acc c.nFruits c.nDroplets c.nTiny s.fruits s.droplets
          s.misses).ok) :=
    congrArg (fun h : Nat × Nat × Bool × Bool => decide (s.misses ≤ c.nFruits + c.nDroplets)
      && (catchFruitsDroplets c.nFruits c.nDroplets s.misses b.fruits b.droplets).2.2 && h.2.2.2) hH
  refine ⟨eacc.trans k1, ?_, emis, hinv', ?_, ?_⟩
  · rw [eok, k2, decide_eq_true (by rw [emis]; exact hm), Bool.true_and, Bool.and_true]
  · rw [et, etm]; exact k3
  · intro t htT
    rw [et, etm]
    exact k4 t htT

/-- Accuracy given, tiny droplets and tiny droplet misses open: the two sum to `n_tiny_droplets`,
the search adds no failing check, `fruits + droplets + misses = n_fruits + n_droplets`, and no
`t ≤ n_tiny_droplets` is strictly closer to the target accuracy. -/
theorem catch_tiny_optimal (S acc : K) (h0 : 0 ≤ acc) (h1 : acc ≤ 1) (hS : 1 < S) (c : CatchCfg)
    (b : CatchB K) (hacc : b.acc = some acc) (ht : b.tiny = none) (htm : b.tinyMisses = none)
    (hsmall : c.nTiny ≤ u32Max) (hfd : c.nFruits + c.nDroplets ≤ u32Max) :
    let o := @catchGenRaw K (fieldOps S) c b
    let s := o.state
    o.accepted = true ∧
      o.ok = (catchFruitsDroplets c.nFruits c.nDroplets s.misses b.fruits b.droplets).2.2 ∧
      s.misses = optMin b.misses (c.nFruits + c.nDroplets) ∧
      s.fruits + s.droplets + s.misses = c.nFruits + c.nDroplets ∧
      s.tiny + s.tinyMisses = c.nTiny ∧
      ∀ t ≤ c.nTiny,
        |acc - @catchAcc K (fieldOps S) s.fruits s.droplets s.tiny s.tinyMisses s.misses|
          ≤ |acc - @catchAcc K (fieldOps S) s.fruits s.droplets t (c.nTiny - t) s.misses| :=
  catch_tiny_search_optimal S acc h0 h1 hS c b hsmall hfd
    (fun f d m => catchTiny_search S acc b c.nFruits c.nDroplets c.nTiny f d m hacc ht htm)

/-- Accuracy given and an *inconsistent* pair `(tiny_droplets, tiny_droplet_misses)` provided
(their saturating sum differs from `n_tiny_droplets`): the pair is discarded and replaced by the
optimal split, exactly as if none had been provided. -/
theorem catch_tiny_inconsistent_pair_optimal (S acc : K) (h0 : 0 ≤ acc) (h1 : acc ≤ 1) (hS : 1 < S)
    (c : CatchCfg) (b : CatchB K) (hacc : b.acc = some acc) (t tm : Nat) (ht : b.tiny = some t)
    (htm : b.tinyMisses = some tm) (hne : satAdd t tm ≠ c.nTiny)
    (hsmall : c.nTiny ≤ u32Max) (hfd : c.nFruits + c.nDroplets ≤ u32Max) :
    let o := @catchGenRaw K (fieldOps S) c b
    let s := o.state
    o.accepted = true ∧
      o.ok = (catchFruitsDroplets c.nFruits c.nDroplets s.misses b.fruits b.droplets).2.2 ∧
      s.misses = optMin b.misses (c.nFruits + c.nDroplets) ∧
      s.fruits + s.droplets + s.misses = c.nFruits + c.nDroplets ∧
      s.tiny + s.tinyMisses = c.nTiny ∧
      ∀ t' ≤ c.nTiny,
        |acc - @catchAcc K (fieldOps S) s.fruits s.droplets s.tiny s.tinyMisses s.misses|
          ≤ |acc - @catchAcc K (fieldOps S) s.fruits s.droplets t' (c.nTiny - t') s.misses| :=
  catch_tiny_search_optimal S acc h0 h1 hS c b hsmall hfd (by
    intro f d m
    unfold catchTiny
    simp only [hacc, ht, htm, if_neg hne])

/-! ## osu!standard -/

/-- The priority shift keeps the hit count and the accuracy, and its checked subtractions pass. -/
theorem osu_shift_preserves_acc (S : K) (prio : Prio) (o : OsuOrigin) (a b c m lt st se : Nat) :
    let r := osuShift prio a b c
    r.2 = true ∧ r.1.1 + r.1.2.1 + r.1.2.2 = a + b + c ∧
      osuAccNum o r.1.1 r.1.2.1 r.1.2.2 lt st se = osuAccNum o a b c lt st se ∧
      @osuAcc K (fieldOps S) o r.1.1 r.1.2.1 r.1.2.2 m lt st se = @osuAcc K (fieldOps S) o a b c m lt st se := by
  intro r
  obtain ⟨t1, t2, t3⟩ := osuShift_spec prio a b c
  refine ⟨t1, t2, ?_, osuAcc_congr S o _ _ _ _ _ _ m lt st se t2 t3⟩
  rw [osuAccNum_split, osuAccNum_split o a b c, t3]

section osuArms
variable (S acc : K) (h0 : 0 ≤ acc) (h1 : acc ≤ 1) (hS : 1 < S) (c : OsuCfg) (b : OsuB K)
  (hacc : b.acc = some acc) (hsmall : c.nObjects ≤ u32Max)
include h0 h1 hS hacc hsmall

/-- Accuracy and `n300` given: misses and `n300` as provided (clamped), the state sums to the
object count, no check fails, and no `(n100, n50)` completing it is strictly closer. -/
theorem osu_n300_given_optimal (v : Nat) (h300 : b.n300 = some v) (h100 : b.n100 = none)
    (h50 : b.n50 = none) :
    let nObjects := min (passedU32 c.passed) c.nObjects
    let o := @osuGenRaw K (fieldOps S) c b
    let s := o.state
    o.accepted = true ∧ o.ok = true ∧ s.misses = optMin b.misses nObjects ∧
      s.n300 = min v (nObjects - s.misses) ∧ s.n300 + s.n100 + s.n50 + s.misses = nObjects ∧
      ∀ y z, s.n300 + y + z + s.misses = nObjects →
        |acc - osuAccAt S c b s s.n300 s.n100 s.n50| ≤ |acc - osuAccAt S c b s s.n300 y z| := by
  intro nObjects o s
  have hm := optMin_le b.misses nObjects
  have hobj : nObjects ≤ u32Max := le_trans (Nat.min_le_right _ _) hsmall
  have hx := osuCtxOf_ok acc h0 h1 (osuSliderParts c b).1 (osuSliderParts c b).2.1
    (osuSliderParts c b).2.2.1 (osuSliderParts c b).2.2.2 nObjects (optMin b.misses nObjects)
    (osuSliderParts_cons c b) hm hobj
  have hH := osuHitResults_arm100 S acc c.prio b (osuSliderParts c b).1 (osuSliderParts c b).2.1
    (osuSliderParts c b).2.2.1 (osuSliderParts c b).2.2.2 nObjects (optMin b.misses nObjects) v
    hacc h300 h100 h50
  obtain ⟨k1, k2, k3, k4, k5⟩ := osuArm100_spec S hS _ hx (min v (nObjects - optMin b.misses nObjects))
  rw [← hH] at k1 k2 k3 k4 k5
  have emis : s.misses = optMin b.misses nObjects := rfl
  have hrem : (osuCtxOf acc (osuSliderParts c b).1 (osuSliderParts c b).2.1
      (osuSliderParts c b).2.2.1 (osuSliderParts c b).2.2.2 nObjects
      (optMin b.misses nObjects)).nRemaining = nObjects - optMin b.misses nObjects := rfl
  rw [hrem] at k3 k4 k5
  have k3' : s.n300 = min (min v (nObjects - optMin b.misses nObjects))
      (nObjects - optMin b.misses nObjects) := k3
  have k4' : s.n300 + s.n100 + s.n50 = nObjects - optMin b.misses nObjects := k4
  refine ⟨k1, ?_, emis, ?_, ?_, ?_⟩
  · show (decide (optMin b.misses nObjects ≤ nObjects) && _) = true
    rw [k2, decide_eq_true hm]; rfl
  · rw [k3', emis]; omega
  · rw [emis]; omega
  · intro y z hyz
    exact k5 y z (by rw [emis] at hyz; show s.n300 + y + z = _; omega)

/-- Accuracy and `n100` given. -/
theorem osu_n100_given_optimal (v : Nat) (h300 : b.n300 = none) (h100 : b.n100 = some v)
    (h50 : b.n50 = none) :
    let nObjects := min (passedU32 c.passed) c.nObjects
    let o := @osuGenRaw K (fieldOps S) c b
    let s := o.state
    o.accepted = true ∧ o.ok = true ∧ s.misses = optMin b.misses nObjects ∧
      s.n100 = min v (nObjects - s.misses) ∧ s.n300 + s.n100 + s.n50 + s.misses = nObjects ∧
      ∀ y z, y + s.n100 + z + s.misses = nObjects →
        |acc - osuAccAt S c b s s.n300 s.n100 s.n50| ≤ |acc - osuAccAt S c b s y s.n100 z| := by
  intro nObjects o s
  have hm := optMin_le b.misses nObjects
  have hobj : nObjects ≤ u32Max := le_trans (Nat.min_le_right _ _) hsmall
  have hx := osuCtxOf_ok acc h0 h1 (osuSliderParts c b).1 (osuSliderParts c b).2.1
    (osuSliderParts c b).2.2.1 (osuSliderParts c b).2.2.2 nObjects (optMin b.misses nObjects)
    (osuSliderParts_cons c b) hm hobj
  have hH := osuHitResults_arm300a S acc c.prio b (osuSliderParts c b).1 (osuSliderParts c b).2.1
    (osuSliderParts c b).2.2.1 (osuSliderParts c b).2.2.2 nObjects (optMin b.misses nObjects) v
    hacc h300 h100 h50
  obtain ⟨k1, k2, k3, k4, k5⟩ := osuArm300a_spec S hS _ hx (min v (nObjects - optMin b.misses nObjects))
  rw [← hH] at k1 k2 k3 k4 k5
  have emis : s.misses = optMin b.misses nObjects := rfl
  have hrem : (osuCtxOf acc (osuSliderParts c b).1 (osuSliderParts c b).2.1
      (osuSliderParts c b).2.2.1 (osuSliderParts c b).2.2.2 nObjects
      (optMin b.misses nObjects)).nRemaining = nObjects - optMin b.misses nObjects := rfl
  rw [hrem] at k3 k4 k5
  have k3' : s.n100 = min (min v (nObjects - optMin b.misses nObjects))
      (nObjects - optMin b.misses nObjects) := k3
  have k4' : s.n300 + s.n100 + s.n50 = nObjects - optMin b.misses nObjects := k4
  refine ⟨k1, ?_, emis, ?_, ?_, ?_⟩
  · show (decide (optMin b.misses nObjects ≤ nObjects) && _) = true
    rw [k2, decide_eq_true hm]; rfl
  · rw [k3', emis]; omega
  · rw [emis]; omega
  · intro y z hyz
    exact k5 y z (by rw [emis] at hyz; show y + s.n100 + z = _; omega)

/-- Accuracy and `n50` given. -/
theorem osu_n50_given_optimal (v : Nat) (h300 : b.n300 = none) (h100 : b.n100 = none)
    (h50 : b.n50 = some v) :
    let nObjects := min (passedU32 c.passed) c.nObjects
    let o := @osuGenRaw K (fieldOps S) c b
    let s := o.state
    o.accepted = true ∧ o.ok = true ∧ s.misses = optMin b.misses nObjects ∧
      s.n50 = min v (nObjects - s.misses) ∧ s.n300 + s.n100 + s.n50 + s.misses = nObjects ∧
      ∀ y z, y + z + s.n50 + s.misses = nObjects →
        |acc - osuAccAt S c b s s.n300 s.n100 s.n50| ≤ |acc - osuAccAt S c b s y z s.n50| := by
  intro nObjects o s
  have hm := optMin_le b.misses nObjects
  have hobj : nObjects ≤ u32Max := le_trans (Nat.min_le_right _ _) hsmall
  have hx := osuCtxOf_ok acc h0 h1 (osuSliderParts c b).1 (osuSliderParts c b).2.1
    (osuSliderParts c b).2.2.1 (osuSliderParts c b).2.2.2 nObjects (optMin b.misses nObjects)
    (osuSliderParts_cons c b) hm hobj
  have hH := osuHitResults_arm300b S acc c.prio b (osuSliderParts c b).1 (osuSliderParts c b).2.1
    (osuSliderParts c b).2.2.1 (osuSliderParts c b).2.2.2 nObjects (optMin b.misses nObjects) v
    hacc h300 h100 h50
  obtain ⟨k1, k2, k3, k4, k5⟩ := osuArm300b_spec S hS _ hx (min v (nObjects - optMin b.misses nObjects))
  rw [← hH] at k1 k2 k3 k4 k5
  have emis : s.misses = optMin b.misses nObjects := rfl
  have hrem : (osuCtxOf acc (osuSliderParts c b).1 (osuSliderParts c b).2.1
      (osuSliderParts c b).2.2.1 (osuSliderParts c b).2.2.2 nObjects
      (optMin b.misses nObjects)).nRemaining = nObjects - optMin b.misses nObjects := rfl
  rw [hrem] at k3 k4 k5
  have k3' : s.n50 = min (min v (nObjects - optMin b.misses nObjects))
      (nObjects - optMin b.misses nObjects) := k3
  have k4' : s.n300 + s.n100 + s.n50 = nObjects - optMin b.misses nObjects := k4
  refine ⟨k1, ?_, emis, ?_, ?_, ?_⟩
  · show (decide (optMin b.misses nObjects ≤ nObjects) && _) = true
    rw [k2, decide_eq_true hm]; rfl
  · rw [k3', emis]; omega
  · rw [emis]; omega
  · intro y z hyz
    exact k5 y z (by rw [emis] at hyz; show y + z + s.n50 = _; omega)

/-- Accuracy given, all three hit results open (nested search + priority shift): the state sums
to the object count, no check fails, and **no** distribution `(x, y, z)` of the remaining objects
is strictly closer to the target accuracy. -/
theorem osu_none_given_optimal (h300 : b.n300 = none) (h100 : b.n100 = none) (h50 : b.n50 = none) :
    let nObjects := min (passedU32 c.passed) c.nObjects
    let o := @osuGenRaw K (fieldOps S) c b
    let s := o.state
    o.accepted = true ∧ o.ok = true ∧ s.misses = optMin b.misses nObjects ∧
      s.n300 + s.n100 + s.n50 + s.misses = nObjects ∧
      ∀ x y z, x + y + z + s.misses = nObjects →
        |acc - osuAccAt S c b s s.n300 s.n100 s.n50| ≤ |acc - osuAccAt S c b s x y z| := by
  intro nObjects o s
  have hm := optMin_le b.misses nObjects
  have hobj : nObjects ≤ u32Max := le_trans (Nat.min_le_right _ _) hsmall
  have hx := osuCtxOf_ok acc h0 h1 (osuSliderParts c b).1 (osuSliderParts c b).2.1
    (osuSliderParts c b).2.2.1 (osuSliderParts c b).2.2.2 nObjects (optMin b.misses nObjects)
    (osuSliderParts_cons c b) hm hobj
  have hH := osuHitResults_armNone S acc c.prio b (osuSliderParts c b).1 (osuSliderParts c b).2.1
    (osuSliderParts c b).2.2.1 (osuSliderParts c b).2.2.2 nObjects (optMin b.misses nObjects)
    hacc h300 h100 h50
  obtain ⟨k1, k2, k4, k5⟩ := osuArmNone_spec S hS _ hx c.prio
  rw [← hH] at k1 k2 k4 k5
  have emis : s.misses = optMin b.misses nObjects := rfl
  have hrem : (osuCtxOf acc (osuSliderParts c b).1 (osuSliderParts c b).2.1
      (osuSliderParts c b).2.2.1 (osuSliderParts c b).2.2.2 nObjects
      (optMin b.misses nObjects)).nRemaining = nObjects - optMin b.misses nObjects := rfl
  rw [hrem] at k4 k5
  have k4' : s.n300 + s.n100 + s.n50 = nObjects - optMin b.misses nObjects := k4
  refine ⟨k1, ?_, emis, ?_, ?_⟩
  · show (decide (optMin b.misses nObjects ≤ nObjects) && _) = true
    rw [k2, decide_eq_true hm]; rfl
  · rw [emis]; omega
  · intro x y z hxyz
    exact k5 x y z (by rw [emis] at hxyz; omega)

end osuArms

/-! ## osu!mania -/

/-- `maniaShift` keeps `total_hits`, the accuracy numerator and hence the accuracy; its checked
subtractions pass. -/
theorem mania_shift_preserves_acc (S : K) (x : ManiaCtx K) (prio : Prio) (s : ManiaState) :
    (maniaShift x prio s).2 = true ∧ (maniaShift x prio s).1.totalHits = s.totalHits ∧
      (maniaShift x prio s).1.misses = s.misses ∧
      maniaAccNum x.classic (maniaShift x prio s).1 = maniaAccNum x.classic s ∧
      @maniaAcc K (fieldOps S) x.classic (maniaShift x prio s).1 = @maniaAcc K (fieldOps S) x.classic s := by
  obtain ⟨t1, t2, t3, t4⟩ := maniaShift_spec x prio s
  refine ⟨t1, t2, t4, t3, ?_⟩
  rw [maniaAcc_eq, maniaAcc_eq, t2, t3]

/-- The nested mania search never fails a check, and returns either the initial `best_state`
(only when nothing at all was enumerated) or an enumerated candidate
`maniaCand x n320 n300 n200 n100` from inside the windows whose distance to the target accuracy
is minimal among **all enumerated** candidates. -/
theorem mania_selected_is_best_of_window (S : K) (hS : 1 < S) (x : ManiaCtx K)
    (h0 : 0 ≤ x.acc) (h1 : x.acc ≤ 1) :
    let r := @maniaSearch K (fieldOps S) x
    r.ok = true ∧
      ((@maniaCands K (fieldOps S) x = [] ∧ r.hit = false ∧ r.val = maniaBest₀ x) ∨
       (r.hit = true ∧
        ∃ n320 n300 n200 n100,
          ((@maniaWin320 K (fieldOps S) x).1 ≤ n320 ∧ n320 ≤ (@maniaWin320 K (fieldOps S) x).2) ∧
          ((@maniaWin300 K (fieldOps S) x n320).1 ≤ n300 ∧ n300 ≤ (@maniaWin300 K (fieldOps S) x n320).2) ∧
          ((@maniaWin200 K (fieldOps S) x n320 n300).1 ≤ n200 ∧
            n200 ≤ (@maniaWin200 K (fieldOps S) x n320 n300).2) ∧
          n100 ∈ @maniaN100s K (fieldOps S) x n320 n300 n200 ∧
          r.val = maniaCand x n320 n300 n200 n100 ∧
          ∀ c ∈ @maniaCands K (fieldOps S) x,
            |x.acc - @maniaAcc K (fieldOps S) x.classic r.val|
              ≤ |x.acc - @maniaAcc K (fieldOps S) x.classic c.2|)) := by
  intro r
  refine ⟨maniaSearch_ok S x, ?_⟩
  have hsel := maniaSearch_sel S x
  have hcand : ∀ c ∈ @maniaCands K (fieldOps S) x,
      c.1 = |x.acc - @maniaAcc K (fieldOps S) x.classic c.2| := by
    intro c hc
    obtain ⟨_, _, _, _, _, _, _, _, rfl⟩ := (@mem_maniaCands K (fieldOps S) x c).1 hc
    rfl
  rcases hcl : @maniaCands K (fieldOps S) x with _ | ⟨c₀, tl⟩
  · left
    rcases hsel.3 with ⟨_, e2, e3⟩ | ⟨_, c, hc, _⟩
    · exact ⟨rfl, e3, e2⟩
    · rw [hcl] at hc; cases hc
  · right
    have hc₀ : c₀ ∈ @maniaCands K (fieldOps S) x := by rw [hcl]; exact List.mem_cons_self
    have hlt : c₀.1 < S := by
      rw [hcand c₀ hc₀]
      have := maniaAcc_mem01 S x.classic c₀.2
      exact dist_lt_sentinel h0 h1 hS this.1 this.2
    obtain ⟨k1, c, hc, e1, e2, hmin⟩ := hsel.selected rfl hc₀ hlt
    obtain ⟨n320, n300, n200, n100, w1, w2, w3, w4, hceq⟩ := (@mem_maniaCands K (fieldOps S) x c).1 hc
    have hv : r.val = maniaCand x n320 n300 n200 n100 := by
      have : r.val = c.2 := e2
      rw [this, hceq]
    refine ⟨k1, n320, n300, n200, n100, w1, w2, w3, w4, hv, ?_⟩
    intro c' hc'
    have e1' : r.dist = c.1 := e1
    have e2' : r.val = c.2 := e2
    rw [← hcl] at hc'
    have := hmin c' hc'
    rw [e1', hcand c hc, hcand c' hc', ← e2'] at this
    exact this

/-- On `maniaGenRaw` (accuracy given, at least two hit results open): no check fails, and the
returned state has the total hit count and the accuracy of the search result. -/
theorem mania_generated_acc (S acc : K) (c : ManiaCfg) (b : ManiaB K) (hacc : b.acc = some acc)
    (h2 : 2 ≤ b.unknowns) :
    let x := maniaCtxOf S acc c b
    let o := @maniaGenRaw K (fieldOps S) c b
    o.ok = true ∧ o.accepted = (@maniaSearch K (fieldOps S) x).hit ∧
      o.state.totalHits = (@maniaSearch K (fieldOps S) x).val.totalHits ∧
      o.state.misses = (@maniaSearch K (fieldOps S) x).val.misses ∧
      @maniaAcc K (fieldOps S) c.classic o.state
        = @maniaAcc K (fieldOps S) c.classic (@maniaSearch K (fieldOps S) x).val := by
  intro x o
  have ho := maniaGenRaw_search S acc c b hacc h2
  obtain ⟨t1, t2, t3, _, t5⟩ := mania_shift_preserves_acc S x c.prio (@maniaSearch K (fieldOps S) x).val
  have hmis : x.misses ≤ x.nObjects := by
    show optMin b.misses (min (passedU32 c.passed) c.nObjects)
      ≤ (if c.classic then min (passedU32 c.passed) c.nObjects
          else min (passedU32 c.passed) c.nObjects + c.nHoldNotes)
    have := optMin_le b.misses (min (passedU32 c.passed) c.nObjects)
    split <;> omega
  have hcl : x.classic = c.classic := rfl
  rw [hcl] at t5
  show (@maniaGenRaw K (fieldOps S) c b).ok = true ∧ (@maniaGenRaw K (fieldOps S) c b).accepted = _ ∧
    (@maniaGenRaw K (fieldOps S) c b).state.totalHits = _ ∧
    (@maniaGenRaw K (fieldOps S) c b).state.misses = _ ∧
    @maniaAcc K (fieldOps S) c.classic (@maniaGenRaw K (fieldOps S) c b).state = _
  rw [ho]
  refine ⟨?_, rfl, t2, t3, t5⟩
  show (decide (x.misses ≤ x.nObjects) && (@maniaSearch K (fieldOps S) x).ok
    && (maniaShift x c.prio (@maniaSearch K (fieldOps S) x).val).2) = true
  rw [decide_eq_true hmis, maniaSearch_ok S x, t1]
  rfl

/-- **mania, accuracy (+ optional misses) given, no hit result provided** (the arm the property
quantifies over), classic weights 60/60/40/20/10 and lazer weights 61/60/40/20/10: a candidate is
accepted, no check fails, the misses are as given (clamped to the objects), all judgements
(`n_objects`, plus the hold notes for non-classic lazer) are distributed, and **no** state with
the same misses and judgements is strictly closer to the target accuracy — the nested
n320/n300/n200/n100 windows always contain a global optimum, and the priority shift keeps it. -/
theorem mania_none_given_optimal (S acc : K) (h0 : 0 ≤ acc) (h1 : acc ≤ 1) (hS : 1 < S)
    (c : ManiaCfg) (b : ManiaB K) (hacc : b.acc = some acc) (h320 : b.n320 = none)
    (h300 : b.n300 = none) (h200 : b.n200 = none) (h100 : b.n100 = none) (h50 : b.n50 = none)
    (hsmall : c.nObjects + c.nHoldNotes ≤ u32Max) :
    let n₀ := min (passedU32 c.passed) c.nObjects
    let N := if c.classic then n₀ else n₀ + c.nHoldNotes
    let o := @maniaGenRaw K (fieldOps S) c b
    o.accepted = true ∧ o.ok = true ∧ o.state.misses = optMin b.misses n₀ ∧ o.state.totalHits = N ∧
      ∀ s : ManiaState, s.misses = o.state.misses → s.totalHits = N →
        |acc - @maniaAcc K (fieldOps S) c.classic o.state|
          ≤ |acc - @maniaAcc K (fieldOps S) c.classic s| := by
  intro n₀ N o
  have hunk : 2 ≤ b.unknowns := by
    unfold ManiaB.unknowns
    rw [h320, h300, h200, h100, h50]
    decide
  obtain ⟨g1, g2, g3, g4, g5⟩ := mania_generated_acc S acc c b hacc hunk
  have hm : optMin b.misses n₀ ≤ n₀ := optMin_le _ _
  have hn₀ : n₀ ≤ c.nObjects := Nat.min_le_right _ _
  have hmN : optMin b.misses n₀ ≤ N := by
    show _ ≤ (if c.classic then n₀ else n₀ + c.nHoldNotes)
    split <;> omega
  have hNs : N ≤ u32Max := by
    show (if c.classic then n₀ else n₀ + c.nHoldNotes) ≤ u32Max
    split <;> omega
  obtain ⟨s1, _, s3, s4, s5⟩ := maniaSearch_none_spec S hS acc h0 h1 c.classic N
    (N - optMin b.misses n₀) (optMin b.misses n₀) (by omega) hNs
  rw [← maniaCtxOf_none S acc c b h320 h300 h200 h100 h50] at s1 s3 s4 s5
  refine ⟨g2.trans s1, g1, g4.trans s3, g3.trans s4, ?_⟩
  intro s hsm hst
  rw [g5]
  exact s5 s (hsm.trans (g4.trans s3)) hst

end C13

/-- **Open statement** (not proved, outside the property's quantifier; measured by the harness on
every pattern): global optimality of *every* mania search arm — accuracy given, at least two hit
results open, the provided ones jointly fitting — among the completions of the provided results.
`mania_none_given_optimal` is the instance with nothing provided; for the other 25 patterns only
`mania_selected_is_best_of_window` is proved. -/
def ManiaProvidedOptimal (K : Type) [Field K] [LinearOrder K] [IsStrictOrderedRing K] [FloorRing K] : Prop :=
  ∀ (S acc : K) (c : ManiaCfg) (b : ManiaB K), 0 ≤ acc → acc ≤ 1 → 1 < S → b.acc = some acc →
    2 ≤ b.unknowns → c.nObjects + c.nHoldNotes ≤ u32Max →
    let n₀ := min (passedU32 c.passed) c.nObjects
    let N := if c.classic then n₀ else n₀ + c.nHoldNotes
    let o := @maniaGenRaw K (fieldOps S) c b
    b.n320.getD 0 + b.n300.getD 0 + b.n200.getD 0 + b.n100.getD 0 + b.n50.getD 0
        + optMin b.misses n₀ ≤ N →
    o.accepted = true ∧ o.ok = true ∧ o.state.misses = optMin b.misses n₀ ∧ o.state.totalHits = N ∧
      ∀ s : ManiaState, s.misses = o.state.misses → s.totalHits = N →
        (∀ v, b.n320 = some v → s.n320 = v) → (∀ v, b.n300 = some v → s.n300 = v) →
        (∀ v, b.n200 = some v → s.n200 = v) → (∀ v, b.n100 = some v → s.n100 = v) →
        (∀ v, b.n50 = some v → s.n50 = v) →
        |acc - @maniaAcc K (fieldOps S) c.classic o.state|
          ≤ |acc - @maniaAcc K (fieldOps S) c.classic s|

/-! ## Inventory of arms: which arms are accuracy-driven at all

Every arm of the four generators is one of
* **search arm, proved optimal** — `taiko_optimal` (n300, n100 open), `catch_tiny_optimal` and
  `catch_tiny_inconsistent_pair_optimal` (tiny droplets), `osu_none_given_optimal`,
  `osu_n300_given_optimal`, `osu_n100_given_optimal`, `osu_n50_given_optimal` (all three score
  origins, any slider-end / tick values), `mania_none_given_optimal` (classic and lazer);
* **not accuracy-driven** — the generated state does not depend on the *value* of the accuracy
  (theorems below: the remaining results are forced by the object count, or filled by priority);
  catch fruits/droplets/misses/combo and the osu slider parts never read the accuracy;
* **search arm, open** — mania with accuracy, at least one hit result provided and at least two
  open (25 patterns × 2 weight systems): `mania_selected_is_best_of_window` holds, global optimality
  among the completions of the provided results is measured by the harness only. These arms are
  outside the property's quantifier ("no individual hit results"). -/

/-- number of provided osu hit results -/
def osuProvided {R : Type} (b : OsuB R) : Nat :=
  (if b.n300.isSome then 1 else 0) + (if b.n100.isSome then 1 else 0) + (if b.n50.isSome then 1 else 0)

/-- mania, at most one hit result open: the state does not depend on the accuracy's value -/
theorem mania_acc_value_irrelevant {R : Type} [NumOps R] (c : ManiaCfg) (b : ManiaB R) (acc acc' : R)
    (h : b.unknowns ≤ 1) :
    maniaGenRaw c { b with acc := some acc } = maniaGenRaw c { b with acc := some acc' } := by
  obtain ⟨a0, a1, a2, a3, a4, a5, a6⟩ := b
  cases a1 <;> cases a2 <;> cases a3 <;> cases a4 <;> cases a5 <;>
    first
      | rfl
      | (exfalso; simp [ManiaB.unknowns] at h)

/-- osu, at least two of n300/n100/n50 provided: the state does not depend on the accuracy's value -/
theorem osu_acc_value_irrelevant {R : Type} [NumOps R] (c : OsuCfg) (b : OsuB R) (acc acc' : R)
    (h : 2 ≤ osuProvided b) :
    osuGenRaw c { b with acc := some acc } = osuGenRaw c { b with acc := some acc' } := by
  obtain ⟨a0, a1, a2, a3, a4, a5, a6, a7, a8⟩ := b
  cases a5 <;> cases a6 <;> cases a7 <;>
    first
      | rfl
      | (exfalso; simp [osuProvided] at h)

/-- osu: combo, misses and the slider parts (slider ends, large and small ticks) never depend on
the accuracy -/
theorem osu_slider_parts_acc_free {R : Type} [NumOps R] (c : OsuCfg) (b : OsuB R) (a a' : Option R) :
    let s := (osuGenRaw c { b with acc := a }).state
    let s' := (osuGenRaw c { b with acc := a' }).state
    s.maxCombo = s'.maxCombo ∧ s.misses = s'.misses ∧ s.sliderEndHits = s'.sliderEndHits ∧
      s.largeTickHits = s'.largeTickHits ∧ s.smallTickHits = s'.smallTickHits :=
  ⟨rfl, rfl, rfl, rfl, rfl⟩

/-- taiko, n300 or n100 provided: the state does not depend on the accuracy's value -/
theorem taiko_acc_value_irrelevant {R : Type} [NumOps R] (c : TaikoCfg) (b : TaikoB R) (acc acc' : R)
    (h : b.n300.isSome ∨ b.n100.isSome) :
    taikoGenRaw c { b with acc := some acc } = taikoGenRaw c { b with acc := some acc' } := by
  obtain ⟨a0, a1, a2, a3, a4⟩ := b
  cases a2 <;> cases a3 <;>
    first
      | rfl
      | (exfalso; simp at h)

/-- catch: fruits, droplets, misses and combo never depend on the accuracy (provided or not) -/
theorem catch_fruits_droplets_acc_free {R : Type} [NumOps R] (c : CatchCfg) (b : CatchB R)
    (a a' : Option R) :
    let s := (catchGenRaw c { b with acc := a }).state
    let s' := (catchGenRaw c { b with acc := a' }).state
    s.fruits = s'.fruits ∧ s.droplets = s'.droplets ∧ s.misses = s'.misses ∧ s.maxCombo = s'.maxCombo :=
  ⟨rfl, rfl, rfl, rfl⟩

/-- catch, exactly one of the tiny counts provided, or a consistent pair: the state does not
depend on the accuracy's value -/
theorem catch_acc_value_irrelevant {R : Type} [NumOps R] (c : CatchCfg) (b : CatchB R) (acc acc' : R)
    (h : (b.tiny.isSome ∧ b.tinyMisses.isNone) ∨ (b.tiny.isNone ∧ b.tinyMisses.isSome) ∨
      (∃ t tm, b.tiny = some t ∧ b.tinyMisses = some tm ∧ satAdd t tm = c.nTiny)) :
    catchGenRaw c { b with acc := some acc } = catchGenRaw c { b with acc := some acc' } := by
  obtain ⟨a0, a1, a2, a3, a4, a5, a6⟩ := b
  cases a4 <;> cases a5
  · exfalso; simp at h
  · rfl
  · rfl
  · rcases h with h | h | ⟨t, tm, ht, htm, hs⟩
    · simp at h
    · simp at h
    · simp only [Option.some.injEq] at ht htm
      subst ht htm
      unfold catchGenRaw catchTiny
      simp only [hs, if_true]

/-- the number of mania search arms (accuracy given, at least two hit results open) among the 32
provided-patterns is 26: one is `mania_none_given_optimal`, 25 are open -/
theorem mania_search_arm_count :
    ((List.range 32).filter fun bits =>
      decide (2 ≤ (List.range 5).countP fun i => bits / 2 ^ i % 2 == 0)).length = 26 := by
  decide

/-! ## The executable exact instance

The driver answers `GSQ` request lines with the instance `ratOps` (core `Rat`); it *is* the
instance `fieldOps 2` at `K = ℚ`, so every optimality theorem above speaks about what the driver
computes, and the harness compares that with its brute-force optimum on every `GSQ` line. -/

theorem driver_exact_instance : ratOps = fieldOps (2 : ℚ) := ratOps_eq_fieldOps

/-- e.g. mania: the state the driver's exact instance generates is globally optimal -/
theorem mania_none_given_optimal_driver (acc : ℚ) (h0 : 0 ≤ acc) (h1 : acc ≤ 1)
    (c : ManiaCfg) (b : ManiaB ℚ) (hacc : b.acc = some acc) (h320 : b.n320 = none)
    (h300 : b.n300 = none) (h200 : b.n200 = none) (h100 : b.n100 = none) (h50 : b.n50 = none)
    (hsmall : c.nObjects + c.nHoldNotes ≤ u32Max) :
    let o := @maniaGenRaw ℚ ratOps c b
    o.accepted = true ∧ o.ok = true ∧
      ∀ s : ManiaState, s.misses = o.state.misses → s.totalHits = o.state.totalHits →
        |acc - @maniaAcc ℚ ratOps c.classic o.state| ≤ |acc - @maniaAcc ℚ ratOps c.classic s| := by
  rw [driver_exact_instance]
  obtain ⟨k1, k2, _, k4, k5⟩ := mania_none_given_optimal (2 : ℚ) acc h0 h1 (by norm_num) c b hacc
    h320 h300 h200 h100 h50 hsmall
  exact ⟨k1, k2, fun s hm ht => k5 s hm (ht.trans k4)⟩

/-! ## Non-vacuity: the hypotheses are satisfiable (over `ℚ`, sentinel `2`) -/

example :
    let c : TaikoCfg := ⟨100, none, .best⟩
    let b : TaikoB ℚ := ⟨some (9 / 10), none, none, none, some 3⟩
    (0 : ℚ) ≤ 9 / 10 ∧ (9 / 10 : ℚ) ≤ 1 ∧ (1 : ℚ) < 2 ∧ b.acc = some (9 / 10) ∧ b.n300 = none ∧
      b.n100 = none ∧ c.maxCombo ≤ u32Max :=
  ⟨by norm_num, by norm_num, by norm_num, rfl, rfl, rfl, by decide⟩

/-- `taiko_optimal` instantiated. -/
example :
    (@taikoGenRaw ℚ (fieldOps 2) ⟨100, none, .best⟩ ⟨some (9 / 10), none, none, none, some 3⟩).accepted
      = true :=
  (taiko_optimal (2 : ℚ) (9 / 10) (by norm_num) (by norm_num) (by norm_num) ⟨100, none, .best⟩
    ⟨some (9 / 10), none, none, none, some 3⟩ rfl rfl rfl (by decide)).1

example :
    let c : CatchCfg := ⟨100, 80, 50⟩
    let b : CatchB ℚ := ⟨some (93 / 100), none, none, none, none, none, some 3⟩
    (0 : ℚ) ≤ 93 / 100 ∧ (93 / 100 : ℚ) ≤ 1 ∧ b.acc = some (93 / 100) ∧ b.tiny = none ∧
      b.tinyMisses = none ∧ c.nTiny ≤ u32Max :=
  ⟨by norm_num, by norm_num, rfl, rfl, rfl, by decide⟩

example :
    let c : OsuCfg := ⟨100, 80, 10, 5, none, true, false, .best⟩
    let b : OsuB ℚ := ⟨some (93 / 100), none, none, none, none, some 60, none, none, some 2⟩
    (0 : ℚ) ≤ 93 / 100 ∧ (93 / 100 : ℚ) ≤ 1 ∧ b.acc = some (93 / 100) ∧ b.n300 = some 60 ∧
      b.n100 = none ∧ b.n50 = none ∧ c.nObjects ≤ u32Max :=
  ⟨by norm_num, by norm_num, rfl, rfl, rfl, rfl, by decide⟩

/-- `osu_none_given_optimal` instantiated. -/
example :
    (@osuGenRaw ℚ (fieldOps 2) ⟨100, 80, 10, 5, none, true, false, .worst⟩
      ⟨some (93 / 100), none, none, none, none, none, none, none, some 2⟩).ok = true :=
  (osu_none_given_optimal (2 : ℚ) (93 / 100) (by norm_num) (by norm_num) (by norm_num)
    ⟨100, 80, 10, 5, none, true, false, .worst⟩
    ⟨some (93 / 100), none, none, none, none, none, none, none, some 2⟩ rfl (by decide) rfl rfl rfl).2.1

/-- a consistent search context exists -/
example : OsuCtxOk (osuCtxOf (93 / 100 : ℚ) .stable 0 0 0 80 2) :=
  osuCtxOf_ok _ (by norm_num) (by norm_num) _ _ _ _ _ _ rfl (by decide) (by decide)

/-- the exact instance is executable: concrete generated states (cross-check of the statements) -/
example :
    (@taikoGenRaw ℚ (fieldOps 2) ⟨100, none, .best⟩ ⟨some (9 / 10), none, none, none, some 3⟩).state
      = ⟨97, 83, 14, 3⟩ := by decide +kernel

example :
    (@osuGenRaw ℚ (fieldOps 2) ⟨100, 80, 10, 5, none, true, false, .best⟩
      ⟨some (93 / 100), none, none, none, none, none, none, none, some 2⟩).state
      = ⟨98, 5, 0, 10, 72, 6, 0, 2⟩ := by decide +kernel

example :
    (@catchGenRaw ℚ (fieldOps 2) ⟨100, 80, 50⟩ ⟨some (93 / 100), none, none, none, none, none, some 3⟩).state
      = ⟨177, 100, 77, 37, 13, 3⟩ := by decide +kernel

example :
    let b : ManiaB ℚ := ⟨some (93 / 100), none, none, none, none, none, some 3⟩
    b.acc = some (93 / 100) ∧ 2 ≤ b.unknowns :=
  ⟨rfl, by decide⟩

/-- `mania_none_given_optimal` instantiated (lazer weights, 3 hold notes, 2 misses). -/
example :
    (@maniaGenRaw ℚ (fieldOps 2) ⟨20, 3, none, false, .best⟩
      ⟨some (937 / 1000), none, none, none, none, none, some 2⟩).accepted = true :=
  (mania_none_given_optimal (2 : ℚ) (937 / 1000) (by norm_num) (by norm_num) (by norm_num)
    ⟨20, 3, none, false, .best⟩ ⟨some (937 / 1000), none, none, none, none, none, some 2⟩
    rfl rfl rfl rfl rfl rfl (by decide)).1

/-- concrete generated states of the exact instance, lazer and classic (cross-check) -/
example :
    (@maniaGenRaw ℚ (fieldOps 2) ⟨20, 3, none, false, .best⟩
      ⟨some (937 / 1000), none, none, none, none, none, some 2⟩).state.totalHits = 23 := by
  decide +kernel

example :
    (@maniaGenRaw ℚ (fieldOps 2) ⟨20, 3, none, true, .worst⟩
      ⟨some (937 / 1000), none, none, none, none, none, some 2⟩).state.totalHits = 20 := by
  decide +kernel

/-- hypotheses of `catch_tiny_inconsistent_pair_optimal` are satisfiable, and the pair is replaced -/
example :
    satAdd 1 1 ≠ (⟨100, 80, 50⟩ : CatchCfg).nTiny ∧
    (@catchGenRaw ℚ (fieldOps 2) ⟨100, 80, 50⟩
      ⟨some (93 / 100), none, none, none, some 1, some 1, some 3⟩).state = ⟨177, 100, 77, 37, 13, 3⟩ := by
  decide +kernel

/-- hypotheses of the inventory theorems are satisfiable -/
example :
    (⟨some (1 / 2 : ℚ), some 1, some 2, some 3, some 4, none, none⟩ : ManiaB ℚ).unknowns ≤ 1 ∧
    2 ≤ osuProvided (⟨some (1 / 2 : ℚ), none, none, none, none, some 3, none, some 1, none⟩ : OsuB ℚ) :=
  ⟨by decide, by decide⟩

end Rosu.GenState.Opt
