import RosuModel.Model.FullPerf
import RosuModel.Props.C12
import RosuModel.Props.C09b

/-!
# C12 / C04 / C03 — `calculate()` on the attributes path: generator ∘ formula (statements)

`Model/FullPerf.lean` composes `generate_state` (`Model/GenState.lean`, C12) with the pp formulas
(`Model/PerfCalc.lean`, C09) exactly as the four `*Performance::calculate` bodies do; the `FP` lines run
that composition with the `Float` instances against the real `calculate()` on *builder inputs*.

1. `*_calculate_eq_formula_of_generated_state`: `calculate` = the formula at the generated state, and
   (C12: `generate_state` never fails — catch: for `u32` inputs) it always returns a value;
2. `*_calculate_idempotent_state`: `calculate b = calculate (b.state (generate_state b))` for the concrete
   composition (C12's idempotence, with C12's hypotheses: a candidate was accepted for osu!/taiko);
3. C04 instantiated: `MapOrAttrs.calculate` with its opaque `gen`/`ppCalc` instantiated by the concrete
   halves is `<mode>Full` on `Src.attrs`, and the same function of `diff d m` on `Src.map m`; the
   argument lists of the concrete halves are exactly the read sets of the skeletons extracted from the
   four real `generate_state`/`calculate` functions on every run (`decide`);
4. over ℝ (any `NumOps ℝ`): the state hypotheses of the C09 theorems are *discharged by the generator* —
   catch: the combo bound the division needs; taiko: the hit bound the Wilson interval needs; mania: none —
   so pp ≥ 0 and the side conditions hold for every builder input.
-/

namespace Rosu.FullPerf
open Rosu.GenState Rosu.PerfCalc Rosu.MapOrAttrs Rosu.Gen.PerfSkeleton Rosu.C09b

section generic
variable {R : Type} [NumOps R] [PPOps R]

/-! ## 1. `calculate` is the formula at the generated state -/

theorem osu_calculate_eq_formula_of_generated_state (sf : Special R) (a : OsuAttrs R) (d : OsuSettings) (b : OsuB R) :
    osuFull sf a d b = .ok (PerfCalc.osuCalculate sf a d.mods
      (osuStateOf (osuGenRaw (osuCfgOf a d) b).state) d.lazer d.noSliderHeadAcc) := by
  unfold osuFull GenState.osuCalculate osuGen
  simp [osu_gen_total, Res.map, osuFormula]

theorem taiko_calculate_eq_formula_of_generated_state (sf : Special R) (a : TaikoAttrs R) (d : TaikoSettings)
    (b : TaikoB R) :
    taikoFull sf a d b = .ok (PerfCalc.taikoCalculate sf a d.mods
      (taikoStateOf (taikoGenRaw (taikoCfgOf a d) b).state)) := by
  unfold taikoFull GenState.taikoCalculate taikoGen
  simp [taiko_gen_total, Res.map, taikoFormula]

/-- catch: for attribute counts ≤ 2^24 and `u32` inputs (`CatchBound`, C12); without it the generator's
`u32` additions may overflow and `calculate` is `generate_state`'s panic -/
theorem catch_calculate_eq_formula_of_generated_state (a : CatchFullAttrs R) (d : CatchSettings) (b : CatchB R)
    (hb : CatchBound (catchCfgOf a) b) :
    catchFull a d b = .ok (PerfCalc.catchCalculate a.base d.mods
      (catchStateOf (catchGenRaw (catchCfgOf a) b).state)) := by
  unfold catchFull GenState.catchCalculate catchGen
  simp [catch_gen_total _ b hb, Res.map, catchFormula]

theorem mania_calculate_eq_formula_of_generated_state (a : ManiaAttrs R) (d : ManiaSettings) (b : ManiaB R) :
    maniaFull a d b = .ok (PerfCalc.maniaCalculate a.stars d.mods
      (maniaStateOf (maniaGenRaw (maniaCfgOf a d) b).state)) := by
  unfold maniaFull GenState.maniaCalculate maniaGen
  simp [mania_gen_total, Res.map, maniaFormula]

/-- in general (no hypothesis): `calculate` = `generate_state` then the formula -/
theorem catch_calculate_eq_gen_then_formula (a : CatchFullAttrs R) (d : CatchSettings) (b : CatchB R) :
    catchFull a d b = (catchGen (catchCfgOf a) b).map fun p =>
      PerfCalc.catchCalculate a.base d.mods (catchStateOf p.1) := rfl

/-! ## 2. idempotence of the concrete composition -/

theorem osu_calculate_idempotent_state (sf : Special R) (a : OsuAttrs R) (d : OsuSettings) (b : OsuB R)
    (hacc : (osuGenRaw (osuCfgOf a d) b).accepted = true) :
    osuFull sf a d b = osuFull sf a d (b.update (osuGenRaw (osuCfgOf a d) b).state) :=
  osu_calculate_eq_explicit_state _ _ b hacc

theorem taiko_calculate_idempotent_state (sf : Special R) (a : TaikoAttrs R) (d : TaikoSettings) (b : TaikoB R)
    (hacc : (taikoGenRaw (taikoCfgOf a d) b).accepted = true) :
    taikoFull sf a d b = taikoFull sf a d (b.update (taikoGenRaw (taikoCfgOf a d) b).state) :=
  taiko_calculate_eq_explicit_state _ _ b hacc

theorem catch_calculate_idempotent_state (a : CatchFullAttrs R) (d : CatchSettings) (b : CatchB R)
    (hb : CatchBound (catchCfgOf a) b) :
    catchFull a d b = catchFull a d (b.update (catchGenRaw (catchCfgOf a) b).state) :=
  catch_calculate_eq_explicit_state _ _ b hb

theorem mania_calculate_idempotent_state (a : ManiaAttrs R) (d : ManiaSettings) (b : ManiaB R) :
    maniaFull a d b = maniaFull a d (b.update (maniaGenRaw (maniaCfgOf a d) b).state) :=
  mania_calculate_eq_explicit_state _ _ b

/-! ## 3. C04 instantiated -/

variable {Map : Type}

theorem osu_builder_attrs_path (sf : Special R) (diff : OsuSettings → Map → OsuAttrs R) (a : OsuAttrs R)
    (d : OsuSettings) (b : OsuB R) :
    osuBuilderCalculate sf diff ⟨.attrs a, d, b⟩ = osuFull sf a d b := by
  unfold osuBuilderCalculate MapOrAttrs.calculate generateState osuFull GenState.osuCalculate osuGenOf osuPpOf
  dsimp only
  cases osuGen (osuCfgOf a d) b <;> rfl

theorem osu_builder_map_path (sf : Special R) (diff : OsuSettings → Map → OsuAttrs R) (m : Map)
    (d : OsuSettings) (b : OsuB R) :
    osuBuilderCalculate sf diff ⟨.map m, d, b⟩ = osuFull sf (diff d m) d b := by
  unfold osuBuilderCalculate MapOrAttrs.calculate generateState osuFull GenState.osuCalculate osuGenOf osuPpOf
  dsimp only
  cases osuGen (osuCfgOf (diff d m) d) b <;> rfl

theorem taiko_builder_attrs_path (sf : Special R) (diff : TaikoSettings → Map → TaikoAttrs R) (a : TaikoAttrs R)
    (d : TaikoSettings) (b : TaikoB R) :
    taikoBuilderCalculate sf diff ⟨.attrs a, d, b⟩ = taikoFull sf a d b := by
  unfold taikoBuilderCalculate MapOrAttrs.calculate generateState taikoFull GenState.taikoCalculate taikoGenOf taikoPpOf
  dsimp only
  cases taikoGen (taikoCfgOf a d) b <;> rfl

theorem taiko_builder_map_path (sf : Special R) (diff : TaikoSettings → Map → TaikoAttrs R) (m : Map)
    (d : TaikoSettings) (b : TaikoB R) :
    taikoBuilderCalculate sf diff ⟨.map m, d, b⟩ = taikoFull sf (diff d m) d b := by
  unfold taikoBuilderCalculate MapOrAttrs.calculate generateState taikoFull GenState.taikoCalculate taikoGenOf taikoPpOf
  dsimp only
  cases taikoGen (taikoCfgOf (diff d m) d) b <;> rfl

theorem catch_builder_attrs_path (diff : CatchSettings → Map → CatchFullAttrs R) (a : CatchFullAttrs R)
    (d : CatchSettings) (b : CatchB R) :
    catchBuilderCalculate diff ⟨.attrs a, d, b⟩ = catchFull a d b := by
  unfold catchBuilderCalculate MapOrAttrs.calculate generateState catchFull GenState.catchCalculate catchGenOf catchPpOf
  dsimp only
  cases catchGen (catchCfgOf a) b <;> rfl

theorem catch_builder_map_path (diff : CatchSettings → Map → CatchFullAttrs R) (m : Map)
    (d : CatchSettings) (b : CatchB R) :
    catchBuilderCalculate diff ⟨.map m, d, b⟩ = catchFull (diff d m) d b := by
  unfold catchBuilderCalculate MapOrAttrs.calculate generateState catchFull GenState.catchCalculate catchGenOf catchPpOf
  dsimp only
  cases catchGen (catchCfgOf (diff d m)) b <;> rfl

theorem mania_builder_attrs_path (diff : ManiaSettings → Map → ManiaAttrs R) (a : ManiaAttrs R)
    (d : ManiaSettings) (b : ManiaB R) :
    maniaBuilderCalculate diff ⟨.attrs a, d, b⟩ = maniaFull a d b := by
  unfold maniaBuilderCalculate MapOrAttrs.calculate generateState maniaFull GenState.maniaCalculate maniaGenOf maniaPpOf
  dsimp only
  cases maniaGen (maniaCfgOf a d) b <;> rfl

theorem mania_builder_map_path (diff : ManiaSettings → Map → ManiaAttrs R) (m : Map)
    (d : ManiaSettings) (b : ManiaB R) :
    maniaBuilderCalculate diff ⟨.map m, d, b⟩ = maniaFull (diff d m) d b := by
  unfold maniaBuilderCalculate MapOrAttrs.calculate generateState maniaFull GenState.maniaCalculate maniaGenOf maniaPpOf
  dsimp only
  cases maniaGen (maniaCfgOf (diff d m) d) b <;> rfl

end generic

/-- The composition has the shape of the code: for every mode, the skeletons of `generate_state` and
`calculate` extracted from the source on this run (`Gen/PerfSkeleton.lean`) are *equal* to the skeleton of
`MapOrAttrs.generateState`/`calculate` with the opaque functions replaced by the argument lists of the
concrete `<mode>GenOf`/`<mode>PpOf` (`fullPerfReads`; catch's generator takes no settings), and no other
builder method touches the source. -/
theorem composition_matches_generated_skeletons :
    perfSkeletons.map (fun r => (r.1, r.2.1, r.2.2.1, r.2.2.2))
      = fullPerfReads.map (fun r => (r.1, (skeletonWith r.2.1 r.2.2).1, (skeletonWith r.2.1 r.2.2).2, [])) := by
  decide

/-- … and that shape conforms to the model skeleton of `Model/MapOrAttrs.lean` (C04's criterion) -/
theorem composition_conforms_to_model_skeleton :
    fullPerfReads.all (fun r =>
      conformsAll (skeletonWith r.2.1 r.2.2).1 generateStateSkeleton
        && conformsAll (skeletonWith r.2.1 r.2.2).2 calculateSkeleton) = true := by
  decide

/-! ## 4. over ℝ: the generator discharges the state hypotheses of the C09 theorems

`[NumOps ℝ]` is an arbitrary instance: the statements hold whatever the search loops of `generate_state`
compute with (they only use the u32 bookkeeping proved in C12). -/

section real
variable [NumOps ℝ]

/-- mania: for every builder input `calculate` returns, `pp ≥ 0`, `pp_difficulty ≥ 0`, every partial
operation in its domain — no hypothesis -/
theorem mania_full_spec (a : ManiaAttrs ℝ) (d : ManiaSettings) (b : ManiaB ℝ) :
    ∃ pp dv, maniaFull a d b = .ok (pp, dv) ∧ 0 ≤ pp ∧ 0 ≤ dv
      ∧ maniaCalculateDom a.stars d.mods (maniaStateOf (maniaGenRaw (maniaCfgOf a d) b).state) = true := by
  have h := mania_pp_nonneg a.stars d.mods (maniaStateOf (maniaGenRaw (maniaCfgOf a d) b).state)
  exact ⟨_, _, mania_calculate_eq_formula_of_generated_state a d b, h.1, h.2, mania_domain_ok _ _ _⟩

/-- catch: the combo bound `state.max_combo ≤ attrs.max_combo()` that keeps the combo scaling's division
away from `0^0.8 = 0` (`catch_domain_needs_combo_bound`) is established by `generate_state`'s clamp -/
theorem catch_full_spec (a : CatchFullAttrs ℝ) (d : CatchSettings) (b : CatchB ℝ)
    (hb : CatchBound (catchCfgOf a) b) :
    ∃ pp, catchFull a d b = .ok pp ∧ 0 ≤ pp
      ∧ catchCalculateDom a.base d.mods (catchStateOf (catchGenRaw (catchCfgOf a) b).state) = true := by
  refine ⟨_, catch_calculate_eq_formula_of_generated_state a d b hb, catch_pp_nonneg _ _ _, ?_⟩
  apply catch_domain_ok
  have h := catch_combo_le (catchCfgOf a) b
  simp only at h
  show (catchGenRaw (catchCfgOf a) b).state.maxCombo ≤ a.base.nFruits + a.base.nDroplets
  have : (catchCfgOf a).nFruits + (catchCfgOf a).nDroplets = a.base.nFruits + a.base.nDroplets := rfl
  omega

/-- the generated taiko state has at most `3 · max_combo` hits (each of n300, n100, misses is clamped to the
judgements) -/
theorem taiko_generated_hits_le (c : TaikoCfg) (b : TaikoB ℝ) :
    (taikoStateOf (taikoGenRaw c b).state).totalHits ≤ 3 * c.maxCombo := by
  have hm := optMin_le b.misses (min (passedU32 c.passed) c.maxCombo)
  have hs := taikoHitResults_spec c.prio b _ _ hm
  rw [taikoGenRaw_eq]
  simp only [taikoStateOf, Finite.TaikoState.totalHits]
  have h3 := hs.le300
  have h1 := hs.le100
  have : min (passedU32 c.passed) c.maxCombo ≤ c.maxCombo := Nat.min_le_right _ _
  omega

/-- taiko: the hit bound of the Wilson interval (`total_hits ≤ 2^34`) follows from `max_combo` being a
`u32`; what remains are the hypotheses on the attributes (`TaikoAttrsOK`) and on `erf`/`erf_inv` -/
theorem taiko_full_spec (sf : Special ℝ) (E : ErfFacts sf) (a : TaikoAttrs ℝ) (H : TaikoAttrsOK a)
    (hmc : a.maxCombo ≤ u32Max) (d : TaikoSettings) (b : TaikoB ℝ) :
    ∃ o, taikoFull sf a d b = .ok o ∧ 0 ≤ o.pp ∧ 0 ≤ o.ppAcc ∧ 0 ≤ o.ppDifficulty ∧ 0 ≤ o.effectiveMissCount
      ∧ (∀ u, o.estimatedUnstableRate = some u → 0 < u)
      ∧ taikoCalculateDom sf a d.mods (taikoStateOf (taikoGenRaw (taikoCfgOf a d) b).state) = true := by
  have hN : (taikoStateOf (taikoGenRaw (taikoCfgOf a d) b).state).totalHits ≤ 2 ^ 34 := by
    have h := taiko_generated_hits_le (taikoCfgOf a d) b
    have : (taikoCfgOf a d).maxCombo = a.maxCombo := rfl
    unfold u32Max at hmc
    omega
  obtain ⟨h1, h2, h3, h4, h5⟩ := taiko_pp_nonneg sf E a H d.mods _ hN
  exact ⟨_, taiko_calculate_eq_formula_of_generated_state sf a d b, h1, h2, h3, h4, h5,
    taiko_domain_ok sf E a H d.mods _ hN⟩

/-- osu!: of the state hypotheses of `osu_pp_nonneg_full` (`OsuAttrsOK`), the generator establishes the
combo bound and the slider-end / large-tick bounds; `n_spinners ≤ total_hits` is NOT established (it fails
for a small `passed_objects`: negative pp, docs/delivery-PP.md) and stays a hypothesis, with the attribute
ranges -/
theorem osu_generated_state_bounds (a : OsuAttrs ℝ) (d : OsuSettings) (b : OsuB ℝ) :
    (osuStateOf (osuGenRaw (osuCfgOf a d) b).state).maxCombo ≤ a.maxCombo
      ∧ (d.noSliderHeadAcc = false →
          (osuStateOf (osuGenRaw (osuCfgOf a d) b).state).sliderEndHits ≤ a.nSliders)
      ∧ (d.noSliderHeadAcc = false →
          (osuStateOf (osuGenRaw (osuCfgOf a d) b).state).largeTickHits ≤ a.nLargeTicks) := by
  have hc := osu_combo_le (osuCfgOf a d) b
  have hs := osu_slider_parts (osuCfgOf a d) b
  simp only at hc hs
  obtain ⟨hst, hla, _⟩ := hs
  have e1 : (osuCfgOf a d).maxCombo = a.maxCombo := rfl
  have e2 : (osuCfgOf a d).nSliders = a.nSliders := rfl
  have e3 : (osuCfgOf a d).nLargeTicks = a.nLargeTicks := rfl
  have e4 : (osuCfgOf a d).lazer = d.lazer := rfl
  have e5 : (osuCfgOf a d).noSliderHeadAcc = d.noSliderHeadAcc := rfl
  refine ⟨by simp only [osuStateOf]; omega, ?_, ?_⟩
  all_goals
    intro hn
    simp only [osuStateOf]
    cases hl : d.lazer
    · have := hst (by rw [e4, hl]); omega
    · have := hla (by rw [e4, hl]) (by rw [e5, hn])
      have h1 := optMinOr_le b.sliderEndHits a.nSliders
      have h2 := optMinOr_le b.largeTickHits a.nLargeTicks
      rw [e2, e3] at this
      omega

/-- osu!: pp and components ≥ 0 for the generated state; the remaining hypotheses are on the attributes
(ranges), the spinner count, at least one hit, and `u32`-sized counts for the Wilson bound -/
theorem osu_full_spec (sf : Special ℝ) (E : ErfFacts sf) (a : OsuAttrs ℝ) (d : OsuSettings) (b : OsuB ℝ)
    (s : Finite.OsuState) (hs : s = osuStateOf (osuGenRaw (osuCfgOf a d) b).state)
    (hh : 0 < s.totalHits) (hsp : a.nSpinners ≤ s.totalHits) (hN : s.totalHits ≤ 2 ^ 33)
    (h1 : 1 < a.aimDifficultStrainCount) (h2 : 1 < a.speedDifficultStrainCount) (h3 : a.ar ≤ 37)
    (h4 : a.hp * a.hp ≤ 1000 / 3) (h5 : 0 ≤ a.speedNoteCount) (h6 : a.speedNoteCount ≤ 8589934592)
    (h7 : 0 < a.greatHitWindow) (h8 : 0 < a.okHitWindow) :
    ∃ o, osuFull sf a d b = .ok o ∧ 0 ≤ o.pp ∧ 0 ≤ o.ppAim ∧ 0 ≤ o.ppSpeed ∧ 0 ≤ o.ppAcc ∧ 0 ≤ o.ppFlashlight
      ∧ 0 ≤ o.effectiveMissCount ∧ o.effectiveMissCount ≤ (s.totalHits : ℝ)
      ∧ ∀ sd, o.speedDeviation = some sd → 0 < sd := by
  obtain ⟨g1, g2, g3⟩ := osu_generated_state_bounds a d b
  rw [← hs] at g1 g2 g3
  have H : OsuAttrsOK (osuCalcOf a d.mods s d.lazer d.noSliderHeadAcc) :=
    ⟨h1, h2, h3, h4, h5, by show (-7 : ℝ) ≤ a.greatHitWindow; linarith, hsp, fun _ => g1, g2, g3⟩
  have W : OsuWindowsOK (osuCalcOf a d.mods s d.lazer d.noSliderHeadAcc) := ⟨h7, h8, h6, hN⟩
  obtain ⟨⟨p1, p2, p3, p4, p5, p6, p7⟩, p8⟩ := osu_pp_nonneg_full sf E a d.mods s d.lazer d.noSliderHeadAcc hh H W
  refine ⟨_, osu_calculate_eq_formula_of_generated_state sf a d b, ?_⟩
  rw [← hs]
  exact ⟨p1, p2, p3, p4, p5, p6, p7, p8⟩

end real

/-! ### non-vacuity -/

/-- an accepted osu! candidate exists (exact instance of C12), so the idempotence hypothesis is satisfiable -/
example : (@osuGenRaw Nat natOps ⟨3, 3, 0, 0, none, false, true, .best⟩ ⟨none, none, none, none, none, none, none, none, none⟩).accepted = true := by
  decide

example : fullPerfReads.length = 4 ∧ perfSkeletons.length = 4 := by decide

end Rosu.FullPerf
