import RosuModel.Lemmas.GradualOsu
import RosuModel.Lemmas.GradualCatch
import RosuModel.Lemmas.GradualMania
import RosuModel.Lemmas.GradualTaikoNth
import RosuModel.Model.Builder
import RosuModel.Model.MapOrAttrs
import RosuModel.Gen.GradualPerf
import RosuModel.Gen.GradualCtor

/-!
# C03 — gradual performance equals performance of the partial play

`…GradualPerformance::nth(state, n)` is, in all four modes (generated chains below),

    self.difficulty.nth(n)?.performance()[.lazer(self.lazer)].state(state)
        .difficulty(self.difficulty.difficulty.clone()).passed_objects(self.difficulty.idx as u32).calculate()

The theorems: (1) the chains in the source are these; (2) the builder reached by that chain is,
field by field, the builder `Performance::new(x).difficulty(d).passed_objects(idx).state(state)`;
(3) with C02 (gradual value `idx` = one-shot difficulty for `passed_objects(idx)`) and C04 (attrs path
= map path) the result is the one-shot performance; (4) `nth` advances to object
`i + min (n+1) remaining` and evaluates with exactly that `passed_objects`.
-/

namespace Rosu.GradualPerf
open Rosu.Gen Rosu.Builder Rosu.Gradual

/-! ## (1) the chains in the source -/

def expectedNth (withLazer : Bool) : List String :=
  ["min(self.difficulty.len().saturating_sub(1))", "nth(n)", "performance"] ++ (if withLazer then ["lazer(self.lazer)"] else []) ++
  ["state(state)", "difficulty(self.difficulty.difficulty.clone())",
   "passed_objects(self.difficulty.idx as u32)", "calculate", "expect(\"no conversion required\")"]

theorem chains_as_modelled :
    gradualPerfChains =
      (["Osu", "Taiko", "Catch", "Mania"].flatMap fun mode =>
        [(mode, "next", ["nth(state, 0)"]), (mode, "last", ["nth(state, usize::MAX)"]),
         (mode, "nth", expectedNth (mode == "Osu")), (mode, "len", ["len"])]) := by
  decide

/-! ## (2) the builder reached by the chain -/

/-- The builder `nth` constructs around the gradual difficulty value (`src` stands for it). -/
def gradualBuilder (mode : String) (src : Nat) (d : Diff) (idx : Nat) (vals : List Nat) (lazer : Bool) : PerfB :=
  let b := PerfB.new src
  let b := if mode == "Osu" then b.applyMode mode "lazer" (.flag lazer) else b
  let b := b.applyMode mode "state" (.state vals)
  let b := b.setDifficulty d
  b.applyMode mode "passed_objects" (.nat idx)

/-- The one-shot builder `Performance::new(x).difficulty(d).passed_objects(idx).state(state)`. -/
def oneShotBuilder (mode : String) (src : Nat) (d : Diff) (idx : Nat) (vals : List Nat) : PerfB :=
  ((PerfB.new src).setDifficulty d |>.applyMode mode "passed_objects" (.nat idx)).applyMode mode "state" (.state vals)

/-- Field by field the two builders coincide, for every mode, settings, index, state and lazer
flag (the `lazer` written before `.difficulty(d)` is overwritten by `d`). -/
theorem gradual_builder_eq_oneshot_builder (mode : String) (hm : mode ∈ Builder.modes) (src : Nat) (d : Diff)
    (idx : Nat) (vals : List Nat) (lazer : Bool) :
    gradualBuilder mode src d idx vals lazer = oneShotBuilder mode src d idx vals := by
  simp only [Builder.modes, List.mem_cons, List.mem_nil_iff, or_false] at hm
  rcases hm with h | h | h | h <;> subst h <;>
    simp [gradualBuilder, oneShotBuilder, PerfB.applyMode, PerfB.applyEffect, PerfB.setDifficulty, PerfB.new,
      lookupEffect, modeSetters, List.lookup]

/-- …and the `Difficulty` it calculates with is `d.passed_objects(idx)`. -/
theorem gradual_builder_difficulty (mode : String) (hm : mode ∈ Builder.modes) (src : Nat) (d : Diff)
    (idx : Nat) (vals : List Nat) (lazer : Bool) :
    (gradualBuilder mode src d idx vals lazer).difficulty = d.applyS .passedObjects (.nat idx) := by
  rw [gradual_builder_eq_oneshot_builder mode hm]
  simp only [Builder.modes, List.mem_cons, List.mem_nil_iff, or_false] at hm
  rcases hm with h | h | h | h <;> subst h <;>
    simp [oneShotBuilder, PerfB.applyMode, PerfB.applyEffect, PerfB.setDifficulty, PerfB.new,
      lookupEffect, modeSetters, List.lookup, Diff.apply, DSetter.ofString]

/-! ## (3) from the builder to the result -/

open Rosu.MapOrAttrs in
/-- If the gradual difficulty value is the one-shot difficulty for `d' = d.passed_objects(idx)`
(C02), then calculating from it equals the one-shot performance on the map with `d'` and the same
score specification — for every opaque difficulty/state/pp function. -/
theorem gradual_perf_eq_oneshot {Map Attrs D X St R : Type} (diff : D → Map → Attrs) (gen : Attrs → D → X → St)
    (ppCalc : Attrs → D → St → R) (m : Map) (d' : D) (x : X) (a : Attrs) (hC02 : a = diff d' m) :
    calculate diff gen ppCalc ⟨.attrs a, d', x⟩ = calculate diff gen ppCalc ⟨.map m, d', x⟩ := by
  subst hC02; rfl

/-! ## (4) how far `nth`, `next` and `last` advance -/

variable {S St V X R : Type}

/-- `GradualPerformance::nth` (since `fix: gradual difficulty nth(n) returns None when fewer than n+1
values remain` it clamps itself: `let n = n.min(self.difficulty.len().saturating_sub(1));`): advance
the difficulty calculator, then evaluate with `passed_objects = idx` of the advanced calculator.
`.panic` = `len()` underflows (it never does: C15). -/
def perfNth (m : Machine St V) (idxOf : St → Nat) (perf : V → Nat → X → R) (g : St) (x : X) (n : Nat) :
    Res R × St :=
  match m.len g with
  | none => (.panic, g)
  | some len =>
    match m.nth g (min n (len - 1)) with
    | (.some v, g') => (.some (perf v (idxOf g') x), g')
    | (.none, g') => (.none, g')
    | (.panic, g') => (.panic, g')

/-- `perfNth` over any machine whose `len` / `nth` meet the per-mode specifications: it advances to value
number `i + min (n+1) remaining` — the clamp of the performance calculator composed with the
`Iterator::nth` contract of the difficulty calculator. -/
theorem perfNth_spec (m : Machine St V) (C : St → Nat → Prop) (N : Nat) (val : Nat → V) (idxOf : St → Nat)
    (hlen : ∀ g i, C g i → m.len g = some (N - i))
    (hsome : ∀ g i k, C g i → i + k < N → (m.nth g k).1 = .some (val (i + k + 1)) ∧ C (m.nth g k).2 (i + k + 1))
    (hnone : ∀ g i k, C g i → N ≤ i + k → (m.nth g k).1 = .none)
    (hidx : ∀ g i, C g i → idxOf g = i)
    (perf : V → Nat → X → R) (g : St) (i : Nat) (x : X) (n : Nat) (hc : C g i) :
    (i < N →
      let j := i + min (n + 1) (N - i)
      (perfNth m idxOf perf g x n).1 = .some (perf (val j) j x) ∧ C (perfNth m idxOf perf g x n).2 j) ∧
    (i = N → (perfNth m idxOf perf g x n).1 = .none) := by
  have hl := hlen g i hc
  constructor
  · intro hlt j
    have hk : i + min n (N - i - 1) < N := by omega
    obtain ⟨hv, hcn⟩ := hsome g i (min n (N - i - 1)) hc hk
    have e : i + min n (N - i - 1) + 1 = j := by simp only [j]; omega
    rw [e] at hv hcn
    unfold perfNth
    simp only [hl]
    generalize hr : m.nth g (min n (N - i - 1)) = r at hv hcn
    obtain ⟨rv, rg⟩ := r
    simp only at hv hcn
    subst hv
    exact ⟨by simp [hidx _ _ hcn], hcn⟩
  · intro heq
    have hv := hnone g i (min n (N - i - 1)) hc (by omega)
    unfold perfNth
    simp only [hl]
    generalize hr : m.nth g (min n (N - i - 1)) = r at hv
    obtain ⟨rv, rg⟩ := r
    simp only at hv
    subst hv
    rfl

theorem osu_perf_nth (sk : Skills S) (objs : List OsuObj) (perf : OsuCounts × S → Nat → X → R)
    (g : OsuGrad S) (i : Nat) (x : X) (n : Nat) (hc : OsuCanon sk objs g i) :
    (i < objs.length →
      let j := i + min (n + 1) (objs.length - i)
      (perfNth (osuMachine sk objs) (·.idx) perf g x n).1 = .some (perf (osuValue sk objs j) j x) ∧
      OsuCanon sk objs (perfNth (osuMachine sk objs) (·.idx) perf g x n).2 j) ∧
    (i = objs.length → (perfNth (osuMachine sk objs) (·.idx) perf g x n).1 = .none) :=
  perfNth_spec (osuMachine sk objs) (OsuCanon sk objs) objs.length (osuValue sk objs) (·.idx)
    (fun g i hc => osuLen_spec sk objs g i hc)
    (fun g i k hc h => (osuNth_spec sk objs g i k hc).1 h)
    (fun g i k hc h => ((osuNth_spec sk objs g i k hc).2 h).1)
    (fun g i hc => hc.idx) perf g i x n hc

/-- `last` (= `nth(usize::MAX)`) processes all remaining objects. -/
theorem osu_perf_last (sk : Skills S) (objs : List OsuObj) (perf : OsuCounts × S → Nat → X → R)
    (g : OsuGrad S) (i : Nat) (x : X) (big : Nat) (hc : OsuCanon sk objs g i) (hlt : i < objs.length)
    (hbig : objs.length ≤ big) :
    (perfNth (osuMachine sk objs) (·.idx) perf g x big).1 =
      .some (perf (osuValue sk objs objs.length) objs.length x) := by
  have h := (osu_perf_nth sk objs perf g i x big hc).1 hlt
  simp only at h
  have e : i + min (big + 1) (objs.length - i) = objs.length := by omega
  rw [e] at h
  exact h.1

/-! The same statement for catch (units = palpable objects) and mania. -/

theorem catch_perf_nth (sk : Skills S) (recs : List CatchRec) (perf : CatchCounts × S → Nat → X → R)
    (g : CatchGrad S) (i : Nat) (x : X) (n : Nat) (hc : CatchCanon sk recs g i) :
    (i < recs.length →
      let j := i + min (n + 1) (recs.length - i)
      (perfNth (catchMachine sk recs (recs.length - 1)) (·.idx) perf g x n).1 = .some (perf (catchValue sk recs j) j x) ∧
      CatchCanon sk recs (perfNth (catchMachine sk recs (recs.length - 1)) (·.idx) perf g x n).2 j) ∧
    (i = recs.length → (perfNth (catchMachine sk recs (recs.length - 1)) (·.idx) perf g x n).1 = .none) :=
  perfNth_spec (catchMachine sk recs (recs.length - 1)) (CatchCanon sk recs) recs.length (catchValue sk recs) (·.idx)
    (fun g i hc => catchLen_spec sk recs g i hc)
    (fun g i k hc h => (catchNth_spec sk recs g i k hc).1 h)
    (fun g i k hc h => ((catchNth_spec sk recs g i k hc).2 h).1)
    (fun g i hc => hc.idx) perf g i x n hc

theorem mania_perf_nth (sk : Skills S) (objs : List ManiaObj) (perf : ManiaCounts × S → Nat → X → R)
    (g : ManiaGrad S) (i : Nat) (x : X) (n : Nat) (hc : ManiaCanon sk objs g i) :
    (i < objs.length →
      let j := i + min (n + 1) (objs.length - i)
      (perfNth (maniaMachine sk objs) (·.idx) perf g x n).1 = .some (perf (maniaValue sk objs j) j x) ∧
      ManiaCanon sk objs (perfNth (maniaMachine sk objs) (·.idx) perf g x n).2 j) ∧
    (i = objs.length → (perfNth (maniaMachine sk objs) (·.idx) perf g x n).1 = .none) :=
  perfNth_spec (maniaMachine sk objs) (ManiaCanon sk objs) objs.length (maniaValue sk objs) (·.idx)
    (fun g i hc => maniaLen_spec sk objs g i hc)
    (fun g i k hc h => (maniaNth_spec sk objs g i k hc).1 h)
    (fun g i k hc h => ((maniaNth_spec sk objs g i k hc).2 h).1)
    (fun g i hc => hc.idx) perf g i x n hc

/-- The same for taiko, for every object list (units = hits; since the fix of
`TaikoGradualDifficulty::{next,nth}` no "first two objects are hits" hypothesis): `nth` advances to
hit number `i + min (n+1) remaining` and evaluates with exactly that `passed_objects`. -/
theorem taiko_perf_nth (sk : Skills S) (objs : List Bool)
    (perf : Nat × S → Nat → X → R) (g : TaikoGrad S) (i : Nat) (x : X) (n : Nat)
    (hc : TaikoCanon sk objs g i) :
    let H := hitsIn objs
    (i < H →
      let j := i + min (n + 1) (H - i)
      (perfNth (taikoMachine sk objs) (·.idx) perf g x n).1 = .some (perf (taikoValue sk objs j) j x) ∧
      TaikoCanon sk objs (perfNth (taikoMachine sk objs) (·.idx) perf g x n).2 j) ∧
    (i = H → (perfNth (taikoMachine sk objs) (·.idx) perf g x n).1 = .none) :=
  perfNth_spec (taikoMachine sk objs) (TaikoCanon sk objs) (hitsIn objs) (taikoValue sk objs) (·.idx)
    (fun g i hc => taikoLen_canon sk objs g i hc.idx hc.le)
    (fun g i k hc h => (taikoNth_spec sk objs g i k hc).1 h)
    (fun g i k hc h => ((taikoNth_spec sk objs g i k hc).2 h).1)
    (fun g i hc => hc.idx) perf g i x n hc

/-- taiko `last` (= `nth(usize::MAX)`) reports the last hit, from every canonical state. -/
theorem taiko_perf_last (sk : Skills S) (objs : List Bool)
    (perf : Nat × S → Nat → X → R) (g : TaikoGrad S) (i : Nat) (x : X) (big : Nat)
    (hc : TaikoCanon sk objs g i) (hlt : i < hitsIn objs) (hbig : hitsIn objs ≤ big) :
    (perfNth (taikoMachine sk objs) (·.idx) perf g x big).1 =
      .some (perf (taikoValue sk objs (hitsIn objs)) (hitsIn objs) x) := by
  have h := (taiko_perf_nth sk objs perf g i x big hc).1 hlt
  simp only at h
  have e : i + min (big + 1) (hitsIn objs - i) = hitsIn objs := by omega
  rw [e] at h
  exact h.1

/-- Non-vacuity (taiko): from the fresh state of `[roll, hit, roll, hit]` (irregular start), `nth(0)`
evaluates the 1st value with `passed_objects = 1`, `last` the 2nd with `passed_objects = 2`. -/
example :
    let objs := [false, true, false, true]
    let sk : Skills (List Nat) := ⟨[], fun s i => s ++ [i]⟩
    let perf : Nat × List Nat → Nat → Unit → Nat × List Nat × Nat := fun v p _ => (v.1, v.2, p)
    (perfNth (taikoMachine sk objs) (·.idx) perf (taikoNew sk objs) () 0).1 = .some (1, [], 1) ∧
    (perfNth (taikoMachine sk objs) (·.idx) perf (taikoNew sk objs) () (2 ^ 64 - 1)).1
      = .some (2, [0, 1], 2) := by
  decide

/-- Non-vacuity of the builder theorem on concrete values. -/
example :
    (gradualBuilder "Osu" 1 { Diff.new with lazer := some false } 5 [9, 1, 2, 3, 4, 5, 6, 7] true).difficulty =
      { Diff.new with lazer := some false, passed := some 5 } := by decide

/-! ## Construction (generated) -/

/-- `…GradualPerformance::new(difficulty, map)` of every mode only builds the mode's gradual
*difficulty* calculator from the very same `Difficulty` and map (so the map preparation is the one
of C02: `gradual_applies_same_mods_as_difficulty`, `gradual_reads_same_settings`) and stores it;
osu! additionally remembers `difficulty.get_lazer()`, the value its `nth` hands back to the
performance builder.  Re-extracted from src/<mode>/performance/gradual.rs on every run. -/
theorem gradual_perf_new_wraps_gradual_difficulty :
    Rosu.Gen.GradualCtor.gradualPerfNew =
      [("Osu", ["let lazer=difficulty.get_lazer()", "let difficulty=MODEGradualDifficulty::new(difficulty,map)?",
                "Ok(Self{lazer,difficulty})"]),
       ("Taiko", ["let difficulty=MODEGradualDifficulty::new(difficulty,map)?", "Ok(Self{difficulty})"]),
       ("Catch", ["let difficulty=MODEGradualDifficulty::new(difficulty,map)?", "Ok(Self{difficulty})"]),
       ("Mania", ["let difficulty=MODEGradualDifficulty::new(difficulty,map)?", "Ok(Self{difficulty})"])] ∧
    Rosu.Gen.GradualCtor.ctorUnknown = [] := by decide

end Rosu.GradualPerf
