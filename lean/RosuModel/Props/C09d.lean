import RosuModel.Lemmas.OsuSkillRhythm
import RosuModel.Lemmas.StrainSkeleton
import RosuModel.Gen.PerfConsts

/-!
# C09 (fourth file) — osu!standard: difficulty objects and strain evaluators

Model: `Model/OsuSkill.lean` (generic in `PPOps`; executed with IEEE doubles and `f32` roundings by the
`OSK` lines against the real constructor / evaluators through `osu::verif::skill_probe`).  Over ℝ, for
EVERY raw object list whose lazy travel distances are `≥ 0`, every clock rate and scaling factor:

* the constructor establishes the floors (`strain_time ≥ 25`, a slider's `travel_time ≥ 25`,
  `min_jump_time ≥ 25` unless the object or its predecessor is a spinner, all distances `≥ 0`), hence every
  denominator the aim evaluator divides by is `≥ 25`;
* the aim (with / without sliders), flashlight (with / without Hidden) and speed evaluators return `≥ 0`;
  the rhythm evaluator's result is `sqrt(…)/2 ≥ 0` whatever its sum;
* with the round-2 skeleton lemmas: the running strains of Aim, Flashlight and Speed stay `≥ 0`, so every
  value handed to the section bookkeeping is `≥ 0` — no abstract-evaluator hypothesis left for osu!;
* the history lookups of the flashlight loop are in range (the `break` is dead for list elements).
Source pinning: statement order of `set_distances` (the floors precede the spinner early return) and the
literals of every transcribed function, by `decide` against `Gen/PerfConsts.lean`.
-/

namespace Rosu.C09d
open Rosu.PerfCalc Rosu.Gen.PerfConsts

/-! ## the code the model was transcribed from -/

theorem osu_skill_constants_extracted : unknownShapes = [] := by decide

/-- `set_distances` assigns the slider's `travel_dist` and the FLOORED `travel_time` before the
`if self.base.is_spinner() || last_object.is_spinner() { return; }` early return (a slider that follows a
spinner keeps `travel_time ≥ 25`), `min_jump_time` is `strain_time` and, after a slider, floored again,
`min_jump_dist` is clamped at 0 — and `new` floors `strain_time`.  Moving the early return above the
floor (seeded change C09-spinner-then-slider-zero-travel-time) breaks this obligation. -/
theorem set_distances_order_as_modelled :
    setDistancesOrder = ["travel_dist", "travel_time_floored", "spinner_return", "lazy_jump_dist",
      "min_jump_time_strain", "min_jump_time_floored", "min_jump_dist_clamped", "angle"]
    ∧ strainTimeFloored = true := by decide

/-- module constants and numeric literals (source order) of the code `Model/OsuSkill.lean` transcribes -/
theorem osu_object_literals_as_modelled : osuObjectLiterals = [
  ("const NORMALIZED_RADIUS", ["50"]),
  ("const NORMALIZED_DIAMETER", ["Self::NORMALIZED_RADIUS * 2"]),
  ("const MIN_DELTA_TIME", ["25.0"]),
  ("const MAX_SLIDER_RADIUS", ["Self::NORMALIZED_RADIUS as f32 * 2.4"]),
  ("const ASSUMED_SLIDER_RADIUS", ["Self::NORMALIZED_RADIUS as f32 * 1.8"]),
  ("opacity_at", ["0.0", "0.0", "1.0", "1.0", "0.0", "1.0", "0.0", "1.0"]),
  ("get_doubletapness", ["0.0", "0.0", "1.0", "1.0", "1.0", "2.0", "1.0", "1.0"]),
  ("set_distances", ["1.0", "2.5", "1.0", "2.5", "0.0"]),
  ("get_end_cursor_pos", [])
] := by decide

/-- module constants and numeric literals (source order) of the code `Model/OsuSkill.lean` transcribes -/
theorem osu_aim_evaluator_literals_as_modelled : osuAimEvalLiterals = [
  ("const SKILL_MULTIPLIER", ["25.6"]),
  ("const STRAIN_DECAY_BASE", ["0.15"]),
  ("const WIDE_ANGLE_MULTIPLIER", ["1.5"]),
  ("const ACUTE_ANGLE_MULTIPLIER", ["2.6"]),
  ("const SLIDER_MULTIPLIER", ["1.35"]),
  ("const VELOCITY_CHANGE_MULTIPLIER", ["0.75"]),
  ("const WIGGLE_MULTIPLIER", ["1.02"]),
  ("const RADIUS", ["OsuDifficultyObject::NORMALIZED_RADIUS"]),
  ("const DIAMETER", ["OsuDifficultyObject::NORMALIZED_DIAMETER"]),
  ("calculate_initial_strain", ["0", "0.0"]),
  ("strain_value_at", []),
  ("evaluate_diff_of", ["1", "0", "0.0", "0.0", "0.0", "0.0", "0.0", "0.0", "1.25", "1.0", "3.0", "0.08", "0.92", "1.0", "3.0", "0.0", "2", "300.0", "400.0", "2", "3", "1.8", "110.0", "60.0", "3", "1.8", "110.0", "60.0", "0.0", "2.0", "1.25", "2.0"]),
  ("calc_wide_angle_bonus", ["40.0", "140.0"]),
  ("calc_acute_angle_bonus", ["140.0", "40.0"])
] := by decide

/-- module constants and numeric literals (source order) of the code `Model/OsuSkill.lean` transcribes -/
theorem osu_flashlight_evaluator_literals_as_modelled : osuFlashlightEvalLiterals = [
  ("const SKILL_MULTIPLIER", ["0.05512"]),
  ("const STRAIN_DECAY_BASE", ["0.15"]),
  ("const MAX_OPACITY_BONUS", ["0.4"]),
  ("const HIDDEN_BONUS", ["0.2"]),
  ("const MIN_VELOCITY", ["0.5"]),
  ("const SLIDER_MULTIPLIER", ["1.3"]),
  ("const MIN_ANGLE_MULTIPLIER", ["0.2"]),
  ("calculate_initial_strain", ["0", "0.0"]),
  ("strain_value_at", []),
  ("evaluate_diff_of", ["0.0", "1.0", "0.0", "0.0", "0.0", "0", "10", "0", "75.0", "1.0", "25.0", "1.0", "1.0", "1.0", "0.02", "1.0", "0.1", "0.0", "2.0", "1.0", "1.0", "1.0", "0.0", "0.0", "0.5", "0", "1"])
] := by decide

/-- module constants and numeric literals (source order) of the code `Model/OsuSkill.lean` transcribes -/
theorem osu_speed_evaluator_literals_as_modelled : osuSpeedEvalLiterals = [
  ("const SKILL_MULTIPLIER", ["1.46"]),
  ("const STRAIN_DECAY_BASE", ["0.3"]),
  ("const REDUCED_SECTION_COUNT", ["5"]),
  ("const SINGLE_SPACING_THRESHOLD", ["OsuDifficultyObject::NORMALIZED_DIAMETER as f64 * 1.25"]),
  ("const MIN_SPEED_BONUS", ["200.0"]),
  ("const SPEED_BALANCING_FACTOR", ["40.0"]),
  ("const DIST_MULTIPLIER", ["0.9"]),
  ("const HISTORY_TIME_MAX", ["5 * 1000"]),
  ("const HISTORY_OBJECTS_MAX", ["32"]),
  ("const RHYTHM_OVERALL_MULTIPLIER", ["0.95"]),
  ("const RHYTHM_RATIO_MULTIPLIER", ["12.0"]),
  ("const MIN_DELTA_TIME", ["25"]),
  ("calculate_initial_strain", ["0", "0.0"]),
  ("strain_value_at", []),
  ("evaluate_diff_of", ["0.0", "0", "0", "1.0", "0.93", "0.92", "1.0", "0.75", "2.0", "0.0", "0.0", "3.95", "0.0", "1.0", "1000.0"]),
  ("evaluate_diff_of#2", ["0.0", "0.0", "0.3", "0.0", "0", "2", "1", "1", "1", "1", "1.0", "2.0", "0.5", "2.0", "8.0", "0.0", "1.0", "0.0", "1.0", "0.125", "0.3", "0.5", "0.125", "0.5", "1", "58.33", "0.24", "2.75", "3.0", "1", "1.0", "0.75", "0.6", "0.6", "4.0", "2.0"]),
  ("new_with_delta", ["1"]),
  ("add_delta", ["1"]),
  ("is_similar_polarity", ["2", "2"]),
  ("is_default", ["0"]),
  ("eq", [])
] := by decide

/-- module constants and numeric literals (source order) of the code `Model/OsuSkill.lean` transcribes -/
theorem step_functions_literals_as_modelled : utilStepsLiterals = [
  ("bpm_to_milliseconds", ["60_000.0", "4"]),
  ("milliseconds_to_bpm", ["60_000.0", "4"]),
  ("logistic", ["1.0", "1.0"]),
  ("smoothstep", ["3.0", "2.0"]),
  ("smootherstep", ["6.0", "15.0", "10.0"])
] := by decide

/-! ## the constructor -/

/-- `OsuDifficultyObject::new` for ANY pair of objects, optional third object, clock rate and scaling
factor: the floors, `base`, `idx`, and `min_jump_time ≥ 25` unless a spinner is involved -/
theorem constructor_floors (hit last : RawObj ℝ) (ll : Option (RawObj ℝ)) (clock : ℝ) (idx : Nat) (sf : ℝ)
    (h : RawOK hit) :
    Floors (mkDiffObj hit last ll clock idx sf)
      ∧ (mkDiffObj hit last ll clock idx sf).base = hit ∧ (mkDiffObj hit last ll clock idx sf).idx = idx
      ∧ (hit.isSpinner = false → last.isSpinner = false → 25 ≤ (mkDiffObj hit last ll clock idx sf).minJumpTime) :=
  mkDiffObj_spec hit last ll clock idx sf h

/-- every list built by `create_difficulty_objects` is well-formed (positions = `idx`, floors, the
`min_jump_time` floor between non-spinner neighbours) — for lists of every length incl. 0–3 objects -/
theorem object_list_ok (raws : List (RawObj ℝ)) (clock sf : ℝ) (hr : ∀ r ∈ raws, RawOK r) :
    ListOK (createDiffObjs raws clock sf) := createDiffObjs_listOK raws clock sf hr

/-- every denominator of `AimEvaluator::evaluate_diff_of` is bounded away from zero: with `curr` at
position `i + 2`, `last` and `last_last` its predecessors, neither `curr` nor `last` a spinner,
`strain_time ≥ 25` for all three; if `last` is a slider then `last.travel_time ≥ 25` and
`curr.min_jump_time ≥ 25`; if `last_last` is a slider then `last_last.travel_time ≥ 25` and
`last.min_jump_time ≥ 25` -/
theorem aim_denominators_floored (ds : List (DiffObj ℝ)) (hl : ListOK ds) (i : Nat) (curr last lastLast : DiffObj ℝ)
    (hc : ds[i + 2]? = some curr) (hla : ds[i + 1]? = some last) (hll : ds[i]? = some lastLast)
    (hcs : curr.base.isSpinner = false) (hls : last.base.isSpinner = false) :
    25 ≤ curr.strainTime ∧ 25 ≤ last.strainTime ∧ 25 ≤ lastLast.strainTime
      ∧ (last.base.isSlider = true → 25 ≤ last.travelTime ∧ 25 ≤ curr.minJumpTime)
      ∧ (lastLast.base.isSlider = true → 25 ≤ lastLast.travelTime ∧ 25 ≤ last.minJumpTime) := by
  refine ⟨(hl.floors _ _ hc).strain, (hl.floors _ _ hla).strain, (hl.floors _ _ hll).strain, ?_, ?_⟩
  · intro hs
    exact ⟨(hl.floors _ _ hla).tt hs, hl.jump (i + 1) curr last hc hla hcs hls⟩
  · intro hs
    refine ⟨(hl.floors _ _ hll).tt hs, hl.jump i last lastLast hla hll hls ?_⟩
    unfold RawObj.isSlider at hs
    unfold RawObj.isSpinner
    have : lastLast.base.kind = 1 := by simpa using hs
    rw [this]; rfl

/-! ## evaluator outputs -/

/-- aim, with and without slider travel distance -/
theorem aim_evaluator_nonneg (ds : List (DiffObj ℝ)) (hl : ListOK ds) (curr : DiffObj ℝ) (hc : Floors curr)
    (withSliders : Bool) : 0 ≤ aimEvaluate ds curr withSliders := aimEvaluate_nonneg hl hc withSliders

/-- flashlight, with and without Hidden, for any non-negative scaling factor (`52 / radius`) and any
`time_preempt`, `time_fade_in` -/
theorem flashlight_evaluator_nonneg (ds : List (DiffObj ℝ)) (hl : ListOK ds) (curr : DiffObj ℝ) (hc : Floors curr)
    (hr : RawOK curr.base) (hidden : Bool) (sf : ℝ) (hsf : 0 ≤ sf) (tp tf : ℝ) :
    0 ≤ flashlightEvaluate ds curr hidden sf tp tf := flashlightEvaluate_nonneg hl hc hr hidden hsf tp tf

/-- `opacity_at ∈ [0, 1]` -/
theorem opacity_mem (o : DiffObj ℝ) (time : ℝ) (hidden : Bool) (tp tf : ℝ) :
    0 ≤ opacityAt o time hidden tp tf ∧ opacityAt o time hidden tp tf ≤ 1 := opacityAt_mem o time hidden tp tf

/-- speed strain, for any hit window and with / without Autopilot -/
theorem speed_evaluator_nonneg (ds : List (DiffObj ℝ)) (hl : ListOK ds) (curr : DiffObj ℝ) (hc : Floors curr)
    (hitWindow : ℝ) (autopilot : Bool) : 0 ≤ speedEvaluate ds curr hitWindow autopilot :=
  speedEvaluate_nonneg hl hc hitWindow autopilot

/-- the rhythm evaluator ends with `(4.0 + rhythm_complexity_sum * 0.95).sqrt() / 2.0`: `≥ 0` for every sum
(over ℝ; its body is not modelled) -/
theorem rhythm_evaluator_result_nonneg (sum : ℝ) : 0 ≤ Real.sqrt (4.0 + sum * 0.95) / 2.0 :=
  rhythm_output_nonneg sum

/-- the three evaluators at once on the list `create_difficulty_objects` builds, for every element -/
theorem osu_evaluators_nonneg (raws : List (RawObj ℝ)) (clock sf : ℝ) (hr : ∀ r ∈ raws, RawOK r)
    (i : Nat) (curr : DiffObj ℝ) (hc : (createDiffObjs raws clock sf)[i]? = some curr)
    (flSf tp tf hw : ℝ) (hflSf : 0 ≤ flSf) (b1 b2 b3 : Bool) :
    0 ≤ aimEvaluate (createDiffObjs raws clock sf) curr b1
      ∧ 0 ≤ flashlightEvaluate (createDiffObjs raws clock sf) curr b2 flSf tp tf
      ∧ 0 ≤ speedEvaluate (createDiffObjs raws clock sf) curr hw b3 := by
  have hl := createDiffObjs_listOK raws clock sf hr
  exact ⟨aimEvaluate_nonneg hl (hl.floors _ _ hc) b1,
    flashlightEvaluate_nonneg hl (hl.floors _ _ hc) (hl.raw _ _ hc) b2 hflSf tp tf,
    speedEvaluate_nonneg hl (hl.floors _ _ hc) hw b3⟩

/-! ## index lookups -/

/-- `previous(i)` inside the flashlight loop `for i in 0..min(curr.idx, 10)` always exists for an element
of the list (any length): the `else { break }` is never taken -/
theorem flashlight_history_in_range (ds : List (DiffObj ℝ)) (hl : ListOK ds) (k : Nat) (curr : DiffObj ℝ)
    (hc : ds[k]? = some curr) (i : Nat) (hi : i < min curr.idx 10) : (previous ds curr i).isSome = true := by
  have hidx : curr.idx = k := hl.idx k curr hc
  have hk : k < ds.length := by
    by_contra hcon
    rw [List.getElem?_eq_none (by omega)] at hc
    cases hc
  exact flashlight_lookups_in_range ds curr (by omega) i hi

/-- `previous(n)` never reads outside the list and is `none` exactly when `n ≥ idx` (the
`checked_sub`), for an element of a well-formed list -/
theorem previous_lookup_spec (ds : List (DiffObj ℝ)) (hl : ListOK ds) (k : Nat) (curr : DiffObj ℝ)
    (hc : ds[k]? = some curr) (n : Nat) : (previous ds curr n).isSome = true ↔ n < k := by
  have hidx : curr.idx = k := hl.idx k curr hc
  have hk : k < ds.length := by
    by_contra hcon
    rw [List.getElem?_eq_none (by omega)] at hc
    cases hc
  unfold previous
  rw [hidx]
  constructor
  · intro h
    by_contra hn
    rw [if_neg (by omega)] at h
    cases h
  · intro h
    rw [if_pos (by omega)]
    have : k - (n + 1) < ds.length := by omega
    simp [List.getElem?_eq_getElem this]

/-! ## the rhythm evaluator -/

/-- the `while` search for `rhythm_start` (bounded by `historical_note_count ≤ 32` iterations): afterwards
`rhythm_start = 0` or `rhythm_start + 1 < historical_note_count`, and every index it stepped over has a
`previous` object less than `HISTORY_TIME_MAX` ms before `curr` -/
theorem rhythm_start_search_spec (ds : List (DiffObj ℝ)) (curr : DiffObj ℝ) (hnc : Nat) :
    RsPassed ds curr hnc (rhythmStartSearch ds curr hnc hnc 0) := rhythmStart_spec ds curr hnc

/-- every lookup `curr.previous(i - 1)` of `for i in (1..=rhythm_start).rev()` is in range (the `break` is
dead) and `historical_note_count - i` (`usize`) never underflows — for every element of every well-formed
list, of any length -/
theorem rhythm_lookups_in_range (ds : List (DiffObj ℝ)) (hl : ListOK ds) (k : Nat) (curr : DiffObj ℝ)
    (hc : ds[k]? = some curr) (hitWindow : ℝ) (st : RhState ℝ)
    (h : (rhythmEvaluateFull ds curr hitWindow).2 = some st) : st.broke = false ∧ st.underflow = false :=
  rhythmEvaluateFull_flags ds hl k curr hc hitWindow st h

/-- for a hit window `≥ 0`: the rhythm value is `≥ 0`; when the loop ran, `rhythm_complexity_sum ≥ 0` (the
radicand of the final `sqrt` is `≥ 4`), `start_ratio ≥ 0` (the radicand `effective_ratio · start_ratio` of the
inner `sqrt` is `≥ 0`), every `island_count.count ≥ 1` (the denominators `count as f64`), and the two
history objects satisfy the constructor's floors (`strain_time ≥ 25`: the denominators
`max(prev_delta, curr_delta)`, `curr_delta`, `prev_delta`) -/
theorem rhythm_evaluator_spec (ds : List (DiffObj ℝ)) (hl : ListOK ds) (curr : DiffObj ℝ) (hitWindow : ℝ)
    (hhw : 0 ≤ hitWindow) :
    0 ≤ rhythmEvaluate ds curr hitWindow
      ∧ ∀ st, (rhythmEvaluateFull ds curr hitWindow).2 = some st → RhInv st :=
  rhythmEvaluateFull_spec ds hl curr hhw

/-- `effective_ratio ≥ 0` before the island logic; the `(1 − doubletapness·0.75)` factor is `≥ 0` -/
theorem rhythm_factors_nonneg (eps c p hw : ℝ) (heps : 0 ≤ eps) (o : DiffObj ℝ) (n : Option (DiffObj ℝ)) :
    0 ≤ rhythmEffectiveRatio eps c p ∧ (0 : ℝ) ≤ 1.0 - getDoubletapness o n hw * 0.75 :=
  ⟨rhythmEffectiveRatio_nonneg heps c p, doubletapness_factor_nonneg o n hw⟩

/-! ## the running strains (round-2 skeleton + the evaluators) -/

/-- `strain_value_at` of Aim / Flashlight: `current_strain = current_strain·decay + evaluator·multiplier`
stays `≥ 0` along any run whose evaluator outputs are the (non-negative) ones above and whose decay factors
`base^(ms/1000)` are `≥ 0`; the same for Speed, whose strain value is additionally multiplied by the
rhythm factor `sqrt(…)/2 ≥ 0` -/
theorem osu_running_strain_nonneg (mult : ℝ) (hm : 0 ≤ mult) (steps : List (ℝ × ℝ))
    (h : ∀ s ∈ steps, 0 ≤ s.1 ∧ 0 ≤ s.2) (n : Nat) (rhythmSum : ℝ) :
    0 ≤ StrainSkel.runStrain mult 0 (steps.take n)
      ∧ 0 ≤ StrainSkel.runStrain mult 0 (steps.take n) * (Real.sqrt (4.0 + rhythmSum * 0.95) / 2.0) :=
  ⟨StrainSkel.runStrain_nonneg hm le_rfl _ (fun s hs => h s (List.mem_of_mem_take hs)),
    StrainSkel.strain_values_nonneg hm le_rfl steps h n (rhythm_output_nonneg rhythmSum)⟩

/-- the decay factor `strain_decay(ms, base) = base^(ms/1000)` is positive for the bases used (0.15, 0.3) -/
theorem strain_decay_pos (ms : ℝ) : 0 < (0.15 : ℝ) ^ (ms / 1000.0) ∧ 0 < (0.3 : ℝ) ^ (ms / 1000.0) :=
  ⟨Real.rpow_pos_of_pos (by norm_num) _, Real.rpow_pos_of_pos (by norm_num) _⟩

/-! ### non-vacuity -/

/-- a three-object list (circle, slider, circle) satisfies the hypotheses -/
example : ∀ r ∈ ([⟨0, 0, 10, 10, 0, 0, 0, 0, 0, 0, 0, false, 0, 0⟩,
    ⟨1, 300, 100, 100, 0, 0, 180, 100, 40, 200, 0, true, 200, 100⟩,
    ⟨0, 700, 50, 300, 0, 0, 0, 0, 0, 0, 0, false, 0, 0⟩] : List (RawObj ℝ)), RawOK r := by
  intro r hr
  simp only [List.mem_cons, List.mem_nil_iff, or_false] at hr
  rcases hr with rfl | rfl | rfl <;> exact ⟨by norm_num⟩

end Rosu.C09d
