import RosuModel.Lemmas.ManiaPatternTotal
import RosuModel.Lemmas.ManiaPatternSafeLoop
import RosuModel.Lemmas.ManiaPattern8K
import RosuModel.Lemmas.ManiaPattern8KPath

/-!
# C05 (mania pattern generators) — which checked operations can fail, and when they cannot

`Model/ManiaPattern.lean` runs the three osu!→mania pattern generators with every panicking
operation checked (`1u16 << column`, `u8`/`i8`/`i32` arithmetic, `&node_sounds[idx..]`,
`assert!(has_valid_column)`) and fuel on the PRNG-driven retry loops; it is tied bit for bit to
the real generators under C19 (MPH / MPP / MPE / MPT lines, real PRNG).

Proved here, for every PRNG state and every lawful arithmetic:
* `find_available_column` (all three generators, with or without the `validation` closure) is total
  up to fuel exhaustion whenever its range contains a free column — the `assert!` precondition;
* the end-time (spinner) generator never fails except by fuel exhaustion, for every key count
  1–16 except 8 under the sole invariant "previous pattern inside `[0, total)`"; for 8 keys (7K+1)
  under the additional hypothesis that the previous pattern leaves one of the columns 1–7 free;
* that additional hypothesis is necessary: `ContainedColumns::len` counts the special column 0,
  which the 7K+1 draw range `[1, 8)` excludes, so the guard `column_with_objs() != total_columns`
  does NOT imply a free column — witness below (`assert!` fires).  Not reachable from `convert`
  as far as the trace statistics and the occupancy analysis of docs/delivery-MANIA.md go (a
  pattern of a 7K+1 conversion holds at most 5 columns), but not excluded by a theorem;
* `REVERSE_STAIR` after a lone note in the special column 0 of 7K+1 computes column `-1 as u8 =
  255`: `1u16 << 255` overflows (debug panic; a release build wraps and places the note in column
  7) — witness below; same reachability remark.
-/

namespace Rosu.C05d
open Rosu.ManiaPattern Rosu.Rng Rosu.Safety

variable {F : Type}

/-- **`find_available_column` never fails except by fuel exhaustion**, given what its callers
establish: range within the 16 bits, initial column below 16, a column source below 16, and a free
column in `[lower, upper)` (with respect to the patterns AND the `validation` closure). -/
theorem find_available_column_total (avoid : Option Nat) (pats : List Cols) (lower upper : Nat)
    (next : Osu → Nat → M (Nat × Osu)) (fuel : Nat) (s : Osu) (initial : Nat)
    (hu : upper ≤ 16) (hi : initial < 16)
    (hnext : ∀ s col, col < 16 → ∃ c s', next s col = .ok (c, s') ∧ c < 16)
    (hfree : ∃ c, lower ≤ c ∧ c < upper ∧ isValidA avoid pats c = .ok true) :
    OkOrFuel (findAvail avoid pats lower upper next fuel s initial) :=
  findAvail_total avoid pats lower upper next fuel s initial hu hi hnext hfree

/-- the PRNG column source satisfies `hnext` -/
theorem random_column_source_below_16 {A : PArith F} (hA : RangeLaw A) {lo hi : Nat} (h : lo < hi)
    (hh : hi ≤ 16) (s : Osu) (col : Nat) : ∃ c s', randomNext A lo hi s col = .ok (c, s') ∧ c < 16 :=
  randomNext_total hA h hh s col

/-- **(b) end-time generator, every key count but 8**: under the invariant "previous pattern inside
`[0, total)`" alone, `EndTimeObjectPatternGenerator::generate()` completes or exhausts its fuel —
the `!= total_columns` guard is exactly the `assert!` precondition. -/
theorem end_generator_never_fails {A : PArith F} (hA : RangeLaw A) (g : EndIn) (h1 : 1 ≤ g.total)
    (h16 : g.total ≤ 16) (h8 : g.total ≠ 8) (s : Osu)
    (hin : ∀ c, g.prev.cols.testBit c = true → c < g.total) :
    OkOrFuel (endGenerate A g s) :=
  endGenerate_total_not8 hA g h1 h16 h8 s hin

/-- **(b) end-time generator, 7K+1 included**, given a free column in the draw range. -/
theorem end_generator_never_fails_given_free_column {A : PArith F} (hA : RangeLaw A) (g : EndIn)
    (h1 : 1 ≤ g.total) (h16 : g.total ≤ 16) (s : Osu)
    (hfree : g.prev.count ≠ g.total →
      ∃ c, (if g.total = 8 then 1 else 0) ≤ c ∧ c < g.total ∧ g.prev.cols.testBit c = false) :
    OkOrFuel (endGenerate A g s) :=
  endGenerate_total hA g h1 h16 s hfree

/-- the statement "the guard implies a free column" for 7K+1 … -/
def EndGuardSufficesIn8K : Prop :=
  ∀ (g : EndIn) (s : Osu), g.total = 8 → (∀ c, g.prev.cols.testBit c = true → c < 8) →
    OkOrFuel (endGenerate exactArith g s)

/-- … is false: previous pattern = columns 1–7 (7 columns ≠ 8), the draw range `[1, 8)` is full and
`assert!(has_valid_column)` fires. -/
theorem end_guard_does_not_suffice_in_8K : ¬ EndGuardSufficesIn8K := by
  intro h
  have hin : ∀ c, (0b11111110 : Nat).testBit c = true → c < 8 := by
    intro c hc
    apply Classical.byContradiction
    intro hge
    have : (0b11111110 : Nat) < 2 ^ c :=
      Nat.lt_of_lt_of_le (by decide : (0b11111110 : Nat) < 2 ^ 8) (Nat.pow_le_pow_right (by decide) (by omega))
    rw [Nat.testBit_lt_two_pow this] at hc
    cases hc
  have := failOf_of_okOrFuel (h ⟨8, 0, ⟨[], 0b11111110⟩, true, false, 100⟩ (Osu.new 0) rfl hin)
  have hx : failOf (endGenerate exactArith ⟨8, 0, ⟨[], 0b11111110⟩, true, false, 100⟩ (Osu.new 0)) = some .assert := by
    decide +kernel
  rw [hx] at this
  rcases this with h | h <;> cases h

/-- `REVERSE_STAIR` in 7K+1 after a lone note in the special column: column 255, the `u16` shift
overflows. -/
theorem reverse_stair_from_special_column_overflows :
    failOf (hitGenerate exactArith ⟨8, 0, 0, 2 ^ REVERSE_STAIR, ⟨[⟨0, .atObject⟩], 1⟩, 0, 100⟩ (2 ^ REVERSE_STAIR)
      (Osu.new 0)) = some .shift := by
  decide +kernel

/-- a spinner after a full 4K pattern: stacking is allowed, no `assert!` is evaluated -/
example : failOf (endGenerate exactArith ⟨4, 0, ⟨[], 0b1111⟩, true, false, 100⟩ (Osu.new 5)) = none := by
  decide +kernel


/-! ## second round: hit-object and path generators, the whole loop

The float-gated note-count caps enter as laws of the arithmetic (`ProbLaw`: a draw is never
`>= 1.0 - 0.0`, and `1.0 < 0.0` is false — so a literal `0.0` probability never fires and `clamp`
keeps it); they hold for the exact rational instance by theorem and are exercised for the IEEE
instance by every MPH / MPP / MPT line whose branch has a zero probability. -/

/-- the laws hold for the exact instance (probabilities rational, `next_double = n / 2³¹`) -/
theorem exact_arithmetic_satisfies_prob_laws : ProbLaw ratArith := ratArith_probLaw

/-- **(b) hit-object generator.**  For every PRNG state, flag combination, hit sound, x, previous
pattern (no invariant needed) and key count 1–16, `HitObjectPatternGenerator::generate()` completes
or exhausts the fuel of a random retry loop — every `assert!(has_valid_column)` precondition follows
from the callers' caps (`min(total - random_start - prev.column_with_objs(), n)`, the per-key-count
probability caps, `column_limit`) — except in the one 7K+1 situation excluded by hypothesis. -/
theorem hit_generator_never_fails {A : PArith F} (hP : ProbLaw A) (g : HitIn F) (h1 : 1 ≤ g.total)
    (h16 : g.total ≤ 16) (stair : Nat) (s : Osu)
    (hspecial : g.total = 8 → g.prev.notes.length = 1 → has g.ct REVERSE_STAIR = true →
      hitLastColumn g ≠ 0) :
    OkOrFuel (hitGenerate A g stair s) :=
  hitGenerate_safe hP g h1 h16 stair s hspecial

/-- **(b) path generator**, under `PathWf`: span count ≥ 1, `0 ≤ segment_duration`,
`segment_duration·span_count ≤ end − start` (all established by `new`, `C19b.path_new_establishes…`),
the `i32` headroom `start + segment·(span+1) ≤ i32::MAX`, previous pattern inside `[0,total)`, and for
7K+1 a free column among 1–7. -/
theorem path_generator_never_fails {A : PArith F} (hP : ProbLaw A) (g : PathIn F) (h1 : 1 ≤ g.total)
    (h16 : g.total ≤ 16) (hw : PathWf g) (s : Osu) : OkOrFuel (pathGenerate A g s) :=
  pathGenerate_safe hP g h1 h16 hw s

/-- **(b) one iteration of `convert`'s loop** (7K+1 under `Free8`), and the loop invariant
"previous pattern inside `[0,total)`" is re-established. -/
theorem convert_step_never_fails {A : PArith F} (hP : ProbLaw A) (total : Nat) (h1 : 1 ≤ total)
    (h16 : total ≤ 16) (cd : F) (fuel : Nat) (st : ConvSt) (o : ObjIn F) (hprev : PatOk total st.prev)
    (ho : ObjWf o) (h8 : total = 8 → Free8 st.prev) :
    OkOrFuel (convertStep A total cd fuel st o) ∧
    ∀ r, convertStep A total cd fuel st o = .ok r → PatOk total r.2.prev :=
  convertStep_safe hP total h1 h16 cd fuel st o hprev ho h8

/-- **(b) the whole conversion, every key count but 8**: from the initial state, for every object
list whose sliders have well-formed `i32` times, no checked operation fails. -/
theorem convert_never_fails_except_7K1 {A : PArith F} (hP : ProbLaw A) (total : Nat) (h1 : 1 ≤ total)
    (h16 : total ≤ 16) (hne8 : total ≠ 8) (cd : F) (fuel : Nat) (seed : Int) (os : List (ObjIn F))
    (hwf : ∀ o ∈ os, ObjWf o) :
    OkOrFuel (convertLoop A total cd fuel (ConvSt.init seed) os) :=
  convertLoop_safe_not8 hP total h1 h16 hne8 cd fuel os _ (PatOk.empty total) hwf

/-- The `i32` headroom hypothesis is needed — FINDING (debug / overflow-checked builds): a slider of
two spans at 2147483397 ms with end time 2147483597 and segment duration 100 takes the
`generate_random_notes` branch, whose third `start_time += segment_duration` exceeds `i32::MAX`.
Replayed on the real converter (`harness/src/bin/mania_replay.rs`, map in docs/delivery-MANIA.md):
release wraps silently (the value is unused), the `checked` profile panics at path_object.rs:244. -/
theorem slider_time_overflow_witness :
    failOf (pathGenerate exactArith
      ⟨4, 256, 0, 2 ^ LOW_PROBABILITY, Pat.empty, 0, 2, 2147483397, 2147483597, 100, [0, 0, 0], 100⟩
      (Osu.new 0)) = some .arith := by
  decide +kernel


/-! ## round 6: the 7K+1 occupancy invariant (hit-object side) -/

/-- `Inv8` (pattern inside `[0,8)`, at most 6 distinct columns, a lone note not in the special
column) implies the `Free8` hypothesis of `convert_step_never_fails`. -/
theorem inv8_implies_free8 {p : Pat} (h : Inv8 p) : Free8 p := h.free8

/-- **The hit-object generator preserves `Inv8` in 7K+1** whenever `MIRROR` is not set
(`HitObjectPatternGenerator::new` sets it only for `total_columns != 8`): REVERSE / FORCE_STACK emit
one note per occupied column 1–7 of the previous pattern, CYCLE / STAIR / REVERSE_STAIR a single
note in 1–7 (the `-1 as u8` step needs a lone previous note in column 0, excluded by `Inv8`),
`generate_random_notes` between 1 and 5 notes in 1–7 (`min(7 − occupancy, n) ≥ 1` because
occupancy ≤ 6), plus at most the special column. -/
theorem hit_generator_preserves_inv8 {A : PArith F} (hP : ProbLaw A) (g : HitIn F) (h8 : g.total = 8)
    (hprev : Inv8 g.prev) (hmir : has g.ct MIRROR = false) (stair : Nat) (s : Osu)
    (r : Pat × Osu × Nat) (h : hitGenerate A g stair s = .ok r) : Inv8 r.1 :=
  hitGenerate_inv8 hP g h8 hprev hmir stair s r h

/-- **7K+1 without sliders: the whole conversion never fails**, with NO hypothesis on intermediate
patterns (circles without `MIRROR`, spinners and hold notes; from the initial state). -/
theorem convert_never_fails_7K1_without_sliders {A : PArith F} (hP : ProbLaw A) (cd : F) (fuel : Nat)
    (seed : Int) (os : List (ObjIn F)) (hwf : ∀ o ∈ os, NoSlider8 o) :
    OkOrFuel (convertLoop A 8 cd fuel (ConvSt.init seed) os) :=
  convertLoop_safe_8K_no_sliders hP cd fuel os _ Inv8.empty hwf

/-- **the path generator preserves `Inv8`** (7K+1, every slider branch): whatever `generate()` leaves
as `last_values.pattern` — the core pattern if it has one note, else its end-time part — satisfies
`Inv8` again.  No hypothesis on the slider's times: the time-ordered branches are only reached with
`segment_duration > 90`, which gives the strict monotonicity that bounds the end-time part. -/
theorem path_generator_preserves_inv8 {A : PArith F} (hP : ProbLaw A) (g : PathIn F) (h8 : g.total = 8)
    (hprev : Inv8 g.prev) (s : Osu) (r : List Pat × Osu) (h : pathGenerate A g s = .ok r) :
    Inv8 (r.1.getLast?.getD g.prev) :=
  pathGenerate_inv8 hP g h8 hprev s r h

/-- **the end-time generator preserves `Inv8`**: the loop does not store a spinner's pattern, so the
previous pattern (and its invariant) is unchanged -/
theorem end_generator_preserves_inv8 {A : PArith F} (hP : ProbLaw A) (cd : F) (fuel : Nat) (st : ConvSt)
    (sample : Nat) (hold short : Bool) (hprev : Inv8 st.prev) (r : Emitted × ConvSt)
    (h : convertStep A 8 cd fuel st (.spinner sample hold short) = .ok r) : Inv8 r.2.prev :=
  convertStep_inv8_all hP cd fuel st (.spinner sample hold short) hprev trivial r h

/-- **7K+1: the whole conversion never fails** (every object kind, from the initial state), with NO
hypothesis on intermediate patterns.  Hypotheses are on the inputs only: sliders have well-formed
times (`ObjWf`, as for every other column count) and — the single named hypothesis — circles do not
carry the `MIRROR` flag (`NoMirror8`). -/
theorem convert_never_fails_7K1 {A : PArith F} (hP : ProbLaw A) (cd : F) (fuel : Nat)
    (seed : Int) (os : List (ObjIn F)) (hwf : ∀ o ∈ os, ObjWf o ∧ NoMirror8 o) :
    OkOrFuel (convertLoop A 8 cd fuel (ConvSt.init seed) os) :=
  convertLoop_safe_8K hP cd fuel os _ Inv8.empty hwf

/-- non-vacuity: a slider and a circle satisfy the hypotheses -/
example : (ObjWf (F := Int) (.slider 100 0 0 3 0 300 100 [])) ∧ NoMirror8 (F := Int) (.circle 100 0 0) := by
  refine ⟨?_, ?_⟩
  · show SliderWf 3 0 300 100
    constructor <;> decide
  · show has 0 MIRROR = false
    decide

end Rosu.C05d
