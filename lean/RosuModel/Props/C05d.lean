import RosuModel.Lemmas.ManiaPatternTotal

/-!
# C05 (mania pattern generators) — which checked operations can fail, and when they cannot

`Model/ManiaPattern.lean` runs the three osu!→mania pattern generators with every panicking
operation checked (`1u16 << column`, `u8`/`i8`/`i32` arithmetic, `&node_sounds[idx..]`,
`assert!(has_valid_column)`) and fuel on the PRNG-driven retry loops; it is tied bit for bit to
the real generators under C19 (MPH / MPP / MPE / MPT lines, real PRNG).

Proved here, for every PRNG state and every lawful arithmetic:
* `find_available_column` (all three generators, with or without the `validation` closure) is total
  up to fuel exhaustion whenever its range contains a free column — the `assert!` precondition;
* the end-time (spinner) generator never fails except by fuel exhaustion, for every key count
  1–16 except 8 under the sole invariant "previous pattern inside `[0, total)`"; for 8 keys (7K+1)
  under the additional hypothesis that the previous pattern leaves one of the columns 1–7 free;
* that additional hypothesis is necessary: `ContainedColumns::len` counts the special column 0,
  which the 7K+1 draw range `[1, 8)` excludes, so the guard `column_with_objs() != total_columns`
  does NOT imply a free column — witness below (`assert!` fires).  Not reachable from `convert`
  as far as the trace statistics and the occupancy analysis of docs/delivery-MANIA.md go (a
  pattern of a 7K+1 conversion holds at most 5 columns), but not excluded by a theorem;
* `REVERSE_STAIR` after a lone note in the special column 0 of 7K+1 computes column `-1 as u8 =
  255`: `1u16 << 255` overflows (debug panic; a release build wraps and places the note in column
  7) — witness below; same reachability remark.
-/

namespace Rosu.C05d
open Rosu.ManiaPattern Rosu.Rng Rosu.Safety

variable {F : Type}

/-- **`find_available_column` never fails except by fuel exhaustion**, given what its callers
establish: range within the 16 bits, initial column below 16, a column source below 16, and a free
column in `[lower, upper)` (with respect to the patterns AND the `validation` closure). -/
theorem find_available_column_total (avoid : Option Nat) (pats : List Cols) (lower upper : Nat)
    (next : Osu → Nat → M (Nat × Osu)) (fuel : Nat) (s : Osu) (initial : Nat)
    (hu : upper ≤ 16) (hi : initial < 16)
    (hnext : ∀ s col, col < 16 → ∃ c s', next s col = .ok (c, s') ∧ c < 16)
    (hfree : ∃ c, lower ≤ c ∧ c < upper ∧ isValidA avoid pats c = .ok true) :
    OkOrFuel (findAvail avoid pats lower upper next fuel s initial) :=
  findAvail_total avoid pats lower upper next fuel s initial hu hi hnext hfree

/-- the PRNG column source satisfies `hnext` -/
theorem random_column_source_below_16 {A : PArith F} (hA : RangeLaw A) {lo hi : Nat} (h : lo < hi)
    (hh : hi ≤ 16) (s : Osu) (col : Nat) : ∃ c s', randomNext A lo hi s col = .ok (c, s') ∧ c < 16 :=
  randomNext_total hA h hh s col

/-- **(b) end-time generator, every key count but 8**: under the invariant "previous pattern inside
`[0, total)`" alone, `EndTimeObjectPatternGenerator::generate()` completes or exhausts its fuel —
the `!= total_columns` guard is exactly the `assert!` precondition. -/
theorem end_generator_never_fails {A : PArith F} (hA : RangeLaw A) (g : EndIn) (h1 : 1 ≤ g.total)
    (h16 : g.total ≤ 16) (h8 : g.total ≠ 8) (s : Osu)
    (hin : ∀ c, g.prev.cols.testBit c = true → c < g.total) :
    OkOrFuel (endGenerate A g s) :=
  endGenerate_total_not8 hA g h1 h16 h8 s hin

/-- **(b) end-time generator, 7K+1 included**, given a free column in the draw range. -/
theorem end_generator_never_fails_given_free_column {A : PArith F} (hA : RangeLaw A) (g : EndIn)
    (h1 : 1 ≤ g.total) (h16 : g.total ≤ 16) (s : Osu)
    (hfree : g.prev.count ≠ g.total →
      ∃ c, (if g.total = 8 then 1 else 0) ≤ c ∧ c < g.total ∧ g.prev.cols.testBit c = false) :
    OkOrFuel (endGenerate A g s) :=
  endGenerate_total hA g h1 h16 s hfree

/-- the statement "the guard implies a free column" for 7K+1 … -/
def EndGuardSufficesIn8K : Prop :=
  ∀ (g : EndIn) (s : Osu), g.total = 8 → (∀ c, g.prev.cols.testBit c = true → c < 8) →
    OkOrFuel (endGenerate exactArith g s)

/-- … is false: previous pattern = columns 1–7 (7 columns ≠ 8), the draw range `[1, 8)` is full and
`assert!(has_valid_column)` fires. -/
theorem end_guard_does_not_suffice_in_8K : ¬ EndGuardSufficesIn8K := by
  intro h
  have hin : ∀ c, (0b11111110 : Nat).testBit c = true → c < 8 := by
    intro c hc
    apply Classical.byContradiction
    intro hge
    have : (0b11111110 : Nat) < 2 ^ c :=
      Nat.lt_of_lt_of_le (by decide : (0b11111110 : Nat) < 2 ^ 8) (Nat.pow_le_pow_right (by decide) (by omega))
    rw [Nat.testBit_lt_two_pow this] at hc
    cases hc
  have := failOf_of_okOrFuel (h ⟨8, 0, ⟨[], 0b11111110⟩, true, false, 100⟩ (Osu.new 0) rfl hin)
  have hx : failOf (endGenerate exactArith ⟨8, 0, ⟨[], 0b11111110⟩, true, false, 100⟩ (Osu.new 0)) = some .assert := by
    decide +kernel
  rw [hx] at this
  rcases this with h | h <;> cases h

/-- `REVERSE_STAIR` in 7K+1 after a lone note in the special column: column 255, the `u16` shift
overflows. -/
theorem reverse_stair_from_special_column_overflows :
    failOf (hitGenerate exactArith ⟨8, 0, 0, 2 ^ REVERSE_STAIR, ⟨[⟨0, .atObject⟩], 1⟩, 0, 100⟩ (2 ^ REVERSE_STAIR)
      (Osu.new 0)) = some .shift := by
  decide +kernel

/-- a spinner after a full 4K pattern: stacking is allowed, no `assert!` is evaluated -/
example : failOf (endGenerate exactArith ⟨4, 0, ⟨[], 0b1111⟩, true, false, 100⟩ (Osu.new 5)) = none := by
  decide +kernel

end Rosu.C05d
