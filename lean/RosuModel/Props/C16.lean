import RosuModel.Lemmas.Skill
import RosuModel.Lemmas.SkillClosedForm
import RosuModel.Gen.StrainsMods

/-!
# C16 — strain output is consistent with the star rating it explains

Model: `Model/Skill.lean` (the `process` section loop `define_skill!` generates,
`get_current_strain_peaks`, the three aggregation functions) over `Model/StrainsVec.lean`.
Strain evaluators are abstract (`StrainFns`), times are an abstract arithmetic (`Arith`);
everything below holds for every instance, in particular the `Float` instance the driver runs
against the real code.

What is *not* a theorem: that evaluators return finite non-negative numbers (kernel property,
checked by the oracle on every generated map), and the `f64` arithmetic of the final formulas
(`sqrt(dv) * 4.59`, `dv * 0.018`, flashlight mod multipliers), which the harness replays with
the same operations and compares bit for bit.
-/

namespace Rosu.Skill
open Rosu.SV

variable {T P σ σ' : Type}

/-- **All skills of a mode report equally many sections.**  Two skills (different state types,
different strain functions) that process the same objects with the same section arithmetic
either both run out of loop fuel or both finish, and then `strains()` exports vectors of the
same length for both.  (Hypotheses: strain values are 64-bit patterns; fewer than `2^63`
sections.) -/
theorem peaks_length_indep_of_skill (A : Arith T) (F : StrainFns T P σ) (F' : StrainFns T P σ')
    (hb : Bounded A F) (hb' : Bounded A F') (fuel : Nat) (zero : T) (s0 : σ) (s0' : σ')
    (os : List (Obj T P)) :
    match processAll A F fuel (State.init zero s0) os, processAll A F' fuel (State.init zero s0') os with
    | none, none => True
    | some st, some st' =>
      st.peaks.len + 1 < SIGN →
      ∃ v v', exportPeaks st = some v ∧ exportPeaks st' = some v' ∧ v.length = v'.length ∧
        v.length = st.peaks.len + 1
    | _, _ => False := by
  have key := processAll_shape A F F' fuel os (State.init zero s0) (State.init zero s0') rfl
  cases h : processAll A F fuel (State.init zero s0) os with
  | none =>
    cases h' : processAll A F' fuel (State.init zero s0') os with
    | none => trivial
    | some b => rw [h, h'] at key; simp at key
  | some st =>
    cases h' : processAll A F' fuel (State.init zero s0') os with
    | none => rw [h, h'] at key; simp at key
    | some st' =>
      rw [h, h'] at key
      simp only [Option.map_some, Option.some.injEq] at key
      have hlen : st.peaks.len = st'.peaks.len := congrArg Prod.snd key
      intro hl
      have g := processAll_good A F hb fuel os _ st h hl (init_good zero s0)
      have g' := processAll_good A F' hb' fuel os _ st' h' (by omega) (init_good zero s0')
      obtain ⟨e1, l1, _⟩ := exportPeaks_spec g hl
      obtain ⟨e2, l2, _⟩ := exportPeaks_spec g' (by omega)
      exact ⟨_, _, e1, e2, by rw [l1, l2, hlen], l1⟩

/-- The number of sections is a function of `(idx, start_time)` of the objects and the section
arithmetic only: the `shape` (section end, peak count) of the final state is the same for any
two skills. -/
theorem section_count_depends_only_on_times (A : Arith T) (F : StrainFns T P σ)
    (F' : StrainFns T P σ') (fuel : Nat) (zero : T) (s0 : σ) (s0' : σ') (os : List (Obj T P)) :
    (processAll A F fuel (State.init zero s0) os).map shape
      = (processAll A F' fuel (State.init zero s0') os).map shape :=
  processAll_shape A F F' fuel os _ _ rfl

/-- **Export then aggregate = internal aggregate** (`difficulty_value`, used by catch, mania,
taiko skills): the terms the weighted fold runs over are the same whether they come from the
internal compact vector (`retain_non_zero_and_sort` + `transmute_into_vec`) or from the exported
`Vec<f64>` (drop zeros, sort descending) — hence any fold of them (`Σ peak·wⁱ`) agrees. -/
theorem export_then_aggregate_eq_internal {α : Type} (st : State T σ) (hg : Good st)
    (hl : st.peaks.len + 1 < SIGN) (agg : List Nat → α) :
    ∃ v, exportPeaks st = some v ∧ agg (dvTerms (currentStrainPeaks st)) = agg (dvTermsExported v) := by
  obtain ⟨e, _, hw⟩ := exportPeaks_spec hg hl
  exact ⟨_, e, by rw [dvTerms_eq_exported hw]⟩

/-- The same for osu!'s `difficulty_value` (aim, speed: `sorted_non_zero_iter_mut` with an
arbitrary in-place rescaling `f` of the top `k` peaks, then `sort_desc`). -/
theorem export_then_aggregate_eq_internal_osu {α : Type} (st : State T σ) (hg : Good st)
    (hl : st.peaks.len + 1 < SIGN) (f : Nat → Nat → Nat) (k : Nat) (agg : List Nat → α) :
    ∃ v, exportPeaks st = some v ∧
      agg (dvTermsOsu f k (currentStrainPeaks st)) = agg (dvTermsOsuExported f k v) := by
  obtain ⟨e, _, hw⟩ := exportPeaks_spec hg hl
  exact ⟨_, e, by rw [dvTermsOsu_eq_exported hw]⟩

/-- Flashlight's `difficulty_value` is `StrainsVec::sum`: it adds the non-zero exported peaks
in order … -/
theorem flashlight_sum_terms (st : State T σ) (hg : Good st) (hl : st.peaks.len + 1 < SIGN) :
    ∃ v, exportPeaks st = some v ∧ (currentStrainPeaks st).sumTerms = v.filter nonZeroBits := by
  obtain ⟨e, _, hw⟩ := exportPeaks_spec hg hl
  exact ⟨_, e, sumTerms_eq_exported hw⟩

/-- … which equals the plain sum of the exported vector for every addition with `+0.0` as right
identity. -/
theorem flashlight_sum_eq_exported_sum {α : Type} (st : State T σ) (hg : Good st)
    (hl : st.peaks.len + 1 < SIGN) (add : α → Nat → α) (h0 : ∀ a, add a 0 = a) (z : α) :
    ∃ v, exportPeaks st = some v ∧ (currentStrainPeaks st).sumTerms.foldl add z = v.foldl add z := by
  obtain ⟨v, e, h⟩ := flashlight_sum_terms st hg hl
  exact ⟨v, e, by rw [h]; exact foldl_filter_zero add h0 v z⟩

/-- Both the export and every aggregation start from `get_current_strain_peaks`, i.e. the open
section is included exactly once: the exported vector is the stored peaks followed by the
current section peak (canonicalised). -/
theorem export_includes_open_section (st : State T σ) (hg : Good st) (hl : st.peaks.len + 1 < SIGN) :
    exportPeaks st = some (st.peaks.abs ++ [canon st.sectionPeak]) := by
  obtain ⟨e, _, _⟩ := exportPeaks_spec hg hl
  rw [e]
  unfold currentStrainPeaks
  rw [push_abs _ _ (hg.1.bound hl)]

/-- Reaching a good state: every state produced by `processAll` from the initial state. -/
theorem reachable_good (A : Arith T) (F : StrainFns T P σ) (hb : Bounded A F) (fuel : Nat)
    (zero : T) (s0 : σ) (os : List (Obj T P)) (st : State T σ)
    (h : processAll A F fuel (State.init zero s0) os = some st) (hl : st.peaks.len + 1 < SIGN) :
    Good st := processAll_good A F hb fuel os _ st h hl (init_good zero s0)

/-- With exact integer times and a section length `L ≥ 1` the section loop terminates within
`start_time − section_end` iterations (no hang on any finite gap). -/
theorem section_loop_terminates_int (L : Int) (hL : 1 ≤ L) (F : StrainFns Int P σ) (o : Obj Int P)
    (st : State Int σ) (fuel : Nat) (h : (o.startTime - st.sectionEnd).toNat ≤ fuel) :
    (sectionLoop (intArith L) F o fuel st).isSome = true :=
  sectionLoop_int_terminates L hL F o fuel st h

/-- **Closed form of the section count** (exact integer times, section length `L ≥ 1`, first
object has `idx = 0` and no later one has): `strains()` exports
`1 + (max_i ⌈t_i/L⌉ − ⌈t_0/L⌉)` peaks — for non-decreasing times `1 + ⌈t_last/L⌉ − ⌈t_first/L⌉` —
whatever the skill; the loop needs at most that many iterations of fuel. -/
theorem section_count_closed_form (L : Int) (hL : 0 < L) (F : StrainFns Int P σ)
    (hb : Bounded (intArith L) F) (fuel : Nat) (s0 : σ) (o0 : Obj Int P) (os : List (Obj Int P))
    (h0 : o0.idx = 0) (hidx : ∀ o ∈ os, o.idx ≠ 0)
    (hf : (maxCeil L (ceilDiv L o0.startTime) os - ceilDiv L o0.startTime).toNat ≤ fuel)
    (hl : (maxCeil L (ceilDiv L o0.startTime) os - ceilDiv L o0.startTime).toNat + 1 < SIGN) :
    ∃ st v, processAll (intArith L) F fuel (State.init 0 s0) (o0 :: os) = some st ∧
      exportPeaks st = some v ∧
      v.length = 1 + (maxCeil L (ceilDiv L o0.startTime) os - ceilDiv L o0.startTime).toNat := by
  obtain ⟨st, h1, _, h3⟩ := processAll_int_from_init L hL F fuel s0 o0 os h0 hidx hf
  have hl' : st.peaks.len + 1 < SIGN := by rw [h3]; exact hl
  have hg := processAll_good (intArith L) F hb fuel (o0 :: os) _ st h1 hl' (init_good 0 s0)
  obtain ⟨e, l, _⟩ := exportPeaks_spec hg hl'
  exact ⟨st, _, h1, e, by rw [l, h3]; omega⟩

/-- `⌈−100/400⌉ = 0`, `⌈350/400⌉ = 1`, `⌈2100/400⌉ = 6`, `⌈800/400⌉ = 2` (a time on a boundary
belongs to the section it closes). -/
example : ceilDiv 400 (-100) = 0 ∧ ceilDiv 400 350 = 1 ∧ ceilDiv 400 2100 = 6 ∧ ceilDiv 400 800 = 2 := by
  decide

/-! ## both paths prepare the map identically (regenerated from /repo on every run) -/

/-- `strains()` performs exactly the same conversion and the same HoldOff / Invert / Random
applications as `difficulty()`, in every mode (this failed before commit 69d0c5d for mania and
taiko). -/
theorem strains_applies_same_mods_as_difficulty :
    Rosu.Gen.strainsPrep = Rosu.Gen.difficultyPrep := by decide

/-- The extractor understood every shape it met and found the known mod applications. -/
theorem strains_prep_shapes_known :
    Rosu.Gen.prepUnknownShapes = 0 ∧
    Rosu.Gen.strainsPrep.map (fun (m, l) => (m, l.length)) =
      [("osu", 1), ("taiko", 2), ("catch", 1), ("mania", 4)] := by decide

/-! ## non-vacuity: a concrete run -/

/-- Probe skill: payload = (strain, initial strain) bit patterns. -/
def probeFns : StrainFns Int (Nat × Nat) Unit :=
  { strainValueAt := fun _ o => ((), o.data.1), initialStrain := fun _ _ o => ((), o.data.2) }

/-- Objects at −100 ms, 350 ms, 2100 ms with section length 400: sections end at 0, 400, …, 2400;
exported peaks: [3, 5, 0, 0, 0, 0, 9] (values are stand-in patterns; the third object's initial
strain 0 fills the four empty sections). -/
example : (processAll (intArith 400) probeFns 100 (State.init 0 ())
      [⟨0, -100, (3, 7)⟩, ⟨1, 350, (5, 1)⟩, ⟨2, 2100, (9, 0)⟩]).bind exportPeaks
    = some [3, 5, 0, 0, 0, 0, 9] := by decide

example : Bounded (intArith 400) probeFns → True := fun _ => trivial

end Rosu.Skill
