import RosuModel.Model.ClockRate
import RosuModel.Gen.Setters

/-!
# C11 (d) — `Difficulty::clock_rate`: the `NonZeroU64::new_unchecked` precondition

`src/any/difficulty/mod.rs`:

```rust
let clock_rate = clock_rate.clamp(0.01, 100.0).to_bits();
// SAFETY: The minimum value is 0.01 so its bits can never be fully zero.
let non_zero = unsafe { NonZeroU64::new_unchecked(clock_rate) };
```

`new_unchecked(0)` is undefined behaviour (an invalid `NonZeroU64` that `Option` cannot tell from
`None`). The statement below is about **every** 64-bit pattern handed to the setter (finite, ±0,
subnormal, ±∞, every NaN payload), on the bit-level float model of `Model/DecodeNum.lean`
(`Fmt.clamp` is `f64::clamp`: `if x < lo { lo } else if x > hi { hi } else { x }`, NaN passes
through). The bounds are the ones the translator finds in the source on this run
(`Gen.difficultyClamps`), so changing them, or replacing the clamp by another guard, breaks an
obligation here.

Found missing by the seeded change `C11-clock-rate-zero-nonzero-unchecked` (guard "ignore NaN and
sign-negative values, then `.min(100.0)`": `+0.0` reaches `new_unchecked`), which the C18 clamp
oracle caught but no C11 statement covered; `sign_positive_guard_admits_zero` is that design's
counter-witness.
-/

namespace Rosu.C11d
open Rosu.DecodeLine Rosu.ClockRate

/-- The clamp bounds in the source are the modelled ones (regenerated on every run). -/
theorem clamp_bounds_as_modelled :
    Rosu.Gen.difficultyClamps.lookup "clock_rate" = some ("0.01", "100.0") := by decide

/-- **SAFETY comment, proved.** For every 64-bit pattern the stored bits are non-zero, so
`NonZeroU64::new_unchecked` is never called with 0. -/
theorem clock_rate_bits_nonzero (x : Nat) : clockRateBits x ≠ 0 := by
  unfold clockRateBits Fmt.clamp
  by_cases h1 : F64.lt x loBits = true
  · simp only [h1, if_true]; decide
  · simp only [h1]
    by_cases h2 : F64.lt hiBits x = true
    · simp only [h2, if_true]; decide
    · simp only [h2]
      intro hx
      subst hx
      exact h1 (by decide)

/-- The stored value is never below 0.01 nor above 100 (a NaN argument stays that NaN: `f64::clamp`
passes it through, and its bits are non-zero by the theorem above). -/
theorem clock_rate_bits_in_range (x : Nat) :
    F64.lt (clockRateBits x) loBits = false ∧ F64.lt hiBits (clockRateBits x) = false := by
  unfold clockRateBits Fmt.clamp
  by_cases h1 : F64.lt x loBits = true
  · simp only [h1, if_true]; constructor <;> decide
  · simp only [h1]
    by_cases h2 : F64.lt hiBits x = true
    · simp only [h2, if_true]; constructor <;> decide
    · simp only [h2]
      exact ⟨by simpa using h1, by simpa using h2⟩

/-- The seeded design: ignore NaN and sign-negative arguments, otherwise store `x.min(100.0)`.
`f64::min(x, 100)` is `x` for `x ≤ 100`. -/
def signGuardBits (x : Nat) : Option Nat :=
  if F64.isNaN x || F64.isNeg x then none
  else some (if F64.lt hiBits x then hiBits else x)

/-- Counter-witness: "sign-positive" is not "positive" — `+0.0` (bits 0) passes that guard and would
reach `new_unchecked(0)`. -/
theorem sign_positive_guard_admits_zero : signGuardBits 0 = some 0 := by decide

/-- Non-vacuity: the clamp really moves out-of-range arguments (0.0 ↦ 0.01, +∞ ↦ 100) and keeps 1.5. -/
example : clockRateBits 0 = loBits ∧ clockRateBits 0x7FF0000000000000 = hiBits ∧
    clockRateBits 0x3FF8000000000000 = 0x3FF8000000000000 := by decide

end Rosu.C11d
