import RosuModel.Model.PipelinePerfObjs
import RosuModel.Props.C04c

/-!
# C04 — map path = attributes path with nothing abstract: osu!standard and osu!catch (decoded objects)

Continuation of `Props/C04c.lean` over `Model/PipelinePerfObjs.lean`.  Tie: `PIPEP osu` lines (C04 run).
-/
namespace Rosu.C04d
open Rosu.PipelinePerf Rosu.SkillOps Rosu.GenState Rosu.FullPerf Rosu.PerfCalc

section osu
variable {R S : Type} [NumOps R] [PPOps R]

/-- **`perf_map_path_eq_attrs_path`** (osu!, every arithmetic, every builder input) -/
theorem osu_perf_map_path_eq_attrs_path (A : Rosu.ConvOsu.Ar R S) (E : Rosu.SliderEvents.Arith R) (fuel : Nat)
    (st : Rosu.PipelineOsu.Settings R) (x : OsuPerfExtra) (take : Option Nat) (prio : Prio) (b : OsuB R)
    (objs : List (Rosu.PipelineOsu.PObj R S)) (a : Rosu.PipelineOsu.Attrs R)
    (h : Rosu.PipelineOsu.osuDifficulty A E fuel st (take.getD (2 ^ 64 - 1)) objs = .ok a) :
    osuPerfFromMap A E fuel st x take prio b objs = .ok (osuPerfFromAttrs a st x take prio b) := by
  unfold osuPerfFromMap
  rw [h]
  rfl

/-- **`perf_embeds_oneshot_difficulty`** (osu!) -/
theorem osu_perf_embeds_oneshot_difficulty (A : Rosu.ConvOsu.Ar R S) (E : Rosu.SliderEvents.Arith R) (fuel : Nat)
    (st : Rosu.PipelineOsu.Settings R) (x : OsuPerfExtra) (take : Option Nat) (prio : Prio) (b : OsuB R)
    (objs : List (Rosu.PipelineOsu.PObj R S)) (p : OsuPerfAttrs R)
    (h : osuPerfFromMap A E fuel st x take prio b objs = .ok (.ok p)) :
    Rosu.PipelineOsu.osuDifficulty A E fuel st (take.getD (2 ^ 64 - 1)) objs = .ok p.difficulty := by
  unfold osuPerfFromMap at h
  cases hd : Rosu.PipelineOsu.osuDifficulty A E fuel st (take.getD (2 ^ 64 - 1)) objs with
  | ok a =>
    rw [hd] at h
    simp only [resMap, SkillOps.Res.ok.injEq] at h
    unfold osuPerfFromAttrs at h
    cases hf : osuFull stdSpecial (osuAttrsOf a) (osuSettingsOf st x take prio) b with
    | panic => rw [hf] at h; cases h
    | ok r =>
      rw [hf] at h
      simp only [GenState.Res.map, GenState.Res.ok.injEq] at h
      subst h
      rfl
  | panic => rw [hd] at h; cases h
  | fuel => rw [hd] at h; cases h

/-- the attributes path never fails and is the formula at the generated state (C12c) -/
theorem osu_perf_from_attrs_total (a : Rosu.PipelineOsu.Attrs R) (st : Rosu.PipelineOsu.Settings R) (x : OsuPerfExtra)
    (take : Option Nat) (prio : Prio) (b : OsuB R) :
    ∃ p, osuPerfFromAttrs a st x take prio b = .ok p ∧ p.difficulty = a := by
  unfold osuPerfFromAttrs
  rw [osu_calculate_eq_formula_of_generated_state]
  exact ⟨_, rfl, rfl⟩

end osu

section catchMode
variable {F S : Type} [FOps F] [FOps S] [NumOps F] [PPOps F]

/-- **`perf_map_path_eq_attrs_path`** (catch) -/
theorem catch_perf_map_path_eq_attrs_path (C : Casts F S) (A : Rosu.SliderEvents.Arith F)
    (CA : Rosu.ConvCatch.CAr S F) (SA : SecArith F) (fuel : Nat) (start0 : F) (st : Rosu.PipelineCatch.Settings F S)
    (mods : Nat) (take : Option Nat) (b : CatchB F) (objs : List (Rosu.PipelineCatch.PObj F S))
    (a : Rosu.PipelineCatch.CatchAttrs F)
    (h : Rosu.PipelineCatch.catchDifficulty C A CA SA fuel start0 st (take.getD (2 ^ 64 - 1)) objs = .ok a) :
    catchPerfFromMap C A CA SA fuel start0 st mods take b objs = .ok (catchPerfFromAttrs a mods b) := by
  unfold catchPerfFromMap
  rw [h]
  rfl

/-- **`perf_embeds_oneshot_difficulty`** (catch) -/
theorem catch_perf_embeds_oneshot_difficulty (C : Casts F S) (A : Rosu.SliderEvents.Arith F)
    (CA : Rosu.ConvCatch.CAr S F) (SA : SecArith F) (fuel : Nat) (start0 : F) (st : Rosu.PipelineCatch.Settings F S)
    (mods : Nat) (take : Option Nat) (b : CatchB F) (objs : List (Rosu.PipelineCatch.PObj F S))
    (p : CatchPerfAttrs F) (h : catchPerfFromMap C A CA SA fuel start0 st mods take b objs = .ok (.ok p)) :
    Rosu.PipelineCatch.catchDifficulty C A CA SA fuel start0 st (take.getD (2 ^ 64 - 1)) objs = .ok p.difficulty := by
  unfold catchPerfFromMap at h
  cases hd : Rosu.PipelineCatch.catchDifficulty C A CA SA fuel start0 st (take.getD (2 ^ 64 - 1)) objs with
  | ok a =>
    rw [hd] at h
    simp only [resMap, SkillOps.Res.ok.injEq] at h
    unfold catchPerfFromAttrs at h
    cases hf : catchFull (catchAttrsOf a) (catchSettingsOf mods) b with
    | panic => rw [hf] at h; cases h
    | ok r =>
      rw [hf] at h
      simp only [GenState.Res.map, GenState.Res.ok.injEq] at h
      subst h
      rfl
  | panic => rw [hd] at h; cases h
  | fuel => rw [hd] at h; cases h

end catchMode

end Rosu.C04d
