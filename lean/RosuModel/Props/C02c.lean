import RosuModel.Lemmas.TaikoPreAll
import RosuModel.Props.C02

/-!
# C02 (osu!taiko preprocessing) — both paths build the same preprocessed structure

Read off the source: the one-shot path (`DifficultyValues::calculate`) and the gradual constructor
(`TaikoGradualDifficulty::new`) both call `create_difficulty_objects(map, take, clock_rate, …)`, which
iterates over **all** hit objects of the converted map (`take` only gates the `inspect` closure that
counts `max_combo` / `n_diff_objects`), then runs the colour and the rhythm preprocessor over the
**full** list.  `passed_objects(n)` therefore truncates nothing: the skills of both paths process a
prefix of difficulty objects whose colour / rhythm data were computed from the whole map.

* `structure_independent_of_take`, `oneshot_and_gradual_build_same_structure`: with the modelled
  construction (`Model/TaikoPre.lean`) the structure does not depend on `take` — the one-shot
  calculation for `passed_objects(n)` and the gradual calculator hand the same structure to the
  skills;
* `taiko_paths_agree_on_preprocessed`: for evaluators that may read *anything* of that structure
  (including data of later objects), the `i`-th gradual value equals the one-shot value for
  `passed_objects(i)` — `C02.taiko_next_eq_prefix` instantiated with such skills, for every object
  list (unconditional since the fix of `TaikoGradualDifficulty::{next,nth}`, which was proposed
  and proved here first and is now the model of `Model/Gradual.lean`);
* `colour_data_not_prefix_stable`: the structure is *not* prefix stable — preprocessing the
  truncated map gives the processed objects different colour data (so "difficulty after `n`
  objects" is not the difficulty of the map cut after `n` objects; an observation, both paths of
  the crate agree with each other).

Tie: `TKPRE` lines (the real structure for several `passed_objects` values is compared bit for bit
with the model's, which ignores `take`), oracle `taiko-pre-depends-on-take` and
`taiko-pre-gradual-differs` (the gradual calculator's own object graph dumped through the hook).
-/

namespace Rosu.C02c
open Rosu.TaikoPre Rosu.Gradual

variable {T S : Type}

/-- `create_difficulty_objects(converted, take, clock_rate, &mut max_combo, &mut n_diff_objects, mods)`:
the structure it returns and the two counters it writes (`Gradual.taikoCreate`). -/
def createDifficultyObjects (A : Arith T) (clock : T) (objs : List (Obj T)) (take : Nat) :
    Option (Pre T) × Nat × Nat :=
  let c := taikoCreate (objs.map fun o => o.kind.isHit) take
  (preprocess A clock objs, c.2.1, c.2.2)

/-- The one-shot path: `DifficultyValues::calculate` with `passed_objects = take`. -/
def oneShotStructure (A : Arith T) (clock : T) (objs : List (Obj T)) (take : Nat) : Option (Pre T) :=
  (createDifficultyObjects A clock objs take).1

/-- The gradual path: `TaikoGradualDifficulty::new` (its `Difficulty` carries the limit `take₀`,
`usize::MAX as u32` when unset). -/
def gradualStructure (A : Arith T) (clock : T) (objs : List (Obj T)) (take₀ : Nat) : Option (Pre T) :=
  (createDifficultyObjects A clock objs take₀).1

/-- The preprocessed structure does not depend on `take`. -/
theorem structure_independent_of_take (A : Arith T) (clock : T) (objs : List (Obj T)) (take take' : Nat) :
    (createDifficultyObjects A clock objs take).1 = (createDifficultyObjects A clock objs take').1 := rfl

/-- One-shot for `passed_objects(n)` and the gradual calculator build the same structure, and it
exists (no checked operation fails, `C05e`). -/
theorem oneshot_and_gradual_build_same_structure (A : Arith T) (clock : T) (objs : List (Obj T))
    (n take₀ : Nat) :
    oneShotStructure A clock objs n = gradualStructure A clock objs take₀ ∧
      (oneShotStructure A clock objs n).isSome = true := by
  refine ⟨rfl, ?_⟩
  obtain ⟨p, hp, _⟩ := preprocess_spec A clock objs
  simp [oneShotStructure, createDifficultyObjects, hp]

/-- The counters are the ones of the counting model, whatever the structure. -/
theorem counters_are_taikoCreate (A : Arith T) (clock : T) (objs : List (Obj T)) (take : Nat) :
    (createDifficultyObjects A clock objs take).2 =
      ((taikoCreate (objs.map fun o => o.kind.isHit) take).2.1,
       (taikoCreate (objs.map fun o => o.kind.isHit) take).2.2) := rfl

/-- Strain skills whose `process(curr, objects)` may read the whole preprocessed structure. -/
def skillsOn (init : S) (step : Pre T → S → Nat → S) (P : Pre T) : Skills S := ⟨init, step P⟩

/-- With evaluators reading anything of the (full-list) structure, the `i`-th gradual value is the
one-shot value for `passed_objects(i)`, exactly `H` values are produced and announced — for every
object list. -/
theorem taiko_paths_agree_on_preprocessed (A : Arith T) (clock : T) (objs : List (Obj T))
    (init : S) (step : Pre T → S → Nat → S) :
    ∃ P, oneShotStructure A clock objs 0 = some P ∧
      let sk := skillsOn init step P
      let hits := objs.map fun o => o.kind.isHit
      let H := hitsIn hits
      ((taikoMachine sk hits).nexts (taikoNew sk hits) H).1 =
        (List.range H).map (fun d => Res.some (taikoOneShot sk hits (d + 1))) ∧
      ((taikoMachine sk hits).next ((taikoMachine sk hits).nexts (taikoNew sk hits) H).2).1 = .none ∧
      (taikoMachine sk hits).len (taikoNew sk hits) = some H := by
  obtain ⟨P, hP, _⟩ := preprocess_spec A clock objs
  refine ⟨P, by simp [oneShotStructure, createDifficultyObjects, hP], ?_⟩
  intro sk hits H
  exact taiko_next_eq_prefix sk hits

/-- The colour data of a processed object depends on objects that come *after* the processed
prefix: for the map `c c c r r` (difficulty objects `c r r`) the second difficulty object belongs to
`(repeating pattern 1, alternating pattern 0, mono streak 0)`, for the map cut after four objects
(`c c c r`, difficulty objects `c r`) to `(0, 0, 1)` — `mono_streak.idx`, which
`ColorEvaluator::eval_mono_streak_diff` reads, is 0 in one and 1 in the other. -/
theorem colour_data_not_prefix_stable :
    let full : List (Obj Int) := [⟨0, .centre⟩, ⟨100, .centre⟩, ⟨200, .centre⟩, ⟨300, .rim⟩, ⟨400, .rim⟩]
    ((preprocess intArith 1 full).bind (·.colour[1]?)) = some (1, 0, 0, 0) ∧
    ((preprocess intArith 1 (full.take 4)).bind (·.colour[1]?)) = some (0, 0, 1, 0) := by
  decide

end Rosu.C02c
