import RosuModel.Lemmas.TaikoPreAll
import RosuModel.Lemmas.TaikoGradFixNth
import RosuModel.Props.C02

/-!
# C02 (osu!taiko preprocessing) — both paths build the same preprocessed structure

Read off the source: the one-shot path (`DifficultyValues::calculate`) and the gradual constructor
(`TaikoGradualDifficulty::new`) both call `create_difficulty_objects(map, take, clock_rate, …)`, which
iterates over **all** hit objects of the converted map (`take` only gates the `inspect` closure that
counts `max_combo` / `n_diff_objects`), then runs the colour and the rhythm preprocessor over the
**full** list.  `passed_objects(n)` therefore truncates nothing: the skills of both paths process a
prefix of difficulty objects whose colour / rhythm data were computed from the whole map.

* `structure_independent_of_take`, `oneshot_and_gradual_build_same_structure`: with the modelled
  construction (`Model/TaikoPre.lean`) the structure does not depend on `take` — the one-shot
  calculation for `passed_objects(n)` and the gradual calculator hand the same structure to the
  skills;
* `taiko_paths_agree_on_preprocessed`: for evaluators that may read *anything* of that structure
  (including data of later objects), the `i`-th gradual value equals the one-shot value for
  `passed_objects(i)` — `C02.taiko_next_eq_prefix_partial` instantiated with such skills (same
  hypothesis: first two objects hits, ≥ 3 objects = recorded finding outside it);
* `colour_data_not_prefix_stable`: the structure is *not* prefix stable — preprocessing the
  truncated map gives the processed objects different colour data (so "difficulty after `n`
  objects" is not the difficulty of the map cut after `n` objects; an observation, both paths of
  the crate agree with each other).

* `taiko_fixed_next_eq_prefix`, `taiko_fixed_len_tracks`: the **proposed repair** of recorded finding
  #4 (`docs/proposed-fix-taiko-gradual-first-two.patch`, modelled in `Model/TaikoGradFix.lean`, not
  part of /repo) satisfies the `next` / value-count / `len` clauses of C02 for **every** object
  list — no "first two objects are hits" and no "at least three objects" hypothesis; `len()` never
  underflows, also after exhaustion.  (The final-value clause still needs "the last object is a
  hit": finding #4b is a disagreement inside the one-shot path and is not touched.)

Tie: `TKPRE` lines (the real structure for several `passed_objects` values is compared bit for bit
with the model's, which ignores `take`), oracle `taiko-pre-depends-on-take` and
`taiko-pre-gradual-differs` (the gradual calculator's own object graph dumped through the hook).
-/

namespace Rosu.C02c
open Rosu.TaikoPre Rosu.Gradual

variable {T S : Type}

/-- `create_difficulty_objects(converted, take, clock_rate, &mut max_combo, &mut n_diff_objects, mods)`:
the structure it returns and the two counters it writes (`Gradual.taikoCreate`). -/
def createDifficultyObjects (A : Arith T) (clock : T) (objs : List (Obj T)) (take : Nat) :
    Option (Pre T) × Nat × Nat :=
  let c := taikoCreate (objs.map fun o => o.kind.isHit) take
  (preprocess A clock objs, c.2.1, c.2.2)

/-- The one-shot path: `DifficultyValues::calculate` with `passed_objects = take`. -/
def oneShotStructure (A : Arith T) (clock : T) (objs : List (Obj T)) (take : Nat) : Option (Pre T) :=
  (createDifficultyObjects A clock objs take).1

/-- The gradual path: `TaikoGradualDifficulty::new` (its `Difficulty` carries the limit `take₀`,
`usize::MAX as u32` when unset). -/
def gradualStructure (A : Arith T) (clock : T) (objs : List (Obj T)) (take₀ : Nat) : Option (Pre T) :=
  (createDifficultyObjects A clock objs take₀).1

/-- The preprocessed structure does not depend on `take`. -/
theorem structure_independent_of_take (A : Arith T) (clock : T) (objs : List (Obj T)) (take take' : Nat) :
    (createDifficultyObjects A clock objs take).1 = (createDifficultyObjects A clock objs take').1 := rfl

/-- One-shot for `passed_objects(n)` and the gradual calculator build the same structure, and it
exists (no checked operation fails, `C05e`). -/
theorem oneshot_and_gradual_build_same_structure (A : Arith T) (clock : T) (objs : List (Obj T))
    (n take₀ : Nat) :
    oneShotStructure A clock objs n = gradualStructure A clock objs take₀ ∧
      (oneShotStructure A clock objs n).isSome = true := by
  refine ⟨rfl, ?_⟩
  obtain ⟨p, hp, _⟩ := preprocess_spec A clock objs
  simp [oneShotStructure, createDifficultyObjects, hp]

/-- The counters are the ones of the counting model, whatever the structure. -/
theorem counters_are_taikoCreate (A : Arith T) (clock : T) (objs : List (Obj T)) (take : Nat) :
    (createDifficultyObjects A clock objs take).2 =
      ((taikoCreate (objs.map fun o => o.kind.isHit) take).2.1,
       (taikoCreate (objs.map fun o => o.kind.isHit) take).2.2) := rfl

/-- Strain skills whose `process(curr, objects)` may read the whole preprocessed structure. -/
def skillsOn (init : S) (step : Pre T → S → Nat → S) (P : Pre T) : Skills S := ⟨init, step P⟩

/-- With evaluators reading anything of the (full-list) structure, the `i`-th gradual value is the
one-shot value for `passed_objects(i)`, exactly `H` values are produced and announced — on maps
whose first two objects are hits and that have at least three objects (outside: recorded finding
`taiko-gradual-first-two-objects`, witnesses in `Props/C02.lean`). -/
theorem taiko_paths_agree_on_preprocessed (A : Arith T) (clock : T) (objs : List (Obj T))
    (init : S) (step : Pre T → S → Nat → S) (rest : List Bool) (hne : rest ≠ [])
    (hk : (objs.map fun o => o.kind.isHit) = true :: true :: rest) :
    ∃ P, oneShotStructure A clock objs 0 = some P ∧
      let sk := skillsOn init step P
      let hits := objs.map fun o => o.kind.isHit
      let H := 2 + hitsIn rest
      ((taikoMachine sk hits).nexts (taikoNew sk hits) H).1 =
        (List.range H).map (fun d => Res.some (taikoOneShot sk hits (d + 1))) ∧
      ((taikoMachine sk hits).next ((taikoMachine sk hits).nexts (taikoNew sk hits) H).2).1 = .none ∧
      (taikoMachine sk hits).len (taikoNew sk hits) = some H := by
  obtain ⟨P, hP, _⟩ := preprocess_spec A clock objs
  refine ⟨P, by simp [oneShotStructure, createDifficultyObjects, hP], ?_⟩
  intro sk hits H
  have : hits = true :: true :: rest := hk
  rw [this]
  exact taiko_next_eq_prefix_partial sk rest hne

/-- non-vacuity of the hypotheses of `taiko_paths_agree_on_preprocessed` -/
example : ∃ (objs : List (Obj Int)) (rest : List Bool), rest ≠ [] ∧
    (objs.map fun o => o.kind.isHit) = true :: true :: rest :=
  ⟨[⟨0, .centre⟩, ⟨100, .rim⟩, ⟨200, .nonhit⟩, ⟨300, .centre⟩], [false, true], by simp, rfl⟩

/-- The colour data of a processed object depends on objects that come *after* the processed
prefix: for the map `c c c r r` (difficulty objects `c r r`) the second difficulty object belongs to
`(repeating pattern 1, alternating pattern 0, mono streak 0)`, for the map cut after four objects
(`c c c r`, difficulty objects `c r`) to `(0, 0, 1)` — `mono_streak.idx`, which
`ColorEvaluator::eval_mono_streak_diff` reads, is 0 in one and 1 in the other. -/
theorem colour_data_not_prefix_stable :
    let full : List (Obj Int) := [⟨0, .centre⟩, ⟨100, .centre⟩, ⟨200, .centre⟩, ⟨300, .rim⟩, ⟨400, .rim⟩]
    ((preprocess intArith 1 full).bind (·.colour[1]?)) = some (1, 0, 0, 0) ∧
    ((preprocess intArith 1 (full.take 4)).bind (·.colour[1]?)) = some (0, 0, 1, 0) := by
  decide

/-! ## The proposed repair of `TaikoGradualDifficulty::next` (finding #4) -/

/-- **Repaired machine, every object list**: the first `H` calls of `next` (`H` = number of hits)
return exactly the one-shot results for `passed_objects = 1, …, H`, the next call returns `None`, and
`len()` announces `H`. -/
theorem taiko_fixed_next_eq_prefix (sk : Skills S) (objs : List Bool) :
    let H := hitsIn objs
    ((taikoMachineFixed sk objs).nexts (taikoNew sk objs) H).1 =
      (List.range H).map (fun d => Res.some (taikoOneShot sk objs (d + 1))) ∧
    ((taikoMachineFixed sk objs).next ((taikoMachineFixed sk objs).nexts (taikoNew sk objs) H).2).1 = .none ∧
    (taikoMachineFixed sk objs).len (taikoNew sk objs) = some H := by
  intro H
  obtain ⟨hv, hc⟩ := taikoFixed_nexts_spec sk objs H (taikoNew sk objs) 0 (fixCanon_new sk objs) (by omega)
  refine ⟨?_, ?_, ?_⟩
  · rw [hv]
    apply List.map_congr_left
    intro d hd
    have hdlt : d < H := by simpa using hd
    simp only [Nat.zero_add]
    rw [taikoOneShot_general sk objs (d + 1) (by omega) (by omega)]
  · simp only [Nat.zero_add] at hc
    have := ((taikoNextFixed_spec sk objs _ H hc).2 rfl).1
    show optToRes (taikoNextFixed sk objs _).1 = _
    rw [this]; rfl
  · simp [taikoMachineFixed, taikoLen, taikoNew, Gradual.csub, hitsIn, H]

/-- **Repaired machine**: `len()` never underflows and always equals the number of values still to
come — after `k ≤ H` values it is `H - k`, and after the exhausted call it is `0`. -/
theorem taiko_fixed_len_tracks (sk : Skills S) (objs : List Bool) (k : Nat) (hk : k ≤ hitsIn objs) :
    (taikoMachineFixed sk objs).len ((taikoMachineFixed sk objs).nexts (taikoNew sk objs) k).2 =
      some (hitsIn objs - k) ∧
    (taikoMachineFixed sk objs).len
      ((taikoMachineFixed sk objs).next
        ((taikoMachineFixed sk objs).nexts (taikoNew sk objs) (hitsIn objs)).2).2 = some 0 := by
  obtain ⟨_, hc⟩ := taikoFixed_nexts_spec sk objs k (taikoNew sk objs) 0 (fixCanon_new sk objs) (by omega)
  obtain ⟨_, hcH⟩ := taikoFixed_nexts_spec sk objs (hitsIn objs) (taikoNew sk objs) 0
    (fixCanon_new sk objs) (by omega)
  simp only [Nat.zero_add] at hc hcH
  refine ⟨?_, ?_⟩
  · show Gradual.csub (objs.filter id).length _ = _
    rw [hc.idx]
    simp [Gradual.csub, hitsIn] at hk ⊢
    exact hk
  · have := ((taikoNextFixed_spec sk objs _ _ hcH).2 rfl).2
    show Gradual.csub (objs.filter id).length (taikoNextFixed sk objs _).2.idx = _
    rw [this]
    simp [Gradual.csub, hitsIn]

/-- **Repaired machine**: `nth(n)` after any `k ≤ H` values never panics; with `r = H - k` values
remaining it returns `None` when `r = 0` and otherwise exactly the value number `k + min(n, r-1) + 1`,
i.e. what `min(n + 1, r)` calls of `next` would return last (for `n ≥ r` that is the recorded
`gradual-nth-clamps-to-last` behaviour, untouched). -/
theorem taiko_fixed_nth_eq_nexts (sk : Skills S) (objs : List Bool) (k n : Nat) (hk : k ≤ hitsIn objs) :
    let g := ((taikoMachineFixed sk objs).nexts (taikoNew sk objs) k).2
    (k = hitsIn objs → ((taikoMachineFixed sk objs).nth g n).1 = .none) ∧
    (k < hitsIn objs →
      ((taikoMachineFixed sk objs).nth g n).1 =
        .some (taikoOneShot sk objs (k + min n (hitsIn objs - k - 1) + 1))) := by
  intro g
  obtain ⟨_, hc⟩ := taikoFixed_nexts_spec sk objs k (taikoNew sk objs) 0 (fixCanon_new sk objs) (by omega)
  simp only [Nat.zero_add] at hc
  have hs := taikoNthFixed_spec sk objs g k n hc
  refine ⟨fun h => (hs.1 h).1, fun h => ?_⟩
  rw [taikoOneShot_general sk objs _ (by omega) (by omega)]
  exact (hs.2 h).1

/-- The inputs on which the unrepaired machine fails (`C02.taiko_first_nonhit_fails`,
`taiko_short_map_fails`) evaluated on the repaired one. -/
example :
    ((taikoMachineFixed unitSkills' [true, false, true, true]).nexts
        (taikoNew unitSkills' [true, false, true, true]) 3).1 =
      [1, 2, 3].map (fun i => Res.some (taikoOneShot unitSkills' [true, false, true, true] i)) ∧
    ((taikoMachineFixed unitSkills' [true, true]).nexts (taikoNew unitSkills' [true, true]) 3).1 =
      [Res.some (taikoOneShot unitSkills' [true, true] 1), Res.some (taikoOneShot unitSkills' [true, true] 2),
       Res.none] := by
  decide

end Rosu.C02c
