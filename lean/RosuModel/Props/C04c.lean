import RosuModel.Model.PipelinePerf
import RosuModel.Props.C02d
import RosuModel.Props.C12c

/-!
# C04 — performance from the MAP equals performance from the ATTRIBUTES, with nothing abstract (mania, file bytes)

`Model/PipelinePerf.lean: maniaPerfFromMap` is `ManiaPerformance::new(&map)…calculate()` on the map path: the
difficulty pipeline `PipelineMania.maniaDifficulty` (file bytes → attributes, with the builder's own
`passed_objects`, C02d) followed by `FullPerf.maniaFull` (`generate_state` ∘ pp formula, C12c / C09b).  Tied by `PIPEP
mania` lines (this property's run): file bytes + settings + builder inputs → pp, pp_difficulty and the embedded
difficulty attributes of the real calculation, bit-exact.  The statements quantify over EVERY byte list, setting and
builder input (consistent or not, `u32::MAX` included).  The other modes: `Props/C04d.lean`.
-/
namespace Rosu.C04c
open Rosu.PipelinePerf Rosu.PipelineMania Rosu.SkillOps Rosu.GenState Rosu.FullPerf Rosu.PerfCalc

variable {R S : Type} [FOps R] [FOps S] [NumOps R] [PPOps R] (P : PrepOps R S)

/-- **`perf_map_path_eq_attrs_path`** (mania, every arithmetic): whenever the one-shot difficulty calculation of the
file with the builder's settings returns `a`, the performance calculation started from the map returns exactly what
the calculation started from `a` (same settings, same builder inputs) returns — including a `generate_state`
failure. -/
theorem mania_perf_map_path_eq_attrs_path (A : SecArith R) (fuel : Nat) (bytes : List UInt8) (mods : Nat)
    (rate take : Option Nat) (lazer : Bool) (prio : Prio) (b : ManiaB R) (a : Attrs R)
    (h : maniaDifficulty P A fuel bytes mods rate take = .ok a) :
    maniaPerfFromMap P A fuel bytes mods rate take lazer prio b = .ok (maniaPerfFromAttrs a mods take lazer prio b) := by
  unfold maniaPerfFromMap
  rw [h]
  rfl

/-- … and when the difficulty calculation does not answer (io error, not a mania file, slider line, fuel), neither
does the performance calculation, with the same outcome: nothing is computed before the difficulty -/
theorem mania_perf_map_path_fails_with_difficulty (A : SecArith R) (fuel : Nat) (bytes : List UInt8) (mods : Nat)
    (rate take : Option Nat) (lazer : Bool) (prio : Prio) (b : ManiaB R) :
    (∀ a, maniaDifficulty P A fuel bytes mods rate take ≠ .ok a) →
    ∀ r, maniaPerfFromMap P A fuel bytes mods rate take lazer prio b ≠ .ok r := by
  intro hne r hr
  unfold maniaPerfFromMap at hr
  cases hd : maniaDifficulty P A fuel bytes mods rate take with
  | ok a => exact hne a hd
  | ioError => rw [hd] at hr; cases hr
  | notMania m => rw [hd] at hr; cases hr
  | unsupported => rw [hd] at hr; cases hr
  | panic => rw [hd] at hr; cases hr
  | fuel => rw [hd] at hr; cases hr

/-- **`perf_embeds_oneshot_difficulty`**: the difficulty attributes embedded in the performance attributes ARE the
one-shot difficulty calculation of the same bytes with the same settings -/
theorem mania_perf_embeds_oneshot_difficulty (A : SecArith R) (fuel : Nat) (bytes : List UInt8) (mods : Nat)
    (rate take : Option Nat) (lazer : Bool) (prio : Prio) (b : ManiaB R) (p : ManiaPerfAttrs R)
    (h : maniaPerfFromMap P A fuel bytes mods rate take lazer prio b = .ok (.ok p)) :
    maniaDifficulty P A fuel bytes mods rate take = .ok p.difficulty := by
  unfold maniaPerfFromMap at h
  cases hd : maniaDifficulty P A fuel bytes mods rate take with
  | ok a =>
    rw [hd] at h
    simp only [outMap, Out.ok.injEq] at h
    unfold maniaPerfFromAttrs at h
    cases hf : maniaFull (maniaAttrsOf a) (maniaSettingsOf mods take lazer prio) b with
    | panic => rw [hf] at h; cases h
    | ok r =>
      rw [hf] at h
      simp only [GenState.Res.map, GenState.Res.ok.injEq] at h
      subst h
      rfl
  | ioError => rw [hd] at h; cases h
  | notMania m => rw [hd] at h; cases h
  | unsupported => rw [hd] at h; cases h
  | panic => rw [hd] at h; cases h
  | fuel => rw [hd] at h; cases h

/-- the attributes path is `calculate = formula at the generated state` (C12c) and never fails for mania: from the
file bytes the performance calculation answers exactly when the difficulty calculation does -/
theorem mania_perf_from_attrs_total (a : Attrs R) (mods : Nat) (take : Option Nat) (lazer : Bool) (prio : Prio)
    (b : ManiaB R) :
    ∃ p, maniaPerfFromAttrs a mods take lazer prio b = .ok p ∧ p.difficulty = a ∧
      (p.pp, p.ppDifficulty) = PerfCalc.maniaCalculate a.stars (maniaSettingsOf mods take lazer prio).mods
        (maniaStateOf (maniaGenRaw (maniaCfgOf (maniaAttrsOf a) (maniaSettingsOf mods take lazer prio)) b).state) := by
  unfold maniaPerfFromAttrs
  rw [mania_calculate_eq_formula_of_generated_state]
  exact ⟨_, rfl, rfl, rfl⟩

/-! ## taiko (file bytes) -/

section taiko
variable {R : Type} [FOps R] [NumOps R] [PPOps R] (O : Rosu.PipelineTaiko.TOps R)

/-- **`perf_map_path_eq_attrs_path`** (taiko, every arithmetic) -/
theorem taiko_perf_map_path_eq_attrs_path (A : SecArith R) (fuel : Nat) (bytes : List UInt8) (mods : Nat)
    (rate take : Option Nat) (hw : R) (prio : Prio) (b : TaikoB R) (a : TaikoAttrs R)
    (h : taikoDifficultyAttrs O A fuel bytes mods rate take hw = .ok a) :
    taikoPerfFromMap O A fuel bytes mods rate take hw prio b = .ok (taikoPerfFromAttrs a mods take prio b) := by
  unfold taikoPerfFromMap
  rw [h]
  rfl

/-- **`perf_embeds_oneshot_difficulty`** (taiko) -/
theorem taiko_perf_embeds_oneshot_difficulty (A : SecArith R) (fuel : Nat) (bytes : List UInt8) (mods : Nat)
    (rate take : Option Nat) (hw : R) (prio : Prio) (b : TaikoB R) (p : TaikoPerfAttrs R)
    (h : taikoPerfFromMap O A fuel bytes mods rate take hw prio b = .ok (.ok p)) :
    taikoDifficultyAttrs O A fuel bytes mods rate take hw = .ok p.difficulty := by
  unfold taikoPerfFromMap at h
  cases hd : taikoDifficultyAttrs O A fuel bytes mods rate take hw with
  | ok a =>
    rw [hd] at h
    simp only [taikoOutMap, Rosu.PipelineTaiko.Out.ok.injEq] at h
    unfold taikoPerfFromAttrs at h
    cases hf : taikoFull stdSpecial a (taikoSettingsOf mods take prio) b with
    | panic => rw [hf] at h; cases h
    | ok r =>
      rw [hf] at h
      simp only [GenState.Res.map, GenState.Res.ok.injEq] at h
      subst h
      rfl
  | ioError => rw [hd] at h; cases h
  | notTaiko m => rw [hd] at h; cases h
  | panic => rw [hd] at h; cases h
  | fuel => rw [hd] at h; cases h

/-- the attributes path never fails for taiko and is the formula at the generated state (C12c) -/
theorem taiko_perf_from_attrs_total (a : TaikoAttrs R) (mods : Nat) (take : Option Nat) (prio : Prio) (b : TaikoB R) :
    ∃ p, taikoPerfFromAttrs a mods take prio b = .ok p ∧ p.difficulty = a ∧
      p.out = PerfCalc.taikoCalculate stdSpecial a (taikoSettingsOf mods take prio).mods
        (taikoStateOf (taikoGenRaw (taikoCfgOf a (taikoSettingsOf mods take prio)) b).state) := by
  unfold taikoPerfFromAttrs
  rw [taiko_calculate_eq_formula_of_generated_state]
  exact ⟨_, rfl, rfl, rfl⟩

end taiko

end Rosu.C04c
