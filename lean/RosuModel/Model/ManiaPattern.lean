import RosuModel.Model.Rng
import RosuModel.Model.SafetyColumns
import RosuModel.Model.ConvertWF

/-!
# osu! → mania pattern generators (C19 / C05).  Core Lean only.

Sources (statement by statement):

* `/repo/src/mania/convert/pattern_generator/mod.rs`        — `PatternGenerator`: `random_start`,
  `get_column`, `get_random_note_count`, `get_random_column`
* `/repo/src/mania/convert/pattern_generator/hit_object.rs`  — `HitObjectPatternGenerator`
* `/repo/src/mania/convert/pattern_generator/path_object.rs` — `PathObjectPatternGenerator`
* `/repo/src/mania/convert/pattern_generator/end_time_object.rs` — `EndTimeObjectPatternGenerator`
* `/repo/src/mania/convert/pattern.rs`                       — `Pattern`, `ContainedColumns`
* `/repo/src/mania/convert/mod.rs`                           — the per-object loop of `convert`
  (which generator, `last_values.pattern` / `last_values.stair` threading)

Every operation that panics in a build with overflow checks is **checked** and makes the run fail
(`Except Fail`): `1u16 << column` (`Fail.shift`), `u8`/`i8`/`i32` additions and subtractions
(`Fail.arith`), `&self.node_sounds[idx..]` (`Fail.index`), `assert!(has_valid_column)`
(`Fail.assert`).  `as` casts never panic: `as u8` wraps (`% 256`), `as usize` of a negative `i32`
wraps to a huge index.  The PRNG-driven retry loops take fuel (`Fail.fuel`).

Floats: probabilities, `next_double()`, `conversion_difficulty` only gate branches.  The model is
generic in the arithmetic (`PArith F`, treatment F-generic of DESIGN.md section 3): the driver runs
the `Float` instance (the IEEE operations of the code, in the code's order), the theorems are proved
for every instance (column bounds) or for every *lawful* instance (`Lemmas/ManiaPattern*.lean`;
the exact rational instance is lawful).  Literals `0.78` etc. are `pct 78` (= `78 / 100`, correctly
rounded, hence the literal's double).

What is an input rather than modelled: the object's x position (integral), hit-sound bits, the
`PatternType` bits the generator's `new` computed (time/position separation, density, kiai), for a
slider `span_count`, `start_time`, `end_time`, `segment_duration` (the `i32` values `new` computed)
and the node sounds, for a spinner the two f64 comparisons `end - start >= 100.0` / `< 1000.0`,
and `conversion_difficulty()` as a number.
-/
namespace Rosu.ManiaPattern
open Rosu.Safety Rosu.Rng Rosu.ConvertWF

/-! ## failures, checked arithmetic -/

inductive Fail where
  /-- `1u16 << column` with `column ≥ 16` -/
  | shift
  /-- integer overflow / underflow of a checked `+`/`-` -/
  | arith
  /-- slice index out of range -/
  | index
  /-- `assert!(has_valid_column)` -/
  | assert
  /-- a PRNG-driven retry loop did not finish within the fuel -/
  | fuel
  deriving Repr, DecidableEq

abbrev M (α : Type) := Except Fail α

/-- `a + b` on `u8` -/
def u8add (a b : Nat) : M Nat := if a + b > 255 then .error .arith else .ok (a + b)
/-- `a - b` on `u8` -/
def u8sub (a b : Nat) : M Nat := if a < b then .error .arith else .ok (a - b)
/-- `x as u8` for an `i32`/`i8` value -/
def asU8 (x : Int) : Nat := (x % 256).toNat
/-- `x as i8` for a `u8`/`i32` value -/
def asI8 (x : Int) : Int := (x + 128) % 256 - 128
/-- `a - b` on `i8` -/
def i8sub (a b : Int) : M Int := if a - b < -128 ∨ a - b > 127 then .error .arith else .ok (a - b)
/-- `a + b` on `i32` -/
def i32add (a b : Int) : M Int :=
  if a + b < -2147483648 ∨ a + b > 2147483647 then .error .arith else .ok (a + b)
/-- `a - b` on `i32` -/
def i32sub (a b : Int) : M Int :=
  if a - b < -2147483648 ∨ a - b > 2147483647 then .error .arith else .ok (a - b)
/-- `a * b` on `i32` -/
def i32mul (a b : Int) : M Int :=
  if a * b < -2147483648 ∨ a * b > 2147483647 then .error .arith else .ok (a * b)

/-! ## arithmetic of the probabilities -/

structure PArith (F : Type) where
  /-- the literal `k / 100` (`0.78` = `pct 78`, `6.5` = `pct 650`) -/
  pct : Nat → F
  /-- `next_double()` for the `next_int()` draw `n`: `INT_TO_REAL * n` -/
  draw : Nat → F
  add : F → F → F
  sub : F → F → F
  mul : F → F → F
  div : F → F → F
  lt : F → F → Bool
  le : F → F → Bool
  /-- `next_int_range(lo, hi)` for the draw `n`: `(lo + next_double() * (hi - lo)) as i32` -/
  range : Int → Int → Nat → Int
  /-- `f64::from(i)` for an `i32` -/
  ofInt : Int → F
  /-- `x.floor() as i32` (saturating cast) -/
  floorI32 : F → Int

namespace PArith
variable {F : Type} (A : PArith F)
def gt (a b : F) : Bool := A.lt b a
def ge (a b : F) : Bool := A.le b a
/-- `f64::min` (no NaN occurs: all operands are finite literals or sums of them) -/
def min (a b : F) : F := if A.lt b a then b else a
def max (a b : F) : F := if A.lt a b then b else a
/-- `f64::clamp(0.0, 1.0)` -/
def clamp01 (a : F) : F := if A.lt a (A.pct 0) then A.pct 0 else if A.lt (A.pct 100) a then A.pct 100 else a
end PArith

/-- the IEEE instance the driver runs -/
def floatArith : PArith Float where
  pct k := Float.ofNat k / 100.0
  draw n := (1.0 / (2147483647.0 + 1.0)) * Float.ofNat n
  add := (· + ·)
  sub := (· - ·)
  mul := (· * ·)
  div := (· / ·)
  lt a b := a < b
  le a b := a ≤ b
  range lo hi n :=
    (Float.ofInt lo + ((1.0 / (2147483647.0 + 1.0)) * Float.ofNat n) * Float.ofInt (hi - lo)).toInt32.toInt
  ofInt := Float.ofInt
  floorI32 x := x.floor.toInt32.toInt

/-! ## flags -/

def FORCE_STACK : Nat := 0
def FORCE_NOT_STACK : Nat := 1
def KEEP_SINGLE : Nat := 2
def LOW_PROBABILITY : Nat := 3
def GATHERED : Nat := 7
def MIRROR : Nat := 8
def REVERSE : Nat := 9
def CYCLE : Nat := 10
def STAIR : Nat := 11
def REVERSE_STAIR : Nat := 12

/-- `convert_type.contains(FLAG)` for a single-bit flag (bit index) -/
abbrev has (ct bit : Nat) : Bool := ct.testBit bit

/-- `HitSoundType::has_flag(mask)`: any of the bits -/
def sampleHas (sample mask : Nat) : Bool := sample &&& mask != 0
def S_WHISTLE : Nat := 2
def S_FINISH : Nat := 4
def S_CLAP : Nat := 8

/-! ## patterns -/

inductive NoteTime where
  /-- a circle at the source object's start time (hit-object / end-time generators) -/
  | atObject
  /-- a hold note from the source object's start time to the generator's `end_time` (spinner) -/
  | holdObject
  /-- `new_slider_note(column, start, end)`: circle if `start = end`, else hold of `end - start` -/
  | span (s e : Int)
  deriving Repr, DecidableEq

structure Note where
  col : Nat
  time : NoteTime
  deriving Repr, DecidableEq

/-- `Pattern`: `hit_objects` (in push order) and `contained_columns` -/
structure Pat where
  notes : List Note
  cols : Cols
  deriving Repr, DecidableEq

def Pat.empty : Pat := ⟨[], 0⟩

/-- `add_note` / `add_slider_note` / `add_object`: `contained_columns.insert(column)` (checked shift),
push -/
def Pat.add (p : Pat) (col : Nat) (t : NoteTime) : M Pat :=
  match Cols.insert p.cols col with
  | none => .error .shift
  | some c => .ok ⟨p.notes ++ [⟨col, t⟩], c⟩

/-- `Pattern::new_note` etc. (`new_single`) -/
def Pat.single (col : Nat) (t : NoteTime) : M Pat := Pat.empty.add col t

/-- `column_has_obj(column)` -/
def Pat.has (p : Pat) (col : Nat) : M Bool :=
  match Cols.contains p.cols col with
  | none => .error .shift
  | some b => .ok b

/-- `column_with_objs()` -/
def Pat.count (p : Pat) : Nat := Cols.len p.cols

/-- `Pattern::append` -/
def Pat.append (p q : Pat) : Pat := ⟨p.notes ++ q.notes, p.cols ||| q.cols⟩

/-- the column the code reads back from a generated object: `ManiaObject::column(obj.pos.x, total)`
with `pos.x = column_to_pos(column, total)` -/
def posColumn (total c : Nat) : Nat := column (columnToPos c total : Nat) total

/-! ## `PatternGenerator` -/

/-- `random_start()` -/
def randomStart (total : Nat) : Nat := if total = 8 then 1 else 0

/-- `get_column(Some(true))`: in 7K+1 `((x / (512/7)).floor() as u8).clamp(0, 6) + 1`, else
`ManiaObject::column(x, total) as u8` -/
def getColumnSpecial (total : Nat) (x : Int) : Nat :=
  if total = 8 then min (x.toNat * 7 / 512 % 256) 6 + 1 else column x total % 256

/-- `random.next_double()` -/
def nextDouble {F : Type} (A : PArith F) (s : Osu) : F × Osu :=
  let (n, s') := s.nextInt
  (A.draw n, s')

/-- `get_random_column(Some(lower), Some(upper))`: `random.next_int_range(lower, upper) as u8` -/
def getRandomColumn {F : Type} (A : PArith F) (s : Osu) (lower upper : Int) : Nat × Osu :=
  let (n, s') := s.nextInt
  (asU8 (A.range lower upper n), s')

/-- `PatternGenerator::get_random_note_count(p2, p3, p4, p5, p6)` -/
def noteCount {F : Type} (A : PArith F) (s : Osu) (p2 p3 p4 p5 p6 : F) : Int × Osu :=
  let (v, s') := nextDouble A s
  let one := A.pct 100
  if A.ge v (A.sub one p6) then (6, s')
  else if A.ge v (A.sub one p5) then (5, s')
  else if A.ge v (A.sub one p4) then (4, s')
  else if A.ge v (A.sub one p3) then (3, s')
  else (1 + (if A.ge v (A.sub one p2) then 1 else 0), s')

/-! ## `find_available_column` (all three generators) -/

/-- `is_valid(column)`: the optional `validation` closure (`c != avoid`) first, then
`patterns.iter().all(|p| !p.column_has_obj(column as u8))` -/
def isValidA (avoid : Option Nat) (patterns : List Cols) (c : Nat) : M Bool :=
  if avoid = some c then .ok false
  else match isValid patterns c with
    | none => .error .shift
    | some b => .ok b

/-- `(lower..upper).any(is_valid)` -/
def hasValidA (avoid : Option Nat) (patterns : List Cols) (lower : Nat) : (n : Nat) → M Bool
  | 0 => .ok false
  | n + 1 =>
    match isValidA avoid patterns lower with
    | .error e => .error e
    | .ok true => .ok true
    | .ok false => hasValidA avoid patterns (lower + 1) n

/-- `while { initial_column = next(..); !is_valid(initial_column) } {}` -/
def facLoopA (avoid : Option Nat) (patterns : List Cols)
    (next : Osu → Nat → M (Nat × Osu)) : (fuel : Nat) → Osu → Nat → M (Nat × Osu)
  | 0, _, _ => .error .fuel
  | fuel + 1, s, col =>
    match next s col with
    | .error e => .error e
    | .ok (col', s') =>
      match isValidA avoid patterns col' with
      | .error e => .error e
      | .ok true => .ok (col', s')
      | .ok false => facLoopA avoid patterns next fuel s' col'

/-- `find_available_column(initial, …)`: initial check, `assert!((lower..upper).any(is_valid))`,
loop.  `lower`/`upper` are the `i32` range bounds. -/
def findAvail (avoid : Option Nat) (patterns : List Cols) (lower upper : Nat)
    (next : Osu → Nat → M (Nat × Osu)) (fuel : Nat) (s : Osu) (initial : Nat) : M (Nat × Osu) :=
  match isValidA avoid patterns initial with
  | .error e => .error e
  | .ok true => .ok (initial, s)
  | .ok false =>
    match hasValidA avoid patterns lower (upper - lower) with
    | .error e => .error e
    | .ok false => .error .assert
    | .ok true => facLoopA avoid patterns next fuel s initial

/-- the random column source of the loops: `get_random_column(Some(lower), Some(upper))` -/
def randomNext {F : Type} (A : PArith F) (lower upper : Nat) : Osu → Nat → M (Nat × Osu) :=
  fun s _ => .ok (getRandomColumn A s lower upper)

/-! ## `HitObjectPatternGenerator` -/

structure HitIn (F : Type) where
  /-- `total_columns` -/
  total : Nat
  /-- `hit_object.pos.x` -/
  x : Int
  /-- hit-sound bits of the object -/
  sample : Nat
  /-- `convert_type` as computed by `new` -/
  ct : Nat
  /-- `prev_pattern` -/
  prev : Pat
  /-- `conversion_difficulty()` -/
  cd : F
  /-- fuel of every PRNG-driven retry loop -/
  fuel : Nat

variable {F : Type}

/-- `get_next_column(last)` -/
def hitNextColumn (A : PArith F) (g : HitIn F) : Osu → Nat → M (Nat × Osu) :=
  fun s last =>
    if has g.ct GATHERED then do
      let l ← u8add last 1
      if l = g.total % 256 then .ok (randomStart g.total, s) else .ok (l, s)
    else .ok (getRandomColumn A s (randomStart g.total) g.total)

/-- `for _ in 0..note_count { next = find_available_column(next, None, Some(get_next_column), …);
pattern.add_note(next) }` of `generate_random_notes` -/
def hitRandomNotesLoop (A : PArith F) (g : HitIn F) (allowStacking : Bool) :
    Nat → Pat → Nat → Osu → M (Pat × Osu)
  | 0, pat, _, s => .ok (pat, s)
  | k + 1, pat, nextColumn, s => do
    let pats := if allowStacking then [pat.cols] else [pat.cols, g.prev.cols]
    let (c, s') ← findAvail none pats (randomStart g.total) g.total (hitNextColumn A g) g.fuel s nextColumn
    let pat' ← pat.add c .atObject
    hitRandomNotesLoop A g allowStacking k pat' c s'

/-- `generate_random_notes(note_count)` -/
def hitRandomNotes (A : PArith F) (g : HitIn F) (noteCount : Int) (s : Osu) : M (Pat × Osu) :=
  let allowStacking := !has g.ct FORCE_NOT_STACK
  let noteCount :=
    if allowStacking then noteCount
    else min ((g.total : Int) - randomStart g.total - g.prev.count) noteCount
  hitRandomNotesLoop A g allowStacking noteCount.toNat Pat.empty (getColumnSpecial g.total g.x) s

/-- `has_special_column()` -/
def hasSpecial (sample : Nat) : Bool := sampleHas sample S_CLAP && sampleHas sample S_FINISH

/-- the per-key-count caps of `HitObjectPatternGenerator::get_random_note_count` -/
def hitProbs (A : PArith F) (total : Nat) (p2 p3 p4 p5 : F) : F × F × F × F :=
  if total = 2 then (A.pct 0, A.pct 0, A.pct 0, A.pct 0)
  else if total = 3 then (A.min p2 (A.pct 10), A.pct 0, A.pct 0, A.pct 0)
  else if total = 4 then (A.min p2 (A.pct 23), A.min p3 (A.pct 4), A.pct 0, A.pct 0)
  else if total = 5 then (p2, A.min p3 (A.pct 15), A.min p4 (A.pct 3), A.pct 0)
  else (p2, p3, p4, p5)

/-- `HitObjectPatternGenerator::get_random_note_count(p2, p3, p4, p5)` -/
def hitNoteCount (A : PArith F) (g : HitIn F) (p2 p3 p4 p5 : F) (s : Osu) : Int × Osu :=
  noteCount A s
    (if sampleHas g.sample S_CLAP then A.pct 100 else (hitProbs A g.total p2 p3 p4 p5).1)
    (hitProbs A g.total p2 p3 p4 p5).2.1 (hitProbs A g.total p2 p3 p4 p5).2.2.1
    (hitProbs A g.total p2 p3 p4 p5).2.2.2 (A.pct 0)

/-- `generate_random_pattern(p2, p3, p4, p5)` -/
def hitRandomPattern (A : PArith F) (g : HitIn F) (p2 p3 p4 p5 : F) (s : Osu) : M (Pat × Osu) := do
  let (n, s1) := hitNoteCount A g p2 p3 p4 p5 s
  let (pat, s2) ← hitRandomNotes A g n s1
  if randomStart g.total > 0 && hasSpecial g.sample then
    let pat' ← pat.add 0 .atObject
    .ok (pat', s2)
  else .ok (pat, s2)

/-- the per-key-count adjustments of `get_random_note_count_mirrored`: (centre, p2, p3) before the
clamp -/
def mirrorProbs (A : PArith F) (total : Nat) (centre p2 p3 : F) : F × F × F :=
  if total = 2 then (A.pct 0, A.pct 0, A.pct 0)
  else if total = 3 then (A.min centre (A.pct 3), A.pct 0, A.pct 0)
  else if total = 4 then
    (A.pct 0, A.sub (A.pct 100) (A.max (A.mul (A.sub (A.pct 100) p2) (A.pct 200)) (A.pct 80)), A.pct 0)
  else if total = 5 then (A.min centre (A.pct 3), p2, A.pct 0)
  else if total = 6 then
    (A.pct 0, A.sub (A.pct 100) (A.max (A.mul (A.sub (A.pct 100) p2) (A.pct 200)) (A.pct 5)),
      A.sub (A.pct 100) (A.max (A.mul (A.sub (A.pct 100) p3) (A.pct 200)) (A.pct 85)))
  else (centre, p2, p3)

/-- `get_random_note_count_mirrored(centre_probability, p2, p3)` -/
def hitNoteCountMirrored (A : PArith F) (g : HitIn F) (centre p2 p3 : F) (s : Osu) :
    (Int × Bool) × Osu :=
  let q := mirrorProbs A g.total centre p2 p3
  let (centreVal, s1) := nextDouble A s
  let (n, s2) := noteCount A s1 (A.clamp01 q.2.1) (A.clamp01 q.2.2) (A.pct 0) (A.pct 0) (A.pct 0)
  let addToCentre := g.total % 2 != 0 && n != 3 && A.gt centreVal (A.sub (A.pct 100) q.1)
  ((n, addToCentre), s2)

/-- the loop of `generate_random_pattern_with_mirrored` -/
def hitMirroredLoop (A : PArith F) (g : HitIn F) (limit : Nat) :
    Nat → Pat → Nat → Osu → M (Pat × Osu)
  | 0, pat, _, s => .ok (pat, s)
  | k + 1, pat, nextColumn, s => do
    let rs := randomStart g.total
    let (c, s') ← findAvail none [pat.cols] rs limit (randomNext A rs limit) g.fuel s nextColumn
    let pat1 ← pat.add c .atObject
    -- `(random_start + total_columns) as u8 - next_column - 1`
    let m ← u8sub ((rs + g.total) % 256) c
    let m ← u8sub m 1
    let pat2 ← pat1.add m .atObject
    hitMirroredLoop A g limit k pat2 c s'

/-- `generate_random_pattern_with_mirrored(centre_probability, p2, p3)` -/
def hitMirrored (A : PArith F) (g : HitIn F) (centre p2 p3 : F) (s : Osu) : M (Pat × Osu) :=
  if has g.ct FORCE_NOT_STACK then
    let half := A.pct 200
    hitRandomPattern A g (A.add (A.div (A.pct 100) half) (A.div p2 half)) p2
      (A.div (A.add p2 p3) half) p3 s
  else do
    let ((n, addToCentre), s1) := hitNoteCountMirrored A g centre p2 p3 s
    let limit := if g.total % 2 = 0 then g.total / 2 else (g.total - 1) / 2
    let (c0, s2) := getRandomColumn A s1 (randomStart g.total) limit
    let (pat, s3) ← hitMirroredLoop A g limit n.toNat Pat.empty c0 s2
    let pat ← if addToCentre then pat.add (g.total % 256 / 2) .atObject else .ok pat
    let pat ← if randomStart g.total > 0 && hasSpecial g.sample then pat.add 0 .atObject else .ok pat
    .ok (pat, s3)

/-- `for i in random_start..total as u8 { if prev.column_has_obj(i) { pattern.add_note(f(i)) } }` -/
def hitCopyLoop (g : HitIn F) (f : Nat → M Nat) : Nat → Nat → Pat → M Pat
  | 0, _, pat => .ok pat
  | k + 1, i, pat => do
    if (← g.prev.has i) then
      let c ← f i
      let pat' ← pat.add c .atObject
      hitCopyLoop g f k (i + 1) pat'
    else hitCopyLoop g f k (i + 1) pat

/-- `prev_pattern.hit_objects.last().map_or(0, |h| ManiaObject::column(h.pos.x, total) as u8)` -/
def hitLastColumn (g : HitIn F) : Nat :=
  match g.prev.notes.getLast? with
  | none => 0
  | some n => posColumn g.total n.col % 256

/-- the tail of `generate_core()`: `KEEP_SINGLE`, then the dispatch on `MIRROR`, the conversion
difficulty and `LOW_PROBABILITY` -/
def hitCoreRandom (A : PArith F) (g : HitIn F) (s : Osu) : M (Pat × Osu) :=
  if has g.ct KEEP_SINGLE then hitRandomNotes A g 1 s
  else if has g.ct MIRROR then
    if A.gt g.cd (A.pct 650) then hitMirrored A g (A.pct 12) (A.pct 38) (A.pct 12) s
    else if A.gt g.cd (A.pct 400) then hitMirrored A g (A.pct 12) (A.pct 17) (A.pct 0) s
    else hitMirrored A g (A.pct 12) (A.pct 0) (A.pct 0) s
  else if A.gt g.cd (A.pct 650) then
    if has g.ct LOW_PROBABILITY then hitRandomPattern A g (A.pct 78) (A.pct 42) (A.pct 0) (A.pct 0) s
    else hitRandomPattern A g (A.pct 100) (A.pct 62) (A.pct 0) (A.pct 0) s
  else if A.gt g.cd (A.pct 400) then
    if has g.ct LOW_PROBABILITY then hitRandomPattern A g (A.pct 35) (A.pct 8) (A.pct 0) (A.pct 0) s
    else hitRandomPattern A g (A.pct 52) (A.pct 15) (A.pct 0) (A.pct 0) s
  else if A.gt g.cd (A.pct 200) then
    if has g.ct LOW_PROBABILITY then hitRandomPattern A g (A.pct 18) (A.pct 0) (A.pct 0) (A.pct 0) s
    else hitRandomPattern A g (A.pct 45) (A.pct 0) (A.pct 0) (A.pct 0) s
  else hitRandomPattern A g (A.pct 0) (A.pct 0) (A.pct 0) (A.pct 0) s

/-- `generate_core()` after the `total_columns == 1` case; `last` is `last_column`, `t8` is
`total_columns as u8`, `rs` is `random_start as u8` -/
def hitCoreSpecial (A : PArith F) (g : HitIn F) (last t8 rs : Nat) (s : Osu) : M (Pat × Osu) :=
  if has g.ct REVERSE && !g.prev.notes.isEmpty then do
    -- `random_start + total as u8 - i - 1`
    let p ← hitCopyLoop g (fun i => do
      let a ← u8add rs t8
      let b ← u8sub a i
      u8sub b 1) (t8 - rs) rs Pat.empty
    .ok (p, s)
  else if has g.ct CYCLE && g.prev.notes.length = 1
      && (g.total != 8 || last != 0)
      && (g.total % 2 = 0 || last != t8 / 2) then do
    let a ← u8add rs t8
    let b ← u8sub a last
    let c ← u8sub b 1
    let p ← Pat.single c .atObject
    .ok (p, s)
  else if has g.ct FORCE_STACK && !g.prev.notes.isEmpty then do
    let p ← hitCopyLoop g (fun i => .ok i) (t8 - rs) rs Pat.empty
    .ok (p, s)
  else if g.prev.notes.length = 1 && has g.ct STAIR then do
    let t ← u8add last 1
    let p ← Pat.single (if t = t8 then rs else t) .atObject
    .ok (p, s)
  else if g.prev.notes.length = 1 && has g.ct REVERSE_STAIR then do
    -- `last_column as i8 - 1`, `random_start as i8 - 1`, `total_columns as i8 - 1`
    let t ← i8sub (asI8 last) 1
    let r ← i8sub (asI8 rs) 1
    let t ← (if t = r then i8sub (asI8 g.total) 1 else .ok t : M Int)
    let p ← Pat.single (asU8 t) .atObject
    .ok (p, s)
  else hitCoreRandom A g s

/-- `generate_core()` -/
def hitGenerateCore (A : PArith F) (g : HitIn F) (s : Osu) : M (Pat × Osu) :=
  if g.total = 1 then do
    let p ← Pat.single 0 .atObject
    .ok (p, s)
  else hitCoreSpecial A g (hitLastColumn g) (g.total % 256) (randomStart g.total) s

/-- the stair bookkeeping of `generate()`: for every generated object, in order -/
def stairAfter (total ct : Nat) (stair : Nat) (notes : List Note) : Nat :=
  notes.foldl (fun st n =>
    let col := posColumn total n.col
    let st := if has ct STAIR && (col : Int) = (total : Int) - 1 then 2 ^ REVERSE_STAIR else st
    if has ct REVERSE_STAIR && col = randomStart total then 2 ^ STAIR else st) stair

/-- `HitObjectPatternGenerator::generate()`: the pattern, the PRNG state and `stair_type` after -/
def hitGenerate (A : PArith F) (g : HitIn F) (stair : Nat) (s : Osu) : M (Pat × Osu × Nat) := do
  let (p, s') ← hitGenerateCore A g s
  .ok (p, s', stairAfter g.total g.ct stair p.notes)

/-! ## `PathObjectPatternGenerator` -/

structure PathIn (F : Type) where
  total : Nat
  x : Int
  sample : Nat
  /-- `convert_type` as computed by `new` (`LOW_PROBABILITY` unless kiai) -/
  ct : Nat
  prev : Pat
  cd : F
  /-- `span_count`, `start_time`, `end_time`, `segment_duration` (`i32`) -/
  span : Int
  startT : Int
  endT : Int
  seg : Int
  /-- `node_sounds` (hit-sound bits per node) -/
  nodes : List Nat
  fuel : Nat

/-- the slider arithmetic of `PathObjectPatternGenerator::new`: from `start_time` (the rounded `i32`),
`span_count`, `expected_dist.unwrap_or(0.0)`, the precision-adjusted beat length and
`slider_multiplier` to `(end_time, segment_duration)`:
`end_time = (f64::from(start_time) + dist * beat_len * f64::from(span_count) * 0.01 / slider_multiplier).floor() as i32`,
`segment_duration = (end_time - start_time) / span_count` (`i32` subtraction and division checked) -/
def pathNewDelta (A : PArith F) (span : Int) (dist beatLen sm : F) : F :=
  A.div (A.mul (A.mul (A.mul dist beatLen) (A.ofInt span)) (A.pct 1)) sm

def pathNew (A : PArith F) (startT span : Int) (dist beatLen sm : F) : M (Int × Int) := do
  let endT := A.floorI32 (A.add (A.ofInt startT) (pathNewDelta A span dist beatLen sm))
  let d ← i32sub endT startT
  if span = 0 then .error .arith
  else if d = -2147483648 ∧ span = -1 then .error .arith
  else .ok (endT, Int.tdiv d span)

/-- `find_available_column(initial, validation, patterns)` of the path generator -/
def pathFind (A : PArith F) (g : PathIn F) (avoid : Option Nat) (patterns : List Cols) (s : Osu)
    (initial : Nat) : M (Nat × Osu) :=
  let rs := randomStart g.total
  findAvail avoid patterns rs g.total (randomNext A rs g.total) g.fuel s initial

/-- `note_samples_at(time)` + `sample_info_list_at(time)`: first sample of `node_sounds[idx..]`,
else the object's own sample; `idx = ((time - start_time) / segment_duration) as usize` (`i32`
subtraction and division checked; a negative quotient wraps to a huge index) -/
def sampleInfoAt (g : PathIn F) (time : Int) : M Nat := do
  let idx : Int ←
    if g.seg = 0 then .ok 0
    else do
      let d ← i32sub time g.startT
      -- `i32::MIN / -1` overflows
      if d = -2147483648 ∧ g.seg = -1 then .error .arith else .ok (Int.tdiv d g.seg)
  if idx < 0 ∨ idx.toNat > g.nodes.length then .error .index
  else .ok ((g.nodes.drop idx.toNat).head?.getD g.sample)

/-- the two loops of `generate_random_hold_notes` -/
def pathHoldLoop (A : PArith F) (g : PathIn F) (withPrev : Bool) (startT : Int) :
    Nat → Pat → Nat → Osu → M (Pat × Nat × Osu)
  | 0, pat, c, s => .ok (pat, c, s)
  | k + 1, pat, nextColumn, s => do
    let pats := if withPrev then [pat.cols, g.prev.cols] else [pat.cols]
    let (c, s') ← pathFind A g none pats s nextColumn
    let pat' ← pat.add c (.span startT g.endT)
    pathHoldLoop A g withPrev startT k pat' c s'

/-- `generate_random_hold_notes(start_time, note_count)` -/
def pathRandomHoldNotes (A : PArith F) (g : PathIn F) (startT : Int) (noteCount : Int) (s : Osu) :
    M (Pat × Osu) := do
  let rs := randomStart g.total
  let usable : Int := (g.total : Int) - rs - g.prev.count
  let (c0, s0) := getRandomColumn A s rs g.total
  let (pat, c1, s1) ← pathHoldLoop A g true startT (min usable noteCount).toNat Pat.empty c0 s0
  -- `note_count.saturating_sub(usable_columns)`
  let (pat, _, s2) ← pathHoldLoop A g false startT (noteCount - usable).toNat pat c1 s1
  .ok (pat, s2)

/-- `if FORCE_NOT_STACK && prev.column_with_objs() < total { next = find(next, None, [prev]) }` -/
def pathAvoidPrev (A : PArith F) (g : PathIn F) (ct : Nat) (c : Nat) (s : Osu) : M (Nat × Osu) :=
  if has ct FORCE_NOT_STACK && decide (g.prev.count < g.total) then
    pathFind A g none [g.prev.cols] s c
  else .ok (c, s)

/-- the loop of `generate_random_notes` -/
def pathRandomNotesLoop (A : PArith F) (g : PathIn F) :
    Nat → Pat → Nat → Nat → Int → Osu → M (Pat × Osu)
  | 0, pat, _, _, _, s => .ok (pat, s)
  | k + 1, pat, nextColumn, lastColumn, t, s => do
    let pat' ← pat.add nextColumn (.span t t)
    let (c, s') ← pathFind A g (some lastColumn) [] s nextColumn
    let t' ← i32add t g.seg
    pathRandomNotesLoop A g k pat' c c t' s'

/-- `generate_random_notes(start_time, note_count)` -/
def pathRandomNotes (A : PArith F) (g : PathIn F) (ct : Nat) (startT : Int) (noteCount : Int)
    (s : Osu) : M (Pat × Osu) := do
  let (c, s1) ← pathAvoidPrev A g ct (getColumnSpecial g.total g.x) s
  pathRandomNotesLoop A g noteCount.toNat Pat.empty c c startT s1

/-- the loop of `generate_stair` (`for _ in 0..=span_count as usize`) -/
def pathStairLoop (g : PathIn F) : Nat → Pat → Int → Bool → Int → M Pat
  | 0, pat, _, _, _ => .ok pat
  | k + 1, pat, column, increasing, t => do
    let pat' ← pat.add (asU8 column) (.span t t)
    let t' ← i32add t g.seg
    if increasing then
      if column ≥ (g.total : Int) - 1 then pathStairLoop g k pat' (column - 1) false t'
      else pathStairLoop g k pat' (column + 1) true t'
    else if column ≤ randomStart g.total then pathStairLoop g k pat' (column + 1) true t'
    else pathStairLoop g k pat' (column - 1) false t'

/-- number of iterations of `for _ in 0..=n as usize` for an `i32` `n` (negative wraps to a huge
`usize`: the loop then runs "forever", reported as fuel exhaustion) -/
def inclusiveIters (n : Int) (fuel : Nat) : M Nat :=
  if n < 0 then .error .fuel else if n.toNat + 1 > fuel then .error .fuel else .ok (n.toNat + 1)

/-- `generate_stair(start_time)` -/
def pathStair (A : PArith F) (g : PathIn F) (startT : Int) (s : Osu) : M (Pat × Osu) := do
  let column : Int := getColumnSpecial g.total g.x
  let (v, s1) := nextDouble A s
  let increasing := A.gt v (A.pct 50)
  let iters ← inclusiveIters g.span 100000
  let pat ← pathStairLoop g iters Pat.empty column increasing startT
  .ok (pat, s1)

/-- the loop of `generate_random_multiple_notes` -/
def pathMultipleLoop (A : PArith F) (g : PathIn F) (interval : Int) (legacy : Int) :
    Nat → Pat → Int → Int → Osu → M (Pat × Osu)
  | 0, pat, _, _, s => .ok (pat, s)
  | k + 1, pat, nextColumn, t, s => do
    let rs : Int := randomStart g.total
    let pat1 ← pat.add (asU8 nextColumn) (.span t t)
    let nc := nextColumn + interval
    let nc := if nc ≥ (g.total : Int) - rs then nc - g.total - rs + legacy else nc
    let nc := nc + rs
    let pat2 ← (if g.total > 2 then pat1.add (asU8 nc) (.span t t) else .ok pat1 : M Pat)
    let (c, s') := getRandomColumn A s rs g.total
    let t' ← i32add t g.seg
    pathMultipleLoop A g interval legacy k pat2 c t' s'

/-- `generate_random_multiple_notes(start_time)` -/
def pathMultiple (A : PArith F) (g : PathIn F) (startT : Int) (s : Osu) : M (Pat × Osu) := do
  let legacy : Int := if 4 ≤ g.total ∧ g.total ≤ 8 then 1 else 0
  let (n, s1) := s.nextInt
  let interval := A.range 1 ((g.total : Int) - legacy) n
  let iters ← inclusiveIters g.span 100000
  pathMultipleLoop A g interval legacy iters Pat.empty (getColumnSpecial g.total g.x) startT s1

/-- the per-key-count caps of `generate_n_random_notes` -/
def pathProbs (A : PArith F) (total : Nat) (p2 p3 p4 : F) : F × F × F :=
  if total = 2 then (A.pct 0, A.pct 0, A.pct 0)
  else if total = 3 then (A.min p2 (A.pct 10), A.pct 0, A.pct 0)
  else if total = 4 then (A.min p2 (A.pct 30), A.min p3 (A.pct 4), A.pct 0)
  else if total = 5 then (A.min p2 (A.pct 34), A.min p3 (A.pct 10), A.min p4 (A.pct 3))
  else (p2, p3, p4)

/-- `generate_n_random_notes(start_time, p2, p3, p4)`; `ct` is the current `convert_type` -/
def pathNRandom (A : PArith F) (g : PathIn F) (ct : Nat) (startT : Int) (p2 p3 p4 : F) (s : Osu) :
    M (Pat × Osu) := do
  -- `&&` / `||` short-circuit: `sample_info_list_at` (which can panic) is only evaluated if needed
  let canTwo ←
    (if has ct LOW_PROBABILITY then .ok false
    else if sampleHas g.sample (S_CLAP ||| S_FINISH) then .ok true
    else do
      let x ← sampleInfoAt g g.startT
      .ok (sampleHas x (S_CLAP ||| S_FINISH)) : M Bool)
  pathRandomHoldNotes A g startT
    (noteCount A s (if canTwo then A.pct 100 else (pathProbs A g.total p2 p3 p4).1)
      (pathProbs A g.total p2 p3 p4).2.1 (pathProbs A g.total p2 p3 p4).2.2 (A.pct 0) (A.pct 0)).1
    (noteCount A s (if canTwo then A.pct 100 else (pathProbs A g.total p2 p3 p4).1)
      (pathProbs A g.total p2 p3 p4).2.1 (pathProbs A g.total p2 p3 p4).2.2 (A.pct 0) (A.pct 0)).2

/-- the loop of `generate_tiled_hold_notes` -/
def pathTiledLoop (A : PArith F) (g : PathIn F) (endT : Int) :
    Nat → Pat → Nat → Int → Osu → M (Pat × Osu)
  | 0, pat, _, _, s => .ok (pat, s)
  | k + 1, pat, nextColumn, t, s => do
    let (c, s') ← pathFind A g none [pat.cols] s nextColumn
    let pat' ← pat.add c (.span t endT)
    let t' ← i32add t g.seg
    pathTiledLoop A g endT k pat' c t' s'

/-- `generate_tiled_hold_notes(start_time)` -/
def pathTiled (A : PArith F) (g : PathIn F) (ct : Nat) (startT : Int) (s : Osu) : M (Pat × Osu) := do
  -- `cmp::min(span_count, total_columns) as usize`
  let columnRepeat := min g.span g.total
  let m ← i32mul g.seg g.span
  let endT ← i32add startT m
  let (c, s1) ← pathAvoidPrev A g ct (getColumnSpecial g.total g.x) s
  if columnRepeat < 0 then .error .fuel
  else pathTiledLoop A g endT columnRepeat.toNat Pat.empty c startT s1

/-- inner loop of `generate_hold_and_normal_notes`: `for _ in 0..note_count` -/
def pathRowLoop (A : PArith F) (g : PathIn F) (holdColumn : Nat) (t : Int) :
    Nat → Pat → Nat → Osu → M (Pat × Nat × Osu)
  | 0, row, c, s => .ok (row, c, s)
  | k + 1, row, nextColumn, s => do
    let (c, s') ← pathFind A g (some holdColumn) [row.cols] s nextColumn
    let row' ← row.add c (.span t t)
    pathRowLoop A g holdColumn t k row' c s'

/-- outer loop: `for _ in 0..=span_count as usize` -/
def pathHoldNormalLoop (A : PArith F) (g : PathIn F) (holdColumn : Nat) (noteCount : Nat)
    (ignoreHead : Bool) : Nat → Pat → Nat → Int → Osu → M (Pat × Osu)
  | 0, pat, _, _, s => .ok (pat, s)
  | k + 1, pat, nextColumn, t, s => do
    let (row, c, s') ←
      (if !(ignoreHead && t == g.startT) then pathRowLoop A g holdColumn t noteCount Pat.empty nextColumn s
      else .ok (Pat.empty, nextColumn, s) : M (Pat × Nat × Osu))
    let t' ← i32add t g.seg
    pathHoldNormalLoop A g holdColumn noteCount ignoreHead k (pat.append row) c t' s'

/-- `generate_hold_and_normal_notes(start_time, conversion_diff)` -/
def pathHoldNormal (A : PArith F) (g : PathIn F) (ct : Nat) (startT : Int) (s : Osu) :
    M (Pat × Osu) := do
  let (holdColumn, s1) ← pathAvoidPrev A g ct (getColumnSpecial g.total g.x) s
  let pat ← Pat.empty.add holdColumn (.span startT g.endT)
  let rs := randomStart g.total
  let (c0, s2) := getRandomColumn A s1 rs g.total
  let z := A.pct 0
  let (n, s3) : Int × Osu :=
    if A.gt g.cd (A.pct 650) then noteCount A s2 (A.pct 63) z z z z
    else if A.gt g.cd (A.pct 400) then
      noteCount A s2 (if g.total < 6 then A.pct 12 else A.pct 45) z z z z
    else if A.gt g.cd (A.pct 250) then
      noteCount A s2 (if g.total < 6 then z else A.pct 24) z z z z
    else (0, s2)
  let n := min n ((g.total : Int) - 1)
  let smp ← sampleInfoAt g startT
  let ignoreHead := !sampleHas smp (S_WHISTLE ||| S_FINISH ||| S_CLAP)
  let iters ← inclusiveIters g.span 100000
  pathHoldNormalLoop A g holdColumn n.toNat ignoreHead iters pat c0 startT s3

/-- `generate_()` for `span_count > 1` -/
def pathCoreMulti (A : PArith F) (g : PathIn F) (s : Osu) : M (Pat × Osu) :=
  if g.seg ≤ 90 then pathRandomHoldNotes A g g.startT 1 s
  else if g.seg ≤ 120 then do
    let n ← i32add g.span 1
    pathRandomNotes A g (g.ct ||| 2 ^ FORCE_NOT_STACK) g.startT n s
  else if g.seg ≤ 160 then pathStair A g g.startT s
  else if g.seg ≤ 200 && A.gt g.cd (A.pct 300) then pathMultiple A g g.startT s
  else do
    -- `self.end_time - self.start_time >= 4000`
    let d ← i32sub g.endT g.startT
    if d ≥ 4000 then pathNRandom A g g.ct g.startT (A.pct 23) (A.pct 0) (A.pct 0) s
    else if g.seg > 400 && decide (g.span < (g.total : Int) - 1 - randomStart g.total) then
      pathTiled A g g.ct g.startT s
    else pathHoldNormal A g g.ct g.startT s

/-- `generate_()` for `span_count <= 1` -/
def pathCoreSingle (A : PArith F) (g : PathIn F) (s : Osu) : M (Pat × Osu) :=
  if g.seg ≤ 110 then
    pathRandomNotes A g
      (if g.prev.count < g.total then g.ct ||| 2 ^ FORCE_NOT_STACK else g.ct &&& (65535 - 2 ^ FORCE_NOT_STACK))
      g.startT (1 + (if g.seg ≥ 80 then 1 else 0)) s
  else if A.gt g.cd (A.pct 650) then
    if has g.ct LOW_PROBABILITY then pathNRandom A g g.ct g.startT (A.pct 78) (A.pct 30) (A.pct 0) s
    else pathNRandom A g g.ct g.startT (A.pct 85) (A.pct 36) (A.pct 3) s
  else if A.gt g.cd (A.pct 400) then
    if has g.ct LOW_PROBABILITY then pathNRandom A g g.ct g.startT (A.pct 43) (A.pct 8) (A.pct 0) s
    else pathNRandom A g g.ct g.startT (A.pct 56) (A.pct 18) (A.pct 0) s
  else if A.gt g.cd (A.pct 250) then
    if has g.ct LOW_PROBABILITY then pathNRandom A g g.ct g.startT (A.pct 30) (A.pct 0) (A.pct 0) s
    else pathNRandom A g g.ct g.startT (A.pct 37) (A.pct 8) (A.pct 0) s
  else if has g.ct LOW_PROBABILITY then pathNRandom A g g.ct g.startT (A.pct 17) (A.pct 0) (A.pct 0) s
  else pathNRandom A g g.ct g.startT (A.pct 27) (A.pct 0) (A.pct 0) s

/-- `generate_()`: the dispatch on span count, segment duration and conversion difficulty -/
def pathGenerateCore (A : PArith F) (g : PathIn F) (s : Osu) : M (Pat × Osu) :=
  if g.total = 1 then do
    let p ← Pat.single 0 (.span g.startT g.endT)
    .ok (p, s)
  else if g.span > 1 then pathCoreMulti A g s
  else pathCoreSingle A g s

/-- end time of a generated object as `generate()` reads it: `obj.end_time().round_ties_even() as i32`
(the times are `i32` values, exactly representable) -/
def Note.endT (n : Note) : Int :=
  match n.time with
  | .span _ e => e
  | _ => 0

/-- the split of `generate()`: objects not ending at `end_time` / ending at `end_time`, columns
read back from the positions (`add_object(obj, col)`) -/
def pathSplit (g : PathIn F) : List Note → Pat → Pat → M (Pat × Pat)
  | [], a, b => .ok (a, b)
  | n :: ns, a, b => do
    let col := posColumn g.total n.col % 256
    if g.endT != n.endT then
      let a' ← a.add col n.time
      pathSplit g ns a' b
    else
      let b' ← b.add col n.time
      pathSplit g ns a b'

/-- `PathObjectPatternGenerator::generate()`: one or two patterns -/
def pathGenerate (A : PArith F) (g : PathIn F) (s : Osu) : M (List Pat × Osu) := do
  let (p, s') ← pathGenerateCore A g s
  if p.notes.length = 1 then .ok ([p], s')
  else
    let (a, b) ← pathSplit g p.notes Pat.empty Pat.empty
    .ok ([a, b], s')

/-! ## `EndTimeObjectPatternGenerator` -/

structure EndIn where
  total : Nat
  sample : Nat
  prev : Pat
  /-- `end_time - start_time >= 100.0` -/
  hold : Bool
  /-- `end_time - start_time < 1000.0` -/
  short : Bool
  fuel : Nat

/-- `get_random_column(lower)` + `find_available_column(column, Some(lower), …)` -/
def endRandomColumn (A : PArith F) (g : EndIn) (lower : Nat) (s : Osu) : M (Nat × Osu) :=
  -- `convert_type = if prev.column_with_objs() == total { default } else { FORCE_NOT_STACK }`
  let forceNotStack := g.prev.count != g.total
  let (c, s1) := getRandomColumn A s lower g.total
  findAvail none (if forceNotStack then [g.prev.cols] else []) lower g.total
    (randomNext A lower g.total) g.fuel s1 c

/-- `EndTimeObjectPatternGenerator::generate()` -/
def endGenerate (A : PArith F) (g : EndIn) (s : Osu) : M (Pat × Osu) := do
  let t : NoteTime := if g.hold then .holdObject else .atObject
  if g.total = 8 && sampleHas g.sample S_FINISH && g.short then
    let p ← Pat.single 0 t
    .ok (p, s)
  else
    let (c, s') ← endRandomColumn A g (if g.total = 8 then randomStart g.total else 0) s
    let p ← Pat.single c t
    .ok (p, s')

/-! ## the per-object loop of `convert` -/

inductive ObjIn (F : Type) where
  /-- `HitObjectKind::Circle`: x, sample, `convert_type` -/
  | circle (x : Int) (sample ct : Nat)
  /-- `HitObjectKind::Slider`: x, sample, `convert_type`, span count, start, end, segment duration,
  node sounds -/
  | slider (x : Int) (sample ct : Nat) (span startT endT seg : Int) (nodes : List Nat)
  /-- `Spinner | Hold`: sample and the two duration comparisons -/
  | spinner (sample : Nat) (hold short : Bool)

/-- `last_values` (pattern and stair) and the PRNG -/
structure ConvSt where
  prev : Pat
  stair : Nat
  rng : Osu

/-- what one object contributes: the patterns whose objects are appended to the new map, in order -/
abbrev Emitted := List Pat

/-- one iteration of `for (obj, sound) in …` -/
def convertStep (A : PArith F) (total : Nat) (cd : F) (fuel : Nat) (st : ConvSt) :
    ObjIn F → M (Emitted × ConvSt)
  | .circle x sample ct => do
    let (p, s', stair') ← hitGenerate A ⟨total, x, sample, ct, st.prev, cd, fuel⟩ st.stair st.rng
    .ok ([p], ⟨p, stair', s'⟩)
  | .slider x sample ct span startT endT seg nodes => do
    let (ps, s') ← pathGenerate A ⟨total, x, sample, ct, st.prev, cd, span, startT, endT, seg, nodes, fuel⟩ st.rng
    -- `for new_pattern in gen.generate() { …; last_values.pattern = new_pattern }`
    .ok (ps, ⟨ps.getLast?.getD st.prev, st.stair, s'⟩)
  | .spinner sample hold short => do
    let (p, s') ← endGenerate A ⟨total, sample, st.prev, hold, short, fuel⟩ st.rng
    -- `last_values.pattern` is NOT updated for spinners
    .ok ([p], ⟨st.prev, st.stair, s'⟩)

/-- the whole loop; the per-object outputs are returned separately (the trace) -/
def convertLoop (A : PArith F) (total : Nat) (cd : F) (fuel : Nat) :
    ConvSt → List (ObjIn F) → M (List (Emitted × ConvSt) × ConvSt)
  | st, [] => .ok ([], st)
  | st, o :: os => do
    let (e, st') ← convertStep A total cd fuel st o
    let (rest, stf) ← convertLoop A total cd fuel st' os
    .ok ((e, st') :: rest, stf)

/-- `PrevValues::default()` with `OsuRandom::new(seed)` -/
def ConvSt.init (seed : Int) : ConvSt := ⟨Pat.empty, 2 ^ STAIR, Osu.new seed⟩

end Rosu.ManiaPattern
