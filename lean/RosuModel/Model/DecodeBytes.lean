import RosuModel.Model.DecodeLine

/-
The byte reader of rosu-map 0.2.1 (`src/reader/{decoder,encoding,u16_iter}.rs`) under
`DecodeBeatmap::decode`, as a total function from the bytes of a file to its lines (core Lean only).

* `Decoder::new` / `read_bom`: `fill_buf` until at least three bytes (or none) are available —
  a shorter chunk is CONSUMED, so a file of one or two bytes is read as empty; then
  `EF BB BF` → UTF-8 (3 bytes skipped), `FF FE` → UTF-16LE, `FE FF` → UTF-16BE (2 skipped), else UTF-8.
* `read_line`: `read_until(b'\n')` on the raw bytes whatever the encoding (lines end at a `0x0A`
  byte; `\r` is not a separator); for UTF-16LE one more byte is read after a `0x0A`
  (`read_exact`: at end of input this is the only `io::Error` the reader itself can produce).
* `curr_line`: `Encoding::decode(...).trim_end()`: UTF-8 with one U+FFFD per maximal invalid
  sequence (exactly the `valid_up_to` / `error_len` loop over `std::str::from_utf8`), UTF-16 through
  `char::decode_utf16` with U+FFFD for lone surrogates; an odd trailing byte is dropped.

`from_bytes`, `from_str` and (given that the first `read` of a file of ≥ 3 bytes returns ≥ 3 bytes)
`from_path` run this same code on the same bytes.

Bytes are `Nat`s `< 256` inside the model (arithmetic proofs); `fromBytes` takes `List UInt8`.
-/
namespace Rosu.DecodeLine

abbrev Bytes := List Nat

/-! ## lossy UTF-8 (one buffer = one line) -/

inductive U8St
  | init
  /-- `n` continuation bytes missing, value so far `acc`, the next byte must lie in `[lo, hi]` -/
  | need (n acc lo hi : Nat)
deriving Repr, DecidableEq

/-- a byte in the initial state: emitted code points and the next state -/
def u8Start (b : Nat) : List Nat × U8St :=
  if b < 0x80 then ([b], .init)
  else if 0xC2 ≤ b ∧ b ≤ 0xDF then ([], .need 1 (b - 0xC0) 0x80 0xBF)
  else if b = 0xE0 then ([], .need 2 0 0xA0 0xBF)
  else if b = 0xED then ([], .need 2 13 0x80 0x9F)
  else if 0xE1 ≤ b ∧ b ≤ 0xEF then ([], .need 2 (b - 0xE0) 0x80 0xBF)
  else if b = 0xF0 then ([], .need 3 0 0x90 0xBF)
  else if b = 0xF4 then ([], .need 3 4 0x80 0x8F)
  else if 0xF1 ≤ b ∧ b ≤ 0xF3 then ([], .need 3 (b - 0xF0) 0x80 0xBF)
  else ([0xFFFD], .init)

/-- `Encoding::Utf8.decode`: code points of a buffer; an invalid or truncated sequence becomes one
U+FFFD and decoding resumes at the offending byte. -/
def u8Feed : U8St → Bytes → List Nat
  | .init, [] => []
  | .need .., [] => [0xFFFD]
  | .init, b :: r => (u8Start b).1 ++ u8Feed (u8Start b).2 r
  | .need n acc lo hi, b :: r =>
    if lo ≤ b ∧ b ≤ hi then
      if n ≤ 1 then (acc * 64 + (b - 0x80)) :: u8Feed .init r
      else u8Feed (.need (n - 1) (acc * 64 + (b - 0x80)) 0x80 0xBF) r
    else 0xFFFD :: ((u8Start b).1 ++ u8Feed (u8Start b).2 r)

def decodeUtf8 (b : Bytes) : List Nat := u8Feed .init b

/-! ## UTF-16 -/

/-- `U16LeIterator` / `U16BeIterator`: pairs of bytes, an odd trailing byte is dropped -/
def u16Units (le : Bool) : Bytes → List Nat
  | a :: b :: r => (if le then b * 256 + a else a * 256 + b) :: u16Units le r
  | _ => []

/-- a code unit with no pending high surrogate: emission and the new pending surrogate -/
def u16Start (u : Nat) : List Nat × Option Nat :=
  if u < 0xD800 ∨ 0xDFFF < u then ([u], none)
  else if 0xDC00 ≤ u then ([0xFFFD], none)
  else ([], some u)

/-- `char::decode_utf16(..).map(|r| r.unwrap_or(REPLACEMENT_CHARACTER))` -/
def u16Feed : Option Nat → List Nat → List Nat
  | none, [] => []
  | some _, [] => [0xFFFD]
  | none, u :: r => (u16Start u).1 ++ u16Feed (u16Start u).2 r
  | some h, u :: r =>
    if 0xDC00 ≤ u ∧ u ≤ 0xDFFF then
      (0x10000 + (h - 0xD800) * 0x400 + (u - 0xDC00)) :: u16Feed none r
    else 0xFFFD :: ((u16Start u).1 ++ u16Feed (u16Start u).2 r)

def decodeUtf16 (le : Bool) (b : Bytes) : List Nat := u16Feed none (u16Units le b)

/-! ## lines -/

inductive Enc
  | utf8 | utf16le | utf16be
deriving Repr, DecidableEq

/-- `Encoding::from_bom` on the bytes `read_bom` sees -/
def fromBom : Bytes → Enc × Bytes
  | 0xEF :: 0xBB :: 0xBF :: r => (.utf8, r)
  | 0xFF :: 0xFE :: r => (.utf16le, r)
  | 0xFE :: 0xFF :: r => (.utf16be, r)
  | b => (.utf8, b)

/-- the last `read_until` before `Ok(None)`: a non-empty rest without `\n` is a line -/
def endLine (cur : Bytes) : List Bytes := if cur.isEmpty then [] else [cur.reverse]

/-- the successive `read_buf` contents of `read_line` for UTF-8 / UTF-16BE (`cur` = current line,
reversed): split after every `0x0A` byte -/
def rawLinesN : Bytes → Bytes → List Bytes
  | cur, [] => endLine cur
  | cur, b :: r => if b = 10 then (10 :: cur).reverse :: rawLinesN [] r else rawLinesN (b :: cur) r

/-- the same for UTF-16LE: one more byte is read after every `0x0A`; `none` = `read_exact` hit the
end of input: `io::ErrorKind::UnexpectedEof` -/
def rawLinesLE : Bytes → Bytes → Option (List Bytes)
  | cur, [] => some (endLine cur)
  | cur, [b] => if b = 10 then none else some [(b :: cur).reverse]
  | cur, b :: x :: r =>
    if b = 10 then (rawLinesLE [] r).map ((x :: 10 :: cur).reverse :: ·)
    else rawLinesLE (b :: cur) (x :: r)

def rawLines (le : Bool) (cur r : Bytes) : Option (List Bytes) :=
  if le then rawLinesLE cur r else some (rawLinesN cur r)

def decodeBuf : Enc → Bytes → List Nat
  | .utf8, b => decodeUtf8 b
  | .utf16le, b => decodeUtf16 true b
  | .utf16be, b => decodeUtf16 false b

/-- `Decoder::curr_line` -/
def lineOfBuf (e : Enc) (b : Bytes) : Str := trimEnd ((decodeBuf e b).map Char.ofNat)

/-- what `read_bom` leaves: a file shorter than three bytes is consumed and lost -/
def afterShortRead (b : Bytes) : Bytes := if b.length < 3 then [] else b

/-- every line `Decoder::read_line` yields until `Ok(None)`; `none` = an `io::Error` -/
def readBytes (b : Bytes) : Option (List Str) :=
  let eb := fromBom (afterShortRead b)
  (rawLines (eb.1 = .utf16le) [] eb.2).map (·.map (lineOfBuf eb.1))

/-- `Beatmap::from_bytes` (= `from_str` on the same bytes = `from_path` on a file with these
bytes): `none` = `Err(io::Error)`. -/
def fromNatBytes (b : Bytes) : Option Decoded := (readBytes b).map fun ls => finish (decodeLines ls)

def fromBytes (b : List UInt8) : Option Decoded := fromNatBytes (b.map (·.toNat))

/-! ## the character-level reading of a string (what the reader is meant to compute) -/

/-- UTF-8 encoding of a scalar value -/
def encodeChar (c : Nat) : Bytes :=
  if c < 0x80 then [c]
  else if c < 0x800 then [0xC0 + c / 64, 0x80 + c % 64]
  else if c < 0x10000 then [0xE0 + c / 4096, 0x80 + c / 64 % 64, 0x80 + c % 64]
  else [0xF0 + c / 262144, 0x80 + c / 4096 % 64, 0x80 + c / 64 % 64, 0x80 + c % 64]

def encodeStr (s : List Nat) : Bytes := s.flatMap encodeChar

/-- a Unicode scalar value -/
def isScalar (c : Nat) : Prop := c < 0xD800 ∨ (0xDFFF < c ∧ c < 0x110000)

/-- lines of a string: pieces up to and including each `\n`, plus a non-empty rest -/
def charLines : List Nat → List Nat → List (List Nat)
  | [], [] => []
  | cur, [] => [cur.reverse]
  | cur, c :: r => if c = 10 then (10 :: cur).reverse :: charLines [] r else charLines (c :: cur) r

/-- the lines of a string as the parsers are meant to see them -/
def strLines (s : List Nat) : List Str := (charLines [] s).map fun l => trimEnd (l.map Char.ofNat)

/-- decoding a string directly (no bytes, no BOM, no short-read quirk) -/
def fromStrModel (s : List Nat) : Decoded := finish (decodeLines (strLines s))

end Rosu.DecodeLine
