import RosuModel.Gen.Dispatch

/-
Model of mode dispatch and map conversion: `Beatmap::{convert, convert_ref, convert_mut}`
(src/model/beatmap/mod.rs) and the generic entry points that dispatch on a mode.  The converters
themselves are opaque (`conv`); what the guards do is transcribed here and compared with the
guard chains the translator extracts from the source (`Gen.convertChains`).
-/

namespace Rosu.Convert

inductive Mode where
  | osu | taiko | catch | mania
deriving Repr, DecidableEq

def Mode.name : Mode → String
  | .osu => "Osu" | .taiko => "Taiko" | .catch => "Catch" | .mania => "Mania"

def allModes : List Mode := [.osu, .taiko, .catch, .mania]

/-- What the guards read of a `Beatmap`; `body` stands for everything else. -/
structure MapM (B : Type) where
  mode : Mode
  isConvert : Bool
  body : B
deriving Repr, DecidableEq

inductive ConvErr where
  | alreadyConverted
  | convert (src dst : Mode)
deriving Repr, DecidableEq

/-- The three converters (`Taiko::convert`, `Catch::convert`, `Mania::convert`): opaque on the
body, but they assign `mode` and `is_convert = true` (`Gen.converterAssignments`). -/
def applyConv {B M} (conv : Mode → M → B → B) (dst : Mode) (mods : M) (m : MapM B) : MapM B :=
  { mode := dst, isConvert := true, body := conv dst mods m.body }

/-- `Beatmap::convert_ref`. -/
def convertRef {B M} (conv : Mode → M → B → B) (m : MapM B) (dst : Mode) (mods : M) :
    Except ConvErr (MapM B) :=
  if m.mode = dst then .ok m
  else if m.isConvert then .error .alreadyConverted
  else if m.mode ≠ .osu then .error (.convert m.mode dst)
  else .ok (applyConv conv dst mods m)

/-- `Beatmap::convert_mut`: `Ok(())` plus the map as it is afterwards. -/
def convertMut {B M} (conv : Mode → M → B → B) (m : MapM B) (dst : Mode) (mods : M) :
    Except ConvErr Unit × MapM B :=
  if m.mode = dst then (.ok (), m)
  else if m.isConvert then (.error .alreadyConverted, m)
  else if m.mode ≠ .osu then (.error (.convert m.mode dst), m)
  else (.ok (), applyConv conv dst mods m)

/-- `Beatmap::convert` (by value): `convert_mut` on the owned map, then `Ok(self)`. -/
def convertVal {B M} (conv : Mode → M → B → B) (m : MapM B) (dst : Mode) (mods : M) :
    Except ConvErr (MapM B) :=
  match convertMut conv m dst mods with
  | (.ok (), m') => .ok m'
  | (.error e, _) => .error e

/-- Every mode entry point starts with `map.convert_ref(MODE, mods)?` and then runs the mode's
core on the converted map (`Gen.entryPreludes`). -/
def forMode {B M D R} (conv : Mode → M → B → B) (core : Mode → D → MapM B → R) (mods : D → M)
    (dst : Mode) (d : D) (m : MapM B) : Except ConvErr R :=
  match convertRef conv m dst (mods d) with
  | .ok m' => .ok (core dst d m')
  | .error e => .error e

/-- `Difficulty::calculate` / `strains` / `GradualDifficulty::new`: dispatch on `map.mode`
(`Gen.dispatchTables`), "no conversion required". -/
def onOwnMode {B M D R} (conv : Mode → M → B → B) (core : Mode → D → MapM B → R) (mods : D → M)
    (d : D) (m : MapM B) : Except ConvErr R :=
  forMode conv core mods m.mode d m

def showOutcome {B} : Except ConvErr (MapM B) → String
  | .ok m => s!"ok:{m.mode.name}:{if m.isConvert then 1 else 0}"
  | .error .alreadyConverted => "err:already"
  | .error (.convert a b) => s!"err:convert:{a.name}:{b.name}"

def parseMode (s : String) : Mode :=
  if s == "Osu" then .osu else if s == "Taiko" then .taiko else if s == "Catch" then .catch else .mania

/-- `CONV <mode> <isConvert> <target>`: outcomes of the three entry points. -/
def handleConv (mode isConv target : String) : String :=
  let m : MapM Nat := { mode := parseMode mode, isConvert := isConv == "1", body := 0 }
  let conv : Mode → Nat → Nat → Nat := fun _ _ b => b + 1
  let dst := parseMode target
  let r := convertRef conv m dst 0
  let v := convertVal conv m dst 0
  let (mr, mm) := convertMut conv m dst 0
  let mutS := match mr with
    | .ok () => showOutcome (.ok mm : Except ConvErr (MapM Nat))
    | .error e => showOutcome (.error e : Except ConvErr (MapM Nat)) ++ s!"|left:{mm.mode.name}:{if mm.isConvert then 1 else 0}"
  s!"ref={showOutcome r} val={showOutcome v} mut={mutS}"

end Rosu.Convert
