/-!
# C05 — `LimitedQueue<T, N>` (src/util/limited_queue.rs), every index checked

Transcription of the ring buffer used by the mania converter (`prev_note_times`,
`MAX_NOTES_FOR_DENSITY = 7`).  Every slice index / range of the Rust code is a *checked*
operation here: the function returns `none` exactly where the Rust code would panic
(index out of bounds, slice range out of bounds, `% 0`, `N - 1` underflow).  The theorems in
`Props/C05.lean` show that `none` is never returned on a queue reachable from `new` by pushes.

Elements are `Nat` (the harness pushes the bit patterns of `f64` values).
-/
namespace Rosu.Safety

/-- `struct LimitedQueue { queue: [T; N], end: usize, len: usize }` -/
structure LQ where
  /-- const generic `N` -/
  cap : Nat
  queue : List Nat
  end_ : Nat
  len : Nat
  deriving Repr, DecidableEq

/-- `Default::default()`: `end: N - 1` (usize subtraction: underflows for `N = 0`), `queue: [T::default(); N]`, `len: 0` -/
def LQ.new (n : Nat) : Option LQ :=
  if n = 0 then none else some ⟨n, List.replicate n 0, n - 1, 0⟩

/-- `self.queue[i] = v` — bounds-checked store -/
def setChecked (l : List Nat) (i v : Nat) : Option (List Nat) :=
  if i < l.length then some (l.set i v) else none

/-- `self.queue[i]` — bounds-checked load -/
def getChecked (l : List Nat) (i : Nat) : Option Nat := l[i]?

/-- `&self.queue[a..b]` — panics unless `a ≤ b ≤ len` -/
def sliceChecked (l : List Nat) (a b : Nat) : Option (List Nat) :=
  if a ≤ b ∧ b ≤ l.length then some ((l.drop a).take (b - a)) else none

/-- `push`: `self.end = (self.end + 1) % N; self.queue[self.end] = elem; self.len += usize::from(self.len < N);` -/
def LQ.push (q : LQ) (v : Nat) : Option LQ :=
  if q.cap = 0 then none  -- `% 0`
  else
    let e := (q.end_ + 1) % q.cap
    match setChecked q.queue e v with
    | none => none
    | some qu => some { q with queue := qu, end_ := e, len := q.len + (if q.len < q.cap then 1 else 0) }

def LQ.isFull (q : LQ) : Bool := q.len == q.cap

/-- `Index::index`: `let idx = (idx + usize::from(self.len == N) * (self.end + 1)) % N; &self.queue[idx]` -/
def LQ.index (q : LQ) (i : Nat) : Option Nat :=
  if q.cap = 0 then none
  else getChecked q.queue ((i + (if q.len = q.cap then 1 else 0) * (q.end_ + 1)) % q.cap)

/-- `last` (cfg(test) in the crate): `if self.is_empty() { None } else { Some(&self.queue[self.end]) }`;
outer `Option` = panic, inner = the returned `Option` -/
def LQ.last (q : LQ) : Option (Option Nat) :=
  if q.len = 0 then some none
  else match getChecked q.queue q.end_ with
    | none => none
    | some v => some (some v)

/-- `as_slices`: full ⇒ `(&queue[end+1..N], &queue[0..=end])`, else `(&[], &queue[0..len])` -/
def LQ.asSlices (q : LQ) : Option (List Nat × List Nat) :=
  if q.isFull then
    match sliceChecked q.queue (q.end_ + 1) q.cap, sliceChecked q.queue 0 (q.end_ + 1) with
    | some a, some b => some (a, b)
    | _, _ => none
  else
    match sliceChecked q.queue 0 q.len with
    | some b => some ([], b)
    | none => none

/-- pushes in order -/
def LQ.pushAll : LQ → List Nat → Option LQ
  | q, [] => some q
  | q, v :: vs => match q.push v with
    | none => none
    | some q' => q'.pushAll vs

/-- The logical content: the last `min (pushes) N` pushed values, oldest first. -/
def lastN (n : Nat) (vs : List Nat) : List Nat := vs.drop (vs.length - n)

end Rosu.Safety
