import RosuModel.Model.GenState
import RosuModel.Model.PerfCalc
import RosuModel.Model.MapOrAttrs

/-!
# C12 / C04 / C03 — `*Performance::calculate` on the attributes path, composed

`calculate(mut self)` of the four mode builders (src/{osu,taiko,catch,mania}/performance/mod.rs) is

    let state = self.generate_state()?;
    let attrs = match self.map_or_attrs { Attrs(attrs) => attrs, Map(ref map) => … };
    <Mode>PerformanceCalculator::new(attrs, mods, state …).calculate()

(`Gen/PerfSkeleton.lean` re-extracts this shape on every run; `Props/C12c.lean` compares).  Here the two
halves that were modelled separately are composed for the attributes path:

* `generate_state` — `Model/GenState.lean` (`osuGen`, `taikoGen`, `catchGen`, `maniaGen`, generic in `NumOps R`);
* the calculator — `Model/PerfCalc.lean` (`osuCalculate`, `taikoCalculate`, `catchCalculate`, `maniaCalculate`,
  generic in `PPOps R`),

through `GenState.<mode>Calculate perfCalc cfg builder`, the definition the C12 theorems are about, with
`perfCalc` instantiated by the concrete formula.  What `generate_state` reads of the attributes and settings
(`<Mode>Cfg`) is *derived* from the attribute record the formulas read and from the settings record
(`osuCfgOf`, …), so both halves see the same attributes.  Nothing between the two halves clamps or converts:
the generated state is handed to the calculator as it is (osu! additionally computes `effective_miss_count`
and the accuracy from it, which is part of `PerfCalc.osuCalculate`).

The `Float` instances of both classes are what the `FP` lines execute.  Core Lean only.
-/

namespace Rosu.FullPerf
open Rosu.GenState Rosu.PerfCalc

variable {R : Type} [NumOps R] [PPOps R]

/-! ## osu! -/

/-- what `OsuPerformance` reads of its `Difficulty` / builder besides the score fields -/
structure OsuSettings where
  mods : OsuMods
  /-- `difficulty.get_lazer()` -/
  lazer : Bool
  /-- `mods.no_slider_head_acc(lazer)` (= `using_classic_slider_acc`) -/
  noSliderHeadAcc : Bool
  /-- `difficulty.get_passed_objects()` when set -/
  passed : Option Nat
  prio : Prio

/-- the part of the attributes and settings `generate_state` reads -/
def osuCfgOf (a : OsuAttrs R) (d : OsuSettings) : OsuCfg :=
  { maxCombo := a.maxCombo, nObjects := a.nCircles + a.nSliders + a.nSpinners, nSliders := a.nSliders,
    nLargeTicks := a.nLargeTicks, passed := d.passed, lazer := d.lazer, noSliderHeadAcc := d.noSliderHeadAcc,
    prio := d.prio }

/-- `OsuScoreState` of the generator = `OsuScoreState` of the calculator (same fields, same order) -/
def osuStateOf (s : GenState.OsuState) : Finite.OsuState :=
  ⟨s.maxCombo, s.largeTickHits, s.smallTickHits, s.sliderEndHits, s.n300, s.n100, s.n50, s.misses⟩

/-- everything of `calculate` after `generate_state`: effective miss count, origin / accuracy, calculator -/
def osuFormula (sf : Special R) (a : OsuAttrs R) (d : OsuSettings) (s : GenState.OsuState) : OsuOut R :=
  PerfCalc.osuCalculate sf a d.mods (osuStateOf s) d.lazer d.noSliderHeadAcc

/-- `OsuPerformance::calculate` on the attributes path -/
def osuFull (sf : Special R) (a : OsuAttrs R) (d : OsuSettings) (b : OsuB R) : Res (OsuOut R) :=
  GenState.osuCalculate (fun _ s => osuFormula sf a d s) (osuCfgOf a d) b

/-! ## taiko -/

structure TaikoSettings where
  mods : TaikoMods
  passed : Option Nat
  prio : Prio

def taikoCfgOf (a : TaikoAttrs R) (d : TaikoSettings) : TaikoCfg :=
  { maxCombo := a.maxCombo, passed := d.passed, prio := d.prio }

def taikoStateOf (s : GenState.TaikoState) : Finite.TaikoState := ⟨s.maxCombo, s.n300, s.n100, s.misses⟩

def taikoFormula (sf : Special R) (a : TaikoAttrs R) (d : TaikoSettings) (s : GenState.TaikoState) : TaikoOut R :=
  PerfCalc.taikoCalculate sf a d.mods (taikoStateOf s)

def taikoFull (sf : Special R) (a : TaikoAttrs R) (d : TaikoSettings) (b : TaikoB R) : Res (TaikoOut R) :=
  GenState.taikoCalculate (fun _ s => taikoFormula sf a d s) (taikoCfgOf a d) b

/-! ## catch (`generate_state` reads neither `passed_objects` nor a priority nor anything else of the
`Difficulty`: `catchGenOf` below does not take the settings) -/

/-- the attributes `CatchPerformance` reads: those of the calculator and `n_tiny_droplets`
(`generate_state` only) -/
structure CatchFullAttrs (R : Type) where
  base : CatchAttrs R
  nTinyDroplets : Nat

structure CatchSettings where
  mods : CatchMods

def catchCfgOf (a : CatchFullAttrs R) : CatchCfg :=
  { nFruits := a.base.nFruits, nDroplets := a.base.nDroplets, nTiny := a.nTinyDroplets }

def catchStateOf (s : GenState.CatchState) : Finite.CatchState :=
  ⟨s.maxCombo, s.fruits, s.droplets, s.tiny, s.tinyMisses, s.misses⟩

def catchFormula (a : CatchFullAttrs R) (d : CatchSettings) (s : GenState.CatchState) : R :=
  PerfCalc.catchCalculate a.base d.mods (catchStateOf s)

def catchFull (a : CatchFullAttrs R) (d : CatchSettings) (b : CatchB R) : Res R :=
  GenState.catchCalculate (fun _ s => catchFormula a d s) (catchCfgOf a) b

/-! ## mania -/

/-- the attributes `ManiaPerformance` reads: `stars` (calculator), the two counts (`generate_state`) -/
structure ManiaAttrs (R : Type) where
  stars : R
  nObjects : Nat
  nHoldNotes : Nat

structure ManiaSettings where
  mods : ManiaMods
  passed : Option Nat
  /-- `!difficulty.get_lazer() || mods.cl()` -/
  classic : Bool
  prio : Prio

def maniaCfgOf (a : ManiaAttrs R) (d : ManiaSettings) : ManiaCfg :=
  { nObjects := a.nObjects, nHoldNotes := a.nHoldNotes, passed := d.passed, classic := d.classic, prio := d.prio }

def maniaStateOf (s : GenState.ManiaState) : Finite.ManiaState := ⟨s.n320, s.n300, s.n200, s.n100, s.n50, s.misses⟩

def maniaFormula (a : ManiaAttrs R) (d : ManiaSettings) (s : GenState.ManiaState) : R × R :=
  PerfCalc.maniaCalculate a.stars d.mods (maniaStateOf s)

def maniaFull (a : ManiaAttrs R) (d : ManiaSettings) (b : ManiaB R) : Res (R × R) :=
  GenState.maniaCalculate (fun _ s => maniaFormula a d s) (maniaCfgOf a d) b

/-! ## The builders of `Model/MapOrAttrs.lean`, instantiated

`MapOrAttrs.calculate diff gen ppCalc` (C04) has three opaque functions.  `gen` and `ppCalc` are instantiated
here by the concrete halves; `diff` (the difficulty calculation of a map) stays a parameter.  The state type
is `Res <Mode>State` (`generate_state` may stop on a u32 overflow, modelled by `Res.panic`; `?` only
propagates the `ConvertError` of the map path, which is part of `diff`).  `Props/C12c.lean` proves that on
`Src.attrs` this *is* `<mode>Full`, and compares the argument lists of the functions below (`fullPerfReads`)
with what the extracted skeletons of the four real functions read. -/

def osuGenOf (a : OsuAttrs R) (d : OsuSettings) (x : OsuB R) : Res GenState.OsuState :=
  (osuGen (osuCfgOf a d) x).map Prod.fst
def osuPpOf (sf : Special R) (a : OsuAttrs R) (d : OsuSettings) (st : Res GenState.OsuState) : Res (OsuOut R) :=
  st.map (osuFormula sf a d)

def taikoGenOf (a : TaikoAttrs R) (d : TaikoSettings) (x : TaikoB R) : Res GenState.TaikoState :=
  (taikoGen (taikoCfgOf a d) x).map Prod.fst
def taikoPpOf (sf : Special R) (a : TaikoAttrs R) (d : TaikoSettings) (st : Res GenState.TaikoState) :
    Res (TaikoOut R) :=
  st.map (taikoFormula sf a d)

/-- no settings argument: catch's `generate_state` does not read `self.difficulty` -/
def catchGenOf (a : CatchFullAttrs R) (x : CatchB R) : Res GenState.CatchState :=
  (catchGen (catchCfgOf a) x).map Prod.fst
def catchPpOf (a : CatchFullAttrs R) (d : CatchSettings) (st : Res GenState.CatchState) : Res R :=
  st.map (catchFormula a d)

def maniaGenOf (a : ManiaAttrs R) (d : ManiaSettings) (x : ManiaB R) : Res GenState.ManiaState :=
  (maniaGen (maniaCfgOf a d) x).map Prod.fst
def maniaPpOf (a : ManiaAttrs R) (d : ManiaSettings) (st : Res GenState.ManiaState) : Res (R × R) :=
  st.map (maniaFormula a d)

open MapOrAttrs in
/-- `OsuPerformance::calculate`, both sources -/
def osuBuilderCalculate {Map : Type} (sf : Special R) (diff : OsuSettings → Map → OsuAttrs R)
    (b : PB Map (OsuAttrs R) OsuSettings (OsuB R)) : Res (OsuOut R) :=
  MapOrAttrs.calculate diff osuGenOf (osuPpOf sf) b

open MapOrAttrs in
def taikoBuilderCalculate {Map : Type} (sf : Special R) (diff : TaikoSettings → Map → TaikoAttrs R)
    (b : PB Map (TaikoAttrs R) TaikoSettings (TaikoB R)) : Res (TaikoOut R) :=
  MapOrAttrs.calculate diff taikoGenOf (taikoPpOf sf) b

open MapOrAttrs in
def catchBuilderCalculate {Map : Type} (diff : CatchSettings → Map → CatchFullAttrs R)
    (b : PB Map (CatchFullAttrs R) CatchSettings (CatchB R)) : Res R :=
  MapOrAttrs.calculate diff (fun a _ x => catchGenOf a x) catchPpOf b

open MapOrAttrs in
def maniaBuilderCalculate {Map : Type} (diff : ManiaSettings → Map → ManiaAttrs R)
    (b : PB Map (ManiaAttrs R) ManiaSettings (ManiaB R)) : Res (R × R) :=
  MapOrAttrs.calculate diff maniaGenOf maniaPpOf b

/-- What the concrete functions above are given, in the vocabulary of `Gen/PerfSkeleton.lean`
(`attrs` = the attribute record, `self.difficulty` = the settings record, `self.spec` = the score fields,
`state` = the generated state): (mode, arguments of `<mode>GenOf`, arguments of `<mode>PpOf`). -/
def fullPerfReads : List (String × List String × List String) :=
  [("Osu", ["attrs", "self.difficulty", "self.spec"], ["attrs", "self.difficulty", "state"]),
   ("Taiko", ["attrs", "self.difficulty", "self.spec"], ["attrs", "self.difficulty", "state"]),
   ("Catch", ["attrs", "self.spec"], ["attrs", "self.difficulty", "state"]),
   ("Mania", ["attrs", "self.difficulty", "self.spec"], ["attrs", "self.difficulty", "state"])]

open Rosu.Gen.PerfSkeleton in
/-- the skeleton pair of `MapOrAttrs.generateState` / `MapOrAttrs.calculate` with the given read sets in
place of the opaque functions -/
def skeletonWith (genReads ppReads : List String) : List Stmt × List Stmt :=
  ([.receiver "&mut self",
    .letMatch "attrs" "self.map_or_attrs"
      [("MapOrAttrs::Map(ref map)",
         ["let v0=self.difficulty.calculate_for_mode::<MODE>(map)?", "self.map_or_attrs.insert_attrs(v0)"]),
       ("MapOrAttrs::Attrs(ref attrs)", ["attrs"])],
    .opaque genReads],
   [.receiver "mut self",
    .letExpr "state" "self.generate_state()?",
    .letMatch "attrs" "self.map_or_attrs"
      [("MapOrAttrs::Attrs(attrs)", ["attrs"]),
       ("MapOrAttrs::Map(ref map)", ["self.difficulty.calculate_for_mode::<MODE>(map)?"])],
    .retCalc "MODEPerformanceCalculator::new" "attrs" ppReads])

end Rosu.FullPerf
