import RosuModel.Model.StackingFull

/-!
# osu!: from decoded objects to the objects the difficulty code consumes (C14 / C09).  Core only.

Sources: `/repo/src/osu/convert.rs` (`convert_objects`: the `take`-limited counting `inspect`,
reflections, `finalize_nested`, `stacking` / `old_stacking` — modelled in `Model/StackingFull.lean` —,
stack-offset application, `lazy_end_pos += pos + stack_offset`), `/repo/src/osu/object.rs`
(`OsuObject::new` kind mapping hold → spinner, the three `reflect_*`, `finalize_nested`,
`OsuSlider::lazy_travel_time` with its `rotate_left`), `/repo/src/osu/difficulty/object.rs`
(`compute_slider_cursor_pos`: the follow-circle loop producing `lazy_end_pos` / `lazy_travel_dist`),
`/repo/src/osu/difficulty/scaling_factor.rs` (`ScalingFactor::new`, `stack_offset`) and the
`time_preempt` line of `OsuDifficultySetup::new`.

What `OsuSlider::new` takes from rosu-map's curve (`path.position_at`, `path.dist()`) is an INPUT:
nested positions (relative to the slider), the raw `lazy_end_pos = path.position_at(end_time_min)`,
`end_time`, nested times and kinds (the event → nested mapping is `Model/SliderEvents.lean`).

Generic in the arithmetic (`Ar R S`: `R` = f64, `S` = f32); the driver runs the IEEE instance.
-/
namespace Rosu.ConvOsu

structure Ar (R S : Type) where
  addR : R → R → R
  subR : R → R → R
  mulR : R → R → R
  divR : R → R → R
  /-- `a < b` on f64 -/
  ltR : R → R → Bool
  sqrtR : R → R
  addS : S → S → S
  subS : S → S → S
  mulS : S → S → S
  divS : S → S → S
  negS : S → S
  /-- `a < b` on f32 -/
  ltS : S → S → Bool
  /-- `x as f32` -/
  toS : R → S
  /-- `f64::from(x)` -/
  toR : S → R
  /-- `i as f32` for an `i32` -/
  intS : Int → S
  /-- integer-valued f64 literal -/
  intR : Int → R
  /-- `ASSUMED_SLIDER_RADIUS = 50 as f32 * 1.8` -/
  assumedRadius : S
  /-- `0.7_f32`, `1.00041_f32`, `-6.4_f32` -/
  c07 : S
  cAllowance : S
  cStack : S
  /-- `STACK_DISTANCE = 3.0` -/
  c3 : S

abbrev P (S : Type) := S × S

structure Nested (R S : Type) where
  pos : P S
  time : R
  /-- 0 repeat, 1 tail, 2 tick -/
  kind : Nat

structure Slider (R S : Type) where
  endTime : R
  lazyEnd : P S
  lazyDist : S
  lazyTime : R
  nested : List (Nested R S)

inductive Kind (R S : Type) where
  | circle
  | slider (s : Slider R S)
  | spinner (duration : R)

structure Obj (R S : Type) where
  pos : P S
  start : R
  stackHeight : Int
  stackOffset : P S
  kind : Kind R S

/-- decoded kinds: 0 circle, 1 slider, 2 spinner, 3 hold (→ spinner, as `OsuObject::new` does) -/
def kindTag {R S : Type} : Kind R S → Nat
  | .circle => 0
  | .slider _ => 1
  | .spinner _ => 2

variable {R S : Type}

namespace Ar
variable (A : Ar R S)
def padd (a b : P S) : P S := (A.addS a.1 b.1, A.addS a.2 b.2)
def psub (a b : P S) : P S := (A.subS a.1 b.1, A.subS a.2 b.2)
def pmul (a : P S) (k : S) : P S := (A.mulS a.1 k, A.mulS a.2 k)
/-- `Pos::length`: `f64::from(x * x + y * y).sqrt() as f32` -/
def length (a : P S) : S := A.toS (A.sqrtR (A.toR (A.addS (A.mulS a.1 a.1) (A.mulS a.2 a.2))))
def zeroP : P S := (A.intS 0, A.intS 0)
def gtR (a b : R) : Bool := A.ltR b a
/-- `f64::max` for non-NaN operands -/
def maxR (a b : R) : R := if A.ltR a b then b else a
def minS (a b : S) : S := if A.ltS b a then b else a
end Ar

/-! ## `ScalingFactor`, `time_preempt` -/

structure Scaling (R S : Type) where
  factor : S
  radius : R
  scale : S

/-- `ScalingFactor::new(cs)` -/
def scalingNew (A : Ar R S) (cs : R) : Scaling R S :=
  let scale := A.mulS (A.divS (A.toS (A.subR (A.toR (A.intS 1))
    (A.mulR (A.toR A.c07) (A.divR (A.subR cs (A.intR 5)) (A.intR 5))))) (A.intS 2)) A.cAllowance
  let radius := A.toR (A.mulS (A.intS 64) scale)
  let factor := A.divS (A.intS 50) (A.toS radius)
  let factor' :=
    if A.ltR radius (A.intR 30) then
      A.mulS factor (A.addS (A.intS 1) (A.divS (A.minS (A.subS (A.intS 30) (A.toS radius)) (A.intS 5)) (A.intS 50)))
    else factor
  ⟨factor', radius, scale⟩

/-- `ScalingFactor::stack_offset(stack_height)` -/
def stackOffset (A : Ar R S) (scale : S) (h : Int) : P S :=
  let o := A.mulS (A.mulS (A.intS h) scale) A.cStack
  (o, o)

/-- `f64::from((map_attrs.hit_windows.ar * clock_rate) as f32)` -/
def timePreempt (A : Ar R S) (arWindow clock : R) : R := A.toR (A.toS (A.mulR arWindow clock))

/-! ## `OsuSlider::lazy_travel_time` -/

/-- index of the last nested object that is a tick (`rfind`) -/
def lastTickIdx : List (Nested R S) → Option Nat
  | [] => none
  | n :: ns =>
    match lastTickIdx ns with
    | some i => some (i + 1)
    | none => if n.kind = 2 then some 0 else none

/-- `slice[idx..].rotate_left(1)` -/
def rotateFrom {α : Type} (l : List α) (idx : Nat) : List α :=
  match l.drop idx with
  | [] => l
  | x :: rest => l.take idx ++ rest ++ [x]

/-- `lazy_travel_time(start_time, duration, nested)`: the travel time and the (possibly re-ordered)
nested objects -/
def lazyTravelTime (A : Ar R S) (start dur : R) (nested : List (Nested R S)) : R × List (Nested R S) :=
  let tracking := A.maxR (A.addR (A.addR start dur) (A.intR (-36))) (A.addR start (A.divR dur (A.intR 2)))
  match lastTickIdx nested with
  | none => (A.subR tracking start, nested)
  | some idx =>
    match nested[idx]? with
    | none => (A.subR tracking start, nested)
    | some tick =>
      if A.gtR tick.time tracking then (A.subR tick.time start, rotateFrom nested idx)
      else (A.subR tracking start, nested)

/-! ## `compute_slider_cursor_pos` -/

/-- `required_movement`: `NORMALIZED_RADIUS` for a repeat that is not the last nested object, else
`ASSUMED_SLIDER_RADIUS` -/
def reqOf (A : Ar R S) (i n : Nat) (o : Nested R S) : R :=
  if i ≠ n ∧ o.kind = 0 then A.intR 50 else A.toR A.assumedRadius

/-- `curr_movement`: towards the nested object; for the last one the shorter of that and the
movement towards the lazy end position -/
def moveOf (A : Ar R S) (stackOff : P S) (i n : Nat) (o : Nested R S) (curr lazyEnd : P S) : P S :=
  if i = n ∧ A.ltS (A.length (A.psub lazyEnd curr)) (A.length (A.psub (A.padd o.pos stackOff) curr)) = true
  then A.psub lazyEnd curr else A.psub (A.padd o.pos stackOff) curr

/-- the loop over `nested.iter().zip(1..)`; `n` = `nested.len()`, state = (cursor, lazy end, dist) -/
def cursorLoop (A : Ar R S) (sf : R) (stackOff : P S) (n : Nat) :
    List (Nested R S) → Nat → P S → P S → S → P S × S
  | [], _, _, lazyEnd, dist => (lazyEnd, dist)
  | o :: os, i, curr, lazyEnd, dist =>
    let mv := moveOf A stackOff i n o curr lazyEnd
    let len := A.mulR sf (A.toR (A.length mv))
    let req := reqOf A i n o
    let ratio := A.divR (A.subR len req) len
    let curr' := if A.gtR len req then A.padd curr (A.pmul mv (A.toS ratio)) else curr
    let dist' := if A.gtR len req then A.addS dist (A.toS (A.mulR len ratio)) else dist
    cursorLoop A sf stackOff n os (i + 1) curr' (if i = n then curr' else lazyEnd) dist'

/-- `compute_slider_cursor_pos(h, radius)` -/
def computeCursor (A : Ar R S) (radius : R) (o : Obj R S) : Obj R S :=
  match o.kind with
  | .slider s =>
    let nested := (lazyTravelTime A o.start (A.subR s.endTime o.start) s.nested).2
    let sf := A.divR (A.intR 50) radius
    let (lazyEnd, dist) :=
      cursorLoop A sf o.stackOffset nested.length nested 1 (A.padd o.pos o.stackOffset) s.lazyEnd s.lazyDist
    { o with kind := .slider { s with lazyEnd := lazyEnd, lazyDist := dist } }
  | _ => o

/-! ## `convert_objects` -/

structure Counts where
  maxCombo : Nat
  nCircles : Nat
  nSliders : Nat
  nLargeTicks : Nat
  nSpinners : Nat
  deriving Repr, DecidableEq

def Counts.zero : Counts := ⟨0, 0, 0, 0, 0⟩

/-- the body of the `inspect` closure for one object -/
def countOne (c : Counts) (o : Obj R S) : Counts :=
  match o.kind with
  | .circle => { c with maxCombo := c.maxCombo + 1, nCircles := c.nCircles + 1 }
  | .slider s =>
    { c with maxCombo := c.maxCombo + 1 + s.nested.length, nSliders := c.nSliders + 1,
             nLargeTicks := c.nLargeTicks + (s.nested.filter (fun n => n.kind = 2 ∨ n.kind = 0)).length }
  | .spinner _ => { c with maxCombo := c.maxCombo + 1, nSpinners := c.nSpinners + 1 }

/-- the `inspect` over all objects with the `take` countdown -/
def countTake : Nat → List (Obj R S) → Counts → Counts
  | _, [], c => c
  | 0, _ :: _, c => c
  | take + 1, o :: os, c => countTake take os (countOne c o)

/-- reflection: 0 none (`finalize_nested`), 1 vertical, 2 horizontal, 3 both; playfield 512 × 384 -/
def reflectObj (A : Ar R S) (mode : Nat) (o : Obj R S) : Obj R S :=
  let fx := mode = 2 ∨ mode = 3
  let fy := mode = 1 ∨ mode = 3
  let pos : P S := (if fx then A.subS (A.intS 512) o.pos.1 else o.pos.1,
                    if fy then A.subS (A.intS 384) o.pos.2 else o.pos.2)
  match o.kind with
  | .slider s =>
    let lazyEnd : P S := (if fx then A.negS s.lazyEnd.1 else s.lazyEnd.1,
                          if fy then A.negS s.lazyEnd.2 else s.lazyEnd.2)
    let nested := s.nested.map (fun n =>
      { n with pos := A.padd pos (if fx then A.negS n.pos.1 else n.pos.1, if fy then A.negS n.pos.2 else n.pos.2) })
    { o with pos := pos, kind := .slider { s with lazyEnd := lazyEnd, nested := nested } }
  | _ => { o with pos := pos }

/-- `OsuObject::end_time()` -/
def Obj.endTime (A : Ar R S) (o : Obj R S) : R :=
  match o.kind with
  | .circle => o.start
  | .slider s => s.endTime
  | .spinner d => A.addR o.start d

/-- `slider.tail()`: the LAST nested tail -/
def tailOf (l : List (Nested R S)) : Option (Nested R S) := (l.reverse.find? (fun n => n.kind = 1))

/-- what the stacking passes read -/
def toSObj (A : Ar R S) (o : Obj R S) : Rosu.Stack.SObj R (P S) :=
  match o.kind with
  | .slider s =>
    ⟨1, o.pos, o.start, s.endTime, ((tailOf s.nested).map (·.pos)).getD A.zeroP,
      (s.nested.filter (fun n => n.kind = 0)).length, (tailOf s.nested).map (·.pos),
      (s.nested.find? (fun n => n.kind = 0)).map (·.pos)⟩
  | .circle => ⟨0, o.pos, o.start, o.start, o.pos, 0, none, none⟩
  | .spinner d => ⟨2, o.pos, o.start, A.addR o.start d, o.pos, 0, none, none⟩

def stackArith (A : Ar R S) : Rosu.Stack.Arith R (P S) where
  sub := A.subR
  gt := A.gtR
  close a b := A.ltS (A.length (A.psub a b)) A.c3

/-- the final loop: stack offsets and `lazy_end_pos += pos + stack_offset` -/
def applyStack (A : Ar R S) (scale : S) (o : Obj R S) (h : Int) : Obj R S :=
  let off := stackOffset A scale h
  match o.kind with
  | .slider s =>
    { o with stackHeight := h, stackOffset := off,
             kind := .slider { s with lazyEnd := A.padd s.lazyEnd (A.padd o.pos off) } }
  | _ => { o with stackHeight := h, stackOffset := off }

/-- `convert_objects(map, scaling_factor, reflection, time_preempt, take, attrs)`: `none` = an index
of the stacking pass out of range -/
def convertObjects (A : Ar R S) (scale : S) (reflection : Nat) (timePreempt stackLeniency : R)
    (version take : Nat) (objs : List (Obj R S)) (c : Counts) : Option (List (Obj R S) × Counts) :=
  let c' := countTake take objs c
  let objs := objs.map (reflectObj A reflection)
  let thr := A.mulR timePreempt stackLeniency
  let sobjs := objs.map (toSObj A)
  let heights := if version ≥ 6 then Rosu.Stack.stacking (stackArith A) thr sobjs
    else Rosu.Stack.oldStacking (stackArith A) thr sobjs
  match heights with
  | none => none
  | some hs => some ((objs.zip hs).map (fun p => applyStack A scale p.1 p.2), c')

/-- the objects as the skills see them: `convert_objects`, then `compute_slider_cursor_pos` on each -/
def prepare (A : Ar R S) (cs arWindow clock stackLeniency : R) (reflection version take : Nat)
    (objs : List (Obj R S)) : Option (List (Obj R S) × Counts × Scaling R S × R) :=
  let sc := scalingNew A cs
  let tp := timePreempt A arWindow clock
  match convertObjects A sc.scale reflection tp stackLeniency version take objs Counts.zero with
  | none => none
  | some (os, c) => some (os.map (computeCursor A sc.radius), c, sc, tp)

end Rosu.ConvOsu
