import RosuModel.Model.PipelineManiaConvert
import RosuModel.Model.PipelineWire
import RosuModel.Model.ConvOsuWire

/-!
# `PIPE maniac` wire: osu! → mania convert end to end, IEEE instance

`PIPE maniac <key mod|-> <hp> <cs> <od> <ar> <conversion_difficulty> <clock_rate> <take|-> <holdoff>
<invert> <random seed|-> <gradual indices|-> <timing points|-> <objects>` — floats as hex bit patterns (`hp`…`ar` f32).
Timing points `,`-separated `time:beat_len`.  Objects `;`-separated: `c,x,sample,ct,start` |
`s,x,sample,ct,span,start,end,seg,<nodes :-separated|->` | `e,sample,hold,short,start,end,is_hold`.
Response: `<keys> <seed> <stars> <max_combo> <n_objects> <n_hold_notes> <is_convert>` then per gradual
index ` G<i>=<stars>:<max_combo>:<n_objects>:<n_hold_notes>`.
-/
namespace Rosu.PipelineManiaConvert.Wire
open Rosu.PipelineManiaConvert Rosu.PipelineMania Rosu.PipelineWire Rosu.SkillWire Rosu.SkillOps
open Rosu.Stack.Wire Rosu.ConvOsu.Wire

def ieeeX : XOps Float Float32 where
  f32ToI32 x := x.toFloat.toInt32.toInt
  ofNatS := Float32.ofNat
  i32ToR := Float.ofInt

def nat (s : String) : Nat := s.toNat?.getD 0
def int (s : String) : Int := s.toInt?.getD 0

def parseObj (s : String) : Option (SObj Float) :=
  match s.splitOn "," with
  | ["c", x, sample, ct, start] => some (.circle (int x) (nat sample) (nat ct) (f64 start))
  | ["s", x, sample, ct, span, st, en, seg, nodes] =>
    some (.slider (int x) (nat sample) (nat ct) (int span) (int st) (int en) (int seg)
      (if nodes = "-" then [] else (nodes.splitOn ":").map nat))
  | ["e", sample, hold, short, st, en, ih] =>
    some (.spinner (nat sample) (hold = "1") (short = "1") (f64 st) (f64 en) (ih = "1"))
  | _ => none

def parseTiming (s : String) : List (Float × Float) :=
  if s = "-" then [] else (s.splitOn ",").filterMap fun t =>
    match t.splitOn ":" with
    | [a, b] => some (f64 a, f64 b)
    | _ => none

def handlePIPEMC (keys hp cs od ar cd clock take ho inv rnd gidx timing objs : String) : String :=
  let parsed := if objs = "-" then [] else (objs.splitOn ";").map parseObj
  if parsed.any Option.isNone then "bad-object"
  else
    let os := parsed.filterMap id
    let st : Settings Float Float32 :=
      ⟨if keys = "-" then none else some (nat keys), f32 hp, f32 cs, f32 od, f32 ar, f64 cd, f64 clock,
        ho = "1", inv = "1", parseTiming timing, if rnd = "-" then none else some (int rnd)⟩
    let PA := Rosu.ManiaPattern.floatArith
    let A := secArith 400.0
    let k := keysOf ieeePrep ieeeX st.keyMod st.cs st.od os
    let seed := convertSeed ieeePrep ieeeX st.hp st.cs st.od st.ar
    let tk := if take = "-" then 2 ^ 64 - 1 else nat take
    let one := match maniaConvertDifficulty ieeePrep ieeeX PA A driverFuel st tk os with
      | .ok a => s!"{h64 a.stars} {a.maxCombo} {a.nObjects} {a.nHoldNotes} {if a.isConvert then 1 else 0}"
      | .genPanic => "GENPANIC"
      | .panic => "PANIC"
      | .fuel => "FUEL"
    let gs := if gidx = "-" then [] else (gidx.splitOn ",").map nat
    let grad := if gs.isEmpty then "" else
      match maniaConvertGradual ieeePrep ieeeX PA A driverFuel st os with
      | .ok vals => String.join (gs.map fun i =>
          match (vals[i - 1]? : Option (PipelineMania.Out (Attrs Float))) with
          | some (PipelineMania.Out.ok a) => s!" G{i}={h64 a.stars}:{a.maxCombo}:{a.nObjects}:{a.nHoldNotes}"
          | some _ => s!" G{i}=X"
          | none => s!" G{i}=none")
      | _ => " GX"
    s!"{k} {seed} {one}{grad}"

end Rosu.PipelineManiaConvert.Wire
