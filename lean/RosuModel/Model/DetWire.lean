import RosuModel.Model.Bpm
import RosuModel.Model.Rng
import RosuModel.Model.Wire

/-
Driver glue for C01: `BPM`, `OSU` (xorshift PRNG) and `CS` (.NET PRNG) request lines.
f64 values cross the boundary as hexadecimal bit patterns.
-/
namespace Rosu.DetWire
open Rosu.Wire

def hexDigit (c : Char) : Nat :=
  if '0' ≤ c ∧ c ≤ '9' then c.toNat - '0'.toNat
  else if 'a' ≤ c ∧ c ≤ 'f' then c.toNat - 'a'.toNat + 10
  else if 'A' ≤ c ∧ c ≤ 'F' then c.toNat - 'A'.toNat + 10
  else 0

def hexNat (s : String) : Nat := s.toList.foldl (fun a c => a * 16 + hexDigit c) 0

def toHex (n : Nat) : String := String.ofList (Nat.toDigits 16 n)

def f64OfHex (s : String) : Float := Float.ofBits (UInt64.ofNat (hexNat s))

/-- bits of a Float; NaN is canonical (`Float.toBits` does that, the harness does the same) -/
def hexOfF64 (x : Float) : String := toHex x.toBits.toNat

def int! (s : String) : Int := s.toInt?.getD 0

/-! ### BPM -/

def parseTps (s : String) : List Bpm.TimingPoint :=
  (splitList s ";").map fun t =>
    match t.splitOn ":" with
    | [a, b] => { time := f64OfHex a, beatLen := f64OfHex b }
    | _ => { time := 0.0, beatLen := 0.0 }

def rotate1 {α} : List α → List α
  | [] => []
  | x :: xs => xs ++ [x]

/-- Interleave the two halves (a third, unrelated iteration order). -/
def shuffle {α} (l : List α) : List α :=
  let h := l.length / 2
  let a := l.take h
  let b := l.drop h
  let rec go : List α → List α → List α
    | x :: xs, y :: ys => y :: x :: go xs ys
    | [], ys => ys
    | xs, [] => xs
  go a b.reverse

/-- `BPM <last-end-bits|-> <time:beatlen;…>` → result bits under four iteration orders of the map
(insertion, reversed, rotated, interleaved), then `T` when the pre-fix comparator would have made
the result depend on the order (an exact tie for the maximum) and `U` otherwise. -/
def handleBpm (last tps : String) : String :=
  let lastEnd := if last == "-" then none else some (f64OfHex last)
  let tps := parseTps tps
  let orders : List (List (Bpm.Entry Float) → List (Bpm.Entry Float)) := [id, List.reverse, rotate1, shuffle]
  let res := orders.map fun o => hexOfF64 (Bpm.bpmWith o lastEnd tps)
  let old := orders.map fun o => hexOfF64 (Bpm.bpmOldWith o lastEnd tps)
  let tie := match old with
    | x :: xs => xs.any (· != x)
    | [] => false
  joinWith " " (res ++ [if tie then "T" else "U"])

/-! ### PRNGs -/

def small (lo hi : Int) : Bool := -2097152 < lo && lo < 2097152 && -2097152 < hi && hi < 2097152

def osuOps (s : Rng.Osu) : List String → List String
  | [] => []
  | op :: rest =>
    if op == "I" then
      let (v, s') := s.nextInt
      toString v :: osuOps s' rest
    else if op == "D" then
      let (v, s') := s.nextDoubleF
      hexOfF64 v :: osuOps s' rest
    else if op == "B" then
      let (v, s') := s.nextBool
      (if v then "1" else "0") :: osuOps s' rest
    else if op.startsWith "R" then
      match (op.drop 1).toString.splitOn ":" with
      | [a, b] =>
        let lo := int! a
        let hi := int! b
        let (v, s') := s.nextIntRangeF lo hi
        let (e, _) := s.nextIntRangeExact lo hi
        -- for small bounds the f64 computation is exact: float replay and exact model must agree
        (if small lo hi && e != v then s!"{v}!exact={e}" else toString v) :: osuOps s' rest
      | _ => ["bad-op"]
    else if op.startsWith "F" then
      match (op.drop 1).toString.splitOn ":" with
      | [a, b] =>
        let (v, s') := s.nextDoubleRangeF (f64OfHex a) (f64OfHex b)
        toString v :: osuOps s' rest
      | _ => ["bad-op"]
    else ["bad-op"]

def handleOsu (seed ops : String) : String :=
  joinWith " " (osuOps (Rng.Osu.new (int! seed)) (splitList ops ","))

def csOps (s : Rng.Csharp) : List String → List String
  | [] => []
  | op :: rest =>
    if op == "N" then
      let (v, s') := s.next
      toString v :: csOps s' rest
    else if op.startsWith "M" then
      let m := int! (op.drop 1).toString
      let (v, s') := s.nextMaxF m
      let (r, _) := s.internalSample
      let e := Rng.nextMaxExact r m
      (if 0 < m && m ≤ 65536 && e != v then s!"{v}!exact={e}" else toString v) :: csOps s' rest
    else ["bad-op"]

def handleCs (seed ops : String) : String :=
  joinWith " " (csOps (Rng.Csharp.new (int! seed)) (splitList ops ","))

end Rosu.DetWire
