import RosuModel.Model.SkillOps

/-
osu!catch from palpable objects to stars, statement by statement (core Lean only; generic in the
`f64` arithmetic `FOps F`, the `f32` arithmetic `FOps S` and the casts `Casts F S`):

* `Catcher::{calculate_catch_width, calculate_catch_width_by_scale, calculate_scale}`
                                                    — /repo/src/catch/catcher.rs
* `PalpableObject::effective_x`                    — /repo/src/catch/object/palpable.rs
* `initialize_hyper_dash`                          — /repo/src/catch/convert.rs
* `CatchDifficultyObject::new`                     — /repo/src/catch/difficulty/object.rs
* `DifficultyValues::{calculate, create_difficulty_objects, eval}` (the two-step
  `half_catcher_width`, `scaling_factor`, `take(passed_objects)`, the skill loop,
  `stars = sqrt(difficulty_value) * 4.59`)         — /repo/src/catch/difficulty/mod.rs
* the `Movement` skill: `strain_value_of`; `StrainDecaySkill::{strain_value_at,
  calculate_initial_strain}` (macro defaults)      — /repo/src/catch/difficulty/skills/movement.rs,
                                                     /repo/src/util/macros.rs
* `FloatExt::eq`                                   — /repo/src/util/float_ext.rs

Input: the palpable objects after `convert_objects` sorted them (`x`, `x_offset`, `start_time`;
`initialize_hyper_dash` only writes `hyper_dash` / `dist_to_hyper_dash`), `cs` (`map_attrs.cs as
f32`) and the clock rate.  `x`, `x_offset`, positions and distances are `f32` (`S`), times and
strains `f64` (`F`); every cast is explicit.
-/

namespace Rosu.CatchSkill
open Rosu.SkillOps
open Rosu.Skill (Obj)
open FOps

/-- `PalpableObject` -/
structure Palpable (F S : Type) where
  x : S
  xOffset : S
  startTime : F
  distToHyperDash : S
  hyperDash : Bool

/-- what `CatchDifficultyObject` carries besides `idx` / `start_time` -/
structure DObj (F S : Type) where
  deltaTime : F
  normalizedPos : S
  lastNormalizedPos : S
  strainTime : F
  lastHyperDash : Bool
  lastDistToHyperDash : S
  /-- `curr.previous(0, objects).map_or(0.0, start_time)` -/
  prevStartTime : F

section
variable {F S : Type} [FOps F] [FOps S] (C : Casts F S)

/-- `x.clamp(lo, hi)` with literal bounds `lo <= hi` (the assertion cannot fire) -/
def clampLit {R : Type} [FOps R] (x lo hi : R) : R :=
  let x := if lt x lo then lo else x
  if lt hi x then hi else x

/-- `PLAYFIELD_WIDTH` -/
def playfieldWidth : S := 512.0

/-- `PalpableObject::new(x, x_offset, start_time)` -/
def Palpable.new (x xOffset : S) (startTime : F) : Palpable F S :=
  ⟨x, xOffset, startTime, 0.0, false⟩

/-- `PalpableObject::effective_x` -/
def effectiveX (p : Palpable F S) : S := clampLit (p.x + p.xOffset) 0.0 playfieldWidth

/-! ### `Catcher` -/

def areaCatcherSize : S := 106.75
def allowedCatchRange : S := 0.8
/-- `Catcher::BASE_SPEED` -/
def baseSpeed : F := 1.0

/-- `Catcher::calculate_scale(cs)` -/
def calculateScale (cs : S) : S :=
  (C.toS (C.toF (1.0 : S) - C.toF (0.7 : S) * ((C.toF cs - 5.0) / 5.0)) / 2.0 * 1.0) * 2.0

/-- `Catcher::calculate_catch_width_by_scale(scale)` -/
def catchWidthByScale (scale : S) : S := areaCatcherSize * abs scale * allowedCatchRange

/-- `Catcher::calculate_catch_width(cs)` -/
def calculateCatchWidth (cs : S) : S := catchWidthByScale (calculateScale C cs)

/-! ### `initialize_hyper_dash` -/

/-- `last_dir: i32`, `last_excess: f64` -/
structure HState (F : Type) where
  lastDir : Int
  lastExcess : F

/-- the `half_catcher_width: f64` of `initialize_hyper_dash` -/
def hyperHalfCatcherWidth (cs : S) : F :=
  C.toF (calculateCatchWidth C cs / 2.0) / C.toF allowedCatchRange

/-- `time_to_next`: `f64::from((next.start_time as i32 - curr.start_time as i32) as f32 - 1000.0 / 60.0 / 4.0)`
(the `i32` subtraction wraps in release builds) -/
def timeToNext (curr next : Palpable F S) : F :=
  C.toF (C.ofI32 (i32Wrap (C.toI32 next.startTime - C.toI32 curr.startTime)) - (1000.0 / 60.0 / 4.0 : S))

/-- `dist_to_hyper` of one loop iteration -/
def distToHyper (hcw : F) (st : HState F) (thisDir : Int) (curr next : Palpable F S) : S :=
  let distToNext : F :=
    C.toF (abs (effectiveX next - effectiveX curr))
      - (if st.lastDir = thisDir then st.lastExcess else hcw)
  C.toS (timeToNext C curr next * baseSpeed - distToNext)

/-- body of `for i in 0..palpable_objects.len().saturating_sub(1)`; `none` = the `min <= max`
assertion of `f64::clamp(0.0, half_catcher_width)` -/
def hyperStep (hcw : F) (st : HState F) (curr next : Palpable F S) : Option (HState F × Palpable F S) :=
  let thisDir : Int := if lt (effectiveX curr) (effectiveX next) then 1 else -1
  let d := distToHyper C hcw st thisDir curr next
  if lt d 0.0 then
    some ({ lastDir := thisDir, lastExcess := hcw }, { curr with hyperDash := true })
  else
    match clampChecked (C.toF d) 0.0 hcw with
    | none => none
    | some e => some ({ lastDir := thisDir, lastExcess := e }, { curr with distToHyperDash := d })

def hyperLoop (hcw : F) : HState F → List (Palpable F S) → Option (List (Palpable F S))
  | _, [] => some []
  | _, [p] => some [p]
  | st, curr :: next :: rest =>
    match hyperStep C hcw st curr next with
    | none => none
    | some (st', curr') =>
      match hyperLoop hcw st' (next :: rest) with
      | none => none
      | some l => some (curr' :: l)

/-- `initialize_hyper_dash(cs, palpable_objects)` -/
def initializeHyperDash (cs : S) (objs : List (Palpable F S)) : Option (List (Palpable F S)) :=
  let hcw := hyperHalfCatcherWidth C cs
  hyperLoop C hcw { lastDir := 0, lastExcess := hcw } objs

/-! ### difficulty objects -/

/-- `CatchDifficultyObject::NORMALIZED_HITOBJECT_RADIUS` / `Movement::NORMALIZED_HITOBJECT_RADIUS` -/
def normalizedHitobjectRadius : S := 41.0

/-- the `half_catcher_width: f32` of `DifficultyValues::calculate` -/
def halfCatcherWidth (cs : S) : S :=
  let h := calculateCatchWidth C cs * 0.5
  h * (1.0 - (fmax (cs - 5.5) 0.0 * 0.0625))

/-- `CatchDifficultyObject::new(hit_object, last_object, clock_rate, scaling_factor, idx)` -/
def DObj.new (hit last : Palpable F S) (clockRate : F) (scalingFactor : S) (idx : Nat) (prevStart : F) :
    Obj F (DObj F S) :=
  let deltaTime := (hit.startTime - last.startTime) / clockRate
  { idx := idx
    startTime := hit.startTime / clockRate
    data :=
      { deltaTime := deltaTime
        normalizedPos := effectiveX hit * scalingFactor
        lastNormalizedPos := effectiveX last * scalingFactor
        strainTime := fmax deltaTime 40.0
        lastHyperDash := last.hyperDash
        lastDistToHyperDash := last.distToHyperDash
        prevStartTime := prevStart } }

def scanObjects (clockRate : F) (scalingFactor : S) :
    Palpable F S → Nat → F → List (Palpable F S) → List (Obj F (DObj F S))
  | _, _, _, [] => []
  | last, i, prevStart, hit :: rest =>
    let d := DObj.new hit last clockRate scalingFactor i prevStart
    d :: scanObjects clockRate scalingFactor hit (i + 1) d.startTime rest

/-- `DifficultyValues::create_difficulty_objects(clock_rate, half_catcher_width, palpable_objects)` -/
def createDifficultyObjects (clockRate : F) (halfCatcherWidth : S) :
    List (Palpable F S) → List (Obj F (DObj F S))
  | [] => []
  | first :: rest =>
    let scalingFactor := normalizedHitobjectRadius / halfCatcherWidth
    scanObjects clockRate scalingFactor first 0 0.0 rest

/-! ### the `Movement` skill -/

/-- the private fields of `Movement` that change, plus `strain_decay_skill_current_strain` -/
structure St (F S : Type) where
  lastPlayerPos : Option S
  lastDistMoved : S
  lastExactDistMoved : S
  lastStrainTime : F
  isInBuzzSection : Bool
  currentStrain : F

/-- `Movement::new(half_catcher_width, clock_rate)` (the two arguments stay parameters) -/
def St.new : St F S := ⟨none, 0.0, 0.0, 0.0, false, 0.0⟩

def absolutePlayerPositioningError : S := 16.0
def directionChangeBonus : F := 21.0
def skillMultiplier : F := 1.0
def strainDecayBase : F := 0.2
/-- `f32::EPSILON` = 2⁻²³ -/
def eps32 : S := 1.1920928955078125e-7
/-- `f64::EPSILON` = 2⁻⁵² -/
def eps64 : F := 2.220446049250313e-16

/-! `strain_value_of`, cut into its stages (same operations in the same order) -/

/-- `weighted_strain_time = curr.strain_time + 13.0 + (3.0 / self.clock_rate)` -/
def weightedStrainTime (clockRate strainTime : F) : F := strainTime + 13.0 + (3.0 / clockRate)

/-- `f64::from(dist_moved.abs()).powf(1.3) / 510.0` -/
def baseAddition (distMoved : S) : F := powf (C.toF (abs distMoved)) 1.3 / 510.0

/-- the direction-change condition:
`self.last_dist_moved.abs() > 0.1 && dist_moved.signum() != self.last_dist_moved.signum()` -/
def directionChanged (distMoved lastDistMoved : S) : Bool :=
  lt 0.1 (abs lastDistMoved) && !(beq (signum distMoved) (signum lastDistMoved))

/-- `DIRECTION_CHANGE_BONUS / (self.last_strain_time + 16.0).sqrt() * bonus_factor
* anti_flow_factor * (1.0 - (weighted_strain_time / 1000.0).powf(3.0)).max(0.0)` -/
def directionTerm (distMoved lastDistMoved : S) (lastStrainTime weighted : F) : F :=
  let bonusFactor : F := C.toF (fmin (abs distMoved) 50.0 / 50.0)
  let antiFlowFactor : F := fmax (C.toF (fmin (abs lastDistMoved) 70.0 / 70.0)) 0.38
  directionChangeBonus / sqrt (lastStrainTime + 16.0) * bonusFactor * antiFlowFactor
    * fmax (1.0 - powf (weighted / 1000.0) 3.0) 0.0

/-- `12.5 * f64::from(f32::abs(dist_moved).min(NORMALIZED_HITOBJECT_RADIUS * 2.0))
/ f64::from(NORMALIZED_HITOBJECT_RADIUS * 6.0) / sqrt_strain` -/
def movementTerm (distMoved : S) (sqrtStrain : F) : F :=
  12.5 * C.toF (fmin (abs distMoved) (normalizedHitobjectRadius * 2.0))
    / C.toF (normalizedHitobjectRadius * 6.0) / sqrtStrain

/-- `dist_addition` after the `if dist_moved.abs() > 0.1 { … }` block -/
def movedAddition (distMoved lastDistMoved : S) (lastStrainTime weighted : F) : F :=
  let distAddition := baseAddition C distMoved
  if lt 0.1 (abs distMoved) then
    let distAddition :=
      if directionChanged distMoved lastDistMoved then
        distAddition + directionTerm C distMoved lastDistMoved lastStrainTime weighted
      else distAddition
    distAddition + movementTerm C distMoved (sqrt weighted)
  else distAddition

/-- the factor of `dist_addition *= 1.0 + edge_dash_bonus * f64::from((20.0 - dist_to_hyper_dash) / 20.0)
* ((curr.strain_time * self.clock_rate).min(265.0) / 265.0).powf(1.5)` -/
def edgeFactor (edgeDashBonus : F) (lastDistToHyperDash : S) (strainTime clockRate : F) : F :=
  1.0 + edgeDashBonus * C.toF ((20.0 - lastDistToHyperDash) / 20.0)
    * powf (fmin (strainTime * clockRate) 265.0 / 265.0) 1.5

/-- the buzz-section test -/
def buzzCondition (hcw exactDistMoved lastExactDistMoved : S) (strainTime lastStrainTime : F) : Bool :=
  le (abs exactDistMoved) (hcw * 2.0)
    && floatEq eps32 exactDistMoved (-lastExactDistMoved)
    && floatEq eps64 strainTime lastStrainTime

/-- `Movement::strain_value_of(curr, _)`; `none` = the `min <= max` assertion of
`last_player_pos.clamp(curr.normalized_pos - term, curr.normalized_pos + term)` (NaN position). -/
def strainValueOf (hcw : S) (clockRate : F) (st : St F S) (o : Obj F (DObj F S)) : Option (St F S × F) :=
  let curr := o.data
  let lastPlayerPos : S := st.lastPlayerPos.getD curr.lastNormalizedPos
  let term : S := normalizedHitobjectRadius - absolutePlayerPositioningError
  match clampChecked lastPlayerPos (curr.normalizedPos - term) (curr.normalizedPos + term) with
  | none => none
  | some playerPos =>
    let distMoved : S := playerPos - lastPlayerPos
    let exactDistMoved : S := curr.normalizedPos - lastPlayerPos
    let weighted : F := weightedStrainTime clockRate curr.strainTime
    let distAddition : F := movedAddition C distMoved st.lastDistMoved st.lastStrainTime weighted
    let edgeDashBonus : F := 0.0
    let (playerPos, distAddition) : S × F :=
      if le curr.lastDistToHyperDash 20.0 then
        let (playerPos, edgeDashBonus) : S × F :=
          if curr.lastHyperDash then (curr.normalizedPos, edgeDashBonus) else (playerPos, edgeDashBonus + 5.7)
        (playerPos,
          distAddition * edgeFactor C edgeDashBonus curr.lastDistToHyperDash curr.strainTime clockRate)
      else (playerPos, distAddition)
    let (isInBuzz, distAddition) : Bool × F :=
      if buzzCondition hcw exactDistMoved st.lastExactDistMoved curr.strainTime st.lastStrainTime then
        if st.isInBuzzSection then (true, 0.0) else (true, distAddition)
      else (false, distAddition)
    some
      ({ st with
          lastPlayerPos := some playerPos
          lastDistMoved := distMoved
          lastStrainTime := curr.strainTime
          lastExactDistMoved := exactDistMoved
          isInBuzzSection := isInBuzz },
        distAddition / weighted)

/-- `StrainDecaySkill::strain_value_at` -/
def strainValueAt (hcw : S) (clockRate : F) (st : St F S) (o : Obj F (DObj F S)) : Option (St F S × F) :=
  let cur := st.currentStrain * strainDecay o.data.deltaTime strainDecayBase
  match strainValueOf C hcw clockRate { st with currentStrain := cur } o with
  | none => none
  | some (st', v) =>
    let cur := cur + v * skillMultiplier
    some ({ st' with currentStrain := cur }, cur)

/-- `StrainDecaySkill::calculate_initial_strain` (macro default) -/
def initialStrain (st : St F S) (time : F) (o : Obj F (DObj F S)) : F :=
  st.currentStrain * strainDecay (time - o.data.prevStartTime) strainDecayBase

def fns (hcw : S) (clockRate : F) : FnsV F (DObj F S) (St F S) :=
  ⟨strainValueAt C hcw clockRate, initialStrain⟩

/-- `DIFFICULTY_MULTIPLIER` of catch/difficulty/mod.rs -/
def difficultyMultiplier : F := 4.59
/-- `Movement::DECAY_WEIGHT` -/
def decayWeight : F := 0.94

/-- `DifficultyValues::calculate` after `convert_objects` produced the (sorted) palpable objects
without hyper-dash information: `initialize_hyper_dash` on the WHOLE list, then
`palpable_objects.iter().take(take)`, difficulty objects, skill loop.  Returns the palpable
objects too. -/
def calculate (A : SecArith F) (fuel : Nat) (clockRate : F) (cs : S) (take : Nat)
    (objs : List (Palpable F S)) : Res (List (Palpable F S) × StateV F (St F S)) :=
  match initializeHyperDash C cs objs with
  | none => .panic
  | some palpable =>
    let hcw := halfCatcherWidth C cs
    let diffObjects := createDifficultyObjects clockRate hcw (palpable.take take)
    (processAllV A fmax (fns C hcw clockRate) fuel (StateV.init 0.0 St.new) diffObjects).bind
      fun st => .ok (palpable, st)

/-- `Movement::into_difficulty_value()` as a function of the exported peaks -/
def difficultyValueOf (st : StateV F (St F S)) : F :=
  Rosu.Agg.difficultyValue aggOps decayWeight (exportPeaksV st)

/-- `DifficultyValues::eval`: `stars = movement_difficulty_value.sqrt() * DIFFICULTY_MULTIPLIER` -/
def starsOf (st : StateV F (St F S)) : F := sqrt (difficultyValueOf st) * difficultyMultiplier

/-! ### the gradual path (`CatchGradualDifficulty::new`) -/

/-- `CatchGradualDifficulty::new`: the same `convert_objects` (hence `initialize_hyper_dash` on the
whole list) and `create_difficulty_objects` over ALL palpable objects; `next()` number `n ≥ 1`
has processed `diff_objects[0 .. n-1]`. -/
def gradualDiffObjects (clockRate : F) (cs : S) (objs : List (Palpable F S)) :
    Option (List (Obj F (DObj F S))) :=
  (initializeHyperDash C cs objs).map fun palpable =>
    createDifficultyObjects clockRate (halfCatcherWidth C cs) palpable

/-- the skill state after the `n`-th `next()` of the gradual calculator (`n ≥ 1`) -/
def gradualState (A : SecArith F) (fuel : Nat) (clockRate : F) (cs : S) (n : Nat)
    (objs : List (Palpable F S)) : Res (StateV F (St F S)) :=
  match gradualDiffObjects C clockRate cs objs with
  | none => .panic
  | some ds =>
    processAllV A fmax (fns C (halfCatcherWidth C cs) clockRate) fuel (StateV.init 0.0 St.new)
      (ds.take (n - 1))

end

end Rosu.CatchSkill
